import MidnightZK.Model.C12.Par
import MidnightZK.Proofs.C12.Booth
import MidnightZK.Proofs.C12.Msm
import MidnightZK.Proofs.C12.MsmBest
import MidnightZK.Proofs.C12.Poly
import MidnightZK.Proofs.C12.Fft
import MidnightZK.Proofs.C12.Domain
import MidnightZK.Proofs.C12.FftIter
import MidnightZK.Proofs.C12.Interp
import MidnightZK.Proofs.C12.Ifft
import MidnightZK.Proofs.C12.Bitrev
import MidnightZK.Proofs.C12.BatchAdd
import MidnightZK.Proofs.C12.ParSites
import MidnightZK.Proofs.C12.Refine
import MidnightZK.Proofs.C12.Coset
import Mathlib.Algebra.Module.Defs
import Mathlib.Algebra.Field.GeomSum
import Mathlib.Algebra.Field.Rat
import Mathlib.Tactic.NormNum
import MidnightZK.Model.C12.Curve
import MidnightZK.Model.C12.MsmTrace
import MidnightZK.Gen.C12Consts
import MidnightZK.Gen.C12ParSites
/-!
# C12 — MSM, FFT and the evaluation-domain algebra equal their naive definitions
Property theorems (helper lemmas live in `MidnightZK/Proofs`).
-/
namespace MidnightZK.C12

/-- `parallelize` hands every index of `[0, len)` to exactly one worker, with the offset the
worker is told: for every length and every positive thread count. Index-wise maps built on it
are therefore independent of the number of threads. -/
theorem parallelize_partition (len t : Nat) (ht : 0 < t) :
    visited len t = List.range len :=
  visited_eq_range len t ht

/-- Non-vacuity: 40 items on 12 threads give the 4,4,4,4,3,…,3 split of the source comment. -/
example : (chunks 40 12).map (·.2) = [4, 4, 4, 4, 3, 3, 3, 3, 3, 3, 3, 3] := by decide

/-! ## Window size and Booth digits -/

/-- `msm_serial` / `msm_best`: whatever the number of bases, the window size `c` is at most 24
(in fact 23: `⌈ln 2^32⌉`), the largest size for which the 32-bit load of `get_booth_index`
still covers the `c+1` bits of a window after the sub-byte shift. -/
theorem window_size_le_24 (len : Nat) : chooseWindow len ≤ 24 :=
  le_trans (chooseWindow_le len) (by norm_num)

/-- …and it is at least 1 for every length below `2^32` (the code casts `len as u32`; from `2^32`
bases on, `c` can be 0 and `1 << (c - 1)` overflows). -/
theorem window_size_pos (len : Nat) (h : len < 2 ^ 32) : 1 ≤ chooseWindow len :=
  chooseWindow_pos len h

example : chooseWindow 3 = 1 ∧ chooseWindow 4 = 3 ∧ chooseWindow 31 = 3 ∧ chooseWindow 32 = 4 ∧
    chooseWindow 8103 = 9 ∧ chooseWindow 8104 = 10 := by decide

/-- `get_booth_index`: for every window size `1 ≤ w ≤ 24`, every window index and every byte
string, the `u32` load / shift / mask sequence returns the signed Booth digit of the `w+1` bits
of `2·v` at bit `w·i`. -/
theorem booth_index_eq_digit (i w : Nat) (el : List Nat) (hel : ∀ b ∈ el, b < 256)
    (hw1 : 1 ≤ w) (hw : w ≤ 24) :
    boothIndex i w el = boothDigit i w (leBytesToNat el) :=
  boothIndex_eq_digit i w el hel hw1 hw

example : boothIndex 2 3 [0xb7, 0x01] = boothDigit 2 3 0x1b7 := by decide

/-- Every digit selects one of the `2^(w-1)` buckets (or none): `|digit| ≤ 2^(w-1)`. -/
theorem booth_digit_bound (i w : Nat) (el : List Nat) (hel : ∀ b ∈ el, b < 256)
    (hw1 : 1 ≤ w) (hw : w ≤ 24) : (boothIndex i w el).natAbs ≤ 2 ^ (w - 1) := by
  rw [boothIndex_eq_digit i w el hel hw1 hw]
  exact boothDigit_bound i w _ hw1

/-- `booth_recompose`: the digits of `get_booth_index` over `n` windows of size `w` recompose the
scalar, `Σᵢ digitᵢ · 2^(w·i) = value`, for every `1 ≤ w ≤ 24` and every byte string whose value
leaves the top bit of the last window free (`msm_serial`: `n = 8·max_byte_size / c + 1`,
`msm_best`: `n = NUM_BITS / c + 1`). At `w = 25` the statement is false (the 32-bit load no longer
covers the window), hence `window_size_le_24`. -/
theorem booth_recompose (n w : Nat) (el : List Nat) (hel : ∀ b ∈ el, b < 256)
    (hw1 : 1 ≤ w) (hw : w ≤ 24) (hv : 2 * leBytesToNat el < 2 ^ (w * n)) :
    ∑ i ∈ Finset.range n, boothIndex i w el * (2 : Int) ^ (w * i) = leBytesToNat el := by
  rw [← boothDigit_recompose n w (leBytesToNat el) hw1 hv]
  apply Finset.sum_congr rfl
  intro i _
  rw [boothIndex_eq_digit i w el hel hw1 hw]

/-- Non-vacuity: `0xffff` in 6 windows of 3 bits is `-1 + 2·8^5`. -/
example : boothRow 6 3 [0xff, 0xff] = [-1, 0, 0, 0, 0, 2] := by decide

/-! ## Bucket MSM over an abstract commutative group -/

section
variable {G : Type} [AddCommGroup G]

/-- The naive definition: `Σᵢ value(coeffᵢ) · baseᵢ`. -/
def msmSpec (coeffs : List (List Nat)) (bases : List G) : G :=
  ((coeffs.zip bases).map (fun cb => leBytesToNat cb.1 • cb.2)).sum

/-- `bucket_sum_spec` — "summation by parts" adds `Σ_k (k+1)·bucket_k` to the accumulator. -/
theorem bucket_sum_spec (buckets : List G) (acc : G) :
    sumByParts buckets acc
      = acc + ∑ k ∈ Finset.range buckets.length, (k + 1) • buckets.getD k 0 := by
  rw [sumByParts_eq, wsum_eq_finset]

/-- The doubling applied to the accumulator handed to `msm_serial`. -/
def serialShift (coeffs : List (List Nat)) (len : Nat) : Nat :=
  if maxByteSize coeffs = 0 then 0
  else chooseWindow len * (maxByteSize coeffs * 8 / chooseWindow len + 1)

/-- `msm_serial_spec`: for every list of byte-string coefficients and bases (fewer than `2^32`),
`msm_serial` leaves `2^shift · acc + Σ value(coeffᵢ)·baseᵢ` in the accumulator; with the identity
as accumulator (the only way `msm_parallel` calls it) that is the naive sum. Identity bases,
repeated and opposite bases, zero and maximal scalars are all covered: `G` is any commutative
group and the statement has no side condition on the bases. -/
theorem msm_serial_spec (coeffs : List (List Nat)) (bases : List G) (acc : G)
    (hbytes : ∀ co ∈ coeffs, ∀ b ∈ co, b < 256) (hlen : bases.length < 2 ^ 32) :
    msmSerial coeffs bases acc
      = (2 ^ serialShift coeffs bases.length : Nat) • acc + msmSpec coeffs bases := by
  unfold msmSerial serialShift msmSpec
  simp only []
  have hc1 := chooseWindow_pos bases.length hlen
  have hc24 : chooseWindow bases.length ≤ 24 := le_trans (chooseWindow_le _) (by norm_num)
  set c := chooseWindow bases.length with hc
  set mbs := maxByteSize coeffs with hmbs
  have hval : ∀ co ∈ coeffs, leBytesToNat co < 256 ^ mbs := fun co hco =>
    lt_of_lt_of_le (leBytesToNat_lt_trim co (hbytes co hco))
      (Nat.pow_le_pow_right (by norm_num) (le_maxByteSize coeffs co hco))
  by_cases h0 : mbs = 0
  · simp only [h0, if_true, pow_zero, one_smul]
    have : ((coeffs.zip bases).map (fun cb => leBytesToNat cb.1 • cb.2)).sum = 0 := by
      apply List.sum_eq_zero
      intro x hx
      obtain ⟨cb, hcb, rfl⟩ := List.mem_map.mp hx
      have := hval cb.1 (List.of_mem_zip hcb).1
      rw [h0] at this
      have : leBytesToNat cb.1 = 0 := by omega
      rw [this, zero_smul]
    rw [this, add_zero]
  · simp only [h0, if_false]
    set nw := mbs * 8 / c + 1 with hnw
    have hbody : (fun (acc : G) w => sumByParts (windowBuckets w c coeffs bases) (dblN c acc))
        = (fun acc w => (2 ^ c : Nat) • acc
            + ((coeffs.zip bases).map (fun cb => boothIndex w c cb.1 • cb.2)).sum) := by
      funext acc w
      rw [sumByParts_eq, dblN_eq, wsum_windowBuckets]
      intro co hco
      exact booth_digit_bound w c co (hbytes co hco) hc1 hc24
    rw [hbody, serial_fold c _ nw acc,
      sum_windows_exchange (coeffs.zip bases) nw (fun w co => boothIndex w c co) c]
    congr 1
    apply congrArg
    apply List.map_congr_left
    intro cb hcb
    have hco := (List.of_mem_zip hcb).1
    have hcover : 2 * leBytesToNat cb.1 < 2 ^ (c * nw) := by
      have h1 := hval cb.1 hco
      have h2 : (256 : Nat) ^ mbs = 2 ^ (8 * mbs) := by rw [pow_mul]; norm_num
      have h3 : 8 * mbs + 1 ≤ c * nw := by
        have := Nat.div_add_mod (mbs * 8) c
        have hm := Nat.mod_lt (mbs * 8) hc1
        rw [hnw, Nat.mul_add, Nat.mul_one]
        omega
      calc 2 * leBytesToNat cb.1 < 2 * 2 ^ (8 * mbs) := by omega
        _ = 2 ^ (8 * mbs + 1) := by rw [pow_succ]; ring
        _ ≤ 2 ^ (c * nw) := Nat.pow_le_pow_right (by norm_num) h3
    rw [booth_recompose nw c cb.1 (hbytes cb.1 hco) hc1 hc24 hcover, natCast_zsmul]

/-- Non-vacuity (ℤ as the group): `5·7 + 300·(-2)` through one Booth window of size 1. -/
example : msmSerial [[5, 0], [44, 1]] [(7 : Int), -2] 0 = 5 * 7 + 300 * (-2) := by decide

private theorem foldl_add_map {α : Type} (f : α → G) (L : List α) (init : G) :
    L.foldl (fun a x => a + f x) init = init + (L.map f).sum := by
  induction L generalizing init with
  | nil => simp
  | cons x t ih => rw [List.foldl_cons, ih, List.map_cons, List.sum_cons, add_assoc]

private theorem msmSpec_take_drop (k : Nat) (a : List (List Nat)) (b : List G) :
    msmSpec (a.take k) (b.take k) + msmSpec (a.drop k) (b.drop k) = msmSpec a b := by
  unfold msmSpec
  have ht : (a.take k).zip (b.take k) = (a.zip b).take k := by
    simp only [List.zip_eq_zipWith, List.take_zipWith]
  have hd : (a.drop k).zip (b.drop k) = (a.zip b).drop k := by
    simp only [List.zip_eq_zipWith, List.drop_zipWith]
  rw [ht, hd, ← List.sum_append, ← List.map_append, List.take_append_drop]

private theorem par_chunks (k : Nat) (hk : 0 < k) : ∀ (fuel : Nat) (a : List (List Nat)) (b : List G)
    (init : G), (∀ co ∈ a, ∀ x ∈ co, x < 256) → a.length = b.length → a.length ≤ fuel →
    b.length < 2 ^ 32 →
    ((chunksOfFuel fuel k a).zip (chunksOfFuel fuel k b)).foldl
      (fun acc cb => acc + msmSerial cb.1 cb.2 0) init = init + msmSpec a b := by
  intro fuel
  induction fuel with
  | zero =>
    intro a b init _ hab hf _
    have ha : a = [] := List.length_eq_zero_iff.mp (by omega)
    subst ha
    simp [chunksOfFuel, msmSpec]
  | succ fuel ih =>
    intro a b init hbytes hab hf h32
    by_cases ha : a = []
    · subst ha
      simp [chunksOfFuel, msmSpec]
    · have hb : b ≠ [] := by
        intro hb; subst hb
        exact ha (List.length_eq_zero_iff.mp (by simpa using hab))
      have hk0 : k ≠ 0 := by omega
      simp only [chunksOfFuel, List.isEmpty_iff, ha, hb, hk0, or_self, if_false, List.zip_cons_cons,
        List.foldl_cons]
      have hapos : 0 < a.length := List.length_pos_iff.mpr ha
      rw [ih (a.drop k) (b.drop k) _ (fun co h => hbytes co (List.mem_of_mem_drop h))
        (by simp [hab]) (by simp; omega) (by simp; omega)]
      rw [msm_serial_spec (a.take k) (b.take k) 0 (fun co h => hbytes co (List.mem_of_mem_take h))
        (by simp; omega), smul_zero, zero_add, add_assoc, msmSpec_take_drop]

/-- `msm_parallel_spec`: for every positive number of rayon threads `t`, `msm_parallel` (chunks of
`len / t` coefficients, one `msm_serial` per chunk — each with its own window size —, results
added up) returns the naive sum. The result is therefore independent of the thread count. -/
theorem msm_parallel_spec (t : Nat) (ht : 0 < t) (coeffs : List (List Nat)) (bases : List G)
    (hbytes : ∀ co ∈ coeffs, ∀ b ∈ co, b < 256) (hlen : coeffs.length = bases.length)
    (h32 : bases.length < 2 ^ 32) :
    msmParallel t coeffs bases = msmSpec coeffs bases := by
  unfold msmParallel
  split
  · next h =>
    have hk : 0 < coeffs.length / t := Nat.div_pos (le_of_lt h) ht
    unfold chunksOf
    rw [← hlen, par_chunks _ hk coeffs.length coeffs bases 0 hbytes hlen (le_refl _) h32, zero_add]
  · rw [msm_serial_spec coeffs bases 0 hbytes h32, smul_zero, zero_add]

example : msmParallel 2 [[5], [44], [3], [9], [1]] [(7 : Int), -2, 1, 0, -7] = 35 - 88 + 3 - 7 := by
  decide

private theorem list_range_sum (f : Nat → G) (n : Nat) :
    ((List.range n).map f).sum = ∑ i ∈ Finset.range n, f i := by
  induction n with
  | zero => simp
  | succ n ih => rw [List.range_succ, List.map_append, List.sum_append, ih, Finset.sum_range_succ]; simp

/-- `msm_best_spec`: for every positive thread count, `msm_best` returns the naive sum — through
`msm_parallel` when `⌈ln len⌉ < 10`, and otherwise through the per-window batch-affine schedule:
whatever the interleaving of direct assignments, scheduled affine additions (batches of 64,
each bucket at most once per batch, cancellation to `None`) and greedy Jacobian additions for
buckets already in the batch, every window accumulates `Σ digitᵢ·baseᵢ`; identity bases are
skipped; the windows recompose the scalars. `numBits` is `Scalar::NUM_BITS`. -/
theorem msm_best_spec [DecidableEq G] (t : Nat) (ht : 0 < t) (numBits : Nat)
    (coeffs : List (List Nat)) (bases : List G)
    (hbytes : ∀ co ∈ coeffs, ∀ b ∈ co, b < 256) (hlen : coeffs.length = bases.length)
    (h32 : bases.length < 2 ^ 32) (hval : ∀ co ∈ coeffs, leBytesToNat co < 2 ^ numBits) :
    msmBest t numBits coeffs bases = msmSpec coeffs bases := by
  unfold msmBest
  simp only []
  have hc1 := chooseWindow_pos bases.length h32
  have hc24 : chooseWindow bases.length ≤ 24 := le_trans (chooseWindow_le _) (by norm_num)
  set c := chooseWindow bases.length with hc
  split
  · exact msm_parallel_spec t ht coeffs bases hbytes hlen h32
  · set nw := numBits / c + 1 with hnw
    rw [foldl_add_map, zero_add, list_range_sum]
    have hw : ∀ w, windowBest w c coeffs bases
        = (2 ^ (c * w) : Nat) • ((coeffs.zip bases).map (fun cb => boothIndex w c cb.1 • cb.2)).sum :=
      fun w => windowBest_spec w c coeffs bases
        (fun co hco => booth_digit_bound w c co (hbytes co hco) hc1 hc24)
    simp only [hw]
    rw [sum_windows_exchange (coeffs.zip bases) nw (fun w co => boothIndex w c co) c]
    unfold msmSpec
    apply congrArg
    apply List.map_congr_left
    intro cb hcb
    have hco := (List.of_mem_zip hcb).1
    have hcover : 2 * leBytesToNat cb.1 < 2 ^ (c * nw) := by
      have h1 := hval cb.1 hco
      have h3 : numBits + 1 ≤ c * nw := by
        have := Nat.div_add_mod numBits c
        have hm := Nat.mod_lt numBits hc1
        rw [hnw, Nat.mul_add, Nat.mul_one]
        omega
      calc 2 * leBytesToNat cb.1 < 2 * 2 ^ numBits := by omega
        _ = 2 ^ (numBits + 1) := by rw [pow_succ]; ring
        _ ≤ 2 ^ (c * nw) := Nat.pow_le_pow_right (by norm_num) h3
    rw [booth_recompose nw c cb.1 (hbytes cb.1 hco) hc1 hc24 hcover, natCast_zsmul]

/-- Above the threshold (`⌈ln len⌉ ≥ 10`, i.e. from 8104 bases on) `msm_best` IS the window loop
`msmBestWindows` with the natural window size — the loop the hook `verif_trace` observes, also with
a forced small window. -/
theorem msm_best_eq_windows [DecidableEq G] (t numBits : Nat) (coeffs : List (List Nat))
    (bases : List G) (h : ¬ chooseWindow bases.length < 10) :
    msmBest t numBits coeffs bases
      = msmBestWindows (chooseWindow bases.length) numBits coeffs bases := by
  unfold msmBest msmBestWindows
  simp only [h, if_false]

/-- `msm_best_windows_spec`: the batch-affine window loop of `msm_best` returns the naive sum for
EVERY window size `1 ≤ c ≤ 24` (not only the natural one): identity filter, digit → bucket,
`contains` → Jacobian / schedule, flush, summation by parts, shift by `c·w`, sum over
`NUM_BITS / c + 1` windows. -/
theorem msm_best_windows_spec [DecidableEq G] (c numBits : Nat) (hc1 : 1 ≤ c) (hc24 : c ≤ 24)
    (coeffs : List (List Nat)) (bases : List G)
    (hbytes : ∀ co ∈ coeffs, ∀ b ∈ co, b < 256) (hval : ∀ co ∈ coeffs, leBytesToNat co < 2 ^ numBits) :
    msmBestWindows c numBits coeffs bases = msmSpec coeffs bases := by
  unfold msmBestWindows
  simp only []
  set nw := numBits / c + 1 with hnw
  rw [foldl_add_map, zero_add, list_range_sum]
  have hw : ∀ w, windowBest w c coeffs bases
      = (2 ^ (c * w) : Nat) • ((coeffs.zip bases).map (fun cb => boothIndex w c cb.1 • cb.2)).sum :=
    fun w => windowBest_spec w c coeffs bases
      (fun co hco => booth_digit_bound w c co (hbytes co hco) hc1 hc24)
  simp only [hw]
  rw [sum_windows_exchange (coeffs.zip bases) nw (fun w co => boothIndex w c co) c]
  unfold msmSpec
  apply congrArg
  apply List.map_congr_left
  intro cb hcb
  have hco := (List.of_mem_zip hcb).1
  have hcover : 2 * leBytesToNat cb.1 < 2 ^ (c * nw) := by
    have h1 := hval cb.1 hco
    have h3 : numBits + 1 ≤ c * nw := by
      have := Nat.div_add_mod numBits c
      have hm := Nat.mod_lt numBits hc1
      rw [hnw, Nat.mul_add, Nat.mul_one]
      omega
    calc 2 * leBytesToNat cb.1 < 2 * 2 ^ numBits := by omega
      _ = 2 ^ (numBits + 1) := by rw [pow_succ]; ring
      _ ≤ 2 ^ (c * nw) := Nat.pow_le_pow_right (by norm_num) h3
  rw [booth_recompose nw c cb.1 (hbytes cb.1 hco) hc1 hc24 hcover, natCast_zsmul]

example : msmBestWindows 3 8 [[3], [3], [200], [1], [77], [5]] [(7 : Int), 7, -14, 4, 0, 1]
    = 3 * 7 + 3 * 7 + 200 * (-14) + 4 + 0 + 5 := by decide

/-- Non-vacuity of the schedule: one window of size 3 over ℤ with repeated, opposite and zero
bases (bucket 1 is assigned, then scheduled, then cancelled; bucket 0 goes to the Jacobian side). -/
example : windowBest 0 3 [[3], [3], [3], [1], [1], [5]] [(7 : Int), 7, -14, 4, 0, 1]
    = 3 * 7 + 3 * 7 + 3 * (-14) + 4 + 0 + (-3) * 1 := by decide

/-- `msm_zero_filter_ok` (`msm_specific`): dropping the terms whose scalar is zero before calling
the underlying MSM (blst's Pippenger or `msm_best`) does not change the sum, and the empty
remainder is the identity. -/
theorem msm_zero_filter_ok (inner : List (List Nat) → List G → G)
    (hinner : ∀ cs bs, cs.length = bs.length → inner cs bs = msmSpec cs bs)
    (coeffs : List (List Nat)) (bases : List G) :
    msmSpecific inner coeffs bases = msmSpec coeffs bases := by
  unfold msmSpecific
  simp only []
  set kept := (coeffs.zip bases).filter (fun cb => decide (leBytesToNat cb.1 ≠ 0)) with hkept
  have hsum : msmSpec (kept.map (·.1)) (kept.map (·.2)) = msmSpec coeffs bases := by
    unfold msmSpec
    have hz : (kept.map (·.1)).zip (kept.map (·.2)) = kept :=
      (List.zip_of_prod (xs := kept) rfl rfl).symm
    rw [hz, hkept]
    generalize coeffs.zip bases = L
    induction L with
    | nil => simp
    | cons x t ih =>
      by_cases hx : leBytesToNat x.1 = 0
      · rw [List.filter_cons_of_neg (by simp [hx]), ih, List.map_cons, List.sum_cons, hx, zero_smul,
          zero_add]
      · rw [List.filter_cons_of_pos (by simp [hx]), List.map_cons, List.sum_cons, ih, List.map_cons,
          List.sum_cons]
  split
  · next h =>
    have : kept = [] := List.isEmpty_iff.mp h
    rw [← hsum, this]; simp [msmSpec]
  · rw [hinner _ _ (by simp), hsum]

example : msmSpecific (fun cs bs => msmSerial cs bs (0 : Int)) [[0], [3], [0, 0]] [5, 7, 11] = 21 := by
  decide

end

/-! ## The batch-affine path of `msm_best`: `Schedule` and `batch_add` -/

section
variable {G : Type} [AddCommGroup G] [DecidableEq G]

/-- `schedule_invariant`: the state of `Schedule` always satisfies "the pending entries target
pairwise distinct buckets, each of which holds a point" (`Sched.Inv`), with fewer than
`BATCH_SIZE = 64` entries pending and an unchanged number of buckets: it holds for `Schedule::new`
and is preserved by `Schedule::add` whenever the caller checked `!sched.contains(buck_idx)` first
(as `msm_best` does), including across the flush at 64 entries. This is exactly what `batch_add`
needs (`batch_add_spec`): no bucket is read and written by two entries of one batch, and no entry
meets an empty bucket. -/
theorem schedule_invariant (s : Sched G) (P : G) (b : Nat) (sign : Bool) (h : s.Inv)
    (hlen : s.pending.length < 64) (hc : s.contains b = false) (hb : b < s.buckets.length) :
    (s.add P b sign).Inv ∧ (s.add P b sign).pending.length < 64 ∧
      (s.add P b sign).buckets.length = s.buckets.length := by
  obtain ⟨_, h2, h3⟩ := Sched.add_spec s P b sign h hc hb
  refine ⟨h2, ?_, h3⟩
  rw [Sched.add_eq]
  have hl : (s.add1 P b sign).pending.length ≤ s.pending.length + 1 := by
    unfold Sched.add1
    split <;> simp
  split
  · simp [Sched.execute]
  · next hne => omega

omit [AddCommGroup G] [DecidableEq G] in
/-- The invariant holds initially (`Schedule::new`: all buckets `None`, nothing pending). -/
theorem schedule_invariant_init (n : Nat) :
    ({ buckets := List.replicate n none, pending := [] } : Sched G).Inv := by
  unfold Sched.Inv; simp

omit [AddCommGroup G] [DecidableEq G] in
/-- A quirk of `Schedule::contains` (it scans all 64 slots, and unused slots hold `buck_idx = 0`):
bucket 0 is reported as "already scheduled" whenever the batch is not full, i.e. always — bucket 0
never uses the affine path (a performance matter only: the Jacobian side is equally correct). -/
theorem bucket_zero_never_scheduled (s : Sched G) (hlen : s.pending.length < 64) :
    s.contains 0 = true := by
  unfold Sched.contains
  simp [hlen]

omit [AddCommGroup G] [DecidableEq G] in
/-- `contains` is sound: a bucket it does not report is not in the pending batch. -/
theorem contains_sound (s : Sched G) (b : Nat) (h : s.contains b = false) :
    b ∉ s.pending.map (·.1) :=
  s.not_mem_of_contains b h

end

section
variable {F : Type} [Field F] [DecidableEq F]

/-- `batch_add_spec`: under the schedule invariant (pairwise distinct buckets, each holding a point,
valid base indices — `schedule_invariant`) and when no tangent is vertical (`2y ≠ 0` for a bucket
that is doubled: the curves here have no point of order two), the two loops of `batch_add` with
their single shared inversion (`t_i = acc_i·num_i`, `acc *= z_i`; then backwards
`λ_i = acc·t_i`, `acc *= z_i`) never panic and perform, for every scheduled entry independently,
the affine chord step (`x` different: `λ = (y_B ∓ y_P)/(x_B − x_P)`), the tangent step (same `x`,
`y` equal up to the sign: `λ = 3x²/2y`) or the cancellation (`set_inf`), each with its own
quotient — for every batch size and every order. Outside these hypotheses the model still follows
the code (correspondence lines `batchadd-*-dup`, `-vertical`). -/
theorem batch_add_spec (bases : List (Aff F)) (buckets : List (Option (Aff F)))
    (points : List SchedPt) (hok : BatchOk bases buckets points) :
    batchAdd (fun a => if a = 0 then none else some a⁻¹) bases buckets points
      = some (specFold bases points buckets) :=
  batchAdd_eq_specFold bases buckets points hok

/-- Non-vacuity over ℚ on `y² = x³ + 1`-like data: a chord `(0,1) + (2,3)`, a doubling of `(2,3)`
and a cancellation `(2,3) + (2,−3)` in one batch sharing one inversion. -/
example :
    batchAdd (fun a : ℚ => if a = 0 then none else some a⁻¹)
      [⟨2, 3⟩, ⟨2, -3⟩] [some ⟨0, 1⟩, some ⟨2, 3⟩, some ⟨2, 3⟩, none]
      [⟨0, 0, true⟩, ⟨0, 1, true⟩, ⟨1, 2, true⟩]
      = some [some ⟨-1, 0⟩, some ⟨0, 1⟩, none, none] := by
  unfold batchAdd
  norm_num [baFwd, baFwdStep, baBwd, baBwdStep]

/-- On `y² = x³ + b`, the equal-`x` decision of `batch_add` (`(y_B == y_P) ^ !sign`) is the right
one: "doubling" is taken exactly when the bucket IS the signed point `±P`, `set_inf` exactly when
it is its opposite — the claim in the source comment ("this uses the fact that x1 == x2 and both
points satisfy the curve eq."). Every `CurveAffine` of the crate has `a = 0` (the tangent slope
`3x²/2y` has no `+a`). -/
theorem batch_add_decision_sound (b : F) (B P : Aff F) (sign : Bool) (hB : B.y ^ 2 = B.x ^ 3 + b)
    (hP : P.y ^ 2 = P.x ^ 3 + b) (hx : B.x = P.x) :
    (((decide (B.y = P.y)) != (!sign)) = true → B.y = (if sign then P.y else -P.y)) ∧
    (((decide (B.y = P.y)) != (!sign)) = false → B.y = -(if sign then P.y else -P.y)) :=
  batch_add_decision b B P sign hB hP hx

/-- Closure of one entry's step: for on-curve operands (no vertical tangent) the new bucket is on
the curve `y² = x³ + b` again, in the chord and in the tangent case, for both signs. (That the
chord/tangent point is the group sum — associativity etc. — is the group law of C11.) -/
theorem batch_add_on_curve (b : F) (B P R : Aff F) (sign : Bool)
    (hB : B.y ^ 2 = B.x ^ 3 + b) (hP : P.y ^ 2 = P.x ^ 3 + b) (hy : B.x = P.x → B.y + B.y ≠ 0)
    (hR : affAddSigned B P sign = some R) : R.y ^ 2 = R.x ^ 3 + b :=
  affAddSigned_on_curve b B P R sign hB hP hy hR

end

/-! ### Refinement: coordinate-level `batch_add` implements the abstract-group `Schedule` -/

section
variable {F : Type} [Field F] [DecidableEq F] {G : Type} [AddCommGroup G] [DecidableEq G]

/-- `batch_add_refines_schedule`: the two models of the batch-affine path are tied to each other.
Given the affine group law of `y² = x³ + b` as the single hypothesis `AffineLaw b φ` (finite points
are non-zero group elements, `(x, −y)` is the opposite, the chord / tangent point of non-opposite
points is the sum — C11's subject), for every batch satisfying the schedule invariant over on-curve
buckets and bases, the coordinate-level `batch_add` (two loops, ONE inversion) succeeds and its
buckets read through `φ` are exactly the buckets the abstract-group `Schedule::execute` — the one
`msm_best_spec` is proved about — produces from the same pending entries: chord ↦ sum, tangent ↦
double, `set_inf` ↦ `None` exactly when the group sum is zero. -/
theorem batch_add_refines_schedule (b : F) (φ : Aff F → G) (law : AffineLaw b φ)
    (bases : List (Aff F)) (buckets : List (Option (Aff F))) (points : List SchedPt)
    (hok : BatchOk bases buckets points) (hbk : ∀ B, some B ∈ buckets → OnCurve b B)
    (hbs : ∀ P ∈ bases, OnCurve b P) :
    ∃ out, batchAdd (fun a => if a = 0 then none else some a⁻¹) bases buckets points = some out ∧
      out.map (Option.map φ)
        = (Sched.execute { buckets := buckets.map (Option.map φ),
                           pending := points.map (absEntry φ bases) }).buckets :=
  batchAdd_refines_execute b φ law bases buckets points hok hbk hbs

omit [DecidableEq F] [DecidableEq G] in
/-- …and the coordinate-level invariant is the abstract one: a `BatchOk` batch stands for an
abstract schedule state satisfying `Sched.Inv` (`schedule_invariant`). The hypotheses of the
refinement other than the law are satisfiable (`batch_add_spec`'s example over ℚ); `AffineLaw`
itself is the classical group law of the curve and is NOT instantiated in this project. -/
theorem batch_ok_gives_schedule_inv (φ : Aff F → G) (bases : List (Aff F))
    (buckets : List (Option (Aff F))) (points : List SchedPt) (hok : BatchOk bases buckets points) :
    (Sched.Inv { buckets := buckets.map (Option.map φ), pending := points.map (absEntry φ bases) } : Prop) :=
  hok.toInv φ bases buckets points

/-- Non-vacuity of the non-law hypotheses: the ℚ batch of `batch_add_spec`'s example (chord,
doubling — the cancellation entry left out since `(2,−3)` would need its own bucket) satisfies
`BatchOk` and the on-curve conditions for `y² = x³ + 1`. -/
example : BatchOk [(⟨2, 3⟩ : Aff ℚ)] [some ⟨0, 1⟩, some ⟨2, 3⟩] [⟨0, 0, true⟩, ⟨0, 1, true⟩] ∧
    OnCurve (1 : ℚ) ⟨2, 3⟩ ∧ OnCurve (1 : ℚ) ⟨0, 1⟩ := by
  refine ⟨⟨by decide, ?_⟩, by norm_num [OnCurve], by norm_num [OnCurve]⟩
  intro e he
  simp only [List.mem_cons, List.not_mem_nil, or_false] at he
  rcases he with rfl | rfl
  · exact ⟨⟨0, 1⟩, ⟨2, 3⟩, rfl, rfl, by norm_num⟩
  · exact ⟨⟨2, 3⟩, ⟨2, 3⟩, rfl, rfl, by norm_num⟩

end

/-! ## Polynomial helpers (`proofs/src/utils/arithmetic.rs`) over a commutative ring -/

section
variable {F : Type} [CommRing F]

/-- The serial evaluator of `eval_polynomial` (`fold` from the top coefficient) is `Σ cᵢ·xⁱ`. -/
theorem horner_spec (poly : List F) (x : F) :
    horner poly x = ∑ i ∈ Finset.range poly.length, poly.getD i 0 * x ^ i :=
  horner_eq_sum poly x

/-- `eval_chunked_eq_horner`: for every positive thread count and every length, the chunked
evaluation (`⌈n/t⌉`-sized chunks, each Horner-evaluated and multiplied by `x^(start)`, summed
over `t` slots) equals the plain Horner evaluation. -/
theorem eval_chunked_eq_horner (t : Nat) (ht : 0 < t) (poly : List F) (x : F) :
    evalPolynomial t poly x = horner poly x := by
  unfold evalPolynomial
  simp only []
  split
  · rfl
  · next hn =>
    have hpos : 0 < poly.length := by omega
    have hcs : 0 < (poly.length + t - 1) / t := Nat.div_pos (by omega) ht
    rw [foldl_add_eq_sum, zero_add, List.sum_append]
    have hz : (List.replicate (t - ((chunksOf ((poly.length + t - 1) / t) poly).zipIdx.map
        (fun ci => horner ci.1 x * powN x (ci.2 * ((poly.length + t - 1) / t)))).length) (0 : F)).sum = 0 := by
      simp
    rw [hz, add_zero]
    unfold chunksOf
    have := chunk_sum _ hcs x poly.length poly 0 (le_refl _)
    simpa using this

example : evalPolynomial 3 [(1 : Int), 2, 3, 4, 5, 6, 7] 2 = horner [1, 2, 3, 4, 5, 6, 7] 2 := by decide

/-- `kate_division_spec`: for every coefficient vector `a` and every `b`, `kate_division` returns
`q` with `len q = len a − 1` (saturating) and `a(X) = q(X)·(X − b) + a(b)` (as polynomial functions,
on every `x`); in particular the division is exact when `b` is a root. -/
theorem kate_division_spec (a : List F) (b : F) :
    (kateDivision a b).length = a.length - 1 ∧
      ∀ x, horner a x = horner (kateDivision a b) x * (x - b) + horner a b := by
  cases a with
  | nil => simp [kateDivision, horner_nil]
  | cons c t =>
    unfold kateDivision
    simp only [List.length_cons, Nat.add_sub_cancel]
    have htake : (c :: t).reverse.take t.length = t.reverse := by
      rw [List.reverse_cons]
      exact List.take_left' (by simp)
    rw [htake, List.foldl_reverse]
    by_cases ht : t = []
    · subst ht
      refine ⟨by simp, ?_⟩
      intro x; simp [horner_cons, horner_nil]
    · have hf : t.foldr (fun r (st : List F × F) => ((r - st.2) :: st.1, (r - st.2) * -b)) ([], 0)
          = ((synth b t).2 :: (synth b t).1, (synth b t).2 * -b) := kate_fold b t ht
      have hf' : (List.foldr (fun x (y : List F × F) => ((x - y.2) :: y.1, (x - y.2) * -b)) ([], 0) t).1
          = (synth b t).2 :: (synth b t).1 := by rw [hf]
      rw [hf']
      refine ⟨?_, ?_⟩
      · have := synth_length b t
        have hpos : 0 < t.length := List.length_pos_iff.mpr ht
        simp only [List.length_cons]; omega
      · intro x
        have h1 := synth_spec b t x
        have h2 := synth_rem b t
        rw [horner_cons, horner_cons, horner_cons, h1, h2]
        ring

example : kateDivision [(-6 : Int), 11, -6, 1] 1 = [6, -5, 1] := by decide

end

/-! ## FFT (`curves/src/fft.rs`) -/

section
variable {F : Type} [CommRing F]

/-- The transform `best_fft` documents: the coefficient vector `a` is mapped to the evaluations of
its polynomial at `ω⁰, ω¹, …, ω^(n-1)`. -/
def dft (ω : F) (a : List F) : List F := (List.range a.length).map (fun i => horner a (ω ^ i))

/-- `fft_recursive_eq_dft`: for every `k`, every vector of length `2^k` and every `ω` with
`ω^(2^(k-1)) = −1` (a primitive `2^k`-th root of unity), `recursive_butterfly_arithmetic` run on
the bit-reversed vector with the twiddle table `[1, ω, …, ω^(n/2−1)]` returns the DFT. -/
theorem fft_recursive_eq_dft (k : Nat) (a : List F) (ω : F) (hlen : a.length = 2 ^ k)
    (hω : 1 ≤ k → ω ^ (2 ^ (k - 1)) = -1) :
    fftRec (twiddles ω (2 ^ k / 2) 1).toArray k 1 (bitrevList k a) = dft ω a := by
  unfold dft
  rw [hlen]
  cases k with
  | zero =>
    match a, hlen with
    | [c], _ => simp [fftRec, bitrevList, horner_cons, horner_nil]
  | succ k =>
    have h := fftRec_spec (twiddles ω (2 ^ (k + 1) / 2) 1).toArray ω (2 ^ (k + 1) / 2)
      (fun m hm => by rw [twiddles_getD ω _ 1 m hm, one_mul])
      (k + 1) 1 a (by norm_num) hlen
      (by have : 2 ^ (k + 1) = 2 * 2 ^ k := by rw [pow_succ]; ring
          omega)
      (by intro hk; simpa using hω hk)
    simpa using h

omit [CommRing F] in
private theorem blockMap_zero [Add F] [Sub F] [Mul F] [One F] (tw : Array F) (tc : Nat) :
    ∀ a : List F, blockMap tw 0 tc a = a
  | [] => blockMap_nil tw 0 tc
  | x :: t => by
    have h := blockMap_append tw 0 tc [x] t (by simp)
    simp only [List.singleton_append] at h
    rw [h, blockMap_zero tw tc t]
    simp [fftRec]

/-- `fft_iterative_eq_recursive`: for every `k`, every twiddle table and every vector of length
`2^k`, the `k` in-place stages of the iterative path (`chunk = 2, 4, …`, `twiddle_chunk = n/2,
n/4, …`) produce exactly what `recursive_butterfly_arithmetic` produces: the choice between the two
by thread count (`log_n ≤ log2(threads)`) cannot change the result. -/
theorem fft_iterative_eq_recursive (tw : Array F) (k : Nat) (a : List F) (hlen : a.length = 2 ^ k) :
    fftIterLoop tw k 2 (2 ^ k / 2) a = fftRec tw k 1 a := by
  have h := iterLoop_blockMap tw k 0 a (2 ^ k / 2)
    (by intro hk
        have : 2 ^ k = 2 * 2 ^ (k - 1) := by rw [← pow_succ', Nat.sub_add_cancel hk]
        omega)
    (by simpa using hlen)
  rw [blockMap_zero] at h
  simp only [Nat.zero_add, pow_one] at h
  rw [h]
  unfold blockMap
  rw [chunksOf_single _ (by positivity) a hlen]
  simp

/-- The swap loop of `best_fft` (`for k in 0..n { let rk = bitreverse(k, log_n); if k < rk {
a.swap(rk, k) } }` with the shift-and-or `bitreverse`) is the even/odd recursive bit-reversal
permutation, for EVERY `log_n` and every vector of length `2^log_n`: `bitreverse` is an
involution of `[0, 2^k)` (`bitreverse_involution`) that sends `b_{k-1}…b_0` to `b_0…b_{k-1}`
(`bitreverse_low_bit` / `bitreverse_high_bit`), so swapping each pair once (`k < rk`) leaves
`a[bitreverse i]` at position `i`. -/
theorem bitrev_swap_eq_rec {α : Type} [Add α] [Sub α] [Mul α] [One α] (k : Nat) (a : List α)
    (hlen : a.length = 2 ^ k) :
    (bitrevPermute k a.toArray).toList = bitrevList k a :=
  bitrevPermute_eq_bitrevList k a hlen

/-- `bitreverse(·, l)` always lands in `[0, 2^l)` and is an involution there. -/
theorem bitreverse_involution (k i : Nat) (hi : i < 2 ^ k) :
    bitreverse i k < 2 ^ k ∧ bitreverse (bitreverse i k) k = i :=
  ⟨bitreverse_lt k i, bitreverse_invol k i hi⟩

/-- The low bit of the argument becomes the high bit of the result
(`b_{k}…b_1 b_0 ↦ b_0 · 2^k + rev(b_k…b_1)`)… -/
theorem bitreverse_low_bit (n l : Nat) :
    bitreverse n (l + 1) = (n % 2) * 2 ^ l + bitreverse (n / 2) l :=
  bitreverse_succ n l

/-- …and the high bit becomes the low bit (`i < 2^k`: `rev_{k+1}(i) = 2·rev_k(i)`,
`rev_{k+1}(2^k + i) = 2·rev_k(i) + 1`): `bitreverse` reverses the `k` low bits. -/
theorem bitreverse_high_bit (k i : Nat) (hi : i < 2 ^ k) :
    bitreverse i (k + 1) = 2 * bitreverse i k ∧
    bitreverse (2 ^ k + i) (k + 1) = 2 * bitreverse i k + 1 :=
  bitreverse_high k i hi

example : bitreverse 0b0011 4 = 0b1100 ∧ bitreverse 0b1011 4 = 0b1101 := by decide

/-- `best_fft`, both paths, every thread count: it returns the DFT of its input (evaluations at
`ω⁰ … ω^(n−1)`) for every `k`, every vector of length `2^k` and every primitive `2^k`-th root `ω`
(`ω^(2^(k−1)) = −1`) — no size cap: the in-place swap loop is the bit-reversal permutation for
every `k` (`bitrev_swap_eq_rec`). A wrong length is rejected (`assert_eq!`). -/
theorem best_fft_eq_dft (t k : Nat) (a : List F) (ω : F) (hlen : a.length = 2 ^ k)
    (hω : 1 ≤ k → ω ^ (2 ^ (k - 1)) = -1) :
    bestFft t a ω k = some (dft ω a) := by
  have hperm := bitrev_swap_eq_rec k a hlen
  unfold bestFft
  simp only [hlen, ne_eq, not_true_eq_false, if_false, hperm]
  have hbl : (bitrevList k a).length = 2 ^ k := length_bitrevList k a hlen
  split
  · rw [fft_iterative_eq_recursive _ k _ hbl, fft_recursive_eq_dft k a ω hlen hω]
  · rw [fft_recursive_eq_dft k a ω hlen hω]

/-- `best_fft` rejects every other length (the `assert_eq!(n, 1 << log_n)`). -/
theorem best_fft_wrong_length (t k : Nat) (a : List F) (ω : F) (hlen : a.length ≠ 2 ^ k) :
    bestFft t a ω k = none := by
  unfold bestFft
  simp [hlen]

example : bestFft 4 [(3 : Int), 5] (-1) 1 = some [8, -2] := by decide
example : bestFft 1 [(3 : Int), 5] (-1) 1 = some [8, -2] := by decide

end

section
variable {F : Type} [CommRing F]

/-- The DFT matrix is symmetric: `Σᵢ eᵢ·DFT(g)ᵢ = Σⱼ gⱼ·DFT(e)ⱼ`. -/
theorem dft_symmetric (ω : F) (e g : List F) (hlen : e.length = g.length) :
    ∑ i ∈ Finset.range e.length, e.getD i 0 * (dft ω g).getD i 0
      = ∑ j ∈ Finset.range e.length, g.getD j 0 * (dft ω e).getD j 0 := by
  have hd : ∀ (a : List F) (i : Nat), i < a.length →
      (dft ω a).getD i 0 = ∑ l ∈ Finset.range a.length, a.getD l 0 * (ω ^ i) ^ l := by
    intro a i hi
    have : (dft ω a).getD i 0 = horner a (ω ^ i) := by simp [dft, List.getD, hi]
    rw [this, horner_eq_sum]
  have h1 : ∀ i ∈ Finset.range e.length, e.getD i 0 * (dft ω g).getD i 0
      = ∑ l ∈ Finset.range e.length, e.getD i 0 * (g.getD l 0 * ω ^ (i * l)) := by
    intro i hi
    rw [hd g i (by rw [← hlen]; exact Finset.mem_range.mp hi), ← hlen, Finset.mul_sum]
    apply Finset.sum_congr rfl
    intro l _
    rw [← pow_mul]
  have h2 : ∀ j ∈ Finset.range e.length, g.getD j 0 * (dft ω e).getD j 0
      = ∑ l ∈ Finset.range e.length, g.getD j 0 * (e.getD l 0 * ω ^ (j * l)) := by
    intro j hj
    rw [hd e j (Finset.mem_range.mp hj), Finset.mul_sum]
    apply Finset.sum_congr rfl
    intro l _
    rw [← pow_mul]
  rw [Finset.sum_congr rfl h1, Finset.sum_congr rfl h2, Finset.sum_comm]
  apply Finset.sum_congr rfl
  intro j _
  apply Finset.sum_congr rfl
  intro i _
  rw [Nat.mul_comm i j]; ring

/-- `lagrange_commit_eq_coeff_commit` (on discrete logarithms of the SRS): with the Lagrange SRS
`g_lagrange = g_to_lagrange(g) = (1/n)·DFT_{ω⁻¹}(g)` and the coefficient vector
`c = lagrange_to_coeff(e) = (1/n)·DFT_{ω⁻¹}(e)`, the Lagrange-basis commitment `Σ eᵢ·g_lagrangeᵢ`
equals the monomial-basis commitment `Σ cⱼ·gⱼ` — for every SRS vector `g`, not only `gⱼ = sʲ`. -/
theorem lagrange_commit_eq_coeff_commit (ωinv ninv : F) (e g : List F) (hlen : e.length = g.length) :
    ∑ i ∈ Finset.range e.length, e.getD i 0 * ((dft ωinv g).getD i 0 * ninv)
      = ∑ j ∈ Finset.range e.length, ((dft ωinv e).getD j 0 * ninv) * g.getD j 0 := by
  have h := dft_symmetric ωinv e g hlen
  have h' := congrArg (· * ninv) h
  simp only [Finset.sum_mul] at h'
  rw [show (∑ i ∈ Finset.range e.length, e.getD i 0 * ((dft ωinv g).getD i 0 * ninv))
      = ∑ i ∈ Finset.range e.length, e.getD i 0 * (dft ωinv g).getD i 0 * ninv from
    Finset.sum_congr rfl (fun i _ => by ring), h']
  exact Finset.sum_congr rfl (fun j _ => by ring)

end

/-- The swap loop of `best_fft` (`if k < rk { a.swap(rk, k) }` with the shift-and-or `bitreverse`)
is the even/odd recursive bit-reversal permutation — checked on the position vector
`[0, …, 2^k − 1]` for every `k ≤ 7` by kernel evaluation (kept as an independent evaluation of the
executable definitions; the statement for every `k` is `bitrev_swap_eq_rec`). -/
theorem bitrev_swap_eq_rec_upto_7 :
    ∀ k ∈ List.range 8,
      (bitrevPermute k (List.range (2 ^ k)).toArray).toList = bitrevList k (List.range (2 ^ k)) := by
  decide +kernel

/-! ## Evaluation domain (`proofs/src/poly/domain.rs`): conversions -/

/-- A two-point domain (`n = 2`, `ω = ω_e = minusOne`, `ζ = 1`) used by the non-vacuity examples. -/
def sampleDomain {F : Type} [One F] (minusOne half : F) : Domain F :=
  { n := 2, k := 1, extendedK := 1, omega := minusOne, omegaInv := minusOne,
    extendedOmega := minusOne, extendedOmegaInv := minusOne, gCoset := 1, gCosetInv := 1,
    quotientPolyDegree := 0, ifftDivisor := half, extendedIfftDivisor := half,
    tEvaluations := [], barycentricWeight := half }

section
variable {F : Type} [CommRing F]

/-- `coeff_to_lagrange` returns the evaluations of the polynomial on the domain `{ωⁱ}`, for every
thread count. -/
theorem coeff_to_lagrange_spec (d : Domain F) (t : Nat) (a : List F) (hlen : a.length = 2 ^ d.k)
    (hω : 1 ≤ d.k → d.omega ^ (2 ^ (d.k - 1)) = -1) :
    d.coeffToLagrange t a = some ((List.range (2 ^ d.k)).map (fun i => horner a (d.omega ^ i))) := by
  unfold Domain.coeffToLagrange
  rw [best_fft_eq_dft t d.k a d.omega hlen hω, dft, hlen]

/-- `coeff_to_extended_spec`: for every thread count, `coeff_to_extended` (scale the coefficients by
`1, ζ, ζ², 1, …`, zero-pad to `2^extended_k`, FFT with `extended_omega`) returns the evaluations of
the polynomial on the coset `ζ·{ω_eⁱ}` of the extended domain — the form in which the quotient
is computed — given `ζ³ = 1`, `g_coset_inv = ζ²` and `ω_e` a primitive `2^extended_k`-th root. -/
theorem coeff_to_extended_spec (d : Domain F) (t : Nat) (a : List F) (hlen : a.length = 2 ^ d.k)
    (hk : d.k ≤ d.extendedK) (hz : d.gCoset ^ 3 = 1) (hzi : d.gCosetInv = d.gCoset * d.gCoset)
    (hω : 1 ≤ d.extendedK → d.extendedOmega ^ (2 ^ (d.extendedK - 1)) = -1) :
    d.coeffToExtended t a
      = some ((List.range (2 ^ d.extendedK)).map
          (fun i => horner a (d.gCoset * d.extendedOmega ^ i))) := by
  unfold Domain.coeffToExtended
  simp only [hlen, ne_eq, not_true_eq_false, if_false]
  have hdl : (distributePowersZeta d a true).length = 2 ^ d.k := by
    simp [distributePowersZeta, hlen]
  have hle : 2 ^ d.k ≤ 2 ^ d.extendedK := Nat.pow_le_pow_right (by norm_num) hk
  have hl2 : (distributePowersZeta d a true
      ++ List.replicate (2 ^ d.extendedK - (distributePowersZeta d a true).length) 0).length
      = 2 ^ d.extendedK := by
    rw [List.length_append, List.length_replicate, hdl]; omega
  rw [best_fft_eq_dft t d.extendedK _ d.extendedOmega hl2 hω, dft, hl2]
  congr 1
  apply List.map_congr_left
  intro i _
  rw [horner_append_zeros, horner_distribute d hz hzi]

/-- Non-vacuity over ℤ (`ζ = 1`, `ω = ω_e = −1`, `k = 1`, `extended_k = 2` would need `i`; here
`extended_k = k = 1`): `3 + 5X` on `{1, −1}`. -/
example :
    (sampleDomain (-1 : Int) 0).coeffToExtended 3 [3, 5] = some [8, -2] ∧
    (sampleDomain (-1 : Int) 0).coeffToLagrange 1 [3, 5] = some [8, -2] := by
  decide

end

section
variable {F : Type} [CommRing F]

private theorem map_zip_mul (a : List F) : ∀ b : List F,
    (a.zip b).map (fun ab => ab.1 * ab.2) = List.zipWith (· * ·) a b := by
  induction a with
  | nil => intro b; simp
  | cons x t ih =>
    intro b
    cases b with
    | nil => simp
    | cons y u => simp [ih]

/-- `compute_inner_product(a, b)` is `Σ aᵢ·bᵢ` for equal lengths (every length) and panics
(`assert_eq!`) otherwise. -/
theorem compute_inner_product_spec (a b : List F) :
    computeInnerProduct a b
      = if a.length = b.length then some ((List.zipWith (· * ·) a b).sum) else none := by
  unfold computeInnerProduct
  by_cases h : a.length = b.length
  · simp only [h, ne_eq, not_true_eq_false, if_false, if_true]
    rw [foldl_add_map (fun ab : F × F => ab.1 * ab.2) (a.zip b) 0, zero_add]
    rw [map_zip_mul]
  · simp [h]

example : computeInnerProduct [(1 : Int), 2, 3] [4, 5, 6] = some 32 ∧
    computeInnerProduct [(1 : Int), 2, 3] [4, 5] = none := by decide

/-- `constant_lagrange(c)` (and `empty_lagrange` for `c = 0`) is the Lagrange form of the constant
polynomial `c`: it is what `coeff_to_lagrange` returns on `[c, 0, …, 0]`, for every thread count. -/
theorem constant_lagrange_spec (d : Domain F) (t : Nat) (c : F) (hn : d.n = 2 ^ d.k)
    (hω : 1 ≤ d.k → d.omega ^ (2 ^ (d.k - 1)) = -1) :
    d.coeffToLagrange t ([c] ++ List.replicate (2 ^ d.k - 1) 0) = some (d.constantLagrange c) := by
  have hpos : 0 < 2 ^ d.k := by positivity
  rw [coeff_to_lagrange_spec d t _ (by simp; omega) hω]
  unfold Domain.constantLagrange
  rw [hn]
  congr 1
  apply List.ext_getElem
  · simp
  · intro i h1 h2
    simp only [List.getElem_map, List.getElem_replicate]
    rw [horner_append_zeros]
    simp [horner_cons, horner_nil]

example : (sampleDomain (-1 : Int) 0).coeffToLagrange 2 ([7] ++ List.replicate (2 ^ 1 - 1) 0)
    = some ((sampleDomain (-1 : Int) 0).constantLagrange 7) := by decide

end

/-! ## Evaluation domain (`proofs/src/poly/domain.rs`) over a field -/

section
variable {F : Type} [Field F] [DecidableEq F]

/-- Value at `x` of the Lagrange basis polynomial `l_r` of the domain `{ωⁱ}` of size `n`
(`r` taken modulo `n` through the integer power `ω^r`): `1` at its own node, otherwise the closed
form `ω^r (xⁿ − 1) / (n (x − ω^r))` (which is `0` at the other nodes). -/
def lagrangeBasisEval (ω : F) (n : Nat) (r : Int) (x : F) : F :=
  if x = ω ^ r then 1 else ω ^ r * (x ^ n - 1) / ((n : F) * (x - ω ^ r))

/-- Full-strength statement for `l_i_range`: every entry is the Lagrange basis value, at every
point `x`. FALSE for the code as it is (next theorem); kept visible. -/
def LIRangeCorrect (F : Type) [Field F] [DecidableEq F] : Prop :=
  ∀ (d : Domain F), d.omegaInv = d.omega⁻¹ → d.barycentricWeight = (d.n : F)⁻¹ →
    d.omega ^ d.n = 1 → ∀ (x : F) (rots : List Int),
      d.lIRange (fun a => a⁻¹) (fun a e => a ^ e) x (x ^ d.n) rots
        = rots.map (fun r => lagrangeBasisEval d.omega d.n r x)

/-- Known finding `l_i_range:x-in-domain`: at a domain point the barycentric formula returns 0
instead of 1 (`batch_invert` leaves the zero denominator at zero). Witness: `ℚ`, `n = 2`,
`ω = −1`, `x = 1 = ω⁰`, rotation `0`. -/
theorem l_i_range_full_strength_fails : ¬ LIRangeCorrect ℚ := by
  intro h
  have := h { n := 2, k := 1, extendedK := 1, omega := -1, omegaInv := -1, extendedOmega := -1,
              extendedOmegaInv := -1, gCoset := 1, gCosetInv := 1, quotientPolyDegree := 0,
              ifftDivisor := 1 / 2, extendedIfftDivisor := 1 / 2, tEvaluations := [],
              barycentricWeight := 1 / 2 }
    (by norm_num) (by norm_num) (by norm_num) 1 [0]
  simp [Domain.lIRange, Domain.rotateOmega, lagrangeBasisEval] at this

/-- `l_i_barycentric` (partial: off the domain nodes that are asked for). For every `x` different
from the requested nodes `ω^r`, every rotation list (negative, repeated, beyond `n`),
`l_i_range(x, xⁿ, rotations)` returns `l_r(x) = ω^r (xⁿ − 1)/(n (x − ω^r))` for each `r`, with
`ω^r = (ω⁻¹)^|r|` for negative `r`. Missing w.r.t. full strength: `x = ω^r` (previous theorem). -/
theorem l_i_barycentric_partial (d : Domain F) (hinv : d.omegaInv = d.omega⁻¹)
    (hbw : d.barycentricWeight = (d.n : F)⁻¹) (x : F) (rots : List Int)
    (hx : ∀ r ∈ rots, x ≠ d.omega ^ r) :
    d.lIRange (fun a => a⁻¹) (fun a e => a ^ e) x (x ^ d.n) rots
      = rots.map (fun r => lagrangeBasisEval d.omega d.n r x) := by
  rw [lIRange_eq d hinv]
  apply List.map_congr_left
  intro r hr
  unfold lagrangeBasisEval
  rw [if_neg (hx r hr), hbw]
  rw [div_eq_mul_inv, mul_inv]
  ring

omit [DecidableEq F] in
/-- What the code returns at a requested node: `0`. -/
theorem l_i_range_at_node_is_zero (d : Domain F) (hinv : d.omegaInv = d.omega⁻¹) (r : Int)
    (xn : F) :
    d.lIRange (fun a => a⁻¹) (fun a e => a ^ e) (d.omega ^ r) xn [r] = [0] := by
  rw [lIRange_eq d hinv]
  simp

omit [DecidableEq F] in
/-- `ifft_fft_id`: over a field of characteristic ≠ 2 in which `n = 2^k` is invertible, for every
pair of thread counts, `ifft(·, ω⁻¹, k, 1/n)` (as used by `lagrange_to_coeff` /
`extended_to_coeff`) undoes `best_fft(·, ω, k)` (as used by `coeff_to_lagrange` /
`coeff_to_extended`): the Lagrange and coefficient forms are mutually consistent. -/
theorem ifft_fft_id (t1 t2 k : Nat) (a : List F) (ω : F) (hlen : a.length = 2 ^ k)
    (hω : 1 ≤ k → ω ^ (2 ^ (k - 1)) = -1) (h2 : (1 : F) ≠ -1) (hn : ((2 ^ k : Nat) : F) ≠ 0) :
    (bestFft t1 a ω k).bind (fun e => ifft t2 e ω⁻¹ k ((2 ^ k : Nat) : F)⁻¹) = some a := by
  rw [best_fft_eq_dft t1 k a ω hlen hω]
  simp only [Option.bind_some, ifft]
  have hdl : (dft ω a).length = 2 ^ k := by simp [dft, hlen]
  have hωi : 1 ≤ k → ω⁻¹ ^ (2 ^ (k - 1)) = -1 := by
    intro hk; rw [inv_pow, hω hk, inv_neg, inv_one]
  rw [best_fft_eq_dft t2 k (dft ω a) ω⁻¹ hdl hωi]
  simp only [Option.map_some]
  congr 1
  apply List.ext_getElem
  · simp [dft, hlen]
  · intro j h1 h2'
    have hj : j < 2 ^ k := by rw [← hlen]; exact h2'
    simp only [dft, List.getElem_map, List.getElem_range]
    have h := idft_dft_entry ω a k hlen hω h2 j hj
    rw [h]
    have hg : a.getD j 0 = a[j] := by simp [List.getD, h2']
    rw [hg]
    field_simp

/-- Non-vacuity over ℚ (`k = 1`, `ω = −1`), recursive path forward, iterative path back. -/
example : (bestFft 1 [(3 : ℚ), 5] (-1) 1).bind
    (fun e => ifft 2 e (-1)⁻¹ 1 ((2 ^ 1 : Nat) : ℚ)⁻¹) = some [3, 5] := by
  decide +kernel

omit [DecidableEq F] in
/-- `extended_to_coeff_spec`: `extended_to_coeff` undoes `coeff_to_extended` — the coefficient vector
comes back, followed by the `2^extended_k − 2^k` zero coefficients of the padding (the form in
which the quotient is handed to the commitment step), for every pair of thread counts: inverse FFT
with `ω_e⁻¹` and divisor `1/2^extended_k`, then the coset scaling with `ζ⁻¹ = ζ²` (`ζ³ = 1`). -/
theorem extended_to_coeff_spec (d : Domain F) (t1 t2 : Nat) (a : List F) (hlen : a.length = 2 ^ d.k)
    (hk : d.k ≤ d.extendedK) (hz : d.gCoset ^ 3 = 1) (hzi : d.gCosetInv = d.gCoset * d.gCoset)
    (hω : 1 ≤ d.extendedK → d.extendedOmega ^ (2 ^ (d.extendedK - 1)) = -1)
    (hinv : d.extendedOmegaInv = d.extendedOmega⁻¹)
    (hdiv : d.extendedIfftDivisor = ((2 ^ d.extendedK : Nat) : F)⁻¹)
    (h2 : (1 : F) ≠ -1) (hn : ((2 ^ d.extendedK : Nat) : F) ≠ 0) :
    (d.coeffToExtended t1 a).bind (d.extendedToCoeff t2)
      = some (a ++ List.replicate (2 ^ d.extendedK - 2 ^ d.k) 0) := by
  have hle : 2 ^ d.k ≤ 2 ^ d.extendedK := Nat.pow_le_pow_right (by norm_num) hk
  set P := distributePowersZeta d a true
      ++ List.replicate (2 ^ d.extendedK - (distributePowersZeta d a true).length) 0 with hP
  have hPl : P.length = 2 ^ d.extendedK := by
    rw [hP, List.length_append, List.length_replicate, dpz_length, hlen]; omega
  have hid := ifft_fft_id t1 t2 d.extendedK P d.extendedOmega hPl hω h2 hn
  unfold Domain.coeffToExtended Domain.extendedToCoeff
  simp only [hlen, ne_eq, not_true_eq_false, if_false]
  rw [hinv, hdiv]
  cases hb : bestFft t1 P d.extendedOmega d.extendedK with
  | none => rw [hb] at hid; simp at hid
  | some e =>
    rw [hb] at hid
    simp only [Option.bind_some] at hid ⊢
    rw [hid]
    simp only [Option.map_some]
    congr 1
    rw [hP, dpz_append_zeros, dpz_inverse d a hz hzi, dpz_length, hlen]

omit [DecidableEq F] in
/-- `extended_to_lagrange_spec`: `extended_to_lagrange` applied to the coset evaluations of a
polynomial of degree `< n` (`coeff_to_extended`) returns its Lagrange form (`coeff_to_lagrange`):
the `truncate(n)` after the inverse FFT drops exactly the zero padding. -/
theorem extended_to_lagrange_spec (d : Domain F) (t1 t2 : Nat) (a : List F) (hlen : a.length = 2 ^ d.k)
    (hn' : d.n = 2 ^ d.k) (hk : d.k ≤ d.extendedK) (hz : d.gCoset ^ 3 = 1)
    (hzi : d.gCosetInv = d.gCoset * d.gCoset)
    (hω : 1 ≤ d.extendedK → d.extendedOmega ^ (2 ^ (d.extendedK - 1)) = -1)
    (hinv : d.extendedOmegaInv = d.extendedOmega⁻¹)
    (hdiv : d.extendedIfftDivisor = ((2 ^ d.extendedK : Nat) : F)⁻¹)
    (h2 : (1 : F) ≠ -1) (hn : ((2 ^ d.extendedK : Nat) : F) ≠ 0) :
    (d.coeffToExtended t1 a).bind (d.extendedToLagrange t2) = d.coeffToLagrange t2 a := by
  have hle : 2 ^ d.k ≤ 2 ^ d.extendedK := Nat.pow_le_pow_right (by norm_num) hk
  set P := distributePowersZeta d a true
      ++ List.replicate (2 ^ d.extendedK - (distributePowersZeta d a true).length) 0 with hP
  have hPl : P.length = 2 ^ d.extendedK := by
    rw [hP, List.length_append, List.length_replicate, dpz_length, hlen]; omega
  have hid := ifft_fft_id t1 t2 d.extendedK P d.extendedOmega hPl hω h2 hn
  unfold Domain.coeffToExtended Domain.extendedToLagrange Domain.coeffToLagrange
  simp only [hlen, ne_eq, not_true_eq_false, if_false]
  rw [hinv, hdiv]
  cases hb : bestFft t1 P d.extendedOmega d.extendedK with
  | none => rw [hb] at hid; simp at hid
  | some e =>
    rw [hb] at hid
    simp only [Option.bind_some] at hid ⊢
    rw [hid]
    simp only []
    have htake : P.take d.n = distributePowersZeta d a true := by
      rw [hP, hn', List.take_left' (by rw [dpz_length, hlen])]
    rw [htake, dpz_inverse d a hz hzi]

/-- Non-vacuity over ℚ (`n = 2`, `ω = ω_e = −1`, `ζ = 1`, `extended_k = k = 1`). -/
example : ((sampleDomain (-1 : ℚ) (1 / 2)).coeffToExtended 1 [3, 5]).bind
      ((sampleDomain (-1 : ℚ) (1 / 2)).extendedToCoeff 2) = some [3, 5] ∧
    ((sampleDomain (-1 : ℚ) (1 / 2)).coeffToExtended 1 [3, 5]).bind
      ((sampleDomain (-1 : ℚ) (1 / 2)).extendedToLagrange 2) = some [8, -2] := by
  constructor <;> decide +kernel

/-- `lagrange_interpolate_spec`: for every list of pairwise distinct points and as many values
(over a field), `lagrange_interpolate` returns a coefficient vector of the same length whose
polynomial takes the given value at each point (the documented panics — length mismatch, repeated
point — are the `none` results of the model). -/
theorem lagrange_interpolate_spec (points evals : List F) (hlen : points.length = evals.length)
    (hnd : points.Nodup) :
    ∃ p, lagrangeInterpolate (fun a => a⁻¹) points evals = some p ∧ p.length = points.length ∧
      ∀ (i : Nat) (hi : i < points.length), horner p points[i] = evals[i]'(hlen ▸ hi) :=
  lagrangeInterpolate_spec points evals hlen hnd

/-- Non-vacuity over ℚ: the parabola through `(0,1), (1,3), (2,11)` is `1 − X + 3X²`; a repeated
point is refused. -/
example : lagrangeInterpolate (fun a : ℚ => a⁻¹) [0, 1, 2] [1, 3, 11] = some [1, -1, 3] ∧
    lagrangeInterpolate (fun a : ℚ => a⁻¹) [0, 1, 0] [1, 3, 11] = none := by
  constructor
  · norm_num [lagrangeInterpolate, List.range, List.range.loop, List.replicate]
  · decide

/-- `divide_by_vanishing_spec`: `t_evaluations` is built by the loop "push `cur`; `cur *= step`;
stop when `cur == orig`" (`orig = ζⁿ`, `step = ω_eⁿ`) and then inverted entry-wise after
subtracting 1. Whenever that loop stopped by itself with `L` entries (the `assert_eq!` on the
length), `step^L = 1`, so indexing the table modulo `L` is exact: `divide_by_vanishing_poly`
multiplies the `i`-th extended evaluation by `1 / (orig·stepⁱ − 1) = 1 / ((ζ·ω_eⁱ)ⁿ − 1)`, the
inverse of the vanishing polynomial `Xⁿ − 1` at the `i`-th coset point, for every `i` (the
index-wise map goes through `parallelize`, i.e. is schedule-independent). -/
theorem divide_by_vanishing_spec (d : Domain F) (orig step : F) (fuel : Nat) (horig : orig ≠ 0)
    (hts : d.tEvaluations = (tEvalLoop orig step fuel orig []).map (fun c => (c - 1)⁻¹))
    (hL : d.tEvaluations.length < fuel) (a : List F) (hlen : a.length = 2 ^ d.extendedK) :
    d.divideByVanishingPoly a
      = some (List.zipWith (fun h i => h * (orig * step ^ i - 1)⁻¹) a (List.range a.length)) := by
  obtain ⟨n, h1, _, h3, h4⟩ := tEvalLoop_spec orig step fuel orig []
  have hlenT : d.tEvaluations.length = n := by rw [hts, h1]; simp
  have hn1 : 1 ≤ n := h3 (by omega)
  have hstep : step ^ n = 1 := by
    have := h4 (by omega)
    have h' : orig * step ^ n = orig * 1 := by rw [this, mul_one]
    exact mul_left_cancel₀ horig h'
  unfold Domain.divideByVanishingPoly
  simp only [hlen, ne_eq, not_true_eq_false, if_false]
  congr 1
  apply List.ext_getElem
  · simp
  · intro i hi1 hi2
    simp only [List.getElem_zipWith, List.getElem_range]
    congr 1
    rw [hlenT]
    have hmod : i % n < n := Nat.mod_lt _ (by omega)
    have hget : d.tEvaluations.getD (i % n) 0 = (orig * step ^ (i % n) - 1)⁻¹ := by
      rw [hts, h1]
      simp [List.getD, hmod]
    rw [hget]
    have hpow : step ^ i = step ^ (i % n) := by
      conv => lhs; rw [← Nat.div_add_mod i n, pow_add, pow_mul, hstep, one_pow, one_mul]
    rw [hpow]

/-- Non-vacuity: `orig = 3`, `step = −1` over ℚ: the loop stops after two entries. -/
example : tEvalLoop (3 : ℚ) (-1) 5 3 [] = [3, -3] := by norm_num [tEvalLoop]

/-- Non-vacuity of `l_i_barycentric_partial`: `n = 2`, `ω = −1` over ℚ at `x = 3`:
`l₀(3) = 2`, `l₁(3) = l₋₁(3) = −1`. -/
example :
    (sampleDomain (-1 : ℚ) (1 / 2)).lIRange (fun a => a⁻¹) (fun a e => a ^ e) 3 (3 ^ 2) [0, 1, -1]
      = [2, -1, -1] := by
  norm_num [Domain.lIRange, Domain.rotateOmega, sampleDomain]

omit [DecidableEq F] in
/-- `rotate_omega(v, Rotation(r)) = v·ω^r` for every integer rotation. -/
theorem rotate_omega_spec (d : Domain F) (hinv : d.omegaInv = d.omega⁻¹) (v : F) (r : Int) :
    d.rotateOmega (fun a e => a ^ e) v r = v * d.omega ^ r :=
  rotateOmega_eq d hinv v r

end

/-! ## Every parallel / chunked site of the anchored sources

The inventory `Gen.parSites` is regenerated from the sources on every run
(`translators/c12_parsites.py`); each site has a mirror with the thread count as a parameter
(`Model/C12/ParSites.lean`) and a theorem that the thread count does not matter. -/

section
variable {α : Type}

/-- `parallelize` with an index-wise worker — written with `enumerate()` added to `start`
(`wEnum`) or with a running `index += 1` (`wRunning`) — computes `v[i] ↦ f i v[i]` for every
positive thread count: every chunk layout of `parallelize_partition` gives the same vector. -/
theorem parallelize_indexed_indep (t : Nat) (ht : 0 < t) (f : Nat → α → α) (v : List α) :
    parallelizeWith t (wEnum f) v = List.zipWith (fun x i => f i x) v (List.range v.length) ∧
    parallelizeWith t (wRunning f) v = List.zipWith (fun x i => f i x) v (List.range v.length) := by
  rw [parallelizeWith_wEnum t ht, parallelizeWith_wRunning t ht, wEnum_eq_wRunning,
    wRunning_eq_zipWith, List.range_eq_range']
  exact ⟨rfl, rfl⟩

/-- …and with an index-free worker (`|chunk, _| for x in chunk { *x = g(*x) }`) it is `map g`. -/
theorem parallelize_map_indep (t : Nat) (ht : 0 < t) (g : α → α) (v : List α) :
    parallelizeWith t (wMap g) v = v.map g :=
  parallelizeWith_wMap t ht g v

example : parallelizeWith 3 (wRunning (fun i (x : Nat) => 10 * i + x)) [1, 2, 3, 4, 5, 6, 7]
    = [1, 12, 23, 34, 45, 56, 67] := by decide

/-- `Polynomial::{add_assign, add, sub}` (`poly/mod.rs`, worker `zip(rhs.values[start..])`): when
`rhs` is at least as long as `lhs` (always the case between polynomials of one domain) no worker
panics and the result is the entry-wise operation, for every positive thread count. -/
theorem poly_zip_par_indep (t : Nat) (ht : 0 < t) (op : α → α → α) (lhs rhs : List α)
    (hlen : lhs.length ≤ rhs.length) :
    polyZipPar t op lhs rhs = some (List.zipWith op lhs rhs) :=
  polyZipPar_eq t ht op lhs rhs hlen

/-- Non-vacuity, and why the hypothesis is there: with a SHORTER `rhs` the outcome of the code
depends on the thread count (one thread: the tail of `lhs` is kept; four threads: the worker whose
`start` lies beyond `rhs` panics on `rhs.values[start..]`). Not reachable between polynomials of
one `EvaluationDomain`; `Polynomial::init(n)` of two sizes reaches it. -/
example : polyZipPar 3 (· + ·) [1, 2, 3, 4] [10, 20, 30, 40] = some [11, 22, 33, 44] ∧
    polyZipPar 1 (· + ·) [1, 2, 3, 4] [10] = some [11, 2, 3, 4] ∧
    polyZipPar 4 (· + ·) [1, 2, 3, 4] [10] = none := by decide

/-- `ParamsKZG::read_custom` (`SerdeFormat::Processed`): the parallel decode
`points[start + i] = from_bytes(compressed[start + i])` is the `map` of the decoder. -/
theorem read_points_par_indep {β : Type} (t : Nat) (ht : 0 < t) (dec : α → Option β)
    (compressed : List α) : readPointsPar t dec compressed = compressed.map dec :=
  readPointsPar_eq t ht dec compressed

end

section
variable {F : Type} [CommRing F]

/-- `distribute_powers_zeta` (running `index % 3`) on any positive number of threads is the
index-wise scaling by `1, c₀, c₁, 1, …` that `coeff_to_extended_spec` is stated for. -/
theorem distribute_powers_zeta_par_indep (d : Domain F) (t : Nat) (ht : 0 < t) (a : List F)
    (intoCoset : Bool) :
    distributePowersZetaPar d t a intoCoset = distributePowersZeta d a intoCoset := by
  unfold distributePowersZetaPar distributePowersZeta
  exact (parallelize_indexed_indep t ht _ a).2

/-- `ifft`: the final scaling pass through `parallelize` is thread-independent. -/
theorem ifft_par_indep (t : Nat) (ht : 0 < t) (a : List F) (omegaInv : F) (logn : Nat) (divisor : F) :
    ifftPar t a omegaInv logn divisor = ifft t a omegaInv logn divisor := by
  unfold ifftPar ifft
  congr 1
  funext l
  exact parallelize_map_indep t ht _ l

/-- All four conversions of `EvaluationDomain` with their `parallelize` passes spelled out equal the
thread-free definitions the `*_spec` theorems are about. -/
theorem domain_conversions_par_indep (d : Domain F) (t : Nat) (ht : 0 < t) (a : List F) :
    d.lagrangeToCoeffPar t a = d.lagrangeToCoeff t a ∧
    d.coeffToExtendedPar t a = d.coeffToExtended t a ∧
    d.extendedToCoeffPar t a = d.extendedToCoeff t a ∧
    d.extendedToLagrangePar t a = d.extendedToLagrange t a := by
  refine ⟨?_, ?_, ?_, ?_⟩
  · exact ifft_par_indep t ht _ _ _ _
  · unfold Domain.coeffToExtendedPar Domain.coeffToExtended
    simp only [distribute_powers_zeta_par_indep d t ht]
  · unfold Domain.extendedToCoeffPar Domain.extendedToCoeff
    rw [ifft_par_indep t ht]
    congr 1
    funext l
    exact distribute_powers_zeta_par_indep d t ht l false
  · unfold Domain.extendedToLagrangePar Domain.extendedToLagrange
    rw [ifft_par_indep t ht]
    simp only [distribute_powers_zeta_par_indep d t ht]
    rfl

/-- `divide_by_vanishing_poly` (running `index % t_evaluations.len()`): thread-independent. -/
theorem divide_by_vanishing_par_indep (d : Domain F) (t : Nat) (ht : 0 < t) (a : List F) :
    d.divideByVanishingPolyPar t a = d.divideByVanishingPoly a := by
  unfold Domain.divideByVanishingPolyPar Domain.divideByVanishingPoly
  split
  · rfl
  · congr 1
    exact (parallelize_indexed_indep t ht _ a).2

/-- `g_to_lagrange`: the scaling by `n⁻¹` through `parallelize` is thread-independent. -/
theorem g_to_lagrange_par_indep (fc : FieldConsts F) (t : Nat) (ht : 0 < t) (twoInv rootInv : F)
    (pw : F → Nat → F) (g : List F) (k : Nat) :
    gToLagrangePar fc t twoInv rootInv pw g k = gToLagrange fc t twoInv rootInv pw g k := by
  unfold gToLagrangePar gToLagrange
  simp only []
  congr 1
  funext l
  exact parallelize_map_indep t ht _ l

/-- `Polynomial::mul_assign(rhs)` (zeroing for `rhs = 0`, nothing for `rhs = 1`, otherwise a
scaling pass — each through `parallelize`) is the entry-wise product for every thread count. -/
theorem poly_scale_par_indep [DecidableEq F] (t : Nat) (ht : 0 < t) (lhs : List F) (rhs : F) :
    polyScalePar t lhs rhs = lhs.map (· * rhs) := by
  unfold polyScalePar
  split
  · next h => rw [parallelize_map_indep t ht, h]; simp
  · split
    · exact parallelize_map_indep t ht _ lhs
    · next h => simp at h; simp [h]

/-- `ParamsKZG::unsafe_setup`, first loop: although every worker restarts its running product from
`s^start`, the vector is `[g1·s⁰, g1·s¹, …, g1·s^(n−1)]` for every positive thread count. -/
theorem setup_g_par_indep (t : Nat) (ht : 0 < t) (g1 s : F) (n : Nat) :
    setupG t (fun a e => a ^ e) g1 s n = (List.range n).map (fun i => g1 * s ^ i) :=
  setupG_eq t ht g1 s n

example : setupG 3 (fun a e => a ^ e) (1 : Int) 2 7 = [1, 2, 4, 8, 16, 32, 64] := by decide

end

section
variable {R G : Type} [CommRing R] [AddCommGroup G] [Module R G]

/-- `MSMKZG::scale(f)` (a `par_iter_mut` map) followed by `eval` is `f ·` the unscaled evaluation:
`Σ (sᵢ·f)·Bᵢ = f · Σ sᵢ·Bᵢ`. -/
theorem msm_scale_spec (scalars : List R) (bases : List G) (f : R) :
    (((msmScale scalars f).zip bases).map (fun sb => sb.1 • sb.2)).sum
      = f • ((scalars.zip bases).map (fun sb => sb.1 • sb.2)).sum := by
  unfold msmScale
  induction scalars generalizing bases with
  | nil => simp
  | cons x r ih =>
    cases bases with
    | nil => simp
    | cons b bs =>
      simp only [List.map_cons, List.zip_cons_cons, List.sum_cons, smul_add]
      rw [ih bs, mul_comm, mul_smul]

end

section
variable {F : Type} [Field F] [DecidableEq F]

/-- `ParamsKZG::unsafe_setup`, second loop: for `s` off the domain (on it `.invert().unwrap()`
panics — probability `n/r` for the random `s`), every positive thread count yields, at index `i`,
the generator times `lᵢ(s)`, the Lagrange basis value of `l_i_barycentric_partial`: the
Lagrange-basis SRS is `[lᵢ(s)]G`. -/
theorem setup_g_lagrange_par_indep (t : Nat) (ht : 0 < t) (g1 s root : F) (n : Nat)
    (hs : ∀ i < n, s ≠ root ^ i) :
    setupGLagrange t (fun a e => a ^ e) (fun a => if a = 0 then none else some a⁻¹) g1 s root
        (n : F)⁻¹ n
      = some ((List.range n).map (fun (i : Nat) => g1 * lagrangeBasisEval root n (i : Int) s)) := by
  rw [setupGLagrange_eq t ht g1 s root _ n hs]
  congr 1
  apply List.map_congr_left
  intro i hi
  unfold lagrangeBasisEval
  have hne : s ≠ root ^ (i : Int) := by
    rw [zpow_natCast]; exact hs i (List.mem_range.mp hi)
  rw [if_neg hne, zpow_natCast, div_eq_mul_inv, mul_inv]
  ring

example : setupGLagrange 2 (fun a e => a ^ e) (fun a : ℚ => if a = 0 then none else some a⁻¹)
    1 3 (-1) ((2 : ℕ) : ℚ)⁻¹ 2 = some [2, -1] := by
  norm_num [setupGLagrange, parallelizeWithOpt, chunks, List.range, List.range.loop, List.zipIdx]

omit [DecidableEq F] in
/-- `l_i_range` beyond `n` and at negative indices: the basis value only depends on the rotation
modulo `n` (`ωⁿ = 1`): `l_{r+n} = l_r`, `l_{−r} = l_{n−r}`. With `l_i_barycentric_partial` this
covers the `0..n+3` and `−n−2..0` ranges of the property's quantifier. -/
theorem l_i_rotation_periodic [DecidableEq F] (ω : F) (n : Nat) (hω : ω ^ n = 1) (hω0 : ω ≠ 0)
    (r : Int) (x : F) :
    lagrangeBasisEval ω n (r + n) x = lagrangeBasisEval ω n r x ∧
    lagrangeBasisEval ω n (-r) x = lagrangeBasisEval ω n (n - r) x := by
  have h1 : ω ^ (r + (n : Int)) = ω ^ r := by
    rw [zpow_add₀ hω0, zpow_natCast, hω, mul_one]
  have h2 : ω ^ ((n : Int) - r) = ω ^ (-r) := by
    rw [sub_eq_add_neg, zpow_add₀ hω0, zpow_natCast, hω, one_mul]
  unfold lagrangeBasisEval
  rw [h1, h2]
  exact ⟨rfl, rfl⟩

omit [DecidableEq F] in
/-- The closed form is the Lagrange basis POLYNOMIAL: off its node, `ω^r(xⁿ−1)/(n(x−ω^r))` equals
`(1/n)·Σ_{j<n} (x·ω^{−r})ʲ`, i.e. the evaluation at `x` of the polynomial with coefficients
`ω^{−rj}/n` — the coefficient vector `lagrange_to_coeff` returns for the unit vector `e_r`
(`(1/n)·DFT_{ω⁻¹}`, `ifft_fft_id`) — for every integer rotation. -/
theorem l_i_closed_form_eq_basis_polynomial [DecidableEq F] (ω : F) (n : Nat) (hω : ω ^ n = 1)
    (hω0 : ω ≠ 0) (hn : (n : F) ≠ 0) (r : Int) (x : F) (hx : x ≠ ω ^ r) :
    lagrangeBasisEval ω n r x = (n : F)⁻¹ * ∑ j ∈ Finset.range n, (x * (ω ^ r)⁻¹) ^ j := by
  have hωr : ω ^ r ≠ 0 := zpow_ne_zero r hω0
  have hy : x * (ω ^ r)⁻¹ ≠ 1 := by
    intro h
    apply hx
    have := congrArg (· * ω ^ r) h
    simpa [mul_assoc, inv_mul_cancel₀ hωr] using this
  have hpow : (ω ^ r) ^ n = 1 := by
    rw [← zpow_natCast, ← zpow_mul, mul_comm, zpow_mul, zpow_natCast, hω, one_zpow]
  rw [geom_sum_eq hy, mul_pow, inv_pow, hpow, inv_one, mul_one]
  unfold lagrangeBasisEval
  rw [if_neg hx]
  have hd : x - ω ^ r ≠ 0 := sub_ne_zero.mpr hx
  have hd2 : x * (ω ^ r)⁻¹ - 1 ≠ 0 := sub_ne_zero.mpr hy
  field_simp

end

section
variable {F : Type} [CommRing F]

/-- `powers(base)` (`successors(Some(1), |p| base * p)`): the first `n` items are
`base⁰, …, base^(n−1)`. -/
theorem powers_spec (base : F) (n : Nat) :
    powersTake base n = (List.range n).map (fun i => base ^ i) := by
  have hgo : ∀ (m : Nat) (cur : F), powersTake.go base m cur
      = (List.range (m + 1)).map (fun i => base ^ i * cur) := by
    intro m
    induction m with
    | zero => intro cur; simp [powersTake.go]
    | succ m ih =>
      intro cur
      rw [powersTake.go, ih, List.range_succ_eq_map (n := m + 1), List.map_cons, List.map_map]
      simp only [pow_zero, one_mul, List.cons.injEq, true_and]
      apply List.map_congr_left
      intro i _
      simp only [Function.comp, pow_succ]
      ring
  cases n with
  | zero => rfl
  | succ n => rw [powersTake, hgo]; simp

example : powersTake (3 : Int) 5 = [1, 3, 9, 27, 81] := by decide

/-- `inner_product(items, scalars)` over field elements: `Σ itemᵢ·scalarᵢ` over the common prefix
(`zip`), and the `unwrap` of the empty reduction panics exactly when that prefix is empty. -/
theorem inner_product_spec (items scalars : List F) :
    innerProduct (· * ·) (· + ·) items scalars
      = if items = [] ∨ scalars = [] then none else some ((List.zipWith (· * ·) items scalars).sum) := by
  unfold innerProduct
  cases items with
  | nil => simp
  | cons p ps =>
    cases scalars with
    | nil => simp
    | cons c cs =>
      simp only [List.zip_cons_cons, List.map_cons, reduceCtorEq, or_self, if_false, List.zipWith_cons_cons,
        List.sum_cons]
      congr 1
      rw [foldl_add_map (fun x : F => x) _ (p * c)]
      simp only [List.map_id']
      congr 1
      rw [map_zip_mul]

example : innerProduct (· * ·) (· + ·) [(1 : Int), 2, 3] [4, 5] = some 14 ∧
    innerProduct (· * ·) (· + ·) ([] : List Int) [4, 5] = none := by decide

/-- `evals_inner_product(evals_set, scalars)`: when every evaluation vector has the length `m` of the
first one, the result is the scalar-weighted sum, entry by entry: `res[i] = Σⱼ evalsⱼ[i]·sⱼ` over the
common prefix of sets and scalars; an empty `evals_set` panics (`evals_set[0]`). (A later vector
shorter than the first panics with an index out of bounds — correspondence line `evalsinner-short`.) -/
theorem evals_inner_product_spec (first : List F) (rest : List (List F)) (scalars : List F)
    (hlen : ∀ e ∈ rest, e.length = first.length) :
    evalsInnerProduct (first :: rest) scalars
      = some ((List.range first.length).map (fun i =>
          ((((first :: rest).zip scalars)).map (fun es => es.1.getD i 0 * es.2)).sum)) ∧
    evalsInnerProduct ([] : List (List F)) scalars = none := by
  refine ⟨?_, rfl⟩
  unfold evalsInnerProduct
  simp only []
  rw [evals_fold first.length _ _ (by simp) (fun es hes => by
    have := (List.of_mem_zip hes).1
    rcases List.mem_cons.mp this with h | h
    · rw [h]
    · exact hlen _ h)]
  congr 1
  apply List.map_congr_left
  intro i hi
  have hi' : i < first.length := List.mem_range.mp hi
  simp [List.getD, hi']

example : evalsInnerProduct [[(1 : Int), 2], [3, 4]] [10, 100] = some [310, 420] := by decide

end

/-- `truncate` (feature `truncated-challenges`) for the BLS12-381 scalar field (`NUM_BITS = 255`):
the low 16 bytes, i.e. the value modulo `2^128` — for every input; the result is below `2^128`.
(Mirror and theorem only: the feature is off in the harness build, so this one is not tied.) -/
theorem truncate_spec (v : Nat) :
    truncateScalar Gen.frNumBits v = v % 2 ^ 128 ∧ truncateScalar Gen.frNumBits v < 2 ^ 128 := by
  have h : truncateScalar Gen.frNumBits v = v % 2 ^ 128 := by
    unfold truncateScalar
    have : (256 : Nat) ^ (((Gen.frNumBits + 7) / 8 + 1) / 2) = 2 ^ 128 := by decide
    rw [this]
  exact ⟨h, h ▸ Nat.mod_lt _ (by positivity)⟩

/-! ### The inventory -/

/-- The reviewed parallel / chunked sites, in source order: `(file, fn, kind)` and, for the reader,
the mirror and the theorem covering the site. -/
def reviewedParSites : List ((String × String × String) × String) := [
  (("proofs/src/utils/arithmetic.rs", "g_to_lagrange", "parallelize"), "gToLagrangePar; g_to_lagrange_par_indep"),
  (("proofs/src/utils/arithmetic.rs", "eval_polynomial", "current_num_threads"), "evalPolynomial t; eval_chunked_eq_horner"),
  (("proofs/src/utils/arithmetic.rs", "eval_polynomial", "rayon::scope"), "evalPolynomial t; eval_chunked_eq_horner"),
  (("proofs/src/utils/arithmetic.rs", "eval_polynomial", "chunks"), "evalPolynomial: parts.chunks_mut(1), the t result slots"),
  (("proofs/src/utils/arithmetic.rs", "eval_polynomial", "chunks"), "evalPolynomial: poly.chunks(chunk_size) = chunksOf"),
  (("proofs/src/utils/arithmetic.rs", "parallelize", "current_num_threads"), "chunks len t; parallelize_partition"),
  (("proofs/src/utils/arithmetic.rs", "parallelize", "rayon::scope"), "chunks len t; parallelize_partition"),
  (("proofs/src/utils/arithmetic.rs", "parallelize", "chunks_exact"), "chunks: the cutoff chunks of base+1"),
  (("proofs/src/utils/arithmetic.rs", "parallelize", "chunks_exact"), "chunks: the chunks of base"),
  (("proofs/src/poly/domain.rs", "divide_by_vanishing_poly", "parallelize"), "divideByVanishingPolyPar; divide_by_vanishing_par_indep"),
  (("proofs/src/poly/domain.rs", "distribute_powers_zeta", "parallelize"), "distributePowersZetaPar; distribute_powers_zeta_par_indep"),
  (("proofs/src/poly/domain.rs", "ifft", "parallelize"), "ifftPar; ifft_par_indep"),
  (("proofs/src/poly/mod.rs", "add_assign", "parallelize"), "polyZipPar (+); poly_zip_par_indep"),
  (("proofs/src/poly/mod.rs", "add", "parallelize"), "polyZipPar (+); poly_zip_par_indep"),
  (("proofs/src/poly/mod.rs", "sub", "parallelize"), "polyZipPar (-); poly_zip_par_indep"),
  (("proofs/src/poly/mod.rs", "mul_assign", "parallelize"), "polyScalePar (rhs = 0); poly_scale_par_indep"),
  (("proofs/src/poly/mod.rs", "mul_assign", "parallelize"), "polyScalePar; poly_scale_par_indep"),
  (("proofs/src/poly/kzg/msm.rs", "scale", "par_iter"), "msmScale (rayon's own index-free map); msm_scale_spec"),
  (("proofs/src/poly/kzg/params.rs", "unsafe_setup", "parallelize"), "setupG; setup_g_par_indep"),
  (("proofs/src/poly/kzg/params.rs", "unsafe_setup", "parallelize"), "setupGLagrange; setup_g_lagrange_par_indep"),
  (("proofs/src/poly/kzg/params.rs", "read_custom", "parallelize"), "readPointsPar; read_points_par_indep"),
  (("curves/src/fft.rs", "best_fft", "current_num_threads"), "bestFft t (path choice); best_fft_eq_dft"),
  (("curves/src/fft.rs", "best_fft", "chunks"), "fftIterStage (serial chunks_mut); fft_iterative_eq_recursive"),
  (("curves/src/fft.rs", "recursive_butterfly_arithmetic", "rayon::join"), "fftRec (disjoint halves); fft_recursive_eq_dft"),
  (("curves/src/msm.rs", "msm_parallel", "current_num_threads"), "msmParallel t; msm_parallel_spec"),
  (("curves/src/msm.rs", "msm_parallel", "chunks"), "msmParallel: num_chunks"),
  (("curves/src/msm.rs", "msm_parallel", "rayon::scope"), "msmParallel t; msm_parallel_spec"),
  (("curves/src/msm.rs", "msm_parallel", "chunks"), "msmParallel: coeffs.chunks(chunk)"),
  (("curves/src/msm.rs", "msm_parallel", "chunks"), "msmParallel: bases.chunks(chunk)"),
  (("curves/src/msm.rs", "msm_best", "par_iter"), "to_repr per coefficient (index-free map)"),
  (("curves/src/msm.rs", "msm_best", "par_iter"), "Affine::from per base (index-free map)"),
  (("curves/src/msm.rs", "msm_best", "par_iter"), "one independent windowBest per window; msm_best_spec")
]

/-- **Every parallel / chunked site of the anchored sources is a reviewed one**
(`translators/c12_parsites.py` scans `proofs/src/utils/arithmetic.rs`, `poly/domain.rs`,
`poly/mod.rs`, every `poly/kzg/*.rs`, `curves/src/{fft,msm}.rs` on every run for `parallelize(`,
`par_chunks`, `.chunks(`, `chunks_exact`, `par_iter`, `rayon::{scope,join,spawn}`,
`current_num_threads`): a NEW site, or one that moved to another function or changed its kind,
breaks this theorem until it has a mirror and a thread-independence theorem. -/
theorem par_sites_all_reviewed : Gen.parSites = reviewedParSites.map (·.1) := by decide

/-! ## Constants the FFT / domain code reads (regenerated from the source on every run) -/

open Gen in
/-- The Montgomery limbs written in `fq.rs` for `ROOT_OF_UNITY`, `ROOT_OF_UNITY_INV`, `TWO_INV`,
`ZETA` are the Montgomery forms (`·2^256 mod r`) of the values the model uses. -/
theorem fr_constants_montgomery :
    rootOfUnity * 2 ^ 256 % frModulus = rootOfUnityMont ∧
    rootOfUnityInv * 2 ^ 256 % frModulus = rootOfUnityInvMont ∧
    twoInv * 2 ^ 256 % frModulus = twoInvMont ∧
    zeta * 2 ^ 256 % frModulus = zetaMont ∧
    rootOfUnity < frModulus ∧ rootOfUnityInv < frModulus ∧ twoInv < frModulus ∧ zeta < frModulus := by
  decide +kernel

open Gen in
/-- `ROOT_OF_UNITY` has order exactly `2^S` (`ω^(2^(S-1)) = −1`), `ROOT_OF_UNITY_INV` and
`TWO_INV` are the inverses they claim to be, `ZETA` is a primitive cube root of unity, and
`2^S` divides `r − 1`: every `omega` derived in `EvaluationDomain::new` / `g_to_lagrange` by
repeated squaring is a primitive `2^k`-th root of unity. -/
theorem fr_root_of_unity_primitive :
    powMod rootOfUnity (2 ^ (frS - 1)) frModulus = frModulus - 1 ∧
    powMod rootOfUnity (2 ^ frS) frModulus = 1 ∧
    rootOfUnity * rootOfUnityInv % frModulus = 1 ∧
    2 * twoInv % frModulus = 1 ∧
    powMod zeta 3 frModulus = 1 ∧ zeta ≠ 1 ∧
    (frModulus - 1) % 2 ^ frS = 0 ∧ frNumBits = frModulus.log2 + 1 := by
  decide +kernel

/-- The curve constants of the driver's reference arithmetic: the moduli are the ones parsed from
the source, the generator is on the curve and has order `r` (`[r]G = O`, `G ≠ O`). -/
theorem driver_curve_constants :
    bls12381G1.p = Gen.fpModulus ∧ bls12381G1.r = Gen.frModulus ∧
    onCurve bls12381G1 bls12381G1.gx bls12381G1.gy = true ∧
    (bls12381G1.mulGen bls12381G1.r).z = 0 ∧ (bls12381G1.mulGen 1).z ≠ 0 ∧
    onCurve bn256G1 bn256G1.gx bn256G1.gy = true ∧ (bn256G1.mulGen bn256G1.r).z = 0 ∧
    -- the table-based multiplication of the driver agrees with double-and-add on probes
    toAffine bls12381G1.p (bls12381G1.mulGenTable (doublings bls12381G1.p 256 bls12381G1.gen) (bls12381G1.r - 1))
      = some (bls12381G1.gx, bls12381G1.p - bls12381G1.gy) ∧
    toAffine bls12381G1.p (bls12381G1.mulGenTable (doublings bls12381G1.p 256 bls12381G1.gen) 0xdeadbeefcafe)
      = toAffine bls12381G1.p (bls12381G1.mulGen 0xdeadbeefcafe) ∧
    invEuclid 7 bls12381G1.p * 7 % bls12381G1.p = 1 := by
  decide +kernel

end MidnightZK.C12
