import MidnightZK.Model.C12.Par
/-!
# C12 — MSM, FFT and the evaluation-domain algebra equal their naive definitions
Property theorems (helper lemmas live in `MidnightZK/Proofs`).
-/
namespace MidnightZK.C12

private theorem flatMap_range' (s c : Nat) : ∀ n,
    (List.range n).flatMap (fun i => List.range' (s + i * c) c) = List.range' s (n * c)
  | 0 => by simp
  | n + 1 => by
    rw [List.range_succ, List.flatMap_append, flatMap_range' s c n]
    simp only [List.flatMap_cons, List.flatMap_nil, List.append_nil]
    rw [Nat.succ_mul, ← List.range'_append_1]

/-- `parallelize` hands every index of `[0, len)` to exactly one worker, with the offset the
worker is told: for every length and every positive thread count. Index-wise maps built on it
are therefore independent of the number of threads. -/
theorem parallelize_partition (len t : Nat) (ht : 0 < t) :
    visited len t = List.range len := by
  unfold visited chunks
  simp only [List.flatMap_append]
  have hdm : t * (len / t) + len % t = len := Nat.div_add_mod len t
  have hlt : len % t < t := Nat.mod_lt _ ht
  generalize hb : len / t = base at *
  generalize hc : len % t = cutoff at *
  have h1 : (if cutoff ≠ 0 then (List.range cutoff).map (fun id => (id * (base + 1), base + 1)) else []).flatMap
      (fun c => List.range' c.1 c.2) = List.range' 0 (cutoff * (base + 1)) := by
    split
    · rw [List.flatMap_map]
      have := flatMap_range' 0 (base + 1) cutoff
      simpa using this
    · next h => simp at h; simp [h]
  have hsum : len = cutoff * (base + 1) + (t - cutoff) * base := by
    rw [Nat.sub_mul, Nat.mul_add, Nat.mul_one]
    have : cutoff * base ≤ t * base := Nat.mul_le_mul_right _ (Nat.le_of_lt hlt)
    omega
  have hsplit : len - cutoff * (base + 1) = (t - cutoff) * base := by omega
  have h2 : (if base ≠ 0 then (List.range ((len - cutoff * (base + 1)) / base)).map
        (fun id => (cutoff * (base + 1) + id * base, base)) else []).flatMap
      (fun c => List.range' c.1 c.2) = List.range' (cutoff * (base + 1)) ((t - cutoff) * base) := by
    split
    · next h =>
      rw [List.flatMap_map, hsplit, Nat.mul_div_cancel _ (Nat.pos_of_ne_zero h)]
      exact flatMap_range' _ base _
    · next h => simp at h; simp [h]
  rw [h1, h2, List.range_eq_range']
  conv => rhs; rw [hsum]
  rw [← List.range'_append_1]; simp

/-- Non-vacuity: 40 items on 12 threads give the 4,4,4,4,3,…,3 split of the source comment. -/
example : (chunks 40 12).map (·.2) = [4, 4, 4, 4, 3, 3, 3, 3, 3, 3, 3, 3] := by decide

end MidnightZK.C12
