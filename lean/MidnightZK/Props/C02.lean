import MidnightZK.Model.C02.RowSat
import MidnightZK.Model.C02.Identities
import MidnightZK.Model.C02.Label
import MidnightZK.Gen.C02Consts
import MidnightZK.Proofs.C02.Combination
import MidnightZK.Proofs.C02.MultisetPoly
import MidnightZK.Proofs.C02.PermSound
import MidnightZK.Proofs.C02.LookupSound
import MidnightZK.Proofs.C02.IdsCover
import MidnightZK.Proofs.C02.GateRows
import MidnightZK.Proofs.C02.RowLevel
import MidnightZK.Proofs.C02.Bridge
import MidnightZK.Proofs.C02.Labels
import MidnightZK.Proofs.C02.Domain
import MidnightZK.Proofs.C02.Lagrange
import MidnightZK.Proofs.C02.PublicInput
import MidnightZK.Proofs.C02.GatePoly
import MidnightZK.Model.C02.Fld
import MidnightZK.Model.C02.CsParams
import MidnightZK.Model.C02.Fill
import MidnightZK.Proofs.C02.Fill
import MidnightZK.Proofs.C02.Degree
import MidnightZK.Proofs.C02.GateDegree
/-!
# C02 — the verifier enforces every constraint class; agrees with the mock checker

Three groups of theorems.

1. The development-time checker computes row-level satisfaction (`mock_agrees` …).
2. The identity list of the real verifier (`Model/C02/Identities.lean`, tied to the code value by
   value on every run) covers every constraint class exactly once, in the order of the Rust code
   (`ids_cover`), and each class means, read row by row, what the row-level semantics says
   (`gate_identity_rows`, `perm_argument_sound`, `lookup_argument_sound`,
   `lookup_argument_sound_tuples`, `trash_argument_sound`).
3. The verifier's single equation at random `x`, `y` forces every identity polynomial to vanish
   on the domain (`y_combination_sound`, `x_evaluation_sound`, `verifier_equation_sound`).

Not proved (named in `checks/c02.py`): that the evaluations read from the proof are evaluations
of the committed polynomials (KZG binding, C14) and that the challenges are random (Fiat–Shamir
in the random-oracle model).
-/
namespace MidnightZK.C02

private theorem fill_shortcut {α β} [BEq β] [LawfulBEq β] (L : List α) (f g : α → β) (fill : β)
    (hfill : fill ∈ L.map g) :
    (((L.map f).filter (· != fill)).all fun i => ((L.map g).filter (· != fill)).contains i) =
    (L.all fun r => (L.map g).contains (f r)) := by
  rw [Bool.eq_iff_iff]
  simp only [List.all_eq_true, List.mem_filter, List.mem_map, List.contains_iff_mem, bne_iff_ne,
    ne_eq, and_imp, forall_exists_index, forall_apply_eq_imp_iff₂]
  constructor
  · intro h r hr
    by_cases hf : f r = fill
    · rw [hf]; simpa using hfill
    · obtain ⟨⟨a, ha, hga⟩, _⟩ := h r hr hf
      exact ⟨a, ha, hga⟩
  · intro h r hr hf
    obtain ⟨a, ha, hga⟩ := h r hr
    exact ⟨⟨a, ha, hga⟩, hf⟩

/-- The fill-row shortcut of `MockProver` (dropping rows equal to the table's last usable row
from inputs and table) does not change the verdict of any lookup, for every constraint system
and every assignment with at least one usable row (which `MockProver` asserts). -/
theorem lookups_mock_eq_plain (cs : CS) (t : Table) (h : 0 < t.n - (cs.blinding + 1)) :
    lookupsOKMock cs t = lookupsOK cs t := by
  unfold lookupsOKMock lookupsOK
  congr 1
  funext ⟨inp, tab⟩
  simp only []
  have hmem : tuple tab t ((t.n - (cs.blinding + 1)) - 1) ∈ (usableRows cs t).map (tuple tab t) := by
    apply List.mem_map_of_mem
    unfold usableRows
    simp only [List.mem_range]
    omega
  exact fill_shortcut (usableRows cs t) (tuple inp t) (tuple tab t) _ hmem

/-- **The development-time checker computes row-level satisfaction**: on every constraint
system and every assignment (satisfying or not) `MockProver`'s verdict is the plain meaning of
the constraints — gates, additive-selector constraints, lookups, copy constraints. -/
theorem mock_agrees (cs : CS) (t : Table) (h : 0 < t.n - (cs.blinding + 1)) :
    mockOK cs t = rowSat cs t := by
  unfold mockOK rowSat
  rw [lookups_mock_eq_plain cs t h]

/-- Without trash arguments the pre-fix checker already agreed with `rowSat`. -/
theorem mock_agrees_pinned_partial (cs : CS) (t : Table) (h : 0 < t.n - (cs.blinding + 1))
    (hno : cs.trash = []) : mockOKPinned cs t = rowSat cs t := by
  unfold mockOKPinned rowSat trashOK
  rw [lookups_mock_eq_plain cs t h, hno]
  simp

/-- A one-column system with the additive-selector constraint `a0 = 0` enabled on row 0. -/
def d2CS : CS :=
  { gates := [], lookups := [], trash := [(.fixed 0 0, [.advice 0 0])], permCols := [], copies := [], blinding := 1 }
def d2Table : Table :=
  { p := 17, n := 4, fixed := [[.real 1, .real 0, .real 0, .real 0]],
    advice := [[.real 5, .real 0, .poison, .poison]], inst := [], challenges := [] }

/-- D2: the pre-fix checker accepted an assignment violating an additive-selector constraint
on an enabled row; the plain semantics (and the real verifier) reject it. -/
theorem mock_pinned_disagree_witness :
    mockOKPinned d2CS d2Table = true ∧ rowSat d2CS d2Table = false ∧ mockOK d2CS d2Table = false := by
  decide

/-- Non-vacuity of `mock_agrees`: the D2 table has usable rows. -/
example : 0 < d2Table.n - (d2CS.blinding + 1) := by decide

/-- `MockProver::verify()` is `verify_at_rows(usable_rows, usable_rows)`. -/
theorem mock_at_usable_rows (cs : CS) (t : Table) :
    mockOKAt cs t (usableRows cs t) (usableRows cs t) = mockOK cs t := rfl

/-- **`verify_at_rows` on fewer rows is weaker than `verify`**: for every constraint system,
assignment and every choice of gate rows / lookup-input rows among the usable rows, an assignment
accepted by `verify()` is accepted by `verify_at_rows` (the table side of a lookup and the copy
constraints do not depend on the chosen rows). The converse fails (`mock_at_rows_unsound_witness`):
only `verify()` (= `assert_satisfied`) agrees with the real verifier. -/
theorem mock_at_rows_weaker (cs : CS) (t : Table) (gr lr : List Nat)
    (hg : ∀ r ∈ gr, r ∈ usableRows cs t) (hl : ∀ r ∈ lr, r ∈ usableRows cs t)
    (h : mockOK cs t = true) : mockOKAt cs t gr lr = true := by
  unfold mockOK at h
  unfold mockOKAt
  simp only [Bool.and_eq_true] at h ⊢
  obtain ⟨⟨⟨h1, h2⟩, h3⟩, h4⟩ := h
  refine ⟨⟨⟨?_, ?_⟩, ?_⟩, h4⟩
  · unfold gatesOK at h1
    unfold gatesOKAt
    simp only [List.all_eq_true, List.mem_append] at h1 ⊢
    intro g hgm r hr
    exact h1 g hgm r (hr.elim (fun x => Or.inl (hg r x)) Or.inr)
  · unfold trashOK at h2
    unfold trashOKAt
    simp only [List.all_eq_true, List.mem_append] at h2 ⊢
    intro qc hqc c hc r hr
    exact h2 qc hqc c hc r (hr.elim (fun x => Or.inl (hg r x)) Or.inr)
  · unfold lookupsOKMock at h3
    unfold lookupsOKMockAt
    simp only [List.all_eq_true, List.mem_filter, List.mem_map, and_imp, forall_exists_index] at h3 ⊢
    intro it hit i r hr hri hne
    exact h3 it hit i r (hl r hr) hri hne

/-- Non-vacuity of `mock_at_rows_weaker` and sharpness: on the D2 system with the violated
constraint on row 0, `verify_at_rows` on NO row accepts (the blinding rows carry a zero selector)
while `verify()`, `rowSat` and the real verifier reject. -/
theorem mock_at_rows_unsound_witness :
    mockOKAt d2CS d2Table [] [] = true ∧ mockOK d2CS d2Table = false ∧ rowSat d2CS d2Table = false := by
  decide

/-- **Soundness of folding the identities with `y`** (`PartiallyEvaluated::verify` computes
`expressions.fold(0, |h, v| h·y + v)`): over any field, if the folded value vanishes for at
least as many distinct challenges `y` as there are identities, then every single identity value
is zero. Hence a proof in which some identity (a gate, a permutation or lookup rule, a trash
constraint) does not vanish passes the combined check for fewer than `#identities` values of `y`. -/
theorem y_combination_sound {F : Type} [Field F] (vs : List F) (ys : Finset F)
    (hcard : vs.length ≤ ys.card) (hzero : ∀ y ∈ ys, foldY vs y = 0) : ∀ v ∈ vs, v = 0 :=
  y_combination_sound_aux vs ys hcard hzero

/-- Non-vacuity: the hypotheses are satisfiable with a non-empty list (all-zero identities). -/
example : ∀ y ∈ ({0, 1} : Finset ℚ), foldY [0, 0] y = 0 := by
  intro y _; simp [foldY]


/-! ## the identity list of the real verifier -/

open Ids in
/-- **Every constraint class exactly once, in the order of the Rust code.** For every
constraint system (any gates, lookups, trash arguments, permutation columns, query lists, degree
`≥ 3` — `ConstraintSystem::degree()` is at least `permutation.required_degree() = 3`), every
challenge and every evaluation vector with one `Evaluated` per column set / lookup / trash
argument (which the reading code guarantees, `labelled_evals_shaped`), the class tags of the
identity list `evaluate_identities` hands to `PartiallyEvaluated::verify` for one proof are
exactly: every polynomial of every gate; `permFirst`, `permLast` (iff there is a permutation
column), `permChain s` for `1 ≤ s < sets`, `permProduct s` for `s < sets`,
`sets = ⌈#permutation columns / (degree − 2)⌉`; the five rules of every lookup; one rule per
trash argument — in this order, and no class occurs twice. A verifier that drops, duplicates or
reorders a rule no longer matches `Model/C02/Identities.lean`, which the correspondence run
compares with the hooked identity log value by value. -/
theorem ids_cover (f : Fld) (cs : VCS) (com : CommonEvals) (L : Lagrange) (ch : Challenges)
    (ev : ProofEvals) (hdeg : 3 ≤ cs.degree) (hs : Shaped cs com ev) :
    (proofIds f cs com L ch ev).map Prod.fst = expectedClasses (shapeOf cs) ∧
      ((proofIds f cs com L ch ev).map Prod.fst).Nodup := by
  have h := proofIds_classes f cs com L ch ev hdeg hs
  exact ⟨h, h ▸ expectedClasses_nodup _⟩

/-- The hypothesis `Shaped` of `ids_cover` holds for the evaluations the model rebuilds from the
labelled transcript (`Model/C02/Label.lean`, mirroring `permutation::verifier::Committed::evaluate`,
`lookup::verifier::Committed::evaluate`, `trash::verifier::Committed::evaluate`,
`VerifyingKey::evaluate`), for every constraint system, every stream and every proof index. -/
theorem labelled_evals_shaped (f : Ids.Fld) (cs : Ids.VCS) (nCommitted : Nat)
    (get : MidnightZK.C01.Tag → Nat) (x xn maxLen : Nat) (plain : List (List Nat)) (pi : Nat) :
    Ids.Shaped cs (Label.commonEvalsOfTags cs get)
      (Label.proofEvalsOfTags f cs nCommitted get x xn maxLen plain pi) :=
  Ids.labelled_evals_shaped_aux f cs nCommitted get x xn maxLen plain pi

/-- A constraint system with two gates (2 + 1 polynomials), 3 permutation columns at degree 4
(chunks of 2 columns: 2 sets), 1 lookup, 1 trash argument. -/
def coverCS : Ids.VCS :=
  { gates := [[.advice 0 0, .advice 1 0], [.fixed 0 0]],
    lookups := [([.advice 0 0], [.fixed 0 0])], trash := [(.fixed 0 0, [.advice 1 0])],
    permCols := [(.advice, 0), (.advice, 1), (.fixed, 0)],
    adviceQueries := [(0, 0), (1, 0)], fixedQueries := [(0, 0)], instanceQueries := [],
    degree := 4, blinding := 3, k := 3 }

/-- Non-vacuity of `ids_cover` and a concrete reading of the order: on `coverCS` with
evaluations rebuilt from an (all-zero) labelled stream the tags are the 14 listed ones. -/
example : (Ids.proofIds ⟨17, 3, 2, 1⟩ coverCS (Label.commonEvalsOfTags coverCS fun _ => 0) ⟨1, 2, 3⟩
      ⟨1, 2, 3, 4, 5, 6, []⟩ (Label.proofEvalsOfTags ⟨17, 3, 2, 1⟩ coverCS 0 (fun _ => 0) 1 1 0 [] 0)).map Prod.fst =
    [.gate 0 0, .gate 0 1, .gate 1 0, .permFirst, .permLast, .permChain 1, .permProduct 0,
     .permProduct 1, .lookup 0 1, .lookup 0 2, .lookup 0 3, .lookup 0 4, .lookup 0 5, .trash 0] := by
  decide

/-- No permutation column: no permutation identity at all. -/
example : Ids.expectedClasses ⟨[1], 0, 3, 0, 0⟩ = [.gate 0 0] := by decide

/-- **A gate identity read on the rows is the gate polynomial on the rows.** For every
constraint system, every assignment table and every gate polynomial whose leaves are registered
queries with field-element cells on the rows `i < n`: the identity values of ALL gates
(`Ids.gateIds`, the first section of the verifier's list) computed from the evaluation vectors of
row `i` (`Ids.rowEnv`: the value at `ω^i` of a Lagrange-form polynomial is its `i`-th entry)
vanish on every row iff every gate polynomial evaluates to zero on every row in the sense of
`RowSat.lean` (`gatesOK`, what `MockProver` checks). The query-index plumbing
(`fixed_evals[query.index]` ↔ `(column, rotation)`) and the arithmetic agree. -/
theorem gate_identity_rows (cs : Ids.VCS) (t : Table)
    (h : ∀ g ∈ cs.gates.flatten, ∀ i < t.n, Ids.LeavesOK cs t i g) :
    (∀ i < t.n, ∀ cv ∈ Ids.gateIds (Ids.rowEnv cs t i), cv.2 = 0) ↔
      (∀ g ∈ cs.gates.flatten, ∀ i < t.n, isZero (g.eval t i) = true) := by
  have key : ∀ i < t.n, (∀ cv ∈ Ids.gateIds (Ids.rowEnv cs t i), cv.2 = 0) ↔
      ∀ g ∈ cs.gates.flatten, isZero (g.eval t i) = true := by
    intro i hi
    have hv := Ids.gateIds_values (Ids.rowEnv cs t i)
    constructor
    · intro hz g hg
      rw [Ids.eval_eq_evalQ cs t i g (h g hg i hi), Ids.isZero_real]
      have : Ids.evalQ (Ids.rowEnv cs t i) g ∈ (Ids.gateIds (Ids.rowEnv cs t i)).map Prod.snd := by
        rw [hv]; exact List.mem_map.mpr ⟨g, hg, rfl⟩
      obtain ⟨cv, hcv, hcv2⟩ := List.mem_map.mp this
      rw [← hcv2]; exact hz cv hcv
    · intro hz cv hcv
      have : cv.2 ∈ (Ids.gateIds (Ids.rowEnv cs t i)).map Prod.snd := List.mem_map.mpr ⟨cv, hcv, rfl⟩
      rw [hv] at this
      obtain ⟨g, hg, hg2⟩ := List.mem_map.mp this
      have := hz g hg
      rw [Ids.eval_eq_evalQ cs t i g (h g hg i hi), Ids.isZero_real] at this
      rw [← hg2]; exact this
  constructor
  · intro hz g hg i hi; exact (key i hi).mp (hz i hi) g hg
  · intro hz i hi; exact (key i hi).mpr (fun g hg => hz g hg i hi)

/-- One gate `a0·a1 − a2` over three advice columns. -/
def gateCS : Ids.VCS :=
  { coverCS with
    gates := [[Expr.sum (Expr.prod (Expr.advice 0 0) (Expr.advice 1 0)) (Expr.neg (Expr.advice 2 0))]]
    adviceQueries := [(0, 0), (1, 0), (2, 0)] }

def gateTable : Table :=
  { p := 17, n := 2, fixed := [], advice := [[.real 2, .real 3], [.real 5, .real 4], [.real 10, .real 12]],
    inst := [], challenges := [] }

/-- Non-vacuity of `gate_identity_rows`: the gate `a0·a1 − a2` on a 2-row table over `F_17`
(both sides of the equivalence hold: `2·5 = 10`, `3·4 = 12`). -/
example : (∀ g ∈ gateCS.gates.flatten, ∀ i < gateTable.n, Ids.LeavesOK gateCS gateTable i g) ∧
    (∀ i < gateTable.n, ∀ cv ∈ Ids.gateIds (Ids.rowEnv gateCS gateTable i), cv.2 = 0) := by
  constructor
  · intro g hg i hi
    simp only [gateCS, List.flatten_cons, List.flatten_nil, List.append_nil, List.mem_singleton] at hg
    subst hg
    have : i = 0 ∨ i = 1 := by simp only [gateTable] at hi; omega
    rcases this with rfl | rfl <;> simp [Ids.LeavesOK, cell, gateCS, gateTable, coverCS]
  · intro i hi
    have : i = 0 ∨ i = 1 := by simp only [gateTable] at hi; omega
    rcases this with rfl | rfl <;> decide

section Field
open MidnightZK.C01.Args Polynomial
variable {F : Type} [Field F]

/-- **Permutation argument, rows ⇒ rules.** If every value of `permExpressionsRow`
(`Model/C01/Arguments.lean`: `permutation.rs: expressions` read on row `i`, List-based) is zero
on every row `i < n`, then the four rule families of `PermSound.lean` hold for the running
products `zOf zs`, the cell values `vOf cols`, the σ labels `sigmaOf cols` and the identity
labels `δ^c·ω^i` — hence (`perm_rules_imply_product_eq'`) the grand-product equality. -/
theorem perm_grand_product_eq (L n bf : ℕ) (hL : 0 < L) (hn : 0 < n) (β γ δ ω : F)
    (cols : List (List F × List F)) (zs : List (List F)) (hm : 0 < cols.length)
    (hS : zs.length = numSets cols.length L)
    (h : ∀ i < n, ∀ x ∈ permExpressionsRow L n bf β γ δ ω cols zs i, x = 0) :
    zOf zs (numSets cols.length L - 1) (n - (bf + 1)) *
        ∏ c ∈ Finset.range cols.length, ∏ i ∈ Finset.range (n - (bf + 1)),
          (vOf cols c i + β * sigmaOf cols c i + γ) =
      ∏ c ∈ Finset.range cols.length, ∏ i ∈ Finset.range (n - (bf + 1)),
        (vOf cols c i + β * idlOf δ ω c i + γ) ∧
      (zOf zs (numSets cols.length L - 1) (n - (bf + 1)) = 0 ∨
        zOf zs (numSets cols.length L - 1) (n - (bf + 1)) = 1) := by
  have rules := perm_rows_imply_rules L n bf hL hn β γ δ ω cols zs hm hS h
  rw [hS] at rules
  exact perm_rules_imply_product_eq' cols.length L (n - (bf + 1)) hm hL _ _ _ _ β γ rules

/-- **Soundness of the permutation argument, counting form, over any field** (the distinctness of
the labels is a hypothesis here; `perm_argument_sound` below discharges it for the field of the
proof system). `cols` = for every permutation
column its values and its σ-label values (both fixed before `β, γ` are drawn), `chunk_len = L ≥ 1`,
`u = n − (blinding_factors + 1)` usable rows, `N = #columns · u` usable cells. Assume the
identity labels `δ^c·ω^i` are pairwise distinct on the usable cells and the σ labels are the
identity labels permuted by a permutation `π` of the usable cells (what
`permutation/keygen.rs` builds from the copy constraints). Then there is a set `Bad` of at most
`(2N)²` values of `β` such that for every other `β`: if for MORE THAN `2N` values of `γ` the
prover can supply running products `zs` (one per column set) making every permutation identity
vanish on every row, then `v (π k) = v k` for every usable cell `k` — every copy constraint
holds. Contrapositive: an assignment violating a copy constraint can satisfy the permutation
identities on the whole domain for at most `(2N)²·|F| + 2N·|F|` of the `|F|²` challenge pairs.
What remains outside this theorem: that the identities hold on the whole domain follows from the
verifier's equation by `verifier_equation_sound`; that the evaluations are those of committed
polynomials and that `β, γ` are random is the cryptographic part. -/
theorem perm_argument_sound_generic (L n bf : ℕ) (hL : 0 < L) (hn : 0 < n) (δ ω : F)
    (cols : List (List F × List F)) (hm : 0 < cols.length)
    (π : Equiv.Perm (Fin cols.length × Fin (n - (bf + 1))))
    (hid : Function.Injective fun k : Fin cols.length × Fin (n - (bf + 1)) => idlOf δ ω k.1 k.2)
    (hσ : ∀ k : Fin cols.length × Fin (n - (bf + 1)), sigmaOf cols k.1 k.2 = idlOf δ ω (π k).1 (π k).2) :
    ∃ Bad : Finset F, Bad.card ≤ (2 * (cols.length * (n - (bf + 1)))) ^ 2 ∧
      ∀ β, β ∉ Bad → ∀ Γ : Finset F, 2 * (cols.length * (n - (bf + 1))) < Γ.card →
        (∀ γ ∈ Γ, ∃ zs : List (List F), zs.length = numSets cols.length L ∧
          ∀ i < n, ∀ x ∈ permExpressionsRow L n bf β γ δ ω cols zs i, x = 0) →
        ∀ k : Fin cols.length × Fin (n - (bf + 1)), vOf cols (π k).1 (π k).2 = vOf cols k.1 k.2 :=
  perm_argument_sound_count L n bf hL hn δ ω cols hm π hid hσ

/-- Non-vacuity of `perm_argument_sound_generic` / `perm_grand_product_eq`: one column, `n = 2`, one
usable cell with value `5` and label `1 = δ⁰ω⁰` mapped to itself; for EVERY `β, γ` the constant
running product satisfies every rule on both rows (so the inner hypothesis is satisfiable for
any number of challenges), and the outer hypotheses hold. -/
example : (∀ β γ : ℚ, ∃ zs : List (List ℚ), zs.length = numSets 1 1 ∧
      ∀ i < 2, ∀ x ∈ permExpressionsRow 1 2 0 β γ (2 : ℚ) 3 [([5, 0], [1, 0])] zs i, x = 0) ∧
    Function.Injective (fun k : Fin 1 × Fin (2 - (0 + 1)) => idlOf (2 : ℚ) 3 k.1 k.2) ∧
    ∀ k : Fin 1 × Fin (2 - (0 + 1)), sigmaOf [(([5, 0], [1, 0]) : List ℚ × List ℚ)] k.1 k.2 =
      idlOf (2 : ℚ) 3 ((Equiv.refl _ : Equiv.Perm _) k).1 ((Equiv.refl _ : Equiv.Perm _) k).2 := by
  refine ⟨fun β γ => ⟨[[1, 1]], by decide, ?_⟩, ?_, ?_⟩
  · intro i hi
    have : i = 0 ∨ i = 1 := by omega
    rcases this with rfl | rfl <;> simp [permExpressionsRow, permLeftRight, chunks, powN]
  · intro a b _
    exact Prod.ext (Fin.ext (by omega)) (Fin.ext (by omega))
  · rintro ⟨⟨a, ha⟩, ⟨b, hb⟩⟩
    have ha0 : a = 0 := by omega
    have hb0 : b = 0 := by omega
    subst ha0 hb0
    simp [sigmaOf, idlOf]

/-- **Soundness of the lookup argument on compressed values.** `A`, `S` = the θ-compressed input
and table expressions on the `n` rows, `A'`, `S'` = the permuted columns (all fixed before
`β, γ`). If for every `(β, γ)` of a grid `B × Γ` with `#B, #Γ > 2u` the prover can supply a
running product `z` making the five identities of `lookup.rs: Evaluated::expressions` vanish on
every row, then every compressed input value on a usable row is a compressed table value of a
usable row. (No side condition on the last product value: the `≤ u` challenges per axis that
make a grand product vanish are discarded inside the proof.) -/
theorem lookup_argument_sound (n bf : ℕ) (hn : 0 < n) (A S A' S' : List F) (B Γ : Finset F)
    (hB : 2 * (n - (bf + 1)) < B.card) (hΓ : 2 * (n - (bf + 1)) < Γ.card)
    (hrows : ∀ β ∈ B, ∀ γ ∈ Γ, ∃ z : List F,
      ∀ i < n, ∀ x ∈ lookupExpressionsRow n bf β γ A S A' S' z i, x = 0) :
    ∀ i < n - (bf + 1), ∃ j < n - (bf + 1), A.getD i 0 = S.getD j 0 :=
  lookup_argument_sound_rows n bf hn A S A' S' B Γ hB hΓ hrows

/-- Non-vacuity of `lookup_argument_sound`: `n = 3`, `u = 2`, inputs `(2,2)` in the table `(2,3)`;
for every `β, γ` the constant running product satisfies the five identities on all three rows. -/
example : ∀ β γ : ℚ, ∃ z : List ℚ, ∀ i < 3,
    ∀ x ∈ lookupExpressionsRow 3 0 β γ [2, 2, 7] [2, 3, 9] [2, 2, 1] [2, 3, 4] z i, x = 0 := by
  intro β γ
  refine ⟨[1, 1, 1], fun i hi => ?_⟩
  have : i = 0 ∨ i = 1 ∨ i = 2 := by omega
  rcases this with rfl | rfl | rfl <;> simp [lookupExpressionsRow]

/-- **Soundness of the lookup argument on tuples (θ-compression step included).** `inp`, `tab` =
value vectors of the input / table expressions of one lookup (`ℓ` of each). If the input tuple of
a usable row `i₀` is not the table tuple of any usable row, then the challenges `θ` for which
the prover can still satisfy the five identities on every row for a `(> 2u) × (> 2u)` grid of
`(β, γ)` number at most `u·(ℓ − 1)`. -/
theorem lookup_argument_sound_tuples (n bf : ℕ) (hn : 0 < n) (inp tab : List (List F))
    (hlen : inp.length = tab.length) (i₀ : ℕ) (hi₀ : i₀ < n - (bf + 1))
    (hnot : ∀ j < n - (bf + 1), (inp.map fun e => e.getD i₀ 0) ≠ tab.map fun e => e.getD j 0)
    (Θ : Finset F)
    (h : ∀ θ ∈ Θ, ∃ (A' S' : List F) (B Γ : Finset F), 2 * (n - (bf + 1)) < B.card ∧
      2 * (n - (bf + 1)) < Γ.card ∧ ∀ β ∈ B, ∀ γ ∈ Γ, ∃ z : List F, ∀ i < n,
        ∀ x ∈ lookupExpressionsRow n bf β γ (compressCol θ inp n) (compressCol θ tab n) A' S' z i, x = 0) :
    Θ.card ≤ (n - (bf + 1)) * (inp.length - 1) :=
  lookup_argument_sound_tuples_aux n bf hn inp tab hlen i₀ hi₀ hnot Θ h

/-- Non-vacuity of `lookup_argument_sound_tuples`: a two-column lookup whose row-0 input tuple
`(1, 2)` is not in the table `{(2, 1), (2, 1)}`; the hypotheses about the tuples hold (and the
bound `u·(ℓ−1) = 2` is attained in spirit: `θ = 1` compresses `(1,2)` and `(2,1)` alike). -/
example : ([[1, 0, 0], [2, 0, 0]] : List (List ℚ)).length = ([[2, 2, 0], [1, 1, 0]] : List (List ℚ)).length ∧
    ∀ j < 3 - (0 + 1), (([[1, 0, 0], [2, 0, 0]] : List (List ℚ)).map fun e => e.getD 0 0) ≠
      ([[2, 2, 0], [1, 1, 0]] : List (List ℚ)).map fun e => e.getD j 0 := by
  refine ⟨rfl, fun j hj => ?_⟩
  have : j = 0 ∨ j = 1 := by omega
  rcases this with rfl | rfl <;> simp

/-- **Soundness of the trash argument (additive selectors).** On a row where the selector `q`
is `1` the identity `compressed − (1 − q)·trash` of `trash.rs: Evaluated::expressions` reads
`compressed = 0` whatever the prover puts in the trash column. If this holds for at least as
many trash challenges as there are constraint expressions, every constraint expression is zero
on that row: an additive-selector constraint violated on an enabled row survives for fewer than
`#constraint_expressions` values of the trash challenge. (The trash column is committed after
the challenge; with `q = 1` it does not enter.) -/
theorem trash_argument_sound (exprs : List (List F)) (q : List F) (i : ℕ) (hq : q.getD i 0 = 1)
    (Θ : Finset F) (hΘ : exprs.length ≤ Θ.card)
    (h : ∀ c ∈ Θ, ∃ trash : List F, trashExpressionRow c q exprs trash i = 0) :
    ∀ e ∈ exprs, e.getD i 0 = 0 :=
  trash_argument_sound_rows exprs q i hq Θ hΘ h

/-- Non-vacuity of `trash_argument_sound`: two constraint expressions that vanish on row 0 with
`q = 1`; the identity holds for both challenges `0, 1`. -/
example : ∀ c ∈ ({0, 1} : Finset ℚ), ∃ trash : List ℚ,
    trashExpressionRow c [1, 0] [[0, 4], [0, 5]] trash 0 = 0 := by
  intro c _
  exact ⟨[0, 0], by simp [trashExpressionRow, compressRow]⟩

/-- **Soundness of evaluating at `x`.** A polynomial of degree at most `d` that vanishes at more
than `d` points is zero: the verifier's equation, a polynomial identity in `X` of degree below
`(degree − 1)·n`, holds identically unless `x` is one of at most that many values. -/
theorem x_evaluation_sound (p : F[X]) (d : ℕ) (hd : p.natDegree ≤ d) (Xs : Finset F)
    (hX : d < Xs.card) (h : ∀ x ∈ Xs, p.eval x = 0) : p = 0 :=
  x_evaluation_sound_aux p d hd Xs hX h

/-- Non-vacuity of `x_evaluation_sound` (with a non-zero bound): the zero polynomial, `d = 1`. -/
example : ((0 : ℚ[X]).natDegree ≤ 1) ∧ 1 < ({0, 1} : Finset ℚ).card ∧
    ∀ x ∈ ({0, 1} : Finset ℚ), (0 : ℚ[X]).eval x = 0 := by
  refine ⟨by simp, by decide, fun x _ => by simp⟩

/-- **The verifier's single equation forces every identity to vanish on the domain.** `ids` =
the identity polynomials (in the order of `ids_cover`), `combinedPoly ids y = Σ y^k·id_k` in the
Horner order of `PartiallyEvaluated::verify`. If for at least `#ids` values of `y` there is a
quotient `h` (committed after `y`) such that `combined(x) = h(x)·(xⁿ − 1)` — the equation
`expected_h_eval = h(x)` the verifier checks through the opening — holds at more points `x` than
the degree `d` of `combined − h·(Xⁿ − 1)`, then every identity polynomial vanishes at every `n`-th
root of unity, i.e. on every row of the domain. -/
theorem verifier_equation_sound (ids : List F[X]) (n d : ℕ) (Y : Finset F) (hY : ids.length ≤ Y.card)
    (hq : ∀ y ∈ Y, ∃ (h : F[X]) (Xs : Finset F),
      (combinedPoly ids y - h * (X ^ n - 1)).natDegree ≤ d ∧ d < Xs.card ∧
      ∀ x ∈ Xs, (combinedPoly ids y).eval x = h.eval x * (x ^ n - 1)) :
    ∀ w : F, w ^ n = 1 → ∀ p ∈ ids, p.eval w = 0 :=
  verifier_equation_sound_aux ids n d Y hY hq

/-- Non-vacuity of `verifier_equation_sound`: the single identity `X² − 1` over `ℚ`, `n = 2`,
quotient `h = 1`. -/
example : ∀ y ∈ ({0} : Finset ℚ), ∃ (h : ℚ[X]) (Xs : Finset ℚ),
    (combinedPoly [(X ^ 2 - 1 : ℚ[X])] y - h * (X ^ 2 - 1)).natDegree ≤ 0 ∧ 0 < Xs.card ∧
    ∀ x ∈ Xs, (combinedPoly [(X ^ 2 - 1 : ℚ[X])] y).eval x = h.eval x * (x ^ 2 - 1) := by
  intro y _
  refine ⟨1, {0}, by simp [combinedPoly], by simp, fun x _ => by simp [combinedPoly]⟩

end Field

/-! ## the identity model and the row model state the same rules -/

open MidnightZK.C01.Args in
/-- **The lookup identities of the identity model are the row rules.** `Model/C02/Identities.lean`
(validated against the hooked identity log on every run) computes on canonical representatives
mod `p`; the row-level soundness theorems above speak about `lookupExpressionsRow`
(`Model/C01/Arguments.lean`) over a field. For every environment, challenge set, lookup argument
and row `i`: if the five evaluations are the row values of `z, A', S'` (`product_next` at
`(i+1) mod n`, `permuted_input_inv` at `(i−1) mod n`), the compressed input / table expressions
are `A[i]`, `S[i]`, and `l_0, l_last, l_blind` are the row indicators, then the five identity
values cast to `ZMod p` are exactly the list `lookupExpressionsRow … i` — same rules, same order. -/
theorem lookup_identity_is_row_rule {p : ℕ} [NeZero p] (e : Ids.Env) (hp : e.p = p) (n bf i li : ℕ)
    (ch : Ids.Challenges) (ev : Ids.LookupEvals) (arg : List Expr × List Expr)
    (A S A' S' z : List (ZMod p))
    (hz : (ev.product : ZMod p) = z.getD i 0) (hzn : (ev.productNext : ZMod p) = z.getD ((i + 1) % n) 0)
    (ha' : (ev.permutedInput : ZMod p) = A'.getD i 0)
    (hai : (ev.permutedInputInv : ZMod p) = A'.getD ((i + (n - 1)) % n) 0)
    (hs' : (ev.permutedTable : ZMod p) = S'.getD i 0)
    (hA : ((Ids.compress e ch.theta arg.1 : ℕ) : ZMod p) = A.getD i 0)
    (hS : ((Ids.compress e ch.theta arg.2 : ℕ) : ZMod p) = S.getD i 0) :
    (Ids.lookupIdsOne e (Ids.rowLagrange n bf i) ch li ev arg).map (fun cv => ((cv.2 : ℕ) : ZMod p)) =
      lookupExpressionsRow n bf (ch.beta : ZMod p) (ch.gamma : ZMod p) A S A' S' z i :=
  Ids.lookupIds_eq_row e hp n bf i li ch ev arg A S A' S' z hz hzn ha' hai hs' hA hS

open MidnightZK.C01.Args in
/-- Non-vacuity of `lookup_identity_is_row_rule`: `p = 17`, one input and one table expression
`a0`, `t0` with evaluations `3`, `3`, running product `1`, row `0` of `n = 4`. -/
example : ((Ids.compress ⟨17, coverCS, [3], [3, 0], [], []⟩ 5 [Expr.advice 0 0] : ℕ) : ZMod 17) =
      ([3, 0, 0, 0] : List (ZMod 17)).getD 0 0 ∧
    ((1 : ℕ) : ZMod 17) = ([1, 1, 1, 1] : List (ZMod 17)).getD ((0 + 1) % 4) 0 := by
  constructor <;> decide

open MidnightZK.C01.Args in
/-- **The trash identity of the identity model is the row rule** `trashExpressionRow`, under the
same reading of the evaluations as row values. -/
theorem trash_identity_is_row_rule {p : ℕ} [NeZero p] (e : Ids.Env) (hp : e.p = p) (i : ℕ)
    (ch : Ids.Challenges) (trashEval : ℕ) (arg : Expr × List Expr) (q trash : List (ZMod p))
    (exprs : List (List (ZMod p)))
    (hq : ((Ids.evalQ e arg.1 : ℕ) : ZMod p) = q.getD i 0) (ht : (trashEval : ZMod p) = trash.getD i 0)
    (hc : ((Ids.compress e ch.trash arg.2 : ℕ) : ZMod p) = compressRow (ch.trash : ZMod p) exprs i) :
    ((Ids.trashIdOne e ch trashEval arg : ℕ) : ZMod p) =
      trashExpressionRow (ch.trash : ZMod p) q exprs trash i :=
  Ids.trashId_eq_row e hp i ch trashEval arg q trash exprs hq ht hc

open MidnightZK.C01.Args in
/-- Non-vacuity of `trash_identity_is_row_rule`: selector `f0 = 1`, constraint `a1 = 0`, `p = 17`. -/
example : ((Ids.evalQ ⟨17, coverCS, [1], [3, 0], [], []⟩ (Expr.fixed 0 0) : ℕ) : ZMod 17) =
      ([1, 0] : List (ZMod 17)).getD 0 0 ∧
    ((Ids.compress ⟨17, coverCS, [1], [3, 0], [], []⟩ 7 [Expr.advice 1 0] : ℕ) : ZMod 17) =
      compressRow ((7 : ℕ) : ZMod 17) [[0, 2]] 0 := by
  constructor <;> decide

open MidnightZK.C01.Args in
/-- **The permutation identities of the identity model are the row rules.** For every field
modulus `p`, environment, evaluations and challenges: if what the verifier read are the row
values — for every column set `(z_s[i], z_s[(i+1) mod n])`, for every set but the last
`z_s[(i+u) mod n]` (`permutation_product_last_eval`), for every permutation column its value and
its σ value on row `i` — `x = ω^i` and `l_0, l_last, l_blind` are the row indicators, then the
values of `Ids.permIds` (the permutation section of the list the verifier folds, in its order:
first, last, chain…, product…) cast to `ZMod p` are exactly `permExpressionsRow … i`
(`Model/C01/Arguments.lean`) with `chunk_len = degree − 2`, `δ = F::DELTA`. Together with
`perm_argument_sound` this makes the row-level soundness statement a statement about the
identity list validated against the real verifier. -/
theorem perm_identity_is_row_rule {p : ℕ} [NeZero p] (f : Ids.Fld) (e : Ids.Env) (hp : e.p = p)
    (permCommon : List ℕ) (sets : List Ids.PermSet) (ch : Ids.Challenges) (n bf i : ℕ) (ω : ZMod p)
    (cols : List (List (ZMod p) × List (ZMod p))) (zs : List (List (ZMod p)))
    (hx : (ch.x : ZMod p) = powN ω i)
    (hsets : (sets.map fun s => ((s.eval : ZMod p), (s.next : ZMod p))) =
      zs.map fun z => (z.getD i 0, z.getD ((i + 1) % n) 0))
    (hlast : (sets.dropLast.map fun s => ((s.last.getD 0 : ℕ) : ZMod p)) =
      zs.dropLast.map fun z => z.getD ((i + (n - (bf + 1))) % n) 0)
    (hcols : (e.cs.permCols.map fun c => ((Ids.colEval e c : ℕ) : ZMod p)) = cols.map fun c => c.1.getD i 0)
    (hperm : (permCommon.map fun v => ((v : ℕ) : ZMod p)) = cols.map fun c => c.2.getD i 0) :
    (Ids.permIds f e permCommon sets (Ids.rowLagrange n bf i) ch).map (fun cv => ((cv.2 : ℕ) : ZMod p)) =
      permExpressionsRow (e.cs.degree - 2) n bf (ch.beta : ZMod p) (ch.gamma : ZMod p)
        (f.delta : ZMod p) ω cols zs i :=
  Ids.permIds_eq_row f e hp permCommon sets ch n bf i ω cols zs hx hsets hlast hcols hperm

open MidnightZK.C01.Args in
/-- Non-vacuity of `perm_identity_is_row_rule`: `p = 17`, two permutation columns `a0, a1` at
degree 3 (two sets), row `0` of `n = 4`, `bf = 1`: every hypothesis holds for concrete
evaluations (`z_0 = (1, 5, …)`, `z_1 = (2, 7, …)`, `z_0` on row `u = 2` is `9`). -/
example :
    ((([⟨1, 5, some 9⟩, ⟨2, 7, none⟩] : List Ids.PermSet).map fun s => ((s.eval : ZMod 17), (s.next : ZMod 17))) =
      ([[1, 5, 9, 0], [2, 7, 3, 0]] : List (List (ZMod 17))).map fun z => (z.getD 0 0, z.getD ((0 + 1) % 4) 0)) ∧
    ((([⟨1, 5, some 9⟩, ⟨2, 7, none⟩] : List Ids.PermSet).dropLast.map fun s => ((s.last.getD 0 : ℕ) : ZMod 17)) =
      ([[1, 5, 9, 0], [2, 7, 3, 0]] : List (List (ZMod 17))).dropLast.map fun z => z.getD ((0 + (4 - (1 + 1))) % 4) 0) ∧
    (((coverCS.permCols.take 2).map fun c =>
        ((Ids.colEval ⟨17, coverCS, [1], [3, 4], [], []⟩ c : ℕ) : ZMod 17)) =
      ([([3, 0], [6, 0]), ([4, 0], [8, 0])] : List (List (ZMod 17) × List (ZMod 17))).map fun c => c.1.getD 0 0) ∧
    ((1 : ℕ) : ZMod 17) = powN (3 : ZMod 17) 0 := by
  refine ⟨by decide, by decide, by decide, by decide⟩

/-! ## the field of the proof system: labels, domain, Lagrange basis, public inputs -/

section Bls
open MidnightZK.C01.Args MidnightZK.C01.Asm Polynomial

/-- The scalar field of BLS12-381 as `ZMod` of the generated modulus (prime: `C10.bls_scalar_prime`,
Lucas certificate). -/
abbrev Fr : Type := ZMod Consts.modulus
/-- `F::DELTA` in `Fr`. -/
def deltaFr : Fr := ((Consts.delta : ℕ) : Fr)
/-- `omega` of the evaluation domain of size `2^k` in `Fr` (`EvaluationDomain::new`). -/
def omegaFr (k : ℕ) : Fr := ((Ids.omegaOf blsFld k : ℕ) : Fr)

instance : Fact (Nat.Prime blsFld.p) := Labels.modulus_prime

/-- `F::DELTA` has multiplicative order exactly `t = (r − 1)/2^S` (odd): `DELTA^t = 1` and
`DELTA^(t/q) ≠ 1` for each of the 11 prime divisors `q` of `t` (kernel-evaluated on the
generated constant). -/
theorem delta_orderOf : orderOf deltaFr = Labels.oddPart := Labels.delta_orderOf

/-- `F::DELTA = MULTIPLICATIVE_GENERATOR^(2^S)` (the comment in `fq.rs`), on the generated constants. -/
theorem delta_is_generator_power :
    powMod Consts.generator (2 ^ Consts.twoAdicity) Consts.modulus = Consts.delta :=
  Labels.delta_is_generator_power

/-- For every `k ≤ S` the `omega` of `EvaluationDomain::new` (`ROOT_OF_UNITY` squared `S − k` times)
is a primitive `2^k`-th root of unity: the `n = 2^k` rows `ω^i` of the domain are pairwise distinct
and are exactly the roots of `X^n − 1`. -/
theorem omega_primitive (k : ℕ) (hk : k ≤ Consts.twoAdicity) : IsPrimitiveRoot (omegaFr k) (2 ^ k) :=
  Labels.omega_primitive k hk

/-- **The permutation labels are pairwise distinct.** In the scalar field of the proof system, for
every domain size `2^k` (`k ≤ S = 32`) and every number of permutation columns up to
`t = (r − 1)/2^S ≈ 2^223`: `δ^c·ω^i = δ^c'·ω^i'` with `c, c' < t`, `i, i' < 2^k` forces `c = c'` and
`i = i'` (`⟨δ⟩` has odd order `t`, `⟨ω⟩` order `2^k`, the two subgroups meet in `{1}`). This is the
hypothesis `hid` of `perm_argument_sound_generic`. -/
theorem perm_labels_injective (k : ℕ) (hk : k ≤ Consts.twoAdicity) {c c' i i' : ℕ}
    (hc : c < Labels.oddPart) (hc' : c' < Labels.oddPart) (hi : i < 2 ^ k) (hi' : i' < 2 ^ k)
    (h : idlOf deltaFr (omegaFr k) c i = idlOf deltaFr (omegaFr k) c' i') : c = c' ∧ i = i' :=
  Labels.perm_labels_injective_bls k hk hc hc' hi hi' h

/-- The same over any field: `orderOf δ = t`, `ω` a primitive `n`-th root of unity, `gcd(t, n) = 1`. -/
theorem perm_labels_injective_of_orders {F : Type} [Field F] (δ ω : F) (t n : ℕ) (hδ : orderOf δ = t)
    (hω : IsPrimitiveRoot ω n) (hcop : Nat.Coprime t n) {c c' i i' : ℕ} (hc : c < t) (hc' : c' < t)
    (hi : i < n) (hi' : i' < n) (h : idlOf δ ω c i = idlOf δ ω c' i') : c = c' ∧ i = i' :=
  Labels.labels_injective_of_orders δ ω t n hδ hω hcop hc hc' hi hi' h

/-- Non-vacuity of `perm_labels_injective`: `k = 4`, equal labels. -/
example : idlOf deltaFr (omegaFr 4) 3 5 = idlOf deltaFr (omegaFr 4) 3 5 ∧ 4 ≤ Consts.twoAdicity ∧
    3 < Labels.oddPart ∧ 5 < 2 ^ 4 := ⟨rfl, by decide, by decide +kernel, by decide⟩

private theorem labels_injective_fin (k bf m : ℕ) (hk : k ≤ Consts.twoAdicity) (hm : m ≤ Labels.oddPart) :
    Function.Injective fun q : Fin m × Fin (2 ^ k - (bf + 1)) => idlOf deltaFr (omegaFr k) q.1 q.2 := by
  intro a b h
  have := perm_labels_injective k hk (lt_of_lt_of_le a.1.2 hm) (lt_of_lt_of_le b.1.2 hm)
    (lt_of_lt_of_le a.2.2 (Nat.sub_le _ _)) (lt_of_lt_of_le b.2.2 (Nat.sub_le _ _)) h
  exact Prod.ext (Fin.ext this.1) (Fin.ext this.2)

/-- **Soundness of the permutation argument, counting form, in the field of the proof system — no
hypothesis on the labels.** `cols` = for every permutation column its values and its σ-label
values (both fixed before `β, γ` are drawn), `chunk_len = L ≥ 1`, domain size `n = 2^k` (`k ≤ S`),
`u = n − (blinding_factors + 1)` usable rows, `N = #columns · u` usable cells, `δ = F::DELTA`,
`ω` = the domain generator. The σ labels are the identity labels `δ^c·ω^i` permuted by a permutation
`π` of the usable cells (what `permutation/keygen.rs` builds from the copy constraints). Then there
is a set `Bad` of at most `(2N)²` values of `β` such that for every other `β`: if for MORE THAN `2N`
values of `γ` the prover can supply running products `zs` (one per column set) making every
permutation identity vanish on every row, then `v (π q) = v q` for every usable cell `q` — every copy
constraint holds. The distinctness of the labels (`perm_labels_injective`) is proved from the
generated constants `DELTA`, `ROOT_OF_UNITY`, `S`, `MODULUS`. Contrapositive: an assignment violating
a copy constraint can satisfy the permutation identities on the whole domain for at most
`(2N)²·|F| + 2N·|F|` of the `|F|²` challenge pairs. What remains outside this theorem: that the
identities hold on the whole domain follows from the verifier's equation by
`verifier_equation_sound` (+ `perm_identity_vanishes_on_domain_iff_rows`); that the evaluations are
those of committed polynomials and that `β, γ` are random is the cryptographic part. -/
theorem perm_argument_sound (L k bf : ℕ) (hL : 0 < L) (hk : k ≤ Consts.twoAdicity)
    (cols : List (List Fr × List Fr)) (hm : 0 < cols.length) (hcols : cols.length ≤ Labels.oddPart)
    (π : Equiv.Perm (Fin cols.length × Fin (2 ^ k - (bf + 1))))
    (hσ : ∀ q : Fin cols.length × Fin (2 ^ k - (bf + 1)),
      sigmaOf cols q.1 q.2 = idlOf deltaFr (omegaFr k) (π q).1 (π q).2) :
    ∃ Bad : Finset Fr, Bad.card ≤ (2 * (cols.length * (2 ^ k - (bf + 1)))) ^ 2 ∧
      ∀ β, β ∉ Bad → ∀ Γ : Finset Fr, 2 * (cols.length * (2 ^ k - (bf + 1))) < Γ.card →
        (∀ γ ∈ Γ, ∃ zs : List (List Fr), zs.length = numSets cols.length L ∧
          ∀ i < 2 ^ k, ∀ x ∈ permExpressionsRow L (2 ^ k) bf β γ deltaFr (omegaFr k) cols zs i, x = 0) →
        ∀ q : Fin cols.length × Fin (2 ^ k - (bf + 1)), vOf cols (π q).1 (π q).2 = vOf cols q.1 q.2 :=
  perm_argument_sound_count L (2 ^ k) bf hL (Nat.pos_of_ne_zero (by positivity)) deltaFr (omegaFr k) cols hm π
    (labels_injective_fin k bf cols.length hk hcols) hσ

/-- Non-vacuity of `perm_argument_sound`: one column, `k = 1` (`n = 2`), `bf = 0`: one usable cell
with value `5` and label `1 = δ⁰ω⁰` mapped to itself; the outer hypotheses hold, and for EVERY
`β, γ` the constant running product satisfies every rule on both rows. -/
example : (∀ β γ : Fr, ∃ zs : List (List Fr), zs.length = numSets 1 1 ∧
      ∀ i < 2 ^ 1, ∀ x ∈ permExpressionsRow 1 (2 ^ 1) 0 β γ deltaFr (omegaFr 1) [([5, 0], [1, 0])] zs i, x = 0) ∧
    (1 ≤ Consts.twoAdicity ∧ [(([5, 0], [1, 0]) : List Fr × List Fr)].length ≤ Labels.oddPart) ∧
    ∀ q : Fin 1 × Fin (2 ^ 1 - (0 + 1)), sigmaOf [(([5, 0], [1, 0]) : List Fr × List Fr)] q.1 q.2 =
      idlOf deltaFr (omegaFr 1) ((Equiv.refl _ : Equiv.Perm _) q).1 ((Equiv.refl _ : Equiv.Perm _) q).2 := by
  refine ⟨fun β γ => ⟨[[1, 1]], by decide, ?_⟩, ⟨by decide, by decide +kernel⟩, ?_⟩
  · intro i hi
    have : i = 0 ∨ i = 1 := by omega
    rcases this with rfl | rfl <;> simp [permExpressionsRow, permLeftRight, chunks, powN]
  · rintro ⟨⟨a, ha⟩, ⟨b, hb⟩⟩
    have ha0 : a = 0 := by omega
    have hb0 : b = 0 := by omega
    subst ha0 hb0
    simp [sigmaOf, idlOf]

/-! ### identity polynomials on the domain ⇔ row rules (the indicator reading of `l_0`, `l_last`, `l_blind`) -/

variable {F : Type} [Field F] {n : ℕ} {ω : F}

/-- **Permutation class: the identity polynomials vanish on the whole domain iff the row rules hold on
every row.** `Dom.permIdPolys` = the polynomials of `permutation.rs: expressions` built from the column
polynomials of degree `< n` (Lagrange form of the committed vectors: values, σ labels, running
products), their rotations `z(ωX)`, `z(ω^{−(bf+1)}X)`, the label polynomial `δ^c·X` and the
Lagrange-basis polynomials `l_0`, `l_last`, `l_blind` (`indPoly`: `1` on the rows `0` / `u` / `> u`,
`0` on the other rows — proved from the interpolation property, not assumed). At the node `ω^i` they
evaluate to `permExpressionsRow … i`, the object of `perm_argument_sound`. -/
theorem perm_identity_vanishes_on_domain_iff_rows (hω : IsPrimitiveRoot ω n) (L bf : ℕ) (hbf : bf + 1 ≤ n)
    (β γ δ : F) (cols : List (List F × List F)) (zs : List (List F)) :
    (∀ p ∈ Dom.permIdPolys ω L n bf β γ δ cols zs, ∀ i, i < n → p.eval (ω ^ i) = 0) ↔
      ∀ i, i < n → ∀ x ∈ permExpressionsRow L n bf β γ δ ω cols zs i, x = 0 :=
  Dom.perm_vanishes_iff_rows hω L bf hbf β γ δ cols zs

/-- **Lookup class**: the five identity polynomials of one lookup (`C01.Asm.lookupIdPolys`: `l_0(1 − z)`,
`l_last(z² − z)`, the product rule, `l_0(a' − s')`, `(a' − s')(a' − a'(ω⁻¹X))·active`) vanish on the
whole domain iff `lookupExpressionsRow` is zero on every row. -/
theorem lookup_identity_vanishes_on_domain_iff_rows (hω : IsPrimitiveRoot ω n) (hn : 0 < n) (bf : ℕ)
    (β γ : F) (A S A' S' z : List F) :
    (∀ p ∈ lookupIdPolys ω n bf β γ A S A' S' z, ∀ i, i < n → p.eval (ω ^ i) = 0) ↔
      ∀ i, i < n → ∀ x ∈ lookupExpressionsRow n bf β γ A S A' S' z i, x = 0 :=
  Dom.lookup_vanishes_iff_rows hω hn bf β γ A S A' S' z

/-- **Trash class**: the identity polynomial `compressed − (1 − q)·trash` vanishes on the whole domain
iff `trashExpressionRow` is zero on every row. -/
theorem trash_identity_vanishes_on_domain_iff_rows (hω : IsPrimitiveRoot ω n) (c : F) (q : List F)
    (exprs : List (List F)) (trash : List F) :
    (∀ i, i < n → (trashIdPoly ω n c q exprs trash).eval (ω ^ i) = 0) ↔
      ∀ i, i < n → trashExpressionRow c q exprs trash i = 0 :=
  Dom.trash_vanishes_iff_rows hω c q exprs trash

/-- **Gate class: the gate polynomials vanish on the whole domain iff every gate holds on every
row.** `GatePoly.exprPoly` = the gate expression over the rotated column polynomials (the polynomial
whose value at `x` `evaluate_identities` computes from `fixed_evals`, `advice_evals`,
`instance_evals`); over any prime field, for every constraint system and assignment table whose
queried cells hold canonical field elements: it vanishes at every `ω^i` iff `MockProver`'s row
evaluation (`Expr.eval`, `gatesOK`) is zero on every row `i < n`. With `gate_identity_rows` (the
identity model on row evaluation vectors) this closes the gate class at polynomial level. -/
theorem gate_identity_vanishes_on_domain_iff_rows (t : Table) [Fact t.p.Prime] {w : ZMod t.p}
    (hw : IsPrimitiveRoot w t.n) (hn : 0 < t.n) (cs : Ids.VCS)
    (h : ∀ g ∈ cs.gates.flatten, ∀ i < t.n, Ids.LeavesOK cs t i g)
    (hred : ∀ g ∈ cs.gates.flatten, ∀ i < t.n, Ids.evalQ (Ids.rowEnv cs t i) g < t.p) :
    (∀ g ∈ cs.gates.flatten, ∀ i < t.n, (GatePoly.exprPoly t w g).eval (w ^ i) = 0) ↔
      ∀ g ∈ cs.gates.flatten, ∀ i < t.n, isZero (g.eval t i) = true :=
  GatePoly.gate_vanishes_iff_rows t hw hn cs h hred

/-- Non-vacuity of `gate_identity_vanishes_on_domain_iff_rows`: the 2-row table `gateTable` over
`F_17` with the gate `a0·a1 − a2` (`gateCS`): `17` is prime, `16 = −1` is a primitive 2nd root of
unity, every leaf is a registered query with a field-element cell and every row value is `< 17`. -/
example : Nat.Prime gateTable.p ∧ IsPrimitiveRoot (16 : ZMod 17) gateTable.n ∧
    (∀ g ∈ gateCS.gates.flatten, ∀ i < gateTable.n, Ids.LeavesOK gateCS gateTable i g) ∧
    (∀ g ∈ gateCS.gates.flatten, ∀ i < gateTable.n, Ids.evalQ (Ids.rowEnv gateCS gateTable i) g < gateTable.p) := by
  have : Fact (Nat.Prime 17) := ⟨by norm_num⟩
  refine ⟨by norm_num [gateTable], ?_, ?_, ?_⟩
  · have h16 : (16 : ZMod 17) = -1 := by rfl
    rw [h16]; exact IsPrimitiveRoot.neg_one 17 (by decide)
  · intro g hg i hi
    simp only [gateCS, List.flatten_cons, List.flatten_nil, List.append_nil, List.mem_singleton] at hg
    subst hg
    have : i = 0 ∨ i = 1 := by simp only [gateTable] at hi; omega
    rcases this with rfl | rfl <;> simp [Ids.LeavesOK, cell, gateCS, gateTable, coverCS]
  · intro g hg i hi
    simp only [gateCS, List.flatten_cons, List.flatten_nil, List.append_nil, List.mem_singleton] at hg
    subst hg
    have : i = 0 ∨ i = 1 := by simp only [gateTable] at hi; omega
    rcases this with rfl | rfl <;> decide

/-- Non-vacuity of the three equivalences: `ω = −1` is a primitive 2nd root of unity of `ℚ`, `bf = 0`. -/
example : IsPrimitiveRoot (-1 : ℚ) 2 ∧ 0 + 1 ≤ 2 := ⟨IsPrimitiveRoot.neg_one 0 (by decide), by decide⟩

/-- **Permutation soundness stated on the identity POLYNOMIALS** (the chain
`verifier_equation_sound` → this → copy constraints): in the field of the proof system, if for all
`β` outside a set of at most `(2N)²` values and more than `2N` values of `γ` the prover can supply
running products whose permutation identity polynomials vanish at every point of the domain, then
every copy constraint holds. -/
theorem perm_argument_sound_polys (L k bf : ℕ) (hL : 0 < L) (hk : k ≤ Consts.twoAdicity) (hbf : bf + 1 ≤ 2 ^ k)
    (cols : List (List Fr × List Fr)) (hm : 0 < cols.length) (hcols : cols.length ≤ Labels.oddPart)
    (π : Equiv.Perm (Fin cols.length × Fin (2 ^ k - (bf + 1))))
    (hσ : ∀ q : Fin cols.length × Fin (2 ^ k - (bf + 1)),
      sigmaOf cols q.1 q.2 = idlOf deltaFr (omegaFr k) (π q).1 (π q).2) :
    ∃ Bad : Finset Fr, Bad.card ≤ (2 * (cols.length * (2 ^ k - (bf + 1)))) ^ 2 ∧
      ∀ β, β ∉ Bad → ∀ Γ : Finset Fr, 2 * (cols.length * (2 ^ k - (bf + 1))) < Γ.card →
        (∀ γ ∈ Γ, ∃ zs : List (List Fr), zs.length = numSets cols.length L ∧
          ∀ p ∈ Dom.permIdPolys (omegaFr k) L (2 ^ k) bf β γ deltaFr cols zs,
            ∀ w : Fr, w ^ (2 ^ k) = 1 → p.eval w = 0) →
        ∀ q : Fin cols.length × Fin (2 ^ k - (bf + 1)), vOf cols (π q).1 (π q).2 = vOf cols q.1 q.2 := by
  obtain ⟨Bad, hBad, h⟩ := perm_argument_sound L k bf hL hk cols hm hcols π hσ
  refine ⟨Bad, hBad, fun β hβ Γ hΓ hz => h β hβ Γ hΓ fun γ hγ => ?_⟩
  obtain ⟨zs, hzs, hp⟩ := hz γ hγ
  refine ⟨zs, hzs, ?_⟩
  have hω := omega_primitive k hk
  exact (perm_identity_vanishes_on_domain_iff_rows hω L bf hbf β γ deltaFr cols zs).1
    fun p hpm i _ => hp p hpm _ (MidnightZK.C01.Dom.node_pow hω i)

/-! ### what the verifier computes off the domain -/

/-- **`l_0(x)`, `l_last(x)`, `l_blind(x)` of the identity model are the Lagrange-basis polynomials
evaluated at `x`.** For every `k ≤ S`, every number of blinding factors with `bf + 1 ≤ 2^k` and every
`x` off the domain: the naturals `Ids.lagrange blsFld cs x xⁿ` (mirror of `evaluate_identities` /
`l_i_range`, validated value by value against the hooked identity log of the real verifier: the
identity values depend on them) are, in `Fr`, the values at `x` of the polynomials of degree `< n`
that are the row indicators `[i = 0]`, `[i = u]`, `[u < i]` on the domain. So the identity values
the verifier folds are evaluations at `x` of the identity polynomials of
`perm_/lookup_/trash_identity_vanishes_on_domain_iff_rows`. -/
theorem lagrange_evals_are_basis_polys (cs : Ids.VCS) (hk : cs.k ≤ Consts.twoAdicity)
    (hbf : cs.blinding + 1 ≤ 2 ^ cs.k) (x : ℕ) (hx : (x : Fr) ^ (2 ^ cs.k) ≠ 1) :
    let Lg := Ids.lagrange blsFld cs x (Ids.xnOf blsFld.p cs.k x)
    ((Lg.l0 : ℕ) : Fr) = (indPoly (omegaFr cs.k) (2 ^ cs.k) (fun i => i = 0)).eval (x : Fr) ∧
    ((Lg.lLast : ℕ) : Fr) =
      (indPoly (omegaFr cs.k) (2 ^ cs.k) (fun i => i = 2 ^ cs.k - (cs.blinding + 1))).eval (x : Fr) ∧
    ((Lg.lBlind : ℕ) : Fr) =
      (indPoly (omegaFr cs.k) (2 ^ cs.k) (fun i => 2 ^ cs.k - (cs.blinding + 1) < i)).eval (x : Fr) :=
  Lag.lagrange_is_basis_eval blsFld (by decide +kernel) cs (omega_primitive cs.k hk) hbf x hx

/-- Non-vacuity of `lagrange_evals_are_basis_polys`: `k = 3`, `bf = 3`, `x = 5` is off the domain. -/
example : (3 : ℕ) ≤ Consts.twoAdicity ∧ 3 + 1 ≤ 2 ^ 3 ∧ ((5 : ℕ) : Fr) ^ (2 ^ 3) ≠ 1 := by
  refine ⟨by decide, by decide, ?_⟩
  rw [← Nat.cast_pow]
  exact MidnightZK.C10.zmod_ne_one Consts.modulus (5 ^ 2 ^ 3) (by decide +kernel) (by decide +kernel) (by decide)

/-- **Public inputs enter through the verifier's own evaluation of the instance polynomial.** For
every constraint system, `k ≤ S`, `x` off the domain and every instance query `qi` on a plain
(non-committed) column whose public-input vector has at most `maxLen` and at most `n` entries: the
value the identity model puts into `instance_evals[qi]` (mirror of the `compute_inner_product(instances,
l_i_s[offset..])` block of `verify_algebraic_constraints`) is, in `Fr`, the value at `ω^rot·x` of the
column polynomial of the public inputs the verifier was GIVEN (`colPoly`: interpolates the values, zero
beyond the vector's length). Nothing the prover sends enters this value. -/
theorem instance_eval_is_column_poly (cs : Ids.VCS) (hk : cs.k ≤ Consts.twoAdicity)
    (nCommitted x maxLen : ℕ) (plain : List (List ℕ)) (cev : ℕ → ℕ)
    (hx : (x : Fr) ^ (2 ^ cs.k) ≠ 1) (qi : ℕ) (hqi : qi < cs.instanceQueries.length)
    (hplain : nCommitted ≤ (cs.instanceQueries[qi]).1)
    (hlen : (plain.getD ((cs.instanceQueries[qi]).1 - nCommitted) []).length ≤ maxLen)
    (hln : (plain.getD ((cs.instanceQueries[qi]).1 - nCommitted) []).length ≤ 2 ^ cs.k) :
    (((Ids.instanceEvals blsFld cs nCommitted x (Ids.xnOf blsFld.p cs.k x) maxLen plain cev).getD qi 0 : ℕ) : Fr) =
      eval ((omegaFr cs.k) ^ (cs.instanceQueries[qi]).2 * (x : Fr))
        (colPoly (omegaFr cs.k) (2 ^ cs.k)
          ((plain.getD ((cs.instanceQueries[qi]).1 - nCommitted) []).map fun v => ((v : ℕ) : Fr))) :=
  Lag.instance_eval_is_poly_eval blsFld (by decide +kernel) cs (omega_primitive cs.k hk) nCommitted x maxLen plain
    cev hx qi hqi hplain hlen hln

/-- **A different public input is rejected at the identity level.** Two public-input columns `a`, `b`
that differ on some row `i₀ < n` have instance polynomials whose values at `ω^rot·x` (what
`instance_eval_is_column_poly` shows the verifier to compute) coincide for FEWER THAN `n` values of
`x`. Hence a proof whose committed advice satisfies the copy constraint `cell = instance(i₀)` and a gate
or permutation identity involving the instance column for the public input `a` — identities that vanish
on the domain for `a` — yields, for the public input `b`, an identity value at `x` that differs from the
one the quotient was built for, for all but fewer than `n` challenges `x`; by `perm_argument_sound` with
the instance column among `cols` the permutation identities can vanish on the domain for `b` only if the
advice cell equals `b[i₀]`. -/
theorem public_input_changes_instance_eval (hω : IsPrimitiveRoot ω n) (hn : 0 < n) (a b : List F) (i₀ : ℕ)
    (hi₀ : i₀ < n) (hne : a.getD i₀ 0 ≠ b.getD i₀ 0) (rot : ℤ) (Xs : Finset F)
    (h : ∀ x ∈ Xs, eval (ω ^ rot * x) (colPoly ω n a) = eval (ω ^ rot * x) (colPoly ω n b)) :
    Xs.card < n :=
  PI.instance_eval_differs hω hn a b i₀ hi₀ hne rot Xs h

/-- Non-vacuity of `public_input_changes_instance_eval`: `n = 2`, `ω = −1` over `ℚ`, inputs `[1, 2]` and
`[1, 3]` differ on row 1; the empty set of coincidence points satisfies the hypothesis. -/
example : IsPrimitiveRoot (-1 : ℚ) 2 ∧ ([1, 2] : List ℚ).getD 1 0 ≠ ([1, 3] : List ℚ).getD 1 0 :=
  ⟨IsPrimitiveRoot.neg_one 0 (by decide), by norm_num⟩

end Bls

/-! ## `degree()` and `blinding_factors()` (mirrors compared with the running code on every member) -/

private theorem foldl_max_ge (l : List Nat) (a : Nat) : a ≤ l.foldl max a := by
  induction l generalizing a with
  | nil => exact Nat.le_refl _
  | cons x t ih => exact Nat.le_trans (Nat.le_max_left a x) (ih (max a x))

/-- **`ConstraintSystem::degree()` is at least 3** for every constraint system (the permutation
argument's `required_degree()`), so `chunk_len = degree − 2 ≥ 1`: the hypothesis `3 ≤ cs.degree` of
`ids_cover` holds whenever `degree` is what the mirrored function computes (compared with
`cs.degree()` of the running code on every family member, `csparams` lines). -/
theorem csDegree_ge_three (cs : Ids.VCS) : 3 ≤ Ids.csDegree cs := by
  unfold Ids.csDegree
  simp only [List.filterMap_cons, id]
  exact Nat.le_trans (Nat.le_max_right 0 3) (foldl_max_ge _ _)

/-- **`blinding_factors()` is at least 5 and grows with the trash arguments**: at least 3 evaluation
points, one per trash column, one for multiopen, one spare — for every constraint system. Hence at
least 6 unusable rows (`l_last` row + blinding rows), and `l_0`, `l_last` refer to different rows as
soon as `n > blinding_factors + 1`. -/
theorem blindingFactors_ge (nAdvice : Nat) (cs : Ids.VCS) :
    5 + cs.trash.length ≤ Ids.blindingFactors nAdvice cs := by
  unfold Ids.blindingFactors
  simp only []
  have := Nat.le_max_left 3 ((Ids.maxOpt ((List.range nAdvice).map (Ids.numAdviceQueries cs))).getD 1)
  omega

/-- Concrete reading on `coverCS` (2 advice columns with one query each, one trash argument, a
lookup): degree 4 (lookup), `3 + 1 + 2 = 6` blinding factors, 2 column sets. -/
example : Ids.csDegree coverCS = 4 ∧ Ids.blindingFactors 2 coverCS = 6 ∧ Ids.csNumSets coverCS = 2 := by decide


/-! ## the degree bookkeeping covers every identity (`required_degree`, `ConstraintSystem::degree`) -/

/-- **`ConstraintSystem::degree()` covers the degree of every identity polynomial.** For every
constraint system (any gates, any lookups of any arity with input / table expressions of any
degrees, any trash arguments whose selector is a column — `exprDegree q ≤ 1`, which selector
replacement guarantees —, any permutation columns): every identity of the prover's numerator —
every gate polynomial; the permutation rules, whose product rule multiplies `degree − 2` column
factors per set; the five lookup rules, whose product rule multiplies the θ-COMPRESSED input
(degree `max_i deg input_i`) by the θ-compressed table (degree `max_i deg table_i`); the trash rule —
has degree at most `csDegree cs`, the mirror of `degree()` compared with the running code on every
family member (`csparams`). Hence (`quotient_fits_pieces`) the quotient fits the `degree − 1` pieces
and the extended domain key generation chooses (`C01.extended_domain_large_enough`). -/
theorem degree_covers_identities (cs : Ids.VCS) (htrash : ∀ t ∈ cs.trash, Ids.exprDegree t.1 ≤ 1) :
    ∀ d ∈ Ids.identityDegrees cs, d ≤ Ids.csDegree cs := by
  intro d hd
  simp only [Ids.identityDegrees, List.mem_append, List.mem_map, List.mem_flatMap] at hd
  rcases hd with ((⟨g, hg, rfl⟩ | hp) | ⟨l, hl, hdl⟩) | ⟨t, ht, rfl⟩
  · exact Ids.csDegree_ge_gate cs g hg
  · have h3 := Ids.csDegree_ge_3 cs
    unfold Ids.permIdDegrees at hp
    split at hp
    · cases hp
    · simp only [List.mem_append, List.mem_cons, List.mem_nil_iff, or_false, List.mem_flatMap] at hp
      rcases hp with (rfl | rfl) | ⟨set, hset, (rfl | rfl)⟩
      · omega
      · omega
      · omega
      · have := Ids.chunksFuel_length_le (Ids.csDegree cs - 2) _ _ set hset
        omega
  · exact Nat.le_trans (Ids.lookupIdDegrees_le l d hdl) (Ids.csDegree_ge_lookup cs l hl)
  · exact Nat.le_trans (Ids.trashIdDegree_le t (htrash t ht)) (Ids.csDegree_ge_trash cs t ht)

/-- A two-column `lookup_any` with input degrees `(2, 1)` and table degrees `(1, 2)` (the family's
`LookupKind::MixedDeg`): the product rule has degree 6 = `degree()`. -/
def mixedDegCS : Ids.VCS :=
  { gates := [[.prod (.fixed 0 0) (.sum (.prod (.advice 0 0) (.advice 1 0)) (.neg (.advice 2 0)))]],
    lookups := [([.prod (.fixed 1 0) (.advice 0 0), .advice 3 0], [.fixed 2 0, .prod (.fixed 3 0) (.fixed 4 0)])],
    trash := [], permCols := [(.advice, 0)], adviceQueries := [(0, 0), (1, 0), (2, 0), (3, 0)],
    fixedQueries := [(0, 0), (1, 0), (2, 0), (3, 0), (4, 0)], instanceQueries := [], degree := 6, blinding := 5, k := 5 }

example : Ids.identityDegrees mixedDegCS = [3, 2, 3, 2, 3, 2, 3, 6, 2, 3] ∧ Ids.csDegree mixedDegCS = 6 := by decide

/-- **The per-column formula is NOT enough** (seeded change C01-4: `2 + max_i (deg input_i + deg
table_i)`): on `mixedDegCS` it yields 5 while the lookup's product identity has degree 6 — the
statement of `degree_covers_identities` is false for it, the quotient no longer fits. -/
theorem per_column_degree_formula_insufficient :
    Ids.lookupRequiredDegreePerColumn (mixedDegCS.lookups.getD 0 ([], [])) = 5 ∧
    6 ∈ Ids.lookupIdDegrees (mixedDegCS.lookups.getD 0 ([], [])) := by decide

/-- **The quotient fits its pieces.** A numerator whose identities have degree at most `D` in units
of column polynomials of degree `≤ n − 1` has at most `D·(n − 1) + 1` coefficients; divided by
`X^n − 1` the quotient has at most `D·(n − 1) + 1 − n` coefficients, which fit the `D − 1` pieces of
`n − 1` coefficients the prover commits to (`vanishing/prover.rs: construct`, `chunks_exact(n − 1)`)
— with equality for `d = D`: there is no slack, an identity of degree `D + 1` does NOT fit. -/
theorem quotient_fits_pieces (d D n : Nat) (hd : d ≤ D) (hD : 1 ≤ D) (hn : 1 ≤ n) :
    d * (n - 1) + 1 - n ≤ (D - 1) * (n - 1) := by
  have h1 : d * (n - 1) ≤ D * (n - 1) := Nat.mul_le_mul_right _ hd
  have h2 : D * (n - 1) = (D - 1) * (n - 1) + (n - 1) := by
    have : D = (D - 1) + 1 := by omega
    conv => lhs; rw [this, Nat.add_mul, Nat.one_mul]
  omega

/-- No slack: with `n ≥ 2` an identity of degree `D + 1` overflows the `D − 1` pieces. -/
theorem quotient_overflows_pieces (D n : Nat) (hD : 1 ≤ D) (hn : 2 ≤ n) :
    (D - 1) * (n - 1) < (D + 1) * (n - 1) + 1 - n := by
  have h2 : (D + 1) * (n - 1) = (D - 1) * (n - 1) + 2 * (n - 1) := by
    have : D + 1 = (D - 1) + 2 := by omega
    rw [this, Nat.add_mul]
  omega

/-- **The degree hypothesis of `C01.honest_verifies_algebraic` holds for every gate polynomial.** For
every constraint system, every assignment table over a prime field with a primitive `n`-th root of
unity and every gate polynomial `g`: the polynomial `GatePoly.exprPoly g` over the rotated column
polynomials (degree `< n` each) has degree `< n + (n − 1)·q` with `q = csDegree − 1` the number of
quotient pieces (`get_quotient_poly_degree()`), because its degree is at most
`Expression::degree() · (n − 1)` and `degree()` is the maximum over all gates
(`degree_covers_identities`). -/
theorem gate_poly_degree_covered (t : Table) [Fact t.p.Prime] {ω : ZMod t.p}
    (hω : IsPrimitiveRoot ω t.n) (hn : 0 < t.n) (cs : Ids.VCS) (g : Expr) (hg : g ∈ cs.gates.flatten) :
    (GatePoly.exprPoly t ω g).natDegree < t.n + (t.n - 1) * (Ids.csDegree cs - 1) := by
  have h1 := GatePoly.natDegree_exprPoly_le t hω hn g
  have h2 : Ids.exprDegree g * (t.n - 1) ≤ Ids.csDegree cs * (t.n - 1) :=
    Nat.mul_le_mul_right _ (Ids.csDegree_ge_gate cs g hg)
  have h3 := Ids.csDegree_ge_3 cs
  have h4 : Ids.csDegree cs * (t.n - 1) = (t.n - 1) * (Ids.csDegree cs - 1) + (t.n - 1) := by
    have : Ids.csDegree cs = (Ids.csDegree cs - 1) + 1 := by omega
    conv => lhs; rw [this, Nat.add_mul, Nat.one_mul, Nat.mul_comm]
  omega

/-! ## lookup tables: `fill_from_row` (key generation and mock checker) -/

/-- **`fill_from_row` covers every usable row from `from_row` on** (`keygen.rs: Assembly::fill_from_row`
= `Fill.keyFill`, `dev/mod.rs: MockProver::fill_from_row` = `Fill.mockFill`, both the loop
`Fill.fillCol`): for every column of at least `usable` rows, every first row, every filler — after the
call row `i` holds the filler iff `from_row ≤ i < usable`, the LAST usable row `usable − 1` included,
and every other row is untouched. (Seeded change C02-3 stopped one row early: the last usable row of
every table column kept 0.) -/
theorem fill_covers_usable_rows {α : Type} (col : List α) (fromRow usable : Nat) (v : α)
    (hlen : usable ≤ col.length) (i : Nat) :
    (Fill.fillCol col fromRow usable v)[i]? = if fromRow ≤ i ∧ i < usable then some v else col[i]? :=
  Fill.fillCol_getElem? col fromRow usable v i hlen

/-- Non-vacuity: the table `{5, 6, 7}` in a column of 8 rows with 6 usable rows is padded with 5 on
rows 3, 4, 5 — the last usable row holds 5, not 0. -/
example : Fill.fillCol [5, 6, 7, 0, 0, 0, 0, 0] 3 6 5 = [5, 6, 7, 5, 5, 5, 0, 0] := by decide

/-- **A filled table is its assigned rows plus the filler**: the values a lookup table column holds
on the usable rows after `fill_from_row(col, from_row, filler)` (`0 < from_row < usable`) are exactly
the values assigned on the rows below `from_row`, and the filler. In particular `0` is a table value
only if it was assigned or is the filler. -/
theorem table_values_after_fill (col : List Nat) (fromRow usable filler : Nat)
    (hlen : usable ≤ col.length) (hfrom : fromRow < usable) (x : Nat) :
    (∃ i, i < usable ∧ (Fill.fillCol col fromRow usable filler)[i]? = some x) ↔
      (∃ i, i < fromRow ∧ col[i]? = some x) ∨ x = filler := by
  constructor
  · rintro ⟨i, hi, h⟩
    rw [fill_covers_usable_rows col fromRow usable filler hlen] at h
    by_cases hc : fromRow ≤ i ∧ i < usable
    · rw [if_pos hc] at h; right; exact (Option.some.inj h).symm
    · rw [if_neg hc] at h; left; exact ⟨i, by omega, h⟩
  · rintro (⟨i, hi, h⟩ | rfl)
    · refine ⟨i, by omega, ?_⟩
      rw [fill_covers_usable_rows col fromRow usable filler hlen, if_neg (by omega)]; exact h
    · refine ⟨fromRow, hfrom, ?_⟩
      rw [fill_covers_usable_rows col fromRow usable x hlen, if_pos ⟨Nat.le_refl _, hfrom⟩]

/-- **Key generation and the mock checker hold the same fixed columns**: for every domain size,
number of fixed columns and EVERY sequence of `assign_fixed` / `fill_from_row` requests, replaying
them through the mirror of `MockProver` and reading `Unassigned` as 0 gives exactly the columns the
mirror of `keygen.rs: Assembly` produces — and one refuses a write iff the other does. (Both mirrors
are compared with the real `pk.fixed_values` and the real `MockProver::fixed()` on every family
member, `fixedcols` lines.) -/
theorem keygen_mock_fixed_columns_agree (n usable nf : Nat) (ops : List Fill.FixedOp) :
    (Fill.mockReplay n usable nf ops).map Fill.erase = Fill.keyReplay n usable nf ops := by
  unfold Fill.mockReplay Fill.keyReplay
  rw [Fill.foldlM_key_mock]
  congr 1
  simp [Fill.erase, Fill.cellNat]

/-! ## `MockProver::run`: every unusable row of every advice column is poisoned -/

/-- **The mock checker poisons exactly the unusable rows** (`dev/mod.rs: MockProver::run`,
`enumerate().skip(usable_rows)`): row `i < n` of a fresh advice column is `Poison(i)` iff
`usable ≤ i` — all `blinding_factors + 1` unusable rows, the row `usable` right after the last usable
row included (seeded change C02-4 skipped `n − blinding_factors` rows and left that row `Unassigned`,
i.e. 0) — and `Unassigned` otherwise. -/
theorem mock_poisons_unusable_rows (n usable i : Nat) (hi : i < n) :
    (Fill.mockAdviceInit n usable)[i]? = some (if usable ≤ i then Fill.Cell.poison i else Fill.Cell.unassigned) :=
  Fill.mockAdviceInit_getElem? n usable i hi

example : Fill.mockAdviceInit 8 5 = [.unassigned, .unassigned, .unassigned, .unassigned, .unassigned, .poison 5, .poison 6, .poison 7] := by decide

/-- **Assignments never remove the poison**: `assign_advice` refuses unusable rows
(`assert!(usable_rows.contains(&row))`), so after any sequence of accepted assignments every
unusable row of the column still reads as poison in the row semantics. -/
theorem mock_assign_preserves_poison (usable : Nat) (col col' : List Fill.Cell) (row v i : Nat)
    (h : Fill.mockAssignAdvice usable col row v = some col') (hi : usable ≤ i)
    (hp : (col[i]?).map Fill.Cell.toVal = some Val.poison) :
    (col'[i]?).map Fill.Cell.toVal = some Val.poison := by
  unfold Fill.mockAssignAdvice at h
  split at h
  · rename_i hc
    cases h
    rw [List.getElem?_set, if_neg (by omega)]
    exact hp
  · cases h

/-- **Applying the poison in the model is the identity on a column of the real mock checker**: a
column whose unusable rows all read poison (what `mock_poisons_unusable_rows` and
`mock_assign_preserves_poison` give for `MockProver`) is unchanged by `Fill.applyPoison`, which the
driver applies to the dumped advice columns before evaluating `rowSat` / `mockOK` — so the model's
verdict does not depend on the mock checker having poisoned the right rows (seeded change C02-4: the
dump then holds 0 on the first unusable row, the model still reads poison and rejects). -/
theorem model_poison_is_identity_on_mock_columns (usable : Nat) (col : List Val)
    (h : ∀ i, usable ≤ i → i < col.length → col[i]? = some Val.poison) :
    Fill.applyPoison usable col = col := by
  apply List.ext_getElem?
  intro i
  unfold Fill.applyPoison
  rw [List.getElem?_map, List.getElem?_zipIdx]
  cases hc : col[i]? with
  | none => simp
  | some v =>
    have hi : i < col.length := by
      rcases Nat.lt_or_ge i col.length with h' | h'
      · exact h'
      · rw [List.getElem?_eq_none h'] at hc; cases hc
    by_cases hu : usable ≤ i
    · have := h i hu hi
      rw [hc] at this
      simp [hu, Option.some.inj this]
    · simp [hu]

example : Fill.applyPoison 2 [.real 1, .real 0, .real 0, .poison] = [.real 1, .real 0, .poison, .poison] := by decide

/-- **A gate that is active on a usable row and reads an unusable row is rejected by the row
semantics** (`ConstraintPoisoned` of `MockProver`; the real prover puts a random value there). For
the gate `f·(a + b(rot))` of the family's `GateKind::LastRow` — `f` a plain fixed column, no
`Selector` —: on a row where the switch is a non-zero field element and `a` is a field element, if the
cell `b` reads is poisoned the gate value is not zero, whatever the other cells hold; so neither
`rowSat` nor `mockOK` accepts a table in which that row is among the checked rows. -/
theorem gate_reading_poison_rejected (t : Table) (r fc ac bc : Nat) (rot : Int) (q a : Nat)
    (hq : (Expr.fixed fc 0).eval t r = .real q) (hq0 : q % t.p ≠ 0)
    (ha : (Expr.advice ac 0).eval t r = .real a)
    (hb : (Expr.advice bc rot).eval t r = .poison) :
    isZero ((Expr.prod (.fixed fc 0) (.sum (.advice ac 0) (.advice bc rot))).eval t r) = false := by
  have : (Expr.prod (.fixed fc 0) (.sum (.advice ac 0) (.advice bc rot))).eval t r = .poison := by
    show Val.mul t.p ((Expr.fixed fc 0).eval t r) (Val.add t.p ((Expr.advice ac 0).eval t r) ((Expr.advice bc rot).eval t r)) = .poison
    rw [hq, ha, hb]
    simp [Val.add, Val.mul, hq0]
  rw [this]; rfl

/-- Hence the whole check fails when such a row is a usable row of the table. -/
theorem gate_reading_poison_fails_check (cs : CS) (t : Table) (r fc ac bc : Nat) (rot : Int) (q a : Nat)
    (hg : Expr.prod (.fixed fc 0) (.sum (.advice ac 0) (.advice bc rot)) ∈ cs.gates)
    (hr : r < t.n - (cs.blinding + 1))
    (hq : (Expr.fixed fc 0).eval t r = .real q) (hq0 : q % t.p ≠ 0)
    (ha : (Expr.advice ac 0).eval t r = .real a)
    (hb : (Expr.advice bc rot).eval t r = .poison) :
    rowSat cs t = false ∧ mockOK cs t = false := by
  have hz := gate_reading_poison_rejected t r fc ac bc rot q a hq hq0 ha hb
  have hgates : gatesOK cs t = false := by
    unfold gatesOK
    rw [Bool.eq_false_iff]
    intro hall
    rw [List.all_eq_true] at hall
    have h1 := hall _ hg
    rw [List.all_eq_true] at h1
    have h2 := h1 r (List.mem_append_left _ (by simp [usableRows, hr]))
    rw [hz] at h2
    cases h2
  simp [rowSat, mockOK, hgates]

/-! ## the field constants the identity model reads (regenerated from `fq.rs` on every run) -/

/-- `ROOT_OF_UNITY` is a primitive `2^S`-th root of unity of the scalar field: its `2^(S−1)`-th
power is `−1`. Hence `omega = ROOT_OF_UNITY^(2^(S−k))` (`Ids.omegaOf`) has order exactly `2^k`. -/
theorem root_of_unity_primitive :
    powMod Consts.rootOfUnity (2 ^ (Consts.twoAdicity - 1)) Consts.modulus = Consts.modulus - 1 ∧
    powMod Consts.rootOfUnity (2 ^ Consts.twoAdicity) Consts.modulus = 1 := by
  decide +kernel

/-- `DELTA` has odd order `t = (r − 1)/2^S`: `DELTA^t = 1`, `2^S·t = r − 1`, `t` odd, `DELTA ≠ 1`.
(`delta_orderOf` strengthens this to: the order is exactly `t`; `perm_labels_injective` derives the
distinctness of the labels `δ^c·ω^i`.) -/
theorem delta_order :
    powMod Consts.delta ((Consts.modulus - 1) / 2 ^ Consts.twoAdicity) Consts.modulus = 1 ∧
    2 ^ Consts.twoAdicity * ((Consts.modulus - 1) / 2 ^ Consts.twoAdicity) = Consts.modulus - 1 ∧
    ((Consts.modulus - 1) / 2 ^ Consts.twoAdicity) % 2 = 1 ∧ Consts.delta ≠ 1 := by
  decide +kernel

end MidnightZK.C02
