import MidnightZK.Model.C02.RowSat
import MidnightZK.Proofs.C02.Combination
/-!
# C02 — the verifier enforces every constraint class; agrees with the mock checker
-/
namespace MidnightZK.C02

private theorem fill_shortcut {α β} [BEq β] [LawfulBEq β] (L : List α) (f g : α → β) (fill : β)
    (hfill : fill ∈ L.map g) :
    (((L.map f).filter (· != fill)).all fun i => ((L.map g).filter (· != fill)).contains i) =
    (L.all fun r => (L.map g).contains (f r)) := by
  rw [Bool.eq_iff_iff]
  simp only [List.all_eq_true, List.mem_filter, List.mem_map, List.contains_iff_mem, bne_iff_ne,
    ne_eq, and_imp, forall_exists_index, forall_apply_eq_imp_iff₂]
  constructor
  · intro h r hr
    by_cases hf : f r = fill
    · rw [hf]; simpa using hfill
    · obtain ⟨⟨a, ha, hga⟩, _⟩ := h r hr hf
      exact ⟨a, ha, hga⟩
  · intro h r hr hf
    obtain ⟨a, ha, hga⟩ := h r hr
    exact ⟨⟨a, ha, hga⟩, hf⟩

/-- The fill-row shortcut of `MockProver` (dropping rows equal to the table's last usable row
from inputs and table) does not change the verdict of any lookup, for every constraint system
and every assignment with at least one usable row (which `MockProver` asserts). -/
theorem lookups_mock_eq_plain (cs : CS) (t : Table) (h : 0 < t.n - (cs.blinding + 1)) :
    lookupsOKMock cs t = lookupsOK cs t := by
  unfold lookupsOKMock lookupsOK
  congr 1
  funext ⟨inp, tab⟩
  simp only []
  have hmem : tuple tab t ((t.n - (cs.blinding + 1)) - 1) ∈ (usableRows cs t).map (tuple tab t) := by
    apply List.mem_map_of_mem
    unfold usableRows
    simp only [List.mem_range]
    omega
  exact fill_shortcut (usableRows cs t) (tuple inp t) (tuple tab t) _ hmem

/-- **The development-time checker computes row-level satisfaction**: on every constraint
system and every assignment (satisfying or not) `MockProver`'s verdict is the plain meaning of
the constraints — gates, additive-selector constraints, lookups, copy constraints. -/
theorem mock_agrees (cs : CS) (t : Table) (h : 0 < t.n - (cs.blinding + 1)) :
    mockOK cs t = rowSat cs t := by
  unfold mockOK rowSat
  rw [lookups_mock_eq_plain cs t h]

/-- Without trash arguments the pre-fix checker already agreed with `rowSat`. -/
theorem mock_agrees_pinned_partial (cs : CS) (t : Table) (h : 0 < t.n - (cs.blinding + 1))
    (hno : cs.trash = []) : mockOKPinned cs t = rowSat cs t := by
  unfold mockOKPinned rowSat trashOK
  rw [lookups_mock_eq_plain cs t h, hno]
  simp

/-- A one-column system with the additive-selector constraint `a0 = 0` enabled on row 0. -/
def d2CS : CS :=
  { gates := [], lookups := [], trash := [(.fixed 0 0, [.advice 0 0])], permCols := [], copies := [], blinding := 1 }
def d2Table : Table :=
  { p := 17, n := 4, fixed := [[.real 1, .real 0, .real 0, .real 0]],
    advice := [[.real 5, .real 0, .poison, .poison]], inst := [], challenges := [] }

/-- D2: the pre-fix checker accepted an assignment violating an additive-selector constraint
on an enabled row; the plain semantics (and the real verifier) reject it. -/
theorem mock_pinned_disagree_witness :
    mockOKPinned d2CS d2Table = true ∧ rowSat d2CS d2Table = false ∧ mockOK d2CS d2Table = false := by
  decide

/-- Non-vacuity of `mock_agrees`: the D2 table has usable rows. -/
example : 0 < d2Table.n - (d2CS.blinding + 1) := by decide

/-- **Soundness of folding the identities with `y`** (`PartiallyEvaluated::verify` computes
`expressions.fold(0, |h, v| h·y + v)`): over any field, if the folded value vanishes for at
least as many distinct challenges `y` as there are identities, then every single identity value
is zero. Hence a proof in which some identity (a gate, a permutation or lookup rule, a trash
constraint) does not vanish passes the combined check for fewer than `#identities` values of `y`. -/
theorem y_combination_sound {F : Type} [Field F] (vs : List F) (ys : Finset F)
    (hcard : vs.length ≤ ys.card) (hzero : ∀ y ∈ ys, foldY vs y = 0) : ∀ v ∈ vs, v = 0 :=
  y_combination_sound_aux vs ys hcard hzero

/-- Non-vacuity: the hypotheses are satisfiable with a non-empty list (all-zero identities). -/
example : ∀ y ∈ ({0, 1} : Finset ℚ), foldY [0, 0] y = 0 := by
  intro y _; simp [foldY]

end MidnightZK.C02
