import MidnightZK.Proofs.C20.Ipa
import MidnightZK.Proofs.C20.IpaPoly
import MidnightZK.Proofs.C20.Gadget
import MidnightZK.Proofs.C20.Acc
import MidnightZK.Proofs.C20.Verify
import MidnightZK.Proofs.C20.MultiOpen
import MidnightZK.Proofs.C20.Assign
import MidnightZK.Proofs.C20.IpaSched
import MidnightZK.Model.C20.Aggregator
import MidnightZK.Proofs.C20.Aggregator
import MidnightZK.Proofs.C20.AccEq
import MidnightZK.Proofs.C20.Keys
import MidnightZK.Model.C20.VerifyIO
/-!
# C20 — recursion and aggregation accept exactly the valid inner proofs
Property theorems (helper lemmas live in `MidnightZK/Proofs/C20`).

Part 1: the two-base inner-product argument of `aggregator/src/inner_product_argument.rs`
(model: `MidnightZK/Model/C20/Ipa.lean`). Scalars in a commutative ring `F`, group elements in an
`F`-module `G`; the Fiat–Shamir challenges are universally quantified parameters.
-/
namespace MidnightZK.C20
open Polynomial

section Ipa
variable {F G : Type} [CommRing F] [AddCommGroup G] [Module F G]

private theorem length_flatMap_pair {α β : Type} (f g : α → β) (l : List α) :
    (l.flatMap (fun a => [f a, g a])).length = 2 * l.length := by
  induction l with
  | nil => simp
  | cons a l ih => simp [ih]; omega

/-- One round of `ipa_prove` (`for _ in 0..k`): the pair `(L, R)` it writes is
`(<s_left, b_right>, <s_right, b_left>)`, and the folded vectors satisfy
`<s', b'> = <s, b> + u²·L + u⁻²·R` — the relation the verifier's final MSM relies on
(`L_j * uj^2 + R_j * uj^(-2)`), for every even length and every invertible challenge. -/
theorem ipa_fold_invariant (st : ProverState F G) (u ui : F) (h : Nat)
    (hs : st.s.length = 2 * h) (hb : st.b.length = 2 * h) (hu : u * ui = 1) :
    (proverRound st u ui).lrs =
        st.lrs ++ [(innerProduct (st.s.take h) (st.b.drop h), innerProduct (st.s.drop h) (st.b.take h))] ∧
      innerProduct (proverRound st u ui).s (proverRound st u ui).b =
        innerProduct st.s st.b +
          ((u * u) • innerProduct (st.s.take h) (st.b.drop h) +
            (ui * ui) • innerProduct (st.s.drop h) (st.b.take h)) := by
  have hh : st.s.length / 2 = h := by omega
  have l1 : (st.s.take h).length = h := by simp [hs]; omega
  have l2 : (st.s.drop h).length = h := by simp [hs]; omega
  have l3 : (st.b.take h).length = h := by simp [hb]; omega
  have l4 : (st.b.drop h).length = h := by simp [hb]; omega
  have hsplit : innerProduct st.s st.b =
      innerProduct (st.s.take h) (st.b.take h) + innerProduct (st.s.drop h) (st.b.drop h) := by
    conv => lhs; rw [← List.take_append_drop h st.s, ← List.take_append_drop h st.b,
      innerProduct_append _ _ _ _ (by rw [l1, l3])]
  refine ⟨by simp [proverRound, hh], ?_⟩
  simp only [proverRound, hh]
  rw [innerProduct_fold_fold u ui hu _ _ _ _ (by rw [l1, l2]) (by rw [l1, l3]) (by rw [l1, l4]),
    hsplit]

/-- Non-vacuity: one round on vectors of length 2 over `ℤ` (as a module over itself). -/
example : innerProduct (proverRound (F := ℤ) (G := ℤ) ⟨[], [3, 5], [7, 11]⟩ 1 1).s
    (proverRound (F := ℤ) (G := ℤ) ⟨[], [3, 5], [7, 11]⟩ 1 1).b = 3 * 7 + 5 * 11 + (3 * 11 + 5 * 7) := by
  decide

/-- The verifier's `ipa_scalars` loop (`[-s]`, then for the challenges in reverse order
`scalars·u⁻¹ ++ scalars·u`) produces exactly the coefficient list of
`-s · ∏ⱼ (uⱼ⁻¹ + uⱼ·X^(2ʲ))`, where `uⱼ` is the `j`-th challenge counted from the last one
(the order the loop uses): entry `i` of the vector is the coefficient of `Xⁱ`. For every number
of rounds and all challenge values (no invertibility needed). -/
theorem ipa_scalars_formula (s : F) (us : List (F × F)) :
    listPoly (ipaScalars s us) =
      C (-s) * ((us.reverse.zipIdx).map (fun uj => C uj.1.2 + C uj.1.1 * X ^ (2 ^ uj.2))).prod := by
  rw [ipaScalars_eq_coeffs, ← coeffPoly_eq_prod, ← listPoly_coeffs]
  have : (fun c => -s * c) = (fun c : F => c * -s) := by funext c; ring
  rw [this, listPoly_map_mul]

/-- `listPoly l` really has `l` as its coefficient list (so the statement above is about the
entries of the vector). -/
theorem ipa_scalars_formula_coeff (s : F) (us : List (F × F)) (i : Nat) :
    (ipaScalars s us).getD i 0 =
      (C (-s) * ((us.reverse.zipIdx).map (fun uj => C uj.1.2 + C uj.1.1 * X ^ (2 ^ uj.2))).prod).coeff i := by
  rw [← ipa_scalars_formula, listPoly_coeff]

/-- Index form of the same fact: entry `i < 2^k` of `ipa_scalars` is `-s` times the product over
the rounds of `u⁻¹` or `u`, the first challenge being selected by the top bit of `i`
(`coeffAt`); and the vector has exactly `2^k` entries. -/
theorem ipa_scalars_index (s : F) (us : List (F × F)) :
    (ipaScalars s us).length = 2 ^ us.length ∧
      ∀ i, i < 2 ^ us.length → (ipaScalars s us).getD i 0 = -s * coeffAt us i := by
  rw [ipaScalars_eq_coeffs]
  refine ⟨by simp [coeffs_length], fun i hi => ?_⟩
  rw [← coeffs_getD us i hi]
  have hl : i < (coeffs us).length := by rw [coeffs_length]; exact hi
  simp [List.getD_eq_getElem?_getD, List.getElem?_eq_getElem hl]

/-- Non-vacuity / orientation: two rounds, challenges `(a, a')` then `(b, b')`: the vector is
`-s·[a'b', a'b, ab', ab]`. -/
example (s a a' b b' : ℤ) :
    ipaScalars s [(a, a'), (b, b')] = [-s * b' * a', -s * b * a', -s * b' * a, -s * b * a] := by
  simp [ipaScalars]

/-- Completeness of the argument: for every number of rounds `k`, all vectors of length `2^k`,
every batching challenge `r` and all invertible round challenges, the proof produced by
`ipa_prove` for the true claims `res1 = <w, bases1>`, `res2 = <w, bases2>` makes the MSM of
`ipa_verify` vanish, i.e. `ipa_verify` returns `Ok`. (Prover and verifier derive the same
challenges because their transcripts agree: `ipa_schedule_agree`.) -/
theorem ipa_complete (w : List F) (bases1 bases2 : List G) (r : F) (us : List (F × F))
    (hw : w.length = 2 ^ us.length) (h1 : bases1.length = 2 ^ us.length)
    (h2 : bases2.length = 2 ^ us.length) (hinv : ∀ p ∈ us, p.1 * p.2 = 1) :
    verifierSum bases1 bases2 (innerProduct w bases1) (innerProduct w bases2) r us
      (ipaProve w bases1 bases2 r us) = 0 := by
  have hb : (fold (1 : F) bases1 r bases2).length = 2 ^ us.length := by
    rw [fold_length, h1, h2]; simp
  obtain ⟨e1, e2, e3, e4⟩ := proverRounds_spec us w (fold (1 : F) bases1 r bases2) hw hb hinv
  set X := proverRounds { lrs := ([] : List (G × G)), s := w, b := fold (1 : F) bases1 r bases2 } us
    with hX
  obtain ⟨s0, hs0⟩ := List.length_eq_one_iff.mp e2
  have hpf : ipaProve w bases1 bases2 r us = { lrs := X.lrs, s := s0 } := by
    simp [ipaProve, ← hX, hs0]
  rw [hpf]
  simp only [verifierSum, verifierMsmScalars, verifierMsmBases]
  have hlen : (ipaScalars s0 us).length = 2 ^ us.length := (ipa_scalars_index s0 us).1
  rw [List.append_assoc, List.append_assoc, List.append_assoc, List.append_assoc,
    innerProduct_append _ _ _ _ (by rw [length_flatMap_pair, length_flatMap_pair, e1]),
    innerProduct_append _ _ _ _ (by rw [hlen, h1]),
    innerProduct_append _ _ _ _ (by rw [List.length_map, hlen, h2])]
  rw [← add_assoc (innerProduct (ipaScalars s0 us) bases1), innerProduct_batch r _ _ _ (by rw [h1, h2]),
    ipaScalars_eq_coeffs, innerProduct_map_mul_left]
  rw [hs0, e3] at e4
  simp only [innerProduct_cons, innerProduct_nil_left, add_zero] at e4
  rw [innerProduct_fold_right 1 r w bases1 bases2 (by rw [h1, h2])] at e4
  simp only [mul_one, List.map_id', innerProduct_map_mul_right] at e4
  simp only [innerProduct_cons, innerProduct_nil_left, add_zero, one_smul, neg_smul]
  rw [e4]
  abel

/-- Non-vacuity: a concrete accepted run with two rounds over `ℤ/101`-free integers (challenges
`±1` are their own inverses). -/
example : verifierSum (F := ℤ) (G := ℤ) [2, 3, 5, 7] [1, 4, 9, 16]
    (innerProduct [1, 2, 3, 4] [2, 3, 5, 7]) (innerProduct [1, 2, 3, 4] [1, 4, 9, 16]) 6
    [(1, 1), (-1, -1)] (ipaProve [1, 2, 3, 4] [2, 3, 5, 7] [1, 4, 9, 16] 6 [(1, 1), (-1, -1)]) = 0 := by
  decide


/-- The value `ipa_verify` compares with the identity, split into its four parts: the `L/R`
terms, the two folded-base terms and the batched claim. -/
private theorem verifierSum_split (bases1 bases2 : List G) (res1 res2 : G) (r : F) (us : List (F × F))
    (pf : IpaProof F G) (hl : pf.lrs.length = us.length) (h1 : bases1.length = 2 ^ us.length)
    (h2 : bases2.length = 2 ^ us.length) :
    verifierSum bases1 bases2 res1 res2 r us pf =
      innerProduct (us.flatMap (fun u => [u.1 * u.1, u.2 * u.2])) (pf.lrs.flatMap (fun lr => [lr.1, lr.2])) +
        (innerProduct (ipaScalars pf.s us) bases1 + (innerProduct ((ipaScalars pf.s us).map (· * r)) bases2 +
          (res1 + r • res2))) := by
  simp only [verifierSum, verifierMsmScalars, verifierMsmBases]
  have hlen : (ipaScalars pf.s us).length = 2 ^ us.length := (ipa_scalars_index pf.s us).1
  rw [List.append_assoc, List.append_assoc, List.append_assoc, List.append_assoc,
    innerProduct_append _ _ _ _ (by rw [length_flatMap_pair, length_flatMap_pair, hl]),
    innerProduct_append _ _ _ _ (by rw [hlen, h1]),
    innerProduct_append _ _ _ _ (by rw [List.length_map, hlen, h2])]
  simp [innerProduct_cons, innerProduct_nil_left]

/-- Binding of the first claimed value at fixed challenges: with the same bases, proof and
challenges, `ipa_verify` accepts at most one `res1`. (Altering the claim also changes the
Fiat–Shamir challenges in the real protocol; that a fresh challenge tuple does not make the
altered claim the accepted one is the random-oracle/discrete-log part, which is assumed.) -/
theorem ipa_claim1_unique (bases1 bases2 : List G) (res1 res1' res2 : G) (r : F) (us : List (F × F))
    (pf : IpaProof F G) (hl : pf.lrs.length = us.length) (h1 : bases1.length = 2 ^ us.length)
    (h2 : bases2.length = 2 ^ us.length)
    (ha : verifierSum bases1 bases2 res1 res2 r us pf = 0)
    (hb : verifierSum bases1 bases2 res1' res2 r us pf = 0) : res1 = res1' := by
  rw [verifierSum_split _ _ _ _ _ _ _ hl h1 h2] at ha hb
  have := ha.trans hb.symm
  simpa using this

/-- Binding of the second claimed value (the commitment `σ` to the scalars, in the aggregator)
at fixed challenges, for an invertible batching challenge `r`. -/
theorem ipa_claim2_unique (bases1 bases2 : List G) (res1 res2 res2' : G) (r ri : F) (hr : ri * r = 1)
    (us : List (F × F)) (pf : IpaProof F G) (hl : pf.lrs.length = us.length)
    (h1 : bases1.length = 2 ^ us.length) (h2 : bases2.length = 2 ^ us.length)
    (ha : verifierSum bases1 bases2 res1 res2 r us pf = 0)
    (hb : verifierSum bases1 bases2 res1 res2' r us pf = 0) : res2 = res2' := by
  rw [verifierSum_split _ _ _ _ _ _ _ hl h1 h2] at ha hb
  have h := ha.trans hb.symm
  have h' : r • res2 = r • res2' := by simpa using h
  have := congrArg (fun x => ri • x) h'
  simpa [smul_smul, hr] using this

/-- Non-vacuity of the two uniqueness statements: an accepted instance exists (`ipa_complete`),
and changing `res1` by one makes the sum non-zero. -/
example : verifierSum (F := ℤ) (G := ℤ) [2, 3] [1, 4] (innerProduct [1, 2] [2, 3] + 1)
    (innerProduct [1, 2] [1, 4]) 6 [(1, 1)] (ipaProve [1, 2] [2, 3] [1, 4] 6 [(1, 1)]) ≠ 0 := by
  decide

/-- Binding of the final scalar at fixed challenges: two proofs that differ only in the last
scalar and are both accepted satisfy `(s − s') • B = 0`, where `B = <coeffs, bases1 + r·bases2>`
is the fully folded base. -/
theorem ipa_final_scalar_unique (bases1 bases2 : List G) (res1 res2 : G) (r : F) (us : List (F × F))
    (lrs : List (G × G)) (s s' : F) (hl : lrs.length = us.length) (h1 : bases1.length = 2 ^ us.length)
    (h2 : bases2.length = 2 ^ us.length)
    (ha : verifierSum bases1 bases2 res1 res2 r us { lrs := lrs, s := s } = 0)
    (hb : verifierSum bases1 bases2 res1 res2 r us { lrs := lrs, s := s' } = 0) :
    (s - s') • innerProduct (coeffs us) (fold (1 : F) bases1 r bases2) = 0 := by
  rw [verifierSum_split _ _ _ _ _ _ _ hl h1 h2] at ha hb
  simp only at ha hb
  rw [← add_assoc (innerProduct (ipaScalars _ us) bases1), innerProduct_batch r _ _ _ (by rw [h1, h2]),
    ipaScalars_eq_coeffs, innerProduct_map_mul_left] at ha hb
  have h := ha.trans hb.symm
  have h' : (-s) • innerProduct (coeffs us) (fold (1 : F) bases1 r bases2) =
      (-s') • innerProduct (coeffs us) (fold (1 : F) bases1 r bases2) := by
    have := add_left_cancel h
    exact add_right_cancel this
  rw [sub_smul]
  simp only [neg_smul, neg_inj] at h'
  rw [h', sub_self]

/-- Binding of a single `L_j` at fixed challenges: two proofs that differ only in the left
element of round `j` (whose challenge is invertible) cannot both be accepted. -/
theorem ipa_L_unique (bases1 bases2 : List G) (res1 res2 : G) (r : F)
    (upre upost : List (F × F)) (u ui : F) (hu : u * ui = 1)
    (pre post : List (G × G)) (L L' R : G) (s : F)
    (hpre : pre.length = upre.length) (hpost : post.length = upost.length)
    (h1 : bases1.length = 2 ^ (upre ++ (u, ui) :: upost).length)
    (h2 : bases2.length = 2 ^ (upre ++ (u, ui) :: upost).length)
    (ha : verifierSum bases1 bases2 res1 res2 r (upre ++ (u, ui) :: upost)
      { lrs := pre ++ (L, R) :: post, s := s } = 0)
    (hb : verifierSum bases1 bases2 res1 res2 r (upre ++ (u, ui) :: upost)
      { lrs := pre ++ (L', R) :: post, s := s } = 0) : L = L' := by
  have hl : ∀ X : G, (pre ++ (X, R) :: post).length = (upre ++ (u, ui) :: upost).length := by
    intro X; simp [hpre, hpost]
  rw [verifierSum_split _ _ _ _ _ _ _ (hl L) h1 h2] at ha
  rw [verifierSum_split _ _ _ _ _ _ _ (hl L') h1 h2] at hb
  simp only [List.flatMap_append, List.flatMap_cons] at ha hb
  rw [innerProduct_append _ _ _ _ (by rw [length_flatMap_pair, length_flatMap_pair, hpre])] at ha hb
  simp only [List.cons_append, List.nil_append, innerProduct_cons] at ha hb
  have h := ha.trans hb.symm
  have h' : (u * u) • L = (u * u) • L' := by
    have := add_right_cancel h
    have := add_left_cancel this
    exact add_right_cancel this
  have := congrArg (fun x => (ui * ui) • x) h'
  simp only [smul_smul] at this
  have e : ui * ui * (u * u) = 1 := by
    have : ui * ui * (u * u) = (u * ui) * (u * ui) := by ring
    rw [this, hu, one_mul]
  rwa [e, one_smul, one_smul] at this

/-- Effect of altering one base at fixed challenges: replacing `bases1[i]` by `bases1[i] + δ`
changes the verifier's sum by `ipa_scalars[i] • δ = (−s · coeffAt us i) • δ`; an accepted proof
stays accepted only if that term vanishes. -/
theorem ipa_base_alteration (pre post bases2 : List G) (B δ res1 res2 : G) (r : F) (us : List (F × F))
    (pf : IpaProof F G) (hl : pf.lrs.length = us.length)
    (h1 : (pre ++ B :: post).length = 2 ^ us.length) (h2 : bases2.length = 2 ^ us.length) :
    verifierSum (pre ++ (B + δ) :: post) bases2 res1 res2 r us pf =
      verifierSum (pre ++ B :: post) bases2 res1 res2 r us pf + (-pf.s * coeffAt us pre.length) • δ := by
  have h1' : (pre ++ (B + δ) :: post).length = 2 ^ us.length := by simpa using h1
  rw [verifierSum_split _ _ _ _ _ _ _ hl h1 h2, verifierSum_split _ _ _ _ _ _ _ hl h1' h2]
  have hi : pre.length < 2 ^ us.length := by rw [← h1]; simp
  have hidx := (ipa_scalars_index pf.s us).2 pre.length hi
  have hlen := (ipa_scalars_index pf.s us).1
  -- split the scalar vector at the position of the altered base
  set c := ipaScalars pf.s us with hc
  have hsplit : c = c.take pre.length ++ c.getD pre.length 0 :: c.drop (pre.length + 1) := by
    have hlt : pre.length < c.length := by rw [hlen]; exact hi
    rw [List.getD_eq_getElem?_getD, List.getElem?_eq_getElem hlt]
    simp
  have key : ∀ X : G, innerProduct c (pre ++ X :: post) =
      innerProduct (c.take pre.length) pre + (c.getD pre.length 0 • X +
        innerProduct (c.drop (pre.length + 1)) post) := by
    intro X
    conv => lhs; rw [hsplit]
    rw [innerProduct_append _ _ _ _ (by rw [List.length_take, hlen]; omega), innerProduct_cons]
  rw [key, key, hidx]
  module


/-- Linearity of `inner_product` in the scalar vector (equal lengths). -/
private theorem innerProduct_zipWith_add : ∀ (c d : List F) (b : List G), c.length = d.length →
    innerProduct (List.zipWith (· + ·) c d) b = innerProduct c b + innerProduct d b
  | [], [], b, _ => by simp [innerProduct]
  | [], _ :: _, _, h => by simp at h
  | _ :: _, [], _, h => by simp at h
  | x :: c, y :: d, [], _ => by simp [innerProduct]
  | x :: c, y :: d, g :: b, h => by
    have ih := innerProduct_zipWith_add c d b (by simpa using h)
    simp only [List.zipWith_cons_cons, innerProduct_cons, ih]
    module

/-- Un-folding one round (the step on which the extractor of the argument rests): an opening `s'`
of the statement AFTER a round with challenge `u` — bases `u·b_hi + u⁻¹·b_lo` as `ipa_prove` /
`ipa_verify` fold them — is an opening of the same point with respect to the bases BEFORE the
round, with the explicit coefficient vector `u⁻¹·s' ++ u·s'`. For every length and every pair
`(u, ui)` (no invertibility needed). -/
theorem ipa_round_unfold (bLo bHi : List G) (s' : List F) (u ui : F) (hb : bLo.length = bHi.length)
    (hs : s'.length = bLo.length) :
    innerProduct s' (fold u bHi ui bLo) = innerProduct (s'.map (· * ui) ++ s'.map (· * u)) (bLo ++ bHi) := by
  rw [innerProduct_fold_right u ui s' bHi bLo hb.symm,
    innerProduct_append _ _ _ _ (by rw [List.length_map, hs]), add_comm]

/-- Special soundness of ONE round, algebraic part (`ipa_sound_algebraic` for a round): let
`(L, R)` be the pair sent in a round on the statement `(P, b_lo ++ b_hi)`, and suppose three
continuations with challenges `u₁, u₂, u₃` are accepted, i.e. the prover opens the folded
statements `P + uᵢ²·L + uᵢ⁻²·R = <sᵢ, uᵢ·b_hi + uᵢ⁻¹·b_lo>` (the relation `ipa_fold_invariant`
maintains and the final MSM of `ipa_verify` checks). Then for ANY weights `λᵢ` the combination
`(Σλᵢ)·P + (Σλᵢuᵢ²)·L + (Σλᵢuᵢ⁻²)·R` is opened, with respect to the bases before the round, by
the explicit vector `Σ λᵢ·(uᵢ⁻¹·sᵢ ++ uᵢ·sᵢ)`. With `Σλᵢ = 1, Σλᵢuᵢ² = 0, Σλᵢuᵢ⁻² = 0` (solvable
when the `uᵢ²` are distinct: a Vandermonde system, see the example) this is an opening of `P`
itself: a consistent witness for the previous round; other weights open `L` and `R`.
That the `uᵢ` are hash outputs the prover cannot choose (forking / random oracle) and that two
different openings of one point break the discrete logarithm is the assumed part. -/
theorem ipa_sound_algebraic_round (bLo bHi : List G) (P L R : G)
    (u1 ui1 u2 ui2 u3 ui3 : F) (s1 s2 s3 : List F) (l1 l2 l3 : F)
    (hb : bLo.length = bHi.length) (h1 : s1.length = bLo.length) (h2 : s2.length = bLo.length)
    (h3 : s3.length = bLo.length)
    (a1 : innerProduct s1 (fold u1 bHi ui1 bLo) = P + ((u1 * u1) • L + (ui1 * ui1) • R))
    (a2 : innerProduct s2 (fold u2 bHi ui2 bLo) = P + ((u2 * u2) • L + (ui2 * ui2) • R))
    (a3 : innerProduct s3 (fold u3 bHi ui3 bLo) = P + ((u3 * u3) • L + (ui3 * ui3) • R)) :
    (l1 + l2 + l3) • P + (l1 * (u1 * u1) + l2 * (u2 * u2) + l3 * (u3 * u3)) • L +
        (l1 * (ui1 * ui1) + l2 * (ui2 * ui2) + l3 * (ui3 * ui3)) • R =
      innerProduct
        (List.zipWith (· + ·) (List.zipWith (· + ·)
          ((s1.map (· * ui1) ++ s1.map (· * u1)).map (fun x => l1 * x))
          ((s2.map (· * ui2) ++ s2.map (· * u2)).map (fun x => l2 * x)))
          ((s3.map (· * ui3) ++ s3.map (· * u3)).map (fun x => l3 * x)))
        (bLo ++ bHi) := by
  rw [ipa_round_unfold bLo bHi s1 u1 ui1 hb h1] at a1
  rw [ipa_round_unfold bLo bHi s2 u2 ui2 hb h2] at a2
  rw [ipa_round_unfold bLo bHi s3 u3 ui3 hb h3] at a3
  rw [innerProduct_zipWith_add _ _ _ (by simp [h1, h2, h3]),
    innerProduct_zipWith_add _ _ _ (by simp [h1, h2]),
    innerProduct_map_mul_left, innerProduct_map_mul_left, innerProduct_map_mul_left, a1, a2, a3]
  module

/-- Two accepted continuations of the same `(L, R)` with different challenges are consistent:
their un-folded openings differ exactly by `(u₁² − u₂²)·L + (u₁⁻² − u₂⁻²)·R`. -/
theorem ipa_round_two_transcripts (bLo bHi : List G) (P L R : G) (u1 ui1 u2 ui2 : F) (s1 s2 : List F)
    (hb : bLo.length = bHi.length) (h1 : s1.length = bLo.length) (h2 : s2.length = bLo.length)
    (a1 : innerProduct s1 (fold u1 bHi ui1 bLo) = P + ((u1 * u1) • L + (ui1 * ui1) • R))
    (a2 : innerProduct s2 (fold u2 bHi ui2 bLo) = P + ((u2 * u2) • L + (ui2 * ui2) • R)) :
    innerProduct (s1.map (· * ui1) ++ s1.map (· * u1)) (bLo ++ bHi) -
        innerProduct (s2.map (· * ui2) ++ s2.map (· * u2)) (bLo ++ bHi) =
      (u1 * u1 - u2 * u2) • L + (ui1 * ui1 - ui2 * ui2) • R := by
  rw [← ipa_round_unfold bLo bHi s1 u1 ui1 hb h1, ← ipa_round_unfold bLo bHi s2 u2 ui2 hb h2, a1, a2]
  module

/-- Non-vacuity: the acceptance hypotheses hold for the honest prover. Statement `P = <[3,5],[7,11]> = 76`
over `ℤ`, `L = 3·11 = 33`, `R = 5·7 = 35`; challenge `u = ui = 1` gives `s' = [8]` and
`<[8], [11 + 7]> = 144 = 76 + 33 + 35`; challenge `u = ui = -1` gives `s' = [-8]`, folded base `-18`.
(Over a field the weights with `Σλ = 1, Σλu² = 0, Σλu⁻² = 0` exist as soon as the three `u²` are
distinct: the matrix with rows `(1, u², u⁻²)` is a Vandermonde matrix after scaling each row by `u²`.) -/
example : innerProduct (F := ℤ) (G := ℤ) [8] (fold (1 : ℤ) [11] 1 [7]) = 76 + ((1 * 1) • 33 + (1 * 1) • 35) ∧
    innerProduct (F := ℤ) (G := ℤ) [-8] (fold (-1 : ℤ) [11] (-1) [7]) = 76 + (((-1) * (-1)) • 33 + ((-1) * (-1)) • 35) := by
  decide

/-- Prover and verifier of the argument perform the same sequence of transcript operations
(absorb all bases and both claims, squeeze `r`, then per round two group elements and a squeeze,
then the final scalar), for every length: they derive the same challenges. -/
theorem ipa_schedule_agree (len : Nat) : proverSchedule len = verifierScheduleIpa len := by
  unfold proverSchedule verifierScheduleIpa
  congr 2
  generalize rounds len = k
  induction k with
  | zero => simp
  | succ k ih => rw [List.range_succ, List.flatMap_append, ih, List.replicate_succ']; simp

/-- Size of an IPA proof: `k` pairs of group elements and one scalar, `k = log₂ len`. -/
theorem ipa_proof_elements (len : Nat) :
    ((proverSchedule len).filter (fun e => e = .eG)).length = 2 * rounds len ∧
      ((proverSchedule len).filter (fun e => e = .eF)).length = 1 := by
  unfold proverSchedule
  generalize rounds len = k
  have h : ∀ k, ((List.range k).flatMap (fun _ => [IpaEv.eG, .eG, .sq])).filter (fun e => e = .eG) =
      List.replicate (2 * k) .eG ∧
      ((List.range k).flatMap (fun _ => [IpaEv.eG, .eG, .sq])).filter (fun e => e = .eF) = [] := by
    intro k
    induction k with
    | zero => simp
    | succ k ih =>
      rw [List.range_succ, List.flatMap_append, List.filter_append, List.filter_append, ih.1, ih.2]
      refine ⟨?_, by simp⟩
      rw [Nat.mul_succ, List.replicate_add]; simp
  simp only [List.filter_append, List.length_append, h k, List.length_replicate]
  simp

example : rounds 64 = 6 ∧ rounds 1 = 0 := by decide

/-- **Where every element sits in the transcript of the argument** (`labelledSchedule`, the
refinement of the token schedules by the identity of the element; tied to the real `ipa_prove` /
`ipa_verify` by the recording transcript, which identifies every recorded element by its value:
`ipa-labels` lines): for every length, the labelled schedule projects onto the prover's and the
verifier's token schedule, and its positions are: `bases1[i]` at `i`, `bases2[i]` at `len + i`,
the claims `res1`, `res2` at `2·len`, `2·len + 1`, the batching challenge `r` at `2·len + 2`, and
for round `j` the pair `L_j`, `R_j` and the challenge `u_j` at `2·len + 3 + 3j (+1, +2)`, the final
scalar last; nothing else (length). -/
theorem ipa_labelled_schedule_positions (len : ℕ) :
    (labelledSchedule len).map IpaLab.kind = proverSchedule len ∧
    (labelledSchedule len).map IpaLab.kind = verifierScheduleIpa len ∧
    (∀ i, i < len → (labelledSchedule len)[i]? = some (.base1 i) ∧ (labelledSchedule len)[len + i]? = some (.base2 i)) ∧
    (labelledSchedule len)[2 * len]? = some .res1 ∧ (labelledSchedule len)[2 * len + 1]? = some .res2 ∧
    (labelledSchedule len)[2 * len + 2]? = some .chalR ∧
    (∀ j, j < rounds len → (labelledSchedule len)[2 * len + 3 + 3 * j]? = some (.L j) ∧
      (labelledSchedule len)[2 * len + 3 + 3 * j + 1]? = some (.R j) ∧
      (labelledSchedule len)[2 * len + 3 + 3 * j + 2]? = some (.chalU j)) ∧
    (labelledSchedule len)[2 * len + 3 + 3 * rounds len]? = some .finalS ∧
    (labelledSchedule len).length = 2 * len + 4 + 3 * rounds len := by
  have hk : (labelledSchedule len).map IpaLab.kind = proverSchedule len := by
    simp only [labelledSchedule, proverSchedule, List.map_append, List.map_map, List.map_flatMap]
    have e1 : ∀ n, (List.range n).map (IpaLab.kind ∘ IpaLab.base1) = List.replicate n IpaEv.cG := by
      intro n; apply List.ext_getElem <;> simp [IpaLab.kind]
    have e2 : ∀ n, (List.range n).map (IpaLab.kind ∘ IpaLab.base2) = List.replicate n IpaEv.cG := by
      intro n; apply List.ext_getElem <;> simp [IpaLab.kind]
    rw [e1, e2]
    simp [IpaLab.kind]
  have hA : ((List.range len).map IpaLab.base1).length = len := by simp
  have hB : ((List.range len).map IpaLab.base2).length = len := by simp
  have hAB : ((List.range len).map IpaLab.base1 ++ (List.range len).map IpaLab.base2).length = 2 * len := by
    simp; omega
  have hABC : ((List.range len).map IpaLab.base1 ++ (List.range len).map IpaLab.base2 ++
      [IpaLab.res1, IpaLab.res2, IpaLab.chalR]).length = 2 * len + 3 := by simp; omega
  have hR := flatMap3_length IpaLab.L IpaLab.R IpaLab.chalU (rounds len)
  refine ⟨hk, by rw [hk, ipa_schedule_agree], ?_, ?_, ?_, ?_, ?_, ?_, labelledSchedule_length len⟩
  · intro i hi
    constructor
    · simp only [labelledSchedule, List.append_assoc]
      rw [List.getElem?_append_left (by simpa using hi)]; simp [hi]
    · simp only [labelledSchedule, List.append_assoc]
      rw [List.getElem?_append_right (by simp), hA, List.getElem?_append_left (by simp; omega)]
      simp [hi]
  · simp only [labelledSchedule]
    rw [List.getElem?_append_left (by rw [List.length_append, hABC, hR]; omega),
      List.getElem?_append_left (by rw [hABC]; omega), List.getElem?_append_right (by rw [hAB]), hAB]
    simp
  · simp only [labelledSchedule]
    rw [List.getElem?_append_left (by rw [List.length_append, hABC, hR]; omega),
      List.getElem?_append_left (by rw [hABC]; omega), List.getElem?_append_right (by rw [hAB]; omega), hAB]
    have : 2 * len + 1 - 2 * len = 1 := by omega
    rw [this]; simp
  · simp only [labelledSchedule]
    rw [List.getElem?_append_left (by rw [List.length_append, hABC, hR]; omega),
      List.getElem?_append_left (by rw [hABC]; omega), List.getElem?_append_right (by rw [hAB]; omega), hAB]
    have : 2 * len + 2 - 2 * len = 2 := by omega
    rw [this]; simp
  · intro j hj
    obtain ⟨a, b, c⟩ := flatMap3_getElem? IpaLab.L IpaLab.R IpaLab.chalU (rounds len) j hj
    simp only [labelledSchedule]
    refine ⟨?_, ?_, ?_⟩
    · rw [List.getElem?_append_left (by rw [List.length_append, hABC, hR]; omega),
        List.getElem?_append_right (by rw [hABC]; omega), hABC]
      have : 2 * len + 3 + 3 * j - (2 * len + 3) = 3 * j := by omega
      rw [this]; exact a
    · rw [List.getElem?_append_left (by rw [List.length_append, hABC, hR]; omega),
        List.getElem?_append_right (by rw [hABC]; omega), hABC]
      have : 2 * len + 3 + 3 * j + 1 - (2 * len + 3) = 3 * j + 1 := by omega
      rw [this]; exact b
    · rw [List.getElem?_append_left (by rw [List.length_append, hABC, hR]; omega),
        List.getElem?_append_right (by rw [hABC]; omega), hABC]
      have : 2 * len + 3 + 3 * j + 2 - (2 * len + 3) = 3 * j + 2 := by omega
      rw [this]; exact c
  · simp only [labelledSchedule]
    rw [List.getElem?_append_right (by rw [List.length_append, hABC, hR]), List.length_append, hABC, hR]
    have : 2 * len + 3 + 3 * rounds len - (2 * len + 3 + 3 * rounds len) = 0 := by omega
    rw [this]; simp

/-- **The challenges of the argument bind the claims** (`ipa_challenges_bind_claims`): in the
transcript of `ipa_prove` and of `ipa_verify`, for every length,
* EVERY absorbed element — all entries of `bases1` and `bases2` and BOTH claimed values `res1`,
  `res2` — comes before EVERY squeezed challenge (the batching challenge `r` and all round
  challenges `u_j`): whenever position `p` holds a `common` and position `q` a `squeeze`, `p < q`;
  in particular `r` is derived after the claims, so a prover cannot choose the claims as a function
  of `r` (the adaptive forgery `res1 + D, res2 − D/r` of seeded change C20-1, which passes the
  final check for every `D`, needs exactly that);
* the pair `(L_j, R_j)` of round `j` comes after `r` and before its own challenge `u_j` and every
  later one.
That a challenge derived after an element cannot be predicted when choosing it is the random-oracle
assumption. -/
theorem ipa_challenges_bind_claims (len : ℕ) :
    (∀ (p q : ℕ) (c d : IpaLab), (labelledSchedule len)[p]? = some c → c.kind = IpaEv.cG →
        (labelledSchedule len)[q]? = some d → d.kind = IpaEv.sq → p < q) ∧
      (∀ c : IpaLab, c ∈ [IpaLab.res1, IpaLab.res2] ∨ (∃ i, i < len ∧ (c = .base1 i ∨ c = .base2 i)) →
        c.kind = IpaEv.cG ∧ c ∈ labelledSchedule len) ∧
      (∀ j j', j ≤ j' → j' < rounds len →
        2 * len + 2 < 2 * len + 3 + 3 * j ∧ 2 * len + 3 + 3 * j + 1 < 2 * len + 3 + 3 * j' + 2 ∧
        (labelledSchedule len)[2 * len + 2]? = some .chalR ∧
        (labelledSchedule len)[2 * len + 3 + 3 * j]? = some (.L j) ∧
        (labelledSchedule len)[2 * len + 3 + 3 * j + 1]? = some (.R j) ∧
        (labelledSchedule len)[2 * len + 3 + 3 * j' + 2]? = some (.chalU j')) := by
  obtain ⟨_, _, hb, h1, h2, hr, hrounds, _, _⟩ := ipa_labelled_schedule_positions len
  refine ⟨?_, ?_, ?_⟩
  · intro p q c d hp hc hq hd
    rw [labelledSchedule_split] at hp hq
    have hlen := commons_length len
    by_contra hpq
    have hqp : q ≤ p := Nat.le_of_not_lt hpq
    by_cases hq' : q < 2 * len + 2
    · rw [List.getElem?_append_left (by rw [hlen]; exact hq')] at hq
      have := commons_kind len d (List.mem_of_getElem? hq)
      rw [this] at hd; cases hd
    · rw [List.getElem?_append_right (by rw [hlen]; omega)] at hp
      exact tail_kind len c (List.mem_of_getElem? hp) hc
  · intro c hc
    rcases hc with hc | ⟨i, hi, rfl | rfl⟩
    · simp only [List.mem_cons, List.not_mem_nil, or_false] at hc
      rcases hc with rfl | rfl
      · exact ⟨rfl, List.mem_of_getElem? h1⟩
      · exact ⟨rfl, List.mem_of_getElem? h2⟩
    · exact ⟨rfl, List.mem_of_getElem? (hb i hi).1⟩
    · exact ⟨rfl, List.mem_of_getElem? (hb i hi).2⟩
  · intro j j' hjj hj'
    have hj : j < rounds len := by omega
    exact ⟨by omega, by omega, hr, (hrounds j hj).1, (hrounds j hj).2.1, (hrounds j' hj').2.2⟩

/-- Non-vacuity / orientation: length 2 (one round). -/
example : (labelledSchedule 2).map IpaLab.tok = ["B1.0", "B1.1", "B2.0", "B2.1", "RES1", "RES2", "r", "L.0", "R.0", "u.0", "s"] := by
  decide

/-- The adaptive forgery behind seeded change C20-1, as algebra: if the claims may depend on `r`
(i.e. `r` is squeezed BEFORE they are absorbed), then from any accepted `(res1, res2)` the pair
`(res1 + D, res2 − r⁻¹·D)` is accepted with the same proof, for EVERY `D` — the check only sees
`res1 + r·res2`. With the schedule above the claims are fixed before `r` exists. -/
theorem ipa_adaptive_forgery_needs_r (bases1 bases2 : List G) (res1 res2 D : G) (r ri : F) (hr : r * ri = 1)
    (us : List (F × F)) (pf : IpaProof F G) (hl : pf.lrs.length = us.length)
    (h1 : bases1.length = 2 ^ us.length) (h2 : bases2.length = 2 ^ us.length)
    (ha : verifierSum bases1 bases2 res1 res2 r us pf = 0) :
    verifierSum bases1 bases2 (res1 + D) (res2 - ri • D) r us pf = 0 := by
  rw [verifierSum_split _ _ _ _ _ _ _ hl h1 h2] at ha ⊢
  rw [← ha]
  have : res1 + D + r • (res2 - ri • D) = res1 + r • res2 := by
    rw [smul_sub, smul_smul, hr, one_smul]; abel
  rw [this]

end Ipa

/-! ## Part 2: the Fiat–Shamir schedule of the in-circuit verifier -/
section Gadget
open MidnightZK.C01

/-- The in-circuit verifier (`VerifierGadget::prepare` = `parse_trace` +
`verify_algebraic_constraints` + `kzg::multi_prepare`, through the transcript gadget) performs
exactly the transcript operations of the off-circuit verifier (`plonk::prepare`, model
`MidnightZK.C01.verifierSchedule`) on one proof: same kinds, same element types, same order, same
grouping of the opening queries into point sets — for every constraint-system shape the gadget
supports (single phase, rotations in `{-1,0,1}`), every number of committed instance columns
and all plain instance lengths, provided the inner circuit declares no challenge. Both verifiers
therefore derive the same challenges from the same proof bytes. -/
theorem gadget_schedule_agree (sh : Shape) (nCommitted : Nat) (lens : List Nat)
    (hs : gadgetSupported sh = true) (hch : sh.challengePhase = []) :
    gadgetSchedule sh nCommitted lens =
      verifierSchedule sh { nProofs := 1, nCommitted := nCommitted, lens := [lens] } := by
  have hphase := single_phase_of_supported sh hs
  have hinst : verifierInstances { nProofs := 1, nCommitted := nCommitted, lens := [lens] } =
      gadgetInstances nCommitted lens := by
    simp [verifierInstances, gadgetInstances, commonPoint, commonScalar]
  have hadv : verifierAdvice sh { nProofs := 1, nCommitted := nCommitted, lens := [lens] } =
      gadgetAdvice sh := by
    simp only [verifierAdvice, gadgetAdvice, phases_single sh hphase, hch, range_one_flatMap,
      List.flatMap_cons, List.flatMap_nil, List.append_nil, List.zipIdx_nil]
    have := zipIdx_flatMap_all_zero (fun c => elemG (.adviceCommit 0 c)) sh.advicePhase 0 hphase
    simp only [List.range_eq_range', readPoint]
    exact this
  have hev : verifierEvals sh { nProofs := 1, nCommitted := nCommitted, lens := [lens] } =
      gadgetEvals sh nCommitted := by
    simp [verifierEvals, gadgetEvals, readScalar]
  have hq : verifierQueries sh { nProofs := 1, nCommitted := nCommitted, lens := [lens] } =
      gadgetQueries sh nCommitted := by
    simp only [verifierQueries, gadgetQueries, range_one_flatMap]
    have := flatMap_ite_eq_filterMap (fun q : Nat × Int => decide (q.1 < nCommitted))
      (fun q => (Com.inst 0 q.1, q.2)) sh.instanceQueries
    simp only [decide_eq_true_eq] at this
    rw [this]
  unfold gadgetSchedule verifierSchedule
  rw [hinst, hadv, hev, hq]
  simp [verifierLookupsPermuted, gadgetLookupsPermuted, verifierPermCommit, gadgetPermCommit,
    verifierLookupsProduct, gadgetLookupsProduct, verifierTrash, gadgetTrash, verifierHPieces,
    gadgetHPieces, quotientPolyDegree, verifierPermEvals, gadgetPermEvals, verifierLookupEvals,
    gadgetLookupEvals, verifierTrashEvals, gadgetTrashEvals, verifierMultiOpen, gadgetMultiPrepare,
    readPoint, readScalar, commonScalar, List.range_succ]

/-- A small supported shape (3 advice columns, one lookup, rotations -1..1). -/
def exampleShape : Shape :=
  { advicePhase := [0, 0, 0], challengePhase := [], adviceQueries := [(0, 0), (1, 1), (2, -1)],
    instanceQueries := [(0, 0), (1, 0)], fixedQueries := [(0, 0)], numLookups := 1, numTrash := 1,
    permCols := 5, degree := 4, blinding := 5, k := 6 }

/-- Non-vacuity: the hypotheses hold for `exampleShape`, whose schedule has 63 events. -/
example : gadgetSupported exampleShape = true ∧ exampleShape.challengePhase = [] ∧
    (gadgetSchedule exampleShape 1 [3]).length = 63 := by decide

/-- Consequence: the in-circuit verifier consumes exactly the bytes of an accepted proof
(the off-circuit proof length of C01/C03). -/
theorem gadget_proof_len (sh : Shape) (nCommitted : Nat) (lens : List Nat)
    (hs : gadgetSupported sh = true) (hch : sh.challengePhase = []) :
    gadgetProofLen sh nCommitted lens =
      proofLen sh { nProofs := 1, nCommitted := nCommitted, lens := [lens] } := by
  unfold gadgetProofLen proofLen
  rw [gadget_schedule_agree sh nCommitted lens hs hch]

/-- The hypothesis on challenges cannot be dropped: the gadget asserts
`cs.phases().count() == 1` but never squeezes a user challenge, whereas the off-circuit verifier
squeezes the challenges of phase 0 right after the advice commitments. For a (legal) constraint
system with a challenge usable after the first phase and no later-phase column, the two
schedules differ (the gadget documents `num_challenges` as an assumption without asserting it). -/
theorem gadget_schedule_needs_no_challenge :
    gadgetSupported { exampleShape with challengePhase := [0] } = true ∧
    gadgetSchedule { exampleShape with challengePhase := [0] } 1 [3] ≠
      verifierSchedule { exampleShape with challengePhase := [0] }
        { nProofs := 1, nCommitted := 1, lens := [[3]] } := by decide

end Gadget

/-! ## Part 3: accumulators (partial MSMs with named fixed-base scalars) -/
section Accumulator
variable {F G H : Type} [CommRing F] [AddCommGroup G] [Module F G] [AddCommGroup H] [Module F H]

/-- `AssignedMsm::scale` / the `* r` of `Msm::accumulate_with_r`: scaling every scalar (variable
and fixed-base part) scales the value of the MSM. -/
theorem msm_scale_eval (fb : String → G) (r : F) (m : Msm F G) : (m.scale r).eval fb = r • m.eval fb :=
  eval_scale fb r m

/-- `accumulate_with_r` (the off-circuit `Msm` version and the in-circuit
`scale` + `add_msm` version are the same function of the data): the result evaluates to
`a + r·b`, with the fixed-base scalars merged key-wise, for all MSMs whose bases and scalars have
equal length (what `Msm::new` asserts). -/
theorem msm_accumulate_with_r_eval (fb : String → G) (a b : Msm F G) (r : F) (ha : a.WF) :
    (a.accumulateWithR b r).eval fb = a.eval fb + r • b.eval fb :=
  eval_accumulateWithR fb a b r ha

omit [AddCommGroup G] [Module F G] [AddCommGroup H] [Module F H] in
/-- The accumulation step computed off-circuit (`Msm::accumulate_with_r`: append, `* r`,
`entry(..).and_modify(+= r·v).or_insert(r·v)`) and in-circuit (`AssignedMsm::accumulate_with_r`:
`scale` then `add_msm`), and therefore `Accumulator::accumulate` and
`AssignedAccumulator::accumulate` given the same hash output, produce the same MSMs — same
bases, same scalars in the same order, same fixed-base map.
Partial with respect to DESIGN §7 `in_circuit_acc_eq_off_circuit`: only the accumulation layer is
modelled; that `VerifierGadget::prepare` computes the same accumulator as `plonk::prepare` on
every proof is established by the correspondence check (MockProver with the off-circuit
accumulator as instance), not by a theorem. -/
theorem in_circuit_acc_eq_off_circuit_partial (accs : List (Acc F G)) (r : F) :
    Acc.accumulate accs r = Acc.accumulateIn accs r ∧
      ∀ (a b : Msm F G), a.accumulateWithROff b r = a.accumulateWithR b r := by
  refine ⟨?_, fun a b => accumulateWithROff_eq a b r⟩
  cases accs with
  | nil => rfl
  | cons a t => simp [Acc.accumulate, Acc.accumulateIn, accumulateLoop_eq]

/-- `Msm::collapse` / `AssignedMsm::collapse` does not change the value. -/
theorem msm_collapse_eval (fb : String → G) (m : Msm F G) : m.collapse.eval fb = m.eval fb :=
  eval_collapse fb m

example : (Msm.accumulateWithROff (F := ℤ) (G := ℤ) ⟨[5], [2], [("a", 1)]⟩ ⟨[7], [3], [("a", 4), ("b", 1)]⟩ 10).fixed
    = [("a", 41), ("b", 10)] := by decide

/-- `Accumulator::accumulate` preserves validity: if every accumulator satisfies the invariant
`P(lhs) = Q(rhs)` for two linear maps (`P = e(·, [τ]₂)`, `Q = e(·, [1]₂)` in
`Accumulator::check`), so does the accumulated one, for every value of the hash-derived `r` and
any number of accumulators. (That an invalid member survives only for few `r` is the subject of
C15.) -/
theorem acc_accumulate_preserves_valid (P Q : G →ₗ[F] H) (fb : String → G) (accs : List (Acc F G)) (r : F)
    (acc : Acc F G) (hacc : Acc.accumulate accs r = some acc)
    (hwf : ∀ a ∈ accs, a.lhs.WF ∧ a.rhs.WF)
    (hvalid : ∀ a ∈ accs, P (a.lhs.eval fb) = Q (a.rhs.eval fb)) :
    P (acc.lhs.eval fb) = Q (acc.rhs.eval fb) := by
  cases accs with
  | nil => simp [Acc.accumulate] at hacc
  | cons a t =>
    simp only [Acc.accumulate, Option.some.injEq] at hacc
    subst hacc
    set l := t.zip ((powers r (a :: t).length).drop 1) with hl
    have hmem : ∀ o ∈ l, o.1 ∈ t := fun o ho => (List.of_mem_zip (by rw [hl] at ho; exact ho)).1
    have ha := hwf a (by simp)
    obtain ⟨e1, e2⟩ := accumulateLoop_eval fb l a ha.1 ha.2
      (fun o ho => hwf o.1 (by simp [hmem o ho]))
    rw [e1, e2, map_add, map_add, hvalid a (by simp), map_list_sum, map_list_sum, List.map_map, List.map_map]
    congr 2
    apply List.map_congr_left
    intro o ho
    simp only [Function.comp, map_smul]
    rw [hvalid o.1 (by simp [hmem o ho])]

/-- Non-vacuity: two accumulators over `ℤ` with `P = id`, `Q = 2·`. -/
example : (Acc.accumulate (F := ℤ) (G := ℤ) [⟨⟨[4], [1], []⟩, ⟨[2], [1], []⟩⟩, ⟨⟨[6], [1], []⟩, ⟨[3], [1], []⟩⟩] 5).map
    (fun a => (a.lhs.bases, a.lhs.scalars, a.rhs.bases, a.rhs.scalars)) = some ([4, 6], [1, 5], [2, 3], [1, 5]) := by
  decide

end Accumulator

section Expose
variable {F G : Type}

/-- The public-input encoding of an accumulator binds it: two accumulators of the same shape
(same numbers of bases and scalars, same fixed-base names — all fixed by the verifier circuit)
with the same `as_public_input` vector are equal, provided the point encoding is injective and
of constant length. A verifier circuit that constrains its computed accumulator to the
instance is therefore unsatisfiable for any other claimed accumulator. -/
theorem expose_acc_binds (enc : G → List F) (n : Nat) (hn : ∀ a, (enc a).length = n)
    (hinj : ∀ a b, enc a = enc b → a = b) (x y : Acc F G)
    (h1 : x.lhs.bases.length = y.lhs.bases.length) (h2 : x.lhs.scalars.length = y.lhs.scalars.length)
    (h3 : x.lhs.fixed.map (·.1) = y.lhs.fixed.map (·.1))
    (h4 : x.rhs.bases.length = y.rhs.bases.length) (h5 : x.rhs.scalars.length = y.rhs.scalars.length)
    (h6 : x.rhs.fixed.map (·.1) = y.rhs.fixed.map (·.1))
    (h : x.asPublicInput enc = y.asPublicInput enc) : x = y := by
  have fixed_eq : ∀ (a b : List (String × F)), a.map (·.1) = b.map (·.1) → a.map (·.2) = b.map (·.2) → a = b := by
    intro a
    induction a with
    | nil => intro b hb _; cases b with | nil => rfl | cons _ _ => simp at hb
    | cons p a ih =>
      intro b hb hv
      cases b with
      | nil => simp at hb
      | cons q b =>
        simp only [List.map_cons, List.cons.injEq] at hb hv
        rw [ih b hb.2 hv.2, Prod.ext hb.1 hv.1]
  simp only [Acc.asPublicInput, Msm.asPublicInput, List.append_assoc] at h
  obtain ⟨b1, r1⟩ := flatMap_enc_inj enc n hn hinj _ _ _ _ h1 h
  have r1' := List.append_inj r1 h2
  have hf1 : (x.lhs.fixed.map (·.2)).length = (y.lhs.fixed.map (·.2)).length := by
    have := congrArg List.length h3; simpa using this
  have r2 := List.append_inj r1'.2 hf1
  obtain ⟨b2, r3⟩ := flatMap_enc_inj enc n hn hinj _ _ _ _ h4 r2.2
  have r3' := List.append_inj r3 h5
  obtain ⟨⟨xb, xs, xf⟩, ⟨xb', xs', xf'⟩⟩ := x
  obtain ⟨⟨yb, ys, yf⟩, ⟨yb', ys', yf'⟩⟩ := y
  simp only at *
  rw [b1, b2, r1'.1, r3'.1, fixed_eq _ _ h3 r2.1, fixed_eq _ _ h6 r3'.2]

end Expose

/-! ## Part 4: the arithmetic the in-circuit verifier performs on the evaluations

Model: `Model/C20/Verify.lean` (mirror of `verifier_gadget.rs: verify_algebraic_constraints`,
`expressions/*.rs`, `vanishing.rs`, `utils.rs`), compared with the off-circuit model of C02
(`Model/C02/Identities.lean`, mirror of `proofs/src/plonk/{verifier,mod,permutation,lookup,trash}.rs`
and `vanishing/verifier.rs`), both on canonical naturals modulo any `p > 0`. -/
section Verify
open MidnightZK.C02 MidnightZK.C02.Ids MidnightZK.C20.V

/-- `eval_expression` of the gadget and `Expression::evaluate` with the closures of
`evaluate_identities` return the same value on every expression the former accepts (it panics on
`Expression::Challenge`), for every environment of evaluations. -/
theorem gadget_eval_expression_eq (e : Env) (ex : Expr) (v : ℕ) (h : gEvalExpr e ex = some v) :
    v = evalQ e ex := gEvalExpr_eq e ex v h

/-- The permutation identities: `permutation_expressions` (in-circuit: `l_0 − l_0·z`,
`l_last·(z² − z)` by `add_and_mul`, product rule by `linear_combination`s and a running
`current_delta`) yields exactly the values of `permutation.rs: expressions` (off-circuit), in the
same order, for every number of column sets, all evaluations and challenges, wherever it does not
panic (`unwrap` of a missing last evaluation). -/
theorem gadget_perm_ids_eq {p : ℕ} [NeZero p] (f : Fld) (e : Env) (hp : e.p = p) (permCommon : List ℕ)
    (sets : List PermSet) (L : Lagrange) (ch : Challenges) (v : List ℕ)
    (h : gPermIds f e permCommon sets L ch.beta ch.gamma ch.x = some v) :
    v = (permIds f e permCommon sets L ch).map (·.2) := gPermIds_eq f e hp permCommon sets L ch v h

/-- The five lookup identities per lookup, all lookups: in-circuit = off-circuit, in order. -/
theorem gadget_lookup_ids_eq {p : ℕ} [NeZero p] (e : Env) (hp : e.p = p) (L : Lagrange) (ch : Challenges)
    (evs : List LookupEvals) (v : List ℕ) (h : gLookupIds e L ch.theta ch.beta ch.gamma evs = some v) :
    v = (lookupIds e L ch evs).map (·.2) := gLookupIds_eq e hp L ch evs v h

/-- The trash identity: `compressed − trash + q·trash` (one `add_and_mul` in-circuit) equals
`compressed − (1 − q)·trash` (off-circuit), for every trash argument. -/
theorem gadget_trash_ids_eq {p : ℕ} [NeZero p] (e : Env) (hp : e.p = p) (ch : Challenges) (evs : List ℕ)
    (v : List ℕ) (h : gTrashIds e ch.trash evs = some v) : v = (trashIds e ch evs).map (·.2) :=
  gTrashIds_eq e hp ch evs v h

/-- `expected_h_eval`: `try_reduce(ids, h·y + v) / (xn − 1)` (in-circuit, `div`) equals
`ids.fold(0, h·y + v)·(xn − 1)⁻¹` (off-circuit) for every non-empty identity list. -/
theorem gadget_expected_h_eq {p : ℕ} [NeZero p] (y xn : ℕ) (ids : List ℕ) (h : ℕ)
    (hh : gExpectedH p y xn ids = some h) : h = expectedH p y xn ids := gExpectedH_eq y xn ids h hh

/-- The Lagrange values: `evaluate_lagrange_polynomials` over `-(bf+1)..1` with
`l_blind = sum(..)` (in-circuit) equals `l_i_range` + the sums of `evaluate_identities`
(off-circuit), on every domain whose `omega` is a `2^k`-th root of unity with Fermat inverse
(`DomainOK`), provided the blinding rows fit in the domain. -/
theorem gadget_lagrange_eq (f : Fld) [NeZero f.p] (cs : VCS) (x : ℕ) (hd : DomainOK f cs.k)
    (hb : cs.blinding + 1 ≤ 2 ^ cs.k) : gLagrange f cs x = lagrange f cs x (xnOf f.p cs.k x) :=
  gLagrange_eq f cs x hd hb

instance : NeZero V.fld.p := ⟨by decide⟩

/-- `DomainOK` holds for the generated constants of the BLS12-381 scalar field
(`Gen/C20Consts.lean`, regenerated from `curves/src/bls12_381/fq.rs` on every run) and every
domain size the field supports: `omega = ROOT_OF_UNITY^(2^(S−k))` has order dividing `2^k` and
`omega^(p−2)` is its inverse. Kernel evaluation. -/
theorem domainOK_bls : ∀ k, k ≤ 32 → DomainOK V.fld k := by
  have key : ∀ k, k < 33 →
      powMod (omegaOf V.fld k) (2 ^ k) V.fld.p = 1 ∧
        fmul V.fld.p (omegaOf V.fld k) (invMod (omegaOf V.fld k) V.fld.p) = 1 := by decide +kernel
  intro k hk
  obtain ⟨h1, h2⟩ := key k (by omega)
  constructor
  · have := cast_powMod (p := V.fld.p) (omegaOf V.fld k) (2 ^ k)
    rw [h1, Nat.cast_one] at this
    exact this.symm
  · have := cast_fmul (p := V.fld.p) (omegaOf V.fld k) (invMod (omegaOf V.fld k) V.fld.p)
    rw [h2, Nat.cast_one] at this
    exact this.symm

/-- **In-circuit = off-circuit, identity level** (first half of DESIGN §7
`in_circuit_acc_eq_off_circuit`): for every constraint system, every assignment of the transcript
scalars (evaluations read from the proof, challenges), every plain instance, whenever the
gadget's computation goes through (`gVerifyIds … = some r`: no panic, no synthesis error), the
Lagrange values, `x^n`, EVERY identity value in order and `expected_h_eval` it computes are those
of the off-circuit `verify_algebraic_constraints` (`MidnightZK.C02.Ids.verifyIds`, the model
tied value by value to the real verifier by C02) on the same scalars and the same instance
evaluations. -/
theorem gadget_ids_eq_off_circuit (f : Fld) [NeZero f.p] (cs : VCS) (nCommitted : ℕ) (plain : List (List ℕ))
    (committedEval : ℕ → ℕ) (com : CommonEvals) (ch : Challenges) (ev : ProofEvals) (r : GFolded)
    (hd : DomainOK f cs.k) (hb : cs.blinding + 1 ≤ 2 ^ cs.k)
    (h : gVerifyIds f cs nCommitted plain committedEval com ch ev = some r) :
    let off := verifyIds f cs com ch [{ ev with inst := r.instEvals }]
    r.lag = off.lag ∧ r.xn = off.xn ∧ r.ids = off.ids.map (·.2) ∧ r.h = off.h :=
  gVerifyIds_eq f cs nCommitted plain committedEval com ch ev r hd hb h

/-- A small constraint system: one gate `a0·f0 − i0`, one permutation set over `(a0, i0)`, one
instance query, `k = 3`, two blinding rows. -/
def exampleVCS : VCS :=
  { gates := [[.sum (.prod (.advice 0 0) (.fixed 0 0)) (.neg (.inst 0 0))]], lookups := [], trash := [],
    permCols := [(.advice, 0), (.inst, 0)], adviceQueries := [(0, 0)], fixedQueries := [(0, 0)],
    instanceQueries := [(0, 0)], degree := 4, blinding := 2, k := 3 }

/-- Non-vacuity of `gadget_ids_eq_off_circuit`: on `exampleVCS` with arbitrary small scalars the
gadget's computation goes through (4 identity values) and the domain hypotheses hold. -/
example : ((gVerifyIds V.fld exampleVCS 0 [[5, 6]] (fun _ => 0) { fixed := [7], permCommon := [11, 13] }
      { theta := 2, beta := 3, gamma := 4, trash := 5, y := 6, x := 9, user := [] }
      { advice := [8], inst := [], permSets := [{ eval := 21, next := 22, last := none }], lookups := [], trash := [] }).map
        (·.ids.length)) = some 4 ∧ exampleVCS.blinding + 1 ≤ 2 ^ exampleVCS.k := by
  decide +kernel


/-- The instance evaluations of the plain instance columns: `inner_product(instances,
l_i_s[offset..])` over `evaluate_lagrange_polynomials((-max_rot)..(max_len + |min_rot|))` with the
minimum / maximum over the queries themselves (in-circuit) equals `compute_inner_product` over
`l_i_range` with the fold of `(min, max)` started at `(0, 0)` (off-circuit), query by query, for all
instance columns and rotations within the domain (the block never fails: `gadget_instance_evals_total`). -/
theorem gadget_instance_evals_eq (f : Fld) [NeZero f.p] (cs : VCS) (nc x : ℕ) (plain : List (List ℕ))
    (cev : ℕ → ℕ) (v : List ℕ) (hd : DomainOK f cs.k)
    (hrot : ∀ q ∈ cs.instanceQueries, q.2 ≤ ((2 ^ cs.k : ℕ) : ℤ))
    (h : gInstanceEvals f cs nc x plain cev = some v) :
    v = instanceEvals f cs nc x (xnOf f.p cs.k x) ((plain.map List.length).foldl max 0) plain cev :=
  gInstanceEvals_eq f cs nc x plain cev v hd hrot h

/-- **In-circuit = off-circuit, identity level, nothing assumed about the instance evaluations**:
as `gadget_ids_eq_off_circuit`, with the off-circuit side computing the instance evaluations
itself (`instanceEvals`, as `verifier.rs: verify_algebraic_constraints` does): instance
evaluations, Lagrange values, `x^n`, every identity value in order and `expected_h_eval` of the
gadget are those of the off-circuit verifier, for every constraint system whose query rotations
lie within the domain, every plain instance, every transcript-scalar assignment. -/
theorem in_circuit_ids_eq_off_circuit (f : Fld) [NeZero f.p] (cs : VCS) (nCommitted : ℕ) (plain : List (List ℕ))
    (committedEval : ℕ → ℕ) (com : CommonEvals) (ch : Challenges) (ev : ProofEvals) (r : GFolded)
    (hd : DomainOK f cs.k) (hb : cs.blinding + 1 ≤ 2 ^ cs.k)
    (hrot : ∀ q ∈ cs.instanceQueries, q.2 ≤ ((2 ^ cs.k : ℕ) : ℤ))
    (h : gVerifyIds f cs nCommitted plain committedEval com ch ev = some r) :
    let inst := instanceEvals f cs nCommitted ch.x (xnOf f.p cs.k ch.x) ((plain.map List.length).foldl max 0) plain committedEval
    let off := verifyIds f cs com ch [{ ev with inst := inst }]
    r.instEvals = inst ∧ r.lag = off.lag ∧ r.xn = off.xn ∧ r.ids = off.ids.map (·.2) ∧ r.h = off.h :=
  gVerifyIds_eq_full f cs nCommitted plain committedEval com ch ev r hd hb hrot h

/-- Non-vacuity of the rotation hypothesis on `exampleVCS`. -/
example : ∀ q ∈ exampleVCS.instanceQueries, q.2 ≤ ((2 ^ exampleVCS.k : ℕ) : ℤ) := by decide

/-- The literal the model uses for the fixed base of the negated generator is the key the code
uses at all of its five sites (`kzg.rs`, `accumulator.rs` twice, `mod.rs` twice; regenerated). A
site that binds another name breaks this. -/
theorem neg_g_key_consistent : Consts.negGKeys = List.replicate 5 "-G" := by decide

/-- `get_point` of the gadget opens a query of rotation `-1 / 0 / 1` at `x·ω⁻¹ / x / x·ω`
(regenerated from `verifier_gadget.rs`): exactly the rotations `gadgetSupported` accepts, each
mapped to itself (the model evaluates the point of rotation `r` as `x·ω^r`). -/
theorem get_point_arms_generated : Consts.getPointArms = [(-1, -1), (0, 0), (1, 1)] := by decide

/-- **The instance block of the gadget is total** (full-strength statement replacing the former
witness `gadget_needs_instance_query`; the code was repaired by `fix: the in-circuit verifier
handles an inner circuit without instance queries`): for EVERY constraint system — also one without
any instance query (`min()/max()` of an empty iterator, now `unwrap_or(0)`) and also for plain
instance columns without values (`inner_product` of an empty input, now the constant zero) — the
`instance_evals` block of `verify_algebraic_constraints` does not panic and computes exactly the
off-circuit instance evaluations, on every domain satisfying `DomainOK` with the query rotations
within the domain. No "wherever the gadget does not panic" side condition is left for this block. -/
theorem gadget_instance_evals_total (f : Fld) [NeZero f.p] (cs : VCS) (nc x : ℕ) (plain : List (List ℕ))
    (cev : ℕ → ℕ) (hd : DomainOK f cs.k) (hrot : ∀ q ∈ cs.instanceQueries, q.2 ≤ ((2 ^ cs.k : ℕ) : ℤ)) :
    gInstanceEvals f cs nc x plain cev =
      some (instanceEvals f cs nc x (xnOf f.p cs.k x) ((plain.map List.length).foldl max 0) plain cev) :=
  gInstanceEvals_total f cs nc x plain cev hd hrot

/-- The two boundary cases on concrete data (kernel evaluation): no instance query ↦ `some []`;
one queried instance column without values ↦ the evaluation `0`; and the gadget's whole
computation goes through on the constraint system of the former witness (2 identity values). -/
theorem gadget_handles_no_instance_query :
    gInstanceEvals V.fld { exampleVCS with instanceQueries := [] } 0 9 [] (fun _ => 0) = some [] ∧
    gInstanceEvals V.fld exampleVCS 0 9 [[]] (fun _ => 0) = some [0] ∧
    (gVerifyIds V.fld
      { gates := [[.prod (.advice 0 0) (.fixed 0 0)]], lookups := [], trash := [], permCols := [(.advice, 0)],
        adviceQueries := [(0, 0)], fixedQueries := [(0, 0)], instanceQueries := [], degree := 4, blinding := 2, k := 3 }
      0 [] (fun _ => 0) { fixed := [7], permCommon := [11] }
      { theta := 2, beta := 3, gamma := 4, trash := 5, y := 6, x := 9, user := [] }
      { advice := [8], inst := [], permSets := [{ eval := 21, next := 22, last := none }], lookups := [], trash := [] }).map
        (·.ids.length) = some 4 := by
  decide +kernel

/-- Historical witness (the code as pinned before the repair): `.min().unwrap()` over the rotations
of the instance queries panics when there is none (`pinnedRotMinMax` = that computation), whereas
the repaired `rotMinMax` returns `(0, 0)` as the off-circuit fold does. -/
theorem pinned_gadget_needs_instance_query : pinnedRotMinMax [] = none ∧ rotMinMax [] = (0, 0) := by decide

/-! ### the multi-opening: the accumulator as formal linear combinations over base identifiers

Model: `Model/C20/MultiOpen.lean` (`kzg.rs: multi_prepare`, `msm.rs`, `vanishing.rs`, and
`accumulator.rs: from_dual_msm` over `MidnightZK.C14.prepareGroups`). Scalars in any field. -/

variable {K : Type} [Field K] [DecidableEq K]

/-- **In-circuit = off-circuit, accumulator level** (second half of DESIGN §7
`in_circuit_acc_eq_off_circuit`, final-MSM part): the right-hand side the gadget assembles with
`AssignedMsm::scale` / `add_msm` —
`Σᵢ x4ⁱ·(Σⱼ x1ʲ·MSM(C_ij)) + x4ˢ·f_com − v·G + x3·π`, where `MSM(C)` is one variable term, one
NAMED fixed-base term (`{vk}_fixed_com_i`, `{vk}_perm_com_i`) or the quotient commitment
`Σ sfʲ·h_j` — is the MSM that `Accumulator::from_dual_msm` extracts from the off-circuit term
list `msm_inner_product(q_coms ++ [f_com], powers(x4)) ++ [(x3, π), (v, −G)]`: same variable bases
in the same order with the same scalars, and for EVERY fixed-base name the same total scalar
(`MsmEq`). For every grouping of the commitments into point sets, every number of quotient
pieces ≥ 1, all power vectors, `v`, `x3`, and every commitment table containing the entries used.
`process_msm` does not hit its assertion (second component). -/
theorem in_circuit_final_msm_eq_off_circuit (names : Names) (tbl : List TEntry) (sf : K) (n : ℕ)
    (cs : List (List C01.Com)) (pw1 pw4 : List K) (v x3 : K)
    (hc : ∀ set ∈ cs, ∀ c ∈ set, ∀ e ∈ entriesOf names (n + 1) c, e ∈ tbl) :
    let inRhs := ((gMsmInnerProduct (cs.map (fun set => gMsmInnerProduct (set.map (comMsmOf names (hCommitment sf (n + 1)))) pw1) ++
          [fromTerm 1 VBase.f]) pw4).addMsm (fromFixedTerm v "-G")).addMsm ((fromTerm 1 VBase.pi : GMsm K).scale x3)
    let offTermsAll := C14.msmInnerProduct (cs.map (fun set => C14.msmInnerProduct (set.map (offTerms names tbl sf (n + 1))) pw1) ++
          [[((1 : K), C14.Base.f)]]) pw4 ++ [(x3, C14.Base.pi), (v, C14.Base.negG)]
    (∃ m, processMsm (decodeOf tbl) offTermsAll = some m ∧ MsmEq inRhs m) := by
  intro inRhs offTermsAll
  exact ⟨_, processMsm_final names tbl sf (n + 1) cs pw1 pw4 v x3 hc, final_rhs_eq names tbl sf n cs pw1 pw4 v x3 hc⟩

/-- Non-vacuity: one set with an advice commitment, a fixed commitment and the quotient
commitment (two pieces) over `ℚ`; the table lists exactly the entries used. -/
example : ∀ set ∈ [[C01.Com.advice 0 0, C01.Com.fixed 3, C01.Com.h]], ∀ c ∈ set,
    ∀ e ∈ entriesOf (namesOf "vk") (1 + 1) c,
      e ∈ [TEntry.var (.com (.advice 0 0)), TEntry.fixed "vk_fixed_com_3", TEntry.var (.hPiece 0), TEntry.var (.hPiece 1)] := by
  decide

/-- `MsmEq` is what the exposure as public input sees when the fixed-base lists have the same
keys: it is reflexive, symmetric, transitive and respected by `scale` / `add_msm`, so the
equality propagates through `AssignedAccumulator::accumulate`. -/
theorem msmEq_congr (a a' b b' : GMsm K) (r : K) (h : MsmEq a a') (h' : MsmEq b b') :
    MsmEq (a.accumulateWithR b r) (a'.accumulateWithR b' r) :=
  MsmEq.addMsm h (MsmEq.scale h' r)


/-- Both sides of two accumulators agree in the sense of `MsmEq`. -/
def AccEq (a b : Acc K VBase) : Prop := MsmEq a.lhs b.lhs ∧ MsmEq a.rhs b.rhs

private theorem accumulateLoopIn_congr : ∀ (l l' : List (Acc K VBase × K)),
    List.Forall₂ (fun x y => AccEq x.1 y.1 ∧ x.2 = y.2) l l' →
    ∀ acc acc' : Acc K VBase, AccEq acc acc' → AccEq (accumulateLoopIn acc l) (accumulateLoopIn acc' l') := by
  intro l l' h
  induction h with
  | nil => intro acc acc' ha; exact ha
  | cons hxy _ ih =>
    intro acc acc' ha
    obtain ⟨⟨h1, h2⟩, hr⟩ := hxy
    simp only [accumulateLoopIn]
    rw [hr]
    exact ih _ _ ⟨MsmEq.addMsm ha.1 (MsmEq.scale h1 _), MsmEq.addMsm ha.2 (MsmEq.scale h2 _)⟩

private theorem forall2_zip_same (t t' : List (Acc K VBase)) (ps : List K) (h : List.Forall₂ AccEq t t') :
    List.Forall₂ (fun x y => AccEq x.1 y.1 ∧ x.2 = y.2) (t.zip ps) (t'.zip ps) := by
  induction h generalizing ps with
  | nil => simp
  | cons hab _ ih =>
    cases ps with
    | nil => simp
    | cons q ps => exact List.Forall₂.cons ⟨hab, rfl⟩ (ih ps)

/-- **Aggregation of `k` inner proofs** (`LightAggregator`: the circuit calls
`AssignedAccumulator::accumulate` on the `k` accumulators returned by `VerifierGadget::prepare`,
`aggregate_proofs` / `verify` call `Accumulator::accumulate` on the `k` off-circuit ones, in the
same order, with powers `r⁰, r¹, …` of the same hash output): if every inner in-circuit
accumulator agrees with its off-circuit counterpart (`AccEq`: the conclusion of
`in_circuit_final_msm_eq_off_circuit` per proof), the aggregated accumulators agree, for EVERY
number of proofs `k ≥ 1` and every `r`; for `k = 0` both index `accs[0]` (panic). Together with
`acc_accumulate_preserves_valid` the aggregate is valid when all inner ones are. -/
theorem aggregate_acc_eq_accumulate (accs accs' : List (Acc K VBase)) (r : K) (h : List.Forall₂ AccEq accs accs') :
    match Acc.accumulateIn accs r, Acc.accumulate accs' r with
    | some a, some b => AccEq a b
    | none, none => True
    | _, _ => False := by
  rw [(in_circuit_acc_eq_off_circuit_partial accs' r).1]
  cases h with
  | nil => simp [Acc.accumulateIn]
  | cons hab ht =>
    have hlen := ht.length_eq
    simp only [Acc.accumulateIn, List.length_cons, hlen]
    exact accumulateLoopIn_congr _ _ (forall2_zip_same _ _ _ ht) _ _ hab

/-- The scalar side of `multi_prepare`, operation by operation: the power vectors
(`utils.rs: powers` vs `arithmetic.rs: powers`), the `x1`-combined evaluation sets
(`evals_inner_product`), `v` (`inner_product(evals, powers(x4))`) and the denominator of an
`f_eval` step are the same in-circuit and off-circuit, for all inputs. (The interpolation equality
and the assembly of these pieces along `multi_prepare` are `gadget_interpolate_eq_off_circuit` and
`in_circuit_acc_eq_off_circuit` below.) -/
theorem in_circuit_multiopen_scalars_eq_off_circuit (x : K) (n : ℕ) (hn : 1 ≤ n) (evalsSet : List (List K))
    (scalars es : List K) (x3 p0 : K) (ps : List K) :
    gPowers x n = C14.powersN x n 1 ∧
      gEvalsInnerProduct evalsSet scalars = C14.evalsInnerProduct evalsSet scalars ∧
      gInnerProductF es (gPowers x es.length) = C14.innerProductScalars es x ∧
      ps.foldl (fun d pt => d * (x3 - pt)) (x3 - p0) = (p0 :: ps).foldl (fun a p => a * (x3 - p)) 1 :=
  ⟨gPowers_eq x n hn, gEvalsInnerProduct_eq evalsSet scalars, gInnerProductF_eq x es, den_eq x3 p0 ps⟩

/-! ### `in_circuit_acc_eq_off_circuit`, assembled along `multi_prepare` (round 6)

Model: `gMultiPrepare` (`circuits/src/verifier/kzg.rs: multi_prepare`, grouping by cell identity) and
`offMultiPrepareV` (`Model/C20/MultiOpenValue.lean`: `Accumulator::from_dual_msm` of
`proofs/src/poly/kzg/mod.rs: multi_prepare`, grouping by point value). -/

/-- **(a) `evaluate_interpolated_polynomial` = `eval_polynomial ∘ lagrange_interpolate`**
(`circuits/src/verifier/utils.rs` vs `proofs/src/utils/arithmetic.rs`), for every non-empty list of
points, every list of values and every `x`: on lists of different lengths or with a repeated point
both fail (assertion off-circuit, unsatisfiable `assert_not_equal` in-circuit); otherwise the
gadget's Lagrange form `Σ_j (∏_{i≠j}(x − x_i) / ∏_{i≠j}(x_j − x_i))·evals_j` is the value at `x` of the
coefficient vector `lagrange_interpolate` builds (which interpolates: `C14.lagrange_interpolate_spec`).
No bound on the number of points. -/
theorem gadget_interpolate_eq_off_circuit (points evals : List K) (x : K) (hne : points ≠ []) :
    gInterpolate (fun a => a⁻¹) points evals x =
      (C14.lagrangeInterpolate (fun a => a⁻¹) points evals).map (fun r => C14.evalPoly r x) :=
  gInterpolate_eq points evals x hne

/-- Non-vacuity: three points over `ℚ` (the parabola `1 − x + 3x²` through `(0,1), (1,3), (2,11)`
evaluated at `5`), and the empty list, on which the two functions DIFFER (`points[0]` does not exist
in-circuit, the off-circuit function returns the empty polynomial) — hence `hne`. -/
example : gInterpolate (fun a : ℚ => a⁻¹) [0, 1, 2] [1, 3, 11] 5 = some 71 ∧
    gInterpolate (fun a : ℚ => a⁻¹) [] [] 5 = none ∧
    (C14.lagrangeInterpolate (fun a : ℚ => a⁻¹) [] []).map (fun r => C14.evalPoly r 5) = some 0 := by
  refine ⟨?_, by decide, by decide⟩
  rw [gadget_interpolate_eq_off_circuit _ _ _ (by simp)]
  norm_num [C14.lagrangeInterpolate, C14.evalPoly, List.range, List.range.loop, List.replicate]

/-- **(b) The body of `multi_prepare` after the grouping**: on the same grouped queries (points of
every set, commitments of the set with their evaluations) the gadget (`x1`-powers,
`msm_inner_product`, `evals_inner_product`, the `f_eval` fold from the last set to the first with
`evaluate_interpolated_polynomial` and `div`, `v`, final MSM) and the off-circuit verifier followed
by `Accumulator::from_dual_msm` either both fail or produce the same accumulator — left sides
equal, right sides with the same variable bases and scalars in the same order and, for every
fixed-base name, the same total scalar. For every number of sets, of commitments per set, of
quotient pieces `n + 1`, every evaluation list of the right length and all challenges; at least one
set, no empty point set (what the grouping yields on a non-empty query list: `grouping_well_formed`). -/
theorem in_circuit_multiprepare_groups_eq (names : Names) (tbl : List TEntry) (sf : K) (n : ℕ)
    (gs : List (SGroup K)) (qE : List K) (x1 x2 x3 x4 : K)
    (hne : gs ≠ []) (hpts : ∀ g ∈ gs, g.1 ≠ []) (hq : qE.length = gs.length)
    (hc : ∀ g ∈ gs, ∀ d ∈ g.2, ∀ e ∈ entriesOf names (n + 1) d.1, e ∈ tbl) :
    match gPrepareGroups (fun a => a⁻¹) (inGroups names (hCommitment sf (n + 1)) gs) qE x1 x2 x3 x4,
          C14.prepareGroups (fun a => a⁻¹) (offGroups names tbl sf (n + 1) gs) ⟨true, qE, true⟩ x1 x2 x3 x4 with
    | some g, .ok d => ∃ acc, fromDualMsm (decodeOf tbl) d = some acc ∧ AccEq g.acc acc
    | none, .error _ => True
    | _, _ => False :=
  prepareGroups_acc_eq names tbl sf n gs qE x1 x2 x3 x4 hne hpts hq hc

/-- **The grouping of a non-empty query list is well formed**: `construct_intermediate_sets` returns
at least one point set and no empty point set (every point-index set is the `BTreeSet` of the
non-empty index list of some commitment, and every index is a position of the point list), for
every query list — so `points[0]` of the `f_eval` fold always exists. -/
theorem grouping_well_formed {C P E : Type} [DecidableEq C] [DecidableEq P] (dflt : E) (qs : List (C14.Query C P E))
    (hne : qs ≠ []) (cm : List (C14.CommitmentData C E)) (psets : List (List P))
    (h : C14.constructIntermediateSets dflt qs = some (cm, psets)) :
    psets ≠ [] ∧ ∀ s ∈ psets, s ≠ [] :=
  C14.construct_wf dflt qs hne cm psets h

/-- **(c) Grouping by value = grouping by cell identity.** `construct_intermediate_sets` run on the
queries with their points replaced by the points' VALUES (off-circuit: `HashMap`/`BTreeMap` keyed by
field elements) returns the same commitment data — set index, point indices, evaluations in set
order — and the values of the same point sets as the run on the identities (in-circuit: `HashMap`
keyed by assigned cells), provided different identities among the queries have different values;
a repeated query is one on both sides. For every query list. -/
theorem grouping_by_value_eq_by_identity (pt : ℤ → K) (dflt : K) (qs : List (C14.Query C01.Com ℤ K))
    (hinj : ∀ q ∈ qs, ∀ q' ∈ qs, pt q.point = pt q'.point → q.point = q'.point) :
    C14.constructIntermediateSets dflt (qs.map (queryAt pt)) =
      (C14.constructIntermediateSets dflt qs).map (fun r => (r.1, r.2.map (·.map pt))) :=
  C14.construct_mapPt pt (fun r => ∃ q ∈ qs, q.point = r)
    (by rintro a b ⟨q, hq, rfl⟩ ⟨q', hq', rfl⟩ h; exact hinj q hq q' hq' h) dflt qs (fun q hq => ⟨q, hq, rfl⟩)

/-- The hypothesis of (c) from `ω` primitive (`C02.omega_primitive`): the points `x·ω^r` of two
rotations with `|r − r'| < N = 2^k` differ when `x ≠ 0` (the gadget opens at rotations `-1, 0, 1` and
`-(blinding_factors + 1)`; `x = 0` has probability `1/|F|`). -/
theorem rotation_points_distinct (ω x : K) (N : ℕ) (hω : IsPrimitiveRoot ω N) (hx : x ≠ 0)
    (r r' : ℤ) (h : |r - r'| < (N : ℤ)) (he : x * ω ^ r = x * ω ^ r') : r = r' :=
  V.rotation_points_distinct ω x N hω hx r r' h he

/-- **`in_circuit_acc_eq_off_circuit`** (DESIGN §7), as ONE statement along `multi_prepare`: for
every list of queries `(commitment, rotation, evaluation)` — i.e. every constraint system —, every
assignment of the transcript scalars (`x1 … x4`, the evaluations, the `q` evaluations read after
`x3`), every number of quotient pieces and every naming of the fixed bases, the accumulator the
gadget model derives (`kzg.rs: multi_prepare`: queries grouped by the identity of the point cell)
and `Accumulator::from_dual_msm(plonk::prepare(..))` of the off-circuit model (queries grouped by
the VALUE of the point) are equal as formal linear combinations (`AccEq`: same variable bases and
scalars in the same order, same total scalar under every fixed-base name), and one side fails
(error, panic, unsatisfiable assertion) exactly when the other does. Hypotheses: there is a query,
and different rotations among the queries give different points (`rotation_points_distinct`; on
an empty point list `evaluate_interpolated_polynomial` and `lagrange_interpolate` differ, but the
grouping of a non-empty query list has no empty point set: `grouping_well_formed`). Both are
evaluated on every proof of the correspondence run (`inj=1 wf=1`), together with the by-value
off-circuit model (`offv=1`). -/
theorem in_circuit_acc_eq_off_circuit (names : Names) (sf : K) (n : ℕ) (pt : ℤ → K)
    (queries : List (C14.Query C01.Com ℤ K)) (qE : List K) (x1 x2 x3 x4 : K)
    (hne : queries ≠ [])
    (hinj : ∀ q ∈ queries, ∀ q' ∈ queries, pt q.point = pt q'.point → q.point = q'.point) :
    match gMultiPrepare (fun a => a⁻¹) names (hCommitment sf (n + 1)) pt queries qE x1 x2 x3 x4,
          offMultiPrepareV (fun a => a⁻¹) names sf (n + 1) (queries.map (queryAt pt)) qE x1 x2 x3 x4 with
    | some g, some acc => AccEq g.acc acc
    | none, none => True
    | _, _ => False := by
  rw [offMultiPrepareV_eq _ names sf (n + 1) pt queries qE x1 x2 x3 x4 hinj]
  exact gMultiPrepare_acc_eq names sf n pt queries qE x1 x2 x3 x4 hne

/-- The same with the points the verifier really uses, `x·ω^r` for `ω` a primitive `N`-th root of
unity (`C02.omega_primitive`: the `omega` of every supported domain), `x ≠ 0` and rotations that
differ by less than `N`. -/
theorem in_circuit_acc_eq_off_circuit_omega (names : Names) (sf : K) (n : ℕ) (ω x : K) (N : ℕ)
    (hω : IsPrimitiveRoot ω N) (hx : x ≠ 0)
    (queries : List (C14.Query C01.Com ℤ K)) (qE : List K) (x1 x2 x3 x4 : K)
    (hne : queries ≠ []) (hrot : ∀ q ∈ queries, ∀ q' ∈ queries, |q.point - q'.point| < (N : ℤ)) :
    match gMultiPrepare (fun a => a⁻¹) names (hCommitment sf (n + 1)) (fun r => x * ω ^ r) queries qE x1 x2 x3 x4,
          offMultiPrepareV (fun a => a⁻¹) names sf (n + 1) (queries.map (queryAt fun r => x * ω ^ r)) qE x1 x2 x3 x4 with
    | some g, some acc => AccEq g.acc acc
    | none, none => True
    | _, _ => False :=
  in_circuit_acc_eq_off_circuit names sf n (fun r => x * ω ^ r) queries qE x1 x2 x3 x4 hne
    (fun q hq q' hq' he => V.rotation_points_distinct ω x N hω hx _ _ (hrot q hq q' hq') he)

/-- Non-vacuity of the hypotheses: an advice commitment opened at rotations `0` and `1`, a fixed
commitment and the quotient commitment at `0`, points `x·ω^r` with `ω = -1` (primitive square root
of unity), `x = 3` over `ℚ`: the rotations differ by less than `2`, the points `3, -3` are
distinct, and the grouping (two sets: `{0, 1}` and `{0}`) is well formed. -/
example :
    let qs : List (C14.Query C01.Com ℤ ℚ) :=
      [⟨.advice 0 0, 0, 5⟩, ⟨.advice 0 0, 1, 6⟩, ⟨.fixed 2, 0, 7⟩, ⟨.h, 0, 8⟩]
    IsPrimitiveRoot (-1 : ℚ) 2 ∧ qs ≠ [] ∧ (∀ q ∈ qs, ∀ q' ∈ qs, |q.point - q'.point| < ((2 : ℕ) : ℤ)) ∧
      (C14.constructIntermediateSets (0 : ℚ) qs).map (fun r => (r.2, groupingWF r.1 r.2)) = some ([[0, 1], [0]], true) := by
  refine ⟨IsPrimitiveRoot.neg_one 0 (by decide), by simp, by decide, by decide +kernel⟩

end Verify

/-! ## Part 5: an accumulator carried into a circuit as a witness (`AssignedAccumulator::assign`, the IVC step)

Model: `Model/C20/Assign.lean` (`verifier/mod.rs: fixed_base_names`, `msm.rs: AssignedMsm::assign`,
`accumulator.rs: AssignedAccumulator::assign`, `zk_stdlib/examples/ivc.rs`). -/
section Assign
variable {F G : Type}

/-- **Witnessing an MSM does not change it**: `AssignedMsm::assign(len, names, Value::known(m))` has
the value `m` itself — every fixed-base scalar under ITS OWN name — for every off-circuit MSM `m`
(a `BTreeMap`: keys strictly increasing in `String` order) of the announced length and EVERY list
of names that is an arrangement of the keys of `m` in any order (`fixed_base_names` gives the
numeric order, which differs from the `String` order as soon as one family has ≥ 11 members:
`lex_order_ne_numeric_order_from_11`). Consequently the assigned MSM evaluates to the same point on
every table of fixed bases and has the same public-input encoding. The sort of the names inside
`assign` is what makes this true (`assign_without_sort_misplaces`). -/
theorem assign_preserves_eval [Zero G] [Add G] [SMul F G] (fb : String → G) (enc : G → List F) (len : ℕ)
    (names : List String) (m : Msm F G) (hb : m.bases.length = len) (hs : m.scalars.length = len)
    (hk : SortedKeys m.fixed) (hn : names.Perm (m.fixed.map (·.1))) :
    m.assign len names = some m ∧
      ∀ a, m.assign len names = some a →
        a.fixed = m.fixed ∧ a.eval fb = m.eval fb ∧ a.asPublicInput enc = m.asPublicInput enc := by
  have hlen : m.fixed.length = names.length := by
    have := hn.length_eq; simpa using this.symm
  have hfix : collectMap ((sortNames names).zip (m.fixed.map (·.2))) = m.fixed := by
    rw [sortNames_eq_of_perm_sorted names _ hn (sortedKeys_keys _ hk), zip_map_fst_snd,
      collectMap_sorted _ hk]
  have h1 : m.assign len names = some m := by
    simp only [Msm.assign, hb, hs, hlen, ne_eq, not_true_eq_false, or_self, if_false, hfix]
  refine ⟨h1, fun a ha => ?_⟩
  rw [h1] at ha
  cases ha
  exact ⟨rfl, rfl, rfl⟩

/-- The same for both sides of an accumulator (`AssignedAccumulator::assign`): a carried
accumulator is witnessed as itself, so `constrain_as_public_input` exposes
`as_public_input(acc)` and nothing else (`expose_acc_binds`), and `Accumulator::check` of the
value inside the circuit is that of the accumulator outside. -/
theorem acc_assign_preserves (lhsLen rhsLen : ℕ) (lhsNames rhsNames : List String) (a : Acc F G)
    (h1 : a.lhs.bases.length = lhsLen) (h2 : a.lhs.scalars.length = lhsLen)
    (h3 : a.rhs.bases.length = rhsLen) (h4 : a.rhs.scalars.length = rhsLen)
    (hkl : SortedKeys a.lhs.fixed) (hkr : SortedKeys a.rhs.fixed)
    (hnl : lhsNames.Perm (a.lhs.fixed.map (·.1))) (hnr : rhsNames.Perm (a.rhs.fixed.map (·.1))) :
    a.assign lhsLen rhsLen lhsNames rhsNames = some a := by
  have hl : a.lhs.assign lhsLen lhsNames = some a.lhs := by
    have hlen : a.lhs.fixed.length = lhsNames.length := by simpa using hnl.length_eq.symm
    simp only [Msm.assign, h1, h2, hlen, ne_eq, not_true_eq_false, or_self, if_false,
      sortNames_eq_of_perm_sorted lhsNames _ hnl (sortedKeys_keys _ hkl), zip_map_fst_snd,
      collectMap_sorted _ hkl]
  have hr : a.rhs.assign rhsLen rhsNames = some a.rhs := by
    have hlen : a.rhs.fixed.length = rhsNames.length := by simpa using hnr.length_eq.symm
    simp only [Msm.assign, h3, h4, hlen, ne_eq, not_true_eq_false, or_self, if_false,
      sortNames_eq_of_perm_sorted rhsNames _ hnr (sortedKeys_keys _ hkr), zip_map_fst_snd,
      collectMap_sorted _ hkr]
  simp [Acc.assign, hl, hr]

/-- **The IVC step in-circuit = off-circuit**: witnessing the carried accumulator and accumulating it
with the accumulator of the freshly verified proof (`AssignedAccumulator::assign`, then
`AssignedAccumulator::accumulate(&[proof_acc, prev_acc])` with the in-circuit `scale` + `add_msm`)
yields, given the same hash output `r`, exactly `Accumulator::accumulate(&[proof_acc, acc])`
computed outside — same variable terms in the same order, same fixed-base map. -/
theorem ivc_step_eq_off_circuit [CommRing F] (lhsLen rhsLen : ℕ) (lhsNames rhsNames : List String)
    (proofAcc carried : Acc F G) (r : F)
    (h1 : carried.lhs.bases.length = lhsLen) (h2 : carried.lhs.scalars.length = lhsLen)
    (h3 : carried.rhs.bases.length = rhsLen) (h4 : carried.rhs.scalars.length = rhsLen)
    (hkl : SortedKeys carried.lhs.fixed) (hkr : SortedKeys carried.rhs.fixed)
    (hnl : lhsNames.Perm (carried.lhs.fixed.map (·.1))) (hnr : rhsNames.Perm (carried.rhs.fixed.map (·.1))) :
    ivcStepIn lhsLen rhsLen lhsNames rhsNames proofAcc carried r = Acc.accumulate [proofAcc, carried] r := by
  simp only [ivcStepIn, acc_assign_preserves lhsLen rhsLen lhsNames rhsNames carried h1 h2 h3 h4 hkl hkr hnl hnr]
  simp only [Acc.accumulate, Acc.accumulateIn]
  rw [accumulateLoop_eq]

/-- Non-vacuity: an MSM over `ℤ` with twelve fixed-base scalars under the names of
`fixed_base_names("vk", 11, 0)` (value = position in numeric order); the hypotheses hold and
`assign` with the names in numeric order returns it unchanged. -/
def exampleCarried : Msm ℤ ℤ :=
  { bases := [5], scalars := [1],
    fixed := collectMap ((fixedBaseNames "vk" 11 0).zipIdx.map (fun ni => (ni.1, (ni.2 : ℤ)))) }

example : (exampleCarried.assign 1 (fixedBaseNames "vk" 11 0)).map (·.fixed) = some exampleCarried.fixed ∧
    exampleCarried.fixed.map (·.1) = sortNames (fixedBaseNames "vk" 11 0) := by decide +kernel

/-- **Why the sort is needed** (the witness behind seeded change C20-2): without
`fixed_base_names.sort()` the same call hands the scalar of `vk_fixed_com_10` (11, after `-G`) to
the name `vk_fixed_com_2`, the scalar of `vk_fixed_com_2` (3) to `vk_fixed_com_3`, …: the assigned
MSM is another one (and evaluates to another point), although the names are in the order
`fixed_base_names` produces and the scalars in the order the `BTreeMap` yields. -/
theorem assign_without_sort_misplaces :
    (exampleCarried.assignNoSort 1 (fixedBaseNames "vk" 11 0)).map (·.fixed) ≠ some exampleCarried.fixed ∧
      (exampleCarried.assignNoSort 1 (fixedBaseNames "vk" 11 0)).map (fun a => a.fixed.lookup "vk_fixed_com_2") =
        some (some 11) ∧
      exampleCarried.fixed.lookup "vk_fixed_com_2" = some 3 := by decide +kernel

/-- **Numeric order ≠ `BTreeMap` order from 11 commitments on**: for every verifying-key name, as
soon as there are at least 11 fixed commitments or at least 11 permutation commitments, the list
`fixed_base_names` returns is NOT in `String` order (`…_com_10 < …_com_2`), so sorting it changes
it — the order in which `AssignedMsm::assign` receives the names differs from the order in which
the scalars leave the `BTreeMap`. -/
theorem lex_order_ne_numeric_order_from_11 (vk : String) (nbFixed nbPerm : ℕ) (h : 11 ≤ nbFixed ∨ 11 ≤ nbPerm) :
    sortNames (fixedBaseNames vk nbFixed nbPerm) ≠ fixedBaseNames vk nbFixed nbPerm := by
  intro he
  have hs := sortNames_sorted (fixedBaseNames vk nbFixed nbPerm)
  rw [he] at hs
  have hs' := (List.pairwise_cons.mp hs).2
  obtain ⟨hf, hp, _⟩ := List.pairwise_append.mp hs'
  rcases h with h | h
  · exact range_names_not_sorted (vk ++ Consts.fixedInfix) nbFixed h hf
  · exact range_names_not_sorted (vk ++ Consts.permInfix) nbPerm h hp

/-- Up to ten commitments per family the two orders agree on each family: the names of the fixed
(resp. permutation) commitments `0 … n−1`, `n ≤ 10`, are strictly increasing in `String` order
(which is why verifying keys with few columns never exercise the sort). -/
theorem numeric_order_sorted_upto_10 (p : String) (n : ℕ) (hn : n ≤ 10) :
    ((List.range n).map (fun i => p ++ toString i)).Pairwise (· < ·) := by
  rw [List.pairwise_map]
  have key : ∀ i j : Fin 10, i < j → toString i.val < toString j.val := by decide
  refine List.pairwise_lt_range.imp_of_mem ?_
  intro i j hi hj hij
  have hi' : i < 10 := by have := List.mem_range.mp hi; omega
  have hj' : j < 10 := by have := List.mem_range.mp hj; omega
  exact append_lt_append_left p _ _ (key ⟨i, hi'⟩ ⟨j, hj'⟩ hij)

end Assign

/-! ## Part 6: public-input layout and IPA pairing of the light aggregator

Model: `Model/C20/Aggregator.lean` (`aggregator/src/light_aggregator.rs: aggregate_proofs / verify`). -/
section Aggregator
variable {F G : Type}

/-- **Prover and verifier of the aggregator use the same instance vector**: the vector
`aggregate_proofs` proves the aggregator circuit against (vk identity, the inner public inputs in
order, `as_public_input_with_committed_scalars(acc).0`) is the vector `verify` rebuilds from the
sections it reads off the aggregated proof (`n`, left bases, left scalars, `m`, right bases), for
every accumulator whose left side has no fixed-base scalar (what `aggregate_proofs` asserts), every
number of inner proofs and every point encoding. Any alteration of a section therefore alters the
instance the PLONK proof is checked against. -/
theorem aggregator_instances_agree (enc : G → List F) (vkPI : List F) (inner : List (List F)) (acc : Acc F G)
    (h : acc.lhs.fixed = []) :
    ∃ s, aggSectionsOf acc = some s ∧
      aggVerifierInstances enc vkPI inner s = aggProverInstances enc vkPI inner acc := by
  refine ⟨{ lhsBases := acc.lhs.bases, lhsScalars := acc.lhs.scalars, rhsBases := acc.rhs.bases },
    by simp [aggSectionsOf, h], ?_⟩
  simp [aggVerifierInstances, aggProverInstances, Acc.asPublicInputCommitted, Msm.asPublicInput, h]

/-- `aggregate_proofs` refuses (assertion) an accumulator with fixed-base scalars on the left. -/
theorem aggregator_sections_need_plain_lhs (acc : Acc F G) (h : acc.lhs.fixed ≠ []) : aggSectionsOf acc = none := by
  cases hf : acc.lhs.fixed with
  | nil => exact absurd hf h
  | cons a t => simp [aggSectionsOf, hf]

variable [CommRing F] [AddCommGroup G] [Module F G]

private theorem innerProduct_fixed : ∀ (fx : List (String × F)) (fb : List (String × G)) (fbf : String → G),
    fx.map (·.1) = fb.map (·.1) → (∀ kb ∈ fb, fbf kb.1 = kb.2) →
    innerProduct (fx.map (·.2)) (fb.map (·.2)) = fixedSum fbf fx
  | [], [], _, _, _ => by simp [innerProduct, fixedSum]
  | [], _ :: _, _, h, _ => by simp at h
  | _ :: _, [], _, h, _ => by simp at h
  | x :: fx, b :: fb, fbf, h, hb => by
    simp only [List.map_cons, List.cons.injEq] at h
    have ih := innerProduct_fixed fx fb fbf h.2 (fun kb hk => hb kb (by simp [hk]))
    have hx : fbf x.1 = b.2 := by rw [h.1]; exact hb b (by simp)
    simp only [List.map_cons, innerProduct_cons, ih, fixedSum, List.sum_cons, hx]

/-- **The claim the aggregator's IPA proves is the value of the accumulator's right-hand side**:
the inner product of the committed scalars (`acc_committed_instances`: right-hand scalars, then
fixed-base scalars in key order) with `bases1 = acc.rhs().bases() ++ fixed_bases.values()` equals
`acc.rhs().eval(fixed_bases)` — PROVIDED the right-hand side carries a scalar for every fixed base
of the inner verifying key (`aggAligned`: same names in the same order). This is the hypothesis
the PINNED code relied on without checking it (see `aggregator_needs_all_fixed_names`); the repaired
code pairs with `ipa_fixed_bases` instead (`aggregator_ipa_claim_opened`). -/
theorem aggregator_ipa_claim (enc : G → List F) (acc : Acc F G) (fb : List (String × G)) (fbf : String → G)
    (hwf : acc.rhs.scalars.length = acc.rhs.bases.length) (hal : aggAligned acc fb = true)
    (hfb : ∀ kb ∈ fb, fbf kb.1 = kb.2) :
    innerProduct (aggCommitted enc acc) (aggIpaBases1 acc fb) = acc.rhs.eval fbf := by
  have hk : acc.rhs.fixed.map (·.1) = fb.map (·.1) := by simpa [aggAligned] using hal
  simp only [aggCommitted, aggIpaBases1, Acc.asPublicInputCommitted]
  rw [innerProduct_append _ _ _ _ hwf, innerProduct_fixed _ _ _ hk hfb, eval_eq]

/-- Non-vacuity of `aggregator_ipa_claim` and the reason for its hypothesis: over `ℤ`, fixed bases
`a ↦ 10, b ↦ 100, c ↦ 1000`. With a scalar under every name the pairing gives the value of the MSM
(`2·7 + 1·10 + 2·100 + 3·1000`); if the accumulator has no scalar for `b` (a fixed commitment the
inner proof never opens), the scalar of `c` is paired with the base of `b`: `2·7 + 1·10 + 3·100`
instead of `2·7 + 1·10 + 3·1000` — the IPA would be run on a false claim and the honest aggregated
proof rejected. -/
theorem aggregator_needs_all_fixed_names :
    let fb : List (String × ℤ) := [("a", 10), ("b", 100), ("c", 1000)]
    let fbf : String → ℤ := fun k => ((fb.find? (fun kb => kb.1 = k)).map (·.2)).getD 0
    let full : Acc ℤ ℤ := ⟨⟨[], [], []⟩, ⟨[7], [2], [("a", 1), ("b", 2), ("c", 3)]⟩⟩
    let part : Acc ℤ ℤ := ⟨⟨[], [], []⟩, ⟨[7], [2], [("a", 1), ("c", 3)]⟩⟩
    aggAligned full fb = true ∧
      innerProduct (aggCommitted (fun _ => []) full) (aggIpaBases1 full fb) = full.rhs.eval fbf ∧
      aggAligned part fb = false ∧
      innerProduct (aggCommitted (fun _ => []) part) (aggIpaBases1 part fb) = 324 ∧ part.rhs.eval fbf = 3024 := by
  decide

/-! ### the repaired pairing (`fix: LightAggregator pairs the committed fixed-base scalars … only
with the fixed bases it has a scalar for`, model `aggUnopened` / `ipaFixedBases` /
`aggIpaBases1Opened`, compared with the real `ipa_fixed_bases` on every run) -/

omit [CommRing F] [AddCommGroup G] [Module F G] in
/-- **Which fixed bases `ipa_fixed_bases` drops**: exactly the entries whose name is the name of a
fixed commitment `i < nb_fixed` that is the column of NO fixed query; `-G`, the permutation
commitments and every queried fixed commitment are kept, in key order. -/
theorem aggregator_ipa_fixed_bases_spec (nb : ℕ) (q : List ℕ) (fb : List (String × G)) (kb : String × G) :
    kb ∈ ipaFixedBases nb q fb ↔
      kb ∈ fb ∧ ¬ ∃ i, i < nb ∧ kb.1 = fixedCommitmentName "inner_vk" i ∧ i ∉ q :=
  ipaFixedBases_mem nb q fb kb

omit [CommRing F] [AddCommGroup G] [Module F G] in
/-- For a key whose fixed columns are all queried (every standard-library circuit) the repaired
aggregator uses the same bases as before: the aggregated proofs of such keys are unchanged. -/
theorem ipaFixedBases_all_queried_eq (nb : ℕ) (q : List ℕ) (fb : List (String × G)) (acc : Acc F G)
    (h : ∀ i, i < nb → i ∈ q) : aggIpaBases1Opened acc nb q fb = aggIpaBases1 acc fb := by
  simp only [aggIpaBases1Opened, ipaFixedBases_all_queried nb q fb h]

omit [CommRing F] [AddCommGroup G] [Module F G] in
/-- **The repaired pairing is name-correct whenever the accumulator carries exactly the opened
names**: if the fixed-base scalars of the right-hand side and the fixed bases of the key are
`BTreeMap`s (keys strictly increasing) and a name has a scalar iff it is a fixed base of the key
that `ipa_fixed_bases` keeps (what `from_dual_msm` of `plonk::prepare` yields: its labels are `-G`,
every permutation commitment and `Fixed(column)` for every fixed query), then scalars and bases
are paired name by name — for every key, every set of unqueried columns. -/
theorem aggregator_aligned_of_opened (acc : Acc F G) (fb : List (String × G)) (nb : ℕ) (q : List ℕ)
    (hs1 : (acc.rhs.fixed.map (·.1)).Pairwise (· < ·)) (hs2 : (fb.map (·.1)).Pairwise (· < ·))
    (hmem : ∀ name, name ∈ acc.rhs.fixed.map (·.1) ↔ (name ∈ fb.map (·.1) ∧ aggUnopened nb q name = false)) :
    aggAligned acc (ipaFixedBases nb q fb) = true := by
  have : acc.rhs.fixed.map (·.1) = (ipaFixedBases nb q fb).map (·.1) := by
    rw [ipaFixedBases_keys]
    apply sorted_names_ext _ _ hs1 (hs2.sublist List.filter_sublist)
    intro k
    rw [hmem k, List.mem_filter]
    simp
  simp [aggAligned, this]

/-- **The claim of the repaired aggregator's IPA is the value of the accumulator's right-hand
side**: `<acc_committed_instances, acc.rhs().bases() ++ ipa_fixed_bases(fixed_bases)> =
acc.rhs().eval(fixed_bases)` when the pairing is name-correct (`aggregator_aligned_of_opened`). -/
theorem aggregator_ipa_claim_opened (enc : G → List F) (acc : Acc F G) (fb : List (String × G)) (fbf : String → G)
    (nb : ℕ) (q : List ℕ)
    (hwf : acc.rhs.scalars.length = acc.rhs.bases.length) (hal : aggAligned acc (ipaFixedBases nb q fb) = true)
    (hfb : ∀ kb ∈ fb, fbf kb.1 = kb.2) :
    innerProduct (aggCommitted enc acc) (aggIpaBases1Opened acc nb q fb) = acc.rhs.eval fbf :=
  aggregator_ipa_claim enc acc (ipaFixedBases nb q fb) fbf hwf hal
    (fun kb hk => hfb kb ((ipaFixedBases_mem nb q fb kb).1 hk).1)

/-- **Which names `Accumulator::from_dual_msm` gives a scalar to** (`process_msm`:
`*fixed_base_scalars.entry(name).or_insert(ZERO) += scalar`): on each side the fixed-base scalars
form a `BTreeMap` (keys strictly increasing) whose keys are EXACTLY the names of the terms labelled
as fixed bases (`Fixed(i)`, `Permutation(i)`, `Custom("-G")`) — no entry for a fixed base of the
key that the dual MSM does not mention (the origin of finding `agg:unopened-fixed-commitment`) —,
for every dual MSM on which the assertions of `process_msm` hold. -/
theorem from_dual_msm_keys {K : Type} [Field K] [DecidableEq K] (decode : C14.Base → Option V.TEntry)
    (d : C14.DualMSM K) (acc : Acc K V.VBase)
    (h : V.fromDualMsm decode d = some acc)
    (hl : ∀ t ∈ d.left, (decode t.2).isSome) (hr : ∀ t ∈ d.right, (decode t.2).isSome) :
    (acc.rhs.fixed.map (·.1)).Pairwise (· < ·) ∧ (acc.lhs.fixed.map (·.1)).Pairwise (· < ·) ∧
      (∀ k, k ∈ acc.rhs.fixed.map (·.1) ↔ ∃ t ∈ d.right, decode t.2 = some (.fixed k)) ∧
      (∀ k, k ∈ acc.lhs.fixed.map (·.1) ↔ ∃ t ∈ d.left, decode t.2 = some (.fixed k)) :=
  V.fromDualMsm_keys decode d acc h hl hr

/-- Non-vacuity: a dual MSM over `ℚ` with one fixed commitment `a`, `f_com` and `-G` on the right:
`from_dual_msm` succeeds, the keys are `-G < a`, the only variable base is `f_com`. -/
example : ∃ acc, V.fromDualMsm (V.decodeOf [V.TEntry.fixed "a"])
      (⟨[(1, .pi)], [(2, .com 0), (5, .f), (3, .negG)]⟩ : C14.DualMSM ℚ) = some acc ∧
    acc.rhs.fixed.map (·.1) = ["-G", "a"] ∧ acc.rhs.bases = [V.VBase.f] := by
  refine ⟨_, rfl, ?_, ?_⟩ <;> decide +kernel

/-- **The repaired pairing on an accumulator that comes out of `from_dual_msm`**: if the
fixed-labelled terms on the right of the dual MSM are exactly the fixed bases of the key that
`ipa_fixed_bases` keeps (for `plonk::prepare`: `-G`, every permutation commitment, `Fixed(column)`
of every fixed query — compared with the real code on every run, `ipa_fixed=`), scalars and bases
are paired name by name; the sortedness of the accumulator's keys is no longer a hypothesis. -/
theorem aggregator_aligned_from_dual_msm {K : Type} [Field K] [DecidableEq K] (decode : C14.Base → Option V.TEntry)
    (d : C14.DualMSM K) (acc : Acc K V.VBase) (fb : List (String × V.VBase)) (nb : ℕ) (q : List ℕ)
    (h : V.fromDualMsm decode d = some acc)
    (hl : ∀ t ∈ d.left, (decode t.2).isSome) (hr : ∀ t ∈ d.right, (decode t.2).isSome)
    (hs2 : (fb.map (·.1)).Pairwise (· < ·))
    (hnames : ∀ name, (∃ t ∈ d.right, decode t.2 = some (.fixed name)) ↔
      (name ∈ fb.map (·.1) ∧ aggUnopened nb q name = false)) :
    aggAligned acc (ipaFixedBases nb q fb) = true := by
  obtain ⟨hs1, _, hk, _⟩ := V.fromDualMsm_keys decode d acc h hl hr
  exact aggregator_aligned_of_opened acc fb nb q hs1 hs2 (fun name => (hk name).trans (hnames name))

/-- **`AssignedAccumulator::scale_by_bit`** (the genesis switch of the IVC example; model
`Acc.scaleByBit`, compared with the value the circuit holds for bit 0 and 1 on every run:
`acc-scale-bit` lines): scaling by the bit `1` leaves the value of both sides unchanged, scaling by
`0` gives an accumulator whose two sides evaluate to the identity — on EVERY table of fixed bases,
for every accumulator — and which therefore satisfies the pairing invariant `P(lhs) = Q(rhs)` of
`Accumulator::check` for any two additive maps. (Seeded change C20-3 scales the left side twice and
the right side never: then the right side keeps its value.) -/
theorem scale_by_bit_spec (fb : String → G) (a : Acc F G) :
    ((a.scaleByBit true).lhs.eval fb = a.lhs.eval fb ∧ (a.scaleByBit true).rhs.eval fb = a.rhs.eval fb) ∧
      ((a.scaleByBit false).lhs.eval fb = 0 ∧ (a.scaleByBit false).rhs.eval fb = 0) := by
  simp only [Acc.scaleByBit, if_true, Bool.false_eq_true, if_false]
  refine ⟨⟨?_, ?_⟩, ?_, ?_⟩
  · rw [msm_scale_eval fb 1 a.lhs, one_smul]
  · rw [msm_scale_eval fb 1 a.rhs, one_smul]
  · rw [msm_scale_eval fb 0 a.lhs, zero_smul]
  · rw [msm_scale_eval fb 0 a.rhs, zero_smul]

/-- The example of `aggregator_needs_all_fixed_names` with the names of a real key: two fixed
commitments of which only column 1 is queried, one permutation commitment. The accumulator has no
scalar for `inner_vk_fixed_com_0`; the pinned pairing (all bases) gives `2·7 + 1·10 + 3·100 + 4·1000`
instead of the value `2·7 + 1·10 + 3·1000 + 4·5`, the repaired one drops the unopened base and
gives the value. -/
theorem aggregator_repair_pairs_by_name :
    let fb : List (String × ℤ) := [("-G", 10), ("inner_vk_fixed_com_0", 100), ("inner_vk_fixed_com_1", 1000), ("inner_vk_perm_com_0", 5)]
    let fbf : String → ℤ := fun k => ((fb.find? (fun kb => kb.1 = k)).map (·.2)).getD 0
    let part : Acc ℤ ℤ := ⟨⟨[], [], []⟩, ⟨[7], [2], [("-G", 1), ("inner_vk_fixed_com_1", 3), ("inner_vk_perm_com_0", 4)]⟩⟩
    aggAligned part fb = false ∧
      (ipaFixedBases 2 [1] fb).map (·.1) = ["-G", "inner_vk_fixed_com_1", "inner_vk_perm_com_0"] ∧
      aggAligned part (ipaFixedBases 2 [1] fb) = true ∧
      innerProduct (aggCommitted (fun _ => []) part) (aggIpaBases1 part fb) = 4324 ∧
      innerProduct (aggCommitted (fun _ => []) part) (aggIpaBases1Opened part 2 [1] fb) = 3044 ∧
      part.rhs.eval fbf = 3044 := by
  decide +kernel

end Aggregator

end MidnightZK.C20
