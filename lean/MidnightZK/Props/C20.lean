import MidnightZK.Proofs.C20.Ipa
import MidnightZK.Proofs.C20.IpaPoly
import MidnightZK.Proofs.C20.Gadget
import MidnightZK.Proofs.C20.Acc
/-!
# C20 — recursion and aggregation accept exactly the valid inner proofs
Property theorems (helper lemmas live in `MidnightZK/Proofs/C20`).

Part 1: the two-base inner-product argument of `aggregator/src/inner_product_argument.rs`
(model: `MidnightZK/Model/C20/Ipa.lean`). Scalars in a commutative ring `F`, group elements in an
`F`-module `G`; the Fiat–Shamir challenges are universally quantified parameters.
-/
namespace MidnightZK.C20
open Polynomial

section Ipa
variable {F G : Type} [CommRing F] [AddCommGroup G] [Module F G]

private theorem length_flatMap_pair {α β : Type} (f g : α → β) (l : List α) :
    (l.flatMap (fun a => [f a, g a])).length = 2 * l.length := by
  induction l with
  | nil => simp
  | cons a l ih => simp [ih]; omega

/-- One round of `ipa_prove` (`for _ in 0..k`): the pair `(L, R)` it writes is
`(<s_left, b_right>, <s_right, b_left>)`, and the folded vectors satisfy
`<s', b'> = <s, b> + u²·L + u⁻²·R` — the relation the verifier's final MSM relies on
(`L_j * uj^2 + R_j * uj^(-2)`), for every even length and every invertible challenge. -/
theorem ipa_fold_invariant (st : ProverState F G) (u ui : F) (h : Nat)
    (hs : st.s.length = 2 * h) (hb : st.b.length = 2 * h) (hu : u * ui = 1) :
    (proverRound st u ui).lrs =
        st.lrs ++ [(innerProduct (st.s.take h) (st.b.drop h), innerProduct (st.s.drop h) (st.b.take h))] ∧
      innerProduct (proverRound st u ui).s (proverRound st u ui).b =
        innerProduct st.s st.b +
          ((u * u) • innerProduct (st.s.take h) (st.b.drop h) +
            (ui * ui) • innerProduct (st.s.drop h) (st.b.take h)) := by
  have hh : st.s.length / 2 = h := by omega
  have l1 : (st.s.take h).length = h := by simp [hs]; omega
  have l2 : (st.s.drop h).length = h := by simp [hs]; omega
  have l3 : (st.b.take h).length = h := by simp [hb]; omega
  have l4 : (st.b.drop h).length = h := by simp [hb]; omega
  have hsplit : innerProduct st.s st.b =
      innerProduct (st.s.take h) (st.b.take h) + innerProduct (st.s.drop h) (st.b.drop h) := by
    conv => lhs; rw [← List.take_append_drop h st.s, ← List.take_append_drop h st.b,
      innerProduct_append _ _ _ _ (by rw [l1, l3])]
  refine ⟨by simp [proverRound, hh], ?_⟩
  simp only [proverRound, hh]
  rw [innerProduct_fold_fold u ui hu _ _ _ _ (by rw [l1, l2]) (by rw [l1, l3]) (by rw [l1, l4]),
    hsplit]

/-- Non-vacuity: one round on vectors of length 2 over `ℤ` (as a module over itself). -/
example : innerProduct (proverRound (F := ℤ) (G := ℤ) ⟨[], [3, 5], [7, 11]⟩ 1 1).s
    (proverRound (F := ℤ) (G := ℤ) ⟨[], [3, 5], [7, 11]⟩ 1 1).b = 3 * 7 + 5 * 11 + (3 * 11 + 5 * 7) := by
  decide

/-- The verifier's `ipa_scalars` loop (`[-s]`, then for the challenges in reverse order
`scalars·u⁻¹ ++ scalars·u`) produces exactly the coefficient list of
`-s · ∏ⱼ (uⱼ⁻¹ + uⱼ·X^(2ʲ))`, where `uⱼ` is the `j`-th challenge counted from the last one
(the order the loop uses): entry `i` of the vector is the coefficient of `Xⁱ`. For every number
of rounds and all challenge values (no invertibility needed). -/
theorem ipa_scalars_formula (s : F) (us : List (F × F)) :
    listPoly (ipaScalars s us) =
      C (-s) * ((us.reverse.zipIdx).map (fun uj => C uj.1.2 + C uj.1.1 * X ^ (2 ^ uj.2))).prod := by
  rw [ipaScalars_eq_coeffs, ← coeffPoly_eq_prod, ← listPoly_coeffs]
  have : (fun c => -s * c) = (fun c : F => c * -s) := by funext c; ring
  rw [this, listPoly_map_mul]

/-- `listPoly l` really has `l` as its coefficient list (so the statement above is about the
entries of the vector). -/
theorem ipa_scalars_formula_coeff (s : F) (us : List (F × F)) (i : Nat) :
    (ipaScalars s us).getD i 0 =
      (C (-s) * ((us.reverse.zipIdx).map (fun uj => C uj.1.2 + C uj.1.1 * X ^ (2 ^ uj.2))).prod).coeff i := by
  rw [← ipa_scalars_formula, listPoly_coeff]

/-- Index form of the same fact: entry `i < 2^k` of `ipa_scalars` is `-s` times the product over
the rounds of `u⁻¹` or `u`, the first challenge being selected by the top bit of `i`
(`coeffAt`); and the vector has exactly `2^k` entries. -/
theorem ipa_scalars_index (s : F) (us : List (F × F)) :
    (ipaScalars s us).length = 2 ^ us.length ∧
      ∀ i, i < 2 ^ us.length → (ipaScalars s us).getD i 0 = -s * coeffAt us i := by
  rw [ipaScalars_eq_coeffs]
  refine ⟨by simp [coeffs_length], fun i hi => ?_⟩
  rw [← coeffs_getD us i hi]
  have hl : i < (coeffs us).length := by rw [coeffs_length]; exact hi
  simp [List.getD_eq_getElem?_getD, List.getElem?_eq_getElem hl]

/-- Non-vacuity / orientation: two rounds, challenges `(a, a')` then `(b, b')`: the vector is
`-s·[a'b', a'b, ab', ab]`. -/
example (s a a' b b' : ℤ) :
    ipaScalars s [(a, a'), (b, b')] = [-s * b' * a', -s * b * a', -s * b' * a, -s * b * a] := by
  simp [ipaScalars]

/-- Completeness of the argument: for every number of rounds `k`, all vectors of length `2^k`,
every batching challenge `r` and all invertible round challenges, the proof produced by
`ipa_prove` for the true claims `res1 = <w, bases1>`, `res2 = <w, bases2>` makes the MSM of
`ipa_verify` vanish, i.e. `ipa_verify` returns `Ok`. (Prover and verifier derive the same
challenges because their transcripts agree: `ipa_schedule_agree`.) -/
theorem ipa_complete (w : List F) (bases1 bases2 : List G) (r : F) (us : List (F × F))
    (hw : w.length = 2 ^ us.length) (h1 : bases1.length = 2 ^ us.length)
    (h2 : bases2.length = 2 ^ us.length) (hinv : ∀ p ∈ us, p.1 * p.2 = 1) :
    verifierSum bases1 bases2 (innerProduct w bases1) (innerProduct w bases2) r us
      (ipaProve w bases1 bases2 r us) = 0 := by
  have hb : (fold (1 : F) bases1 r bases2).length = 2 ^ us.length := by
    rw [fold_length, h1, h2]; simp
  obtain ⟨e1, e2, e3, e4⟩ := proverRounds_spec us w (fold (1 : F) bases1 r bases2) hw hb hinv
  set X := proverRounds { lrs := ([] : List (G × G)), s := w, b := fold (1 : F) bases1 r bases2 } us
    with hX
  obtain ⟨s0, hs0⟩ := List.length_eq_one_iff.mp e2
  have hpf : ipaProve w bases1 bases2 r us = { lrs := X.lrs, s := s0 } := by
    simp [ipaProve, ← hX, hs0]
  rw [hpf]
  simp only [verifierSum, verifierMsmScalars, verifierMsmBases]
  have hlen : (ipaScalars s0 us).length = 2 ^ us.length := (ipa_scalars_index s0 us).1
  rw [List.append_assoc, List.append_assoc, List.append_assoc, List.append_assoc,
    innerProduct_append _ _ _ _ (by rw [length_flatMap_pair, length_flatMap_pair, e1]),
    innerProduct_append _ _ _ _ (by rw [hlen, h1]),
    innerProduct_append _ _ _ _ (by rw [List.length_map, hlen, h2])]
  rw [← add_assoc (innerProduct (ipaScalars s0 us) bases1), innerProduct_batch r _ _ _ (by rw [h1, h2]),
    ipaScalars_eq_coeffs, innerProduct_map_mul_left]
  rw [hs0, e3] at e4
  simp only [innerProduct_cons, innerProduct_nil_left, add_zero] at e4
  rw [innerProduct_fold_right 1 r w bases1 bases2 (by rw [h1, h2])] at e4
  simp only [mul_one, List.map_id', innerProduct_map_mul_right] at e4
  simp only [innerProduct_cons, innerProduct_nil_left, add_zero, one_smul, neg_smul]
  rw [e4]
  abel

/-- Non-vacuity: a concrete accepted run with two rounds over `ℤ/101`-free integers (challenges
`±1` are their own inverses). -/
example : verifierSum (F := ℤ) (G := ℤ) [2, 3, 5, 7] [1, 4, 9, 16]
    (innerProduct [1, 2, 3, 4] [2, 3, 5, 7]) (innerProduct [1, 2, 3, 4] [1, 4, 9, 16]) 6
    [(1, 1), (-1, -1)] (ipaProve [1, 2, 3, 4] [2, 3, 5, 7] [1, 4, 9, 16] 6 [(1, 1), (-1, -1)]) = 0 := by
  decide


/-- The value `ipa_verify` compares with the identity, split into its four parts: the `L/R`
terms, the two folded-base terms and the batched claim. -/
private theorem verifierSum_split (bases1 bases2 : List G) (res1 res2 : G) (r : F) (us : List (F × F))
    (pf : IpaProof F G) (hl : pf.lrs.length = us.length) (h1 : bases1.length = 2 ^ us.length)
    (h2 : bases2.length = 2 ^ us.length) :
    verifierSum bases1 bases2 res1 res2 r us pf =
      innerProduct (us.flatMap (fun u => [u.1 * u.1, u.2 * u.2])) (pf.lrs.flatMap (fun lr => [lr.1, lr.2])) +
        (innerProduct (ipaScalars pf.s us) bases1 + (innerProduct ((ipaScalars pf.s us).map (· * r)) bases2 +
          (res1 + r • res2))) := by
  simp only [verifierSum, verifierMsmScalars, verifierMsmBases]
  have hlen : (ipaScalars pf.s us).length = 2 ^ us.length := (ipa_scalars_index pf.s us).1
  rw [List.append_assoc, List.append_assoc, List.append_assoc, List.append_assoc,
    innerProduct_append _ _ _ _ (by rw [length_flatMap_pair, length_flatMap_pair, hl]),
    innerProduct_append _ _ _ _ (by rw [hlen, h1]),
    innerProduct_append _ _ _ _ (by rw [List.length_map, hlen, h2])]
  simp [innerProduct_cons, innerProduct_nil_left]

/-- Binding of the first claimed value at fixed challenges: with the same bases, proof and
challenges, `ipa_verify` accepts at most one `res1`. (Altering the claim also changes the
Fiat–Shamir challenges in the real protocol; that a fresh challenge tuple does not make the
altered claim the accepted one is the random-oracle/discrete-log part, which is assumed.) -/
theorem ipa_claim1_unique (bases1 bases2 : List G) (res1 res1' res2 : G) (r : F) (us : List (F × F))
    (pf : IpaProof F G) (hl : pf.lrs.length = us.length) (h1 : bases1.length = 2 ^ us.length)
    (h2 : bases2.length = 2 ^ us.length)
    (ha : verifierSum bases1 bases2 res1 res2 r us pf = 0)
    (hb : verifierSum bases1 bases2 res1' res2 r us pf = 0) : res1 = res1' := by
  rw [verifierSum_split _ _ _ _ _ _ _ hl h1 h2] at ha hb
  have := ha.trans hb.symm
  simpa using this

/-- Binding of the second claimed value (the commitment `σ` to the scalars, in the aggregator)
at fixed challenges, for an invertible batching challenge `r`. -/
theorem ipa_claim2_unique (bases1 bases2 : List G) (res1 res2 res2' : G) (r ri : F) (hr : ri * r = 1)
    (us : List (F × F)) (pf : IpaProof F G) (hl : pf.lrs.length = us.length)
    (h1 : bases1.length = 2 ^ us.length) (h2 : bases2.length = 2 ^ us.length)
    (ha : verifierSum bases1 bases2 res1 res2 r us pf = 0)
    (hb : verifierSum bases1 bases2 res1 res2' r us pf = 0) : res2 = res2' := by
  rw [verifierSum_split _ _ _ _ _ _ _ hl h1 h2] at ha hb
  have h := ha.trans hb.symm
  have h' : r • res2 = r • res2' := by simpa using h
  have := congrArg (fun x => ri • x) h'
  simpa [smul_smul, hr] using this

/-- Non-vacuity of the two uniqueness statements: an accepted instance exists (`ipa_complete`),
and changing `res1` by one makes the sum non-zero. -/
example : verifierSum (F := ℤ) (G := ℤ) [2, 3] [1, 4] (innerProduct [1, 2] [2, 3] + 1)
    (innerProduct [1, 2] [1, 4]) 6 [(1, 1)] (ipaProve [1, 2] [2, 3] [1, 4] 6 [(1, 1)]) ≠ 0 := by
  decide

/-- Binding of the final scalar at fixed challenges: two proofs that differ only in the last
scalar and are both accepted satisfy `(s − s') • B = 0`, where `B = <coeffs, bases1 + r·bases2>`
is the fully folded base. -/
theorem ipa_final_scalar_unique (bases1 bases2 : List G) (res1 res2 : G) (r : F) (us : List (F × F))
    (lrs : List (G × G)) (s s' : F) (hl : lrs.length = us.length) (h1 : bases1.length = 2 ^ us.length)
    (h2 : bases2.length = 2 ^ us.length)
    (ha : verifierSum bases1 bases2 res1 res2 r us { lrs := lrs, s := s } = 0)
    (hb : verifierSum bases1 bases2 res1 res2 r us { lrs := lrs, s := s' } = 0) :
    (s - s') • innerProduct (coeffs us) (fold (1 : F) bases1 r bases2) = 0 := by
  rw [verifierSum_split _ _ _ _ _ _ _ hl h1 h2] at ha hb
  simp only at ha hb
  rw [← add_assoc (innerProduct (ipaScalars _ us) bases1), innerProduct_batch r _ _ _ (by rw [h1, h2]),
    ipaScalars_eq_coeffs, innerProduct_map_mul_left] at ha hb
  have h := ha.trans hb.symm
  have h' : (-s) • innerProduct (coeffs us) (fold (1 : F) bases1 r bases2) =
      (-s') • innerProduct (coeffs us) (fold (1 : F) bases1 r bases2) := by
    have := add_left_cancel h
    exact add_right_cancel this
  rw [sub_smul]
  simp only [neg_smul, neg_inj] at h'
  rw [h', sub_self]

/-- Binding of a single `L_j` at fixed challenges: two proofs that differ only in the left
element of round `j` (whose challenge is invertible) cannot both be accepted. -/
theorem ipa_L_unique (bases1 bases2 : List G) (res1 res2 : G) (r : F)
    (upre upost : List (F × F)) (u ui : F) (hu : u * ui = 1)
    (pre post : List (G × G)) (L L' R : G) (s : F)
    (hpre : pre.length = upre.length) (hpost : post.length = upost.length)
    (h1 : bases1.length = 2 ^ (upre ++ (u, ui) :: upost).length)
    (h2 : bases2.length = 2 ^ (upre ++ (u, ui) :: upost).length)
    (ha : verifierSum bases1 bases2 res1 res2 r (upre ++ (u, ui) :: upost)
      { lrs := pre ++ (L, R) :: post, s := s } = 0)
    (hb : verifierSum bases1 bases2 res1 res2 r (upre ++ (u, ui) :: upost)
      { lrs := pre ++ (L', R) :: post, s := s } = 0) : L = L' := by
  have hl : ∀ X : G, (pre ++ (X, R) :: post).length = (upre ++ (u, ui) :: upost).length := by
    intro X; simp [hpre, hpost]
  rw [verifierSum_split _ _ _ _ _ _ _ (hl L) h1 h2] at ha
  rw [verifierSum_split _ _ _ _ _ _ _ (hl L') h1 h2] at hb
  simp only [List.flatMap_append, List.flatMap_cons] at ha hb
  rw [innerProduct_append _ _ _ _ (by rw [length_flatMap_pair, length_flatMap_pair, hpre])] at ha hb
  simp only [List.cons_append, List.nil_append, innerProduct_cons] at ha hb
  have h := ha.trans hb.symm
  have h' : (u * u) • L = (u * u) • L' := by
    have := add_right_cancel h
    have := add_left_cancel this
    exact add_right_cancel this
  have := congrArg (fun x => (ui * ui) • x) h'
  simp only [smul_smul] at this
  have e : ui * ui * (u * u) = 1 := by
    have : ui * ui * (u * u) = (u * ui) * (u * ui) := by ring
    rw [this, hu, one_mul]
  rwa [e, one_smul, one_smul] at this

/-- Effect of altering one base at fixed challenges: replacing `bases1[i]` by `bases1[i] + δ`
changes the verifier's sum by `ipa_scalars[i] • δ = (−s · coeffAt us i) • δ`; an accepted proof
stays accepted only if that term vanishes. -/
theorem ipa_base_alteration (pre post bases2 : List G) (B δ res1 res2 : G) (r : F) (us : List (F × F))
    (pf : IpaProof F G) (hl : pf.lrs.length = us.length)
    (h1 : (pre ++ B :: post).length = 2 ^ us.length) (h2 : bases2.length = 2 ^ us.length) :
    verifierSum (pre ++ (B + δ) :: post) bases2 res1 res2 r us pf =
      verifierSum (pre ++ B :: post) bases2 res1 res2 r us pf + (-pf.s * coeffAt us pre.length) • δ := by
  have h1' : (pre ++ (B + δ) :: post).length = 2 ^ us.length := by simpa using h1
  rw [verifierSum_split _ _ _ _ _ _ _ hl h1 h2, verifierSum_split _ _ _ _ _ _ _ hl h1' h2]
  have hi : pre.length < 2 ^ us.length := by rw [← h1]; simp
  have hidx := (ipa_scalars_index pf.s us).2 pre.length hi
  have hlen := (ipa_scalars_index pf.s us).1
  -- split the scalar vector at the position of the altered base
  set c := ipaScalars pf.s us with hc
  have hsplit : c = c.take pre.length ++ c.getD pre.length 0 :: c.drop (pre.length + 1) := by
    have hlt : pre.length < c.length := by rw [hlen]; exact hi
    rw [List.getD_eq_getElem?_getD, List.getElem?_eq_getElem hlt]
    simp
  have key : ∀ X : G, innerProduct c (pre ++ X :: post) =
      innerProduct (c.take pre.length) pre + (c.getD pre.length 0 • X +
        innerProduct (c.drop (pre.length + 1)) post) := by
    intro X
    conv => lhs; rw [hsplit]
    rw [innerProduct_append _ _ _ _ (by rw [List.length_take, hlen]; omega), innerProduct_cons]
  rw [key, key, hidx]
  module

/-- Prover and verifier of the argument perform the same sequence of transcript operations
(absorb all bases and both claims, squeeze `r`, then per round two group elements and a squeeze,
then the final scalar), for every length: they derive the same challenges. -/
theorem ipa_schedule_agree (len : Nat) : proverSchedule len = verifierScheduleIpa len := by
  unfold proverSchedule verifierScheduleIpa
  congr 2
  generalize rounds len = k
  induction k with
  | zero => simp
  | succ k ih => rw [List.range_succ, List.flatMap_append, ih, List.replicate_succ']; simp

/-- Size of an IPA proof: `k` pairs of group elements and one scalar, `k = log₂ len`. -/
theorem ipa_proof_elements (len : Nat) :
    ((proverSchedule len).filter (fun e => e = .eG)).length = 2 * rounds len ∧
      ((proverSchedule len).filter (fun e => e = .eF)).length = 1 := by
  unfold proverSchedule
  generalize rounds len = k
  have h : ∀ k, ((List.range k).flatMap (fun _ => [IpaEv.eG, .eG, .sq])).filter (fun e => e = .eG) =
      List.replicate (2 * k) .eG ∧
      ((List.range k).flatMap (fun _ => [IpaEv.eG, .eG, .sq])).filter (fun e => e = .eF) = [] := by
    intro k
    induction k with
    | zero => simp
    | succ k ih =>
      rw [List.range_succ, List.flatMap_append, List.filter_append, List.filter_append, ih.1, ih.2]
      refine ⟨?_, by simp⟩
      rw [Nat.mul_succ, List.replicate_add]; simp
  simp only [List.filter_append, List.length_append, h k, List.length_replicate]
  simp

example : rounds 64 = 6 ∧ rounds 1 = 0 := by decide

end Ipa

/-! ## Part 2: the Fiat–Shamir schedule of the in-circuit verifier -/
section Gadget
open MidnightZK.C01

/-- The in-circuit verifier (`VerifierGadget::prepare` = `parse_trace` +
`verify_algebraic_constraints` + `kzg::multi_prepare`, through the transcript gadget) performs
exactly the transcript operations of the off-circuit verifier (`plonk::prepare`, model
`MidnightZK.C01.verifierSchedule`) on one proof: same kinds, same element types, same order, same
grouping of the opening queries into point sets — for every constraint-system shape the gadget
supports (single phase, rotations in `{-1,0,1}`), every number of committed instance columns
and all plain instance lengths, provided the inner circuit declares no challenge. Both verifiers
therefore derive the same challenges from the same proof bytes. -/
theorem gadget_schedule_agree (sh : Shape) (nCommitted : Nat) (lens : List Nat)
    (hs : gadgetSupported sh = true) (hch : sh.challengePhase = []) :
    gadgetSchedule sh nCommitted lens =
      verifierSchedule sh { nProofs := 1, nCommitted := nCommitted, lens := [lens] } := by
  have hphase := single_phase_of_supported sh hs
  have hinst : verifierInstances { nProofs := 1, nCommitted := nCommitted, lens := [lens] } =
      gadgetInstances nCommitted lens := by
    simp [verifierInstances, gadgetInstances, commonPoint, commonScalar]
  have hadv : verifierAdvice sh { nProofs := 1, nCommitted := nCommitted, lens := [lens] } =
      gadgetAdvice sh := by
    simp only [verifierAdvice, gadgetAdvice, phases_single sh hphase, hch, range_one_flatMap,
      List.flatMap_cons, List.flatMap_nil, List.append_nil, List.zipIdx_nil]
    have := zipIdx_flatMap_all_zero (fun c => elemG (.adviceCommit 0 c)) sh.advicePhase 0 hphase
    simp only [List.range_eq_range', readPoint]
    exact this
  have hev : verifierEvals sh { nProofs := 1, nCommitted := nCommitted, lens := [lens] } =
      gadgetEvals sh nCommitted := by
    simp [verifierEvals, gadgetEvals, readScalar]
  have hq : verifierQueries sh { nProofs := 1, nCommitted := nCommitted, lens := [lens] } =
      gadgetQueries sh nCommitted := by
    simp only [verifierQueries, gadgetQueries, range_one_flatMap]
    have := flatMap_ite_eq_filterMap (fun q : Nat × Int => decide (q.1 < nCommitted))
      (fun q => (Com.inst 0 q.1, q.2)) sh.instanceQueries
    simp only [decide_eq_true_eq] at this
    rw [this]
  unfold gadgetSchedule verifierSchedule
  rw [hinst, hadv, hev, hq]
  simp [verifierLookupsPermuted, gadgetLookupsPermuted, verifierPermCommit, gadgetPermCommit,
    verifierLookupsProduct, gadgetLookupsProduct, verifierTrash, gadgetTrash, verifierHPieces,
    gadgetHPieces, quotientPolyDegree, verifierPermEvals, gadgetPermEvals, verifierLookupEvals,
    gadgetLookupEvals, verifierTrashEvals, gadgetTrashEvals, verifierMultiOpen, gadgetMultiPrepare,
    readPoint, readScalar, commonScalar, List.range_succ]

/-- A small supported shape (3 advice columns, one lookup, rotations -1..1). -/
def exampleShape : Shape :=
  { advicePhase := [0, 0, 0], challengePhase := [], adviceQueries := [(0, 0), (1, 1), (2, -1)],
    instanceQueries := [(0, 0), (1, 0)], fixedQueries := [(0, 0)], numLookups := 1, numTrash := 1,
    permCols := 5, degree := 4, blinding := 5, k := 6 }

/-- Non-vacuity: the hypotheses hold for `exampleShape`, whose schedule has 63 events. -/
example : gadgetSupported exampleShape = true ∧ exampleShape.challengePhase = [] ∧
    (gadgetSchedule exampleShape 1 [3]).length = 63 := by decide

/-- Consequence: the in-circuit verifier consumes exactly the bytes of an accepted proof
(the off-circuit proof length of C01/C03). -/
theorem gadget_proof_len (sh : Shape) (nCommitted : Nat) (lens : List Nat)
    (hs : gadgetSupported sh = true) (hch : sh.challengePhase = []) :
    gadgetProofLen sh nCommitted lens =
      proofLen sh { nProofs := 1, nCommitted := nCommitted, lens := [lens] } := by
  unfold gadgetProofLen proofLen
  rw [gadget_schedule_agree sh nCommitted lens hs hch]

/-- The hypothesis on challenges cannot be dropped: the gadget asserts
`cs.phases().count() == 1` but never squeezes a user challenge, whereas the off-circuit verifier
squeezes the challenges of phase 0 right after the advice commitments. For a (legal) constraint
system with a challenge usable after the first phase and no later-phase column, the two
schedules differ (the gadget documents `num_challenges` as an assumption without asserting it). -/
theorem gadget_schedule_needs_no_challenge :
    gadgetSupported { exampleShape with challengePhase := [0] } = true ∧
    gadgetSchedule { exampleShape with challengePhase := [0] } 1 [3] ≠
      verifierSchedule { exampleShape with challengePhase := [0] }
        { nProofs := 1, nCommitted := 1, lens := [[3]] } := by decide

end Gadget

/-! ## Part 3: accumulators (partial MSMs with named fixed-base scalars) -/
section Accumulator
variable {F G H : Type} [CommRing F] [AddCommGroup G] [Module F G] [AddCommGroup H] [Module F H]

/-- `AssignedMsm::scale` / the `* r` of `Msm::accumulate_with_r`: scaling every scalar (variable
and fixed-base part) scales the value of the MSM. -/
theorem msm_scale_eval (fb : String → G) (r : F) (m : Msm F G) : (m.scale r).eval fb = r • m.eval fb :=
  eval_scale fb r m

/-- `accumulate_with_r` (the off-circuit `Msm` version and the in-circuit
`scale` + `add_msm` version are the same function of the data): the result evaluates to
`a + r·b`, with the fixed-base scalars merged key-wise, for all MSMs whose bases and scalars have
equal length (what `Msm::new` asserts). -/
theorem msm_accumulate_with_r_eval (fb : String → G) (a b : Msm F G) (r : F) (ha : a.WF) :
    (a.accumulateWithR b r).eval fb = a.eval fb + r • b.eval fb :=
  eval_accumulateWithR fb a b r ha

omit [AddCommGroup G] [Module F G] [AddCommGroup H] [Module F H] in
/-- The accumulation step computed off-circuit (`Msm::accumulate_with_r`: append, `* r`,
`entry(..).and_modify(+= r·v).or_insert(r·v)`) and in-circuit (`AssignedMsm::accumulate_with_r`:
`scale` then `add_msm`), and therefore `Accumulator::accumulate` and
`AssignedAccumulator::accumulate` given the same hash output, produce the same MSMs — same
bases, same scalars in the same order, same fixed-base map.
Partial with respect to DESIGN §7 `in_circuit_acc_eq_off_circuit`: only the accumulation layer is
modelled; that `VerifierGadget::prepare` computes the same accumulator as `plonk::prepare` on
every proof is established by the correspondence check (MockProver with the off-circuit
accumulator as instance), not by a theorem. -/
theorem in_circuit_acc_eq_off_circuit_partial (accs : List (Acc F G)) (r : F) :
    Acc.accumulate accs r = Acc.accumulateIn accs r ∧
      ∀ (a b : Msm F G), a.accumulateWithROff b r = a.accumulateWithR b r := by
  refine ⟨?_, fun a b => accumulateWithROff_eq a b r⟩
  cases accs with
  | nil => rfl
  | cons a t => simp [Acc.accumulate, Acc.accumulateIn, accumulateLoop_eq]

/-- `Msm::collapse` / `AssignedMsm::collapse` does not change the value. -/
theorem msm_collapse_eval (fb : String → G) (m : Msm F G) : m.collapse.eval fb = m.eval fb :=
  eval_collapse fb m

example : (Msm.accumulateWithROff (F := ℤ) (G := ℤ) ⟨[5], [2], [("a", 1)]⟩ ⟨[7], [3], [("a", 4), ("b", 1)]⟩ 10).fixed
    = [("a", 41), ("b", 10)] := by decide

/-- `Accumulator::accumulate` preserves validity: if every accumulator satisfies the invariant
`P(lhs) = Q(rhs)` for two linear maps (`P = e(·, [τ]₂)`, `Q = e(·, [1]₂)` in
`Accumulator::check`), so does the accumulated one, for every value of the hash-derived `r` and
any number of accumulators. (That an invalid member survives only for few `r` is the subject of
C15.) -/
theorem acc_accumulate_preserves_valid (P Q : G →ₗ[F] H) (fb : String → G) (accs : List (Acc F G)) (r : F)
    (acc : Acc F G) (hacc : Acc.accumulate accs r = some acc)
    (hwf : ∀ a ∈ accs, a.lhs.WF ∧ a.rhs.WF)
    (hvalid : ∀ a ∈ accs, P (a.lhs.eval fb) = Q (a.rhs.eval fb)) :
    P (acc.lhs.eval fb) = Q (acc.rhs.eval fb) := by
  cases accs with
  | nil => simp [Acc.accumulate] at hacc
  | cons a t =>
    simp only [Acc.accumulate, Option.some.injEq] at hacc
    subst hacc
    set l := t.zip ((powers r (a :: t).length).drop 1) with hl
    have hmem : ∀ o ∈ l, o.1 ∈ t := fun o ho => (List.of_mem_zip (by rw [hl] at ho; exact ho)).1
    have ha := hwf a (by simp)
    obtain ⟨e1, e2⟩ := accumulateLoop_eval fb l a ha.1 ha.2
      (fun o ho => hwf o.1 (by simp [hmem o ho]))
    rw [e1, e2, map_add, map_add, hvalid a (by simp), map_list_sum, map_list_sum, List.map_map, List.map_map]
    congr 2
    apply List.map_congr_left
    intro o ho
    simp only [Function.comp, map_smul]
    rw [hvalid o.1 (by simp [hmem o ho])]

/-- Non-vacuity: two accumulators over `ℤ` with `P = id`, `Q = 2·`. -/
example : (Acc.accumulate (F := ℤ) (G := ℤ) [⟨⟨[4], [1], []⟩, ⟨[2], [1], []⟩⟩, ⟨⟨[6], [1], []⟩, ⟨[3], [1], []⟩⟩] 5).map
    (fun a => (a.lhs.bases, a.lhs.scalars, a.rhs.bases, a.rhs.scalars)) = some ([4, 6], [1, 5], [2, 3], [1, 5]) := by
  decide

end Accumulator

section Expose
variable {F G : Type}

/-- The public-input encoding of an accumulator binds it: two accumulators of the same shape
(same numbers of bases and scalars, same fixed-base names — all fixed by the verifier circuit)
with the same `as_public_input` vector are equal, provided the point encoding is injective and
of constant length. A verifier circuit that constrains its computed accumulator to the
instance is therefore unsatisfiable for any other claimed accumulator. -/
theorem expose_acc_binds (enc : G → List F) (n : Nat) (hn : ∀ a, (enc a).length = n)
    (hinj : ∀ a b, enc a = enc b → a = b) (x y : Acc F G)
    (h1 : x.lhs.bases.length = y.lhs.bases.length) (h2 : x.lhs.scalars.length = y.lhs.scalars.length)
    (h3 : x.lhs.fixed.map (·.1) = y.lhs.fixed.map (·.1))
    (h4 : x.rhs.bases.length = y.rhs.bases.length) (h5 : x.rhs.scalars.length = y.rhs.scalars.length)
    (h6 : x.rhs.fixed.map (·.1) = y.rhs.fixed.map (·.1))
    (h : x.asPublicInput enc = y.asPublicInput enc) : x = y := by
  have fixed_eq : ∀ (a b : List (String × F)), a.map (·.1) = b.map (·.1) → a.map (·.2) = b.map (·.2) → a = b := by
    intro a
    induction a with
    | nil => intro b hb _; cases b with | nil => rfl | cons _ _ => simp at hb
    | cons p a ih =>
      intro b hb hv
      cases b with
      | nil => simp at hb
      | cons q b =>
        simp only [List.map_cons, List.cons.injEq] at hb hv
        rw [ih b hb.2 hv.2, Prod.ext hb.1 hv.1]
  simp only [Acc.asPublicInput, Msm.asPublicInput, List.append_assoc] at h
  obtain ⟨b1, r1⟩ := flatMap_enc_inj enc n hn hinj _ _ _ _ h1 h
  have r1' := List.append_inj r1 h2
  have hf1 : (x.lhs.fixed.map (·.2)).length = (y.lhs.fixed.map (·.2)).length := by
    have := congrArg List.length h3; simpa using this
  have r2 := List.append_inj r1'.2 hf1
  obtain ⟨b2, r3⟩ := flatMap_enc_inj enc n hn hinj _ _ _ _ h4 r2.2
  have r3' := List.append_inj r3 h5
  obtain ⟨⟨xb, xs, xf⟩, ⟨xb', xs', xf'⟩⟩ := x
  obtain ⟨⟨yb, ys, yf⟩, ⟨yb', ys', yf'⟩⟩ := y
  simp only at *
  rw [b1, b2, r1'.1, r3'.1, fixed_eq _ _ h3 r2.1, fixed_eq _ _ h6 r3'.2]

end Expose

end MidnightZK.C20
