import MidnightZK.Proofs.C16.Basic
/-!
# C16 — decoding and verifying untrusted bytes is total: errors, never crashes

The decoders of `Model/C16` are total functions by construction (Lean accepts only terminating
definitions and their result type is `Except Err _`): for the *model* "never panics" holds by
typing. That the Rust code follows the model (and therefore returns a value on every input) is
what the correspondence run establishes — see `checks/c16.py`. The theorems below are about *what*
is accepted: canonical encodings only, valid points only, exactly the commitment counts the
constraint system needs, column slices in range for every architecture, memory linear in the
input length.
-/
namespace MidnightZK.C16
open Gen

/-! ## Scalars -/

/-- `Fq::from_repr` (the scalar format of proofs): an accepted 32-byte string is the canonical
little-endian encoding of a value below the modulus — no second encoding of the same scalar is
accepted. -/
theorem fq_decode_canonical (a : Bytes) (v : Nat) (hwf : WF a) (h : decodeFqRepr a = .ok v) :
    v < fqR ∧ encodeFqRepr v = a := by
  unfold decodeFqRepr at h
  split at h
  · simp at h
  · next hlen =>
    simp only at h
    split at h
    · next hlt =>
      simp only [Except.ok.injEq] at h
      subst h
      refine ⟨hlt, ?_⟩
      have h32 : a.length = 32 := by simpa using hlen
      unfold encodeFqRepr
      rw [← h32]
      exact natToLe_leToNat a hwf
    · simp at h

/-- Non-vacuity: the encoding of `r − 1` is accepted, the encoding of `r` is not. -/
example : decodeFqRepr (encodeFqRepr (fqR - 1)) = .ok (fqR - 1) ∧
    decodeFqRepr (encodeFqRepr fqR) = .error .scalar := by decide +kernel

/-- Round trip of honest scalars. -/
theorem fq_decode_encode (v : Nat) (h : v < fqR) : decodeFqRepr (encodeFqRepr v) = .ok v := by
  have h256 : v < 256 ^ 32 := Nat.lt_trans h (by decide)
  unfold decodeFqRepr encodeFqRepr
  simp only [natToLeBytes_length, ne_eq, not_true_eq_false, if_false, leToNat_natToLe 32 v h256, h, if_true]

example : decodeFqRepr (encodeFqRepr 7) = .ok 7 := fq_decode_encode 7 (by decide)

/-- The Montgomery constant used by `decodeFqRaw` really inverts `2^256` modulo `r`. -/
theorem fqRInv_spec : fqRInv * 2 ^ 256 % fqR = 1 := by decide +kernel

/-- `SerdeObject::read_raw` for `Fq` (RawBytes field format): only limb vectors below the modulus
are accepted (D3 is fixed), and two accepted byte strings that denote the same field element are
the same byte string. -/
theorem fq_raw_canonical (a b : Bytes) (v : Nat) (ha : WF a) (hb : WF b)
    (h1 : decodeFqRaw a = .ok v) (h2 : decodeFqRaw b = .ok v) :
    leBytesToNat a < fqR ∧ v < fqR ∧ a = b := by
  unfold decodeFqRaw at h1 h2
  split at h1
  · simp at h1
  · next hla =>
    split at h2
    · simp at h2
    · next hlb =>
      simp only at h1 h2
      split at h1
      · next hma =>
        split at h2
        · next hmb =>
          simp only [Except.ok.injEq] at h1 h2
          refine ⟨hma, ?_, ?_⟩
          · rw [← h1]; exact Nat.mod_lt _ fqR_pos
          · -- multiply both sides by 2^256
            have key : ∀ m, m < fqR → m * fqRInv % fqR * 2 ^ 256 % fqR = m := by
              intro m hm
              rw [Nat.mod_mul_mod, Nat.mul_assoc, Nat.mul_mod, fqRInv_spec, Nat.mul_one, Nat.mod_mod,
                Nat.mod_eq_of_lt hm]
            have e : leBytesToNat a = leBytesToNat b := by
              rw [← key _ hma, ← key _ hmb, h1, h2]
            have la : a.length = 32 := by simpa using hla
            have lb : b.length = 32 := by simpa using hlb
            rw [← natToLe_leToNat a ha, ← natToLe_leToNat b hb, la, lb, e]
        · simp at h2
      · simp at h1

example : decodeFqRaw (natToLeBytes 32 fqR) = .error .scalar ∧
    decodeFqRaw (natToLeBytes 32 1) = .ok fqRInv := by decide +kernel

/-! ## G1 / G2 points -/

/-- `G1Affine::from_compressed` (Processed format, and every point of a proof): an accepted point
has canonical coordinates, lies on the curve and passed the `[r]P = O` computation. -/
theorem accepted_points_valid (a : Bytes) (x y : Nat) (h : decodeG1c a = .ok (.aff x y)) :
    x < fpP ∧ y < fpP ∧ x ≠ 0 ∧ onCurveG1 x y = true ∧ inSubgroupG1 x y = true := by
  unfold decodeG1c at h
  split at h
  · simp at h
  · split at h
    · simp at h
    · simp at h
    · next x' y' hu =>
      split at h
      · next hc =>
        simp only [Except.ok.injEq, G1Pt.aff.injEq] at h
        obtain ⟨rfl, rfl⟩ := h
        simp only [Bool.and_eq_true] at hc
        -- coordinates: unfold the blst decompression
        unfold uncompressG1 at hu
        split at hu
        · simp at hu
        · next b0 t =>
          split at hu
          · simp at hu
          · split at hu
            · split at hu <;> simp at hu
            · simp only at hu
              split at hu
              · simp at hu
              · next hx =>
                split at hu
                · simp at hu
                · next ys hs =>
                  split at hu
                  · simp at hu
                  · next hx0 =>
                    simp only [Except.ok.injEq, G1Pt.aff.injEq] at hu
                    obtain ⟨rfl, rfl⟩ := hu
                    refine ⟨by omega, ?_, hx0, hc.1, hc.2⟩
                    have := sqrtFp_lt hs
                    split
                    · exact Nat.mod_lt _ fpP_pos
                    · exact this
      · simp at h

/-- Non-vacuity: the compressed generator is accepted; the same `x` with a small non-subgroup
companion (`x = 4`) is rejected although it is on the curve. -/
example : (decodeG1c (natToBe 48 (2 ^ 383 + 0x17f1d3a73197d7942695638c4fa9ac0fc3688c4f9774b905a14e3a3f171bac586c55e83ff97a1aeffb3af00adb22c6bb))).isOk = true := by
  decide +kernel

/-- `G1Affine::from_uncompressed` (RawBytes format): an accepted point has canonical coordinates
and lies on the curve (no subgroup check in this format — as the property states). -/
theorem accepted_points_valid_uncompressed (a : Bytes) (x y : Nat) (h : decodeG1u a = .ok (.aff x y)) :
    onCurveG1 x y = true := by
  unfold decodeG1u at h
  split at h
  · simp at h
  · split at h
    · simp at h
    · simp at h
    · split at h
      · next hc =>
        simp only [Except.ok.injEq, G1Pt.aff.injEq] at h
        obtain ⟨rfl, rfl⟩ := h
        exact hc
      · simp at h

/-- The same for G2 (`ParamsVerifierKZG`), compressed form. -/
theorem accepted_points_valid_g2 (a : Bytes) (x y : Fp2) (h : decodeG2c a = .ok (.aff x y)) :
    onCurveG2 x y = true ∧ inSubgroupG2 x y = true := by
  unfold decodeG2c at h
  split at h
  · simp at h
  · split at h
    · simp at h
    · simp at h
    · split at h
      · next hc =>
        simp only [Except.ok.injEq, G2Pt.aff.injEq] at h
        obtain ⟨rfl, rfl⟩ := h
        simpa using hc
      · simp at h

/-! ## Verifying key -/

/-- `vk_counts_match_cs` — a key accepted by `VerifyingKey::read_from_cs` has exactly the number
of fixed commitments and of permutation commitments the constraint system needs (the condition
whose absence was D6(b): `verify` indexes `fixed_commitments[column.index()]`), its `k` is at most
the two-adicity and its extended domain exists (the follow-up of D6: `EvaluationDomain::new`
asserts `extended_k ≤ S`). For every point decoder, format and input. -/
theorem vk_counts_match_cs {Pt : Type} (dec : Bytes → Except Err Pt) (size : Nat) (cs : CsShape)
    (bs rest : Bytes) (vk : VKey Pt) (h : decodeVKWith dec size cs bs = .ok (vk, rest)) :
    vk.fixed.length = cs.nFixed ∧ vk.perm.length = cs.nPerm ∧ vk.k ≤ fqS ∧
      extendedK vk.k cs.degree ≤ fqS := by
  unfold decodeVKWith at h
  split at h
  · simp at h
  · split at h
    · simp at h
    · split at h
      · simp at h
      · simp only at h
        split at h
        · simp at h
        · next hk =>
          split at h
          · simp at h
          · next hek =>
            split at h
            · simp at h
            · split at h
              · simp at h
              · split at h
                · simp at h
                · next fixed r3 hf =>
                  split at h
                  · simp at h
                  · next perm r4 hp =>
                    simp only [Except.ok.injEq, Prod.mk.injEq] at h
                    obtain ⟨rfl, _⟩ := h
                    exact ⟨readPoints_length hf, readPoints_length hp, Nat.le_of_not_gt hk, Nat.le_of_not_gt hek⟩

/-- Non-vacuity: a header with a count that differs from the constraint system is rejected
before any commitment is read, whatever follows. -/
example : decodeVKWith (fun _ => Except.ok ()) 48 ⟨17, 8, 5⟩ ([3, 4, 16, 0, 0, 0] ++ List.replicate 2000 0)
    = .error .nFixed := by decide +kernel

example : (decodeVKWith (fun _ => Except.ok ()) 48 ⟨17, 8, 5⟩ ([3, 4, 17, 0, 0, 0] ++ List.replicate 1200 0)).isOk
    = true := by decide +kernel

/-- `k = 31` and `k = 32` are within the two-adicity but have no extended domain for a degree-5
constraint system: rejected (they made `EvaluationDomain::new` panic before the fix). -/
example : decodeVKWith (fun _ => Except.ok ()) 48 ⟨17, 8, 5⟩ ([3, 31, 17, 0, 0, 0] ++ List.replicate 1200 0)
    = .error .kExtended ∧
    decodeVKWith (fun _ => Except.ok ()) 48 ⟨17, 8, 5⟩ ([3, 33, 17, 0, 0, 0] ++ List.replicate 1200 0)
    = .error .kRange := by decide +kernel

/-- `alloc_linear` — the commitments `read_from_cs` holds at its peak (whether it ends with a key
or with an error) were each paid for by `size` input bytes: the decoder's memory is linear in the
length of its input, never in a length field. -/
theorem alloc_linear {Pt : Type} (dec : Bytes → Except Err Pt) (size n : Nat) (bs : Bytes) :
    pointsRead dec size n bs * size ≤ bs.length := (pointsRead_le n bs).1

example : pointsRead (fun _ => (Except.ok () : Except Err Unit)) 48 1000000 (List.replicate 100 0) = 2 := by
  decide +kernel

/-- The input consumed by an accepted key is exactly the 6 header bytes plus one chunk per
commitment: trailing bytes are handed back untouched. -/
theorem vk_decode_consumed {Pt : Type} (dec : Bytes → Except Err Pt) (size : Nat) (cs : CsShape)
    (bs rest : Bytes) (vk : VKey Pt) (h : decodeVKWith dec size cs bs = .ok (vk, rest)) :
    bs.length = 6 + (cs.nFixed + cs.nPerm) * size + rest.length := by
  unfold decodeVKWith at h
  split at h
  · simp at h
  · next v r0 h0 =>
    split at h
    · simp at h
    · split at h
      · simp at h
      · next kb r1 h1 =>
        simp only at h
        split at h
        · simp at h
        · split at h
          · simp at h
          · split at h
            · simp at h
            · next nb r2 h2 =>
              split at h
              · simp at h
              · split at h
                · simp at h
                · next fixed r3 hf =>
                  split at h
                  · simp at h
                  · next perm r4 hp =>
                    simp only [Except.ok.injEq, Prod.mk.injEq] at h
                    obtain ⟨_, rfl⟩ := h
                    have a0 := readN_ok h0
                    have a1 := readN_ok h1
                    have a2 := readN_ok h2
                    have a3 := readPoints_consumed hf
                    have a4 := readPoints_consumed hp
                    rw [a0.1, List.length_append, a0.2, a1.1, List.length_append, a1.2, a2.1,
                      List.length_append, a2.2, a3, a4, Nat.add_mul]
                    omega

/-- `decode_canonical` (key level) — if the point decoder accepts only canonical encodings, the
key decoder accepts only the canonical encoding of the key it returns, followed by the bytes it
hands back. -/
theorem vk_decode_canonical {Pt : Type} (dec : Bytes → Except Err Pt) (enc : Pt → Bytes) (size : Nat)
    (cs : CsShape) (hcan : ∀ a p, dec a = .ok p → enc p = a)
    (bs rest : Bytes) (vk : VKey Pt) (hwf : WF bs) (h : decodeVKWith dec size cs bs = .ok (vk, rest)) :
    bs = encodeVKWith enc vk ++ rest := by
  have hcnt := vk_counts_match_cs dec size cs bs rest vk h
  unfold decodeVKWith at h
  split at h
  · simp at h
  · next v r0 h0 =>
    split at h
    · simp at h
    · next hv =>
      split at h
      · simp at h
      · next kb r1 h1 =>
        simp only at h
        split at h
        · simp at h
        · split at h
          · simp at h
          · split at h
            · simp at h
            · next nb r2 h2 =>
              split at h
              · simp at h
              · next hnb =>
                split at h
                · simp at h
                · next fixed r3 hf =>
                  split at h
                  · simp at h
                  · next perm r4 hp =>
                    simp only [Except.ok.injEq, Prod.mk.injEq] at h
                    obtain ⟨rfl, rfl⟩ := h
                    have a0 := readN_ok h0
                    have a1 := readN_ok h1
                    have a2 := readN_ok h2
                    have a3 := readPoints_canonical hcan hf
                    have a4 := readPoints_canonical hcan hp
                    have w0 : WF v ∧ WF r0 := by rw [a0.1] at hwf; exact WF_append.mp hwf
                    have w1 : WF kb ∧ WF r1 := by rw [a1.1] at w0; exact WF_append.mp w0.2
                    have w2 : WF nb ∧ WF r2 := by rw [a2.1] at w1; exact WF_append.mp w1.2
                    -- single bytes
                    have hvb : v = [vkVersion] := by
                      match v, a0.2, hv with
                      | [b], _, hv => simp [leBytesToNat] at hv; simp [hv]
                    have hkb : kb = [leBytesToNat kb] := by
                      match kb, a1.2 with
                      | [b], _ => simp [leBytesToNat]
                    have hnb' : nb = natToLeBytes 4 fixed.length := by
                      have := natToLe_leToNat nb w2.1
                      rw [a2.2] at this
                      rw [← this, hcnt.1]
                      congr 1
                      simpa using hnb
                    simp only [encodeVKWith]
                    rw [a0.1, a1.1, a2.1, a3, a4, hvb, ← hnb']
                    conv => lhs; rw [hkb]
                    simp [List.append_assoc]

/-- `decode_encode` (key level) — whatever was written by `VerifyingKey::write` for a key with
the counts of the constraint system reads back to the same key and leaves the following bytes. -/
theorem vk_decode_encode {Pt : Type} (dec : Bytes → Except Err Pt) (enc : Pt → Bytes) (size : Nat)
    (cs : CsShape) (vk : VKey Pt) (rest : Bytes)
    (hdec : ∀ p ∈ vk.fixed ++ vk.perm, dec (enc p) = .ok p)
    (hlen : ∀ p ∈ vk.fixed ++ vk.perm, (enc p).length = size)
    (hnf : vk.fixed.length = cs.nFixed) (hnp : vk.perm.length = cs.nPerm) (hn : cs.nFixed < 256 ^ 4)
    (hk : vk.k ≤ fqS) (hek : extendedK vk.k cs.degree ≤ fqS) :
    decodeVKWith dec size cs (encodeVKWith enc vk ++ rest) = .ok (vk, rest) := by
  have e1 : readN 1 (encodeVKWith enc vk ++ rest) =
      .ok ([vkVersion], [vk.k] ++ natToLeBytes 4 vk.fixed.length ++ vk.fixed.flatMap enc ++ vk.perm.flatMap enc ++ rest) := by
    simp [encodeVKWith, readN]
  have e2 : readN 1 ([vk.k] ++ natToLeBytes 4 vk.fixed.length ++ vk.fixed.flatMap enc ++ vk.perm.flatMap enc ++ rest) =
      .ok ([vk.k], natToLeBytes 4 vk.fixed.length ++ vk.fixed.flatMap enc ++ vk.perm.flatMap enc ++ rest) := by
    simp [readN]
  have e3 : readN 4 (natToLeBytes 4 vk.fixed.length ++ vk.fixed.flatMap enc ++ vk.perm.flatMap enc ++ rest) =
      .ok (natToLeBytes 4 vk.fixed.length, vk.fixed.flatMap enc ++ vk.perm.flatMap enc ++ rest) := by
    have := readN_append (natToLeBytes 4 vk.fixed.length) (vk.fixed.flatMap enc ++ vk.perm.flatMap enc ++ rest)
    rw [natToLeBytes_length] at this
    simpa [List.append_assoc] using this
  have e4 := readPoints_encode (dec := dec) (enc := enc) (size := size) vk.fixed (vk.perm.flatMap enc ++ rest)
    (fun p hp => hdec p (by simp [hp])) (fun p hp => hlen p (by simp [hp]))
  have e5 := readPoints_encode (dec := dec) (enc := enc) (size := size) vk.perm rest
    (fun p hp => hdec p (by simp [hp])) (fun p hp => hlen p (by simp [hp]))
  rw [hnf] at e4
  rw [hnp] at e5
  have hle : leBytesToNat (natToLeBytes 4 vk.fixed.length) = cs.nFixed := by
    rw [hnf]; exact leToNat_natToLe 4 _ hn
  have hv1 : leBytesToNat [vkVersion] = vkVersion := by simp [leBytesToNat]
  have hk1 : leBytesToNat [vk.k] = vk.k := by simp [leBytesToNat]
  have nk : ¬ (vk.k > fqS) := Nat.not_lt.mpr hk
  have nek : ¬ (extendedK vk.k cs.degree > fqS) := Nat.not_lt.mpr hek
  unfold decodeVKWith
  simp only [e1, hv1, ne_eq, not_true_eq_false, if_false, e2, hk1, nk, nek, e3, hle]
  simp only [List.append_assoc, e4, e5]

/-! ## Architecture descriptor and `ZkStdLib::configure` -/

/-- `arch_fields_in_range` (advice columns) — for EVERY architecture and every value of the
chips' column-count constants, each slice or index `ZkStdLib::configure` takes from
`advice_columns` (list regenerated from the source) lies within the `nb_advice_cols` columns it
created. The second entry is the D6(a) condition: `advice_columns[1..=nr_pow2range_cols]` needs
`nr_pow2range_cols + 1` columns. -/
theorem arch_fields_in_range (c : ColConsts) (a : Arch) :
    ∀ u ∈ adviceUses c a, u.1 = true → u.2 ≤ nbAdviceCols c a := by
  simp only [adviceUses, List.forall_mem_cons, nbAdviceCols]
  repeat' apply And.intro
  all_goals
    first
    | (intro hg; refine le_maxEntries ?_ hg; simp [adviceEntries]; done)
    | (intro _; refine le_maxEntries (g := true) ?_ rfl; simp [adviceEntries]; done)
    | (intro _
       refine Nat.le_trans (m := a.nrPow2rangeCols + 1) (by omega)
         (le_maxEntries (g := true) (n := a.nrPow2rangeCols + 1) ?_ rfl)
       simp [adviceEntries]; done)
    | (simp; done)

/-- `arch_fields_in_range` (fixed columns). -/
theorem arch_fixed_fields_in_range (c : ColConsts) (a : Arch) :
    ∀ u ∈ fixedUses c a, u.1 = true → u.2 ≤ nbFixedCols c a := by
  simp only [fixedUses, List.forall_mem_cons, nbFixedCols]
  repeat' apply And.intro
  all_goals
    first
    | (intro hg; refine le_maxEntries ?_ hg; simp [fixedEntries]; done)
    | (intro _; refine le_maxEntries (g := true) ?_ rfl; simp [fixedEntries]; done)
    | (simp; done)

/-- Non-vacuity: with the shipped constants, a header asking for 200 pow2range columns would need
201 advice columns — and `configure` creates that many (`nb_advice_cols` accounts for it). -/
example : nbAdviceCols (ColConsts.ofList [5, 9, 8, 8, 8, 9, 15, 4, 3, 10, 9, 9, 8, 2, 2, 8])
    (Arch.ofBools [] 200) = 201 := by decide

/-- `ZkStdLibArch::read` accepts only what `ZkStdLibArch::write` produces: version word 1, every
flag byte 0 or 1, and a pow2range count `Pow2RangeChip::configure` accepts (the follow-up of
D6(a)); the accepted bytes are the canonical encoding of the decoded architecture. -/
theorem arch_decode_canonical (c : ColConsts) (bs rest : Bytes) (a : Arch) (hwf : WF bs)
    (h : decodeArch c bs = .ok (a, rest)) :
    bs = encodeArch a ++ rest ∧ a.nrPow2rangeCols < pow2Bound c := by
  unfold decodeArch at h
  split at h
  · simp at h
  · next v r hv =>
    split at h
    · simp at h
    · next hver =>
      split at h
      · simp at h
      · next bools r1 hb =>
        split at h
        · simp at h
        · next nr r2 =>
          split at h
          · simp at h
          · next hnr =>
            simp only [Except.ok.injEq, Prod.mk.injEq] at h
            obtain ⟨rfl, rfl⟩ := h
            have a0 := readN_ok hv
            refine ⟨?_, by simpa [Arch.ofBools] using hnr⟩
            -- the eleven flag bytes
            have hbools : ∀ (n : Nat) (bs : Bytes) (l : List Bool) (r : Bytes),
                decodeBools n bs = .ok (l, r) → l.length = n ∧ bs = l.map (fun b => if b then 1 else 0) ++ r := by
              intro n
              induction n with
              | zero =>
                intro bs l r h
                simp only [decodeBools, Except.ok.injEq, Prod.mk.injEq] at h
                obtain ⟨rfl, rfl⟩ := h
                simp
              | succ k ih =>
                intro bs l r h
                simp only [decodeBools] at h
                split at h
                · simp at h
                · next b r' hb1 =>
                  split at h
                  · simp at h
                  · next l' r'' hrec =>
                    simp only [Except.ok.injEq, Prod.mk.injEq] at h
                    obtain ⟨rfl, rfl⟩ := h
                    have := ih _ _ _ hrec
                    unfold decodeBool at hb1
                    split at hb1
                    · simp at hb1
                    · next b0 t =>
                      split at hb1
                      · next h0 =>
                        simp only [Except.ok.injEq, Prod.mk.injEq] at hb1
                        obtain ⟨rfl, rfl⟩ := hb1
                        simp [this.1, h0, this.2]
                      · split at hb1
                        · next h1 =>
                          simp only [Except.ok.injEq, Prod.mk.injEq] at hb1
                          obtain ⟨rfl, rfl⟩ := hb1
                          simp [this.1, h1, this.2]
                        · simp at hb1
            obtain ⟨hl, hr⟩ := hbools 11 r bools (nr :: r2) hb
            have wv : WF v := by rw [a0.1] at hwf; exact (WF_append.mp hwf).1
            have hv4 : v = natToLeBytes 4 zkStdVersion := by
              have := natToLe_leToNat v wv
              rw [a0.2] at this
              rw [← this]
              congr 1
              simpa using hver
            have hbl : (Arch.ofBools bools nr).bools = bools := by
              match bools, hl with
              | [_, _, _, _, _, _, _, _, _, _, _], _ => rfl
            simp only [encodeArch, hbl]
            rw [a0.1, hr, hv4]
            simp [Arch.ofBools, List.append_assoc]

end MidnightZK.C16
