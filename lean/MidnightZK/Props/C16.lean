import MidnightZK.Proofs.C16.Basic
import MidnightZK.Proofs.C16.Compile
/-!
# C16 — decoding and verifying untrusted bytes is total: errors, never crashes

The decoders of `Model/C16` are total functions by construction (Lean accepts only terminating
definitions and their result type is `Except Err _`): for the *model* "never panics" holds by
typing. That the Rust code follows the model (and therefore returns a value on every input) is
what the correspondence run establishes — see `checks/c16.py`. The theorems below are about *what*
is accepted: canonical encodings only, valid points only, exactly the commitment counts the
constraint system needs, column slices in range for every architecture, memory linear in the
input length.
-/
namespace MidnightZK.C16
open Gen

/-! ## Scalars -/

/-- `Fq::from_repr` (the scalar format of proofs): an accepted 32-byte string is the canonical
little-endian encoding of a value below the modulus — no second encoding of the same scalar is
accepted. -/
theorem fq_decode_canonical (a : Bytes) (v : Nat) (hwf : WF a) (h : decodeFqRepr a = .ok v) :
    v < fqR ∧ encodeFqRepr v = a := by
  unfold decodeFqRepr at h
  split at h
  · simp at h
  · next hlen =>
    simp only at h
    split at h
    · next hlt =>
      simp only [Except.ok.injEq] at h
      subst h
      refine ⟨hlt, ?_⟩
      have h32 : a.length = 32 := by simpa using hlen
      unfold encodeFqRepr
      rw [← h32]
      exact natToLe_leToNat a hwf
    · simp at h

/-- Non-vacuity: the encoding of `r − 1` is accepted, the encoding of `r` is not. -/
example : decodeFqRepr (encodeFqRepr (fqR - 1)) = .ok (fqR - 1) ∧
    decodeFqRepr (encodeFqRepr fqR) = .error .scalar := by decide +kernel

/-- Round trip of honest scalars. -/
theorem fq_decode_encode (v : Nat) (h : v < fqR) : decodeFqRepr (encodeFqRepr v) = .ok v := by
  have h256 : v < 256 ^ 32 := Nat.lt_trans h (by decide)
  unfold decodeFqRepr encodeFqRepr
  simp only [natToLeBytes_length, ne_eq, not_true_eq_false, if_false, leToNat_natToLe 32 v h256, h, if_true]

example : decodeFqRepr (encodeFqRepr 7) = .ok 7 := fq_decode_encode 7 (by decide)

/-- The Montgomery constant used by `decodeFqRaw` really inverts `2^256` modulo `r`. -/
theorem fqRInv_spec : fqRInv * 2 ^ 256 % fqR = 1 := by decide +kernel

/-- `SerdeObject::read_raw` for `Fq` (RawBytes field format): only limb vectors below the modulus
are accepted (D3 is fixed), and two accepted byte strings that denote the same field element are
the same byte string. -/
theorem fq_raw_canonical (a b : Bytes) (v : Nat) (ha : WF a) (hb : WF b)
    (h1 : decodeFqRaw a = .ok v) (h2 : decodeFqRaw b = .ok v) :
    leBytesToNat a < fqR ∧ v < fqR ∧ a = b := by
  unfold decodeFqRaw at h1 h2
  split at h1
  · simp at h1
  · next hla =>
    split at h2
    · simp at h2
    · next hlb =>
      simp only at h1 h2
      split at h1
      · next hma =>
        split at h2
        · next hmb =>
          simp only [Except.ok.injEq] at h1 h2
          refine ⟨hma, ?_, ?_⟩
          · rw [← h1]; exact Nat.mod_lt _ fqR_pos
          · -- multiply both sides by 2^256
            have key : ∀ m, m < fqR → m * fqRInv % fqR * 2 ^ 256 % fqR = m := by
              intro m hm
              rw [Nat.mod_mul_mod, Nat.mul_assoc, Nat.mul_mod, fqRInv_spec, Nat.mul_one, Nat.mod_mod,
                Nat.mod_eq_of_lt hm]
            have e : leBytesToNat a = leBytesToNat b := by
              rw [← key _ hma, ← key _ hmb, h1, h2]
            have la : a.length = 32 := by simpa using hla
            have lb : b.length = 32 := by simpa using hlb
            rw [← natToLe_leToNat a ha, ← natToLe_leToNat b hb, la, lb, e]
        · simp at h2
      · simp at h1

example : decodeFqRaw (natToLeBytes 32 fqR) = .error .scalar ∧
    decodeFqRaw (natToLeBytes 32 1) = .ok fqRInv := by decide +kernel

/-! ## G1 / G2 points -/

/-- `G1Affine::from_compressed` (Processed format, and every point of a proof): an accepted point
has canonical coordinates, lies on the curve and passed the `[r]P = O` computation. -/
theorem accepted_points_valid (a : Bytes) (x y : Nat) (h : decodeG1c a = .ok (.aff x y)) :
    x < fpP ∧ y < fpP ∧ x ≠ 0 ∧ onCurveG1 x y = true ∧ inSubgroupG1 x y = true := by
  unfold decodeG1c at h
  split at h
  · simp at h
  · split at h
    · simp at h
    · simp at h
    · next x' y' hu =>
      split at h
      · next hc =>
        simp only [Except.ok.injEq, G1Pt.aff.injEq] at h
        obtain ⟨rfl, rfl⟩ := h
        simp only [Bool.and_eq_true] at hc
        -- coordinates: unfold the blst decompression
        unfold uncompressG1 at hu
        split at hu
        · simp at hu
        · next b0 t =>
          split at hu
          · simp at hu
          · split at hu
            · split at hu <;> simp at hu
            · simp only at hu
              split at hu
              · simp at hu
              · next hx =>
                split at hu
                · simp at hu
                · next ys hs =>
                  split at hu
                  · simp at hu
                  · next hx0 =>
                    simp only [Except.ok.injEq, G1Pt.aff.injEq] at hu
                    obtain ⟨rfl, rfl⟩ := hu
                    refine ⟨by omega, ?_, hx0, hc.1, hc.2⟩
                    have := sqrtFp_lt hs
                    split
                    · exact Nat.mod_lt _ fpP_pos
                    · exact this
      · simp at h

/-- Non-vacuity: the compressed generator is accepted; the same `x` with a small non-subgroup
companion (`x = 4`) is rejected although it is on the curve. -/
example : (decodeG1c (natToBe 48 (2 ^ 383 + 0x17f1d3a73197d7942695638c4fa9ac0fc3688c4f9774b905a14e3a3f171bac586c55e83ff97a1aeffb3af00adb22c6bb))).isOk = true := by
  decide +kernel

/-- `G1Affine::from_uncompressed` (RawBytes format): an accepted point has canonical coordinates
and lies on the curve (no subgroup check in this format — as the property states). -/
theorem accepted_points_valid_uncompressed (a : Bytes) (x y : Nat) (h : decodeG1u a = .ok (.aff x y)) :
    onCurveG1 x y = true := by
  unfold decodeG1u at h
  split at h
  · simp at h
  · split at h
    · simp at h
    · split at h
      · simp at h
      · simp at h
      · split at h
        · next hc =>
          simp only [Except.ok.injEq, G1Pt.aff.injEq] at h
          obtain ⟨rfl, rfl⟩ := h
          exact hc
        · simp at h

/-- The same for G2 (`ParamsVerifierKZG`), compressed form. -/
theorem accepted_points_valid_g2 (a : Bytes) (x y : Fp2) (h : decodeG2c a = .ok (.aff x y)) :
    onCurveG2 x y = true ∧ inSubgroupG2 x y = true := by
  unfold decodeG2c at h
  split at h
  · simp at h
  · split at h
    · simp at h
    · simp at h
    · split at h
      · next hc =>
        simp only [Except.ok.injEq, G2Pt.aff.injEq] at h
        obtain ⟨rfl, rfl⟩ := h
        simpa using hc
      · simp at h

/-! ## Verifying key -/

/-- `vk_counts_match_cs` — a key accepted by `VerifyingKey::read_from_cs` has exactly the number
of fixed commitments and of permutation commitments the constraint system needs (the condition
whose absence was D6(b): `verify` indexes `fixed_commitments[column.index()]`), its `k` is at most
the two-adicity and its extended domain exists (the follow-up of D6: `EvaluationDomain::new`
asserts `extended_k ≤ S`). For every point decoder, format and input. -/
theorem vk_counts_match_cs {Pt : Type} (dec : Bytes → Except Err Pt) (size : Nat) (cs : CsShape)
    (bs rest : Bytes) (vk : VKey Pt) (h : decodeVKWith dec size cs bs = .ok (vk, rest)) :
    vk.fixed.length = cs.nFixed ∧ vk.perm.length = cs.nPerm ∧ vk.k ≤ fqS ∧
      extendedK vk.k cs.degree ≤ fqS := by
  unfold decodeVKWith at h
  split at h
  · simp at h
  · split at h
    · simp at h
    · split at h
      · simp at h
      · simp only at h
        split at h
        · simp at h
        · next hk =>
          split at h
          · simp at h
          · next hek =>
            split at h
            · simp at h
            · split at h
              · simp at h
              · split at h
                · simp at h
                · next fixed r3 hf =>
                  split at h
                  · simp at h
                  · next perm r4 hp =>
                    simp only [Except.ok.injEq, Prod.mk.injEq] at h
                    obtain ⟨rfl, _⟩ := h
                    exact ⟨readPoints_length hf, readPoints_length hp, Nat.le_of_not_gt hk, Nat.le_of_not_gt hek⟩

/-- Non-vacuity: a header with a count that differs from the constraint system is rejected
before any commitment is read, whatever follows. -/
example : decodeVKWith (fun _ => Except.ok ()) 48 ⟨17, 8, 5⟩ ([3, 4, 16, 0, 0, 0] ++ List.replicate 2000 0)
    = .error .nFixed := by decide +kernel

example : (decodeVKWith (fun _ => Except.ok ()) 48 ⟨17, 8, 5⟩ ([3, 4, 17, 0, 0, 0] ++ List.replicate 1200 0)).isOk
    = true := by decide +kernel

/-- `k = 31` and `k = 32` are within the two-adicity but have no extended domain for a degree-5
constraint system: rejected (they made `EvaluationDomain::new` panic before the fix). -/
example : decodeVKWith (fun _ => Except.ok ()) 48 ⟨17, 8, 5⟩ ([3, 31, 17, 0, 0, 0] ++ List.replicate 1200 0)
    = .error .kExtended ∧
    decodeVKWith (fun _ => Except.ok ()) 48 ⟨17, 8, 5⟩ ([3, 33, 17, 0, 0, 0] ++ List.replicate 1200 0)
    = .error .kRange := by decide +kernel

/-- `alloc_linear` — the commitments `read_from_cs` holds at its peak (whether it ends with a key
or with an error) were each paid for by `size` input bytes: the decoder's memory is linear in the
length of its input, never in a length field. -/
theorem alloc_linear {Pt : Type} (dec : Bytes → Except Err Pt) (size n : Nat) (bs : Bytes) :
    pointsRead dec size n bs * size ≤ bs.length := (pointsRead_le n bs).1

example : pointsRead (fun _ => (Except.ok () : Except Err Unit)) 48 1000000 (List.replicate 100 0) = 2 := by
  decide +kernel

/-- The input consumed by an accepted key is exactly the 6 header bytes plus one chunk per
commitment: trailing bytes are handed back untouched. -/
theorem vk_decode_consumed {Pt : Type} (dec : Bytes → Except Err Pt) (size : Nat) (cs : CsShape)
    (bs rest : Bytes) (vk : VKey Pt) (h : decodeVKWith dec size cs bs = .ok (vk, rest)) :
    bs.length = 6 + (cs.nFixed + cs.nPerm) * size + rest.length := by
  unfold decodeVKWith at h
  split at h
  · simp at h
  · next v r0 h0 =>
    split at h
    · simp at h
    · split at h
      · simp at h
      · next kb r1 h1 =>
        simp only at h
        split at h
        · simp at h
        · split at h
          · simp at h
          · split at h
            · simp at h
            · next nb r2 h2 =>
              split at h
              · simp at h
              · split at h
                · simp at h
                · next fixed r3 hf =>
                  split at h
                  · simp at h
                  · next perm r4 hp =>
                    simp only [Except.ok.injEq, Prod.mk.injEq] at h
                    obtain ⟨_, rfl⟩ := h
                    have a0 := readN_ok h0
                    have a1 := readN_ok h1
                    have a2 := readN_ok h2
                    have a3 := readPoints_consumed hf
                    have a4 := readPoints_consumed hp
                    rw [a0.1, List.length_append, a0.2, a1.1, List.length_append, a1.2, a2.1,
                      List.length_append, a2.2, a3, a4, Nat.add_mul]
                    omega

/-- `decode_canonical` (key level) — if the point decoder accepts only canonical encodings, the
key decoder accepts only the canonical encoding of the key it returns, followed by the bytes it
hands back. -/
theorem vk_decode_canonical {Pt : Type} (dec : Bytes → Except Err Pt) (enc : Pt → Bytes) (size : Nat)
    (cs : CsShape) (hcan : ∀ a p, WF a → dec a = .ok p → enc p = a)
    (bs rest : Bytes) (vk : VKey Pt) (hwf : WF bs) (h : decodeVKWith dec size cs bs = .ok (vk, rest)) :
    bs = encodeVKWith enc vk ++ rest := by
  have hcnt := vk_counts_match_cs dec size cs bs rest vk h
  unfold decodeVKWith at h
  split at h
  · simp at h
  · next v r0 h0 =>
    split at h
    · simp at h
    · next hv =>
      split at h
      · simp at h
      · next kb r1 h1 =>
        simp only at h
        split at h
        · simp at h
        · split at h
          · simp at h
          · split at h
            · simp at h
            · next nb r2 h2 =>
              split at h
              · simp at h
              · next hnb =>
                split at h
                · simp at h
                · next fixed r3 hf =>
                  split at h
                  · simp at h
                  · next perm r4 hp =>
                    simp only [Except.ok.injEq, Prod.mk.injEq] at h
                    obtain ⟨rfl, rfl⟩ := h
                    have a0 := readN_ok h0
                    have a1 := readN_ok h1
                    have a2 := readN_ok h2
                    have w0 : WF v ∧ WF r0 := by rw [a0.1] at hwf; exact WF_append.mp hwf
                    have w1 : WF kb ∧ WF r1 := by rw [a1.1] at w0; exact WF_append.mp w0.2
                    have w2 : WF nb ∧ WF r2 := by rw [a2.1] at w1; exact WF_append.mp w1.2
                    have a3 := readPoints_canonical hcan w2.2 hf
                    have w3 : WF r3 := by
                      rw [a3] at w2; exact (WF_append.mp w2.2).2
                    have a4 := readPoints_canonical hcan w3 hp
                    -- single bytes
                    have hvb : v = [vkVersion] := by
                      match v, a0.2, hv with
                      | [b], _, hv => simp [leBytesToNat] at hv; simp [hv]
                    have hkb : kb = [leBytesToNat kb] := by
                      match kb, a1.2 with
                      | [b], _ => simp [leBytesToNat]
                    have hnb' : nb = natToLeBytes 4 fixed.length := by
                      have := natToLe_leToNat nb w2.1
                      rw [a2.2] at this
                      rw [← this, hcnt.1]
                      congr 1
                      simpa using hnb
                    simp only [encodeVKWith]
                    rw [a0.1, a1.1, a2.1, a3, a4, hvb, ← hnb']
                    conv => lhs; rw [hkb]
                    simp [List.append_assoc]

/-- `decode_encode` (key level) — whatever was written by `VerifyingKey::write` for a key with
the counts of the constraint system reads back to the same key and leaves the following bytes. -/
theorem vk_decode_encode {Pt : Type} (dec : Bytes → Except Err Pt) (enc : Pt → Bytes) (size : Nat)
    (cs : CsShape) (vk : VKey Pt) (rest : Bytes)
    (hdec : ∀ p ∈ vk.fixed ++ vk.perm, dec (enc p) = .ok p)
    (hlen : ∀ p ∈ vk.fixed ++ vk.perm, (enc p).length = size)
    (hnf : vk.fixed.length = cs.nFixed) (hnp : vk.perm.length = cs.nPerm) (hn : cs.nFixed < 256 ^ 4)
    (hk : vk.k ≤ fqS) (hek : extendedK vk.k cs.degree ≤ fqS) :
    decodeVKWith dec size cs (encodeVKWith enc vk ++ rest) = .ok (vk, rest) := by
  have e1 : readN 1 (encodeVKWith enc vk ++ rest) =
      .ok ([vkVersion], [vk.k] ++ natToLeBytes 4 vk.fixed.length ++ vk.fixed.flatMap enc ++ vk.perm.flatMap enc ++ rest) := by
    simp [encodeVKWith, readN]
  have e2 : readN 1 ([vk.k] ++ natToLeBytes 4 vk.fixed.length ++ vk.fixed.flatMap enc ++ vk.perm.flatMap enc ++ rest) =
      .ok ([vk.k], natToLeBytes 4 vk.fixed.length ++ vk.fixed.flatMap enc ++ vk.perm.flatMap enc ++ rest) := by
    simp [readN]
  have e3 : readN 4 (natToLeBytes 4 vk.fixed.length ++ vk.fixed.flatMap enc ++ vk.perm.flatMap enc ++ rest) =
      .ok (natToLeBytes 4 vk.fixed.length, vk.fixed.flatMap enc ++ vk.perm.flatMap enc ++ rest) := by
    have := readN_append (natToLeBytes 4 vk.fixed.length) (vk.fixed.flatMap enc ++ vk.perm.flatMap enc ++ rest)
    rw [natToLeBytes_length] at this
    simpa [List.append_assoc] using this
  have e4 := readPoints_encode (dec := dec) (enc := enc) (size := size) vk.fixed (vk.perm.flatMap enc ++ rest)
    (fun p hp => hdec p (by simp [hp])) (fun p hp => hlen p (by simp [hp]))
  have e5 := readPoints_encode (dec := dec) (enc := enc) (size := size) vk.perm rest
    (fun p hp => hdec p (by simp [hp])) (fun p hp => hlen p (by simp [hp]))
  rw [hnf] at e4
  rw [hnp] at e5
  have hle : leBytesToNat (natToLeBytes 4 vk.fixed.length) = cs.nFixed := by
    rw [hnf]; exact leToNat_natToLe 4 _ hn
  have hv1 : leBytesToNat [vkVersion] = vkVersion := by simp [leBytesToNat]
  have hk1 : leBytesToNat [vk.k] = vk.k := by simp [leBytesToNat]
  have nk : ¬ (vk.k > fqS) := Nat.not_lt.mpr hk
  have nek : ¬ (extendedK vk.k cs.degree > fqS) := Nat.not_lt.mpr hek
  unfold decodeVKWith
  simp only [e1, hv1, ne_eq, not_true_eq_false, if_false, e2, hk1, nk, nek, e3, hle]
  simp only [List.append_assoc, e4, e5]

/-! ## Architecture descriptor and `ZkStdLib::configure` -/

/-- `arch_fields_in_range` (advice columns) — for EVERY architecture and every value of the
chips' column-count constants, each slice or index `ZkStdLib::configure` takes from
`advice_columns` (list regenerated from the source) lies within the `nb_advice_cols` columns it
created. The second entry is the D6(a) condition: `advice_columns[1..=nr_pow2range_cols]` needs
`nr_pow2range_cols + 1` columns. -/
theorem arch_fields_in_range (c : ColConsts) (a : Arch) :
    ∀ u ∈ adviceUses c a, u.1 = true → u.2 ≤ nbAdviceCols c a := by
  simp only [adviceUses, List.forall_mem_cons, nbAdviceCols]
  repeat' apply And.intro
  all_goals
    first
    | (intro hg; refine le_maxEntries ?_ hg; simp [adviceEntries]; done)
    | (intro _; refine le_maxEntries (g := true) ?_ rfl; simp [adviceEntries]; done)
    | (intro _
       refine Nat.le_trans (m := a.nrPow2rangeCols + 1) (by omega)
         (le_maxEntries (g := true) (n := a.nrPow2rangeCols + 1) ?_ rfl)
       simp [adviceEntries]; done)
    | (simp; done)

/-- `arch_fields_in_range` (fixed columns). -/
theorem arch_fixed_fields_in_range (c : ColConsts) (a : Arch) :
    ∀ u ∈ fixedUses c a, u.1 = true → u.2 ≤ nbFixedCols c a := by
  simp only [fixedUses, List.forall_mem_cons, nbFixedCols]
  repeat' apply And.intro
  all_goals
    first
    | (intro hg; refine le_maxEntries ?_ hg; simp [fixedEntries]; done)
    | (intro _; refine le_maxEntries (g := true) ?_ rfl; simp [fixedEntries]; done)
    | (simp; done)

/-- Non-vacuity: with the shipped constants, a header asking for 200 pow2range columns would need
201 advice columns — and `configure` creates that many (`nb_advice_cols` accounts for it). -/
example : nbAdviceCols (ColConsts.ofList [5, 9, 8, 8, 8, 9, 15, 4, 3, 10, 9, 9, 8, 2, 2, 8])
    (Arch.ofBools [] 200) = 201 := by decide

/-- `ZkStdLibArch::read` accepts only what `ZkStdLibArch::write` produces: version word 1, every
flag byte 0 or 1, and a pow2range count `Pow2RangeChip::configure` accepts (the follow-up of
D6(a)); the accepted bytes are the canonical encoding of the decoded architecture. -/
theorem arch_decode_canonical (c : ColConsts) (bs rest : Bytes) (a : Arch) (hwf : WF bs)
    (h : decodeArch c bs = .ok (a, rest)) :
    bs = encodeArch a ++ rest ∧ a.nrPow2rangeCols < pow2Bound c := by
  unfold decodeArch at h
  split at h
  · simp at h
  · next v r hv =>
    split at h
    · simp at h
    · next hver =>
      split at h
      · simp at h
      · next bools r1 hb =>
        split at h
        · simp at h
        · next nr r2 =>
          split at h
          · simp at h
          · next hnr =>
            simp only [Except.ok.injEq, Prod.mk.injEq] at h
            obtain ⟨rfl, rfl⟩ := h
            have a0 := readN_ok hv
            refine ⟨?_, by simpa [Arch.ofBools] using hnr⟩
            -- the eleven flag bytes
            have hbools : ∀ (n : Nat) (bs : Bytes) (l : List Bool) (r : Bytes),
                decodeBools n bs = .ok (l, r) → l.length = n ∧ bs = l.map (fun b => if b then 1 else 0) ++ r := by
              intro n
              induction n with
              | zero =>
                intro bs l r h
                simp only [decodeBools, Except.ok.injEq, Prod.mk.injEq] at h
                obtain ⟨rfl, rfl⟩ := h
                simp
              | succ k ih =>
                intro bs l r h
                simp only [decodeBools] at h
                split at h
                · simp at h
                · next b r' hb1 =>
                  split at h
                  · simp at h
                  · next l' r'' hrec =>
                    simp only [Except.ok.injEq, Prod.mk.injEq] at h
                    obtain ⟨rfl, rfl⟩ := h
                    have := ih _ _ _ hrec
                    unfold decodeBool at hb1
                    split at hb1
                    · simp at hb1
                    · next b0 t =>
                      split at hb1
                      · next h0 =>
                        simp only [Except.ok.injEq, Prod.mk.injEq] at hb1
                        obtain ⟨rfl, rfl⟩ := hb1
                        simp [this.1, h0, this.2]
                      · split at hb1
                        · next h1 =>
                          simp only [Except.ok.injEq, Prod.mk.injEq] at hb1
                          obtain ⟨rfl, rfl⟩ := hb1
                          simp [this.1, h1, this.2]
                        · simp at hb1
            obtain ⟨hl, hr⟩ := hbools 11 r bools (nr :: r2) hb
            have wv : WF v := by rw [a0.1] at hwf; exact (WF_append.mp hwf).1
            have hv4 : v = natToLeBytes 4 zkStdVersion := by
              have := natToLe_leToNat v wv
              rw [a0.2] at this
              rw [← this]
              congr 1
              simpa using hver
            have hbl : (Arch.ofBools bools nr).bools = bools := by
              match bools, hl with
              | [_, _, _, _, _, _, _, _, _, _, _], _ => rfl
            simp only [encodeArch, hbl]
            rw [a0.1, hr, hv4]
            simp [Arch.ofBools, List.append_assoc]

/-! ## Canonical point encodings -/

/-- `decode_canonical` (compressed G1: the Processed key format and every point of a proof) —
an accepted 48-byte string IS the canonical compressed encoding of the point it decodes to: flag
bits, sign bit and coordinate bytes admit no second spelling. (blst would accept either sign flag
for a point with `y = 0`; no such point is on the curve — `#E(Fp)` is odd — but that fact is not
proved here, hence the disjunct.) -/
theorem decode_canonical (a : Bytes) (P : G1Pt) (hwf : WF a) (h : decodeG1c a = .ok P) :
    encodeG1c P = a ∨ ∃ x, P = .aff x 0 := by
  unfold decodeG1c at h
  split at h
  · simp at h
  · next hlen0 =>
    have hlen : a.length = 48 := by simpa using hlen0
    clear hlen0
    have hP : uncompressG1 a = .ok P := by
      split at h
      · simp at h
      · next hu => simp only [Except.ok.injEq] at h; rw [← h]; exact hu
      · next x y hu =>
        split at h
        · simp only [Except.ok.injEq] at h; rw [← h]; exact hu
        · simp at h
    clear h
    unfold uncompressG1 at hP
    split at hP
    · simp at hP
    · next b0 t =>
      have hb0 : b0 < 256 := hwf b0 (by simp)
      have ht : WF t := fun x hx => hwf x (by simp [hx])
      have htl : t.length = 47 := by simpa using hlen
      split at hP
      · simp at hP
      · next hc =>
        split at hP
        · next hi =>
          split at hP
          · next hz =>
            simp only [Except.ok.injEq] at hP
            subst hP
            left
            simp only [Bool.and_eq_true, decide_eq_true_eq] at hz
            have e0 : b0 = 192 := by omega
            have et := allZero_eq_replicate t hz.2
            rw [htl] at et
            simp only [encodeG1c]
            rw [e0, ← et]
          · simp at hP
        · next hi =>
          simp only at hP
          split at hP
          · simp at hP
          · next hx =>
            split at hP
            · simp at hP
            · next y hs =>
              split at hP
              · simp at hP
              · simp only [Except.ok.injEq] at hP
                subst hP
                have hylt := sqrtFp_lt hs
                have hsign := sign_after_cneg y (b0 / 32 % 2 == 1) hylt
                simp only at hsign
                rcases hsign with hsg | hy0
                · left
                  have hwf' : WF ((b0 % 32) :: t) := by
                    intro z hz
                    rcases List.mem_cons.mp hz with rfl | hz
                    · omega
                    · exact ht z hz
                  have hl48 : ((b0 % 32) :: t).length = 48 := by rw [List.length_cons, htl]
                  have hbe := natToBe_beToNat ((b0 % 32) :: t) hwf'
                  rw [hl48] at hbe
                  simp only [encodeG1c]
                  rw [hbe]
                  simp only [hsg]
                  have hb : (b0 % 32 + 128 + if (b0 / 32 % 2 == 1) = true then 32 else 0) = b0 := by
                    by_cases hf : b0 / 32 % 2 = 1
                    · simp [hf]; omega
                    · simp [hf]; omega
                  rw [hb]
                · right
                  exact ⟨_, by rw [hy0]⟩

/-- Non-vacuity and tightness: the generator's compressed encoding is accepted, and flipping its
sign bit yields a different point (so the sign bit is not ignored). -/
example :
    let g := natToBe 48 (2 ^ 383 + 0x17f1d3a73197d7942695638c4fa9ac0fc3688c4f9774b905a14e3a3f171bac586c55e83ff97a1aeffb3af00adb22c6bb)
    let g' := natToBe 48 (2 ^ 383 + 2 ^ 381 + 0x17f1d3a73197d7942695638c4fa9ac0fc3688c4f9774b905a14e3a3f171bac586c55e83ff97a1aeffb3af00adb22c6bb)
    (decodeG1c g).isOk = true ∧ (decodeG1c g').isOk = true ∧ decodeG1c g ≠ decodeG1c g' := by
  decide +kernel

/-- `decode_canonical` for the RawBytes point format — an accepted 96-byte string is the canonical
uncompressed encoding of its point (coordinates, or the infinity byte `0x40` followed by zeros).
At full strength since `from_uncompressed` rejects the compression bit (c6a63c4): before, blst's
`blst_p1_deserialize` also took a *compressed* encoding from the first 48 bytes and ignored the
rest, so RawBytes keys were byte-malleable. -/
theorem decode_canonical_uncompressed (a : Bytes) (P : G1Pt) (hwf : WF a) (h : decodeG1u a = .ok P) :
    encodeG1u P = a := by
  unfold decodeG1u at h
  split at h
  · simp at h
  · next hlen0 =>
    have hlen : a.length = 96 := by simpa using hlen0
    clear hlen0
    split at h
    · simp at h
    · next hcomp =>
      have hP : deserializeG1 a = .ok P := by
        split at h
        · simp at h
        · next hu => simp only [Except.ok.injEq] at h; rw [← h]; exact hu
        · next x' y' hu =>
          split at h
          · simp only [Except.ok.injEq] at h; rw [← h]; exact hu
          · simp at h
      clear h
      unfold deserializeG1 at hP
      split at hP
      · simp at hP
      · next b0 t =>
        simp only [List.headD_cons] at hcomp
        have hb0 : b0 < 256 := hwf b0 (by simp)
        split at hP
        · simp only at hP
          split at hP
          · simp at hP
          · split at hP
            · simp at hP
            · split at hP
              · simp at hP
              · simp only [Except.ok.injEq] at hP
                subst hP
                have w := (List.take_append_drop 48 (b0 :: t))
                have wt : WF ((b0 :: t).take 48) := fun z hz => hwf z (List.mem_of_mem_take hz)
                have wd : WF ((b0 :: t).drop 48) := fun z hz => hwf z (List.mem_of_mem_drop hz)
                have lt : ((b0 :: t).take 48).length = 48 := by rw [List.length_take]; omega
                have ld : ((b0 :: t).drop 48).length = 48 := by rw [List.length_drop]; omega
                have e1 := natToBe_beToNat _ wt
                have e2 := natToBe_beToNat _ wd
                rw [lt] at e1
                rw [ld] at e2
                simp only [encodeG1u, e1, e2, w]
        · split at hP
          · next hi =>
            split at hP
            · next hz =>
              simp only [Except.ok.injEq] at hP
              subst hP
              simp only [Bool.and_eq_true, decide_eq_true_eq] at hz
              have e0 : b0 = 64 := by omega
              have et := allZero_eq_replicate t hz.2
              have htl : t.length = 95 := by simpa using hlen
              rw [htl] at et
              simp only [encodeG1u]
              rw [e0, ← et]
            · simp at hP
          · simp at hP

/-- Non-vacuity, and the regression of the malleability: the uncompressed generator is accepted;
the compressed generator followed by 48 arbitrary bytes (accepted before c6a63c4) is rejected. -/
example :
    let gx := 0x17f1d3a73197d7942695638c4fa9ac0fc3688c4f9774b905a14e3a3f171bac586c55e83ff97a1aeffb3af00adb22c6bb
    let gy := 0x08b3f481e3aaa0f1a09e30ed741d8ae4fcf5e095d5d00af600db18cb2c04b3edd03cc744a2888ae40caa232946c5e7e1
    decodeG1u (natToBe 48 gx ++ natToBe 48 gy) = .ok (.aff gx gy) ∧
    decodeG1u (natToBe 48 (2 ^ 383 + gx) ++ List.replicate 48 0xaa) = .error .point := by
  decide +kernel

/-- `G2Affine::from_uncompressed` (RawBytes verifier parameters) does check the subgroup. -/
theorem accepted_points_valid_g2_uncompressed (a : Bytes) (x y : Fp2) (h : decodeG2u a = .ok (.aff x y)) :
    onCurveG2 x y = true ∧ inSubgroupG2 x y = true := by
  unfold decodeG2u at h
  split at h
  · simp at h
  · split at h
    · simp at h
    · split at h
      · simp at h
      · simp at h
      · split at h
        · next hc =>
          simp only [Except.ok.injEq, G2Pt.aff.injEq] at h
          obtain ⟨rfl, rfl⟩ := h
          simpa using hc
        · simp at h

/-- `decode_canonical` for a whole RawBytes verifying key, with the real point decoder: the bytes
`VerifyingKey::read_from_cs` accepts in the RawBytes format are exactly `VerifyingKey::write` of the
key it returns (followed by what it leaves unread) — no byte of an accepted key is malleable. -/
theorem vk_rawbytes_canonical (cs : CsShape) (bs rest : Bytes) (vk : VKey G1Pt) (hwf : WF bs)
    (h : decodeVK .rawBytes cs bs = .ok (vk, rest)) :
    bs = encodeVKWith (encodeG1 .rawBytes) vk ++ rest :=
  vk_decode_canonical (decodeG1 .rawBytes) (encodeG1 .rawBytes) _ cs
    (fun a p w hd => decode_canonical_uncompressed a p w hd) bs rest vk hwf h

/-! ## MidnightVK -/

/-- `vk_counts_match_cs` at the `MidnightVK::read` level: an accepted key carries an architecture
`ZkStdLib::configure` can configure, and exactly the commitment counts of the constraint system of
THAT architecture. -/
theorem mvk_counts_match_cs {Pt : Type} (dec : Bytes → Except Err Pt) (size : Nat) (c : ColConsts)
    (shape : Arch → CsShape) (bs rest : Bytes) (m : MVKey Pt)
    (h : decodeMVKWith dec size c shape bs = .ok (m, rest)) :
    m.arch.nrPow2rangeCols < pow2Bound c ∧ m.vk.fixed.length = (shape m.arch).nFixed ∧
      m.vk.perm.length = (shape m.arch).nPerm ∧ extendedK m.vk.k (shape m.arch).degree ≤ fqS := by
  unfold decodeMVKWith at h
  split at h
  · simp at h
  · next arch r0 ha =>
    split at h
    · simp at h
    · split at h
      · simp at h
      · split at h
        · simp at h
        · next vk r3 hv =>
          simp only [Except.ok.injEq, Prod.mk.injEq] at h
          obtain ⟨rfl, _⟩ := h
          have hc := vk_counts_match_cs dec size (shape arch) _ _ vk hv
          refine ⟨?_, hc.1, hc.2.1, hc.2.2.2⟩
          -- the bound is checked by `decodeArch` whatever the bytes
          unfold decodeArch at ha
          split at ha
          · simp at ha
          · split at ha
            · simp at ha
            · split at ha
              · simp at ha
              · split at ha
                · simp at ha
                · split at ha
                  · simp at ha
                  · next hnr =>
                    simp only [Except.ok.injEq, Prod.mk.injEq] at ha
                    rw [← ha.1]
                    simpa [Arch.ofBools] using hnr

/-- An accepted `k` has an extended domain that is large enough for the quotient polynomial and
exists in the field (what `EvaluationDomain::new` asserts). -/
theorem vk_extended_domain_exists (k degree : Nat) (hk : k ≤ fqS) (h : extendedK k degree ≤ fqS) :
    2 ^ k * (degree - 1) ≤ 2 ^ extendedK k degree ∧ k ≤ extendedK k degree := by
  unfold extendedK at h ⊢
  have : fqS = 32 := rfl
  exact extKLoop_spec 64 k k (degree - 1) (by omega)

example : extendedK 30 5 = 32 ∧ extendedK 31 5 = 33 ∧ extendedK 4 5 = 6 := by decide +kernel

/-! ## Proofs -/

/-- Byte length of a proof as a function of the constraint-system shape: 48 bytes per point,
32 per scalar, with the element counts of the verifier's read sequence. -/
theorem proof_len_formula (s : ProofShape) :
    proofLen s =
      48 * (s.nAdvice + 3 * s.nLookups + permChunks s + s.nTrash + 1 + (s.degree - 1) + 2) +
      32 * (s.nInstQ + s.nAdvQ + s.nFixQ + 1 + s.nPerm + (3 * permChunks s - 1) + 5 * s.nLookups + s.nTrash + s.nSets) := by
  simp only [proofLen, proofSchedule, plonkSchedule, openingSchedule, scheduleLen_append, scheduleLen_replicate,
    Elem.size]
  simp only [scheduleLen, List.map_cons, List.map_nil, List.sum_cons, List.sum_nil, Elem.size]
  omega

/-- A proof whose every element decodes and that leaves no byte unread has exactly the length the
shape dictates; any other length ends in `Transcript`/`Opening` — never in an out-of-bounds read. -/
theorem proof_parsed_exact_length (decPt : Bytes → Except Err G1Pt) (s : ProofShape) (bs : Bytes) (n : Nat)
    (h : parseProof decPt s bs = (n, .parsed)) :
    bs.length = proofLen s ∧ n = (proofSchedule s).length := by
  unfold parseProof at h
  split at h
  · next n' e rest hp =>
    simp only [Prod.mk.injEq] at h
    split at h <;> simp at h
  · next n' rest hp =>
    simp only [Prod.mk.injEq] at h
    obtain ⟨rfl, hv⟩ := h
    split at hv
    · next hempty =>
      have := (parseElems_spec decPt _ _ _ _ _ _ hp).2.2 rfl
      have hr : rest.length = 0 := by
        cases rest with
        | nil => rfl
        | cons _ _ => simp at hempty
      refine ⟨?_, by omega⟩
      rw [this.2, hr, Nat.add_zero]
      simp only [proofLen]
    · simp at hv

/-- The verifier never reads more elements than the schedule has, whatever the bytes. -/
theorem proof_reads_bounded (decPt : Bytes → Except Err G1Pt) (s : ProofShape) (bs : Bytes) :
    (parseProof decPt s bs).1 ≤ (proofSchedule s).length := by
  unfold parseProof
  split
  · next n e rest hp => have := (parseElems_spec decPt _ _ _ _ _ _ hp).2.1; simpa using this
  · next n rest hp => have := (parseElems_spec decPt _ _ _ _ _ _ hp).2.1; simpa using this

/-- Non-vacuity: the shape of the harness' relation A gives its 2528-byte proof. -/
example : proofLen ⟨5, 1, 0, 8, 5, 1, 8, 17, 4⟩ = 2528 ∧ proofLen ⟨8, 2, 1, 8, 5, 1, 11, 19, 4⟩ = 3216 := by decide

/-! ## ZKIR programs -/

/-- A program accepted by `read_relation` passed `check_arity` on every instruction (the parsers
index `inps[0]`, `inps[1]` without further checks). -/
theorem ir_arity_checked (p : BParams) (bs rest : Bytes) (prog : List Instr)
    (h : decodeRelation p bs = .ok (prog, rest)) :
    ∀ i ∈ prog, checkArity i.op.tag i.inputs.length i.outputs.length = true := by
  unfold decodeRelation at h
  split at h
  · simp at h
  · next prog' st _ =>
    split at h
    · simp at h
    · next hf =>
      simp only [Except.ok.injEq, Prod.mk.injEq] at h
      obtain ⟨rfl, _⟩ := h
      intro i hi
      have := firstArityFailure_none _ 0 hf (i.op.tag, i.inputs.length, i.outputs.length)
        (List.mem_map.mpr ⟨i, hi, rfl⟩)
      simpa using this

/-- Every container the bincode decoder is allowed to pre-allocate was claimed against the limit
first: a length prefix alone can never make `Vec::with_capacity(len)` exceed `limit` bytes (the
condition whose absence made `read_relation` panic/abort on 9 input bytes). -/
theorem ir_container_claim_bounded (p : BParams) (n : Nat) (s s' : BState)
    (h : claim p n s = .ok ((), s')) : n ≤ p.limit ∧ s'.claimed ≤ p.limit := by
  unfold claim at h
  split at h
  · simp at h
  · simp only [Except.ok.injEq, Prod.mk.injEq, true_and] at h
    subst h
    simp only
    omega

/-- Non-vacuity: the 9-byte input that used to panic is rejected by the limit; an empty program
is accepted. -/
example : decodeRelation ⟨72, 24, 2 ^ 24⟩ [0xfd, 0, 0, 0, 0, 0, 0, 0, 0x10] = .error .irLimit ∧
    (decodeRelation ⟨72, 24, 2 ^ 24⟩ [0]).isOk = true := by decide +kernel

/-! ## Round trips -/

/-- `decode_encode` (RawBytes points) — what `write` produces for a point with canonical
coordinates on the curve reads back to the same point: honest keys survive the checks. -/
theorem decode_encode_uncompressed (x y : Nat) (hx : x < fpP) (hy : y < fpP) (hx0 : x ≠ 0)
    (hc : onCurveG1 x y = true) : decodeG1u (encodeG1u (.aff x y)) = .ok (.aff x y) := by
  obtain ⟨b, t, hbt, hb, htl⟩ := natToBe48_head_lt x hx
  have h256x : x < 256 ^ 48 := Nat.lt_trans hx (by decide)
  have h256y : y < 256 ^ 48 := Nat.lt_trans hy (by decide)
  have hlen : (natToBe 48 x ++ natToBe 48 y).length = 96 := by simp [natToBe_length]
  have htake : (natToBe 48 x ++ natToBe 48 y).take 48 = natToBe 48 x := by
    rw [List.take_append_of_le_length (by simp [natToBe_length])]
    exact List.take_of_length_le (by simp [natToBe_length])
  have hdrop : (natToBe 48 x ++ natToBe 48 y).drop 48 = natToBe 48 y := by
    have := List.drop_left (l₁ := natToBe 48 x) (l₂ := natToBe 48 y)
    rw [natToBe_length] at this
    exact this
  have h1 : ¬ (b / 128 % 2 = 1) := by omega
  have h2 : b / 32 = 0 := by omega
  have nx : ¬ (x ≥ fpP) := by omega
  have ny : ¬ (y ≥ fpP) := by omega
  have hd : deserializeG1 (natToBe 48 x ++ natToBe 48 y) = .ok (.aff x y) := by
    unfold deserializeG1
    rw [htake, hdrop, beToNat_natToBe 48 x h256x, beToNat_natToBe 48 y h256y, hbt]
    simp [h2, nx, ny, hc, hx0]
  unfold decodeG1u encodeG1u
  simp only [hlen, ne_eq, not_true_eq_false, if_false, hd]
  rw [hbt]
  simp [h1, hc]

example :
    let gx := 0x17f1d3a73197d7942695638c4fa9ac0fc3688c4f9774b905a14e3a3f171bac586c55e83ff97a1aeffb3af00adb22c6bb
    let gy := 0x08b3f481e3aaa0f1a09e30ed741d8ae4fcf5e095d5d00af600db18cb2c04b3edd03cc744a2888ae40caa232946c5e7e1
    gx < fpP ∧ gy < fpP ∧ gx ≠ 0 ∧ onCurveG1 gx gy = true := by decide +kernel

/-- `decode_encode` (architecture) — `ZkStdLibArch::read` inverts `ZkStdLibArch::write` for every
architecture `ZkStdLib::configure` accepts, and hands back the bytes that follow. -/
theorem arch_decode_encode (c : ColConsts) (a : Arch) (rest : Bytes) (h : a.nrPow2rangeCols < pow2Bound c) :
    decodeArch c (encodeArch a ++ rest) = .ok (a, rest) := by
  have hr : readN 4 (encodeArch a ++ rest) =
      .ok (natToLeBytes 4 zkStdVersion, a.bools.map (fun b => if b then 1 else 0) ++ ([a.nrPow2rangeCols] ++ rest)) := by
    have := readN_append (natToLeBytes 4 zkStdVersion) (a.bools.map (fun b => if b then 1 else 0) ++ ([a.nrPow2rangeCols] ++ rest))
    rw [natToLeBytes_length] at this
    simpa [encodeArch, List.append_assoc] using this
  have hv : leBytesToNat (natToLeBytes 4 zkStdVersion) = zkStdVersion := leToNat_natToLe 4 _ (by decide)
  have hb := decodeBools_encode a.bools ([a.nrPow2rangeCols] ++ rest)
  have hl : a.bools.length = 11 := rfl
  rw [hl] at hb
  have ha : Arch.ofBools a.bools a.nrPow2rangeCols = a := by cases a; rfl
  unfold decodeArch
  simp only [hr, hv, ne_eq, not_true_eq_false, if_false, hb]
  simp [Nat.not_le.mpr h, ha]

example : decodeArch (ColConsts.ofList [5]) (encodeArch (Arch.ofBools [true, false, true] 4) ++ [9, 9]) =
    .ok (Arch.ofBools [true, false, true] 4, [9, 9]) := by decide


/-! ## ZKIR programs: compilation with unknown witnesses

`compile` (`Model/C16/Compile.lean`) is the layout pass every consumer of an untrusted program
runs without witnesses (key generation, `min_k`, the cost model, the dummy pass of
`ZkirRelation::public_inputs`): input resolution, the static checks of each operation, output
insertion. The harness drives the real pass (`MidnightCircuit::new(.., Some(8))` +
`dummy_synthesize_run`) over every operation × operand type × immediate parameter and compares the
outcome class with `compile` line by line. -/

/-- `compile_total` — the compile model returns, for EVERY program, either a memory (the program
compiles) or one of the outcome classes of `CErr`; and it is compositional: compiling `p ++ q` is
compiling `p` and then `q` from the memory `p` left (so a verdict never depends on what follows the
first failing instruction). Totality of the Rust pass is what the correspondence run adds: every
outcome other than `ok` / an error value (a panic, an abort, a timeout) is an oracle failure. -/
theorem compile_total (p q : List CInstr) :
    ((∃ m, compile p = .ok m) ∨ (∃ e, compile p = .error e)) ∧
    compile (p ++ q) = (match compile p with
      | .error e => .error e
      | .ok m => compileFrom m q) := by
  refine ⟨?_, compileFrom_append p q []⟩
  cases h : compile p with
  | ok m => exact Or.inl ⟨m, rfl⟩
  | error e => exact Or.inr ⟨e, rfl⟩

/-- `compile_never_panics` — NO program reaches the `panic` outcome of the model: every branch of
every operation ends in `ok` or an error VALUE, for every immediate (full strength since the repair
`af7577a`: the guard of `IntoBytes(n)` on a native compares `n` itself, not `n as u32`, so no `n`
above the 32 bytes of a field element reaches `bytes[n..]` / the decomposition chip). The seeded
change C16-1 (first arm of `into_bytes_incircuit` removed) makes this theorem fail for `n = 33`:
the harness then sees a panic where the model says `unsupported`. -/
theorem compile_never_panics (prog : List CInstr) : compile prog ≠ .error .panic :=
  compileFrom_ne_panic prog []

example : compile [⟨0, some ⟨2, none⟩, 0, [], [[120]]⟩, ⟨12, none, 33, [⟨[120], none⟩], [[98]]⟩] =
    .error .unsupported := by decide +kernel

/-- Regression of the repaired finding: `IntoBytes(2^32)`, `IntoBytes(2^32 + 1)` on a loaded /
constant native are rejected with an error value. -/
theorem compile_rejects_beyond_u32 :
    compile [⟨0, some ⟨2, none⟩, 0, [], [[120]]⟩, ⟨12, none, 2 ^ 32, [⟨[120], none⟩], [[98]]⟩] = .error .unsupported ∧
    compile [⟨12, none, 2 ^ 32 + 1, [⟨[55], some (.native (some 7))⟩], [[98]]⟩] = .error .unsupported := by
  decide +kernel

/-- The PINNED guard (`n as u32 > 32`, before `af7577a`) let `n = 2^32 + j`, `j ≤ 32`, through to
the panic; the repaired guard rejects every `n > 32`. -/
theorem pinned_into_bytes_guard_truncated (j : Nat) (hj : j ≤ 32) :
    intoBytesInPinned (2 ^ 32 + j) = .error .panic ∧
    intoBytesIn (2 ^ 32 + j) (.native none) = .error .unsupported := by
  have hnb := nativeBytes_eq
  have h1 : asU32 (2 ^ 32 + j) = j := by unfold asU32; omega
  constructor
  · unfold intoBytesInPinned
    rw [h1, hnb, if_neg (by omega), if_pos (by omega)]
  · unfold intoBytesIn
    simp only [hnb]
    rw [if_pos (by omega)]

/-- The limit `IntoBytes(n)` enforces on a native whose value is UNKNOWN (a loaded witness at
compile time) is exactly the limit of the off-circuit side: the unknown path accepts `n` iff
`n ≤ 32` iff SOME field element converts off-circuit. (A guard that lives only on the value-known
path — the seeded change C16-1 — breaks the first equivalence.) -/
theorem into_bytes_unknown_limit_eq_offcircuit (n : Nat) :
    (intoBytesIn n (.native none) = .ok (.bytes n) ↔ n ≤ 32) ∧
    ((∃ v, v < fqModulus ∧ intoBytesNativeOff n v = .ok (.bytes n)) ↔ n ≤ 32) := by
  have hnb := nativeBytes_eq
  constructor
  · unfold intoBytesIn
    simp only [hnb]
    constructor
    · intro h
      by_cases hn : n ≤ 32
      · exact hn
      · simp [Nat.lt_of_not_le hn] at h
    · intro h
      simp [Nat.not_lt.mpr h]
  · constructor
    · rintro ⟨v, _, h⟩
      unfold intoBytesNativeOff at h
      simp only [hnb] at h
      by_cases hn : n ≤ 32
      · exact hn
      · simp [Nat.lt_of_not_le hn] at h
    · intro h
      refine ⟨0, by decide +kernel, ?_⟩
      unfold intoBytesNativeOff
      simp [hnb, Nat.not_lt.mpr h]

/-- On a KNOWN native (a constant) the in-circuit side accepts exactly what the off-circuit
conversion accepts, for every `n` and every value: same result, and an error on one side iff on
the other. -/
theorem into_bytes_known_eq_offcircuit (n v : Nat) (t : CTy) :
    intoBytesIn n (.native (some v)) = .ok t ↔ intoBytesNativeOff n v = .ok t := by
  unfold intoBytesIn
  simp only
  split
  · next h =>
    unfold intoBytesNativeOff
    simp [h]
  · rfl

/-- What the value-known check is: the value fits `n` bytes. -/
theorem into_bytes_known_spec (n v : Nat) (hn : n ≤ 32) :
    intoBytesIn n (.native (some v)) = .ok (.bytes n) ↔ v < 256 ^ n := by
  have hnb := nativeBytes_eq
  unfold intoBytesIn intoBytesNativeOff
  simp only [hnb, Nat.not_lt.mpr hn, if_false]
  have hp : 0 < 256 ^ n := Nat.pow_pos (by omega)
  constructor
  · intro h
    split at h
    · simp at h
    · next hz =>
      have : v / 256 ^ n = 0 := by omega
      exact (Nat.div_eq_zero_iff_lt hp).mp this
  · intro h
    have : v / 256 ^ n = 0 := (Nat.div_eq_zero_iff_lt hp).mpr h
    simp [this]

example : intoBytesIn 1 (.native (some 255)) = .ok (.bytes 1) ∧ intoBytesIn 1 (.native (some 256)) = .error .convert := by
  decide +kernel

/-- `FromBytes(t)`: the static guard both sides share (`IrValue::from_bytes`, `from_bytes_incircuit`)
accepts exactly: `Native`, `JubjubScalar`, `BigUint(b)` for a non-empty array of at most `b / 8`
bytes, `JubjubPoint` for 32 bytes. -/
theorem from_bytes_static_spec (t : IrTy) (len : Nat) :
    (∃ ct, fromBytesIn t (.bytes len) = .ok ct) ↔
      (t.tag = 2 ∨ t.tag = 5 ∨ (t.tag = 3 ∧ 8 * len ≤ t.payload.getD 0 ∧ len ≠ 0) ∨ (t.tag = 4 ∧ len = 32)) := by
  unfold fromBytesIn fromBytesStatic
  simp only
  split
  · simp_all
  · next h =>
    simp only [h]
    split <;> simp_all
  · next h =>
    simp only [h]
    split <;> simp_all
  · simp_all
  · next h2 h3 h4 h5 =>
    simp only [reduceCtorEq, exists_false, false_iff]
    intro hc
    rcases hc with hc | hc | hc | hc
    · exact h2 hc
    · exact h5 hc
    · exact h3 hc.1
    · exact h4 hc.1

/-- `Load(t)`: `check_loadable` (one function, called by both sides) rejects `BigUint(0)` only. -/
theorem load_limit (t : IrTy) : loadable t = false ↔ (t.tag = 3 ∧ t.payload.getD 0 = 0) := by
  unfold loadable
  simp

/-- A name is bound once: after a successful compilation every binding that existed at some
point is still there with the same type (no instruction can re-type or shadow a variable — the
`DuplicatedName` check), so the static checks of later instructions see the types the earlier
ones established. -/
theorem compile_bindings_stable (p q : List CInstr) (m m' : Mem)
    (hp : compile p = .ok m) (hq : compileFrom m q = .ok m') :
    ∀ n t, m.lookup n = some t → m'.lookup n = some t := by
  have _ := hp
  exact compileFrom_preserves q m m' hq

example : compile [⟨0, some ⟨2, none⟩, 0, [], [[120]]⟩, ⟨0, some ⟨0, none⟩, 0, [], [[120]]⟩] = .error .dup := by
  decide +kernel

/-- `extended_k` is the LEAST exponent `e ≥ k` with `2^k · (degree − 1) ≤ 2^e`: `read_from_cs`
accepts a `k` iff the quotient polynomial fits an extended domain that exists. In particular the
largest accepted `k` is `S − ⌈log2 (degree − 1)⌉` — a closed form that rounds the logarithm DOWN
(the seeded change C16-2) accepts `k = 31` for degree 4 and panics in `EvaluationDomain::new`. -/
theorem extendedK_le_iff (k degree e : Nat) (hk : k ≤ e) (he : e < k + 64) :
    extendedK k degree ≤ e ↔ 2 ^ k * (degree - 1) ≤ 2 ^ e := by
  unfold extendedK
  constructor
  · intro h
    have hs := extKLoop_stop 64 k k (degree - 1) (by omega)
    exact Nat.le_trans hs (Nat.pow_le_pow_right (by omega) h)
  · intro h
    exact extKLoop_le k (degree - 1) e h 64 k hk

/-- The `k` bytes `VerifyingKey::read_from_cs` accepts, for every degree. -/
theorem vk_k_accepted_iff (k degree : Nat) (hk : k ≤ fqS) :
    extendedK k degree ≤ fqS ↔ 2 ^ k * (degree - 1) ≤ 2 ^ fqS := by
  have : fqS = 32 := rfl
  exact extendedK_le_iff k degree fqS hk (by omega)

example : extendedK 30 4 = 32 ∧ extendedK 31 4 = 33 ∧ extendedK 30 8 = 33 ∧ extendedK 29 8 = 32 ∧ extendedK 29 9 = 32 := by
  decide +kernel

/-! ## Generated constants (re-checked against the current sources on every run) -/

/-- The constants the translator extracted from the Rust sources have the properties the decoders
rely on: `p ≡ 3 (mod 4)` (the square root is one exponentiation), `p` odd and below `2^381` (three
flag bits are free in the first byte), `r < 2^255`, the two-adicity bound `S = 32` fits a byte, the
key version byte and the architecture version word are the shipped ones, the IR arity tables
cover every operation, and the decoding limit of IR programs is 16 MiB. -/
theorem generated_constants_sound :
    fpP % 4 = 3 ∧ fpP < 2 ^ 381 ∧ 2 ^ 380 < fpP ∧ fqR < 2 ^ 255 ∧ fqS = 32 ∧ vkVersion = 3 ∧ zkStdVersion = 1 ∧
    irInputArity.length = irOps.length ∧ irOutputArity.length = irOps.length ∧ irOps.length = 17 ∧
    irTypes.length = 6 ∧ irDecodingLimit = 16777216 ∧ archBoolFields.length = 11 := by
  decide +kernel

end MidnightZK.C16
