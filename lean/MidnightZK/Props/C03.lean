import MidnightZK.Model.C03.Binding
/-!
# C03 — a proof is accepted only for the exact statement and bytes it was made for
Structural binding facts of the verifier schedule; collision resistance of the transcript hash
is assumed, not proved.
-/
namespace MidnightZK.C03
open MidnightZK MidnightZK.C01

private theorem parseStream_instStream : ∀ (cols : List (List Nat)) (fuel : Nat),
    (instStream cols).length ≤ fuel → parseStream fuel (instStream cols) = some cols
  | [], fuel, _ => by cases fuel <;> simp [instStream, parseStream]
  | c :: t, 0, h => by simp [instStream] at h
  | c :: t, fuel + 1, h => by
    simp only [instStream, parseStream]
    have hlen : ¬ (c ++ instStream t).length < c.length := by simp
    simp only [hlen, if_false, List.drop_left, List.take_left]
    rw [parseStream_instStream t fuel]
    · simp
    · simp [instStream] at h; omega

/-- **Instance absorption is injective.** The sequence of field elements the verifier absorbs
for the plain instance columns (length prefix, then values, column after column) determines
the columns: two different public-input assignments — a changed value, a permutation, a
dropped or appended element, a value moved between columns — are absorbed differently. -/
theorem instances_injective (a b : List (List Nat)) (h : instStream a = instStream b) : a = b := by
  have ha := parseStream_instStream a (instStream a).length (Nat.le_refl _)
  have hb := parseStream_instStream b (instStream a).length (by rw [h]; exact Nat.le_refl _)
  rw [← h, ha] at hb
  exact Option.some.inj hb

/-- Non-vacuity / examples of the edits named in the property. -/
example : instStream [[1, 2], [3]] ≠ instStream [[1], [2, 3]] := by decide
example : instStream [[1, 2]] ≠ instStream [[1, 2, 0]] := by decide

/-- The verifier schedule always ends with the challenge `x4` followed by the opening proof `π`. -/
theorem schedule_tail (sh : Shape) (cfg : Cfg) :
    ∃ pre, verifierSchedule sh cfg = pre ++ [squeeze .x4, elemG .pi] := by
  unfold verifierSchedule verifierMultiOpen
  simp only [← List.append_assoc]
  exact ⟨_, rfl⟩

/-- **Every element is bound by a later challenge.** Every verifying-key, instance or proof
element of the verifier schedule, except the final opening proof `π`, is absorbed before a
challenge is squeezed that the rest of the verification depends on (the last one being `x4`).
`π` itself is determined by the pairing equation (C14). -/
theorem every_element_bound (sh : Shape) (cfg : Cfg) (i : Nat)
    (hi : i + 2 < (verifierSchedule sh cfg).length) :
    ∃ j, i < j ∧ ((verifierSchedule sh cfg)[j]?.map (·.kind)) = some .squeeze := by
  obtain ⟨pre, hpre⟩ := schedule_tail sh cfg
  refine ⟨pre.length, ?_, ?_⟩
  · rw [hpre] at hi; simp at hi; omega
  · rw [hpre]; simp [squeeze]

/-- Bytes consumed by the verifier = sum of the element sizes of the schedule: a proof with
trailing bytes is rejected by `assert_empty`, a shorter one by a read error. -/
theorem accepted_length (sh : Shape) (cfg : Cfg) :
    proofLen sh cfg = totalLen (verifierSchedule sh cfg) := by
  unfold proofLen
  generalize verifierSchedule sh cfg = evs
  suffices h : ∀ (l : List Ev) (acc : Nat),
      (l.filter (fun e => e.kind = .elem)).foldl (fun acc e => acc + elemBytes e.ty) acc
        = acc + totalLen l from by simpa using h evs 0
  intro l
  induction l with
  | nil => intro acc; simp [totalLen]
  | cons e t ih =>
    intro acc
    simp only [List.filter_cons, totalLen]
    by_cases hk : e.kind = .elem
    · simp only [hk, decide_true, if_true, List.foldl_cons]
      rw [ih]
      simp only [elemSize]; omega
    · simp only [hk, decide_false, if_false, Bool.false_eq_true]
      rw [ih]; omega

private theorem leBytesToNat_lt : ∀ (l : List Nat), l.all (· < 256) = true → leBytesToNat l < 256 ^ l.length
  | [], _ => by simp [leBytesToNat]
  | b :: t, h => by
    simp only [List.all_cons, Bool.and_eq_true, decide_eq_true_eq] at h
    have := leBytesToNat_lt t h.2
    simp only [leBytesToNat, List.length_cons, Nat.pow_succ]
    omega

private theorem leBytesToNat_inj : ∀ (a b : List Nat), a.length = b.length →
    a.all (· < 256) = true → b.all (· < 256) = true → leBytesToNat a = leBytesToNat b → a = b
  | [], [], _, _, _, _ => rfl
  | [], _ :: _, h, _, _, _ => by simp at h
  | _ :: _, [], h, _, _, _ => by simp at h
  | x :: s, y :: t, hl, ha, hb, h => by
    simp only [List.all_cons, Bool.and_eq_true, decide_eq_true_eq] at ha hb
    simp only [leBytesToNat] at h
    have hxy : x = y := by omega
    have hst : leBytesToNat s = leBytesToNat t := by omega
    rw [hxy, leBytesToNat_inj s t (by simpa using hl) ha.2 hb.2 hst]

/-- **Scalar encodings are canonical**: two byte strings accepted by the checked scalar decoder
with the same value are the same byte string (no second encoding of a scalar is accepted). -/
theorem decode_canonical (a b : List Nat) (x : Nat)
    (ha : decodeScalar a = some x) (hb : decodeScalar b = some x) : a = b := by
  unfold decodeScalar at ha hb
  by_cases h1 : a.length = 32 ∧ a.all (· < 256) = true
  · by_cases h2 : b.length = 32 ∧ b.all (· < 256) = true
    · simp only [h1, h2, and_self, if_true] at ha hb
      by_cases c1 : leBytesToNat a < rModulus
      · by_cases c2 : leBytesToNat b < rModulus
        · simp only [c1, c2, if_true, Option.some.injEq] at ha hb
          exact leBytesToNat_inj a b (by omega) h1.2 h2.2 (by omega)
        · simp [c2] at hb
      · simp [c1] at ha
    · rw [if_neg h2] at hb; exact absurd hb (by simp)
  · rw [if_neg h1] at ha; exact absurd ha (by simp)

/-- The checked scalar decoder rejects the modulus itself and everything above it. -/
theorem decode_rejects_noncanonical (a : List Nat) (h : rModulus ≤ leBytesToNat a) :
    decodeScalar a = none := by
  unfold decodeScalar
  split
  · simp only []; split
    · omega
    · rfl
  · rfl

example : decodeScalar (natToLeBytes 32 rModulus) = none := by decide +kernel
example : decodeScalar (natToLeBytes 32 (rModulus - 1)) = some (rModulus - 1) := by decide +kernel

end MidnightZK.C03
