import MidnightZK.Model.C03.Binding
import MidnightZK.Proofs.C03.Stream
import MidnightZK.Proofs.C03.Points
import MidnightZK.Proofs.C03.InstanceEval
import MidnightZK.Proofs.C03.NoOrder2
import MidnightZK.Proofs.C03.InstanceEvalLink
import MidnightZK.Model.C03.Batch
import MidnightZK.Model.C03.VKView
/-!
# C03 — a proof is accepted only for the exact statement and bytes it was made for
Structural binding facts of the verifier schedule; collision resistance of the transcript hash
is assumed, not proved.

Sections: (1) instance absorption, schedule shape, proof length, scalar decoding (first round);
(2) what the two transcript hashes absorb, element by element, is injective in the statement and the proof
elements; parsing a proof is injective; (3) a plain instance column is also bound through its evaluation at `x`;
(4) what enters `transcript_repr` of the verifying key; (5) generated constants.
-/
namespace MidnightZK.C03
open MidnightZK MidnightZK.C01

private theorem parseStream_instStream : ∀ (cols : List (List Nat)) (fuel : Nat),
    (instStream cols).length ≤ fuel → parseStream fuel (instStream cols) = some cols
  | [], fuel, _ => by cases fuel <;> rfl
  | c :: t, 0, h => by simp [instStream] at h
  | c :: t, fuel + 1, h => by
    simp only [instStream, parseStream]
    have hlen : ¬ (c ++ instStream t).length < c.length := by simp
    simp only [hlen, if_false, List.drop_left, List.take_left]
    rw [parseStream_instStream t fuel]
    · simp
    · simp [instStream] at h; omega

/-- **Instance absorption is injective.** The sequence of field elements the verifier absorbs
for the plain instance columns (length prefix, then values, column after column) determines
the columns: two different public-input assignments — a changed value, a permutation, a
dropped or appended element, a value moved between columns — are absorbed differently. -/
theorem instances_injective (a b : List (List Nat)) (h : instStream a = instStream b) : a = b := by
  have ha := parseStream_instStream a (instStream a).length (Nat.le_refl _)
  have hb := parseStream_instStream b (instStream a).length (Nat.le_of_eq (congrArg List.length h.symm))
  rw [← h, ha] at hb
  exact Option.some.inj hb

/-- Non-vacuity / examples of the edits named in the property. -/
example : instStream [[1, 2], [3]] ≠ instStream [[1], [2, 3]] := by decide
example : instStream [[1, 2]] ≠ instStream [[1, 2, 0]] := by decide

/-- The verifier schedule always ends with the challenge `x4` followed by the opening proof `π`. -/
theorem schedule_tail (sh : Shape) (cfg : Cfg) :
    ∃ pre, verifierSchedule sh cfg = pre ++ [squeeze .x4, elemG .pi] := by
  unfold verifierSchedule verifierMultiOpen
  simp only [← List.append_assoc]
  exact ⟨_, rfl⟩

/-- **Every element is bound by a later challenge.** Every verifying-key, instance or proof
element of the verifier schedule, except the final opening proof `π`, is absorbed before a
challenge is squeezed that the rest of the verification depends on (the last one being `x4`).
`π` itself is determined by the pairing equation (C14). -/
theorem every_element_bound (sh : Shape) (cfg : Cfg) (i : Nat)
    (hi : i + 2 < (verifierSchedule sh cfg).length) :
    ∃ j, i < j ∧ ((verifierSchedule sh cfg)[j]?.map (·.kind)) = some .squeeze := by
  obtain ⟨pre, hpre⟩ := schedule_tail sh cfg
  refine ⟨pre.length, ?_, ?_⟩
  · rw [hpre] at hi; simp at hi; omega
  · rw [hpre]; simp [squeeze]

/-- Bytes consumed by the verifier = sum of the element sizes of the schedule: a proof with
trailing bytes is rejected by `assert_empty`, a shorter one by a read error. -/
theorem accepted_length (sh : Shape) (cfg : Cfg) :
    proofLen sh cfg = totalLen (verifierSchedule sh cfg) := by
  unfold proofLen
  generalize verifierSchedule sh cfg = evs
  suffices h : ∀ (l : List Ev) (acc : Nat),
      (l.filter (fun e => e.kind = .elem)).foldl (fun acc e => acc + elemBytes e.ty) acc
        = acc + totalLen l from by simpa using h evs 0
  intro l
  induction l with
  | nil => intro acc; simp [totalLen]
  | cons e t ih =>
    intro acc
    simp only [List.filter_cons, totalLen]
    by_cases hk : e.kind = .elem
    · simp only [hk, decide_true, if_true, List.foldl_cons]
      rw [ih]
      simp only [elemSize]; omega
    · simp only [hk, decide_false, if_false, Bool.false_eq_true]
      rw [ih]; omega

private theorem leBytesToNat_lt : ∀ (l : List Nat), l.all (· < 256) = true → leBytesToNat l < 256 ^ l.length
  | [], _ => by simp [leBytesToNat]
  | b :: t, h => by
    simp only [List.all_cons, Bool.and_eq_true, decide_eq_true_eq] at h
    have := leBytesToNat_lt t h.2
    simp only [leBytesToNat, List.length_cons, Nat.pow_succ]
    omega

private theorem leBytesToNat_inj : ∀ (a b : List Nat), a.length = b.length →
    a.all (· < 256) = true → b.all (· < 256) = true → leBytesToNat a = leBytesToNat b → a = b
  | [], [], _, _, _, _ => rfl
  | [], _ :: _, h, _, _, _ => by simp at h
  | _ :: _, [], h, _, _, _ => by simp at h
  | x :: s, y :: t, hl, ha, hb, h => by
    simp only [List.all_cons, Bool.and_eq_true, decide_eq_true_eq] at ha hb
    simp only [leBytesToNat] at h
    have hxy : x = y := by omega
    have hst : leBytesToNat s = leBytesToNat t := by omega
    rw [hxy, leBytesToNat_inj s t (by simpa using hl) ha.2 hb.2 hst]

/-- **Scalar encodings are canonical**: two byte strings accepted by the checked scalar decoder
with the same value are the same byte string (no second encoding of a scalar is accepted). -/
theorem decode_canonical (a b : List Nat) (x : Nat)
    (ha : decodeScalar a = some x) (hb : decodeScalar b = some x) : a = b := by
  unfold decodeScalar at ha hb
  by_cases h1 : a.length = 32 ∧ a.all (· < 256) = true
  · by_cases h2 : b.length = 32 ∧ b.all (· < 256) = true
    · simp only [h1, h2, and_self, if_true] at ha hb
      by_cases c1 : leBytesToNat a < rModulus
      · by_cases c2 : leBytesToNat b < rModulus
        · simp only [c1, c2, if_true, Option.some.injEq] at ha hb
          exact leBytesToNat_inj a b (by omega) h1.2 h2.2 (by omega)
        · simp [c2] at hb
      · simp [c1] at ha
    · rw [if_neg h2] at hb; exact absurd hb (by simp)
  · rw [if_neg h1] at ha; exact absurd ha (by simp)

/-- The checked scalar decoder rejects the modulus itself and everything above it. -/
theorem decode_rejects_noncanonical (a : List Nat) (h : rModulus ≤ leBytesToNat a) :
    decodeScalar a = none := by
  unfold decodeScalar
  split
  · simp only []; split
    · omega
    · rfl
  · rfl

example : decodeScalar (natToLeBytes 32 rModulus) = none := by decide +kernel
example : decodeScalar (natToLeBytes 32 (rModulus - 1)) = some (rModulus - 1) := by decide +kernel

/-! ## (2) The absorbed streams -/

/-- **`absorbed_stream_injective` (BLAKE2b transcript).** For a fixed schedule (fixed constraint-system shape and
proving configuration, hence fixed element types and sizes at every position) the byte stream `update`d into the
transcript BLAKE2b state — prefix `1` and the 32-byte / 48-byte encoding for every absorbed or read element, prefix
`0` for every challenge — determines every value: two different tuples (vk representative, committed-instance
commitments, instance lengths and values, proof elements) are absorbed as different streams. Values range over
canonical scalars and points the decoder accepts (`GoodVal`). -/
theorem absorbed_stream_injective (sh : Shape) (cfg : Cfg) (a b : List Val)
    (ta : Typed (verifierSchedule sh cfg) a) (tb : Typed (verifierSchedule sh cfg) b)
    (ga : ∀ v ∈ a, GoodVal v) (gb : ∀ v ∈ b, GoodVal v)
    (h : blakeStream (verifierSchedule sh cfg) a = blakeStream (verifierSchedule sh cfg) b) : a = b := by
  generalize verifierSchedule sh cfg = evs at ta tb h
  exact blakeStream_inj_of GoodVal valBytes_inj_good evs a b ta tb ga gb h

/-- The same for any schedule (the prover's, a sub-schedule, …): only the fixed sequence of event kinds and types
matters. -/
theorem absorbed_stream_injective_any (evs : List Ev) (a b : List Val) (ta : Typed evs a) (tb : Typed evs b)
    (ga : ∀ v ∈ a, GoodVal v) (gb : ∀ v ∈ b, GoodVal v) (h : blakeStream evs a = blakeStream evs b) : a = b :=
  blakeStream_inj_of GoodVal valBytes_inj_good evs a b ta tb ga gb h

/-- **`absorbed_stream_injective` (Poseidon transcript).** The blocks of field elements the Poseidon sponge
absorbs (queue followed by its length at every effective squeeze; the residual queue at the end) determine every
value: scalars enter as themselves, points as the 2·7 limbs of `x − 1`, `y − 1` with the identity flag added to
the first limb — injective on points with canonical coordinates. -/
theorem absorbed_stream_injective_poseidon (sh : Shape) (cfg : Cfg) (a b : List Val)
    (ta : Typed (verifierSchedule sh cfg) a) (tb : Typed (verifierSchedule sh cfg) b)
    (ga : ∀ v ∈ a, GoodVal v) (gb : ∀ v ∈ b, GoodVal v)
    (h : poseidonBlocks (verifierSchedule sh cfg) a [] 0 = poseidonBlocks (verifierSchedule sh cfg) b [] 0) :
    a = b := by
  generalize verifierSchedule sh cfg = evs at ta tb h
  exact (poseidonBlocks_inj_of GoodVal valFields_inj_good evs a b [] [] 0 ta tb ga gb rfl h).2

/-- Contrapositive reading used by the property: ANY changed value — a changed committed-instance commitment, a
changed public input, a changed proof element — changes what is absorbed, under both hashes. -/
theorem changed_value_changes_stream (sh : Shape) (cfg : Cfg) (a b : List Val)
    (ta : Typed (verifierSchedule sh cfg) a) (tb : Typed (verifierSchedule sh cfg) b)
    (ga : ∀ v ∈ a, GoodVal v) (gb : ∀ v ∈ b, GoodVal v) (hne : a ≠ b) :
    blakeStream (verifierSchedule sh cfg) a ≠ blakeStream (verifierSchedule sh cfg) b ∧
    poseidonBlocks (verifierSchedule sh cfg) a [] 0 ≠ poseidonBlocks (verifierSchedule sh cfg) b [] 0 :=
  ⟨fun h => hne (absorbed_stream_injective sh cfg a b ta tb ga gb h),
   fun h => hne (absorbed_stream_injective_poseidon sh cfg a b ta tb ga gb h)⟩

/-- Non-vacuity: a typed list of good values for a tiny schedule, and two different ones with different streams. -/
example : Typed [absorbF .vk, squeeze .x, elemF .randomEval] [.F 5, .F 7] ∧ GoodVal (.F 5) ∧
    blakeStream [absorbF .vk, squeeze .x, elemF .randomEval] [.F 5, .F 7]
      ≠ blakeStream [absorbF .vk, squeeze .x, elemF .randomEval] [.F 5, .F 8] := by
  refine ⟨by simp [Typed, absorbF, squeeze, elemF, Val.ty], by simp [GoodVal, rModulus], by decide⟩

/-- Scalars of a value list, in order. -/
def scalarsOf : List Val → List Nat
  | [] => []
  | .F v :: t => v :: scalarsOf t
  | .G _ :: t => scalarsOf t

/-- Points of a value list, in order. -/
def pointsOf : List Val → List Pt
  | [] => []
  | .F _ :: t => pointsOf t
  | .G p :: t => p :: pointsOf t

private theorem scalarsOf_append (a b : List Val) : scalarsOf (a ++ b) = scalarsOf a ++ scalarsOf b := by
  induction a with
  | nil => rfl
  | cons v t ih => cases v <;> simp [scalarsOf, ih]

private theorem pointsOf_append (a b : List Val) : pointsOf (a ++ b) = pointsOf a ++ pointsOf b := by
  induction a with
  | nil => rfl
  | cons v t ih => cases v <;> simp [pointsOf, ih]

private theorem scalarsOf_mapF (l : List Nat) : scalarsOf (l.map .F) = l := by
  induction l with
  | nil => rfl
  | cons v t ih => simp [scalarsOf, ih]

private theorem scalarsOf_mapG (l : List Pt) : scalarsOf (l.map .G) = [] := by
  induction l with
  | nil => rfl
  | cons v t ih => simp [scalarsOf, ih]

private theorem pointsOf_mapF (l : List Nat) : pointsOf (l.map .F) = [] := by
  induction l with
  | nil => rfl
  | cons v t ih => simp [pointsOf, ih]

private theorem pointsOf_mapG (l : List Pt) : pointsOf (l.map .G) = l := by
  induction l with
  | nil => rfl
  | cons v t ih => simp [pointsOf, ih]

private theorem instStream_append (a b : List (List Nat)) : instStream (a ++ b) = instStream a ++ instStream b := by
  induction a with
  | nil => rfl
  | cons c t ih => simp [instStream, ih]

private theorem scalars_blocks (coms : List (List Pt)) (cols : List (List (List Nat))) (ps : List Nat) :
    scalarsOf (ps.flatMap fun p => (coms.getD p []).map .G ++ (instStream (cols.getD p [])).map .F)
      = instStream (ps.flatMap fun p => cols.getD p []) := by
  induction ps with
  | nil => rfl
  | cons p t ih =>
    simp only [List.flatMap_cons, scalarsOf_append, scalarsOf_mapG, scalarsOf_mapF, ih, instStream_append,
      List.nil_append]

private theorem points_blocks (coms : List (List Pt)) (cols : List (List (List Nat))) (ps : List Nat) :
    pointsOf (ps.flatMap fun p => (coms.getD p []).map .G ++ (instStream (cols.getD p [])).map .F)
      = ps.flatMap fun p => coms.getD p [] := by
  induction ps with
  | nil => rfl
  | cons p t ih =>
    simp only [List.flatMap_cons, pointsOf_append, pointsOf_mapG, pointsOf_mapF, ih, List.append_nil]

private theorem flatMap_getD_range (l : List (List α)) :
    ((List.range l.length).flatMap fun p => l.getD p []) = l.flatten := by
  induction l using List.reverseRecOn with
  | nil => rfl
  | append_singleton t x ih =>
    rw [List.length_append, List.length_singleton, List.range_succ, List.flatMap_append, List.flatten_append]
    congr 1
    · rw [← ih]
      apply List.flatMap_congr
      intro p hp
      have : p < t.length := List.mem_range.mp hp
      simp [List.getD_eq_getElem?_getD, List.getElem?_append_left this]
    · simp [List.getD_eq_getElem?_getD]

private theorem flatten_inj_of_lengths : ∀ (a b : List (List α)), a.map List.length = b.map List.length →
    a.flatten = b.flatten → a = b
  | [], [], _, _ => rfl
  | [], _ :: _, h, _ => by simp at h
  | _ :: _, [], h, _ => by simp at h
  | x :: s, y :: t, hl, h => by
    simp only [List.map_cons, List.cons.injEq] at hl
    simp only [List.flatten_cons] at h
    have h2 := List.append_inj h hl.1
    rw [h2.1, flatten_inj_of_lengths s t hl.2 h2.2]

/-- **The statement is determined by what is absorbed for it.** For two statements of the same configuration
(same number of proofs, same number of committed and of plain instance columns per proof — fixed by the verifying
key), equal absorbed statement values mean equal vk representative, equal commitments and equal public inputs
(lengths included: a dropped / appended element, or one moved between columns or between proofs, is seen). -/
theorem statement_injective (s t : Stmt)
    (_hnp : s.cols.length = t.cols.length) (hcl : s.coms.length = s.cols.length) (hcl' : t.coms.length = t.cols.length)
    (hcols : s.cols.map List.length = t.cols.map List.length)
    (hcoms : s.coms.map List.length = t.coms.map List.length)
    (h : stmtVals s = stmtVals t) :
    s.vkRepr = t.vkRepr ∧ s.coms = t.coms ∧ s.cols = t.cols := by
  unfold stmtVals at h
  have hs := congrArg scalarsOf h
  have hp := congrArg pointsOf h
  simp only [scalarsOf, pointsOf, scalars_blocks, points_blocks, List.cons.injEq] at hs hp
  refine ⟨hs.1, ?_, ?_⟩
  · have hf : s.coms.flatten = t.coms.flatten := by
      rw [← flatMap_getD_range s.coms, ← flatMap_getD_range t.coms, hcl, hcl']; exact hp
    exact flatten_inj_of_lengths _ _ hcoms hf
  · have hf : s.cols.flatten = t.cols.flatten := by
      rw [← flatMap_getD_range s.cols, ← flatMap_getD_range t.cols]; exact instances_injective _ _ hs.2
    exact flatten_inj_of_lengths _ _ hcols hf

/-! ## (2b) Parsing a proof -/

/-- **`proof_parse_injective`.** Two byte strings that the verifier parses successfully (every element decodes,
`assert_empty` finds no byte left) into the same element sequence are the same byte string — for ANY point decoder
that is canonical (`CanonicalPointDecoder`: fixed size, no two accepted encodings of one point); scalars are
handled by `decode_canonical`. No byte of an accepted proof is malleable at the parsing level. -/
theorem proof_parse_injective {dec : List Nat → Option Pt} {ok : Pt → Prop}
    (hd : CanonicalPointDecoder dec ok) (evs : List Ev) (a b : List Nat) (vs : List Val)
    (hok : ∀ v ∈ vs, ValOk ok v)
    (ha : parseProofWith dec evs a = some vs) (hb : parseProofWith dec evs b = some vs) : a = b := by
  unfold parseProofWith at ha hb
  split at ha
  · next va hpa =>
    split at hb
    · next vb hpb =>
      simp only [Option.some.injEq] at ha hb
      subst ha hb
      exact parseElemsWith_inj hd _ a b _ [] hok hpa hpb
    · simp at hb
  · simp at ha

/-- The hypothesis structure of `proof_parse_injective` holds for the model of `G1Affine::from_compressed`
(`G1Projective::from_bytes` under BLAKE2b, `G1Affine::from_bytes` under Poseidon — one decoder, checked against
both readers by the `point` correspondence lines), by `C16.decode_canonical`. PARTIAL in one respect: points with
`y = 0` are excluded (`NoOrder2`); none exists on the curve, which neither C16 nor this file proves. -/
theorem proof_parse_injective_g1_partial (sh : Shape) (cfg : Cfg) (a b : List Nat) (vs : List Val)
    (hok : ∀ v ∈ vs, ValOk NoOrder2 v)
    (ha : parseProof (verifierSchedule sh cfg) a = some vs)
    (hb : parseProof (verifierSchedule sh cfg) b = some vs) : a = b :=
  proof_parse_injective g1Dec_canonical _ a b vs hok ha hb

example : CanonicalPointDecoder g1Dec NoOrder2 := g1Dec_canonical

private theorem sizes_totalLen : ∀ (evs : List Ev), ((elemTys evs).map elemSize).foldl (· + ·) 0 = totalLen evs
  | [] => rfl
  | e :: t => by
    have hfold : ∀ (l : List Nat) (acc : Nat), l.foldl (· + ·) acc = acc + l.foldl (· + ·) 0 := by
      intro l
      induction l with
      | nil => intro acc; simp
      | cons x xs ihx => intro acc; simp only [List.foldl_cons]; rw [ihx (acc + x), ihx (0 + x)]; omega
    unfold elemTys totalLen
    by_cases hk : e.kind = .elem
    · simp only [hk, if_true, List.map_cons, List.foldl_cons]
      rw [hfold, sizes_totalLen t]; omega
    · simp only [hk, if_false]
      rw [sizes_totalLen t]; omega

/-- **A parsed proof has exactly the model's length** (at the level of the byte parser, with the real element
decoders): whatever the point decoder, a byte string accepted by `parseProofWith` for the verifier schedule has
`proofLen sh cfg` bytes and yields one value per proof element. -/
theorem parsed_length {dec : List Nat → Option Pt} (sh : Shape) (cfg : Cfg) (bs : List Nat) (vs : List Val)
    (h : parseProofWith dec (verifierSchedule sh cfg) bs = some vs) :
    bs.length = proofLen sh cfg ∧ vs.length = (elemTys (verifierSchedule sh cfg)).length := by
  rw [accepted_length]
  generalize verifierSchedule sh cfg = evs at h
  unfold parseProofWith at h
  split at h
  · next v hp =>
    simp only [Option.some.injEq] at h
    subst h
    have := parseElemsWith_length _ _ _ _ hp
    rw [sizes_totalLen] at this
    simpa using this
  · simp at h

private theorem decodeScalar_some (bs : List Nat) (x : Nat) (h : decodeScalar bs = some x) :
    bs = encodeScalar x := by
  unfold decodeScalar at h
  by_cases h1 : bs.length = 32 ∧ bs.all (· < 256) = true
  · rw [if_pos h1] at h
    simp only at h
    by_cases c : leBytesToNat bs < rModulus
    · rw [if_pos c] at h
      have hx : leBytesToNat bs = x := Option.some.inj h
      have hwf : C16.WF bs := fun b hb => by simpa using (List.all_eq_true.mp h1.2 b hb)
      have := C16.natToLe_leToNat bs hwf
      rw [h1.1, hx] at this
      exact this.symm
    · rw [if_neg c] at h; simp at h
  · rw [if_neg h1] at h; simp at h

/-- What was parsed re-encodes to the parsed bytes: the BLAKE2b stream (which absorbs `valBytes` of each read
element) therefore contains the proof's own bytes, element by element. -/
theorem parsed_reencodes (tys : List Ty) : ∀ (bs : List Nat) (vs : List Val) (r : List Nat),
    (∀ v ∈ vs, ValOk NoOrder2 v) → parseElemsWith g1Dec tys bs = some (vs, r) → bs = encodeElems vs ++ r := by
  induction tys with
  | nil =>
    intro bs vs r _ h
    simp only [parseElemsWith, Option.some.injEq, Prod.mk.injEq] at h
    simp [← h.1, ← h.2, encodeElems]
  | cons ty t ih =>
    intro bs vs r hok h
    unfold parseElemsWith at h
    by_cases la : bs.length < elemSize ty
    · simp [la] at h
    simp only [la, if_false] at h
    split at h
    · simp at h
    · next v hv =>
      simp only [Option.map_eq_some_iff, Prod.mk.injEq] at h
      obtain ⟨⟨vs', r'⟩, hp, h1, h2⟩ := h
      simp only at h1 h2
      subst h2
      subst h1
      have hrest := ih _ vs' r' (fun w hw => hok w (by simp [hw])) hp
      have hhead : bs.take (elemSize ty) = valBytes v := by
        cases ty with
        | F =>
          simp only [decodeElemWith, Option.map_eq_some_iff] at hv
          obtain ⟨x, hx, rfl⟩ := hv
          exact decodeScalar_some _ x hx
        | G =>
          simp only [decodeElemWith, Option.map_eq_some_iff] at hv
          obtain ⟨p, hp2, rfl⟩ := hv
          exact (g1Dec_encode hp2 (hok (.G p) (by simp))).symm
      calc bs = bs.take (elemSize ty) ++ bs.drop (elemSize ty) := (List.take_append_drop _ _).symm
        _ = valBytes v ++ (encodeElems vs' ++ r') := by rw [hhead, hrest]
        _ = encodeElems (v :: vs') ++ r' := by simp [encodeElems]

/-! ## (3) A public input is also bound through its evaluation -/

/-- **`instance_eval_binds`.** The verifier computes the evaluation at the challenge `x` of a plain instance column
as `Σ_i a_i · ℓ_i(x)` with `ℓ_i(x) = ω_i·(xᴺ − 1)/(n·(x − ω_i))` (`verifier.rs: instance_evals`,
`domain.rs: l_i_range`; executable mirror: `C02.instanceEvals`). Two columns that differ somewhere (as vectors padded
with zeros to a common length `m`; the nodes `ω_i` distinct, non-zero, on the domain) have the same evaluation for
at most `m − 1` values of `x` outside the domain: a changed public input that were not caught by the transcript would
still change the identity check, except on that small set (root counting on an explicit degree-`(m−1)` polynomial). -/
theorem instance_eval_binds {F : Type*} [Field F] (nF : F) (hn : nF ≠ 0) (N m : ℕ) (node : ℕ → F)
    (hinj : ∀ i < m, ∀ j < m, node i = node j → i = j)
    (hnode0 : ∀ i < m, node i ≠ 0) (hnodeN : ∀ i < m, node i ^ N = 1)
    (a b : ℕ → F) (hab : ∃ i < m, a i ≠ b i) (S : Finset F)
    (hS : ∀ x ∈ S, x ^ N ≠ 1 ∧ instEval nF N node m a x = instEval nF N node m b x) :
    S.card ≤ m - 1 :=
  instEval_agree_card_le nF hn N m node hinj hnode0 hnodeN a b hab S hS

/-- List form for two columns of the same length. -/
theorem instance_eval_binds_lists {F : Type*} [Field F] (nF : F) (hn : nF ≠ 0) (N : ℕ) (node : ℕ → F)
    (a b : List F) (hlen : a.length = b.length) (hne : a ≠ b)
    (hinj : ∀ i < a.length, ∀ j < a.length, node i = node j → i = j)
    (hnode0 : ∀ i < a.length, node i ≠ 0) (hnodeN : ∀ i < a.length, node i ^ N = 1) (S : Finset F)
    (hS : ∀ x ∈ S, x ^ N ≠ 1 ∧
      instEval nF N node a.length (fun i => a.getD i 0) x = instEval nF N node a.length (fun i => b.getD i 0) x) :
    S.card ≤ a.length - 1 :=
  instEval_lists_agree_card_le nF hn N node a b hlen hne hinj hnode0 hnodeN S hS

/-- **Trailing zeros are invisible to the evaluation**: appending a zero to a public-input column does not change
its evaluation at any `x`. The edit `append zero` of the property is therefore caught ONLY by the length prefix
absorbed into the transcript (`instances_injective`), never by the identity check. -/
theorem instance_eval_pad_invisible {F : Type*} [Field F] (nF : F) (N : ℕ) (node : ℕ → F) (m k : ℕ) (a : ℕ → F)
    (hz : ∀ i, m ≤ i → a i = 0) (x : F) :
    instEval nF N node (m + k) a x = instEval nF N node m a x :=
  instEval_pad nF N node m k a hz x

/-! ## (4) What enters `transcript_repr` of the verifying key -/

/-- Well-formed key parts: `k` is a byte (`assert!(k <= F::S)`, `S = 32`), counts fit `u32`, commitments have
canonical coordinates. -/
structure VKParts.WF (v : VKParts) : Prop where
  k_lt : v.k < 256
  nf_lt : v.fixed.length < 2 ^ 32
  np_lt : v.perm.length < 2 ^ 32
  fixed_canon : ∀ p ∈ v.fixed, CanonPt p
  perm_canon : ∀ p ∈ v.perm, CanonPt p

/-- The buffer in the order the source has TODAY (the order is regenerated; if it changes this lemma, and with it
`vk_repr_input_injective`, has to be re-proved for the new order). -/
theorem vkHashInput_eq (v : VKParts) :
    vkHashInput v = Gen.vkVersion :: (v.k % 256) :: (u32le v.fixed.length ++ (rawPoints v.fixed ++
      (u32le v.perm.length ++ (rawPoints v.perm ++ (v.domainDbg ++ v.csDbg))))) := by
  simp [vkHashInput, Gen.vkInputOrder, concatComponents, vkComponent]

/-- **`vk_repr_covers` (injectivity form).** The buffer hashed into `transcript_repr` determines `k`, every fixed
commitment, every permutation commitment (count and content, in order) and the concatenated `Debug` descriptions
of the domain and of the constraint system: changing any of them changes the hash input. -/
theorem vk_repr_input_injective (a b : VKParts) (ha : a.WF) (hb : b.WF) (h : vkHashInput a = vkHashInput b) :
    a.k = b.k ∧ a.fixed = b.fixed ∧ a.perm = b.perm ∧ a.domainDbg ++ a.csDbg = b.domainDbg ++ b.csDbg := by
  rw [vkHashInput_eq, vkHashInput_eq] at h
  have h1 := (List.cons.inj h).2
  have h2 := List.cons.inj h1
  have hk : a.k = b.k := by
    have := h2.1
    have := ha.k_lt
    have := hb.k_lt
    omega
  have h3 := List.append_inj h2.2 (by simp [u32le, natToLeBytes_length'])
  have hnf : a.fixed.length = b.fixed.length :=
    natToLeBytes_inj 4 _ _ (by have := ha.nf_lt; omega) (by have := hb.nf_lt; omega) h3.1
  have h4 := rawPoints_inj_of CanonPt encodeG1u_inj a.fixed b.fixed _ _ hnf ha.fixed_canon hb.fixed_canon h3.2
  have h5 := List.append_inj h4.2 (by simp [u32le, natToLeBytes_length'])
  have hnp : a.perm.length = b.perm.length :=
    natToLeBytes_inj 4 _ _ (by have := ha.np_lt; omega) (by have := hb.np_lt; omega) h5.1
  have h6 := rawPoints_inj_of CanonPt encodeG1u_inj a.perm b.perm _ _ hnp ha.perm_canon hb.perm_canon h5.2
  exact ⟨hk, h4.1, h6.1, h6.2⟩

example : (⟨4, [.inf], [], [1], [2]⟩ : VKParts).WF :=
  ⟨by decide, by decide, by decide, by intro p hp; simp at hp; subst hp; trivial, by intro p hp; simp at hp⟩

/-- **`vk_repr_covers` (field coverage, generated from the source).** Read from `plonk/mod.rs` and `plonk/circuit.rs`
as they are now: (a) the only thing `hash_into` absorbs is `transcript_repr`; (b) `from_parts` writes version, `k`,
the fixed commitments with their count, the permutation commitments with their count, then the pinned domain and the
pinned constraint system — all four remaining fields of `VerifyingKey` besides the cached `cs_degree` and
`transcript_repr` itself; (c) every field of `ConstraintSystem` except the three listed ones
(`unblinded_advice_columns`: prover-side blinding only; `num_advice_queries`: a count derived from `advice_queries`;
`general_column_annotations`: debugging names) is a member of `PinnedConstraintSystem`, and every member is printed
by its `Debug` — `num_challenges`, `advice_column_phase`, `challenge_phase` only under the condition of
`pinned_phase_condition` (a challenge exists or some advice column is in a later phase: when they are not printed,
`challenge_phase` is empty and every advice column is in the first phase, so nothing is lost — see
`vk_repr_injective_on_verifier_view_partial`). A new field the verifier would use but `pinned()` / `Debug` forgets
makes this theorem fail. -/
theorem vk_repr_covers :
    Gen.vkHashInto = ["transcript_repr"] ∧
    Gen.vkInputOrder = ["version", "k", "nfixed", "fixed", "nperm", "perm", "domain", "cs"] ∧
    Gen.vkFields = ["domain", "fixed_commitments", "permutation", "cs", "cs_degree", "transcript_repr"] ∧
    (∀ f ∈ Gen.csFields, f ∈ Gen.csPinnedFields ∨
      f ∈ ["unblinded_advice_columns", "num_advice_queries", "general_column_annotations"]) ∧
    (∀ f ∈ Gen.csPinnedFields, f ∈ Gen.csDebugAlways ∨ f ∈ Gen.csDebugWithChallenges) ∧
    Gen.csDebugWithChallenges = ["num_challenges", "advice_column_phase", "challenge_phase"] ∧
    "num_instance_columns" ∈ Gen.csDebugAlways ∧ "gates" ∈ Gen.csDebugAlways ∧
    "permutation" ∈ Gen.csDebugAlways ∧ "lookups" ∈ Gen.csDebugAlways ∧ "trashcans" ∈ Gen.csDebugAlways ∧
    Gen.domainPinnedFields = ["k", "extended_k", "omega"] := by
  decide

/-! ## (5) Generated constants the model relies on -/

/-- `Blake2bState::absorb` / `squeeze` as read from the source: prefix then input; prefix then `finalize`; the two
prefixes are different bytes (an absorbed element can never be read as a challenge request), the state is keyed
with the domain separator and produces 64 bytes (what `Fq::from_uniform_bytes` consumes). -/
theorem blake_framing_constants :
    Gen.blakeAbsorbOps = ["prefix_common", "input"] ∧ Gen.blakeSqueezeOps = ["prefix_challenge", "finalize"] ∧
    Gen.blakePrefixCommon ≠ Gen.blakePrefixChallenge ∧ Gen.blakePrefixCommon < 256 ∧ Gen.blakePrefixChallenge < 256 ∧
    Gen.blakeDigestLen = 64 ∧ Gen.blakeKey.length = 31 ∧ Gen.vkDigestLen = 64 ∧ Gen.vkPersonal.length = 16 := by
  decide

/-- Sponge and limb parameters: rate 2 of width 3, capacity initialised to `2^64` in the unbounded mode (no input
length can reach it), 7 limbs of 56 bits hold a base-field element with room for the identity flag below the
scalar modulus, and the moduli agree with the ones used by the decoders of C16 and of this model. -/
theorem poseidon_and_limb_constants :
    Gen.poseidonRate = 2 ∧ Gen.poseidonWidth = 3 ∧ Gen.poseidonCapacityLog2 = 64 ∧
    Gen.emLog2Base = 56 ∧ Gen.emNbLimbs = 7 ∧ Gen.fpModulus < limbBase ^ Gen.emNbLimbs ∧
    2 * limbBase < Gen.fqModulus ∧ rModulus = Gen.fqModulus ∧ C16.fpP = Gen.fpModulus ∧ C16.fqR = Gen.fqModulus := by
  decide

/-! ## (6) Points with `y = 0`: the side condition of the first round is discharged -/

/-- **The decoder never yields a point with `y = 0`.** `G1Affine::from_compressed` checks `is_torsion_free`
(`[r]P = O`); on a candidate `(x, 0)` the double-and-add of the model returns `(x, 0, 1) ≠ O` because every doubling
gives `Z₃ = 2YZ = 0` and the last bit of the odd modulus `r` adds `(x, 0)` back. So every point read from a proof (or
accepted as a committed-instance commitment through the same decoder) satisfies `NoOrder2`, without any fact about
the curve's group order. -/
theorem decoded_point_no_order2 (bs : List Nat) (p : Pt) (h : g1Dec bs = some p) : NoOrder2 p :=
  g1Dec_noOrder2 h

/-- Values a successful parse returns are `ValOk NoOrder2`. -/
private theorem parseElemsWith_ok (tys : List Ty) : ∀ (bs : List Nat) (vs : List Val) (r : List Nat),
    parseElemsWith g1Dec tys bs = some (vs, r) → ∀ v ∈ vs, ValOk NoOrder2 v := by
  induction tys with
  | nil =>
    intro bs vs r h
    simp only [parseElemsWith, Option.some.injEq, Prod.mk.injEq] at h
    intro v hv; rw [← h.1] at hv; simp at hv
  | cons ty t ih =>
    intro bs vs r h
    unfold parseElemsWith at h
    by_cases la : bs.length < elemSize ty
    · simp [la] at h
    simp only [la, if_false] at h
    split at h
    · simp at h
    · next v hv =>
      simp only [Option.map_eq_some_iff, Prod.mk.injEq] at h
      obtain ⟨⟨vs', r'⟩, hp, h1, _⟩ := h
      simp only at h1
      subst h1
      intro w hw
      rcases List.mem_cons.mp hw with rfl | hw'
      · cases ty with
        | F =>
          simp only [decodeElemWith, Option.map_eq_some_iff] at hv
          obtain ⟨x, _, rfl⟩ := hv
          trivial
        | G =>
          simp only [decodeElemWith, Option.map_eq_some_iff] at hv
          obtain ⟨q, hq, rfl⟩ := hv
          exact g1Dec_noOrder2 hq
      · exact ih _ vs' r' hp w hw'

/-- **`proof_parse_injective` for the real decoder, at full strength** (no side condition left): two byte strings
that the verifier parses successfully into the same element sequence are the same byte string. Supersedes
`proof_parse_injective_g1_partial`. -/
theorem proof_parse_injective_g1 (sh : Shape) (cfg : Cfg) (a b : List Nat) (vs : List Val)
    (ha : parseProof (verifierSchedule sh cfg) a = some vs)
    (hb : parseProof (verifierSchedule sh cfg) b = some vs) : a = b := by
  refine proof_parse_injective_g1_partial sh cfg a b vs ?_ ha hb
  unfold parseProof parseProofWith at ha
  split at ha
  · next v hp =>
    simp only [Option.some.injEq] at ha
    subst ha
    exact parseElemsWith_ok _ _ _ _ hp
  · simp at ha

/-- `parsed_reencodes` without the side condition. -/
theorem parsed_reencodes_g1 (tys : List Ty) (bs : List Nat) (vs : List Val) (r : List Nat)
    (h : parseElemsWith g1Dec tys bs = some (vs, r)) : bs = encodeElems vs ++ r :=
  parsed_reencodes tys bs vs r (parseElemsWith_ok tys bs vs r h) h

/-! ## (7) Every entry point checks that the proof is exhausted -/

/-- **Where `assert_empty` is applied (generated from the sources).** Every function of `zk_stdlib/src/lib.rs` and
`zk_stdlib/src/utils/plonk_api.rs` that calls `prepare` — today `batch_verify` and `BlstPLONK::verify` (behind
`zk_stdlib::verify`) — calls `assert_empty` on the very transcript that was initialised from the proof bytes and
handed to `prepare`, after `prepare`, unconditionally (same block), with the error propagated; `assert_empty` still
compares buffer length and cursor, and `CircuitTranscript::init()` still starts from an empty buffer (so the check
applied to the auxiliary transcript of `batch_verify` would be vacuous — seed C03-4). Variable names are not fixed by
this statement, only the roles. -/
theorem entry_points_enforce_exhaustion :
    Gen.prepareCallers.map (fun c => (c.1, c.2.1))
      = [("zk_stdlib/src/lib.rs", "batch_verify"), ("zk_stdlib/src/utils/plonk_api.rs", "verify")] ∧
    (∀ c ∈ Gen.prepareCallers, enforcesExhaustion c.1 c.2.1 = true) ∧
    (∀ s ∈ Gen.assertSites, siteChecksRest s = true) ∧
    (∀ s ∈ Gen.assertSites, s.fn = "batch_verify" → s.receiver ≠ Gen.batchAuxTranscript) ∧
    Gen.initBufferEmpty = true ∧ Gen.assertEmptyComparesLenPos = true := by
  decide

/-- The per-member statements of `batch_verify`, by role: the transcript that is initialised from the member's proof
is the one `prepare` reads, the one the summary is squeezed from and the one `assert_empty` is applied to; the
summary goes into the other (auxiliary) transcript; `assert_empty` comes after `prepare`. -/
theorem batch_member_ops_roles :
    ∃ t pr : String, Gen.batchMemberOps = ["check_nb_public_inputs", "init_from_bytes:" ++ t ++ ":" ++ pr,
        "prepare:" ++ t, "squeeze_summary:" ++ t, "common_summary:" ++ Gen.batchAuxTranscript, "assert_empty:" ++ t,
        "ok_guard"] ∧ t ≠ Gen.batchAuxTranscript :=
  ⟨"transcript", "proof", by decide, by decide⟩

private theorem parseMember_true {dec : List Nat → Option Pt} (evs : List Ev) (bs : List Nat) :
    parseMember dec true evs bs = parseProofWith dec evs bs := by
  unfold parseMember parseProofWith
  split
  · next h => rw [h]
  · next vs rest h =>
    rw [h]
    cases rest with
    | nil => simp
    | cons x t => simp

/-- **`batch_accepted_length`.** If `zk_stdlib::batch_verify` gets past the parsing of all members, then EVERY
member's byte string is parsed exactly as the single verifier parses it — every element decodes and no byte is left
(`assert_empty` on the member's own transcript) — hence has exactly the length its key's schedule prescribes. The
exhaustion check is taken from the generated site list: if the receiver of `assert_empty` in `batch_verify` stops
being the proof transcript (seed C03-4), this theorem no longer compiles. -/
theorem batch_accepted_length {dec : List Nat → Option Pt} :
    ∀ (ms : List (List Ev × List Nat)) (vss : List (List Val)), batchParse dec ms = some vss →
      vss.length = ms.length ∧
      ∀ i (hi : i < ms.length), (∃ vs, vss[i]? = some vs ∧ parseProofWith dec (ms[i]).1 (ms[i]).2 = some vs) ∧
        (ms[i]).2.length = totalLen (ms[i]).1 := by
  have hex : enforcesExhaustion "zk_stdlib/src/lib.rs" "batch_verify" = true := by decide
  intro ms
  induction ms with
  | nil =>
    intro vss h
    simp only [batchParse, Option.some.injEq] at h
    subst h
    exact ⟨rfl, fun i hi => absurd hi (by simp)⟩
  | cons m t ih =>
    intro vss h
    obtain ⟨evs, bs⟩ := m
    simp only [batchParse, hex, parseMember_true] at h
    split at h
    · simp at h
    · next vs hvs =>
      simp only [Option.map_eq_some_iff] at h
      obtain ⟨rest, hrest, rfl⟩ := h
      obtain ⟨hl, hall⟩ := ih rest hrest
      refine ⟨by simp [hl], ?_⟩
      intro i hi
      cases i with
      | zero =>
        refine ⟨⟨vs, by simp, hvs⟩, ?_⟩
        simp only [List.getElem_cons_zero]
        unfold parseProofWith at hvs
        split at hvs
        · next v hp =>
          have := (parseElemsWith_length _ _ _ _ hp).1
          rw [sizes_totalLen] at this
          simpa using this
        · simp at hvs
      | succ j =>
        have hj : j < t.length := by simpa using hi
        simpa using hall j hj

/-- The single entry point (`BlstPLONK::verify`, behind `zk_stdlib::verify`) parses exactly like `parseProofWith`
(elements, then `assert_empty`): `accepted_length` / `parsed_length` apply to it as they stand. -/
theorem verify_parse_eq {dec : List Nat → Option Pt} (evs : List Ev) (bs : List Nat) :
    verifyParse dec evs bs = parseProofWith dec evs bs := by
  have hex : enforcesExhaustion "zk_stdlib/src/utils/plonk_api.rs" "verify" = true := by decide
  unfold verifyParse
  rw [hex, parseMember_true]

/-- **The entry points agree at the parsing level**: a singleton batch is parsed exactly like a single verification,
and a batch is accepted at the parsing level iff every member is (no member can hide trailing bytes behind another). -/
theorem batch_parse_iff {dec : List Nat → Option Pt} (ms : List (List Ev × List Nat)) :
    (batchParse dec ms).isSome = ms.all fun m => (verifyParse dec m.1 m.2).isSome := by
  have hex : enforcesExhaustion "zk_stdlib/src/lib.rs" "batch_verify" = true := by decide
  induction ms with
  | nil => rfl
  | cons m t ih =>
    obtain ⟨evs, bs⟩ := m
    simp only [batchParse, List.all_cons, verify_parse_eq, hex, parseMember_true]
    cases h : parseProofWith dec evs bs with
    | none => simp
    | some vs =>
      simp only [Option.isSome_some, Bool.true_and, Option.isSome_map]
      rw [ih]
      simp [verify_parse_eq]

/-- The index the driver prints for a `batchparse` request is `none` exactly when `batchParse` succeeds (the two
functions walk the members in the same order and stop at the same member). -/
theorem batch_first_bad_none_iff {dec : List Nat → Option Pt} (ms : List (List Ev × List Nat)) (i : Nat) :
    batchFirstBad dec ms i = none ↔ (batchParse dec ms).isSome = true := by
  induction ms generalizing i with
  | nil => simp [batchFirstBad, batchParse]
  | cons m t ih =>
    obtain ⟨evs, bs⟩ := m
    simp only [batchFirstBad, batchParse]
    cases parseMember dec (enforcesExhaustion "zk_stdlib/src/lib.rs" "batch_verify") evs bs with
    | none => simp
    | some vs => simp only [Option.isSome_map]; exact ih (i + 1)

/-- Non-vacuity of the model of the WRONG receiver (what seed C03-4 does): without the exhaustion check a member
followed by junk is accepted at the parsing level, with it the same bytes are rejected. -/
example : (parseMember g1Dec false [elemF .randomEval] (encodeScalar 5 ++ [0])).isSome = true ∧
    (parseMember g1Dec true [elemF .randomEval] (encodeScalar 5 ++ [0])).isSome = false ∧
    (parseMember g1Dec true [elemF .randomEval] (encodeScalar 5)).isSome = true := by
  decide +kernel

/-! ## (8) The executable instance evaluation IS the field-level one -/

/-- **`C02.instanceEvals` computes `instEval` (mod `p`).** The natural-number function that C02 runs against the
real `verifier.rs: instance_evals` on every proof, cast to `ZMod p` (`p` prime, `> 2`), equals the field-level
expression `Σ_i a_i·ℓ_i(·)` of `instance_eval_binds`, with `nF = N = 2^k`, nodes `ω^i`, at `ω^rot·x` for a query at
rotation `rot`. The link between the two, formerly "by correspondence", is this theorem. -/
theorem instance_evals_exec_is_inst_eval (f : C02.Ids.Fld) [Fact f.p.Prime] (hp2 : 2 < f.p) (cs : C02.Ids.VCS)
    (hω : IsPrimitiveRoot (C02.Lag.omegaZ f cs.k) (2 ^ cs.k))
    (nCommitted x maxLen : ℕ) (plain : List (List ℕ)) (cev : ℕ → ℕ)
    (hx : (x : ZMod f.p) ^ (2 ^ cs.k) ≠ 1) (qi : ℕ) (hqi : qi < cs.instanceQueries.length)
    (hplain : nCommitted ≤ (cs.instanceQueries[qi]).1)
    (hlen : (plain.getD ((cs.instanceQueries[qi]).1 - nCommitted) []).length ≤ maxLen)
    (hln : (plain.getD ((cs.instanceQueries[qi]).1 - nCommitted) []).length ≤ 2 ^ cs.k) :
    (((C02.Ids.instanceEvals f cs nCommitted x (C02.Ids.xnOf f.p cs.k x) maxLen plain cev).getD qi 0 : ℕ) : ZMod f.p) =
      instEval (((2 ^ cs.k : ℕ) : ZMod f.p)) (2 ^ cs.k) (fun i => (C02.Lag.omegaZ f cs.k) ^ i)
        (plain.getD ((cs.instanceQueries[qi]).1 - nCommitted) []).length
        (fun i => (((plain.getD ((cs.instanceQueries[qi]).1 - nCommitted) []).getD i 0 : ℕ) : ZMod f.p))
        ((C02.Lag.omegaZ f cs.k) ^ (cs.instanceQueries[qi]).2 * (x : ZMod f.p)) :=
  instanceEvals_eq_instEval f hp2 cs hω nCommitted x maxLen plain cev hx qi hqi hplain hlen hln

/-- **`instance_eval_binds` at the level of the executable function**: two tables of plain instance columns whose
column behind query `qi` differs (same length `m`, canonical values) get the same evaluation from
`C02.instanceEvals` for at most `m − 1` challenges `x < p` off the domain. -/
theorem instance_eval_binds_exec (f : C02.Ids.Fld) [Fact f.p.Prime] (hp2 : 2 < f.p) (cs : C02.Ids.VCS)
    (hω : IsPrimitiveRoot (C02.Lag.omegaZ f cs.k) (2 ^ cs.k))
    (nCommitted maxLen : ℕ) (plainA plainB : List (List ℕ)) (cev : ℕ → ℕ)
    (qi : ℕ) (hqi : qi < cs.instanceQueries.length) (hplain : nCommitted ≤ (cs.instanceQueries[qi]).1)
    (colA colB : List ℕ)
    (hA : plainA.getD ((cs.instanceQueries[qi]).1 - nCommitted) [] = colA)
    (hB : plainB.getD ((cs.instanceQueries[qi]).1 - nCommitted) [] = colB)
    (hlenEq : colA.length = colB.length) (hlen : colA.length ≤ maxLen) (hln : colA.length ≤ 2 ^ cs.k)
    (hvA : ∀ v ∈ colA, v < f.p) (hvB : ∀ v ∈ colB, v < f.p) (hne : colA ≠ colB)
    (S : Finset ℕ)
    (hS : ∀ x ∈ S, x < f.p ∧ (x : ZMod f.p) ^ (2 ^ cs.k) ≠ 1 ∧
      (C02.Ids.instanceEvals f cs nCommitted x (C02.Ids.xnOf f.p cs.k x) maxLen plainA cev).getD qi 0
        = (C02.Ids.instanceEvals f cs nCommitted x (C02.Ids.xnOf f.p cs.k x) maxLen plainB cev).getD qi 0) :
    S.card ≤ colA.length - 1 :=
  instanceEvals_binds f hp2 cs hω nCommitted maxLen plainA plainB cev qi hqi hplain colA colB hA hB hlenEq hlen hln
    hvA hvB hne S hS

/-! ## (9) What `transcript_repr` covers of the constraint system -/

/-- **The condition of the multi-phase fields, as the source has it TODAY** (regenerated): the fields
`num_challenges`, `advice_column_phase`, `challenge_phase` are printed iff there is a challenge OR some advice column
is not in the first phase. Before the repair (only `num_challenges > 0`) the phase of an unqueried advice column of a
circuit without challenges was in no printed field: this statement, and with it
`vk_repr_injective_on_verifier_view_partial`, fails for the old condition. -/
theorem pinned_phase_condition (nch : Nat) (ap : List Nat) :
    Gen.csDebugPhaseCondition = ["num_challenges>0", "advice_phase_not_first"] ∧
    showPhaseFields nch ap = (decide (0 < nch) || ap.any (· != 0)) := by
  refine ⟨by decide, ?_⟩
  simp [showPhaseFields, Gen.csDebugPhaseCondition, phaseCondHolds]

/-- The order of the printed fields as the source has it TODAY, with and without the multi-phase block. -/
theorem csDebugFieldNames_eq (sh : Bool) :
    csDebugFieldNames sh = if sh then
        ["num_fixed_columns", "num_advice_columns", "num_instance_columns", "num_selectors", "num_challenges",
          "advice_column_phase", "challenge_phase", "gates", "advice_queries", "instance_queries", "fixed_queries",
          "permutation", "lookups", "trashcans", "constants", "minimum_degree"]
      else
        ["num_fixed_columns", "num_advice_columns", "num_instance_columns", "num_selectors", "gates",
          "advice_queries", "instance_queries", "fixed_queries", "permutation", "lookups", "trashcans", "constants",
          "minimum_degree"] := by
  cases sh <;> simp [csDebugFieldNames, Gen.csDebugOrder]

private theorem aq_eq {a b : CSView}
    (h : (a.adviceQueries.map fun q => (q.1, shownPhase (a.advicePhase.getD q.1 0), q.2))
       = (b.adviceQueries.map fun q => (q.1, shownPhase (b.advicePhase.getD q.1 0), q.2))) :
    a.adviceQueries = b.adviceQueries := by
  have h1 := congrArg (List.map fun t : Nat × Option Nat × Int => (t.1, t.2.2)) h
  simpa only [List.map_map, Function.comp_def, Prod.mk.eta, List.map_id'] using h1

/-- A phase list without a later phase is all zeros. -/
private theorem all_zero_of_not_any : ∀ (l : List Nat), l.any (· != 0) = false → l = List.replicate l.length 0
  | [], _ => rfl
  | x :: t, h => by
    simp only [List.any_cons, Bool.or_eq_false_iff, bne_eq_false_iff_eq] at h
    rw [List.length_cons, List.replicate_succ, h.1, ← all_zero_of_not_any t h.2]

/-- Well-formed view: one phase per advice column (`advice_column_in` pushes to `advice_column_phase` and increments
`num_advice_columns` together). -/
abbrev CSView.WF (v : CSView) : Prop := v.advicePhase.length = v.numAdvice

/-- **`vk_repr_injective_on_verifier_view` — no constraint-system field is left out any more.** The `cs` component of
the buffer hashed into `transcript_repr` is a function of `pinnedFields` (the (name, value) pairs `Debug for
PinnedConstraintSystem` prints, order and condition regenerated from the source). Two well-formed constraint systems
with the same `pinnedFields` are EQUAL as `CSView`s — every member of `PinnedConstraintSystem`, including
`advice_column_phase` (when the multi-phase block is not printed, both systems have every advice column in the first
phase, and the number of advice columns is printed) — so their verifiers read the same things in the same order
(`verifierView`, `adviceReadOrder`). Still named `_partial` for ONE stated reason only: the `Debug` formatting of
the individual members (gates, query lists, permutation, lookups, trashcans, constants, `minimum_degree`) is opaque
in the model, i.e. that two different values of such a member are printed differently is assumed, not proved. -/
theorem vk_repr_injective_on_verifier_view_partial (a b : CSView) (wa : a.WF) (wb : b.WF)
    (h : pinnedFields a = pinnedFields b) : a = b ∧ verifierView a = verifierView b := by
  suffices hab : a = b from ⟨hab, by rw [hab]⟩
  unfold pinnedFields at h
  rw [csDebugFieldNames_eq, csDebugFieldNames_eq] at h
  have ca := (pinned_phase_condition a.challengePhase.length a.advicePhase).2
  have cb := (pinned_phase_condition b.challengePhase.length b.advicePhase).2
  cases ha : showPhaseFields a.challengePhase.length a.advicePhase <;>
    cases hb : showPhaseFields b.challengePhase.length b.advicePhase
  · -- block shown for neither: no challenge, every phase is the first one
    simp only [ha, hb, Bool.false_eq_true, if_false, List.map_cons, List.map_nil, fieldValue, List.cons.injEq,
      Prod.mk.injEq, true_and, Option.some.injEq, FieldVal.nat.injEq, FieldVal.str.injEq, FieldVal.aq.injEq,
      and_true] at h
    obtain ⟨h1, h2, h3, h4, h8, h9, h10, h11, h12, h13, h14, h15, h16⟩ := h
    have hq := aq_eq h9
    rw [ha] at ca
    rw [hb] at cb
    simp only [Bool.false_eq, Bool.or_eq_false_iff, decide_eq_false_iff_not, Nat.not_lt, Nat.le_zero_eq] at ca cb
    have ea : a.challengePhase = [] := List.eq_nil_of_length_eq_zero ca.1
    have eb : b.challengePhase = [] := List.eq_nil_of_length_eq_zero cb.1
    have pa := all_zero_of_not_any _ ca.2
    have pb := all_zero_of_not_any _ cb.2
    have hp : a.advicePhase = b.advicePhase := by
      rw [pa, pb, wa, wb, h2]
    have hc : a.challengePhase = b.challengePhase := by rw [ea, eb]
    cases a; cases b
    simp only [CSView.mk.injEq]
    exact ⟨h1, h2, h3, h4, hp, hc, hq, h8, h10, h11, h12, h13, h14, h15, h16⟩
  · exfalso
    simp only [ha, hb, if_true, Bool.false_eq_true, if_false, List.map_cons, List.map_nil] at h
    have := congrArg List.length h
    simp at this
  · exfalso
    simp only [ha, hb, if_true, Bool.false_eq_true, if_false, List.map_cons, List.map_nil] at h
    have := congrArg List.length h
    simp at this
  · simp only [ha, hb, if_true, List.map_cons, List.map_nil, fieldValue, List.cons.injEq, Prod.mk.injEq, true_and,
      Option.some.injEq, FieldVal.nat.injEq, FieldVal.nats.injEq, FieldVal.str.injEq, FieldVal.aq.injEq, and_true] at h
    obtain ⟨h1, h2, h3, h4, _, h6, h7, h8, h9, h10, h11, h12, h13, h14, h15, h16⟩ := h
    have hq := aq_eq h9
    cases a; cases b
    simp only [CSView.mk.injEq]
    exact ⟨h1, h2, h3, h4, h6, h7, hq, h8, h10, h11, h12, h13, h14, h15, h16⟩

/-- **The former gap is closed (regression pair).** The two constraint systems of the harness's `MiniCircuit` pair —
unqueried advice column `u` in the second resp. first phase, no challenge — whose verifiers read the advice
commitments in different orders (and whose C01 schedules differ) now have DIFFERENT `pinnedFields`: the first one
prints `advice_column_phase: [0, 1, 0]`. (With the condition of the code before the repair their `pinnedFields`
were equal.) The harness checks the same on the real code on every run: the two `transcript_repr`s differ and the
cross-verification is rejected. -/
theorem pinned_fields_separate_phase_pair :
    let a : CSView := ⟨1, 3, 2, 1, [0, 1, 0], [], [(0, 0), (2, 0)], "g", "i", "f", "p", "l", "t", "c", "m"⟩
    let b : CSView := { a with advicePhase := [0, 0, 0] }
    a.WF ∧ b.WF ∧ pinnedFields a ≠ pinnedFields b ∧
    (pinnedFields a).lookup "advice_column_phase" = some (some (.nats [0, 1, 0])) ∧
    (pinnedFields b).lookup "advice_column_phase" = none ∧
    adviceReadOrder a.advicePhase = [0, 2, 1] ∧ adviceReadOrder b.advicePhase = [0, 1, 2] ∧
    let sh (ap : List Nat) : Shape := ⟨ap, [], [(0, 0), (2, 0)], [(0, 0), (1, 0)], [(0, 0)], 0, 0, 4, 3, 5, 4⟩
    verifierSchedule (sh [0, 1, 0]) ⟨1, 0, [[1, 1]]⟩ ≠ verifierSchedule (sh [0, 0, 0]) ⟨1, 0, [[1, 1]]⟩ := by
  decide

/-- Non-vacuity of `vk_repr_injective_on_verifier_view_partial`: a well-formed view with a challenge, and one
without challenge and without later phase. -/
example : let a : CSView := ⟨1, 2, 1, 1, [0, 1], [0], [(0, 0)], "g", "i", "f", "p", "l", "t", "c", "m"⟩
    let b : CSView := ⟨1, 2, 1, 1, [0, 0], [], [(0, 0)], "g", "i", "f", "p", "l", "t", "c", "m"⟩
    a.WF ∧ b.WF ∧ pinnedFields a = pinnedFields a ∧ (pinnedFields a).length = 16 ∧ (pinnedFields b).length = 13 := by
  decide

end MidnightZK.C03
