import MidnightZK.Model.Common
/-! Line-protocol handler of property C18 (stub: answers `unimplemented`). -/
namespace MidnightZK.C18.Driver

def answer (_line : String) : String := "unimplemented"

end MidnightZK.C18.Driver

/-- `mzk-c18 < ops.txt > model.txt` : one answer line per request line. -/
def main : IO UInt32 := do
  MidnightZK.lineLoop (← IO.getStdin) (← IO.getStdout) MidnightZK.C18.Driver.answer
  return 0
