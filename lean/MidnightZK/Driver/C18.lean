import MidnightZK.Model.Common
import MidnightZK.Model.C18.In
import MidnightZK.Model.C18.Compare
import MidnightZK.Model.C18.BinDec
import MidnightZK.Model.C18.Json
import MidnightZK.Gen.C18Serde
/-! Line-protocol handler of property C18.

Request: `run <instr>... | <name>=<value>... | <hash-table>...`
Answer:  `load:.. | trace:.. | off:.. | cmp:.. | shp:.. | ieq:.. | arch:.. | pi:.. | mock:.. | bin:.. | json:..`
(the same sections the harness `h-c18` prints for the real implementation).

Request: `dec <size_of Instruction> <size_of String> <hex bytes>` (`read_relation` on bytes)
Answer:  `ok rest=<unread> canon=<0|1> <program>` | `err:<class>`

Request: `json <tree tokens>` (`ZkirRelation::read` on the JSON text of the tree)
Answer:  `ok <program>` | `err:<class>` -/
namespace MidnightZK.C18.Driver
open MidnightZK MidnightZK.C18

def hexNoPrefix (n : Nat) : String := String.ofList (toHexAux n [])

def hex2 (b : Nat) : String := String.ofList [hexDigit (b / 16), hexDigit (b % 16)]

def hexBytes (bs : List Nat) : String := String.join (bs.map hex2)

def parseHexBytes? (s : String) : Option (List Nat) := hexPairs s.toList

def parseHexNat? (s : String) : Option Nat := if s.isEmpty then none else hexNat s.toList 0

def fmtTy : IrType → String
  | .bool => "bool"
  | .bytes n => s!"bytes.{n}"
  | .native => "native"
  | .big n => s!"big.{n}"
  | .point => "point"
  | .scalar => "scalar"

def parseTy? (parts : List String) : Option IrType :=
  match parts with
  | ["bool"] => some .bool
  | ["bytes", n] => n.toNat?.map .bytes
  | ["native"] => some .native
  | ["big", n] => n.toNat?.map .big
  | ["point"] => some .point
  | ["scalar"] => some .scalar
  | _ => none

def fmtVal : IrValue → String
  | .bool b => if b then "b:1" else "b:0"
  | .bytes bs => "y:" ++ hexBytes bs
  | .native x => "n:" ++ hexNoPrefix x
  | .big x => "u:" ++ hexNoPrefix x
  | .point u v => "p:" ++ hexNoPrefix u ++ "/" ++ hexNoPrefix v
  | .scalar s => "s:" ++ hexNoPrefix s

def parseVal? (s : String) : Option IrValue :=
  match s.splitOn ":" with
  | ["b", "1"] => some (.bool true)
  | ["b", "0"] => some (.bool false)
  | ["y", h] => (parseHexBytes? h).map .bytes
  | ["n", h] => (parseHexNat? h).map .native
  | ["u", h] => (parseHexNat? h).map .big
  | ["s", h] => (parseHexNat? h).map .scalar
  | ["p", h] =>
    match h.splitOn "/" with
    | [u, v] => match parseHexNat? u, parseHexNat? v with
      | some u, some v => some (.point u v)
      | _, _ => none
    | _ => none
  | _ => none

def parseOp? (s : String) : Option Op :=
  match s.splitOn "." with
  | "load" :: t => (parseTy? t).map .load
  | ["publish"] => some .publish
  | ["assert_eq"] => some .assertEq
  | ["assert_ne"] => some .assertNe
  | ["is_eq"] => some .isEq
  | ["add"] => some .add
  | ["sub"] => some .sub
  | ["mul"] => some .mul
  | ["neg"] => some .neg
  | ["mod_exp", n] => n.toNat?.map .modExp
  | ["inner_product"] => some .innerProduct
  | ["affine"] => some .affine
  | ["into_bytes", n] => n.toNat?.map .intoBytes
  | "from_bytes" :: t => (parseTy? t).map .fromBytes
  | ["poseidon"] => some .poseidon
  | ["sha256"] => some .sha256
  | ["sha512"] => some .sha512
  | _ => none

def parseNames (s : String) : List String :=
  if s.isEmpty then [] else (s.splitOn ",").map (fun n => if n = "%" then "" else n)

def parseInstr? (s : String) : Option Instr :=
  match s.splitOn ";" with
  | [op, ins, outs] => (parseOp? op).map (fun o => { op := o, ins := parseNames ins, outs := parseNames outs })
  | _ => none

/-- Rust `Debug` of `IrType`. -/
def dbgTy : IrType → String
  | .bool => "Bool"
  | .bytes n => s!"Bytes({n})"
  | .native => "Native"
  | .big n => s!"BigUint({n})"
  | .point => "JubjubPoint"
  | .scalar => "JubjubScalar"

/-- Rust `Debug` of `Operation`. -/
def dbgOp : Op → String
  | .load t => s!"Load({dbgTy t})"
  | .publish => "Publish"
  | .assertEq => "AssertEqual"
  | .assertNe => "AssertNotEqual"
  | .isEq => "IsEqual"
  | .add => "Add"
  | .sub => "Sub"
  | .mul => "Mul"
  | .neg => "Neg"
  | .modExp n => s!"ModExp({n})"
  | .innerProduct => "InnerProduct"
  | .affine => "AffineCoordinates"
  | .intoBytes n => s!"IntoBytes({n})"
  | .fromBytes t => s!"FromBytes({dbgTy t})"
  | .poseidon => "Poseidon"
  | .sha256 => "Sha256"
  | .sha512 => "Sha512"

/-- Canonical error class (the harness derives the same string from the Rust `Debug` text). -/
def fmtErr : Err → String
  | .arity op => s!"wrong_arity:_'{dbgOp op}'"
  | .notFound n => s!"'{n}'_not_found"
  | .dup n => s!"'{n}'_already_exists"
  | .expecting a b => s!"type_{dbgTy a}_was_expected_instead_of_{dbgTy b}"
  | .unsupported op ts => s!"{dbgOp op}_is_not_supported_on_[{",_".intercalate (ts.map dbgTy)}]"
  | .assertion => "other:assert"
  | .underflow => "other:underflow"
  | .cannotConvert => "other:cannot-convert"
  | .zeroModulus => "other:zero-modulus"
  | .typeConvert => "other:type-convert"
  | .expectingBytes => "other:expecting-bytes"
  | .invalidLength => "other:invalid-length"
  | .panic _ => "panic"

structure Request where
  prog : Program
  wit : Witness
  hashes : List (String × String)

def parseRequest? (toks : List String) : Option Request := do
  let rec go (toks : List String) (sec : Nat) (r : Request) : Option Request :=
    match toks with
    | [] => some r
    | "|" :: rest => go rest (sec + 1) r
    | t :: rest =>
      if sec = 0 then
        match parseInstr? t with
        | some i => go rest sec { r with prog := r.prog ++ [i] }
        | none => none
      else if sec = 1 then
        match t.splitOn "=" with
        | [n, v] => match parseVal? v with
          | some v => go rest sec { r with wit := r.wit ++ [((if n = "%" then "" else n), v)] }
          | none => none
        | _ => none
      else
        match t.splitOn "=" with
        | [k, v] => go rest sec { r with hashes := r.hashes ++ [(k, v)] }
        | _ => none
  go toks 0 { prog := [], wit := [], hashes := [] }

/-- The hash functions as the table passed with the request (uninterpreted in the model). -/
def mkHashes (tbl : List (String × String)) : Hashes :=
  { sha256 := fun bs => match lookup ("sha256:" ++ hexBytes bs) tbl with
      | some o => (parseHexBytes? o).getD [] | none => List.replicate 32 0
    sha512 := fun bs => match lookup ("sha512:" ++ hexBytes bs) tbl with
      | some o => (parseHexBytes? o).getD [] | none => List.replicate 64 0
    poseidon := fun xs => match lookup ("poseidon:" ++ ",".intercalate (xs.map hexNoPrefix)) tbl with
      | some o => (parseHexNat? o).getD 0 | none => 0 }

def joinWith (sep : String) (l : List String) : String := sep.intercalate l

/-- Off-circuit run with the per-instruction trace (inputs and outputs resolved in the
memory after the instruction). Returns the trace tokens and the final verdict. -/
def traceOff (H : Hashes) (w : Witness) : Nat → OffState → Program → List String →
    List String × Except (Nat × Err) OffState
  | _, st, [], acc => (acc.reverse, .ok st)
  | k, st, i :: rest, acc =>
    match stepOff H w st i with
    | .error e => (acc.reverse, .error (k, e))
    | .ok st' =>
      let vals (names : List String) : String :=
        joinWith "," (names.map (fun n => match resolveOff st'.mem n with
          | .ok v => fmtVal v | .error _ => "?"))
      traceOff H w (k + 1) st' rest ((vals i.ins ++ ">" ++ vals i.outs) :: acc)

def stripPublish (p : Program) : Program := p.filter (fun i => i.op ≠ .publish)

/-- The program with `Publish <outputs>` inserted after every instruction that has outputs: its
witness-free pass records the in-circuit type of every intermediate value (`shp:` section). -/
def interleavePublish (p : Program) : Program :=
  p.flatMap (fun i => if i.outs.isEmpty then [i] else [i, ⟨.publish, i.outs, []⟩])

/-- Do the public inputs bound by the circuit match the instance column built from `given`
(missing entries of the column are zero)? -/
def piMatch : List Nat → List Nat → Bool
  | [], _ => true
  | c :: cs, [] => c == 0 && piMatch cs []
  | c :: cs, g :: gs => c == g && piMatch cs gs

def mockVerdict (H : Hashes) (p : Program) (w : Witness) (given : List Nat) : String :=
  match runIn H (some w) {} p with
  | .error e => if e.isPanic then "panic" else "err:" ++ fmtErr e
  | .ok st => if st.sat && piMatch st.pis given then "sat" else "unsat"

/-! ## Serialisation requests -/

/-- A name as the hex of its UTF-8 bytes, prefixed by `x` (decoded names are arbitrary strings). -/
def fmtNameHex (n : String) : String := "x" ++ hexBytes (strBytes n)

def fmtOp : Op → String
  | .load t => "load." ++ fmtTy t
  | .publish => "publish"
  | .assertEq => "assert_eq"
  | .assertNe => "assert_ne"
  | .isEq => "is_eq"
  | .add => "add"
  | .sub => "sub"
  | .mul => "mul"
  | .neg => "neg"
  | .modExp n => s!"mod_exp.{n}"
  | .innerProduct => "inner_product"
  | .affine => "affine"
  | .intoBytes n => s!"into_bytes.{n}"
  | .fromBytes t => "from_bytes." ++ fmtTy t
  | .poseidon => "poseidon"
  | .sha256 => "sha256"
  | .sha512 => "sha512"

def fmtInstrHex (i : Instr) : String :=
  fmtOp i.op ++ ";" ++ joinWith "," (i.ins.map fmtNameHex) ++ ";" ++ joinWith "," (i.outs.map fmtNameHex)

def fmtProgHex (p : Program) : String := joinWith " " (s!"n={p.length}" :: p.map fmtInstrHex)

def fmtDErr : DErr → String
  | .eof => "eof" | .varint => "varint" | .tag => "tag" | .utf8 => "utf8" | .limit => "limit"
  | .nonMinimal => "non-minimal"

/-- `dec`: the real decoder's verdict, the decoded program, the number of unread bytes, and
whether the strict decoder accepts the same input (= the consumed bytes are the canonical
encoding of the decoded program). -/
def answerDec (sizeInstr sizeString : Nat) (bs : List Nat) : String :=
  let P : BParams := ⟨sizeInstr, sizeString, Gen.programDecodingLimit⟩
  match readRelation P bs with
  | .error (.decode e) => "err:" ++ fmtDErr e
  | .error (.load e) => "err:load:" ++ fmtErr e
  | .ok (p, rest) =>
    let canon := match decodeBinPrefix true P bs with
      | .ok _ => "1"
      | .error _ => "0"
    s!"ok rest={rest.length} canon={canon} " ++ fmtProgHex p

/-- JSON tree tokens: `z` null, `t` / `f` booleans, `n<int>` integer, `d` other number,
`s<hex>` string, `[ .. ]` array, `{ k<hex> value .. }` object. -/
partial def parseJson (toks : List String) : Option (Json × List String) :=
  match toks with
  | [] => none
  | "z" :: r => some (.null, r)
  | "t" :: r => some (.bool true, r)
  | "f" :: r => some (.bool false, r)
  | "d" :: r => some (.float, r)
  | "[" :: r => arr r []
  | "{" :: r => obj r []
  | t :: r =>
    if t.startsWith "n" then (t.drop 1).toString.toInt?.map (fun n => (.num n, r))
    else if t.startsWith "s" then
      ((parseHexBytes? (t.drop 1).toString).bind bytesStr?).map (fun s => (.str s, r))
    else none
where
  arr (toks : List String) (acc : List Json) : Option (Json × List String) :=
    match toks with
    | "]" :: r => some (.arr acc.reverse, r)
    | _ => match parseJson toks with
      | some (j, r) => arr r (j :: acc)
      | none => none
  obj (toks : List String) (acc : List (String × Json)) : Option (Json × List String) :=
    match toks with
    | "}" :: r => some (.obj acc.reverse, r)
    | k :: r =>
      if k.startsWith "k" then
        match (parseHexBytes? (k.drop 1).toString).bind bytesStr? with
        | some key => match parseJson r with
          | some (j, r2) => obj r2 ((key, j) :: acc)
          | none => none
        | none => none
      else none
    | [] => none

def fmtJErr : JErr → String
  | .missingField f => "missing-field:" ++ f
  | .duplicateField f => "duplicate-field:" ++ f
  | .unknownVariant _ => "unknown-variant"
  | .invalidType => "invalid-type"
  | .invalidValue => "invalid-value"
  | .invalidLength => "invalid-length"
  | .syntax => "syntax"

/-- `json`: `ZkirRelation::read` = `serde_json::from_str::<Program>` then `from_instructions`. -/
def answerJson (j : Json) : String :=
  match fromJson j with
  | .error e => "err:" ++ fmtJErr e
  | .ok p =>
    match loadProgram p with
    | .error e => "err:load:" ++ fmtErr e
    | .ok () => "ok " ++ fmtProgHex p

/-- serde_json's string escaping (`ser.rs: format_escaped_str`). -/
def jsonEscape (s : String) : String :=
  String.join (s.toList.map (fun c =>
    if c = '"' then "\\\"" else if c = '\\' then "\\\\"
    else if c = '\n' then "\\n" else if c = '\r' then "\\r" else if c = '\t' then "\\t"
    else if c.toNat = 8 then "\\b" else if c.toNat = 12 then "\\f"
    else if c.toNat < 32 then "\\u00" ++ hex2 c.toNat
    else c.toString))

/-- Compact JSON text (`serde_json::to_string`). -/
partial def jsonText : Json → String
  | .null => "null"
  | .bool b => if b then "true" else "false"
  | .num n => toString n
  | .float => "0.5"
  | .str s => "\"" ++ jsonEscape s ++ "\""
  | .arr l => "[" ++ joinWith "," (l.map jsonText) ++ "]"
  | .obj kvs => "{" ++ joinWith "," (kvs.map (fun (k, v) => "\"" ++ jsonEscape k ++ "\":" ++ jsonText v)) ++ "}"

def answerRun (withMock : Bool) (r : Request) : String :=
  let H := mkHashes r.hashes
  match loadProgram r.prog with
  | .error e => "load:" ++ fmtErr e
  | .ok () =>
    let (trace, offRes) := traceOff H r.wit 0 {} r.prog []
    let offS := match offRes with
      | .ok st => "ok:" ++ joinWith "," (st.pis.map fmtVal)
      | .error (k, e) => if e.isPanic then s!"panic@{k}" else s!"err@{k}:{fmtErr e}"
    let cmp := compile H r.prog
    let cmpS := match cmp with
      | .ok ts => "ok:" ++ joinWith "," (ts.map fmtTy)
      | .error e => if e.isPanic then "panic" else "err:" ++ fmtErr e
    -- in-circuit types of the outputs of every instruction (see `interleavePublish`)
    let shpS := match compile H (interleavePublish r.prog) with
      | .ok ts => "ok:" ++ joinWith "," (ts.map fmtTy)
      | .error e => if e.isPanic then "panic" else "err:" ++ fmtErr e
    -- gadget calls laid out by every comparison instruction (see `cmpTrace`)
    let ieqS := joinWith "," ((cmpTrace H 0 {} r.prog).map (fun (k, e, a) => s!"{k}:{e}/{a}"))
    let b01 (b : Bool) : String := if b then "1" else "0"
    let archS := match usedChips r.prog with
      | (j, p, s2, s5) => s!"jubjub={b01 j},poseidon={b01 p},sha2_256={b01 s2},sha2_512={b01 s5},others=0,pow2range_cols=4"
    -- `public_inputs` skips the in-circuit pass when nothing is published
    let pi : Option (Except Err (List Nat)) := match offRes, cmp with
      | .ok st, .ok ts => some (encodePI st.pis ts)
      | .ok st, .error _ => if st.pis.isEmpty then some (.ok []) else none
      | _, _ => none
    let piS := match pi with
      | none => "-"
      | some (.ok fs) => "ok:" ++ joinWith "," (fs.map hexNoPrefix)
      | some (.error _) => "err"
    let mockS := if !withMock then "-" else match cmp with
      | .error _ => "-"
      | .ok _ =>
        match offRes, pi with
        | .ok _, some (.ok fs) => mockVerdict H r.prog r.wit fs
        | .error (k, _), _ => "np:" ++ mockVerdict H (stripPublish (r.prog.take (k + 1))) r.wit []
        | _, _ => "-"
    joinWith " | " ["load:ok", "trace:" ++ joinWith " " trace, "off:" ++ offS, "cmp:" ++ cmpS,
      "shp:" ++ shpS, "ieq:" ++ ieqS, "arch:" ++ archS, "pi:" ++ piS, "mock:" ++ mockS, "bin:" ++ hexBytes (encodeBin r.prog),
      "json:" ++ jsonText (toJson r.prog)]

def answer (line : String) : String :=
  match words line with
  | "run" :: rest =>
    match parseRequest? rest with
    | some r => answerRun true r
    | none => "bad-op"
  | "run0" :: rest =>
    match parseRequest? rest with
    | some r => answerRun false r
    | none => "bad-op"
  | ["dec", si, ss, h] =>
    match si.toNat?, ss.toNat?, parseHexBytes? (if h = "-" then "" else h) with
    | some si, some ss, some bs => answerDec si ss bs
    | _, _, _ => "bad-op"
  | "json" :: rest =>
    match parseJson rest with
    | some (j, []) => answerJson j
    | _ => "bad-op"
  | _ => "bad-op"

end MidnightZK.C18.Driver

/-- `mzk-c18 < ops.txt > model.txt` : one answer line per request line. -/
def main : IO UInt32 := do
  MidnightZK.lineLoop (← IO.getStdin) (← IO.getStdout) MidnightZK.C18.Driver.answer
  return 0
