import MidnightZK.Model.Common
/-! Line-protocol handler of property C18 (stub: answers `unimplemented`). -/
namespace MidnightZK.C18.Driver

def answer (_line : String) : String := "unimplemented"

end MidnightZK.C18.Driver
