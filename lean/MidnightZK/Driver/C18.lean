import MidnightZK.Model.Common
import MidnightZK.Model.C18.In
import MidnightZK.Model.C18.Bin
/-! Line-protocol handler of property C18.

Request: `run <instr>... | <name>=<value>... | <hash-table>...`
Answer:  `load:.. | trace:.. | off:.. | cmp:.. | pi:.. | mock:.. | bin:..`
(the same sections the harness `h-c18` prints for the real implementation). -/
namespace MidnightZK.C18.Driver
open MidnightZK MidnightZK.C18

def hexNoPrefix (n : Nat) : String := String.ofList (toHexAux n [])

def hex2 (b : Nat) : String := String.ofList [hexDigit (b / 16), hexDigit (b % 16)]

def hexBytes (bs : List Nat) : String := String.join (bs.map hex2)

def parseHexBytes? (s : String) : Option (List Nat) := hexPairs s.toList

def parseHexNat? (s : String) : Option Nat := if s.isEmpty then none else hexNat s.toList 0

def fmtTy : IrType → String
  | .bool => "bool"
  | .bytes n => s!"bytes.{n}"
  | .native => "native"
  | .big n => s!"big.{n}"
  | .point => "point"
  | .scalar => "scalar"

def parseTy? (parts : List String) : Option IrType :=
  match parts with
  | ["bool"] => some .bool
  | ["bytes", n] => n.toNat?.map .bytes
  | ["native"] => some .native
  | ["big", n] => n.toNat?.map .big
  | ["point"] => some .point
  | ["scalar"] => some .scalar
  | _ => none

def fmtVal : IrValue → String
  | .bool b => if b then "b:1" else "b:0"
  | .bytes bs => "y:" ++ hexBytes bs
  | .native x => "n:" ++ hexNoPrefix x
  | .big x => "u:" ++ hexNoPrefix x
  | .point u v => "p:" ++ hexNoPrefix u ++ "/" ++ hexNoPrefix v
  | .scalar s => "s:" ++ hexNoPrefix s

def parseVal? (s : String) : Option IrValue :=
  match s.splitOn ":" with
  | ["b", "1"] => some (.bool true)
  | ["b", "0"] => some (.bool false)
  | ["y", h] => (parseHexBytes? h).map .bytes
  | ["n", h] => (parseHexNat? h).map .native
  | ["u", h] => (parseHexNat? h).map .big
  | ["s", h] => (parseHexNat? h).map .scalar
  | ["p", h] =>
    match h.splitOn "/" with
    | [u, v] => match parseHexNat? u, parseHexNat? v with
      | some u, some v => some (.point u v)
      | _, _ => none
    | _ => none
  | _ => none

def parseOp? (s : String) : Option Op :=
  match s.splitOn "." with
  | "load" :: t => (parseTy? t).map .load
  | ["publish"] => some .publish
  | ["assert_eq"] => some .assertEq
  | ["assert_ne"] => some .assertNe
  | ["is_eq"] => some .isEq
  | ["add"] => some .add
  | ["sub"] => some .sub
  | ["mul"] => some .mul
  | ["neg"] => some .neg
  | ["mod_exp", n] => n.toNat?.map .modExp
  | ["inner_product"] => some .innerProduct
  | ["affine"] => some .affine
  | ["into_bytes", n] => n.toNat?.map .intoBytes
  | "from_bytes" :: t => (parseTy? t).map .fromBytes
  | ["poseidon"] => some .poseidon
  | ["sha256"] => some .sha256
  | ["sha512"] => some .sha512
  | _ => none

def parseNames (s : String) : List String :=
  if s.isEmpty then [] else (s.splitOn ",").map (fun n => if n = "%" then "" else n)

def parseInstr? (s : String) : Option Instr :=
  match s.splitOn ";" with
  | [op, ins, outs] => (parseOp? op).map (fun o => { op := o, ins := parseNames ins, outs := parseNames outs })
  | _ => none

/-- Rust `Debug` of `IrType`. -/
def dbgTy : IrType → String
  | .bool => "Bool"
  | .bytes n => s!"Bytes({n})"
  | .native => "Native"
  | .big n => s!"BigUint({n})"
  | .point => "JubjubPoint"
  | .scalar => "JubjubScalar"

/-- Rust `Debug` of `Operation`. -/
def dbgOp : Op → String
  | .load t => s!"Load({dbgTy t})"
  | .publish => "Publish"
  | .assertEq => "AssertEqual"
  | .assertNe => "AssertNotEqual"
  | .isEq => "IsEqual"
  | .add => "Add"
  | .sub => "Sub"
  | .mul => "Mul"
  | .neg => "Neg"
  | .modExp n => s!"ModExp({n})"
  | .innerProduct => "InnerProduct"
  | .affine => "AffineCoordinates"
  | .intoBytes n => s!"IntoBytes({n})"
  | .fromBytes t => s!"FromBytes({dbgTy t})"
  | .poseidon => "Poseidon"
  | .sha256 => "Sha256"
  | .sha512 => "Sha512"

/-- Canonical error class (the harness derives the same string from the Rust `Debug` text). -/
def fmtErr : Err → String
  | .arity op => s!"wrong_arity:_'{dbgOp op}'"
  | .notFound n => s!"'{n}'_not_found"
  | .dup n => s!"'{n}'_already_exists"
  | .expecting a b => s!"type_{dbgTy a}_was_expected_instead_of_{dbgTy b}"
  | .unsupported op ts => s!"{dbgOp op}_is_not_supported_on_[{",_".intercalate (ts.map dbgTy)}]"
  | .assertion => "other:assert"
  | .underflow => "other:underflow"
  | .cannotConvert => "other:cannot-convert"
  | .zeroModulus => "other:zero-modulus"
  | .typeConvert => "other:type-convert"
  | .expectingBytes => "other:expecting-bytes"
  | .invalidLength => "other:invalid-length"
  | .panic _ => "panic"

structure Request where
  prog : Program
  wit : Witness
  hashes : List (String × String)

def parseRequest? (toks : List String) : Option Request := do
  let rec go (toks : List String) (sec : Nat) (r : Request) : Option Request :=
    match toks with
    | [] => some r
    | "|" :: rest => go rest (sec + 1) r
    | t :: rest =>
      if sec = 0 then
        match parseInstr? t with
        | some i => go rest sec { r with prog := r.prog ++ [i] }
        | none => none
      else if sec = 1 then
        match t.splitOn "=" with
        | [n, v] => match parseVal? v with
          | some v => go rest sec { r with wit := r.wit ++ [((if n = "%" then "" else n), v)] }
          | none => none
        | _ => none
      else
        match t.splitOn "=" with
        | [k, v] => go rest sec { r with hashes := r.hashes ++ [(k, v)] }
        | _ => none
  go toks 0 { prog := [], wit := [], hashes := [] }

/-- The hash functions as the table passed with the request (uninterpreted in the model). -/
def mkHashes (tbl : List (String × String)) : Hashes :=
  { sha256 := fun bs => match lookup ("sha256:" ++ hexBytes bs) tbl with
      | some o => (parseHexBytes? o).getD [] | none => List.replicate 32 0
    sha512 := fun bs => match lookup ("sha512:" ++ hexBytes bs) tbl with
      | some o => (parseHexBytes? o).getD [] | none => List.replicate 64 0
    poseidon := fun xs => match lookup ("poseidon:" ++ ",".intercalate (xs.map hexNoPrefix)) tbl with
      | some o => (parseHexNat? o).getD 0 | none => 0 }

def joinWith (sep : String) (l : List String) : String := sep.intercalate l

/-- Off-circuit run with the per-instruction trace (inputs and outputs resolved in the
memory after the instruction). Returns the trace tokens and the final verdict. -/
def traceOff (H : Hashes) (w : Witness) : Nat → OffState → Program → List String →
    List String × Except (Nat × Err) OffState
  | _, st, [], acc => (acc.reverse, .ok st)
  | k, st, i :: rest, acc =>
    match stepOff H w st i with
    | .error e => (acc.reverse, .error (k, e))
    | .ok st' =>
      let vals (names : List String) : String :=
        joinWith "," (names.map (fun n => match resolveOff st'.mem n with
          | .ok v => fmtVal v | .error _ => "?"))
      traceOff H w (k + 1) st' rest ((vals i.ins ++ ">" ++ vals i.outs) :: acc)

def stripPublish (p : Program) : Program := p.filter (fun i => i.op ≠ .publish)

/-- Do the public inputs bound by the circuit match the instance column built from `given`
(missing entries of the column are zero)? -/
def piMatch : List Nat → List Nat → Bool
  | [], _ => true
  | c :: cs, [] => c == 0 && piMatch cs []
  | c :: cs, g :: gs => c == g && piMatch cs gs

def mockVerdict (H : Hashes) (p : Program) (w : Witness) (given : List Nat) : String :=
  match runIn H (some w) {} p with
  | .error e => if e.isPanic then "panic" else "err:" ++ fmtErr e
  | .ok st => if st.sat && piMatch st.pis given then "sat" else "unsat"

def answerRun (withMock : Bool) (r : Request) : String :=
  let H := mkHashes r.hashes
  match loadProgram r.prog with
  | .error e => "load:" ++ fmtErr e
  | .ok () =>
    let (trace, offRes) := traceOff H r.wit 0 {} r.prog []
    let offS := match offRes with
      | .ok st => "ok:" ++ joinWith "," (st.pis.map fmtVal)
      | .error (k, e) => if e.isPanic then s!"panic@{k}" else s!"err@{k}:{fmtErr e}"
    let cmp := compile H r.prog
    let cmpS := match cmp with
      | .ok ts => "ok:" ++ joinWith "," (ts.map fmtTy)
      | .error e => if e.isPanic then "panic" else "err:" ++ fmtErr e
    -- `public_inputs` skips the in-circuit pass when nothing is published
    let pi : Option (Except Err (List Nat)) := match offRes, cmp with
      | .ok st, .ok ts => some (encodePI st.pis ts)
      | .ok st, .error _ => if st.pis.isEmpty then some (.ok []) else none
      | _, _ => none
    let piS := match pi with
      | none => "-"
      | some (.ok fs) => "ok:" ++ joinWith "," (fs.map hexNoPrefix)
      | some (.error _) => "err"
    let mockS := if !withMock then "-" else match cmp with
      | .error _ => "-"
      | .ok _ =>
        match offRes, pi with
        | .ok _, some (.ok fs) => mockVerdict H r.prog r.wit fs
        | .error (k, _), _ => "np:" ++ mockVerdict H (stripPublish (r.prog.take (k + 1))) r.wit []
        | _, _ => "-"
    joinWith " | " ["load:ok", "trace:" ++ joinWith " " trace, "off:" ++ offS, "cmp:" ++ cmpS,
      "pi:" ++ piS, "mock:" ++ mockS, "bin:" ++ hexBytes (encodeBin r.prog)]

def answer (line : String) : String :=
  match words line with
  | "run" :: rest =>
    match parseRequest? rest with
    | some r => answerRun true r
    | none => "bad-op"
  | "run0" :: rest =>
    match parseRequest? rest with
    | some r => answerRun false r
    | none => "bad-op"
  | _ => "bad-op"

end MidnightZK.C18.Driver

/-- `mzk-c18 < ops.txt > model.txt` : one answer line per request line. -/
def main : IO UInt32 := do
  MidnightZK.lineLoop (← IO.getStdin) (← IO.getStdout) MidnightZK.C18.Driver.answer
  return 0
