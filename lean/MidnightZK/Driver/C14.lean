import MidnightZK.Model.Common
import MidnightZK.Model.C14.Sets
import MidnightZK.Model.C14.Open
import MidnightZK.Model.C14.Fr
/-! Line-protocol handler of property C14 (stateful: `verify` lines refer to the last `prove`). -/
namespace MidnightZK.C14.Driver
open MidnightZK MidnightZK.C14

def fr (n : Nat) : Fr := Fr.ofNat n
def fmtFr (l : List Fr) : String := fmtHexList (l.map (·.val))
def dots (l : List String) : String := if l.isEmpty then "-" else ".".intercalate l

def parseFrList? (s : String) : Option (List Fr) := (parseNatList? s).map (·.map fr)

/-- `c:p:e,c:p:e,…` or `-` -/
def parseAbstractQueries? (s : String) : Option (List (Query Nat Fr Fr)) :=
  if s = "-" then some [] else
  (s.splitOn ",").mapM (fun t =>
    match t.splitOn ":" with
    | [c, p, e] => do
      let c ← c.toNat?
      let p ← parseNat? p
      let e ← parseNat? e
      pure { com := c, point := fr p, eval := fr e }
    | _ => none)

def fmtSets (res : Option (List (CommitmentData Nat Fr) × List (List Fr))) : String :=
  match res with
  | none => "err dup"
  | some (cm, sets) =>
    let s := if sets.isEmpty then "-" else "|".intercalate (sets.map (fun ps => dots (ps.map (fun p => toHex p.val))))
    let c := if cm.isEmpty then "-" else ";".intercalate (cm.map (fun d =>
      s!"{d.com}:{d.setIndex}:{dots (d.pointIndices.map toString)}:{dots (d.evals.map (fun e => toHex e.val))}"))
    s!"ok S={s} C={c}"

/-- What a `prove` line leaves for the following `verify` lines. -/
structure St where
  s : Fr := 0
  dF : Fr := 0
  dPi : Fr := 0
deriving Inhabited

def stripKey (key s : String) : Option String :=
  if s.startsWith key then some (s.drop key.length).toString else none

/-- `i@pt,…` -/
def parseProverQueries? (polys : List (List Fr)) (s : String) : Option (List (Query Nat Fr Fr)) :=
  if s = "-" then some [] else
  (s.splitOn ",").mapM (fun t =>
    match t.splitOn "@" with
    | [i, p] => do
      let i ← i.toNat?
      let p ← parseNat? p
      pure { com := i, point := fr p, eval := evalPoly (polys.getD i []) (fr p) }
    | _ => none)

def parseComRef? (s : String) : Option ComRef :=
  if s.startsWith "c" then
    match (s.drop 1).toString.splitOn ":" with
    | [n, parts] => do
      let n ← n.toNat?
      let parts ← if parts.isEmpty then some [] else (parts.splitOn "+").mapM String.toNat?
      pure (.chopped parts n)
    | _ => none
  else (s.toNat?).map .one

/-- `ref@pt=ev,…` -/
def parseVerifierQueries? (s : String) : Option (List (Query ComRef Fr Fr)) :=
  if s = "-" then some [] else
  (s.splitOn ",").mapM (fun t =>
    match t.splitOn "@" with
    | [r, pe] =>
      match pe.splitOn "=" with
      | [p, e] => do
        let r ← parseComRef? r
        let p ← parseNat? p
        let e ← parseNat? e
        pure { com := r, point := fr p, eval := fr e }
      | _ => none
    | _ => none)

def repeatChar (c : Char) (n : Nat) : String := String.ofList (List.replicate n c)

def runProve (k sNat : Nat) (polys : List (List Fr)) (qs : List (Query Nat Fr Fr)) (xs : List Fr) : St × String :=
  let x (i : Nat) := xs.getD i 0
  match multiOpen (2 ^ k) polys qs (x 0) (x 1) (x 2) (x 3) with
  | .error .dup => ({}, "err dup")
  | .error .panic => ({}, "panic")
  | .ok out =>
    let s := fr sNat
    let dF := commitLog s out.fPoly
    let dPi := commitLog s out.piPoly
    ({ s, dF, dPi },
     s!"ev=cSSgS{repeatChar 'f' out.qEvals.length}Sg f={mulGenStr dF.val} qe={fmtFr out.qEvals} pi={mulGenStr dPi.val}")

/-- Name of a base: the first entry of the table `coms ++ [F, P, -G]` with the same value. -/
def baseName (st : St) (ks : List Fr) (dF dPi : Option Fr) (b : Base) : String :=
  let d : Option Fr := match b with
    | .com i => ks[i]?
    | .f => dF
    | .pi => dPi
    | .negG => some (-(1 : Fr))
  let _ := st
  match d with
  | none => "?"
  | some d =>
    match ks.findIdx? (· = d) with
    | some i => s!"k{i}"
    | none =>
      if dF = some d then "F" else if dPi = some d then "P" else if d = -(1 : Fr) then "N" else "?"

def fmtMsm (st : St) (ks : List Fr) (dF dPi : Option Fr) (m : List (Fr × Base)) : String :=
  if m.isEmpty then "-" else ",".intercalate (m.map (fun t => s!"{toHex t.1.val}*{baseName st ks dF dPi t.2}"))

/-- `verify K=<logs> T=<δf>,<δπ> V=<F|U|->;<q evals>;<P|U|-> Q=<queries> X=<challenges>` -/
def runVerify (st : St) (ks : List Fr) (dlt : List Fr) (vf : String) (vq : List Fr) (vp : String)
    (qs : List (Query ComRef Fr Fr)) (xs : List Fr) : String :=
  let x (i : Nat) := xs.getD i 0
  let view : ProofView Fr := { hasF := vf ≠ "-", qEvals := vq, hasPi := vp ≠ "-" }
  -- events up to the point where the verifier stops
  let nsetsOpt := (constructIntermediateSets (0 : Fr) qs).map (fun r => r.2.length)
  match nsetsOpt with
  | none => "ev=cSS err dup"
  | some nsets =>
    if vq.length > nsets then "view-mismatch" else
    let evs :=
      if ¬ view.hasF then "cSS!" else
      if vq.length < nsets then s!"cSSGS{repeatChar 'F' vq.length}!" else
      if ¬ view.hasPi then s!"cSSGS{repeatChar 'F' nsets}S!" else s!"cSSGS{repeatChar 'F' nsets}SG"
    match multiPrepare Fr.inv true qs view (x 0) (x 1) (x 2) (x 3) with
    | .error .dup => "ev=cSS err dup"
    | .error .sampling => s!"ev={evs} err sampling"
    | .error .panic => "panic"
    | .ok dual =>
      let dF : Option Fr := if vf = "F" then some (st.dF + dlt.getD 0 0) else none
      let dPi : Option Fr := if vp = "P" then some (st.dPi + dlt.getD 1 0) else none
      let acc :=
        match dF, dPi with
        | some f, some p =>
          let dlog : Base → Fr := fun b => match b with
            | .com i => ks.getD i 0
            | .f => f
            | .pi => p
            | .negG => -(1 : Fr)
          checkLog st.s dlog dual
        | _, _ => false   -- an element without known logarithm (misaligned read): never accepted
      s!"ev={evs} L={fmtMsm st ks dF dPi dual.left} R={fmtMsm st ks dF dPi dual.right} acc={fmtBool acc}"

/-- `vtrace V=<F|U|->;<q evals>;<P|U|-> Q=<queries> X=<challenges>`: the intermediate scalars of
`multi_prepare` (`px1`, `qes`, `r` in fold order, `fe`, `v`), `none` when `v` is not reached. -/
def runTrace (vf : String) (vq : List Fr) (vp : String) (qs : List (Query ComRef Fr Fr)) (xs : List Fr) : String :=
  let x (i : Nat) := xs.getD i 0
  let view : ProofView Fr := { hasF := vf ≠ "-", qEvals := vq, hasPi := vp ≠ "-" }
  match multiPrepareTrace Fr.inv true qs view (x 0) (x 1) (x 2) (x 3) with
  | none => "none"
  | some t =>
    let hexs (l : List Fr) := dots (l.map (fun e => toHex e.val))
    let qes := if t.qEvalSets.isEmpty then "-" else "|".intercalate (t.qEvalSets.map hexs)
    s!"px1={hexs t.powersX1} qes={qes} r={hexs t.rEvals} fe={toHex t.fEval.val} v={toHex t.v.val}"

/-- `otrace <k> P=<polys> Q=<queries> X=<challenges> Z=<test point>`: the intermediate polynomials
of `multi_open` (`q_polys` per set, `f_poly`, `final_poly`, `v`, `pi_poly`; compared with the add-only
trace hook inside the real `multi_open`), each as `length:lowest:highest coefficient:value at Z`. -/
def runOpenTrace (k : Nat) (polys : List (List Fr)) (qs : List (Query Nat Fr Fr)) (xs : List Fr) (z : Fr) : String :=
  let x (i : Nat) := xs.getD i 0
  match multiOpen (2 ^ k) polys qs (x 0) (x 1) (x 2) (x 3) with
  | .error .dup => "err dup"
  | .error .panic => "panic"
  | .ok out =>
    let digest (p : List Fr) : String :=
      match p with
      | [] => "0:-:-:0x0"
      | c0 :: _ => s!"{p.length}:{toHex c0.val}:{toHex (p.getLastD 0).val}:{toHex (evalPoly p z).val}"
    let qs := if out.qPolys.isEmpty then "" else "|".intercalate (out.qPolys.map digest)
    s!"q={qs} f={digest out.fPoly} fin={digest out.finalPoly} v={toHex out.v.val} pi={digest out.piPoly}"

/-- A trailing `pool=<t>` word names the rayon pool the implementation ran in; the model's answer
does not depend on it (thread-count independence is part of what is compared). -/
def dropPoolTag (ws : List String) : List String :=
  match ws.getLast? with
  | some w => if w.startsWith "pool=" ∧ ((w.drop 5).toString.toNat?).isSome then ws.dropLast else ws
  | none => ws

def step (st : St) (line : String) : St × String :=
  match dropPoolTag (words line) with
  | ["gen"] => (st, mulGenStr 1)
  | ["sets", qs] =>
    match parseAbstractQueries? qs with
    | some qs => (st, fmtSets (constructIntermediateSets (0 : Fr) qs))
    | none => (st, "bad-op")
  | ["prove", k, s, p, q, x] =>
    match k.toNat?, parseNat? s, stripKey "P=" p, stripKey "Q=" q, stripKey "X=" x with
    | some k, some s, some p, some q, some x =>
      match (p.splitOn ";").mapM parseFrList?, parseFrList? x with
      | some polys, some xs =>
        match parseProverQueries? polys q with
        | some qs => runProve k s polys qs xs
        | none => (st, "bad-op")
      | _, _ => (st, "bad-op")
    | _, _, _, _, _ => (st, "bad-op")
  | ["evalt", t, p, x] =>
    match t.toNat?, parseFrList? p, parseNat? x with
    | some t, some p, some x => (st, toHex (evalPolyThreads t p (fr x)).val)
    | _, _, _ => (st, "bad-op")
  | ["otrace", k, p, q, x, z] =>
    match k.toNat?, stripKey "P=" p, stripKey "Q=" q, stripKey "X=" x, (stripKey "Z=" z).bind parseNat? with
    | some k, some p, some q, some x, some z =>
      match (p.splitOn ";").mapM parseFrList?, parseFrList? x with
      | some polys, some xs =>
        match parseProverQueries? polys q with
        | some qs => (st, runOpenTrace k polys qs xs (fr z))
        | none => (st, "bad-op")
      | _, _ => (st, "bad-op")
    | _, _, _, _, _ => (st, "bad-op")
  | ["vtrace", v, q, x] =>
    match stripKey "V=" v, stripKey "Q=" q, stripKey "X=" x with
    | some v, some q, some x =>
      match v.splitOn ";", parseVerifierQueries? q, parseFrList? x with
      | [vf, vq, vp], some qs, some xs =>
        match parseFrList? vq with
        | some vq =>
          if (vf = "F" ∨ vf = "U" ∨ vf = "-") ∧ (vp = "P" ∨ vp = "U" ∨ vp = "-") then
            (st, runTrace vf vq vp qs xs)
          else (st, "bad-op")
        | none => (st, "bad-op")
      | _, _, _ => (st, "bad-op")
    | _, _, _ => (st, "bad-op")
  | ["verify", k, t, v, q, x] =>
    match stripKey "K=" k, stripKey "T=" t, stripKey "V=" v, stripKey "Q=" q, stripKey "X=" x with
    | some k, some t, some v, some q, some x =>
      match parseFrList? k, parseFrList? t, v.splitOn ";", parseVerifierQueries? q, parseFrList? x with
      | some ks, some dlt, [vf, vq, vp], some qs, some xs =>
        match parseFrList? vq with
        | some vq =>
          if (vf = "F" ∨ vf = "U" ∨ vf = "-") ∧ (vp = "P" ∨ vp = "U" ∨ vp = "-") then
            (st, runVerify st ks dlt vf vq vp qs xs)
          else (st, "bad-op")
        | none => (st, "bad-op")
      | _, _, _, _, _ => (st, "bad-op")
    | _, _, _, _, _ => (st, "bad-op")
  | _ => (st, "bad-op")

/-- Stateless entry point (for tests): a single line answered from the initial state. -/
def answer (line : String) : String := (step {} line).2

end MidnightZK.C14.Driver

/-- `mzk-c14 < ops.txt > model.txt` : one answer line per request line. -/
def main : IO UInt32 := do
  MidnightZK.lineLoopSt (← IO.getStdin) (← IO.getStdout) MidnightZK.C14.Driver.step {}
  return 0
