import MidnightZK.Model.Common
/-! Line-protocol handler of property C14 (stub: answers `unimplemented`). -/
namespace MidnightZK.C14.Driver

def answer (_line : String) : String := "unimplemented"

end MidnightZK.C14.Driver
