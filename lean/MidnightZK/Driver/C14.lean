import MidnightZK.Model.Common
/-! Line-protocol handler of property C14 (stub: answers `unimplemented`). -/
namespace MidnightZK.C14.Driver

def answer (_line : String) : String := "unimplemented"

end MidnightZK.C14.Driver

/-- `mzk-c14 < ops.txt > model.txt` : one answer line per request line. -/
def main : IO UInt32 := do
  MidnightZK.lineLoop (← IO.getStdin) (← IO.getStdout) MidnightZK.C14.Driver.answer
  return 0
