import MidnightZK.Model.Common
/-! Line-protocol handler of property C15 (stub: answers `unimplemented`). -/
namespace MidnightZK.C15.Driver

def answer (_line : String) : String := "unimplemented"

end MidnightZK.C15.Driver

/-- `mzk-c15 < ops.txt > model.txt` : one answer line per request line. -/
def main : IO UInt32 := do
  MidnightZK.lineLoop (← IO.getStdin) (← IO.getStdout) MidnightZK.C15.Driver.answer
  return 0
