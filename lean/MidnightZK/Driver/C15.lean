import MidnightZK.Model.Common
/-! Line-protocol handler of property C15 (stub: answers `unimplemented`). -/
namespace MidnightZK.C15.Driver

def answer (_line : String) : String := "unimplemented"

end MidnightZK.C15.Driver
