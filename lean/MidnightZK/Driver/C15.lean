import MidnightZK.Model.Common
import MidnightZK.Model.C12.Zn
import MidnightZK.Model.C12.Curve
import MidnightZK.Model.C15.Batch
import MidnightZK.Model.C15.Accumulator
import MidnightZK.Model.C15.Tree
/-!
Line-protocol handler of property C15.

Scalars are elements of the BLS12-381 scalar field (`Zn r`), group elements are given by their
discrete logarithm to the generator of G1 (`Zn r` as a module over itself); where the
implementation prints a point, the driver prints `[k]·G` in affine coordinates with the
reference curve arithmetic of `Model/C12/Curve.lean`.

Text formats (no spaces inside a token):
* label: `a<i>` advice, `i<i>` instance, `f<i>` fixed, `p<i>` permutation, `n` no label,
  `c<hex of the UTF-8 bytes>` custom;
* MSMKZG: `-` or `scalar:base:label,…`; DualMSM: `<left>|<right>`;
* Msm: `<terms>;<fixed>` with terms `-` or `scalar:base,…` and fixed `-` or `name=scalar,…`;
  Accumulator: `<lhs>|<rhs>`; fixed-base map: `-` or `name=base,…`.
-/
namespace MidnightZK.C15.Driver
open MidnightZK MidnightZK.C15

def R : Nat := MidnightZK.C12.bls12381G1.r
abbrev Fr := MidnightZK.C12.Zn R
def fr (n : Nat) : Fr := MidnightZK.C12.Zn.ofNat R n

/-- `G1` through discrete logarithms: `s • b = s·b mod r`. -/
instance : SMul Fr Fr := ⟨fun a b => a * b⟩

def splitList (s : String) (sep : String) : List String :=
  if s = "-" ∨ s.isEmpty then [] else s.splitOn sep

def parseFr (s : String) : Option Fr := (parseNat? s).map fr

def hexBytesToString (s : String) : Option String :=
  let cs := s.toList
  let rec go : List Char → List Char → Option (List Char)
    | [], acc => some acc.reverse
    | [_], _ => none
    | a :: b :: t, acc =>
      match parseHex? (String.ofList [a, b]) with
      | some n => go t (Char.ofNat n :: acc)
      | none => none
  (go cs []).map String.ofList

def parseLabel (s : String) : Option Label :=
  if s = "n" then some .noLabel else
  let rest := (s.drop 1).toString
  match s.toList.head? with
  | some 'a' => rest.toNat?.map .advice
  | some 'i' => rest.toNat?.map .inst
  | some 'f' => rest.toNat?.map .fixed
  | some 'p' => rest.toNat?.map .perm
  | some 'c' => if rest.isEmpty then some (.custom "") else (hexBytesToString rest).map .custom
  | _ => none

def stringToHexBytes (s : String) : String :=
  String.ofList (s.toList.flatMap (fun c => [hexDigit (c.toNat / 16 % 16), hexDigit (c.toNat % 16)]))

def fmtLabel : Label → String
  | .advice i => s!"a{i}"
  | .inst i => s!"i{i}"
  | .fixed i => s!"f{i}"
  | .perm i => s!"p{i}"
  | .custom s => "c" ++ stringToHexBytes s
  | .noLabel => "n"

def parseTerm (s : String) : Option (Term Fr Fr) :=
  match s.splitOn ":" with
  | [sc, b, l] => do
    let sc ← parseFr sc; let b ← parseFr b; let l ← parseLabel l
    pure ⟨sc, b, l⟩
  | _ => none

def parseMsmKzg (s : String) : Option (MsmKzg Fr Fr) := (splitList s ",").mapM parseTerm

def parseDual (s : String) : Option (DualMsm Fr Fr) :=
  match s.splitOn "|" with
  | [l, r] => do let l ← parseMsmKzg l; let r ← parseMsmKzg r; pure ⟨l, r⟩
  | _ => none

def fmtMsmKzg (m : MsmKzg Fr Fr) : String :=
  if m.isEmpty then "-" else
  ",".intercalate (m.map (fun t => s!"{toHex t.scalar.val}:{toHex t.base.val}:{fmtLabel t.label}"))

def fmtDual (d : DualMsm Fr Fr) : String := fmtMsmKzg d.left ++ "|" ++ fmtMsmKzg d.right

def parsePair (s : String) : Option (Fr × Fr) :=
  match s.splitOn ":" with
  | [a, b] => do let a ← parseFr a; let b ← parseFr b; pure (a, b)
  | _ => none

def parseNamed (s : String) : Option (String × Fr) :=
  match s.splitOn "=" with
  | [k, v] => do let v ← parseFr v; pure (k, v)
  | _ => none

/-- A map given in the text is inserted entry by entry (as `BTreeMap::insert` would). -/
def parseMap (s : String) : Option (List (String × Fr)) := do
  let es ← (splitList s ",").mapM parseNamed
  pure (es.foldl (fun m kv => bmInsert kv.1 kv.2 m) [])

def parseMsm (s : String) : Option (Msm Fr Fr) :=
  match s.splitOn ";" with
  | [t, f] => do
    let t ← (splitList t ",").mapM parsePair
    let f ← parseMap f
    pure ⟨t, f⟩
  | _ => none

def parseAcc (s : String) : Option (Accumulator Fr Fr) :=
  match s.splitOn "|" with
  | [l, r] => do let l ← parseMsm l; let r ← parseMsm r; pure ⟨l, r⟩
  | _ => none

def pointStr (k : Fr) : String :=
  let c := MidnightZK.C12.bls12381G1
  "@" ++ MidnightZK.C12.fmtAffine (MidnightZK.C12.toAffine c.p (c.mulGen k.val))

def fmtMsm (pts : Bool) (m : Msm Fr Fr) : String :=
  let t := if m.terms.isEmpty then "-" else
    ",".intercalate (m.terms.map (fun t =>
      s!"{toHex t.1.val}:{if pts then pointStr t.2 else toHex t.2.val}"))
  let f := if m.fixed.isEmpty then "-" else
    ",".intercalate (m.fixed.map (fun kv => s!"{kv.1}={toHex kv.2.val}"))
  t ++ ";" ++ f

def fmtAcc (pts : Bool) (a : Accumulator Fr Fr) : String := fmtMsm pts a.lhs ++ "|" ++ fmtMsm pts a.rhs

def fmtPolyRes : Except PolyErr Unit → String
  | .ok () => "ok"
  | .error .openingError => "err:OpeningError"
  | .error .samplingError => "err:SamplingError"
  | .error .duplicatedQuery => "err:DuplicatedQuery"

def fmtErr : Err → String
  | .invalidInstances => "InvalidInstances"
  | .opening => "Opening"
  | .transcript => "Transcript"
  | .other s => s

def parseErr (s : String) : Err :=
  if s = "InvalidInstances" then .invalidInstances
  else if s = "Opening" then .opening
  else if s = "Transcript" then .transcript
  else .other s

def fmtRes : Except Err Unit → String
  | .ok () => "ok"
  | .error e => "err:" ++ fmtErr e

/-- Sequence of `s=<factor>` (scale) and `a=<dual>` (add_msm) applied to a guard. -/
def applyOps : DualMsm Fr Fr → List String → Option (DualMsm Fr Fr)
  | d, [] => some d
  | d, op :: rest =>
    if op.startsWith "s=" then
      match parseFr (op.drop 2).toString with
      | some f => applyOps (d.scale f) rest
      | none => none
    else if op.startsWith "a=" then
      match parseDual (op.drop 2).toString with
      | some o => applyOps (d.addMsm o) rest
      | none => none
    else none

/-- Class of a real batch member: `L` wrong instance length, `E:<error>` `prepare` fails,
`T` trailing bytes, `B` the guard fails its pairing check, `G` good. The member is realised in
the model over the one-dimensional module with `τ = 1`: a good guard is `(1·1, 1·1)`, a bad one
`(1·1, 1·0)`. -/
def classMember (c : String) : Option (Member Fr Fr) :=
  let good : DualMsm Fr Fr := ⟨[⟨fr 1, fr 1, .noLabel⟩], [⟨fr 1, fr 1, .noLabel⟩]⟩
  let bad : DualMsm Fr Fr := ⟨[⟨fr 1, fr 1, .noLabel⟩], [⟨fr 1, fr 0, .noLabel⟩]⟩
  if c = "L" then some ⟨false, .ok good, false⟩
  else if c = "T" then some ⟨true, .ok good, true⟩
  else if c = "B" then some ⟨true, .ok bad, false⟩
  else if c = "G" then some ⟨true, .ok good, false⟩
  else if c.startsWith "E:" then some ⟨true, .error (parseErr (c.drop 2).toString), false⟩
  else none

def parseMember (s : String) : Option (Member Fr Fr) :=
  -- `<piLenOk>;<trailing>;E<err>` or `<piLenOk>;<trailing>;D<dual>`
  match s.splitOn ";" with
  | [p, t, body] =>
    let pb := p = "1"
    let tb := t = "1"
    if (p ≠ "0" ∧ p ≠ "1") ∨ (t ≠ "0" ∧ t ≠ "1") then none
    else if body.startsWith "E" then some ⟨pb, .error (parseErr (body.drop 1).toString), tb⟩
    else if body.startsWith "D" then (parseDual (body.drop 1).toString).map (fun d => ⟨pb, .ok d, tb⟩)
    else none
  | _ => none

def fmtTEvent : TEvent Fr → String
  | .init => "init"
  | .absorb x => "absorb:" ++ toHex x.val
  | .squeeze => "squeeze"

def fmtOptBool : Option Bool → String
  | some b => fmtBool b
  | none => "panic"

/-- Postfix description of a tree of calls: `L=<dual>` pushes a leaf, `S=<factor>` replaces the top
`t` by `t.scale(factor)`, `A` pops `o`, then `t`, and pushes `t.add_msm(o)`. Exactly one tree must
remain. -/
def parseTree : List String → List (GuardTree Fr Fr) → Option (GuardTree Fr Fr)
  | [], [t] => some t
  | [], _ => none
  | tok :: rest, st =>
    if tok.startsWith "L=" then
      match parseDual (tok.drop 2).toString with
      | some d => parseTree rest (.leaf d :: st)
      | none => none
    else if tok.startsWith "S=" then
      match parseFr (tok.drop 2).toString, st with
      | some e, t :: st' => parseTree rest (.scale t e :: st')
      | _, _ => none
    else if tok = "A" then
      match st with
      | o :: t :: st' => parseTree rest (.add t o :: st')
      | _ => none
    else none

/-- `<stage>:<kind>/<len>,…` (or `<stage>:-`). -/
def parseMemberTrace (s : String) : Option MemberTrace :=
  match s.splitOn ":" with
  | [st, tr] => do
    let st ← st.toNat?
    let evs ← (splitList tr ",").mapM (fun e =>
      match e.splitOn "/" with
      | [k, l] => do let k ← k.toNat?; let l ← l.toNat?; pure (k, l)
      | _ => none)
    if st ≤ 3 ∧ evs.all (fun kl => kl.1 = 1 ∨ kl.1 = 2) then pure ⟨st, evs⟩ else none
  | _ => none

def fmtGEvent (e : GEvent) : String := s!"{e.who}.{e.kind}.{e.len}"

def parseEnc (enc : String) : Option (Fr → List Fr) := do
  let tbl ← (splitList enc ",").mapM (fun e =>
    match e.splitOn "=" with
    | [b, fs] => do
      let b ← parseFr b
      let fs ← (splitList fs "/").mapM parseFr
      pure (b, fs)
    | _ => none)
  pure (fun b => ((tbl.find? (fun e => e.1 = b)).map (·.2)).getD [])

def answer (line : String) : String :=
  match words line with
  | ["msm-eval", m] =>
    match parseMsmKzg m with
    | some m => pointStr m.eval ++ " " ++ fmtBool m.check
    | none => "bad-op"
  | "msm-from-many" :: ms =>
    match ms.mapM parseMsmKzg with
    | some ms => let m := MsmKzg.fromMany ms; fmtMsmKzg m ++ " " ++ pointStr m.eval
    | none => "bad-op"
  | ["msm-from-base", b] =>
    match parseFr b with
    | some b => let m : MsmKzg Fr Fr := MsmKzg.fromBase b; fmtMsmKzg m ++ " " ++ pointStr m.eval
    | none => "bad-op"
  | ["msm-new", bases, scalars, fixed] =>
    match (splitList bases ",").mapM parseFr, (splitList scalars ",").mapM parseFr, parseMap fixed with
    | some bs, some ss, some f =>
      match Msm.new? bs ss f with
      | some m => fmtMsm false m
      | none => "panic"
    | _, _, _ => "bad-op"
  | "dual-seq" :: mode :: tau :: d0 :: ops =>
    match parseFr tau, parseDual d0 with
    | some tau, some d0 =>
      match applyOps d0 ops with
      | some d =>
        if mode = "check" then fmtDual d ++ " " ++ fmtBool (d.check tau)
        else if mode = "struct" then fmtDual d
        else "bad-op"
      | none => "bad-op"
    | _, _ => "bad-op"
  | "horner" :: tau :: r :: ds =>
    -- the loop of `batch_verify` on explicit guards
    match parseFr tau, parseFr r, ds.mapM parseDual with
    | some tau, some r, some ds =>
      match hornerFold r ds with
      | some acc => fmtDual acc ++ " " ++ fmtBool (acc.check tau)
      | none => "empty"
    | _, _, _ => "bad-op"
  | "gbatch" :: taus :: ds =>
    match (splitList taus ",").mapM parseFr, ds.mapM parseDual with
    | some taus, some ds => fmtPolyRes (guardBatchVerify ds taus)
    | _, _ => "bad-op"
  | "batch" :: tau :: r :: np :: npr :: ms =>
    -- full model of `batch_verify` / `verify` on explicit members
    match parseFr tau, parseFr r, np.toNat?, npr.toNat?, ms.mapM parseMember with
    | some tau, some r, some np, some npr, some ms =>
      s!"batch={fmtRes (batchVerify tau np npr ms r)} each={join (ms.map (fun m => fmtRes (verifyOne tau m)))}"
    | _, _, _, _, _ => "bad-op"
  | "rbatch" :: np :: npr :: cs =>
    match np.toNat?, npr.toNat?, cs.mapM classMember with
    | some np, some npr, some ms =>
      s!"batch={fmtRes (batchVerdict (fr 1) np npr ms)} each={join (ms.map (fun m => fmtRes (verifyOne (fr 1) m)))}"
    | _, _, _ => "bad-op"
  | "rsched" :: np :: npr :: cs =>
    -- `class[@summary]` per member; the summary is carried in the (otherwise unused) base of the
    -- member's guard
    let parseOne (c : String) : Option (Member Fr Fr) :=
      match c.splitOn "@" with
      | [cl] => classMember cl
      | [cl, s] => do
        let m ← classMember cl
        let s ← parseFr s
        pure { m with prepared := m.prepared.map (fun d => { d with left := [⟨fr 1, s, .noLabel⟩] }) }
      | _ => none
    let summaryOf (m : Member Fr Fr) : Fr :=
      match m.prepared with
      | .ok d => (d.left.head?.map (·.base)).getD (fr 0)
      | .error _ => fr 0
    match np.toNat?, npr.toNat?, cs.mapM parseOne with
    | some np, some npr, some ms =>
      let ev := rScheduleFull np npr ms summaryOf
      if ev.isEmpty then "-" else " ".intercalate (ev.map fmtTEvent)
    | _, _, _ => "bad-op"
  | ["fromdual", pfx, d, fb] =>
    match parseDual d, parseMap fb with
    | some d, some fb =>
      match fromDualMsm d pfx fb with
      | some a => fmtAcc false a
      | none => "panic"
    | _, _ => "bad-op"
  | ["acc-check", tau, a, fb] =>
    match parseFr tau, parseAcc a, parseMap fb with
    | some tau, some a, some fb => fmtOptBool (a.check tau fb)
    | _, _, _ => "bad-op"
  | ["msm-acc-eval", m, fb] =>
    match parseMsm m, parseMap fb with
    | some m, some fb =>
      match m.eval fb with
      | some k => pointStr k
      | none => "panic"
    | _, _ => "bad-op"
  | ["acc-collapse", a] =>
    match parseAcc a with
    | some a => fmtAcc true a.collapse
    | none => "bad-op"
  | ["msm-accumulate", r, m1, m2] =>
    match parseFr r, parseMsm m1, parseMsm m2 with
    | some r, some m1, some m2 => fmtMsm false (m1.accumulateWithR m2 r)
    | _, _, _ => "bad-op"
  | "accumulate" :: r :: accs =>
    -- `r` is the sponge output on `accumulateHashInput` (computed by the harness with the real
    -- sponge over the real `as_public_input`, see `accpi`)
    match parseFr r, accs.mapM parseAcc with
    | some r, some accs =>
      match Accumulator.accumulate (fun _ => r) (fun _ => []) accs with
      | some a => fmtAcc false a
      | none => "panic"
    | _, _ => "bad-op"
  | "accumulate-check" :: tau :: r :: fb :: accs =>
    -- check of `accumulate(accs)` and of its collapse
    match parseFr tau, parseFr r, parseMap fb, accs.mapM parseAcc with
    | some tau, some r, some fb, some accs =>
      match Accumulator.accumulate (fun _ => r) (fun _ => []) accs with
      | some a => fmtOptBool (a.check tau fb) ++ " " ++ fmtOptBool (a.collapse.check tau fb)
      | none => "panic"
    | _, _, _, _ => "bad-op"
  | ["accpi", a, enc] =>
    -- `enc`: `base=f/f/…,…`
    match parseAcc a with
    | some a =>
      let entries := (splitList enc ",").mapM (fun e =>
        match e.splitOn "=" with
        | [b, fs] => do
          let b ← parseFr b
          let fs ← (splitList fs "/").mapM parseFr
          pure (b, fs)
        | _ => none)
      match entries with
      | some tbl =>
        let encf : Fr → List Fr := fun b => ((tbl.find? (fun e => e.1 = b)).map (·.2)).getD []
        fmtHexList ((a.asPublicInput encf).map (·.val))
      | none => "bad-op"
    | none => "bad-op"
  | "dual-tree" :: tau :: toks =>
    -- a tree of `scale` / `add_msm` calls of any shape: structure and verdict of the result, and
    -- the coefficient the model predicts for every leaf
    match parseFr tau, parseTree toks [] with
    | some tau, some t =>
      fmtDual t.run ++ " " ++ fmtBool (t.run.check tau) ++ " "
        ++ ",".intercalate (t.leaves.map (fun cd => toHex cd.1.val))
    | _, _ => "bad-op"
  | "gsched" :: np :: npr :: ms =>
    -- every hasher operation of `batch_verify` in program order
    match np.toNat?, npr.toNat?, ms.mapM parseMemberTrace with
    | some np, some npr, some ms =>
      let ev := globalScheduleFull np npr ms
      if ev.isEmpty then "-" else " ".intercalate (ev.map fmtGEvent)
    | _, _, _ => "bad-op"
  | ["accpic", a, enc] =>
    match parseAcc a, parseEnc enc with
    | some a, some encf =>
      let r := a.asPublicInputCommitted encf
      fmtHexList (r.1.map (·.val)) ++ " " ++ fmtHexList (r.2.map (·.val))
    | _, _ => "bad-op"
  | "aaccumulate" :: r :: accs =>
    -- the in-circuit `AssignedAccumulator::accumulate` on values (`r` as for `accumulate`)
    match parseFr r, accs.mapM parseAcc with
    | some r, some accs =>
      match Accumulator.aAccumulate (fun _ => r) (fun _ => []) accs with
      | some a => fmtAcc false a
      | none => "panic"
    | _, _ => "bad-op"
  | "aaccumulate-pi" :: r :: enc :: accs =>
    -- the same through the public-input form of the result (bases as the back-end encodes them)
    match parseFr r, parseEnc enc, accs.mapM parseAcc with
    | some r, some encf, some accs =>
      match Accumulator.aAccumulate (fun _ => r) (fun _ => []) accs with
      | some a => fmtHexList ((a.asPublicInput encf).map (·.val))
      | none => "panic"
    | _, _, _ => "bad-op"
  | ["powers", x, n] =>
    match parseFr x, n.toNat? with
    | some x, some n => fmtHexList ((aPowers x n).map (·.val))
    | _, _ => "bad-op"
  | _ => "bad-op"
where
  join (l : List String) : String := if l.isEmpty then "-" else ",".intercalate l

end MidnightZK.C15.Driver

/-- `mzk-c15 < ops.txt > model.txt` : one answer line per request line. -/
def main : IO UInt32 := do
  MidnightZK.lineLoop (← IO.getStdin) (← IO.getStdout) MidnightZK.C15.Driver.answer
  return 0
