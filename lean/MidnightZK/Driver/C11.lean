import MidnightZK.Model.Common
import MidnightZK.Model.C11.Field
import MidnightZK.Model.C11.Params
import MidnightZK.Model.C11.Weierstrass
import MidnightZK.Model.C11.Edwards
import MidnightZK.Model.C11.Jubjub
/-!
Line-protocol handler of property C11.

Request: `<curve> <op>[:<variant>] <args…>`; the variant tag names the implementation path the
harness took (operator overload, in-place form, subgroup newtype, …) and is ignored by the model:
all variants of one operation must give the same answer.
Tokens: field element `0x…` (`0x…~0x…` for a quadratic extension element `c0~c1`), affine point
`x/y` or `inf`, coordinate tuples `X/Y/Z[/…]`, byte strings as hex in array order, scalars `0x…`.
-/
namespace MidnightZK.C11.Driver
open MidnightZK MidnightZK.C11

section generic
variable {F : Type} [CoordField F]

def pf (s : String) : Option F := CoordField.parse s
def ff (x : F) : String := CoordField.fmt x

def parseTuple (s : String) : Option (List F) := (s.splitOn "/").mapM pf
def fmtTuple (l : List F) : String := "/".intercalate (l.map ff)

def parsePair (s : String) : Option (F × F) :=
  match parseTuple (F := F) s with
  | some [a, b] => some (a, b)
  | _ => none

def fmtPair (p : F × F) : String := ff p.1 ++ "/" ++ ff p.2

def parseW (s : String) : Option (WPoint F) :=
  if s = "inf" then some none else (parsePair s).map some

def fmtW : WPoint F → String
  | none => "inf"
  | some p => fmtPair p

def fmtOpt {α : Type} (f : α → String) : Option α → String
  | none => "none"
  | some a => f a

end generic

def hexByte (b : Nat) : String := String.ofList [hexDigit (b / 16), hexDigit (b % 16)]
/-- Bytes (array order) to hex. -/
def bytesHex (l : List Nat) : String := String.join (l.map hexByte)
/-- Hex string to bytes. -/
def hexBytes? (s : String) : Option (List Nat) :=
  let cs := s.toList
  if cs.length % 2 ≠ 0 then none else
  let rec go : List Char → Option (List Nat)
    | a :: b :: t => do
      let v ← parseHex? (String.ofList [a, b])
      let r ← go t
      pure (v :: r)
    | [] => some []
    | _ => none
  go cs

def beBytesToNat (l : List Nat) : Nat := l.foldl (fun acc b => acc * 256 + b) 0
def natToBeBytes (n v : Nat) : List Nat := (natToLeBytes n v).reverse

/-! ### Jubjub -/
namespace JJ
open Jubjub Params

abbrev Fq := Fp blsR
def d : Fq := ⟨jjD⟩
def d2 : Fq := ⟨jjD2⟩
def aM1 : Fq := -(1 : Fq)

def parseExt (s : String) : Option (Ext Fq) :=
  match parseTuple (F := Fq) s with
  | some [u, v, z, t1, t2] => some ⟨u, v, z, t1, t2⟩
  | _ => none
def fmtExt (p : Ext Fq) : String := fmtTuple [p.u, p.v, p.z, p.t1, p.t2]

/-- raw result followed by the affine-law result computed from the affine operands. -/
def both (raw : Ext Fq) (spec : Fq × Fq) : String := fmtExt raw ++ " " ++ fmtPair spec

def law (p q : Fq × Fq) : Fq × Fq := eAdd aM1 d p q

def answer (op : String) (args : List String) : String :=
  match op, args with
  | "gen", [] => fmtPair ((⟨jjGenU⟩, ⟨jjGenV⟩) : Fq × Fq)
  | "ident", [] => fmtExt Ext.identity
  | "of_affine", [a] => match parsePair (F := Fq) a with
    | some a => fmtExt (ofAffine a) | none => "bad-op"
  | "add_ee", [a, b] => match parseExt a, parseExt b with
    | some p, some q => both (p.add d2 q) (law p.toAffine q.toAffine) | _, _ => "bad-op"
  | "sub_ee", [a, b] => match parseExt a, parseExt b with
    | some p, some q => both (p.sub d2 q) (law p.toAffine (eNeg q.toAffine)) | _, _ => "bad-op"
  | "add_ea", [a, b] => match parseExt a, parsePair (F := Fq) b with
    | some p, some q => both (addANiels p (affToNiels d2 q)) (law p.toAffine q) | _, _ => "bad-op"
  | "sub_ea", [a, b] => match parseExt a, parsePair (F := Fq) b with
    | some p, some q => both (subANiels p (affToNiels d2 q)) (law p.toAffine (eNeg q)) | _, _ => "bad-op"
  | "add_aa", [a, b] => match parsePair (F := Fq) a, parsePair (F := Fq) b with
    -- `JubjubExtended::from(*other) + self`
    | some p, some q => both (addANiels (ofAffine q) (affToNiels d2 p)) (law p q) | _, _ => "bad-op"
  | "sub_aa", [a, b] => match parsePair (F := Fq) a, parsePair (F := Fq) b with
    -- `-JubjubExtended::from(*other) + self`
    | some p, some q => both (addANiels (ofAffine q).neg (affToNiels d2 p)) (law p (eNeg q)) | _, _ => "bad-op"
  | "dbl", [a] => match parseExt a with
    | some p => both p.double (law p.toAffine p.toAffine) | none => "bad-op"
  | "neg", [a] => match parseExt a with
    | some p => both p.neg (eNeg p.toAffine) | none => "bad-op"
  | "neg_a", [a] => match parsePair (F := Fq) a with
    | some p => fmtPair (eNeg p) | none => "bad-op"
  | "cof", [a] => match parseExt a with
    | some p => both p.mulByCofactor (eMul aM1 d 8 p.toAffine) | none => "bad-op"
  | "niels_e", [a] => match parseExt a with
    | some p => let n := p.toNiels d2; fmtTuple [n.vpu, n.vmu, n.z, n.t2d] | none => "bad-op"
  | "niels_a", [a] => match parsePair (F := Fq) a with
    | some p => let n := affToNiels d2 p; fmtTuple [n.vpu, n.vmu, n.t2d] | none => "bad-op"
  | "mul_e", [a, k] => match parseExt a, parseNat? k with
    | some p, some k => both (p.multiply d2 k) (eMul aM1 d (k % 2 ^ 252) p.toAffine) | _, _ => "bad-op"
  | "mul_a", [a, k] => match parsePair (F := Fq) a, parseNat? k with
    | some p, some k => both ((affToNiels d2 p).multiply k) (eMul aM1 d (k % 2 ^ 252) p) | _, _ => "bad-op"
  | "isid", [a] => match parseExt a with
    | some p => fmtBool p.isIdentity | none => "bad-op"
  | "small", [a] => match parseExt a with
    | some p => fmtBool p.isSmallOrder | none => "bad-op"
  | "tf", [a] => match parseExt a with
    -- torsion-free by the code's formula, and by the affine law: `r·P = (0, 1)`
    | some p => fmtBool (p.isTorsionFree d2 jjR) ++ " " ++
        fmtBool (decide (eMul aM1 d jjR p.toAffine = eZero)) | none => "bad-op"
  | "prime", [a] => match parseExt a with
    | some p => fmtBool (p.isPrimeOrder d2 jjR) | none => "bad-op"
  | "eq", [a, b] => match parseExt a, parseExt b with
    | some p, some q => fmtBool (p.ctEq q) ++ " " ++ fmtBool (decide (p.toAffine = q.toAffine))
    | _, _ => "bad-op"
  | "aff", [a] => match parseExt a with
    | some p => fmtPair p.toAffine | none => "bad-op"
  | "oncurve", [a] => match parsePair (F := Fq) a with
    | some p => fmtBool (eOnCurve aM1 d p) | none => "bad-op"
  | "enc", [a] => match parsePair (F := Fq) a with
    | some p => bytesHex (natToLeBytes 32 (toBytesNat p)) | none => "bad-op"
  | "dec", [h] => match hexBytes? h with
    | some bs => if bs.length ≠ 32 then "bad-op" else
      fmtOpt fmtPair (fromBytesInner d true (leBytesToNat bs))
    | none => "bad-op"
  | "dec_pre216", [h] => match hexBytes? h with
    | some bs => if bs.length ≠ 32 then "bad-op" else
      fmtOpt fmtPair (fromBytesInner d false (leBytesToNat bs))
    | none => "bad-op"
  | "dec_sub", [h] => match hexBytes? h with
    -- `JubjubSubgroup::from_bytes`: decode, then `is_torsion_free`
    | some bs => if bs.length ≠ 32 then "bad-op" else
      match fromBytesInner d true (leBytesToNat bs) with
      | some p => if (ofAffine p).isTorsionFree d2 jjR then fmtPair p else "none"
      | none => "none"
    | none => "bad-op"
  | "sum", l => match l.mapM parseExt with
    | some ps =>
      both (ps.foldl (fun acc p => acc.add d2 p) Ext.identity) (eSum aM1 d (ps.map Ext.toAffine))
    | none => "bad-op"
  | "bn", l => match l.mapM parseExt with
    | some ps => " ".intercalate ((batchNormalize ps).map fmtPair)
    | none => "bad-op"
  | _, _ => "bad-op"

end JJ

def answer (line : String) : String :=
  match words line with
  | curve :: op :: args =>
    let op := (op.splitOn ":").headD ""
    match curve with
    | "jj" => JJ.answer op args
    | _ => "bad-op"
  | _ => "bad-op"

end MidnightZK.C11.Driver

/-- `mzk-c11 < ops.txt > model.txt` : one answer line per request line. -/
def main : IO UInt32 := do
  MidnightZK.lineLoop (← IO.getStdin) (← IO.getStdout) MidnightZK.C11.Driver.answer
  return 0
