import MidnightZK.Model.Common
/-! Line-protocol handler of property C11 (stub: answers `unimplemented`). -/
namespace MidnightZK.C11.Driver

def answer (_line : String) : String := "unimplemented"

end MidnightZK.C11.Driver
