import MidnightZK.Model.Common
import MidnightZK.Model.C11.Field
import MidnightZK.Model.C11.Params
import MidnightZK.Model.C11.Weierstrass
import MidnightZK.Model.C11.Edwards
import MidnightZK.Model.C11.Jubjub
import MidnightZK.Model.C11.Bn
import MidnightZK.Model.C11.Codec
import MidnightZK.Model.C11.Batch
/-!
Line-protocol handler of property C11.

Request: `<curve> <op>[:<variant>] <args…>`; the variant tag names the implementation path the
harness took (operator overload, in-place form, subgroup newtype, …) and is ignored by the model:
all variants of one operation must give the same answer.
Tokens: field element `0x…` (`0x…~0x…` for a quadratic extension element `c0~c1`), affine point
`x/y` or `inf`, coordinate tuples `X/Y/Z[/…]`, byte strings as hex in array order, scalars `0x…`.
-/
namespace MidnightZK.C11.Driver
open MidnightZK MidnightZK.C11

section generic
variable {F : Type} [CoordField F]

def pf (s : String) : Option F := CoordField.parse s
def ff (x : F) : String := CoordField.fmt x

def parseTuple (s : String) : Option (List F) := (s.splitOn "/").mapM pf
def fmtTuple (l : List F) : String := "/".intercalate (l.map ff)

def parsePair (s : String) : Option (F × F) :=
  match parseTuple (F := F) s with
  | some [a, b] => some (a, b)
  | _ => none

def fmtPair (p : F × F) : String := ff p.1 ++ "/" ++ ff p.2

def parseW (s : String) : Option (WPoint F) :=
  if s = "inf" then some none else (parsePair s).map some

def fmtW : WPoint F → String
  | none => "inf"
  | some p => fmtPair p

def fmtOpt {α : Type} (f : α → String) : Option α → String
  | none => "none"
  | some a => f a

end generic

def hexByte (b : Nat) : String := String.ofList [hexDigit (b / 16), hexDigit (b % 16)]
/-- Bytes (array order) to hex. -/
def bytesHex (l : List Nat) : String := String.join (l.map hexByte)
/-- Hex string to bytes. -/
def hexBytes? (s : String) : Option (List Nat) :=
  let cs := s.toList
  if cs.length % 2 ≠ 0 then none else
  let rec go : List Char → Option (List Nat)
    | a :: b :: t => do
      let v ← parseHex? (String.ofList [a, b])
      let r ← go t
      pure (v :: r)
    | [] => some []
    | _ => none
  go cs

def beBytesToNat (l : List Nat) : Nat := l.foldl (fun acc b => acc * 256 + b) 0
def natToBeBytes (n v : Nat) : List Nat := (natToLeBytes n v).reverse

/-! ### Jubjub -/
namespace JJ
open Jubjub Params

abbrev Fq := Fp blsR
def d : Fq := ⟨jjD⟩
def d2 : Fq := ⟨jjD2⟩
def aM1 : Fq := -(1 : Fq)

def parseExt (s : String) : Option (Ext Fq) :=
  match parseTuple (F := Fq) s with
  | some [u, v, z, t1, t2] => some ⟨u, v, z, t1, t2⟩
  | _ => none
def fmtExt (p : Ext Fq) : String := fmtTuple [p.u, p.v, p.z, p.t1, p.t2]

/-- raw result followed by the affine-law result computed from the affine operands. -/
def both (raw : Ext Fq) (spec : Fq × Fq) : String := fmtExt raw ++ " " ++ fmtPair spec

def law (p q : Fq × Fq) : Fq × Fq := eAdd aM1 d p q

/-- `JubjubAffine::batch_from_bytes`: parse `(sign, v)`, collect the denominators `1 + d·v²` (zero
for a rejected `v`), ONE shared inversion (`ff::BatchInvert::batch_invert`, model
`Batch.batchInvert`), then per item `u = sqrt(numerator · inv)`, sign fix and the ZIP 216 rule
`!(u == 0 & flip_sign)`. Input = the 32-byte strings as little-endian numbers. -/
def batchFromBytes (d : Fq) (bs : List Nat) : List (Option (Fq × Fq)) :=
  let items : List (Option (Nat × Fq × Fq × Fq)) := bs.map fun b =>
    let sign := b / 2 ^ 255 % 2
    let vb := b % 2 ^ 255
    if vb ≥ blsR then none else
      let v : Fq := ⟨vb⟩
      let v2 := v * v
      some (sign, v, v2 - 1, 1 + d * v2)
  let dens : List Fq := items.map fun it => match it with
    | some (_, _, _, den) => den
    | none => (0 : Fq)
  let invs := Batch.batchInvert dens
  List.zipWith (fun it inv => match it with
    | none => none
    | some (sign, v, num, _) =>
      match (num * inv).sqrt with
      | none => none
      | some u =>
        let flip := (u.v % 2) != sign
        let fu := if flip then -u else u
        if u.v == 0 && flip then none else some (fu, v)) items invs

def answer (op : String) (args : List String) : String :=
  match op, args with
  | "gen", [] => fmtPair ((⟨jjGenU⟩, ⟨jjGenV⟩) : Fq × Fq)
  | "ident", [] => fmtExt Ext.identity
  | "of_affine", [a] => match parsePair (F := Fq) a with
    | some a => fmtExt (ofAffine a) | none => "bad-op"
  | "add_ee", [a, b] => match parseExt a, parseExt b with
    | some p, some q => both (p.add d2 q) (law p.toAffine q.toAffine) | _, _ => "bad-op"
  | "sub_ee", [a, b] => match parseExt a, parseExt b with
    | some p, some q => both (p.sub d2 q) (law p.toAffine (eNeg q.toAffine)) | _, _ => "bad-op"
  | "add_ea", [a, b] => match parseExt a, parsePair (F := Fq) b with
    | some p, some q => both (addANiels p (affToNiels d2 q)) (law p.toAffine q) | _, _ => "bad-op"
  | "sub_ea", [a, b] => match parseExt a, parsePair (F := Fq) b with
    | some p, some q => both (subANiels p (affToNiels d2 q)) (law p.toAffine (eNeg q)) | _, _ => "bad-op"
  | "add_aa", [a, b] => match parsePair (F := Fq) a, parsePair (F := Fq) b with
    -- `JubjubExtended::from(*other) + self`
    | some p, some q => both (addANiels (ofAffine q) (affToNiels d2 p)) (law p q) | _, _ => "bad-op"
  | "sub_aa", [a, b] => match parsePair (F := Fq) a, parsePair (F := Fq) b with
    -- `-JubjubExtended::from(*other) + self`
    | some p, some q => both (addANiels (ofAffine q).neg (affToNiels d2 p)) (law p (eNeg q)) | _, _ => "bad-op"
  | "dbl", [a] => match parseExt a with
    | some p => both p.double (law p.toAffine p.toAffine) | none => "bad-op"
  | "neg", [a] => match parseExt a with
    | some p => both p.neg (eNeg p.toAffine) | none => "bad-op"
  | "neg_a", [a] => match parsePair (F := Fq) a with
    | some p => fmtPair (eNeg p) | none => "bad-op"
  | "cof", [a] => match parseExt a with
    | some p => both p.mulByCofactor (eMul aM1 d 8 p.toAffine) | none => "bad-op"
  | "niels_e", [a] => match parseExt a with
    | some p => let n := p.toNiels d2; fmtTuple [n.vpu, n.vmu, n.z, n.t2d] | none => "bad-op"
  | "niels_a", [a] => match parsePair (F := Fq) a with
    | some p => let n := affToNiels d2 p; fmtTuple [n.vpu, n.vmu, n.t2d] | none => "bad-op"
  | "mul_e", [a, k] => match parseExt a, parseNat? k with
    | some p, some k => both (p.multiply d2 k) (eMul aM1 d (k % 2 ^ 252) p.toAffine) | _, _ => "bad-op"
  | "mul_a", [a, k] => match parsePair (F := Fq) a, parseNat? k with
    | some p, some k => both ((affToNiels d2 p).multiply k) (eMul aM1 d (k % 2 ^ 252) p) | _, _ => "bad-op"
  | "isid", [a] => match parseExt a with
    | some p => fmtBool p.isIdentity | none => "bad-op"
  | "small", [a] => match parseExt a with
    | some p => fmtBool p.isSmallOrder | none => "bad-op"
  | "tf", [a] => match parseExt a with
    -- torsion-free by the code's formula, and by the affine law: `r·P = (0, 1)`
    | some p => fmtBool (p.isTorsionFree d2 jjR) ++ " " ++
        fmtBool (decide (eMul aM1 d jjR p.toAffine = eZero)) | none => "bad-op"
  | "prime", [a] => match parseExt a with
    | some p => fmtBool (p.isPrimeOrder d2 jjR) | none => "bad-op"
  | "eq", [a, b] => match parseExt a, parseExt b with
    | some p, some q => fmtBool (p.ctEq q) ++ " " ++ fmtBool (decide (p.toAffine = q.toAffine))
    | _, _ => "bad-op"
  | "aff", [a] => match parseExt a with
    | some p => fmtPair p.toAffine | none => "bad-op"
  | "oncurve", [a] => match parsePair (F := Fq) a with
    | some p => fmtBool (eOnCurve aM1 d p) | none => "bad-op"
  | "enc", [a] => match parsePair (F := Fq) a with
    | some p => bytesHex (natToLeBytes 32 (toBytesNat p)) | none => "bad-op"
  | "dec", [h] => match hexBytes? h with
    | some bs => if bs.length ≠ 32 then "bad-op" else
      fmtOpt fmtPair (fromBytesInner d true (leBytesToNat bs))
    | none => "bad-op"
  | "dec_pre216", [h] => match hexBytes? h with
    | some bs => if bs.length ≠ 32 then "bad-op" else
      fmtOpt fmtPair (fromBytesInner d false (leBytesToNat bs))
    | none => "bad-op"
  | "dec_sub", [h] => match hexBytes? h with
    -- `JubjubSubgroup::from_bytes`: decode, then `is_torsion_free`
    | some bs => if bs.length ≠ 32 then "bad-op" else
      match fromBytesInner d true (leBytesToNat bs) with
      | some p => if (ofAffine p).isTorsionFree d2 jjR then fmtPair p else "none"
      | none => "none"
    | none => "bad-op"
  | "sum", l => match l.mapM parseExt with
    | some ps =>
      both (Batch.jjSum d2 ps) (eSum aM1 d (ps.map Ext.toAffine))
    | none => "bad-op"
  | "bn", l => match l.mapM parseExt with
    -- the two-pass shared inversion (theorem `jj_batch_normalize_spec`: = `map toAffine`)
    | some ps => " ".intercalate ((Batch.jjBatchNormalize ps).map fmtPair)
    | none => "bad-op"
  | "bn_inplace", l => match l.mapM parseExt with
    | some ps => " ".intercalate ((Batch.jjBatchNormalizeInPlace ps).map fmtExt)
    | none => "bad-op"
  | "niels_ident_a", [] => let n : ANiels Fq := ANiels.identity; fmtTuple [n.vpu, n.vmu, n.t2d]
  | "niels_ident_e", [] => let n : ENiels Fq := ENiels.identity; fmtTuple [n.vpu, n.vmu, n.z, n.t2d]
  | "dec_batch", l => match l.mapM hexBytes? with
    | some bss => if bss.any (·.length ≠ 32) then "bad-op" else
      " ".intercalate ((batchFromBytes d (bss.map leBytesToNat)).map (fmtOpt fmtPair))
    | none => "bad-op"
  | _, _ => "bad-op"

end JJ


/-! ### Weierstrass curve types (BLS12-381 G1/G2, BN254 G1/G2, secp256k1) -/
namespace W
open Codec

structure Cfg (F : Type) where
  b : F
  /-- order of the prime-order subgroup -/
  r : Nat
  gen : WPoint F
  zeta : F
  /-- the wrapped projective type is Jacobian (blst) rather than homogeneous (derive) -/
  jac : Bool
  compress : WPoint F → List Nat
  /-- `from_bytes_unchecked` -/
  decompress : List Nat → Option (WPoint F)
  serialize : WPoint F → List Nat
  /-- `from_uncompressed_unchecked` -/
  deserialize : List Nat → Option (WPoint F)
  /-- extra checks of the checked decoders: on-curve, torsion-free -/
  cChecks : Bool × Bool
  uChecks : Bool × Bool

section
variable {F : Type} [CoordField F] [DecidableEq F] [OfNat F 0] [OfNat F 1]

def parseTriple (s : String) : Option (F × F × F) :=
  match parseTuple (F := F) s with
  | some [a, b, c] => some (a, b, c)
  | _ => none
def fmtTriple (t : F × F × F) : String := fmtTuple [t.1, t.2.1, t.2.2]

def tf (c : Cfg F) (p : WPoint F) : Bool := (wMul (0 : F) c.r p).isNone

def checked (c : Cfg F) (ch : Bool × Bool) (p : Option (WPoint F)) : Option (WPoint F) :=
  match p with
  | none => none
  | some q =>
    if (ch.1 && !(wOnCurve (0 : F) c.b q)) || (ch.2 && !(tf c q)) then none else some q

def toAff (c : Cfg F) (t : F × F × F) : WPoint F :=
  if c.jac then jacToAffine t.1 t.2.1 t.2.2 else homToAffine t.1 t.2.1 t.2.2

def withBytes (h : String) (f : List Nat → String) : String :=
  match hexBytes? h with
  | some bs => f bs
  | none => "bad-op"

def answer (c : Cfg F) (op : String) (args : List String) : String :=
  let a0 : F := 0
  match op, args with
  | "gen", [] => fmtW c.gen
  | "b", [] => ff c.b
  | "sizes", [] => toString (c.compress none).length ++ " " ++ toString (c.serialize none).length
  | "add", [p, q] => match parseW (F := F) p, parseW (F := F) q with
    | some p, some q => fmtW (wAdd a0 p q) | _, _ => "bad-op"
  | "sub", [p, q] => match parseW (F := F) p, parseW (F := F) q with
    | some p, some q => fmtW (wSub a0 p q) | _, _ => "bad-op"
  | "dbl", [p] => match parseW (F := F) p with
    | some p => fmtW (wDouble a0 p) | none => "bad-op"
  | "neg", [p] => match parseW (F := F) p with
    | some p => fmtW (wNeg p) | none => "bad-op"
  | "mul", [p, k] => match parseW (F := F) p, parseNat? k with
    | some p, some k => fmtW (wMul a0 k p) | _, _ => "bad-op"
  | "sum", l => match l.mapM (parseW (F := F)) with
    | some ps => fmtW (wSum a0 ps) | none => "bad-op"
  | "tf", [p] => match parseW (F := F) p with
    | some p => fmtBool (tf c p) | none => "bad-op"
  | "oncurve", [p] => match parseW (F := F) p with
    | some p => fmtBool (wOnCurve a0 c.b p) | none => "bad-op"
  | "fromxy", [p] => match parsePair (F := F) p with
    | some (x, y) =>
      if x = 0 ∧ y = 0 then "inf"
      else if wOnCurve a0 c.b (some (x, y)) then fmtPair (x, y) else "none"
    | none => "bad-op"
  | "norm", [t] => match parseTriple (F := F) t with
    | some t => fmtW (toAff c t) | none => "bad-op"
  | "isid", [t] => match parseTriple (F := F) t with
    | some t => fmtBool (decide (t.2.2 = 0)) | none => "bad-op"
  | "eqraw", [t, u] => match parseTriple (F := F) t, parseTriple (F := F) u with
    | some (x1, y1, z1), some (x2, y2, z2) =>
      fmtBool (if c.jac then jacCtEq x1 y1 z1 x2 y2 z2 else homCtEq x1 y1 z1 x2 y2 z2) ++ " " ++
        fmtBool (decide (toAff c (x1, y1, z1) = toAff c (x2, y2, z2)))
    | _, _ => "bad-op"
  | "jaccoords", [t] => match parseTriple (F := F) t with
    | some (x, y, z) =>
      let j : F × F × F := if c.jac then (x, y, z) else Bn.jacobianCoordinates ⟨x, y, z⟩
      fmtTriple j ++ " " ++ fmtW (jacToAffine j.1 j.2.1 j.2.2)
    | none => "bad-op"
  | "newjac", [t] => match parseTriple (F := F) t with
    | some (x, y, z) =>
      let p := jacToAffine x y z
      if wOnCurve a0 c.b p then fmtW p else "none"
    | none => "bad-op"
  | "endo", [p] => match parseW (F := F) p with
    | some none => "inf"
    | some (some (x, y)) => fmtPair (x * c.zeta, y)
    | none => "bad-op"
  | "enc", [p] => match parseW (F := F) p with
    | some p => bytesHex (c.compress p) | none => "bad-op"
  | "encu", [p] => match parseW (F := F) p with
    | some p => bytesHex (c.serialize p) | none => "bad-op"
  | "dec_unchecked", [h] => withBytes h fun bs => fmtOpt fmtW (c.decompress bs)
  | "dec", [h] => withBytes h fun bs => fmtOpt fmtW (checked c c.cChecks (c.decompress bs))
  | "decu_unchecked", [h] => withBytes h fun bs => fmtOpt fmtW (c.deserialize bs)
  | "decu", [h] => withBytes h fun bs => fmtOpt fmtW (checked c c.uChecks (c.deserialize bs))
  | _, _ => "bad-op"

/-- Structural operations of the homogeneous-coordinate types of `derive/curve.rs`. -/
def answerBn (c : Cfg F) (op : String) (args : List String) : String :=
  let b3 := c.b + c.b + c.b
  let pp (s : String) : Option (Bn.Proj F) := (parseTriple (F := F) s).map fun t => ⟨t.1, t.2.1, t.2.2⟩
  let fp (p : Bn.Proj F) : String := fmtTuple [p.x, p.y, p.z]
  match op, args with
  | "addraw", [p, q] => match pp p, pp q with
    | some p, some q => fp (Bn.addRaw b3 p q) | _, _ => "bad-op"
  | "mixedraw", [p, q] => match pp p, parseW (F := F) q with
    | some p, some q => fp (Bn.addMixed b3 p q) | _, _ => "bad-op"
  | "dblraw", [p] => match pp p with
    | some p => fp (Bn.double b3 p) | none => "bad-op"
  | "negraw", [p] => match pp p with
    | some p => fp p.neg | none => "bad-op"
  | "mulraw", [p, k] => match pp p, parseNat? k with
    | some p, some k => fp (Bn.mul b3 p k) | _, _ => "bad-op"
  | "mulraw_a", [q, k] => match parseW (F := F) q, parseNat? k with
    | some q, some k => fp (Bn.mulAffine b3 q k) | _, _ => "bad-op"
  | "tocurve", [q] => match parseW (F := F) q with
    | some q => fp (Bn.ofAffine q) | none => "bad-op"
  | "oncurve_raw", [p] => match pp p with
    | some p => fmtBool (Bn.isOnCurve c.b p) | none => "bad-op"
  | "oncurve_xy", [q] => match parsePair (F := F) q with
    | some (x, y) => fmtBool (Bn.affIsOnCurve c.b x y) | none => "bad-op"
  | "newjac_raw", [t] => match parseTriple (F := F) t with
    | some (x, y, z) => fmtOpt fp (Bn.newJacobian c.b x y z) | none => "bad-op"
  | "endoraw", [p] => match pp p with
    | some p => fp (Bn.endo c.zeta p) | none => "bad-op"
  | "toaffine_raw", [p] => match pp p with
    | some p => fmtW (Bn.toAffine p) | none => "bad-op"
  | "bnorm_raw", l => match l.mapM pp with
    -- `Curve::batch_normalize`, two passes with the identity skip (theorem `bn_batch_normalize_spec`)
    | some ps => " ".intercalate ((Batch.bnBatchNormalize ps).map fmtW)
    | none => "bad-op"
  | "sumraw", l => match l.mapM pp with
    | some ps => fp (Batch.bnSum b3 ps)
    | none => "bad-op"
  | _, _ => answer c op args

end

open Params

def g1 : Cfg (Fp blsP) :=
  let fc := fpCodec blsP 48
  { b := 4, r := blsR, gen := some (⟨g1GenX⟩, ⟨g1GenY⟩), zeta := ⟨blsZeta⟩, jac := true,
    compress := blsCompress fc, decompress := blsUncompress fc 4,
    serialize := blsSerialize fc, deserialize := blsDeserialize fc 4,
    cChecks := (true, true), uChecks := (true, false) }

def g2B : Fp2 blsP := ⟨4, 4⟩

def g2 : Cfg (Fp2 blsP) :=
  let fc := fp2Codec blsP 48
  { b := g2B, r := blsR,
    gen := some (⟨⟨g2GenX0⟩, ⟨g2GenX1⟩⟩, ⟨⟨g2GenY0⟩, ⟨g2GenY1⟩⟩),
    zeta := ⟨⟨blsZeta⟩, ⟨0⟩⟩, jac := true,
    compress := blsCompress fc, decompress := blsUncompress fc g2B,
    serialize := blsSerialize fc, deserialize := blsDeserialize fc g2B,
    cChecks := (true, true), uChecks := (true, true) }

def bn1 : Cfg (Fp bnP) :=
  let fc := fpCodec bnP 32
  { b := 3, r := bnR, gen := some (1, 2), zeta := ⟨bnZeta⟩, jac := false,
    compress := bnEncode fc, decompress := bnDecode fc 3,
    serialize := bnToUncompressed fc, deserialize := bnFromUncompressed fc 3 false,
    cChecks := (false, false), uChecks := (true, false) }

def bn2B : Fp2 bnP := ⟨⟨bnB2c0⟩, ⟨bnB2c1⟩⟩

def bn2 : Cfg (Fp2 bnP) :=
  let fc := fp2Codec bnP 32
  { b := bn2B, r := bnR,
    gen := some (⟨⟨bnG2X0⟩, ⟨bnG2X1⟩⟩, ⟨⟨bnG2Y0⟩, ⟨bnG2Y1⟩⟩),
    zeta := ⟨⟨bnZeta⟩ * ⟨bnZeta⟩, ⟨0⟩⟩, jac := false,
    compress := bnEncode fc, decompress := bnDecode fc bn2B,
    serialize := bnToUncompressed fc, deserialize := bnFromUncompressed fc bn2B false,
    cChecks := (false, false), uChecks := (true, false) }

def secp : Cfg (Fp secpP) :=
  { b := 7, r := secpN, gen := some (⟨secpGenX⟩, ⟨secpGenY⟩), zeta := 1, jac := false,
    compress := secpEncode, decompress := secpDecode,
    serialize := fun _ => [], deserialize := fun _ => none,
    cChecks := (false, false), uChecks := (false, false) }

end W

/-! ### Curve25519 (twisted Edwards form, `curve25519-dalek` wrappers) -/
namespace ED
open Params Codec

abbrev Fq := Fp edP
def d : Fq := ⟨edD⟩
def aM1 : Fq := -(1 : Fq)
def law (p q : Fq × Fq) : Fq × Fq := eAdd aM1 d p q

def answer (op : String) (args : List String) : String :=
  match op, args with
  | "gen", [] => fmtPair ((⟨edGenX⟩, ⟨edGenY⟩) : Fq × Fq)
  | "add", [a, b] => match parsePair (F := Fq) a, parsePair (F := Fq) b with
    | some p, some q => fmtPair (law p q) | _, _ => "bad-op"
  | "sub", [a, b] => match parsePair (F := Fq) a, parsePair (F := Fq) b with
    | some p, some q => fmtPair (law p (eNeg q)) | _, _ => "bad-op"
  | "dbl", [a] => match parsePair (F := Fq) a with
    | some p => fmtPair (law p p) | none => "bad-op"
  | "neg", [a] => match parsePair (F := Fq) a with
    | some p => fmtPair (eNeg p) | none => "bad-op"
  | "mul", [a, k] => match parsePair (F := Fq) a, parseNat? k with
    | some p, some k => fmtPair (eMul aM1 d k p) | _, _ => "bad-op"
  | "sum", l => match l.mapM (parsePair (F := Fq)) with
    | some ps => fmtPair (eSum aM1 d ps) | none => "bad-op"
  | "isid", [a] => match parsePair (F := Fq) a with
    | some p => fmtBool (decide (p = eZero)) | none => "bad-op"
  | "tf", [a] => match parsePair (F := Fq) a with
    | some p => fmtBool (decide (eMul aM1 d edL p = eZero)) | none => "bad-op"
  | "oncurve", [a] => match parsePair (F := Fq) a with
    | some p => fmtBool (eOnCurve aM1 d p) | none => "bad-op"
  | "fromxy", [a] => match parsePair (F := Fq) a with
    | some p => if eOnCurve aM1 d p then fmtPair p else "none"
    | none => "bad-op"
  | "enc", [a] => match parsePair (F := Fq) a with
    | some p => bytesHex (edEncode p) | none => "bad-op"
  | "dec", [h] => match hexBytes? h with
    | some bs => if bs.length ≠ 32 then "bad-op" else fmtOpt fmtPair (edDecode bs)
    | none => "bad-op"
  | _, _ => "bad-op"

end ED

def answer (line : String) : String :=
  match words line with
  | curve :: op :: args =>
    let op := (op.splitOn ":").headD ""
    match curve with
    | "jj" => JJ.answer op args
    | "g1" => W.answer W.g1 op args
    | "g2" => W.answer W.g2 op args
    | "bn1" => W.answerBn W.bn1 op args
    | "bn2" => W.answerBn W.bn2 op args
    | "k256" => W.answer W.secp op args
    | "ed" => ED.answer op args
    | _ => "bad-op"
  | _ => "bad-op"

end MidnightZK.C11.Driver

/-- `mzk-c11 < ops.txt > model.txt` : one answer line per request line. -/
def main : IO UInt32 := do
  MidnightZK.lineLoop (← IO.getStdin) (← IO.getStdout) MidnightZK.C11.Driver.answer
  return 0
