import MidnightZK.Model.Common
/-! Line-protocol handler of property C11 (stub: answers `unimplemented`). -/
namespace MidnightZK.C11.Driver

def answer (_line : String) : String := "unimplemented"

end MidnightZK.C11.Driver

/-- `mzk-c11 < ops.txt > model.txt` : one answer line per request line. -/
def main : IO UInt32 := do
  MidnightZK.lineLoop (← IO.getStdin) (← IO.getStdout) MidnightZK.C11.Driver.answer
  return 0
