import MidnightZK.Model.Common
/-! Line-protocol handler of property C10 (stub: answers `unimplemented`). -/
namespace MidnightZK.C10.Driver

def answer (_line : String) : String := "unimplemented"

end MidnightZK.C10.Driver
