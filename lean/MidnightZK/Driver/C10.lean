import MidnightZK.Model.Common
/-! Line-protocol handler of property C10 (stub: answers `unimplemented`). -/
namespace MidnightZK.C10.Driver

def answer (_line : String) : String := "unimplemented"

end MidnightZK.C10.Driver

/-- `mzk-c10 < ops.txt > model.txt` : one answer line per request line. -/
def main : IO UInt32 := do
  MidnightZK.lineLoop (← IO.getStdin) (← IO.getStdout) MidnightZK.C10.Driver.answer
  return 0
