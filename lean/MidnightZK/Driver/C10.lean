import MidnightZK.Model.Common
import MidnightZK.Model.ModArith
import MidnightZK.Model.C10.Limbs
import MidnightZK.Model.C10.Field
import MidnightZK.Model.C10.Mont
import MidnightZK.Model.C10.Tower
import MidnightZK.Model.C10.Batch
import MidnightZK.Model.C10.BY
import MidnightZK.Model.C10.Jacobi
import MidnightZK.Gen.C10Constants
/-!
Line-protocol handler of property C10.

* `pf <Field> <op> <hex…>`   — prime-field operation on canonical integers (spec side);
* `lf <Field> <op> <limbs…>` — limb-level operation of a pure-Rust Montgomery field
  (`a,b,c,d` little-endian limbs), answered by the limb model;
* `const <Field> <NAME>`     — canonical value of a published constant, from the generated file;
* `tw <Tower> <op> <coeffs…>` — extension-field operation on coefficient vectors;
* `pl <Field> sum|product|batch_invert <desc>` — batched operation on a list given by a compact
  descriptor (`rep:v:n`, `alt:a:b:n`, `lcg:x0:a:c:n`); `pl <Field> chain <x0> <y> <prog> <n>` —
  `n` in-place operations applied cyclically from the program string (see `Model/C10/Batch.lean`);
* `by new|jump|fg|de|norm|invert …` — the building blocks and the traced main loop of the
  Bernstein–Yang inverter at the chunk level, `byv invert <M> <A> <x>` — the same loop on integers
  (`Model/C10/BY.lean`); `jac approx|binary|run …` — the Jacobi-symbol code (`Model/C10/Jacobi.lean`).
-/
namespace MidnightZK.C10.Driver
open MidnightZK MidnightZK.C10

def hx (n : Nat) : String := toHex n
def optHex : Option Nat → String
  | some n => hx n
  | none => "none"

def fmtL4 (a : L4) : String := fmtHexList a.toList

def parseL4? (s : String) : Option L4 := do
  let l ← (s.splitOn ",").mapM parseNat?
  L4.ofList l

/-- Prime-field operations on canonical values. -/
def answerPf (f : FieldInfo) (op : String) (args : List Nat) : String :=
  let p := f.p
  match op, args with
  | "add", [a, b] => hx (addMod a b p)
  | "sub", [a, b] => hx (subMod a b p)
  | "mul", [a, b] => hx (mulMod a b p)
  | "neg", [a] => hx (negMod a p)
  | "square", [a] => hx (mulMod a a p)
  | "double", [a] => hx (addMod a a p)
  | "inv", [a] => optHex (finv p a)
  | "pow", [a, e] => hx (powMod a e p)
  | "sqrt", [a] => optHex (sqrtMin p a)
  | "legendre", [a] => toString (legendre p a)
  | "reduce", [n] => hx (n % p)
  | "from_repr", [n] => optHex (decodeCanonical p n)
  | "from_raw", [n] => optHex (decodeRaw f n)
  | "from_raw_unchecked", [n] => hx (ofMont f n)
  | "to_raw", [a] => hx (encodeRaw f a)
  | "is_odd", [a] => fmtBool (a % p % 2 = 1)
  | "is_zero", [a] => fmtBool (a % p = 0)
  | "cmp", [a, b] => if a % p < b % p then "lt" else if a % p = b % p then "eq" else "gt"
  | "num_bits", [a] => toString (numBits (a % p))
  | "lex_largest", [a] => fmtBool (lexLargest p a)
  | "mul_small", [a, k] => hx (mulMod a k p)
  | "shl", [a, k] => hx (mulMod a (powMod 2 k p) p)
  | "shr", [a, k] => hx (mulMod a (powMod (invMod 2 p) k p) p)
  | "sum", l => hx (l.foldl (fun acc a => addMod acc a p) 0)
  | "product", l => hx (l.foldl (fun acc a => mulMod acc a p) (1 % p))
  | "batch_invert", l =>
    let (out, allInv) := batchInvert p l
    fmtHexList out ++ " " ++ hx allInv
  | "sqrt_ratio", [n, d] =>
    -- ff::Field::sqrt_ratio contract: (is_square, root) with the four documented cases;
    -- the answer is (flag, min-root of the value whose root is returned)
    if d % p = 0 then
      (if n % p = 0 then "1 0x0" else "0 0x0")
    else
      let q := mulMod n (invMod d p) p
      match sqrtMin p q with
      | some r => "1 " ++ hx r
      | none => "0 sq-of-g-times-ratio"
  | _, _ => "bad-op"

def montParamsOf (name : String) : Option (MontParams × L4 × L4 × Bool) :=
  -- (params, R2, R3, carry-aware variant)
  let mk (m : List Nat) (inv : Nat) (r2 r3 : List Nat) (c : Bool) :=
    match L4.ofList m, L4.ofList r2, L4.ofList r3 with
    | some m, some r2, some r3 => some (⟨m, inv⟩, r2, r3, c)
    | _, _, _ => none
  match name with
  | "JubjubFr" => mk Gen.JubjubFr.MODULUS Gen.JubjubFr.INV Gen.JubjubFr.R2 Gen.JubjubFr.R3 false
  | "BlsFq" => mk Gen.BlsFq.MODULUS Gen.BlsFq.INV Gen.BlsFq.R2 Gen.BlsFq.R3 false
  | "C25519Fp" => mk Gen.C25519Fp.MODULUS Gen.C25519Fp.INV Gen.C25519Fp.R2 Gen.C25519Fp.R3 true
  | _ => none

/-- Limb-level operations (arguments and answers are raw limb vectors). -/
def answerLf (name op : String) (args : List String) : String :=
  match montParamsOf name with
  | none => "bad-op"
  | some (p, r2, r3, carryAware) =>
    let l4s := args.mapM parseL4?
    match op, l4s with
    | "sub", some [a, b] => fmtL4 (subL p.m a b)
    | "add", some [a, b] => fmtL4 (if carryAware then addC p.m a b else addL p.m a b)
    | "neg", some [a] => fmtL4 (negL p.m a)
    | "mul", some [a, b] => fmtL4 (if carryAware then mulC p a b else mulL p a b)
    | "square", some [a] => fmtL4 (if carryAware then squareC p a else squareL p a)
    | "mont_reduce", some [lo, hi] =>
      fmtL4 (if carryAware then montReduceC p lo.l0 lo.l1 lo.l2 lo.l3 hi.l0 hi.l1 hi.l2 hi.l3
             else montReduce p lo.l0 lo.l1 lo.l2 lo.l3 hi.l0 hi.l1 hi.l2 hi.l3)
    | "from_raw", some [a] => fmtL4 (if carryAware then mulC p a r2 else mulL p a r2)
    | "to_canon", some [a] => fmtL4 (if carryAware then fromMontC p a else toCanonL p a)
    | "from_u512", some [d0, d1] =>
      fmtL4 (if carryAware then fromU512C p r2 r3 d0 d1 else fromU512L p r2 r3 d0 d1)
    | "lt_modulus", some [a] => toString (ltModBorrow p.m a)
    | "from_bytes", some [a] =>
      -- (is_some, limbs of the value built regardless of the flag)
      if ltModBorrow p.m a = 1 then "1 " ++ fmtL4 (if carryAware then mulC p a r2 else mulL p a r2)
      else "0"
    | "lex_largest", some [a] =>
      if name = "C25519Fp" then
        fmtBool (lexLargestC p ((L4.ofList Gen.C25519Fp.HALF_MODULUS).getD L4.zero) a)
      else "bad-op"
    | "sqrt", some [a] => fmtOptL4 (sqrtLimbs name p carryAware a)
    | "invert", some [a] => fmtOptL4 (invertLimbs name p a)
    | "pow", some [a, e] => fmtL4 (powLimbs p carryAware (oneOf name) a e.toList)
    | _, _ => "bad-op"
where
  fmtOptL4 : Option L4 → String
    | some a => fmtL4 a
    | none => "none"
  oneOf (name : String) : L4 :=
    match name with
    | "JubjubFr" => (L4.ofList Gen.JubjubFr.R).getD L4.zero
    | "BlsFq" => (L4.ofList Gen.BlsFq.R).getD L4.zero
    | _ => (L4.ofList Gen.C25519Fp.R).getD L4.zero
  sqrtLimbs (name : String) (p : MontParams) (carryAware : Bool) (a : L4) : Option L4 :=
    match name with
    | "JubjubFr" => jubjubSqrt p (oneOf name) a
    | "C25519Fp" => c25519Sqrt p (oneOf name) a
    | _ => none
  invertLimbs (name : String) (p : MontParams) (a : L4) : Option L4 :=
    match name with
    | "JubjubFr" => jubjubInvert p a
    | _ => none

/-- Multiplicative generator published by the fields whose constants are not written in the
repository sources (third-party crates / proc-macro output). -/
def genOf : String → Option Nat
  | "K256Fp" => some 3
  | "K256Fq" => some 7
  | "C25519Scalar" => some 2
  | "Bn256Fq" => some Gen.Bn256Fq.MUL_GEN
  | "Bn256Fr" => some Gen.Bn256Fr.MUL_GEN
  | _ => none

/-- Constants derived from the defining equations of `ff::PrimeField` (p, generator g):
`S`, `t` with `p - 1 = 2^S t`, `ROOT_OF_UNITY = g^t`, `DELTA = g^(2^S)`, … -/
def derivedConst (name c : String) : Option String := do
  let f ← fieldOf name
  let g ← genOf name
  let p := f.p
  let (t, s) := twoAdic (p - 1)
  match c with
  | "MODULUS_STR" => some (hx p)
  | "S" => some (hx s)
  | "NUM_BITS" => some (hx (numBits p))
  | "ONE" => some (hx 1)
  | "MULTIPLICATIVE_GENERATOR" => some (hx g)
  | "ROOT_OF_UNITY" => some (hx (powMod g t p))
  | "ROOT_OF_UNITY_INV" => some (hx (invMod (powMod g t p) p))
  | "DELTA" => some (hx (powMod g (2 ^ s) p))
  | "TWO_INV" => some (hx (invMod 2 p))
  | _ => none

/-- Canonical value of a published constant given as Montgomery limbs. -/
def constOf (name c : String) : Option String :=
  let mont (fname : String) (l : List Nat) : Option String :=
    (fieldOf fname).map (fun f => hx (ofMont f (limbsVal l)))
  let raw (n : Nat) : Option String := some (hx n)
  match name, c with
  | "BlsFq", "MODULUS" => raw (limbsVal Gen.BlsFq.MODULUS)
  | "BlsFq", "MODULUS_STR" => raw Gen.BlsFq.MODULUS_STR
  | "BlsFq", "CHAR" => raw (leBytesToNat Gen.BlsFq.MODULUS_REPR)
  | "BlsFq", "S" => raw Gen.BlsFq.S
  | "BlsFq", "NUM_BITS" => raw Gen.BlsFq.NUM_BITS
  | "BlsFq", "ONE" => mont name Gen.BlsFq.R
  | "BlsFq", "MULTIPLICATIVE_GENERATOR" => mont name Gen.BlsFq.GENERATOR
  | "BlsFq", "ROOT_OF_UNITY" => mont name Gen.BlsFq.ROOT_OF_UNITY
  | "BlsFq", "ROOT_OF_UNITY_INV" => mont name Gen.BlsFq.ROOT_OF_UNITY_INV
  | "BlsFq", "DELTA" => mont name Gen.BlsFq.DELTA
  | "BlsFq", "TWO_INV" => mont name Gen.BlsFq.TWO_INV
  | "BlsFq", "ZETA" => mont name Gen.BlsFq.ZETA
  | "BlsFp", "MODULUS" => raw (limbsVal Gen.BlsFp.MODULUS)
  | "BlsFp", "MODULUS_STR" => raw Gen.BlsFp.MODULUS_STR
  | "BlsFp", "CHAR" => raw (leBytesToNat Gen.BlsFp.MODULUS_REPR)
  | "BlsFp", "S" => raw Gen.BlsFp.S
  | "BlsFp", "NUM_BITS" => raw Gen.BlsFp.NUM_BITS
  | "BlsFp", "ONE" => mont name Gen.BlsFp.R
  | "BlsFp", "MULTIPLICATIVE_GENERATOR" => mont name Gen.BlsFp.GENERATOR
  | "BlsFp", "ROOT_OF_UNITY" => mont name Gen.BlsFp.ROOT_OF_UNITY
  | "BlsFp", "ROOT_OF_UNITY_INV" => mont name Gen.BlsFp.ROOT_OF_UNITY_INV
  | "BlsFp", "DELTA" => mont name Gen.BlsFp.DELTA
  | "BlsFp", "TWO_INV" => mont name Gen.BlsFp.TWO_INV
  | "BlsFp", "ZETA" => mont name Gen.BlsFp.ZETA_BASE
  | "JubjubFr", "MODULUS" => raw (limbsVal Gen.JubjubFr.MODULUS)
  | "JubjubFr", "MODULUS_STR" => raw Gen.JubjubFr.MODULUS_STR
  | "JubjubFr", "S" => raw Gen.JubjubFr.S
  | "JubjubFr", "NUM_BITS" => raw Gen.JubjubFr.NUM_BITS
  | "JubjubFr", "ONE" => mont name Gen.JubjubFr.R
  | "JubjubFr", "MULTIPLICATIVE_GENERATOR" => mont name Gen.JubjubFr.GENERATOR
  | "JubjubFr", "ROOT_OF_UNITY" => mont name Gen.JubjubFr.ROOT_OF_UNITY
  | "JubjubFr", "ROOT_OF_UNITY_INV" => mont name Gen.JubjubFr.ROOT_OF_UNITY_INV
  | "JubjubFr", "DELTA" => mont name Gen.JubjubFr.DELTA
  | "JubjubFr", "TWO_INV" => mont name Gen.JubjubFr.TWO_INV
  | "C25519Fp", "MODULUS" => raw (limbsVal Gen.C25519Fp.MODULUS)
  | "C25519Fp", "MODULUS_STR" => raw Gen.C25519Fp.MODULUS_STR
  | "C25519Fp", "S" => raw Gen.C25519Fp.S
  | "C25519Fp", "NUM_BITS" => raw Gen.C25519Fp.NUM_BITS
  | "C25519Fp", "ONE" => mont name Gen.C25519Fp.R
  | "C25519Fp", "MULTIPLICATIVE_GENERATOR" => mont name Gen.C25519Fp.MULTIPLICATIVE_GENERATOR
  | "C25519Fp", "ROOT_OF_UNITY" => mont name Gen.C25519Fp.ROOT_OF_UNITY
  | "C25519Fp", "ROOT_OF_UNITY_INV" => mont name Gen.C25519Fp.ROOT_OF_UNITY_INV
  | "C25519Fp", "DELTA" => mont name Gen.C25519Fp.DELTA
  | "C25519Fp", "TWO_INV" => mont name Gen.C25519Fp.TWO_INV
  | "C25519Fp", "ZETA" => mont name Gen.C25519Fp.ZETA
  | "Bn256Fq", "MODULUS_STR" => raw Gen.Bn256Fq.MODULUS
  | "Bn256Fq", "MULTIPLICATIVE_GENERATOR" => raw Gen.Bn256Fq.MUL_GEN
  | "Bn256Fq", "ZETA" => raw Gen.Bn256Fq.ZETA
  | "Bn256Fr", "MODULUS_STR" => raw Gen.Bn256Fr.MODULUS
  | "Bn256Fr", "MULTIPLICATIVE_GENERATOR" => raw Gen.Bn256Fr.MUL_GEN
  | "Bn256Fr", "ZETA" => raw Gen.Bn256Fr.ZETA
  | _, _ =>
    -- constants of the fields whose source is third-party or macro-generated: derived from
    -- the defining equations (p, the published generator) — see `derivedConst`
    derivedConst name c

/-- Batched operations on described lists and in-place chains. -/
def answerPl (f : FieldInfo) (op : String) (args : List String) : String :=
  let p := f.p
  match op, args with
  | "sum", [d] =>
    match ListDesc.parse? d with
    | some d => hx (sumFold p (d.expand p))
    | none => "bad-op"
  | "product", [d] =>
    match ListDesc.parse? d with
    | some d => hx (productFold p (d.expand p))
    | none => "bad-op"
  | "batch_invert", [d] =>
    match ListDesc.parse? d with
    | some d =>
      let (out, allInv) := batchInvertTrick p (d.expand p)
      hx allInv ++ " " ++ hx (digest p out)
    | none => "bad-op"
  | "chain", [x0, y, prog, n] =>
    match parseNat? x0, parseNat? y, n.toNat? with
    | some x0, some y, some n =>
      if prog.isEmpty then "bad-op" else
      match runChainProg p (y % p) prog.toList n 0 (x0 % p) with
      | some r => hx r
      | none => "bad-op"
    | _, _, _ => "bad-op"
  | _, _ => "bad-op"

/-! ### Bernstein–Yang inversion and the Jacobi symbol -/

def fmtMat (t : BY.Mat) : String := s!"{t.a},{t.b},{t.c},{t.d}"

def parseMat? (s : String) : Option BY.Mat :=
  match parseIntList? s with
  | some [a, b, c, d] => some ⟨a, b, c, d⟩
  | _ => none

def fmtStep (s : BY.Step) : String :=
  s!"{s.delta}|{fmtMat s.t}|{fmtHexList s.f}|{fmtHexList s.g}|{fmtHexList s.d}|{fmtHexList s.e}"

def fmtStepV (s : Int × BY.Mat × Int × Int × Int × Int) : String :=
  let (delta, t, f, g, d, e) := s
  s!"{delta}|{fmtMat t}|{f}|{g}|{d}|{e}"

def answerBy (op : String) (args : List String) : String :=
  match op, args with
  | "new", [l, m, a] =>
    match l.toNat?, parseNatList? m, parseNatList? a with
    | some l, some m, some a =>
      let inv := BY.Inverter.new l m a
      s!"{fmtHexList inv.modulus} {fmtHexList inv.adjuster} {inv.inverse}"
    | _, _, _ => "bad-op"
  | "jump", [f, g, delta] =>
    match parseNat? f, parseNat? g, parseInt? delta with
    | some f, some g, some delta =>
      match BY.jump f g delta with
      | some (d, t) => s!"{d} {fmtMat t}"
      | none => "fuel"
    | _, _, _ => "bad-op"
  | "fg", [f, g, t] =>
    match parseNatList? f, parseNatList? g, parseMat? t with
    | some f, some g, some t =>
      let (f, g) := BY.cFG f g t
      s!"{fmtHexList f} {fmtHexList g}"
    | _, _, _ => "bad-op"
  | "de", [m, inv, d, e, t] =>
    match parseNatList? m, parseInt? inv, parseNatList? d, parseNatList? e, parseMat? t with
    | some m, some inv, some d, some e, some t =>
      let (d, e) := BY.cDE m inv d e t
      s!"{fmtHexList d} {fmtHexList e}"
    | _, _, _, _, _ => "bad-op"
  | "norm", [m, v, neg] =>
    match parseNatList? m, parseNatList? v, neg with
    | some m, some v, "0" => fmtHexList (BY.cNorm m v false)
    | some m, some v, "1" => fmtHexList (BY.cNorm m v true)
    | _, _, _ => "bad-op"
  | "invert", [l, s, m, a, x] =>
    match l.toNat?, s.toNat?, parseNatList? m, parseNatList? a, parseNatList? x with
    | some l, some s, some m, some a, some x =>
      match BY.invert (BY.Inverter.new l m a) l s x with
      | none => "fuel"
      | some (r, tr) =>
        ";".intercalate ((match r with | some r => fmtHexList r | none => "none") :: tr.map fmtStep)
    | _, _, _, _, _ => "bad-op"
  | _, _ => "bad-op"

def answerByV (op : String) (args : List String) : String :=
  match op, args.mapM parseNat? with
  | "invert", some [m, a, x] =>
    match BY.invertV m a x with
    | none => "fuel"
    | some (r, tr) =>
      ";".intercalate ((match r with | some r => toString r | none => "none") :: tr.map fmtStepV)
  | _, _ => "bad-op"

def fmtOStep (s : Jac.OStep) : String :=
  s!"{fmtHexList s.n}|{fmtHexList s.d}|{toHex s.s.t}|{toHex s.s.a},{toHex s.s.b}|{s.s.u0},{s.s.u1}|{s.s.v0},{s.s.v1}"

def answerJac (op : String) (args : List String) : String :=
  match op, args with
  | "approx", [x, y] =>
    match parseNatList? x, parseNatList? y with
    | some x, some y =>
      let (a, b, p) := Jac.approximate x y
      s!"{toHex a} {toHex b} {fmtBool p}"
    | _, _ => "bad-op"
  | "binary", [n, d, t] =>
    match parseNat? n, parseNat? d, parseNat? t with
    | some n, some d, some t =>
      match Jac.jacobinary n d t with
      | some r => toString r
      | none => "fuel"
    | _, _, _ => "bad-op"
  | "run", [l, n, d] =>
    match l.toNat?, parseNatList? n, parseNatList? d with
    | some l, some n, some d =>
      match Jac.jacobi l n d with
      | some (r, tr) => ";".intercalate (toString r :: tr.map fmtOStep)
      | none => "fuel"
    | _, _, _ => "bad-op"
  | _, _ => "bad-op"

def answer (line : String) : String :=
  match words line with
  | "by" :: op :: args => answerBy op args
  | "byv" :: op :: args => answerByV op args
  | "jac" :: op :: args => answerJac op args
  | "pl" :: fname :: op :: args =>
    match fieldOf fname with
    | some f => answerPl f op args
    | none => "bad-op"
  | "pf" :: fname :: op :: args =>
    match fieldOf fname, args.mapM parseNat? with
    | some f, some ns => answerPf f op ns
    | _, _ => "bad-op"
  | "lf" :: fname :: op :: args => answerLf fname op args
  | ["const", fname, c] => (constOf fname c).getD "bad-op"
  | "tw" :: tname :: op :: args => answerTower tname op args
  | _ => "bad-op"

end MidnightZK.C10.Driver

/-- `mzk-c10 < ops.txt > model.txt` : one answer line per request line. -/
def main : IO UInt32 := do
  MidnightZK.lineLoop (← IO.getStdin) (← IO.getStdout) MidnightZK.C10.Driver.answer
  return 0
