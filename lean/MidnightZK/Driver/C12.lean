import MidnightZK.Model.Common
import MidnightZK.Model.C12.Par
/-! Line-protocol handler of property C12. -/
namespace MidnightZK.C12.Driver
open MidnightZK

def answer (line : String) : String :=
  match words line with
  | ["chunks", len, t] =>
    match len.toNat?, t.toNat? with
    | some len, some t =>
      if t = 0 then "bad-op" else
      " ".intercalate ((chunks len t).map (fun c => s!"{c.1}:{c.2}"))
    | _, _ => "bad-op"
  | _ => "bad-op"

end MidnightZK.C12.Driver

/-- `mzk-c12 < ops.txt > model.txt` : one answer line per request line. -/
def main : IO UInt32 := do
  MidnightZK.lineLoop (← IO.getStdin) (← IO.getStdout) MidnightZK.C12.Driver.answer
  return 0
