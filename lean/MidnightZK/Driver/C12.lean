import MidnightZK.Model.Common
import MidnightZK.Model.C12.Par
import MidnightZK.Model.C12.Booth
import MidnightZK.Model.C12.Msm
import MidnightZK.Model.C12.Curve
import MidnightZK.Model.C12.Zn
import MidnightZK.Model.C12.Fft
import MidnightZK.Model.C12.Poly
import MidnightZK.Model.C12.BatchAdd
import MidnightZK.Model.C12.ParSites
import MidnightZK.Model.C12.MsmTrace
import MidnightZK.Gen.C12Consts
/-! Line-protocol handler of property C12. -/
namespace MidnightZK.C12.Driver
open MidnightZK MidnightZK.C12

def blsTable : List Jac := doublings bls12381G1.p 256 bls12381G1.gen
def bnTable : List Jac := doublings bn256G1.p 256 bn256G1.gen

def curveOf (s : String) : Option (CurveP × List Jac) :=
  if s = "bls" then some (bls12381G1, blsTable) else if s = "bn" then some (bn256G1, bnTable) else none

/-- `b:s,b:s,…` (hex, no prefix) or `-`. -/
def parsePairs (s : String) : Option (List (Nat × Nat)) :=
  if s = "-" then some [] else
  (s.splitOn ",").mapM (fun t =>
    match t.splitOn ":" with
    | [b, c] => do let b ← parseHex? b; let c ← parseHex? c; pure (b, c)
    | _ => none)

/-- The MSM entry points over `G = ℤ/r` (base `bᵢ·G` is represented by `bᵢ`). -/
def runMsm (cp : CurveP) (entry : String) (t acc0 nbytes : Nat) (pairs : List (Nat × Nat)) :
    Option (Zn cp.r) :=
  let coeffs := pairs.map (fun bs => natToLeBytes nbytes bs.2)
  let bases : List (Zn cp.r) := pairs.map (fun bs => Zn.ofNat cp.r bs.1)
  let numBits := cp.r.log2 + 1
  -- naive definition, used for blst's Pippenger (trusted, specified as the plain sum)
  let naive (cs : List (List Nat)) (bs : List (Zn cp.r)) : Zn cp.r :=
    (cs.zip bs).foldl (fun a cb => a + Zn.ofNat cp.r (leBytesToNat cb.1 * cb.2.val)) 0
  match entry with
  | "serial" => some (msmSerial coeffs bases (Zn.ofNat cp.r acc0))
  | "parallel" => if t = 0 then none else some (msmParallel t coeffs bases)
  | "best" => if t = 0 then none else some (msmBest t numBits coeffs bases)
  | "multiexp" => some (naive coeffs bases)
  | "specific-blst" => some (msmSpecific naive coeffs bases)
  | "specific-best" => if t = 0 then none else some (msmSpecific (msmBest t numBits) coeffs bases)
  | _ => none

/-- `x:y` (hex, no prefix) or `-` for an empty bucket. -/
def parseAffOpt (p : Nat) (t : String) : Option (Option (Aff (Zn p))) :=
  if t = "-" then some none else
  match t.splitOn ":" with
  | [x, y] => do let x ← parseHex? x; let y ← parseHex? y; pure (some ⟨Zn.ofNat p x, Zn.ofNat p y⟩)
  | _ => none

def parseList {α : Type} (f : String → Option α) (s : String) : Option (List α) :=
  if s = "." then some [] else (s.splitOn ",").mapM f

/-- `base:bucket:sign` -/
def parseSchedPt (t : String) : Option SchedPt :=
  match t.splitOn ":" with
  | [b, k, s] => do
    let b ← b.toNat?; let k ← k.toNat?
    if s = "1" then pure ⟨b, k, true⟩ else if s = "0" then pure ⟨b, k, false⟩ else none
  | _ => none

def fmtAffOpt {p : Nat} (a : Option (Aff (Zn p))) : String :=
  match a with
  | none => "-"
  | some a => s!"{(toHex a.x.val).drop 2}:{(toHex a.y.val).drop 2}"

def znInv (p : Nat) (a : Zn p) : Option (Zn p) :=
  if a.val % p = 0 then none else some ⟨invEuclid a.val p⟩

def runBatchAdd (p : Nat) (bks pts bases : String) : String :=
  match parseList (parseAffOpt p) bks, parseList parseSchedPt pts, parseList (parseAffOpt p) bases with
  | some bks, some pts, some bases =>
    match bases.mapM id with
    | none => "bad-op"
    | some bases =>
      match batchAdd (znInv p) bases bks pts with
      | none => "panic"
      | some out => ",".intercalate (out.map fmtAffOpt)
  | _, _, _ => "bad-op"

/-- The BLS12-381 scalar field, constants from the generated file. -/
abbrev Fr := Zn Gen.frModulus
def fr (n : Nat) : Fr := Zn.ofNat Gen.frModulus n
def frInv (a : Fr) : Fr := ⟨invMod a.val Gen.frModulus⟩
def frPow (a : Fr) (e : Nat) : Fr := ⟨powMod a.val e Gen.frModulus⟩
def frConsts : FieldConsts Fr := { S := Gen.frS, rootOfUnity := fr Gen.rootOfUnity, zeta := fr Gen.zeta }
def frList (l : List Nat) : List Fr := l.map fr
def fmtFr (l : List Fr) : String := fmtHexList (l.map (·.val))
def fmtFrOpt (l : Option (List Fr)) : String :=
  match l with
  | some l => fmtFr l
  | none => "panic"
def frDomain (j k : Nat) : Option (Domain Fr) := Domain.new frConsts frInv fr frPow j k

/-- The conversions run with their `parallelize` passes spelled out on `t` threads
(`Model/C12/ParSites.lean`; `domain_conversions_par_indep` ties them to the thread-free forms). -/
def domainOp (op : String) (t : Nat) (d : Domain Fr) (vals : List Fr) : Option (Option (List Fr)) :=
  match op with
  | "l2c" => some (d.lagrangeToCoeffPar t vals)
  | "c2l" => some (d.coeffToLagrange t vals)
  | "c2e" => some (d.coeffToExtendedPar t vals)
  | "e2c" => some (d.extendedToCoeffPar t vals)
  | "e2l" => some (d.extendedToLagrangePar t vals)
  | "divvanish" => some (d.divideByVanishingPolyPar t vals)
  | _ => none

/-- `a,b;c,d;…` (`.` = no list at all, `-` = an empty inner list). -/
def parseNatLists? (s : String) : Option (List (List Nat)) :=
  if s = "." then some [] else (s.splitOn ";").mapM parseNatList?

def frOptInv (a : Fr) : Option Fr := if a.val % Gen.frModulus = 0 then none else some (frInv a)

def fmtPoints (l : List Fr) : String :=
  if l.isEmpty then "-" else
  " ".intercalate (l.map (fun e => fmtAffine (toAffine bls12381G1.p (bls12381G1.mulGenTable blsTable e.val))))

def answer (line : String) : String :=
  match words line with
  | ["fft", t, logn, omega, vals] =>
    match t.toNat?, logn.toNat?, parseNat? omega, parseNatList? vals with
    | some t, some logn, some omega, some vals =>
      if t = 0 then "bad-op" else fmtFrOpt (bestFft t (frList vals) (fr omega) logn)
    | _, _, _, _ => "bad-op"
  | ["evalpoly", t, x, coeffs] =>
    match t.toNat?, parseNat? x, parseNatList? coeffs with
    | some t, some x, some coeffs =>
      if t = 0 then "bad-op" else toHex (evalPolynomial t (frList coeffs) (fr x)).val
    | _, _, _ => "bad-op"
  | ["kate", b, coeffs] =>
    match parseNat? b, parseNatList? coeffs with
    | some b, some coeffs => fmtFr (kateDivision (frList coeffs) (fr b))
    | _, _ => "bad-op"
  | ["interp", xs, ys] =>
    match parseNatList? xs, parseNatList? ys with
    | some xs, some ys => fmtFrOpt (lagrangeInterpolate frInv (frList xs) (frList ys))
    | _, _ => "bad-op"
  | ["polyrot", r, vals] =>
    match parseInt? r, parseNatList? vals with
    | some r, some vals => fmtFr (polyRotate (frList vals) r)
    | _, _ => "bad-op"
  | ["dominfo", j, k] =>
    match j.toNat?, k.toNat? with
    | some j, some k =>
      match frDomain j k with
      | some d => s!"{d.n} {d.k} {d.extendedK} {d.quotientPolyDegree} {toHex d.omega.val} {toHex d.omegaInv.val} {toHex d.extendedOmega.val}"
      | none => "panic"
    | _, _ => "bad-op"
  | ["dom", op, t, j, k, vals] =>
    match t.toNat?, j.toNat?, k.toNat?, parseNatList? vals with
    | some t, some j, some k, some vals =>
      if t = 0 then "bad-op" else
      match frDomain j k with
      | some d =>
        match domainOp op t d (frList vals) with
        | some r => fmtFrOpt r
        | none => "bad-op"
      | none => "panic"
    | _, _, _, _ => "bad-op"
  | ["domrot", j, k, value, r] =>
    match j.toNat?, k.toNat?, parseNat? value, parseInt? r with
    | some j, some k, some value, some r =>
      match frDomain j k with
      | some d => toHex (d.rotateOmega frPow (fr value) r).val
      | none => "panic"
    | _, _, _, _ => "bad-op"
  | ["domli", j, k, x, xn, rots] =>
    match j.toNat?, k.toNat?, parseNat? x, parseNat? xn, parseIntList? rots with
    | some j, some k, some x, some xn, some rots =>
      match frDomain j k with
      | some d => fmtFr (d.lIRange frInv frPow (fr x) (fr xn) rots)
      | none => "panic"
    | _, _, _, _, _ => "bad-op"
  | ["g2l", t, k, logs] =>
    match t.toNat?, k.toNat?, parseNatList? logs with
    | some t, some k, some logs =>
      if t = 0 then "bad-op" else
      match gToLagrangePar frConsts t (fr Gen.twoInv) (fr Gen.rootOfUnityInv) frPow (frList logs) k with
      | some l => " ".intercalate (l.map (fun e => fmtAffine (toAffine bls12381G1.p (bls12381G1.mulGenTable blsTable e.val))))
      | none => "panic"
    | _, _, _ => "bad-op"
  | ["commit", s, coeffs] =>
    -- `KZGCommitmentScheme::commit`: Σ coeffᵢ·[sⁱ]G
    match parseNat? s, parseNatList? coeffs with
    | some s, some coeffs =>
      fmtAffine (toAffine bls12381G1.p (bls12381G1.mulGenTable blsTable (horner (frList coeffs) (fr s)).val))
    | _, _ => "bad-op"
  | ["commitlag", t, k, s, evals] =>
    -- `commit_lagrange`: Σ evalᵢ·[lᵢ(s)]G, i.e. the commitment to the interpolating polynomial
    match t.toNat?, k.toNat?, parseNat? s, parseNatList? evals with
    | some t, some k, some s, some evals =>
      if t = 0 then "bad-op" else
      match frDomain 1 k with
      | some d =>
        match d.lagrangeToCoeff t (frList evals) with
        | some c => fmtAffine (toAffine bls12381G1.p (bls12381G1.mulGenTable blsTable (horner c (fr s)).val))
        | none => "panic"
      | none => "panic"
    | _, _, _, _ => "bad-op"
  | ["inner", a, b] =>
    match parseNatList? a, parseNatList? b with
    | some a, some b =>
      match computeInnerProduct (frList a) (frList b) with
      | some v => toHex v.val
      | none => "panic"
    | _, _ => "bad-op"
  | ["domconst", which, j, k, value] =>
    match j.toNat?, k.toNat?, parseNat? value with
    | some j, some k, some value =>
      match frDomain j k with
      | some d =>
        if which = "lagrange" then fmtFr (d.constantLagrange (fr value))
        else if which = "extended" then fmtFr (d.constantExtended (fr value))
        else "bad-op"
      | none => "panic"
    | _, _, _ => "bad-op"
  | ["domfromvec", j, k, vals] =>
    match j.toNat?, k.toNat?, parseNatList? vals with
    | some j, some k, some vals =>
      match frDomain j k with
      | some d => fmtFrOpt (d.fromVec (frList vals))
      | none => "panic"
    | _, _, _ => "bad-op"
  | ["dpz", t, into, vals] =>
    -- `distribute_powers_zeta` on a slice of any length (hook), `t` threads
    match t.toNat?, parseNatList? vals, frDomain 1 1 with
    | some t, some vals, some d =>
      if t = 0 ∨ ¬ (into = "0" ∨ into = "1") then "bad-op" else
      fmtFr (distributePowersZetaPar d t (frList vals) (into = "1"))
    | _, _, _ => "bad-op"
  | ["polyop", t, op, a, b] =>
    match t.toNat?, parseNatList? a, parseNatList? b with
    | some t, some a, some b =>
      if t = 0 then "bad-op" else
      if op = "add" ∨ op = "addassign" then fmtFrOpt (polyZipPar t (· + ·) (frList a) (frList b))
      else if op = "sub" then fmtFrOpt (polyZipPar t (· - ·) (frList a) (frList b))
      else "bad-op"
    | _, _, _ => "bad-op"
  | ["polyscale", t, rhs, a] =>
    match t.toNat?, parseNat? rhs, parseNatList? a with
    | some t, some rhs, some a => if t = 0 then "bad-op" else fmtFr (polyScalePar t (frList a) (fr rhs))
    | _, _, _ => "bad-op"
  | ["msmscale", t, f, a] =>
    match t.toNat?, parseNat? f, parseNatList? a with
    | some t, some f, some a => if t = 0 then "bad-op" else fmtFr (msmScale (frList a) (fr f))
    | _, _, _ => "bad-op"
  | ["setupg", t, k, s] =>
    -- `ParamsKZG::unsafe_setup(k, rng)` with `s` the toxic scalar: `g`
    match t.toNat?, k.toNat?, parseNat? s with
    | some t, some k, some s =>
      if t = 0 ∨ k > 12 then "bad-op" else fmtPoints (setupG t frPow (fr 1) (fr s) (2 ^ k))
    | _, _, _ => "bad-op"
  | ["setupgl", t, k, s] =>
    -- …and `g_lagrange` (`root` derived from `ROOT_OF_UNITY` by squaring, `n⁻¹` by inversion)
    match t.toNat?, k.toNat?, parseNat? s with
    | some t, some k, some s =>
      if t = 0 ∨ k > 12 ∨ k > Gen.frS then "bad-op" else
      let root := squareN (fr Gen.rootOfUnity) (Gen.frS - k)
      match setupGLagrange t frPow frOptInv (fr 1) (fr s) root (frInv (fr (2 ^ k))) (2 ^ k) with
      | some l => fmtPoints l
      | none => "panic"
    | _, _, _ => "bad-op"
  | ["powers", base, n] =>
    match parseNat? base, n.toNat? with
    | some base, some n => fmtFr (powersTake (fr base) n)
    | _, _ => "bad-op"
  | ["innerf", items, scalars] =>
    match parseNatList? items, parseNatList? scalars with
    | some items, some scalars =>
      match innerProduct (· * ·) (· + ·) (frList items) (frList scalars) with
      | some v => toHex v.val
      | none => "panic"
    | _, _ => "bad-op"
  | ["innerp", polys, scalars] =>
    -- `inner_product` over `Polynomial<F, Coeff>` items of one length
    match parseNatLists? polys, parseNatList? scalars with
    | some polys, some scalars =>
      match innerProduct (fun (p : List Fr) s => p.map (· * s)) (List.zipWith (· + ·)) (polys.map frList) (frList scalars) with
      | some v => fmtFr v
      | none => "panic"
    | _, _ => "bad-op"
  | ["evalsinner", sets, scalars] =>
    match parseNatLists? sets, parseNatList? scalars with
    | some sets, some scalars => fmtFrOpt (evalsInnerProduct (sets.map frList) (frList scalars))
    | _, _ => "bad-op"
  | ["chunks", len, t] =>
    match len.toNat?, t.toNat? with
    | some len, some t =>
      if t = 0 then "bad-op" else
      " ".intercalate ((chunks len t).map (fun c => s!"{c.1}:{c.2}"))
    | _, _ => "bad-op"
  | ["booth", w, nbytes, v, n] =>
    match w.toNat?, nbytes.toNat?, parseNat? v, n.toNat? with
    | some w, some nbytes, some v, some n =>
      if w = 0 ∨ 24 < w then "bad-op" else
      fmtIntList (boothRow n w (natToLeBytes nbytes v))
    | _, _, _, _ => "bad-op"
  | ["window", len] =>
    match len.toNat? with
    | some len => toString (chooseWindow len)
    | none => "bad-op"
  | ["batchadd", c, bks, pts, bases] =>
    match curveOf c with
    | some (cp, _) => runBatchAdd cp.p bks pts bases
    | none => "bad-op"
  | ["sched", c, w, logs, reqs] =>
    match curveOf c, w.toNat?, parseList parseHex? logs, parseList parseSchedPt reqs with
    | some (cp, table), some w, some logs, some reqs =>
      if w = 0 then "bad-op" else
      let bases : List (Zn cp.r) := logs.map (Zn.ofNat cp.r)
      let (tr, bk) := schedRun w bases (reqs.map (fun r => (r.baseIdx, r.buckIdx, r.sign)))
      fmtNatList tr ++ " | " ++ " ".intercalate (bk.map (fun b =>
        match b with
        | none => "inf"
        | some k => fmtAffine (toAffine cp.p (cp.mulGenTable table k.val))))
    | _, _, _, _ => "bad-op"
  | ["gen", c] =>
    match curveOf c with
    | some (cp, _) => fmtAffine (toAffine cp.p cp.gen) ++ (if onCurve cp cp.gx cp.gy then " on" else " off")
    | none => "bad-op"
  | ["msmbestw", c, w, nbytes, pairs] =>
    -- the batch-affine loop of `msm_best` with the (forced) window size `w`: result and the
    -- digest of every window's decision trace
    match curveOf c, w.toNat?, nbytes.toNat?, parsePairs pairs with
    | some (cp, table), some w, some nbytes, some pairs =>
      if w = 0 ∨ 24 < w then "bad-op" else
      let coeffs := pairs.map (fun bs => natToLeBytes nbytes bs.2)
      let bases : List (Zn cp.r) := pairs.map (fun bs => Zn.ofNat cp.r bs.1)
      let numBits := cp.r.log2 + 1
      let k := msmBestWindows w numBits coeffs bases
      let digests := (List.range (numBits / w + 1)).map (fun i => traceDigest (windowBestTrace i w coeffs bases))
      fmtAffine (toAffine cp.p (cp.mulGenTable table k.val)) ++ " | " ++ fmtNatList digests
    | _, _, _, _ => "bad-op"
  | ["msm", c, entry, t, acc0, nbytes, pairs] =>
    match curveOf c, t.toNat?, parseNat? acc0, nbytes.toNat?, parsePairs pairs with
    | some (cp, table), some t, some acc0, some nbytes, some pairs =>
      match runMsm cp entry t acc0 nbytes pairs with
      | some k => fmtAffine (toAffine cp.p (cp.mulGenTable table k.val))
      | none => "bad-op"
    | _, _, _, _, _ => "bad-op"
  | _ => "bad-op"

end MidnightZK.C12.Driver

/-- `mzk-c12 < ops.txt > model.txt` : one answer line per request line. -/
def main : IO UInt32 := do
  MidnightZK.lineLoop (← IO.getStdin) (← IO.getStdout) MidnightZK.C12.Driver.answer
  return 0
