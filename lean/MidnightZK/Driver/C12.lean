import MidnightZK.Model.Common
import MidnightZK.Model.C12.Par
import MidnightZK.Model.C12.Booth
import MidnightZK.Model.C12.Msm
import MidnightZK.Model.C12.Curve
import MidnightZK.Model.C12.Zn
/-! Line-protocol handler of property C12. -/
namespace MidnightZK.C12.Driver
open MidnightZK MidnightZK.C12

def curveOf (s : String) : Option CurveP :=
  if s = "bls" then some bls12381G1 else if s = "bn" then some bn256G1 else none

/-- `b:s,b:s,…` (hex, no prefix) or `-`. -/
def parsePairs (s : String) : Option (List (Nat × Nat)) :=
  if s = "-" then some [] else
  (s.splitOn ",").mapM (fun t =>
    match t.splitOn ":" with
    | [b, c] => do let b ← parseHex? b; let c ← parseHex? c; pure (b, c)
    | _ => none)

/-- The MSM entry points over `G = ℤ/r` (base `bᵢ·G` is represented by `bᵢ`). -/
def runMsm (cp : CurveP) (entry : String) (t acc0 nbytes : Nat) (pairs : List (Nat × Nat)) :
    Option (Zn cp.r) :=
  let coeffs := pairs.map (fun bs => natToLeBytes nbytes bs.2)
  let bases : List (Zn cp.r) := pairs.map (fun bs => Zn.ofNat cp.r bs.1)
  let numBits := cp.r.log2 + 1
  -- naive definition, used for blst's Pippenger (trusted, specified as the plain sum)
  let naive (cs : List (List Nat)) (bs : List (Zn cp.r)) : Zn cp.r :=
    (cs.zip bs).foldl (fun a cb => a + Zn.ofNat cp.r (leBytesToNat cb.1 * cb.2.val)) 0
  match entry with
  | "serial" => some (msmSerial coeffs bases (Zn.ofNat cp.r acc0))
  | "parallel" => if t = 0 then none else some (msmParallel t coeffs bases)
  | "best" => if t = 0 then none else some (msmBest t numBits coeffs bases)
  | "multiexp" => some (naive coeffs bases)
  | "specific-blst" => some (msmSpecific naive coeffs bases)
  | "specific-best" => if t = 0 then none else some (msmSpecific (msmBest t numBits) coeffs bases)
  | _ => none

def answer (line : String) : String :=
  match words line with
  | ["chunks", len, t] =>
    match len.toNat?, t.toNat? with
    | some len, some t =>
      if t = 0 then "bad-op" else
      " ".intercalate ((chunks len t).map (fun c => s!"{c.1}:{c.2}"))
    | _, _ => "bad-op"
  | ["booth", w, nbytes, v, n] =>
    match w.toNat?, nbytes.toNat?, parseNat? v, n.toNat? with
    | some w, some nbytes, some v, some n =>
      if w = 0 ∨ 24 < w then "bad-op" else
      fmtIntList (boothRow n w (natToLeBytes nbytes v))
    | _, _, _, _ => "bad-op"
  | ["window", len] =>
    match len.toNat? with
    | some len => toString (chooseWindow len)
    | none => "bad-op"
  | ["gen", c] =>
    match curveOf c with
    | some cp => fmtAffine (toAffine cp.p cp.gen) ++ (if onCurve cp cp.gx cp.gy then " on" else " off")
    | none => "bad-op"
  | ["msm", c, entry, t, acc0, nbytes, pairs] =>
    match curveOf c, t.toNat?, parseNat? acc0, nbytes.toNat?, parsePairs pairs with
    | some cp, some t, some acc0, some nbytes, some pairs =>
      match runMsm cp entry t acc0 nbytes pairs with
      | some k => fmtAffine (toAffine cp.p (cp.mulGen k.val))
      | none => "bad-op"
    | _, _, _, _, _ => "bad-op"
  | _ => "bad-op"

end MidnightZK.C12.Driver

/-- `mzk-c12 < ops.txt > model.txt` : one answer line per request line. -/
def main : IO UInt32 := do
  MidnightZK.lineLoop (← IO.getStdin) (← IO.getStdout) MidnightZK.C12.Driver.answer
  return 0
