import MidnightZK.Model.Common
import MidnightZK.Model.C05.Bounds
import MidnightZK.Model.C05.Gate
import MidnightZK.Model.C05.Chip
import MidnightZK.Model.C05.Big
import MidnightZK.Gen.C05Params
/-! Line-protocol handler of property C05. -/
namespace MidnightZK.C05.Driver
open MidnightZK MidnightZK.C05

def findSet (name : String) : Option Params := Gen.paramSets.find? (·.name = name)

def fmtInts (l : List Int) : String := fmtIntList l

/-- `a:b,c:d,…` or `-`. -/
def parsePairs? (s : String) : Option (List (Int × Int)) :=
  if s = "-" then some [] else
  (s.splitOn ",").mapM (fun t =>
    match t.splitOn ":" with
    | [a, b] => do let a ← parseInt? a; let b ← parseInt? b; pure (a, b)
    | _ => none)

def fmtPairs (l : List (Int × Int)) : String :=
  if l.isEmpty then "-" else ",".intercalate (l.map (fun ab => s!"{ab.1}:{ab.2}"))

def fmtAux (r : Except String AuxBounds) : String :=
  match r with
  | .ok b => s!"{b.kMin} {b.uMax} {fmtPairs b.vs}"
  | .error e => e


/-! ## Field-chip programs -/

def getFe (st : PSt) (s : String) : Option FVar :=
  match s.toNat? with
  | some i => match st.vals[i]? with
    | some (.fe x) => some x
    | _ => none
  | none => none

def getBit (st : PSt) (s : String) : Option Bool :=
  match s.toNat? with
  | some i => match st.vals[i]? with
    | some (.bit b) => some b
    | _ => none
  | none => none

def optNat? (s : String) : Option (Option Nat) :=
  if s = "-" then some none else s.toNat?.map some

/-- Result of one op: new value and whether the honest witness still satisfies everything;
`none` = malformed request. The monad carries the foreign-level trace (`Ev`). -/
def stepOp (c : ChipCfg) (st : PSt) (name : String) (a : List String) :
    Option (M (Val × Bool)) :=
  let ok (v : Val) : Option (M (Val × Bool)) := some (pure (v, true))
  let lift (r : M FVar) : Option (M (Val × Bool)) :=
    some (r >>= fun x => pure (Val.fe x, true))
  let kc (s : String) : Option Int := (parseInt? s).map (· % c.m)
  match name, a with
  | "in", [v] => do let v ← kc v; lift (c.assign v)
  | "fix", [v] => do let v ← kc v; ok (.fe (c.assignFixed v))
  | "inpi", [v] => do let v ← kc v; lift (c.assignPublic v)
  | "inbit", [b] => ok (.bit (b = "1"))
  | "inbits", [b] =>
    ok (.bits ((b.toList.filter (fun ch => ch = '0' ∨ ch = '1')).map (· = '1')))
  | "inbytes", [b] => do let l ← parseNatList? b; ok (.bytes l)
  | "add", [x, y] => do let x ← getFe st x; let y ← getFe st y; lift (c.add x y)
  | "sub", [x, y] => do let x ← getFe st x; let y ← getFe st y; lift (c.sub x y)
  | "neg", [x] => do let x ← getFe st x; lift (c.neg x)
  | "mul", [x, y] => do let x ← getFe st x; let y ← getFe st y; lift (c.mul x y none)
  | "mulk", [x, y, k] => do
    let x ← getFe st x; let y ← getFe st y; let k ← kc k; lift (c.mul x y (some k))
  | "div", [x, y] => do
    let x ← getFe st x; let y ← getFe st y
    if y.fixedOf = some 1 then ok (.fe x) else
    some (do
      let y' ← c.normalize y
      let z ← c.isZero y'
      -- assert_non_zero fails for y = 0; assign_mul then returns Err
      let r ← c.assignMul x y' true
      pure (.fe r, !z))
  | "inv", [x] => do
    let x ← getFe st x
    if x.fixedOf = some 1 then ok (.fe (c.assignFixed 1)) else lift (c.assignMul (c.assignFixed 1) x true)
  | "inv0", [x] => do
    let x ← getFe st x
    some (do
      let z ← c.isZero x
      let one := c.assignFixed 1
      let invertible := ChipCfg.select z one x
      let inverse ← c.assignMul one invertible true
      pure (.fe (ChipCfg.select z (c.assignFixed 0) inverse), true))
  | "addc", [x, k] => do let x ← getFe st x; let k ← kc k; lift (c.addConstant x k)
  | "mulc", [x, k] => do let x ← getFe st x; let k ← kc k; lift (c.mulByConstant x k)
  | "lc", [k, terms] => do
    let k ← kc k
    let ts ← if terms = "-" then some [] else (terms.splitOn ",").mapM (fun t =>
      match t.splitOn ":" with
      | [kk, v] => do let kk ← kc kk; let x ← getFe st v; pure (kk, x)
      | _ => none)
    lift (c.linearCombination ts k)
  | "iszero", [x] => do let x ← getFe st x; some ((c.isZero x) >>= fun b => pure (.bit b, true))
  | "iseq", [x, y] => do
    let x ← getFe st x; let y ← getFe st y
    some (do let d ← c.sub x y; let b ← c.isZero d; pure (.bit b, true))
  | "isneq", [x, y] => do
    let x ← getFe st x; let y ← getFe st y
    some (do let d ← c.sub x y; let b ← c.isZero d; pure (.bit (!b), true))
  | "iseqc", [x, k] => do
    let x ← getFe st x; let k ← kc k
    some (do let d ← c.addConstant x (-k); let b ← c.isZero d; pure (.bit b, true))
  | "asserteq", [x, y] => do
    let x ← getFe st x; let y ← getFe st y
    some (do
      let x ← c.normalize x; let y ← c.normalize y
      emit (.eq (x.src.zip y.src))
      pure (.unit, x.limbs == y.limbs))
  | "assertneq", [x, y] => do
    let x ← getFe st x; let y ← getFe st y
    some (do let d ← c.sub x y; let b ← c.isZero d; pure (.unit, !b))
  | "asserteqc", [x, k] => do
    let x ← getFe st x; let k ← kc k
    some (do
      let x ← c.normalize x
      emit (.eq (x.src.zip ((c.limbsOf k).map CellName.k)))
      pure (.unit, x.limbs == c.limbsOf k))
  | "assertneqc", [x, k] => do
    let x ← getFe st x; let k ← kc k
    some (do let d ← c.addConstant x (-k); let b ← c.isZero d; pure (.unit, !b))
  | "assertnz", [x] => do
    let x ← getFe st x
    some (do let b ← c.isZero x; pure (.unit, !b))
  | "select", [b, x, y] => do
    let b ← getBit st b; let x ← getFe st x; let y ← getFe st y
    ok (.fe (ChipCfg.select b x y))
  | "bits", [x, n, canon] => do
    let x ← getFe st x; let n ← optNat? n
    some ((c.toLeBits x n (canon = "1")) >>= fun r => pure (.bits r.1, r.2))
  | "bytes", [x, n] => do
    let x ← getFe st x; let n ← optNat? n
    let nb := n.getD ((c.numBits + 7) / 8)
    some ((c.toLeBits x (some (nb * 8)) true) >>= fun r =>
      pure (.bytes ((ChipCfg.chunksOf (r.1.length + 1) 8 r.1).map ChipCfg.bitsToByte), r.2))
  | "chunks", [x, w, n] => do
    let x ← getFe st x; let w ← w.toNat?; let n ← optNat? n
    some ((c.toLeChunks x w n) >>= fun r => pure (.nats r.1, r.2))
  | "frombits", [v] => do
    let i ← v.toNat?
    match st.vals[i]? with
    | some (.bits bs) =>
      let chunks := ChipCfg.chunksOf (bs.length + 1) c.L bs
      let terms := chunks.zipIdx.map (fun (ch, j) =>
        (((2 : Int) ^ (c.L * j)) % c.m, c.fromLimb (ChipCfg.bitsValue ch)))
      some (do let x ← c.linearCombination terms 0; let x ← c.normalize x; pure (.fe x, true))
    | _ => none
  | "frombytes", [v] => do
    let i ← v.toNat?
    match st.vals[i]? with
    | some (.bytes bs) =>
      let per := c.L / 8
      let chunks := ChipCfg.chunksOf (bs.length + 1) per bs
      let val (ch : List Nat) : Int := (ch.zipIdx.map (fun (b, k) => (b : Int) * (256 : Int) ^ k)).foldl (· + ·) 0
      let terms := chunks.zipIdx.map (fun (ch, j) =>
        (((2 : Int) ^ (8 * per * j)) % c.m, c.fromLimb (val ch)))
      some (do let x ← c.linearCombination terms 0; let x ← c.normalize x; pure (.fe x, true))
    | _ => none
  | "bit2f", [b] => do let b ← getBit st b; ok (.fe (c.fromLimb (if b then 1 else 0)))
  | "pi", [x] => do
    let x ← getFe st x
    some (do let x ← c.normalize x; emit (.pub x.src); pure (.unit, true))
  | _, _ => none

/-- Run a program; the answer lists every op's output (`trace = false`) or every op's foreign-level
events (`trace = true`), then the verdict of the honest witness. -/
def runProg (c : ChipCfg) (ops : List (List String)) (trace : Bool := false) : String := Id.run do
  let mut st : PSt := {}
  let mut ts : TSt := {}
  let mut evs : Array String := #[]
  let mut stop : Option String := none
  for o in ops do
    match o with
    | name :: args =>
      match stepOp c st name args with
      | none => return "bad-op"
      | some m =>
        match m.run { ts with ev := #[] } with
        | .error .err => stop := some "E"; break
        | .error .panic => stop := some "P"; break
        | .ok ((v, ok), ts') =>
          ts := ts'
          evs := evs.push (if ts'.ev.isEmpty then "-" else " ".intercalate (ts'.ev.toList.map Ev.fmt))
          st := { st with vals := st.vals.push v, sat := st.sat && ok, outs := st.outs.push (fmtVal v) }
    | [] => return "bad-op"
  if trace then
    -- after the last operation nothing is emitted by the chip (final `-`)
    return " | ".intercalate (evs.toList ++ [match stop with | some s => s | none => "-"])
  let outs := st.outs.toList ++ (match stop with | some s => [s] | none => [])
  let verdict := match stop with
    | some _ => "stopped"
    | none => if st.sat then "sat" else "unsat"
  return " | ".intercalate outs ++ " => " ++ verdict


/-! ## BigUint programs -/

inductive BVal where
  | big (x : BVar)
  | bit (b : Bool)
  | bits (l : List Bool)
  | bytes (l : List Nat)
  | unit

def fmtBVal : BVal → String
  | .big x => s!"G<{fmtNatList x.limbs};{fmtNatList x.sb}>"
  | .bit b => if b then "b1" else "b0"
  | .bits l => "B<" ++ String.ofList (l.map (fun b => if b then '1' else '0')) ++ ">"
  | .bytes l => "Y<" ++ fmtNatList l ++ ">"
  | .unit => "U"

def bigLb : Nat := Gen.bigLog2Base
/-- `F::NUM_BITS` of the circuit field (BLS12-381 scalar field). -/
def bigNumBits : Nat := bitsNat Gen.secpBase_over_blsScalar.p.natAbs

def getBig (vals : Array BVal) (s : String) : Option BVar :=
  match s.toNat? with
  | some i => match vals[i]? with
    | some (.big x) => some x
    | _ => none
  | none => none

def liftB (r : Big.BM (BVar × Bool)) : Option (Big.BM (BVal × Bool)) :=
  some (r >>= fun t => pure (BVal.big t.1, t.2))

def optPanic {α : Type} (o : Option α) : Big.BM α :=
  match o with
  | some a => pure a
  | none => Big.stopB .panic

/-- One operation of a BigUint program: value, whether the honest witness satisfies what was
emitted, and (in the state) the range-check events of the operation. -/
def stepBig (vals : Array BVal) (name : String) (a : List String) :
    Option (Big.BM (BVal × Bool)) :=
  let lb := bigLb
  let nb := bigNumBits
  let ok (v : BVal) (b : Bool := true) : Option (Big.BM (BVal × Bool)) := some (pure (v, b))
  match name, a with
  | "in", [v, w] => do let v ← parseNat? v; let w ← w.toNat?; liftB (Big.assignBounded lb v w)
  | "fix", [v] => do let v ← parseNat? v; ok (.big (Big.assignFixed lb v))
  | "inbit", [b] => ok (.bit (b = "1"))
  | "inbits", [b] => ok (.bits ((b.toList.filter (fun ch => ch = '0' ∨ ch = '1')).map (· = '1')))
  | "inbytes", [b] => do
    let l ← parseNatList? b
    -- `assign` of an `AssignedByte`: one `assign_less_than_pow2(·, 8)` per byte
    some (do Big.emitB (l.map (fun _ => Big.BEv.a 8)); pure (BVal.bytes l, true))
  | "add", [x, y] => do let x ← getBig vals x; let y ← getBig vals y; liftB (Big.add lb nb x y)
  | "sub", [x, y] => do let x ← getBig vals x; let y ← getBig vals y; liftB (Big.sub lb nb x y)
  | "mul", [x, y] => do let x ← getBig vals x; let y ← getBig vals y; liftB (Big.mul lb nb x y)
  | "div", [x, y] => do
    let x ← getBig vals x; let y ← getBig vals y
    some ((Big.divRem lb nb x y) >>= fun t => pure (BVal.big t.1, t.2.2))
  | "rem", [x, y] => do
    let x ← getBig vals x; let y ← getBig vals y
    some ((Big.divRem lb nb x y) >>= fun t => pure (BVal.big t.2.1, t.2.2))
  | "modexp", [x, n, m] => do
    let x ← getBig vals x; let n ← n.toNat?; let m ← getBig vals m
    liftB (Big.modExp lb nb x n m)
  | "lt", [x, y] => do
    let x ← getBig vals x; let y ← getBig vals y
    some ((Big.geq lb x y) >>= fun g => pure (BVal.bit (!g), true))
  | "eq", [x, y] => do
    let x ← getBig vals x; let y ← getBig vals y
    some ((optPanic (Big.limbsEqual lb x y)) >>= fun e => pure (BVal.bit e, true))
  | "neq", [x, y] => do
    let x ← getBig vals x; let y ← getBig vals y
    some ((optPanic (Big.limbsEqual lb x y)) >>= fun e => pure (BVal.bit (!e), true))
  | "eqc", [x, c] => do
    let x ← getBig vals x; let c ← parseNat? c
    if !(isNormalized lb x.sb) then some (Big.stopB .panic) else
    let n := (natBits c + lb - 1) / lb
    if x.limbs.length < n then ok (.bit false) else
    ok (.bit (x.limbs == (bigToLimbs lb x.limbs.length c).1))
  | "asserteq", [x, y] => do
    let x ← getBig vals x; let y ← getBig vals y
    some ((optPanic (Big.limbsEqual lb x y)) >>= fun e => pure (BVal.unit, e))
  | "assertneq", [x, y] => do
    let x ← getBig vals x; let y ← getBig vals y
    some ((optPanic (Big.limbsEqual lb x y)) >>= fun e => pure (BVal.unit, !e))
  | "asserteqc", [x, c] => do
    let x ← getBig vals x; let c ← parseNat? c
    if !(isNormalized lb x.sb) then some (Big.stopB .panic) else
    let n := (natBits c + lb - 1) / lb
    if x.limbs.length < n then some (Big.stopB .panic) else
    ok .unit (x.limbs == (bigToLimbs lb x.limbs.length c).1)
  | "select", [b, x, y] => do
    let i ← b.toNat?
    let x ← getBig vals x; let y ← getBig vals y
    match vals[i]? with
    | some (.bit b) => some ((optPanic (Big.select b x y)) >>= fun r => pure (BVal.big r, true))
    | _ => none
  | "tobits", [x] => do
    let x ← getBig vals x
    if !(isNormalized lb x.sb) then some (Big.stopB .panic) else
    -- native `assigned_to_le_bits(limb, Some(LOG2_BASE), true)` per limb
    some (do
      Big.emitB (x.limbs.map (fun _ => Big.BEv.d lb 1))
      pure (BVal.bits (x.limbs.flatMap (Big.natBitsLE lb)), x.limbs.all (fun l => decide (l < 2 ^ lb))))
  | "tobytes", [x] => do
    let x ← getBig vals x
    if !(isNormalized lb x.sb) then some (Big.stopB .panic) else
    -- native `assigned_to_le_bytes(limb, Some(LOG2_BASE / 8))` per limb
    some (do
      Big.emitB (x.limbs.map (fun _ => Big.BEv.d lb 8))
      pure (BVal.bytes (x.limbs.flatMap (fun l => (Big.chunksOf (lb + 1) 8 (Big.natBitsLE lb l)).map Big.bitsToNat)),
        x.limbs.all (fun l => decide (l < 2 ^ lb))))
  | "frombits", [v] => do
    let i ← v.toNat?
    match vals[i]? with
    | some (.bits bs) => ok (.big (Big.fromBits lb bs))
    | _ => none
  | "frombytes", [v] => do
    let i ← v.toNat?
    match vals[i]? with
    | some (.bytes bs) => ok (.big (Big.fromBytes lb bs))
    | _ => none
  | "pi", [x, w] => do
    let x ← getBig vals x; let w ← w.toNat?
    if w ≠ nbBits lb x.sb then some (Big.stopB .err) else
    some ((Big.normalize lb nb x) >>= fun t => pure (BVal.unit, t.2))
  | _, _ => none

/-- Run a BigUint program: outputs and verdict (`trace = false`), or, per executed operation, the
range-check events in emission order (`trace = true`; the `bigrc` lines). -/
def runBig (ops : List (List String)) (trace : Bool := false) : String := Id.run do
  let mut vals : Array BVal := #[]
  let mut outs : Array String := #[]
  let mut evs : Array String := #[]
  let mut sat := true
  let mut stop : Option String := none
  for o in ops do
    match o with
    | name :: args =>
      match stepBig vals name args with
      | none => return "bad-op"
      | some m =>
        match (m.run #[] : Except BStop ((BVal × Bool) × Array Big.BEv)) with
        | .error .err => stop := some "E"; break
        | .error .panic => stop := some "P"; break
        | .ok ((v, ok), es) =>
          vals := vals.push v
          outs := outs.push (fmtBVal v)
          evs := evs.push (if es.isEmpty then "-" else ",".intercalate (es.toList.map Big.BEv.fmt))
          sat := sat && ok
    | [] => return "bad-op"
  if trace then
    let l := evs.toList ++ (match stop with | some s => [s] | none => [])
    return if l.isEmpty then "-" else " | ".intercalate l
  let outl := outs.toList ++ (match stop with | some s => [s] | none => [])
  let verdict := match stop with
    | some _ => "stopped"
    | none => if sat then "sat" else "unsat"
  return " | ".intercalate outl ++ " => " ++ verdict

def answerBig (line : String) : String :=
  match (line.trimAscii.toString.splitOn " ; ") with
  | hd :: rest =>
    if hd.trimAscii.toString = "big" then runBig (rest.map words)
    else if hd.trimAscii.toString = "bigrc" then runBig (rest.map words) true else "bad-op"
  | [] => "bad-op"

def answerProg (line : String) : String :=
  match (line.trimAscii.toString.splitOn " ; ") with
  | hd :: rest =>
    match words hd with
    | ["fp", name] =>
      match (findSet name).bind ChipCfg.ofParams with
      | some c => runProg c (rest.map words)
      | none => "bad-op"
    | ["fpt", name] =>
      match (findSet name).bind ChipCfg.ofParams with
      | some c => runProg c (rest.map words) true
      | none => "bad-op"
    | _ => "bad-op"
  | [] => "bad-op"



/-- Values modulo `p` of the gate's identities in the order of `configure`
(auxiliary-modulus identities, then the native identity). -/
def idValues (p m kMin u : Int) (exprOf : Int → Int) (exprNative : Int) :
    List Int → List (Int × Int) → List Int → List Int
  | mj :: ms, vb :: vsb, vj :: vjs =>
    (modId m kMin mj vb.1 (exprOf mj) u vj % p) :: idValues p m kMin u exprOf exprNative ms vsb vjs
  | _, _, _ => [nativeId m kMin exprNative u % p]

/-- `cells`: advice cells the region assigns; `rc`: range checks (`assert_lower_than_fixed`
calls) issued for the cells of the region. -/
def fmtRow (u : Int) (vjs : List Int) (ok : Bool) (cells rc : Nat) : String :=
  s!"{u} {fmtInts vjs} {if ok then "ok" else "BAD"} cells={cells} rc={rc}"

def answer (line : String) : String :=
  if line.startsWith "fp " ∨ line.startsWith "fpt " then answerProg line else
  if line.startsWith "big " ∨ line.startsWith "bigrc " then answerBig line else
  match words line with
  | ["auxb", p, m, moduli, emin, emax, mjb] =>
    match parseInt? p, parseInt? m, parseIntList? moduli, parseInt? emin, parseInt? emax, parsePairs? mjb with
    | some p, some m, some moduli, some emin, some emax, some mjb =>
      if p ≤ 0 ∨ m ≤ 0 ∨ moduli.any (· ≤ 0) then "bad-op" else
      fmtAux (identityAuxBounds p m moduli (emin, emax) mjb)
    | _, _, _, _, _, _ => "bad-op"
  | ["geval", name, "mul", xs, ys, zs, u, vs] =>
    match findSet name, parseIntList? xs, parseIntList? ys, parseIntList? zs, parseInt? u, parseIntList? vs with
    | some P, some xs, some ys, some zs, some u, some vs =>
      match P.mulBounds with
      | .ok b => fmtInts (idValues P.p P.m b.kMin u (P.mulExprMod xs ys zs)
          (mulExpr P.basePowers P.doubleBasePowers xs ys zs) P.moduli b.vs vs)
      | .error e => e
    | _, _, _, _, _, _ => "bad-op"
  | ["geval", name, "norm", xs, zs, u, vs] =>
    match findSet name, parseIntList? xs, parseIntList? zs, parseInt? u, parseIntList? vs with
    | some P, some xs, some zs, some u, some vs =>
      match P.normBounds with
      | .ok b => fmtInts (idValues P.p P.m b.kMin u (P.normExprMod xs zs)
          (normExpr P.basePowers P.maxLimbBound xs zs P.normSumShifts) P.moduli b.vs vs)
      | .error e => e
    | _, _, _, _, _ => "bad-op"
  | ["mulrow", name, xs, ys, zs] =>
    match findSet name, parseIntList? xs, parseIntList? ys, parseIntList? zs with
    | some P, some xs, some ys, some zs =>
      match P.mulBounds with
      | .ok b =>
        let w := P.mulWitness b xs ys zs
        let ok := P.mulGateHolds b xs ys zs w.1 w.2 && decide (0 ≤ w.1) && decide (w.1 < b.uMax)
          && vjsInRange b.vs w.2 && decide (w.2.length = b.vs.length)
        -- x, z, y limbs, u, vs; range checks on u and every vj
        fmtRow w.1 w.2 ok (3 * P.nbLimbs + 1 + b.vs.length) (1 + b.vs.length)
      | .error e => e
    | _, _, _, _ => "bad-op"
  | ["normrow", name, xs] =>
    match findSet name, parseIntList? xs with
    | some P, some xs =>
      match P.normBounds with
      | .ok b =>
        let w := P.normWitness b xs
        let ok := P.normGateHolds b xs w.1 w.2.1 w.2.2 && decide (0 ≤ w.2.1) && decide (w.2.1 < b.uMax)
          && vjsInRange b.vs w.2.2 && P.wellFormedOk w.1 && decide (w.2.2.length = b.vs.length)
        -- x, z limbs, u, vs; range checks on every z limb, u and every vj
        s!"{fmtInts w.1} {fmtRow w.2.1 w.2.2 ok (2 * P.nbLimbs + 1 + b.vs.length) (P.nbLimbs + 1 + b.vs.length)}"
      | .error e => e
    | _, _ => "bad-op"
  | ["params", name] =>
    match findSet name with
    | some P => s!"{P.p} {P.m} {P.log2Base} {P.nbLimbs} {fmtInts P.moduli} {P.rcLimbSize} {P.maxLimbBound}"
    | none => "bad-op"
  | ["nsets"] => toString Gen.paramSets.length ++ " " ++ " ".intercalate (Gen.paramSets.map (·.name))
  | ["bpow", name] =>
    match findSet name with
    | some P => s!"{fmtInts P.basePowers} {fmtInts P.doubleBasePowers}"
    | none => "bad-op"
  | ["chk", name] =>
    match findSet name with
    | some P => if P.checkParams then "ok" else "panic"
    | none => "bad-op"
  | ["wf", name] =>
    match findSet name with
    | some P =>
      match P.wellFormedLog2Bounds with
      | some l => fmtNatList l
      | none => "panic"
    | none => "bad-op"
  | ["mulb", name] =>
    match findSet name with
    | some P => fmtAux P.mulBounds
    | none => "bad-op"
  | ["normb", name] =>
    match findSet name with
    | some P => fmtAux P.normBounds
    | none => "bad-op"
  | _ => "bad-op"

end MidnightZK.C05.Driver

/-- `mzk-c05 < ops.txt > model.txt` : one answer line per request line. -/
def main : IO UInt32 := do
  MidnightZK.lineLoop (← IO.getStdin) (← IO.getStdout) MidnightZK.C05.Driver.answer
  return 0
