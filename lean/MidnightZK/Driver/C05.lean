import MidnightZK.Model.Common
/-! Line-protocol handler of property C05 (stub: answers `unimplemented`). -/
namespace MidnightZK.C05.Driver

def answer (_line : String) : String := "unimplemented"

end MidnightZK.C05.Driver
