import MidnightZK.Model.Common
/-! Line-protocol handler of property C05 (stub: answers `unimplemented`). -/
namespace MidnightZK.C05.Driver

def answer (_line : String) : String := "unimplemented"

end MidnightZK.C05.Driver

/-- `mzk-c05 < ops.txt > model.txt` : one answer line per request line. -/
def main : IO UInt32 := do
  MidnightZK.lineLoop (← IO.getStdin) (← IO.getStdout) MidnightZK.C05.Driver.answer
  return 0
