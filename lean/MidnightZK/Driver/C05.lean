import MidnightZK.Model.Common
import MidnightZK.Model.C05.Bounds
import MidnightZK.Gen.C05Params
/-! Line-protocol handler of property C05. -/
namespace MidnightZK.C05.Driver
open MidnightZK MidnightZK.C05

def findSet (name : String) : Option Params := Gen.paramSets.find? (·.name = name)

def fmtInts (l : List Int) : String := fmtIntList l

/-- `a:b,c:d,…` or `-`. -/
def parsePairs? (s : String) : Option (List (Int × Int)) :=
  if s = "-" then some [] else
  (s.splitOn ",").mapM (fun t =>
    match t.splitOn ":" with
    | [a, b] => do let a ← parseInt? a; let b ← parseInt? b; pure (a, b)
    | _ => none)

def fmtPairs (l : List (Int × Int)) : String :=
  if l.isEmpty then "-" else ",".intercalate (l.map (fun ab => s!"{ab.1}:{ab.2}"))

def fmtAux (r : Except String AuxBounds) : String :=
  match r with
  | .ok b => s!"{b.kMin} {b.uMax} {fmtPairs b.vs}"
  | .error e => e

def answer (line : String) : String :=
  match words line with
  | ["auxb", p, m, moduli, emin, emax, mjb] =>
    match parseInt? p, parseInt? m, parseIntList? moduli, parseInt? emin, parseInt? emax, parsePairs? mjb with
    | some p, some m, some moduli, some emin, some emax, some mjb =>
      if p ≤ 0 ∨ m ≤ 0 ∨ moduli.any (· ≤ 0) then "bad-op" else
      fmtAux (identityAuxBounds p m moduli (emin, emax) mjb)
    | _, _, _, _, _, _ => "bad-op"
  | ["params", name] =>
    match findSet name with
    | some P => s!"{P.p} {P.m} {P.log2Base} {P.nbLimbs} {fmtInts P.moduli} {P.rcLimbSize} {P.maxLimbBound}"
    | none => "bad-op"
  | ["nsets"] => toString Gen.paramSets.length ++ " " ++ " ".intercalate (Gen.paramSets.map (·.name))
  | ["bpow", name] =>
    match findSet name with
    | some P => s!"{fmtInts P.basePowers} {fmtInts P.doubleBasePowers}"
    | none => "bad-op"
  | ["chk", name] =>
    match findSet name with
    | some P => if P.checkParams then "ok" else "panic"
    | none => "bad-op"
  | ["wf", name] =>
    match findSet name with
    | some P =>
      match P.wellFormedLog2Bounds with
      | some l => fmtNatList l
      | none => "panic"
    | none => "bad-op"
  | ["mulb", name] =>
    match findSet name with
    | some P => fmtAux P.mulBounds
    | none => "bad-op"
  | ["normb", name] =>
    match findSet name with
    | some P => fmtAux P.normBounds
    | none => "bad-op"
  | _ => "bad-op"

end MidnightZK.C05.Driver

/-- `mzk-c05 < ops.txt > model.txt` : one answer line per request line. -/
def main : IO UInt32 := do
  MidnightZK.lineLoop (← IO.getStdin) (← IO.getStdout) MidnightZK.C05.Driver.answer
  return 0
