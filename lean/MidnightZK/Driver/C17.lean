import MidnightZK.Model.Common
/-! Line-protocol handler of property C17 (stub: answers `unimplemented`). -/
namespace MidnightZK.C17.Driver

def answer (_line : String) : String := "unimplemented"

end MidnightZK.C17.Driver

/-- `mzk-c17 < ops.txt > model.txt` : one answer line per request line. -/
def main : IO UInt32 := do
  MidnightZK.lineLoop (← IO.getStdin) (← IO.getStdout) MidnightZK.C17.Driver.answer
  return 0
