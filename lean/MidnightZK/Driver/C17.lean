import MidnightZK.Model.Common
/-! Line-protocol handler of property C17 (stub: answers `unimplemented`). -/
namespace MidnightZK.C17.Driver

def answer (_line : String) : String := "unimplemented"

end MidnightZK.C17.Driver
