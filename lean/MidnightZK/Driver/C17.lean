import MidnightZK.Model.Common
import MidnightZK.Model.ModArith
import MidnightZK.Model.C17.Bytes
import MidnightZK.Model.C17.Keys
import MidnightZK.Model.C17.Blake2b
import MidnightZK.Model.C17.Transcript
import MidnightZK.Model.C17.Perm
import MidnightZK.Model.C17.Params
import MidnightZK.Model.C17.Zr
import MidnightZK.Model.C17.Field
import MidnightZK.Model.C17.Stdlib
import MidnightZK.Model.C17.PkRead
import MidnightZK.Gen.C17Consts
import MidnightZK.Gen.C17Sites
/-! Line-protocol handler of property C17. -/
namespace MidnightZK.C17.Driver
open MidnightZK MidnightZK.C17

/-! ### parsing / printing -/

def hexVal (c : Char) : Option Nat :=
  if '0' ≤ c ∧ c ≤ '9' then some (c.toNat - '0'.toNat)
  else if 'a' ≤ c ∧ c ≤ 'f' then some (c.toNat - 'a'.toNat + 10)
  else none

/-- Even-length lowercase hex (or `-` for the empty string) to bytes. -/
def parseBytes? (s : String) : Option Bytes :=
  if s = "-" then some [] else
  let st := s.foldl (fun (st : Option (List UInt8 × Option Nat)) c =>
    match st, hexVal c with
    | some (acc, none), some v => some (acc, some v)
    | some (acc, some hi), some v => some (UInt8.ofNat (hi * 16 + v) :: acc, none)
    | _, _ => none) (some ([], none))
  match st with
  | some (acc, none) => some acc.reverse
  | _ => none

def hexOf (b : Bytes) : String :=
  if b.isEmpty then "-" else
  String.ofList (b.flatMap (fun x => [hexDigit (x.toNat / 16), hexDigit (x.toNat % 16)]))

def hexList (l : List Bytes) : String :=
  if l.isEmpty then "-" else ",".intercalate (l.map hexOf)

/-- `key=value` word with the given key. -/
def kv (key : String) (w : String) : Option String :=
  if w.startsWith (key ++ "=") then some (w.drop (key.length + 1)).toString else none

def kvNat (key w : String) : Option Nat := (kv key w).bind parseNat?

def fmtOf (s : String) : Option Format :=
  if s = "P" then some .processed else if s = "R" then some .rawBytes
  else if s = "U" then some .rawBytesUnchecked else none

/-! ### instances -/

/-- Points as opaque chunks: the driver checks structure, offsets and re-serialisation; the
element codecs are C10/C11/C16's subject. -/
def chunkCodec (plen : Nat) : Codec Bytes :=
  { plen := plen, encC := id, encR := id, decC := some, decR := some, decU := id }

def g1c : Codec Bytes := chunkCodec Gen.g1Compressed
def g2c : Codec Bytes := chunkCodec Gen.g2Compressed
def version : UInt8 := UInt8.ofNat Gen.vkVersion

def r : Nat := frR
abbrev Fr := Zr Gen.frModulus
def fr (n : Nat) : Fr := Zr.ofNat r n

/-- Field elements as raw Montgomery integers (`read_raw` checks `< modulus`). -/
def frCodec : FCodec Nat :=
  { flen := 32, enc := natLe 32, dec := fun b => let v := leNat b; if v < r then some v else none, decU := leNat }

def delta : Fr := fr deltaN

/-- `EvaluationDomain::new` / `g_to_lagrange` / `unsafe_setup`: constants of the `2^k` domain. -/
def dom (k : Nat) : Dom Fr := { omega := fr (omegaN k), omegaInv := fr (omegaInvN k), nInv := fr (nInvN k) }

def fmtFr (l : List Fr) : String := fmtHexList (l.map (·.val))

/-! ### operations -/

def vkAnswer (fmt : Format) (sh : Shape) (bs : Bytes) : String :=
  match readVK g1c version fmt sh bs with
  | .error e => e.code
  | .ok (vk, rest) =>
    let re := writeVK g1c version fmt vk
    let same := re == bs.take (bs.length - rest.length)
    s!"ok k={vk.k} fixed={hexList vk.fixed} perm={hexList vk.perm} rest={rest.length} rewrite={fmtBool same} len={bs.length}"

def pkAnswer (fmt : Format) (sh : Shape) (bs : Bytes) : String :=
  match readPK g1c frCodec version fmt sh bs with
  | .error e => e.code
  | .ok (pk, rest) =>
    let re := writePK g1c frCodec version fmt pk
    let same := re == bs.take (bs.length - rest.length)
    let chk := (pk.fixedValues ++ pk.permutations).foldl (fun acc p => p.foldl (fun a v => (a + fromMont v) % r) acc) 0
    let lens (ps : List (List Nat)) := fmtNatList (ps.map List.length)
    s!"ok k={pk.vk.k} fixed={lens pk.fixedValues} perm={lens pk.permutations} chk={toHex chk} rest={rest.length} rewrite={fmtBool same} len={bs.length}"

def paramsAnswer (fmt : Format) (bs : Bytes) : String :=
  match readParams g1c g2c fmt bs with
  | .error e => e.code
  | .ok (p, rest) =>
    let re := writeParams g1c g2c fmt p
    let same := re == bs.take (bs.length - rest.length)
    s!"ok k={p.k} g={hexList p.g} gl={hexList p.gLagrange} g2={hexOf p.g2} sg2={hexOf p.sG2} rest={rest.length} rewrite={fmtBool same}"

def archStr (a : Arch) : String :=
  String.ofList (a.flags.map (fun b => if b then '1' else '0')) ++ ":" ++ toString a.pow2

def nFlags : Nat := (Gen.archFields.filter (·.2)).length

def mvkAnswer (fmt : Format) (sh : Shape) (bs : Bytes) : String :=
  match readMVK g1c Gen.zkstdVersion nFlags Gen.nbArithCols version fmt (fun _ => sh) bs with
  | .error e => e.code
  | .ok (m, rest) =>
    let re := writeMVK g1c Gen.zkstdVersion version fmt m
    let same := re == bs.take (bs.length - rest.length)
    s!"ok arch={archStr m.arch} npi={m.nbPublicInputs} k={m.vk.k} nf={m.vk.fixed.length} np={m.vk.perm.length} rest={rest.length} rewrite={fmtBool same}"

def mpkAnswer (fmt : Format) (relLen : Nat) (sh : Shape) (bs : Bytes) : String :=
  match readMPK g1c frCodec (readExact relLen) version fmt (fun _ => sh) bs with
  | .error e => e.code
  | .ok (m, rest) =>
    let re := writeMPK g1c frCodec id version fmt m
    let same := re == bs.take (bs.length - rest.length)
    let lens (ps : List (List Nat)) := fmtNatList (ps.map List.length)
    s!"ok k={m.k} rel={hexOf m.relation} vk.k={m.pk.vk.k} fixed={lens m.pk.fixedValues} perm={lens m.pk.permutations} rest={rest.length} rewrite={fmtBool same}"

def parseCopies? (s : String) : Option (List (Nat × Nat × Nat × Nat)) :=
  if s = "-" then some [] else
  (s.splitOn ",").mapM (fun t =>
    match (t.splitOn ".").mapM String.toNat? with
    | some [a, b, c, d] => some (a, b, c, d)
    | _ => none)

def permAnswer (t k ncols : Nat) (copies : List (Nat × Nat × Nat × Nat)) : String :=
  let n := 2 ^ k
  match (Assembly.new n ncols).copies copies with
  | none => "err bounds"
  | some a =>
    let polys := buildPermutations t (dom k).omega delta n ncols (fun i j => get2 a.mapping (i, j))
    if polys.isEmpty then "-" else "/".intercalate (polys.map fmtFr)

/-- `EvaluationDomain::new(degree, k)`: the constants key generation uses. -/
def edom (k deg : Nat) : EDom Fr :=
  let ek := extendedK k (deg - 1)
  { k := k, extK := ek, dom := dom k, extOmega := fr (omegaN ek), zeta := fr zetaN, zetaSq := fr zetaN * fr zetaN }

/-- Checksum of a vector: its value as a polynomial at the point `0x10001` (the harness computes
the same sum on the real vectors), with its length. -/
def ck (v : List Fr) : String := s!"{v.length}:{toHex (evalAt v (fr 0x10001)).val}"

def cks (vs : List (List Fr)) : String := if vs.isEmpty then "-" else ",".intercalate (vs.map ck)

/-- `pkfull`: the model's `ProvingKey::read` (`via=read`) or the tail of `keygen_pk`
(`via=keygen`) on the stored part parsed from the real byte image, with the destructuring
orders of the sources; every recomputed part by checksum. -/
def pkFullAnswer (viaRead : Bool) (fmt : Format) (sh : Shape) (bf t : Nat) (bs : Bytes) : String :=
  match readPK g1c frCodec version fmt sh bs with
  | .error e => e.code
  | .ok (pk, rest) =>
    if rest.length ≠ 0 then "err trailing" else
    let st : PKStored Bytes Fr :=
      { vk := pk.vk, fixedValues := pk.fixedValues.map (·.map (fun v => fr (fromMont v))),
        permutations := pk.permutations.map (·.map (fun v => fr (fromMont v))) }
    let d := edom pk.vk.k sh.degree
    let (pat, init) := if viaRead then (Gen.lagrDestructRead, Gen.pkInitRead) else (Gen.lagrDestructKeygen, Gen.pkInitKeygen)
    match derivePKFull t Gen.lagrReturn pat init d bf sh.nPerm st with
    | none => "panic"
    | some r =>
      s!"ok ek={d.extK} l0={ck r.l0} l_last={ck r.lLast} l_active_row={ck r.lActiveRow} fixed_polys={cks r.fixedPolys} fixed_cosets={cks r.fixedCosets} permutation_polys={cks r.permPolys} permutation_cosets={cks r.permCosets}"

/-- `paramsreload`: read in format `fb`, write again in format `fa`. -/
def paramsReloadAnswer (fa fb : Format) (bs : Bytes) : String :=
  match readParams g1c g2c fb bs with
  | .error e => e.code
  | .ok (p, rest) =>
    let re := writeParams g1c g2c fa p
    s!"ok k={p.k} g={hexList p.g} gl={hexList p.gLagrange} g2={hexOf p.g2} sg2={hexOf p.sG2} rest={rest.length} rewrite={fmtBool (re == bs)}"

/-- `perminv`: the state of the model's `Assembly` after the requested copies, checked against
the union-find invariant and summarised by its classes: (1) `mapping` is a permutation of the
cells; (2) the cycle of `mapping` through every cell consists of cells with the same `aux`
representative and has `sizes[representative]` elements; then the classes are reported as
`classes=<number> max=<largest> sum=<Σ (index+1)·(least index of the class of index)>`, which
the harness computes from the plain closure of the requested copies. -/
def permInvAnswer (k ncols : Nat) (copies : List (Nat × Nat × Nat × Nat)) : String :=
  let n := 2 ^ k
  match (Assembly.new n ncols).copies copies with
  | none => "err bounds"
  | some a =>
    let cells : List Cell := (List.range ncols).flatMap (fun i => (List.range n).map (fun j => (i, j)))
    let idx (c : Cell) : Nat := c.1 * n + c.2
    -- (1) permutation
    let seen := cells.foldl (fun (st : Option (Array Bool)) c =>
      match st with
      | none => none
      | some fl =>
        let m := get2 a.mapping c
        if m.1 ≥ ncols ∨ m.2 ≥ n then none
        else if fl[idx m]! then none else some (fl.set! (idx m) true)) (some (Array.replicate (ncols * n) false))
    if seen.isNone then "INVARIANT-BROKEN:mapping-not-a-permutation" else
    -- (2) cycles = aux classes, with the recorded sizes
    let rec walk (fuel : Nat) (start cur : Cell) (rep : Cell) (len : Nat) : Option Nat :=
      match fuel with
      | 0 => none
      | f + 1 =>
        if get2 a.aux cur ≠ rep then none else
        let nx := get2 a.mapping cur
        if nx = start then some (len + 1) else walk f start nx rep (len + 1)
    let okCycles := cells.all (fun c =>
      let rep := get2 a.aux c
      match walk (ncols * n + 1) c c rep 0 with
      | none => false
      | some len => len == get2 a.sizes rep)
    if !okCycles then "INVARIANT-BROKEN:cycle-differs-from-aux-class-or-size" else
    -- classes by representative
    let least := cells.foldl (fun (arr : Array (Option Nat)) c =>
      let r := idx (get2 a.aux c)
      match arr[r]! with
      | some _ => arr
      | none => arr.set! r (some (idx c))) (Array.replicate (ncols * n) none)
    let classes := (least.toList.filter Option.isSome).length
    let mx := cells.foldl (fun m c => if get2 a.aux c = c then max m (get2 a.sizes c) else m) 0
    let sum := cells.foldl (fun acc c => (acc + (idx c + 1) * ((least[idx (get2 a.aux c)]!).getD 0)) % 1000000007) 0
    s!"ok classes={classes} max={mx} sum={sum}"

def lagrangeSetup (k : Nat) (s : Fr) : List Fr := (setupS Zr.inv (dom k) s (2 ^ k)).gLagrange

def answer (line : String) : String :=
  match words line with
  | ["vkparse", f, nf, np, deg, hex] =>
    match (kv "fmt" f).bind fmtOf, kvNat "nf" nf, kvNat "np" np, kvNat "deg" deg, parseBytes? hex with
    | some fmt, some nf, some np, some deg, some bs => vkAnswer fmt ⟨nf, np, deg, Gen.frS⟩ bs
    | _, _, _, _, _ => "bad-op"
  | ["pkparse", f, nf, np, deg, hex] =>
    match (kv "fmt" f).bind fmtOf, kvNat "nf" nf, kvNat "np" np, kvNat "deg" deg, parseBytes? hex with
    | some fmt, some nf, some np, some deg, some bs => pkAnswer fmt ⟨nf, np, deg, Gen.frS⟩ bs
    | _, _, _, _, _ => "bad-op"
  | ["pkfull", via, f, nf, np, deg, bf, t, hex] =>
    match kv "via" via, (kv "fmt" f).bind fmtOf, kvNat "nf" nf, kvNat "np" np, kvNat "deg" deg, kvNat "bf" bf,
        kvNat "t" t, parseBytes? hex with
    | some via, some fmt, some nf, some np, some deg, some bf, some t, some bs =>
      if t = 0 ∨ (via ≠ "read" ∧ via ≠ "keygen") then "bad-op"
      else pkFullAnswer (via == "read") fmt ⟨nf, np, deg, Gen.frS⟩ bf t bs
    | _, _, _, _, _, _, _, _ => "bad-op"
  | ["paramsreload", fa, fb, hex] =>
    match (kv "wrote" fa).bind fmtOf, (kv "read" fb).bind fmtOf, parseBytes? hex with
    | some fa, some fb, some bs => paramsReloadAnswer fa fb bs
    | _, _, _ => "bad-op"
  | ["mvkparse", f, nf, np, deg, hex] =>
    match (kv "fmt" f).bind fmtOf, kvNat "nf" nf, kvNat "np" np, kvNat "deg" deg, parseBytes? hex with
    | some fmt, some nf, some np, some deg, some bs => mvkAnswer fmt ⟨nf, np, deg, Gen.frS⟩ bs
    | _, _, _, _, _ => "bad-op"
  | ["mpkparse", f, rel, nf, np, deg, hex] =>
    match (kv "fmt" f).bind fmtOf, kvNat "rel" rel, kvNat "nf" nf, kvNat "np" np, kvNat "deg" deg, parseBytes? hex with
    | some fmt, some rel, some nf, some np, some deg, some bs => mpkAnswer fmt rel ⟨nf, np, deg, Gen.frS⟩ bs
    | _, _, _, _, _, _ => "bad-op"
  | ["trepr", nf, np, raw, desc] =>
    match kvNat "nf" nf, kvNat "np" np, parseBytes? raw, parseBytes? desc with
    | some nf, some np, some raw, some desc =>
      -- the degree check is irrelevant for a key produced by keygen: degree 0 disables it
      match readVK g1c version .rawBytesUnchecked ⟨nf, np, 0, Gen.frS⟩ raw with
      | .ok (vk, []) =>
        toHex (transcriptRepr g1c version
          (hashToField Gen.treprHashLen (Gen.treprPersonal.map UInt8.ofNat) r) vk desc)
      | .ok _ => "err trailing"
      | .error e => e.code
    | _, _, _, _ => "bad-op"
  | ["perm", t, k, ncols, copies] =>
    match kvNat "t" t, kvNat "k" k, kvNat "ncols" ncols, (kv "copies" copies).bind parseCopies? with
    | some t, some k, some ncols, some copies => if t = 0 ∨ k > Gen.frS then "bad-op" else permAnswer t k ncols copies
    | _, _, _, _ => "bad-op"
  | ["perminv", k, ncols, copies] =>
    match kvNat "k" k, kvNat "ncols" ncols, (kv "copies" copies).bind parseCopies? with
    | some k, some ncols, some copies => if k > 12 then "bad-op" else permInvAnswer k ncols copies
    | _, _, _ => "bad-op"
  | ["commit", k, s, vals] =>
    match kvNat "k" k, kvNat "s" s, parseNatList? vals with
    | some k, some s, some vals =>
      if k > 16 ∨ vals.length ≠ 2 ^ k then "bad-op" else
      let lag := lagrangeSetup k (fr s)
      toHex ((vals.zip lag).foldl (fun (acc : Fr) vl => acc + fr vl.1 * vl.2) 0).val
    | _, _, _ => "bad-op"
  | ["lagrange", "via=setup", t, k, s] =>
    -- `unsafe_setup` under `t` threads: monomial exponents and Lagrange scalars
    match kvNat "t" t, kvNat "k" k, kvNat "s" s with
    | some t, some k, some s =>
      if k > 16 ∨ t = 0 then "bad-op" else
      let p := setupChunked t Zr.inv (dom k) (fr s) (2 ^ k)
      let gOk := p.g == (List.range (2 ^ k)).map (fun i => (fr s).pow i)
      s!"g={fmtBool gOk} {fmtFr p.gLagrange}"
    | _, _, _ => "bad-op"
  | ["lagrange", "via=downsize", from_, k, s] =>
    match kvNat "from" from_, kvNat "k" k, kvNat "s" s with
    | some km, some k, some s =>
      if km > 12 then "bad-op" else
      match downsizeS dom (setupS Zr.inv (dom km) (fr s) (2 ^ km)) k with
      | some p => fmtFr p.gLagrange
      | none => "panic"
    | _, _, _ => "bad-op"
  | ["paramslayout", f, k] =>
    match (kv "fmt" f).bind fmtOf, kvNat "k" k with
    | some fmt, some k =>
      let l1 := g1c.byteLen fmt
      let l2 := g2c.byteLen fmt
      let n := 2 ^ k
      s!"len={4 + 2 * n * l1 + 2 * l2} g=4 gl={4 + n * l1} g2={4 + 2 * n * l1} sg2={4 + 2 * n * l1 + l2}"
    | _, _ => "bad-op"
  | ["paramsparse", f, hex] =>
    match (kv "fmt" f).bind fmtOf, parseBytes? hex with
    | some fmt, some bs => paramsAnswer fmt bs
    | _, _ => "bad-op"
  | _ => "bad-op"

end MidnightZK.C17.Driver

/-- `mzk-c17 < ops.txt > model.txt` : one answer line per request line. -/
def main : IO UInt32 := do
  MidnightZK.lineLoop (← IO.getStdin) (← IO.getStdout) MidnightZK.C17.Driver.answer
  return 0
