import MidnightZK.Model.Common
/-! Line-protocol handler of property C20 (stub: answers `unimplemented`). -/
namespace MidnightZK.C20.Driver

def answer (_line : String) : String := "unimplemented"

end MidnightZK.C20.Driver

/-- `mzk-c20 < ops.txt > model.txt` : one answer line per request line. -/
def main : IO UInt32 := do
  MidnightZK.lineLoop (← IO.getStdin) (← IO.getStdout) MidnightZK.C20.Driver.answer
  return 0
