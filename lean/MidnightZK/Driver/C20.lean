import MidnightZK.Model.Common
/-! Line-protocol handler of property C20 (stub: answers `unimplemented`). -/
namespace MidnightZK.C20.Driver

def answer (_line : String) : String := "unimplemented"

end MidnightZK.C20.Driver
