import MidnightZK.Model.Common
import MidnightZK.Model.C20.Ipa
import MidnightZK.Model.C20.Group
import MidnightZK.Model.C20.Gadget
import MidnightZK.Model.C01.Parse
import MidnightZK.Model.C20.AccIO
import MidnightZK.Model.C20.VerifyIO
import MidnightZK.Model.C20.Assign
import MidnightZK.Model.C20.Aggregator
/-! Line-protocol handler of property C20. -/
namespace MidnightZK.C20.Driver
open MidnightZK MidnightZK.C20

def frList? (s : String) : Option (List Fr) := (parseNatList? s).map (·.map fr)

/-- Challenges with the inverse the code computes (`uj.invert().unwrap()`); `none` if a
challenge is zero (the code panics). -/
def withInv? (us : List Fr) : Option (List (Fr × Fr)) :=
  us.mapM fun u => if u.val = 0 then none else some (u, u.inv)

/-- `l0:r0,l1:r1,…` or `-`. -/
def parsePairs? (s : String) : Option (List (Fr × Fr)) :=
  if s = "-" then some [] else
  (s.splitOn ",").mapM fun t =>
    match t.splitOn ":" with
    | [a, b] => do
      let a ← parseNat? a
      let b ← parseNat? b
      pure (fr a, fr b)
    | _ => none

def fmtFr (l : List Fr) : String := fmtHexList (l.map (·.val))

def isPow2 (n : Nat) : Bool := n ≠ 0 ∧ 2 ^ n.log2 = n

def tok (e : MidnightZK.C01.Ev) : String :=
  let t := match e.ty with | .G => "G" | .F => "F"
  match e.kind with
  | .squeeze => "S"
  | .absorb => "C" ++ t
  | .elem => "E" ++ t

/-- `gadget-sched` / `gadget-prooflen`: shape of the inner constraint system, number of committed
instance columns, lengths of the plain instance columns. -/
def gadgetAnswer (op : String) (rest : List String) : String :=
  open MidnightZK.C01.Parse in
  match parseShape? rest, (kv rest "nc").bind parseNat?, (kv rest "lens").bind parseNatList? with
  | some sh, some nc, some lens =>
    if !gadgetSupported sh then "panic"
    else if op = "gadget-sched" then " ".intercalate ((gadgetSchedule sh nc lens).map tok)
    else toString (gadgetProofLen sh nc lens)
  | _, _, _ => "bad-op"

/-- Requests about the off-circuit accumulator types. -/
def accAnswer (ws : List String) : String :=
  match ws with
  | ["msm-awr", r, a, b] =>
    match parseNat? r, parseMsm? a, parseMsm? b with
    | some r, some a, some b => fmtMsm (a.accumulateWithROff b (fr r))
    | _, _, _ => "bad-op"
  | ["msm-eval", fb, m] =>
    match parseFixed? fb, parseMsm? m with
    | some fb, some m =>
      -- `msm_best` on an empty vector of terms is the identity
      match evalMsm? fb m with
      | some d => fmtPoint d
      | none => "panic"
    | _, _ => "bad-op"
  | ["msm-collapse", m] =>
    match parseMsm? m with
    | some m =>
      let c := m.collapse
      s!"{",".intercalate (c.bases.map fmtPoint)};{fmtHexList (c.scalars.map (·.val))}"
    | none => "bad-op"
  | "acc-accumulate" :: r :: accs =>
    match parseNat? r, accs.mapM parseAcc? with
    | some r, some accs =>
      match Acc.accumulate accs (fr r) with
      | some a => fmtAcc a
      | none => "panic"
    | _, _ => "bad-op"
  | _ => "bad-op"

def parseNames? (s : String) : Option (List String) :=
  if s = "-" then some [] else some (s.splitOn ",")

def fmtNames (l : List String) : String := if l.isEmpty then "-" else ",".intercalate l

/-- Requests about an accumulator carried into a circuit (`AssignedAccumulator::assign`, IVC step).
Bases are opaque labels here (the operations only move them). -/
def assignAnswer (ws : List String) : String :=
  match ws with
  | ["fbnames", vk, nf, np] =>
    -- `fixed_base_names(vk, nf, np)` | the same names in `BTreeMap` order
    match nf.toNat?, np.toNat? with
    | some nf, some np =>
      let names := fixedBaseNames vk nf np
      s!"{fmtNames names}|{fmtNames (sortNames names)}"
    | _, _ => "bad-op"
  | ["acc-assign", ll, rl, ln, rn, a] =>
    match ll.toNat?, rl.toNat?, parseNames? ln, parseNames? rn, parseAcc? a with
    | some ll, some rl, some ln, some rn, some a =>
      match a.assign ll rl ln rn with
      | some a => fmtAcc a
      | none => "panic"
    | _, _, _, _, _ => "bad-op"
  | ["acc-scale-bit", b, a] =>
    -- value held by the circuit after `AssignedAccumulator::scale_by_bit`
    match parseAcc? a with
    | some a => if b = "1" then fmtAcc (a.scaleByBit true) else if b = "0" then fmtAcc (a.scaleByBit false) else "bad-op"
    | none => "bad-op"
  | ["ivc-step", ll, rl, ln, rn, r, pa, ca] =>
    match ll.toNat?, rl.toNat?, parseNames? ln, parseNames? rn, parseNat? r, parseAcc? pa, parseAcc? ca with
    | some ll, some rl, some ln, some rn, some r, some pa, some ca =>
      match ivcStepIn ll rl ln rn pa ca (fr r) with
      | some a => fmtAcc a
      | none => "panic"
    | _, _, _, _, _, _, _ => "bad-op"
  | "agg-layout" :: names :: nbFixed :: queried :: r :: accs =>
    -- sections of the aggregated proof before the PLONK proof, the committed column and the
    -- name-alignment of the IPA pairing (with all fixed bases of the key / with the bases
    -- `ipa_fixed_bases` keeps), for the accumulation of the given proof accumulators
    match parseNames? names, nbFixed.toNat?, (parseNames? queried).bind (·.mapM String.toNat?), parseNat? r, accs.mapM parseAcc? with
    | some names, some nbFixed, some queried, some r, some accs =>
      match Acc.accumulate accs (fr r) with
      | some acc =>
        match aggSectionsOf acc with
        | some s =>
          let fb : List (String × Fr) := names.map (fun n => (n, (0 : Fr)))
          s!"n={s.lhsBases.length} lhs={fmtHexList (s.lhsBases.map (·.val))};{fmtHexList (s.lhsScalars.map (·.val))} m={s.rhsBases.length} rhs={fmtHexList (s.rhsBases.map (·.val))} committed={fmtHexList ((aggCommitted (fun _ => []) acc).map (·.val))} aligned_all={fmtBool (aggAligned acc fb)} ipa_fixed={fmtNames ((ipaFixedBases nbFixed queried fb).map (·.1))} aligned={fmtBool (aggAligned acc (ipaFixedBases nbFixed queried fb))}"
        | none => "panic"
      | none => "panic"
    | _, _, _, _, _ => "bad-op"
  | _ => "bad-op"

def answer (line : String) : String :=
  match words line with
  | "fbnames" :: _ => assignAnswer (words line)
  | "acc-assign" :: _ => assignAnswer (words line)
  | "acc-scale-bit" :: _ => assignAnswer (words line)
  | "ivc-step" :: _ => assignAnswer (words line)
  | "agg-layout" :: _ => assignAnswer (words line)
  | "msm-awr" :: _ => accAnswer (words line)
  | "msm-eval" :: _ => accAnswer (words line)
  | "msm-collapse" :: _ => accAnswer (words line)
  | "acc-accumulate" :: _ => accAnswer (words line)
  | "gadget-sched" :: rest => gadgetAnswer "gadget-sched" rest
  | "gadget-verify" :: rest => (V.answerVerify rest).getD "bad-op"
  | "gadget-prooflen" :: rest => gadgetAnswer "gadget-prooflen" rest
  | ["ipa-sched", side, len] =>
    match len.toNat? with
    | some len =>
      if !isPow2 len then "panic"
      else if side = "P" then " ".intercalate ((proverSchedule len).map IpaEv.tok)
      else if side = "V" then " ".intercalate ((verifierScheduleIpa len).map IpaEv.tok)
      else "bad-op"
    | none => "bad-op"
  | ["ipa-labels", len] =>
    -- contents of the transcript operations of `ipa_prove` / `ipa_verify` (same for both sides)
    match len.toNat? with
    | some len => if !isPow2 len then "panic" else " ".intercalate ((labelledSchedule len).map IpaLab.tok)
    | none => "bad-op"
  | ["ipa-vscalars", r, s, us] =>
    -- scalars of the final MSM of `ipa_verify`
    match parseNat? r, parseNat? s, frList? us with
    | some r, some s, some us =>
      match withInv? us with
      | some us => fmtFr (verifierMsmScalars (fr r) (fr s) us)
      | none => "panic"
    | _, _, _ => "bad-op"
  | ["ipa-prove", w, b1, b2, r, us] =>
    -- proof elements written by `ipa_prove` (bases given by their discrete logarithms)
    match frList? w, frList? b1, frList? b2, parseNat? r, frList? us with
    | some w, some b1, some b2, some r, some us =>
      if w.length ≠ b1.length ∨ w.length ≠ b2.length ∨ !isPow2 w.length then "panic"
      else if us.length ≠ rounds w.length then "bad-op"
      else
        match withInv? us with
        | some us =>
          let pf : IpaProof Fr Fr := ipaProve w b1 b2 (fr r) us
          " ".intercalate (pf.lrs.flatMap (fun lr => [fmtPoint lr.1, fmtPoint lr.2]) ++ [toHex pf.s.val])
        | none => "panic"
    | _, _, _, _, _ => "bad-op"
  | ["ipa-verify", b1, b2, res1, res2, r, us, lrs, s] =>
    -- verdict of `ipa_verify` (everything by discrete logarithm, challenges as recorded)
    match frList? b1, frList? b2, parseNat? res1, parseNat? res2, parseNat? r, frList? us,
        parsePairs? lrs, parseNat? s with
    | some b1, some b2, some res1, some res2, some r, some us, some lrs, some s =>
      if b1.length ≠ b2.length ∨ !isPow2 b1.length then "panic"
      else if us.length ≠ rounds b1.length ∨ lrs.length ≠ us.length then "bad-op"
      else
        match withInv? us with
        | some us => fmtBool (ipaVerify b1 b2 (fr res1) (fr res2) (fr r) us { lrs := lrs, s := fr s })
        | none => "panic"
    | _, _, _, _, _, _, _, _ => "bad-op"
  | _ => "bad-op"

end MidnightZK.C20.Driver

/-- `mzk-c20 < ops.txt > model.txt` : one answer line per request line. -/
def main : IO UInt32 := do
  MidnightZK.lineLoop (← IO.getStdin) (← IO.getStdout) MidnightZK.C20.Driver.answer
  return 0
