import MidnightZK.Model.Common
import MidnightZK.Model.C09.Planner
import MidnightZK.Model.C09.Tables
import MidnightZK.Model.C09.Emitter
import Std.Data.HashMap
/-! Line-protocol handler of property C09.

Requests:
* `selfcheck <what> <circuit>` — harness self-consistency line; the expected answer is `ok`.
* `place K=<consts> U=<u> M=<m> ; <cols>:<rows>:<nconst> …` — region shapes as seen by the real
  layouter's shape pass; answer: the start row of every region (`_` for a region without cells).
* `layout K=… U=… M=… ; <item> ; <item> …` — the region-relative call log of one synthesis;
  answer: region starts, digest of the absolute call sequence, number of calls, cost model
  (`rows`, `trows`, `irows`, `k`), digest of the keygen view (fixed cells and selectors) and
  digest `C` of the copy constraints as a canonical set of (cell, cell) pairs (`copyPairs`,
  sorted, duplicates removed).
* `p2r <max_bit_len> <queried tags>` — answer: number of rows and digest of the `(tag, value)`
  rows of the range table.
* `tables <arch flags> <used flags>` (six 0/1 flags each: sha256 sha512 base64 automaton
  keccak/sha3 blake2b) — answer: the tables `MidnightCircuit::synthesize` loads, in order.
* `cache <c1> <c2> …` — constants passed to `assign_fixed`; answer: cached-cell index per request
  and the values for which a fixed cell was created, in order.
-/
namespace MidnightZK.C09.Driver
open MidnightZK MidnightZK.C09

def P61 : Nat := 2 ^ 61 - 1
def BASE : Nat := 1000003

@[inline] def tok (h t : Nat) : Nat := (h * BASE + t % P61 + 1) % P61
def toks (h : Nat) (ts : List Nat) : Nat := ts.foldl tok h
def tokVal (h v : Nat) : Nat :=
  let m := 2 ^ 64
  toks h [v % m, (v / m) % m, (v / m / m) % m, (v / m / m / m) % m]

def digAbs (h : Nat) : Abs → Nat
  | .enter => tok h 1
  | .exit => tok h 2
  | .sel s r => toks h [3, s, r]
  | .fix c r v => tokVal (toks h [4, c, r]) v
  | .adv c r _ => toks h [5, c, r]
  | .copy a ra b rb => toks h [6, a.kind, a.idx, ra, b.kind, b.idx, rb]
  | .fill c r v => tokVal (toks h [7, c, r]) v
  | .query c r => toks h [8, c, r]

/-! ### parsing -/

def parseCol? (s : String) : Option Col :=
  match s.toList with
  | 'a' :: r => (String.ofList r).toNat?.map (⟨0, ·⟩)
  | 'f' :: r => (String.ofList r).toNat?.map (⟨1, ·⟩)
  | 'i' :: r => (String.ofList r).toNat?.map (⟨2, ·⟩)
  | 's' :: r => (String.ofList r).toNat?.map (⟨3, ·⟩)
  | _ => none

def parseCell? (s : String) : Option Cell :=
  match s.splitOn "." with
  | [r, o, c] => do
    let r ← r.toNat?; let o ← o.toNat?; let c ← parseCol? c
    pure ⟨r, o, c⟩
  | _ => none

/-- `<col>@<off>` and optional `=<hex>`. -/
def parseAt? (s : String) : Option (Nat × Nat × Option Nat) :=
  let (lhs, v) : String × Option String :=
    match s.splitOn "=" with
    | [l] => (l, none)
    | [l, v] => (l, some v)
    | _ => ("", none)
  match lhs.splitOn "@" with
  | [c, o] => do
    let c ← c.toNat?; let o ← o.toNat?
    match v with
    | none => pure (c, o, none)
    | some v => do let v ← parseNat? v; pure (c, o, some v)
  | _ => none

def parseEv? (s : String) : Option Ev :=
  let body := (s.drop 1).toString
  match s.toList.head? with
  | some 's' => do let (c, o, v) ← parseAt? body; if v.isSome then none else pure (.sel c o)
  | some 'f' => do let (c, o, v) ← parseAt? body; let v ← v; pure (.fix c o v)
  | some 'a' => do let (c, o, v) ← parseAt? body; pure (.adv c o v)
  | some 'k' => do let (c, o, v) ← parseAt? body; let v ← v; pure (.advConst c o v)
  | some 'n' =>
    match body.splitOn ">" with
    | [i, a] =>
      match i.splitOn "." with
      | [ic, ir] => do
        let ic ← ic.toNat?; let ir ← ir.toNat?
        let (c, o, v) ← parseAt? a
        if v.isSome then none else pure (.advInst ic ir c o)
      | _ => none
    | _ => none
  | some 'c' =>
    match body.splitOn "=" with
    | [cell, v] => do let cell ← parseCell? cell; let v ← parseNat? v; pure (.const cell v)
    | _ => none
  | some 'e' =>
    match body.splitOn "~" with
    | [l, r] => do let l ← parseCell? l; let r ← parseCell? r; pure (.equal l r)
    | _ => none
  | some 'q' =>
    match body.splitOn "." with
    | [ic, ir] => do let ic ← ic.toNat?; let ir ← ir.toNat?; pure (.instVal ic ir)
    | _ => none
  | _ => none

def parseItem? (s : String) : Option Item :=
  match words s with
  | "R" :: evs => (evs.mapM parseEv?).map .region
  | "T" :: cells =>
    (cells.mapM (fun (t : String) => do
      let body := (t.drop 1).toString
      if t.toList.head? != some 'f' then none
      let (c, o, v) ← parseAt? body
      let v ← v
      pure (c, o, v))).map .table
  | ["I", cell, ic, ir] => do
    let cell ← parseCell? cell; let ic ← ic.toNat?; let ir ← ir.toNat?
    pure (.inst cell ic ir)
  | _ => none

structure Hdr where
  cfg : Cfg
  u : Nat
  m : Nat

def parseHdr? (s : String) : Option Hdr :=
  match words s with
  | [_, k, u, m] => do
    if !(k.startsWith "K=" && u.startsWith "U=" && m.startsWith "M=") then none
    let ks ← parseNatList? (k.drop 2).toString
    let u ← (u.drop 2).toString.toNat?
    let m ← (m.drop 2).toString.toNat?
    pure ⟨⟨ks⟩, u, m⟩
  | _ => none

def fmtStarts (l : List (Option Nat)) : String :=
  if l.isEmpty then "-" else
  ",".intercalate (l.map (fun x => match x with | some n => toString n | none => "_"))

/-! ### requests -/

def parseShape? (s : String) : Option ItemShape :=
  match s.splitOn ":" with
  | [cols, rows, n] => do
    let cols ← if cols = "-" then some [] else (cols.splitOn ",").mapM parseCol?
    let rows ← rows.toNat?; let n ← n.toNat?
    pure (.region ⟨cols, rows⟩ n)
  | _ => none

def answerPlace (hdr shapes : String) : String :=
  match parseHdr? hdr, (words shapes).mapM parseShape? with
  | some h, some shs =>
    let sts := placeAll h.cfg shs
    let empt := shs.map (fun s => match s with | .region sh _ => sh.cols.isEmpty | .other => true)
    fmtStarts ((sts.zip empt).map (fun p => if p.2 then none else some p.1))
  | _, _ => "bad-op"

/-- Digest of the keygen view: fixed cells (last write wins, fills expanded up to the usable
rows) in (column, row) order, then the enabled selector cells in (selector, row) order. -/
def viewDigest (usable : Nat) (view : List Abs) : Nat :=
  let fixed : Std.HashMap (Nat × Nat) Nat := view.foldl (fun m a =>
    match a with
    | .fix c r v => m.insert (c, r) v
    | .fill c r v => (List.range (usable - r)).foldl (fun m i => m.insert (c, r + i) v) m
    | _ => m) {}
  let sels : Std.HashMap (Nat × Nat) Unit := view.foldl (fun m a =>
    match a with
    | .sel s r => m.insert (s, r) ()
    | _ => m) {}
  let lt (a b : Nat × Nat) : Bool := a.1 < b.1 || (a.1 == b.1 && a.2 < b.2)
  let fa := (fixed.toArray.filter (fun x => x.1.2 < usable)).qsort (fun a b => lt a.1 b.1)
  let sa := ((sels.toArray.map (·.1)).filter (fun x => x.2 < usable)).qsort lt
  let h := fa.foldl (fun h x => tokVal (toks h [x.1.1, x.1.2]) x.2) 0
  let h := tok h 0
  sa.foldl (fun h x => toks h [x.1, x.2]) h

def listLt : List Nat → List Nat → Bool
  | [], [] => false
  | [], _ :: _ => true
  | _ :: _, [] => false
  | a :: as, b :: bs => a < b || (a == b && listLt as bs)

/-- Digest of the copy constraints as a set: canonical pairs (`copyPairs`), sorted
lexicographically, duplicates removed. -/
def copyDigest (cs : List Abs) : Nat :=
  let ps := (copyPairs cs).map (fun p => [p.1.1.kind, p.1.1.idx, p.1.2, p.2.1.kind, p.2.1.idx, p.2.2])
  let arr := ps.toArray.qsort listLt
  let (h, _) := arr.foldl (fun (acc : Nat × Option (List Nat)) p =>
    if acc.2 == some p then acc else (toks acc.1 p, some p)) (0, none)
  h

def answerLayout (hdr : String) (items : List String) : String :=
  match parseHdr? hdr, items.mapM parseItem? with
  | some h, some its =>
    let r := layout h.cfg its
    if r.1.err then "error NotEnoughColumnsForConstants" else
    let sts := r.1.starts.toList
    let empt := its.filterMap (fun it =>
      match it with | .region evs => some (shapeOf evs).cols.isEmpty | _ => none)
    let stsS := fmtStarts ((sts.zip empt).map (fun p => if p.2 then none else some p.1))
    let digs := r.2.map (fun cs => cs.foldl digAbs 0)
    let H := digs.foldl tok 0
    let all := r.2.flatten
    let c := costOf all
    let k := circuitK h.u h.m c
    let V := viewDigest (2 ^ k - h.u) (keygenView all)
    s!"starts={stsS} H={H} n={all.length} rows={c.1} trows={c.2.1} irows={c.2.2} k={k} V={V} C={copyDigest all}"
  | _, _ => "bad-op"

def answerCache (cs : List String) : String :=
  match cs.mapM parseNat? with
  | some cs =>
    let r := cacheRun [] cs
    s!"{fmtNatList r.2} ; {fmtHexList r.1}"
  | none => "bad-op"

def answerP2r (ws : List String) : String :=
  match ws with
  | [m, q] =>
    match m.toNat?, parseNatList? q with
    | some m, some q =>
      let rows := pow2rangeRows m q
      s!"n={rows.length} D={rows.foldl (fun h r => tok (tok h r.1) r.2) 0}"
    | _, _ => "bad-op"
  | _ => "bad-op"

def parseChips? (s : String) : Option Chips :=
  match s.toList with
  | [a, b, c, d, e, f] =>
    if [a, b, c, d, e, f].all (fun x => x == '0' || x == '1') then
      some ⟨a == '1', b == '1', c == '1', d == '1', e == '1', f == '1'⟩
    else none
  | _ => none

def answerTables (ws : List String) : String :=
  match ws with
  | [a, u] =>
    match parseChips? a, parseChips? u with
    | some a, some u => " ".intercalate (stdlibTables a u)
    | _, _ => "bad-op"
  | _ => "bad-op"

def answer (line : String) : String :=
  let parts := line.trimAscii.toString.splitOn " ; "
  match parts with
  | [] => "bad-op"
  | hdr :: rest =>
    match words hdr with
    | "selfcheck" :: _ => "ok"
    | "place" :: _ => answerPlace hdr (" ".intercalate rest)
    | "layout" :: _ => answerLayout hdr rest
    | "cache" :: cs => if rest.isEmpty then answerCache cs else "bad-op"
    | "p2r" :: ws => if rest.isEmpty then answerP2r ws else "bad-op"
    | "tables" :: ws => if rest.isEmpty then answerTables ws else "bad-op"
    | _ => "bad-op"

end MidnightZK.C09.Driver

/-- `mzk-c09 < ops.txt > model.txt` : one answer line per request line. -/
def main : IO UInt32 := do
  MidnightZK.lineLoop (← IO.getStdin) (← IO.getStdout) MidnightZK.C09.Driver.answer
  return 0
