import MidnightZK.Model.Common
/-! Line-protocol handler of property C09 (stub: answers `unimplemented`). -/
namespace MidnightZK.C09.Driver

def answer (_line : String) : String := "unimplemented"

end MidnightZK.C09.Driver

/-- `mzk-c09 < ops.txt > model.txt` : one answer line per request line. -/
def main : IO UInt32 := do
  MidnightZK.lineLoop (← IO.getStdin) (← IO.getStdout) MidnightZK.C09.Driver.answer
  return 0
