import MidnightZK.Model.Common
/-! Line-protocol handler of property C09 (stub: answers `unimplemented`). -/
namespace MidnightZK.C09.Driver

def answer (_line : String) : String := "unimplemented"

end MidnightZK.C09.Driver
