import MidnightZK.Model.Common
/-! Line-protocol handler of property C13 (stub: answers `unimplemented`). -/
namespace MidnightZK.C13.Driver

def answer (_line : String) : String := "unimplemented"

end MidnightZK.C13.Driver

/-- `mzk-c13 < ops.txt > model.txt` : one answer line per request line. -/
def main : IO UInt32 := do
  MidnightZK.lineLoop (← IO.getStdin) (← IO.getStdout) MidnightZK.C13.Driver.answer
  return 0
