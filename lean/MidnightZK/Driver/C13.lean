import MidnightZK.Model.Common
import MidnightZK.Model.C13.Tower
import MidnightZK.Model.C13.Curves
import MidnightZK.Model.C13.BnPairing
/-! Line-protocol handler of property C13. -/
namespace MidnightZK.C13.Driver
open MidnightZK MidnightZK.C13

def fmtEl (l : List Nat) : String := ",".intercalate (l.map toHex)
def fmtOpt (l : Option (List Nat)) : String :=
  match l with
  | some l => fmtEl l
  | none => "bad-op"

/-- Operations on `Fp2` of one curve. `specSqr`: the squaring is a blst routine (modelled by its
specification) rather than Rust code. -/
def t2Op {m : Nat} [NonRes (Zn m)] [NonRes (Quad (Zn m))] [Frob (Quad (Zn m))] (bn : Bool)
    (op : String) (args : List (List Nat)) (k : Nat) : Option String := do
  let a ← fp2OfList? m (← args[0]?)
  let out (x : Quad (Zn m)) : Option String := some (fmtEl (fp2ToList x))
  let bin (f : Quad (Zn m) → Quad (Zn m) → Quad (Zn m)) : Option String := do
    let b ← fp2OfList? m (← args[1]?)
    out (f a b)
  match op with
  | "add" => bin (· + ·)
  | "sub" => bin (· - ·)
  | "mul" => bin (· * ·)
  | "neg" => out (-a)
  | "dbl" => out (Quad.double a)
  | "sqr" => out (if bn then Quad.sqrComplex a else a * a)
  | "inv" => if a = 0 then some "none" else out a⁻¹
  | "nr" => out (NonRes.mulNR a)
  | "conj" => if bn then out (Quad.conj a) else none
  | "frob" => out (Frob.frob k a)
  | _ => none

def t6Op {m : Nat} [NonRes (Zn m)] [NonRes (Quad (Zn m))] [Frob (Quad (Zn m))] [FrobCoeffs (Quad (Zn m))]
    (bn : Bool) (op : String) (args : List (List Nat)) (k : Nat) : Option String := do
  let a ← fp6OfList? m (← args[0]?)
  let out (x : Cubic (Quad (Zn m))) : Option String := some (fmtEl (fp6ToList x))
  let bin (f : Cubic (Quad (Zn m)) → Cubic (Quad (Zn m)) → Cubic (Quad (Zn m))) : Option String := do
    let b ← fp6OfList? m (← args[1]?)
    out (f a b)
  match op with
  | "add" => bin (· + ·)
  | "sub" => bin (· - ·)
  | "mul" => bin (if bn then Cubic.mulK else Cubic.mulBls)
  | "neg" => out (-a)
  | "sqr" => out (Cubic.sqrK a)
  | "inv" => if a = 0 then some "none" else out a⁻¹
  | "nr" => out (NonRes.mulNR a)
  | "frob" => out (Frob.frob k a)
  | "mul1" =>
    if bn then (do
      let e ← args[1]?
      out (Cubic.mulBy1 a (← fp2OfList? m e)))
    else none
  | "mul01" =>
    if bn then (do
      let e ← args[1]?
      out (Cubic.mulBy01 a (← fp2OfList? m (e.take 2)) (← fp2OfList? m (e.drop 2))))
    else none
  | _ => none

def t12Op {m : Nat} [NonRes (Zn m)] [NonRes (Quad (Zn m))] [Frob (Quad (Zn m))] [FrobCoeffs (Quad (Zn m))]
    (bn : Bool) (op : String) (args : List (List Nat)) (k : Nat) : Option String := do
  let a ← fp12OfList? m (← args[0]?)
  let out (x : Tower12 (Quad (Zn m))) : Option String := some (fmtEl (fp12ToList x))
  let bin (f : Tower12 (Quad (Zn m)) → Tower12 (Quad (Zn m)) → Tower12 (Quad (Zn m))) : Option String := do
    let b ← fp12OfList? m (← args[1]?)
    out (f a b)
  let sparse (f : Tower12 (Quad (Zn m)) → Quad (Zn m) → Quad (Zn m) → Quad (Zn m) → Tower12 (Quad (Zn m))) :
      Option String := do
    let e ← args[1]?
    out (f a (← fp2OfList? m (e.take 2)) (← fp2OfList? m ((e.drop 2).take 2)) (← fp2OfList? m (e.drop 4)))
  match op with
  | "add" => bin (· + ·)
  | "sub" => bin (· - ·)
  | "mul" => bin (· * ·)
  | "neg" => out (-a)
  | "sqr" => out (if bn then Quad.sqrK a else a * a)
  | "inv" => if a = 0 then some "none" else out a⁻¹
  | "conj" => out (Quad.conj a)
  | "frob" => out (Frob.frob k a)
  | "cyc" => if bn then out (cyclotomicSquare a) else none
  | "mul014" => if bn then sparse mulBy014 else none
  | "mul034" => if bn then sparse mulBy034 else none
  | _ => none

/-- `t2|t6|t12 <curve> <op> <operand> [<operand>|<extra>] [<power>]`. -/
def towerAnswer (level cv op : String) (rest : List String) : String :=
  let isPow := op = "frob"
  let (argStrs, kStr) := if isPow then (rest.dropLast, rest.getLast?) else (rest, none)
  match argStrs.mapM parseNatList?, (if isPow then kStr.bind String.toNat? else some 0) with
  | some args, some k =>
    let r : Option String :=
      match cv, level with
      | "bn", "t2" => t2Op (m := Gen.bnP) true op args k
      | "bn", "t6" => t6Op (m := Gen.bnP) true op args k
      | "bn", "t12" => t12Op (m := Gen.bnP) true op args k
      | "bls", "t2" => t2Op (m := Gen.blsP) false op args k
      | "bls", "t6" => t6Op (m := Gen.blsP) false op args k
      | "bls", "t12" => t12Op (m := Gen.blsP) false op args k
      | _, _ => none
    r.getD "bad-op"
  | _, _ => "bad-op"

def answer (line : String) : String :=
  match words line with
  | level :: cv :: op :: rest =>
    if level = "t2" ∨ level = "t6" ∨ level = "t12" then towerAnswer level cv op rest
    else "bad-op"
  | _ => "bad-op"

end MidnightZK.C13.Driver

/-- `mzk-c13 < ops.txt > model.txt` : one answer line per request line. -/
def main : IO UInt32 := do
  MidnightZK.lineLoop (← IO.getStdin) (← IO.getStdout) MidnightZK.C13.Driver.answer
  return 0
