import MidnightZK.Model.Common
import MidnightZK.Model.C13.Tower
import MidnightZK.Model.C13.Curves
import MidnightZK.Model.C13.BnPairing
import MidnightZK.Model.C13.Engine
import MidnightZK.Model.C13.Ate
import Std.Data.HashMap
/-! Line-protocol handler of property C13. -/
namespace MidnightZK.C13.Driver
open MidnightZK MidnightZK.C13

def fmtEl (l : List Nat) : String := ",".intercalate (l.map toHex)
def fmtOpt (l : Option (List Nat)) : String :=
  match l with
  | some l => fmtEl l
  | none => "bad-op"

/-- Operations on `Fp2` of one curve. `specSqr`: the squaring is a blst routine (modelled by its
specification) rather than Rust code. -/
def t2Op {m : Nat} [NonRes (Zn m)] [NonRes (Quad (Zn m))] [Frob (Quad (Zn m))] (bn : Bool)
    (op : String) (args : List (List Nat)) (k : Nat) : Option String := do
  let a ← fp2OfList? m (← args[0]?)
  let out (x : Quad (Zn m)) : Option String := some (fmtEl (fp2ToList x))
  let bin (f : Quad (Zn m) → Quad (Zn m) → Quad (Zn m)) : Option String := do
    let b ← fp2OfList? m (← args[1]?)
    out (f a b)
  match op with
  | "add" => bin (· + ·)
  | "sub" => bin (· - ·)
  | "mul" => bin (· * ·)
  | "neg" => out (-a)
  | "dbl" => out (Quad.double a)
  | "sqr" => out (if bn then Quad.sqrComplex a else a * a)
  | "inv" => if a = 0 then some "none" else out a⁻¹
  | "nr" => out (NonRes.mulNR a)
  | "conj" => if bn then out (Quad.conj a) else none
  | "frob" => out (Frob.frob k a)
  | _ => none

def t6Op {m : Nat} [NonRes (Zn m)] [NonRes (Quad (Zn m))] [Frob (Quad (Zn m))] [FrobCoeffs (Quad (Zn m))]
    (bn : Bool) (op : String) (args : List (List Nat)) (k : Nat) : Option String := do
  let a ← fp6OfList? m (← args[0]?)
  let out (x : Cubic (Quad (Zn m))) : Option String := some (fmtEl (fp6ToList x))
  let bin (f : Cubic (Quad (Zn m)) → Cubic (Quad (Zn m)) → Cubic (Quad (Zn m))) : Option String := do
    let b ← fp6OfList? m (← args[1]?)
    out (f a b)
  match op with
  | "add" => bin (· + ·)
  | "sub" => bin (· - ·)
  | "mul" => bin (if bn then Cubic.mulK else Cubic.mulBls)
  | "neg" => out (-a)
  | "sqr" => out (Cubic.sqrK a)
  | "inv" => if a = 0 then some "none" else out a⁻¹
  | "nr" => out (NonRes.mulNR a)
  | "frob" => out (Frob.frob k a)
  | "mul1" =>
    if bn then (do
      let e ← args[1]?
      out (Cubic.mulBy1 a (← fp2OfList? m e)))
    else none
  | "mul01" =>
    if bn then (do
      let e ← args[1]?
      out (Cubic.mulBy01 a (← fp2OfList? m (e.take 2)) (← fp2OfList? m (e.drop 2))))
    else none
  | _ => none

def t12Op {m : Nat} [NonRes (Zn m)] [NonRes (Quad (Zn m))] [Frob (Quad (Zn m))] [FrobCoeffs (Quad (Zn m))]
    (bn : Bool) (op : String) (args : List (List Nat)) (k : Nat) : Option String := do
  let a ← fp12OfList? m (← args[0]?)
  let out (x : Tower12 (Quad (Zn m))) : Option String := some (fmtEl (fp12ToList x))
  let bin (f : Tower12 (Quad (Zn m)) → Tower12 (Quad (Zn m)) → Tower12 (Quad (Zn m))) : Option String := do
    let b ← fp12OfList? m (← args[1]?)
    out (f a b)
  let sparse (f : Tower12 (Quad (Zn m)) → Quad (Zn m) → Quad (Zn m) → Quad (Zn m) → Tower12 (Quad (Zn m))) :
      Option String := do
    let e ← args[1]?
    out (f a (← fp2OfList? m (e.take 2)) (← fp2OfList? m ((e.drop 2).take 2)) (← fp2OfList? m (e.drop 4)))
  match op with
  | "add" => bin (· + ·)
  | "sub" => bin (· - ·)
  | "mul" => bin (· * ·)
  | "neg" => out (-a)
  | "sqr" => out (if bn then Quad.sqrK a else a * a)
  | "inv" => if a = 0 then some "none" else out a⁻¹
  | "conj" => out (Quad.conj a)
  | "frob" => out (Frob.frob k a)
  | "cyc" => if bn then out (cyclotomicSquare a) else none
  | "mul014" => if bn then sparse mulBy014 else none
  | "mul034" => if bn then sparse mulBy034 else none
  | _ => none

/-- `t2|t6|t12 <curve> <op> <operand> [<operand>|<extra>] [<power>]`. -/
def towerAnswer (level cv op : String) (rest : List String) : String :=
  let isPow := op = "frob"
  let (argStrs, kStr) := if isPow then (rest.dropLast, rest.getLast?) else (rest, none)
  match argStrs.mapM parseNatList?, (if isPow then kStr.bind String.toNat? else some 0) with
  | some args, some k =>
    let r : Option String :=
      match cv, level with
      | "bn", "t2" => t2Op (m := Gen.bnP) true op args k
      | "bn", "t6" => t6Op (m := Gen.bnP) true op args k
      | "bn", "t12" => t12Op (m := Gen.bnP) true op args k
      | "bls", "t2" => t2Op (m := Gen.blsP) false op args k
      | "bls", "t6" => t6Op (m := Gen.blsP) false op args k
      | "bls", "t12" => t12Op (m := Gen.blsP) false op args k
      | _, _ => none
    r.getD "bad-op"
  | _, _ => "bad-op"

/-! ## Pairing-level requests, answered from discrete logarithms

Points are `x·G1`, `y·G2`; `e(xG1, yG2) = gT^(xy)` with `gT = e(G1, G2)`: for BLS12-381 the constant
`Gt::generator()` of `gt.rs`, for BN254 the value the mirrored Miller loop + final exponentiation
give on the generators. -/

section
variable {m : Nat} [NonRes (Zn m)] [NonRes (Quad (Zn m))]

abbrev T12 (m : Nat) := Tower12 (Quad (Zn m))

def gtPow (g : T12 m) (k : Nat) : T12 m := powBits (· * ·) 1 g k

/-- `x1:y1,x2:y2,…` (hex with prefix) or `-`. -/
def parsePairs (s : String) : Option (List (Nat × Nat)) :=
  if s = "-" then some [] else
  (s.splitOn ",").mapM (fun t =>
    match t.splitOn ":" with
    | [a, b] => do pure (← parseNat? a, ← parseNat? b)
    | _ => none)

/-- Product of pairings through the control flow of the engine's `multi_miller_loop`. -/
def ppModel (bls : Bool) (r : Nat) (gT : T12 m) (pairs : List (Nat × Nat)) : T12 m :=
  let pairs := pairs.map (fun t => (t.1 % r, t.2 % r))
  let miller (x y : Nat) : T12 m := gtPow gT (x * y % r)
  if bls then
    -- prepared points as the entry points use them: `G2Prepared::from` (the "lines" of `y·G2` are
    -- represented by `[y]`), then the loop over prepared terms testing the `infinity` flag
    multiMillerLoopPrepared (· == 0) (fun x ls => miller x (ls.headD 0))
      (pairs.map (fun t => (t.1, g2Prepare (· == 0) (fun y => [y]) t.2)))
  else (filterIdentityTerms (· == 0) (· == 0) pairs).foldl (fun acc t => acc * miller t.1 t.2) 1

/-- The squaring behind `Gt::double`: blst `fp12_sqr` (specified as `f·f`) / `Fq12::square`. -/
def gtDouble (bls : Bool) (f : T12 m) : T12 m := if bls then f * f else Quad.sqrK f

def gtOp (bls : Bool) (op : String) (a : T12 m) (b : Option (T12 m)) : Option (T12 m) :=
  match op, b with
  | "add", some b => some (a * b)
  | "sub", some b => some (a * Quad.conj b)
  | "neg", none => some (Quad.conj a)
  | "dbl", none => some (gtDouble bls a)
  | _, _ => none
end

/-- `e(G1, G2)` of BN254 according to the mirrored code. -/
def bnGt : BnFq12 :=
  let g1 : Bn.G1A := some (Zn.ofNat _ Gen.bnG1Gen.1, Zn.ofNat _ Gen.bnG1Gen.2)
  let g2 : Bn.G2A := some (pairToFq2 Gen.bnG2GenX, pairToFq2 Gen.bnG2GenY)
  (Bn.pairing g1 g2).getD 1

def fmt12 {m : Nat} (x : T12 m) : String := fmtEl (fp12ToList x)

/-- `x,y` / `inf` and `x0,x1,y0,y1` / `inf`, separated by `|`. -/
def parsePointPair (m : Nat) (s : String) :
    Option (Option (Zn m × Zn m) × Option (Quad (Zn m) × Quad (Zn m))) :=
  match s.splitOn "|" with
  | [p, q] => do
    let p ← (if p = "inf" then some none else do
      match ← parseNatList? p with
      | [x, y] => some (some (Zn.ofNat m x, Zn.ofNat m y))
      | _ => none)
    let q ← (if q = "inf" then some none else do
      match ← parseNatList? q with
      | [x0, x1, y0, y1] => some (some (pairToFq2 (x0, x1), pairToFq2 (y0, y1)))
      | _ => none)
    pure (p, q)
  | _ => none

def parseTerms (m : Nat) (s : String) :
    Option (List (Option (Zn m × Zn m) × Option (Quad (Zn m) × Quad (Zn m)))) :=
  if s = "-" then some [] else (s.splitOn ";").mapM (parsePointPair m)

/-- `s1:b1,s2:b2,…` as scalars / discrete logarithms modulo `r`. -/
def parseMsm (r : Nat) (s : String) : Option (List (Zn r) × List (Zn r)) := do
  let l ← parsePairs s
  pure (l.map (fun t => Zn.ofNat r t.1), l.map (fun t => Zn.ofNat r t.2))

/-- `DualMSM::check` on discrete logarithms: G1 = `Zn r` (additive), `[σ]₂` and `−[γ]₂` as logs,
Miller loop + final exponentiation = `gT^(Σ …)` through the BLS `multi_miller_loop` control flow. -/
def dualModel (ls rs : String) (sigma gamma : Nat) : Option String := do
  let r := Gen.blsR
  let (lsc, lb) ← parseMsm r ls
  let (rsc, rb) ← parseMsm r rs
  let mml (terms : List (Zn r × Nat)) : BlsFp12 :=
    ppModel true r Bls.gtGenerator (terms.map (fun t => (t.1.val, t.2)))
  match dualMsmCheck (S := Zn r) (G := Zn r) (fun s b => s * b) mml id (· == 1) lsc lb rsc rb
      (sigma % r) ((r - gamma % r) % r) with
  | some b => some (fmtBool b)
  | none => some "panic"

def pairingAnswer (ws : List String) : Option String :=
  match ws with
  | ["bn-miller", terms] => do
    let terms ← parseTerms Gen.bnP terms
    some (fmt12 (Bn.multiMillerLoop terms))
  | ["bn-fexp", f] => do
    let f ← fp12OfList? Gen.bnP (← parseNatList? f)
    match Bn.finalExponentiation f with
    | some g => some (fmt12 g)
    | none => some "panic"
  | ["bn-fexp-naive", f] => do
    let f ← fp12OfList? Gen.bnP (← parseNatList? f)
    some (fmt12 (Bn.finalExpNaive f))
  | ["bls-ate", pq] => do
    let (p, q) ← parsePointPair Gen.blsP pq
    some (fmt12 (Bls.pairing p q))
  | ["bn-ate", pq] => do
    let (p, q) ← parsePointPair Gen.bnP pq
    some (fmt12 (BnAte.pairing p q))
  | ["gtgen", "bls"] => some (fmt12 Bls.gtGenerator)
  | ["prep", cv, y] => do
    let y ← parseNat? y
    match cv with
    | "bls" => some (fmtBool (g2Prepare (· == 0) (fun y => [y]) (y % Gen.blsR)).isIdentity)
    -- BN254: `G2Prepared = G2Affine`, `is_identity` of the point itself
    | "bn" => some (fmtBool (y % Gen.bnR == 0))
    | _ => none
  | ["dual", "bls", ls, rs, sigma, gamma] => do
    dualModel ls rs (← parseNat? sigma) (← parseNat? gamma)
  | ["pp", cv, _entry, pairs] => do
    let pairs ← parsePairs pairs
    match cv with
    | "bls" => some (fmt12 (ppModel true Gen.blsR Bls.gtGenerator pairs))
    | "bn" => some (fmt12 (ppModel false Gen.bnR bnGt pairs))
    | _ => none
  | ["bilin", cv, a, b, x, y] => do
    let a ← parseNat? a; let b ← parseNat? b; let x ← parseNat? x; let y ← parseNat? y
    match cv with
    | "bls" => some (fmt12 (gtPow Bls.gtGenerator ((a * x % Gen.blsR) * (b * y % Gen.blsR) % Gen.blsR)))
    | "bn" => some (fmt12 (gtPow bnGt ((a * x % Gen.bnR) * (b * y % Gen.bnR) % Gen.bnR)))
    | _ => none
  | ["gtmul", cv, f, k] => do
    let f ← parseNatList? f; let k ← parseNat? k
    match cv with
    | "bls" => do
      let f ← fp12OfList? Gen.blsP f
      some (fmt12 (gtMulBits (· * ·) (gtDouble true) 1 f (natToBytesBE 32 k)))
    | "bn" => do
      let f ← fp12OfList? Gen.bnP f
      some (fmt12 (gtMulBits (· * ·) (gtDouble false) 1 f (natToBytesBE 32 k)))
    | _ => none
  | "gt" :: cv :: op :: a :: rest => do
    let a ← parseNatList? a
    let b ← (match rest with
      | [] => some none
      | [b] => (parseNatList? b).map some
      | _ => none)
    match cv with
    | "bls" => do
      let a ← fp12OfList? Gen.blsP a
      let b ← (match b with | none => some none | some b => (fp12OfList? Gen.blsP b).map some)
      (gtOp true op a b).map fmt12
    | "bn" => do
      let a ← fp12OfList? Gen.bnP a
      let b ← (match b with | none => some none | some b => (fp12OfList? Gen.bnP b).map some)
      (gtOp false op a b).map fmt12
    | _ => none
  | ["order", cv, f] => do
    let f ← parseNatList? f
    match cv with
    | "bls" => do
      let f ← fp12OfList? Gen.blsP f
      some (fmtBool (gtPow f Gen.blsR == 1))
    | "bn" => do
      let f ← fp12OfList? Gen.bnP f
      some (fmtBool (gtPow f Gen.bnR == 1))
    | _ => none
  | _ => none

def answer (line : String) : String :=
  match words line with
  | level :: cv :: op :: rest =>
    if level = "t2" ∨ level = "t6" ∨ level = "t12" then towerAnswer level cv op rest
    else (pairingAnswer (level :: cv :: op :: rest)).getD "bad-op"
  | ws => (pairingAnswer ws).getD "bad-op"

/-- Cache of `pp` answers: the same list is requested once per entry point. -/
abbrev Cache := Std.HashMap String String

def answerSt (c : Cache) (line : String) : Cache × String :=
  match words line with
  | ["pp", cv, entry, pairs] =>
    let key := cv ++ " " ++ pairs
    match c.get? key with
    | some a => (c, a)
    | none =>
      let a := answer ("pp " ++ cv ++ " " ++ entry ++ " " ++ pairs)
      (c.insert key a, a)
  | _ => (c, answer line)

end MidnightZK.C13.Driver

/-- `mzk-c13 < ops.txt > model.txt` : one answer line per request line. -/
def main : IO UInt32 := do
  MidnightZK.lineLoopSt (← IO.getStdin) (← IO.getStdout) MidnightZK.C13.Driver.answerSt {}
  return 0
