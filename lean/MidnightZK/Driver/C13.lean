import MidnightZK.Model.Common
/-! Line-protocol handler of property C13 (stub: answers `unimplemented`). -/
namespace MidnightZK.C13.Driver

def answer (_line : String) : String := "unimplemented"

end MidnightZK.C13.Driver
