import MidnightZK.Model.Common
/-! Line-protocol handler of property C04 (stub: answers `unimplemented`). -/
namespace MidnightZK.C04.Driver

def answer (_line : String) : String := "unimplemented"

end MidnightZK.C04.Driver
