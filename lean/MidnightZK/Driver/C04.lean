import Std.Data.HashMap
import MidnightZK.Model.Common
import MidnightZK.Model.C04.Interp
import MidnightZK.Gen.C04Gates
/-! Line-protocol handler of property C04.

* `trace <nr_cols> <max_bit_len> ; op … ; op …` — canonical structure of the synthesis of the
  program (regions, selectors, fixed cells, copy constraints, table) and the cells of its
  variables, and the content of the bound cache of `NativeGadget` (`B[cell<bound …]`, compared
  with the real `constrained_cells` read through the hook `verif_constrained_cells`);
* `eval <hdr> ; <inputs>` — the value of every variable according to the specification;
* `check <hdr> ; <advice values in canonical cell order>` — does the model's constraint system
  accept this assignment (1/0).
-/
namespace MidnightZK.C04.Driver
open MidnightZK MidnightZK.C04

abbrev P : Nat := Gen.nativeModulus
instance : NeZero P := ⟨by decide⟩
abbrev Fp := Fin P

def fi : FieldInfo := { p := P, numBits := Gen.nativeNumBits }
def ofN (n : Nat) : Fp := Fin.ofNat P n

def parseHeader (toks : List String) : Option (RunSt Fp × List (List String)) :=
  match splitOps toks with
  | [nr, mbl] :: ops => do
    let nr ← parseNat? nr
    let mbl ← parseNat? mbl
    if nr = 0 ∨ nr > 4 then none else
    some ({ st := St.init nr mbl }, ops)
  | _ => none

def renderVars (vars : Array Var) : String :=
  s!"O[{" ".intercalate (vars.toList.map (fun v => s!"{v.ty.render}:{v.cell.render}"))}]"

def trace (toks : List String) : String :=
  match parseHeader toks with
  | none => "bad-op"
  | some (r0, ops) =>
    match runOpsM fi ofN r0 none ops with
    | none => "bad-op"
    | some r => s!"{r.st.render (fun (x : Fp) => x.val)} {renderVars r.vars} {renderBounds r.st.bounds}"

def eval (toks : List String) : String :=
  match splitOps toks with
  | [_nr, _mbl] :: rest =>
    match rest.reverse with
    | [ins] :: opsRev =>
      match parseNatList? ins with
      | none => "bad-op"
      | some inputs =>
        match evalOpsM fi #[] inputs [] opsRev.reverse with
        | none => "bad-op"
        | some vals => fmtHexList vals.toList
    | _ => "bad-op"
  | _ => "bad-op"

/-- Advice cells of a state in canonical order (region, offset, column). -/
def adviceCells (s : St Fp) : List Cell :=
  let rs := s.regions.reverse
  rs.zipIdx.flatMap (fun (rows, k) =>
    rows.zipIdx.flatMap (fun (row, off) =>
      (row.adv.mergeSort (· ≤ ·)).map (fun i => (⟨k, off, .adv i⟩ : Cell))))

def fixedCells (s : St Fp) : List (Cell × Fp) :=
  let rs := s.regions.reverse
  rs.zipIdx.flatMap (fun (rows, k) =>
    rows.zipIdx.filterMap (fun (row, off) =>
      row.fixedVal.map (fun v => ((⟨k, off, .fix fixedValuesCol⟩ : Cell), v))))

def cellKey (c : Cell) : Nat :=
  match c.col with
  | .adv i => (c.region * 4096 + c.off) * 32 + i
  | .fix i => (c.region * 4096 + c.off) * 32 + 16 + i

def check (toks : List String) : String :=
  match splitOps toks with
  | [nr, mbl] :: rest =>
    match rest.reverse with
    | [vals] :: opsRev =>
      match parseHeader ([nr, mbl] ++ (opsRev.reverse.flatMap (fun o => ";" :: o))), parseNatList? vals with
      | some (r0, ops), some vals =>
        match runOpsM fi ofN r0 none ops with
        | none => "bad-op"
        | some r =>
          let cells := adviceCells r.st
          if cells.length ≠ vals.length then s!"bad-assignment {cells.length}" else
          let m : Std.HashMap Nat Fp := (cells.zip vals).foldl (fun m (c, v) => m.insert (cellKey c) (ofN v)) {}
          let m := (fixedCells r.st).foldl (fun m (c, v) => m.insert (cellKey c) v) m
          let asg : Cell → Fp := fun c => m.getD (cellKey c) 0
          fmtBool (r.st.holdsB (fun t (v : Fp) => decide (v.val < 2 ^ t)) asg)
      | _, _ => "bad-op"
    | _ => "bad-op"
  | _ => "bad-op"

/-- Executable form of `OptOK` (Proofs/C04/Range2.lean) for every bit length `0..numBits-1`:
every row of the optimal limb sizes is a non-empty run of one bit length `≤ max_bit_len`, at most
`nr` long, and the sizes add up to the bit length. -/
def optOkAll (nr mbl : Nat) : Bool :=
  let t := optTable nr mbl (fi.numBits - 1)
  (List.range fi.numBits).all (fun b =>
    let rows := t.getD b []
    rows.all (fun r => match r with
      | [] => false
      | x :: _ => decide (1 ≤ x ∧ x ≤ mbl ∧ r.length ≤ nr) && r.all (· = x)) &&
    decide ((rows.map List.sum).sum = b))

def optok (toks : List String) : String :=
  match toks with
  | [nr, mbl] =>
    match parseNat? nr, parseNat? mbl with
    | some nr, some mbl => if nr = 0 ∨ nr > 4 ∨ mbl = 0 then "bad-op" else fmtBool (optOkAll nr mbl)
    | _, _ => "bad-op"
  | _ => "bad-op"

def answer (line : String) : String :=
  match words line with
  | "trace" :: rest => trace rest
  | "eval" :: rest => eval rest
  | "check" :: rest => check rest
  | "optok" :: rest => optok rest
  | _ => "bad-op"

end MidnightZK.C04.Driver

/-- `mzk-c04 < ops.txt > model.txt` : one answer line per request line. -/
def main : IO UInt32 := do
  MidnightZK.lineLoop (← IO.getStdin) (← IO.getStdout) MidnightZK.C04.Driver.answer
  return 0
