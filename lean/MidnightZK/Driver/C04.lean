import MidnightZK.Model.Common
/-! Line-protocol handler of property C04 (stub: answers `unimplemented`). -/
namespace MidnightZK.C04.Driver

def answer (_line : String) : String := "unimplemented"

end MidnightZK.C04.Driver

/-- `mzk-c04 < ops.txt > model.txt` : one answer line per request line. -/
def main : IO UInt32 := do
  MidnightZK.lineLoop (← IO.getStdin) (← IO.getStdout) MidnightZK.C04.Driver.answer
  return 0
