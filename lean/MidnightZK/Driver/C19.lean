import MidnightZK.Model.Common
/-! Line-protocol handler of property C19 (stub: answers `unimplemented`). -/
namespace MidnightZK.C19.Driver

def answer (_line : String) : String := "unimplemented"

end MidnightZK.C19.Driver
