import MidnightZK.Model.Common
import MidnightZK.Model.C19.Parse
import MidnightZK.Model.C19.Circuit
import MidnightZK.Model.C19.Base64
/-! Line-protocol handler of property C19. -/
namespace MidnightZK.C19.Driver
open MidnightZK MidnightZK.C19

def fuel : Nat := 2000000

def answer (line : String) : String :=
  match words line with
  | "equiv" :: ts =>
    match parseTree ts with
    | some (t, "|" :: ts) =>
      match parseDfa ts with
      | some (A, []) => fmtVerdict (checkEquivVerdict fuel A t.toRx)
      | _ => "bad-op"
    | _ => "bad-op"
  | "equivstats" :: ts =>
    match parseTree ts with
    | some (t, "|" :: ts) =>
      match parseDfa ts with
      | some (A, []) =>
        let (e, c) := equivSearch 3000 A t.toRx
        let sizes := e.pairs.toList.map (fun p => p.2.size)
        s!"pairs {e.pairs.size} complete {e.complete} bad {e.bad.isSome} maxsize {sizes.foldl max 0} classes {c.reps.length} markers {c.markers.length}"
      | _ => "bad-op"
    | _ => "bad-op"
  | "tree" :: ts =>
    match parseSpec ts with
    | some (sp, []) =>
      if !sp.negOk then "panic:neg-markers" else " ".intercalate sp.toInternal.toText
    | _ => "bad-op"
  | "serial" :: ts =>
    match parseDfa ts with
    | some (A, []) => hexOfBytes (serialize A.toData)
    | _ => "bad-op"
  | ["deser", h] =>
    match parseHexBytes h with
    | some bytes =>
      match deserialize bytes with
      | some (D, rest) =>
        if D.nbStates > 100000 || D.finals.any (· ≥ D.nbStates) ||
            D.trans.any (fun e => e.1.1 ≥ D.nbStates || e.2.1 ≥ D.nbStates) then "ok invalid-states"
        else s!"ok {dfaText D.toDfa} rest={rest.length}"
      | none => "error"
    | none => "bad-op"
  | "detcheck" :: ts =>
    match parseTree ts with
    | some (t, []) =>
      match detCheck 20000 t.toRx with
      | some true => "det"
      | some false => "nondet"
      | none => "unknown"
    | _ => "bad-op"
  | "parse" :: ts =>
    match parseDfa ts with
    | some (A, ["|", h]) =>
      match parseHexBytes h with
      | some bytes =>
        match parseModel A bytes with
        | some ms => s!"ok {fmtNatList ms}"
        | none => "reject"
      | none => "bad-op"
    | _ => "bad-op"
  | ["plookup", _] => lookupText
  | "ptable" :: ts =>
    match parseDfa ts with
    | some (A, []) =>
      let rows := tableRows A 1
      s!"{rows.length} rows {" ".intercalate (rows.map rowText)} pad 0.0.0.0"
    | _ => "bad-op"
  | "ptrace" :: ts =>
    match parseDfa ts with
    | some (A, ["|", h]) =>
      match parseHexBytes h with
      | some bytes =>
        match parseRows A 1 bytes with
        | some rows => " ".intercalate (rows.map PRow.text)
        | none => "stuck"
      | none => "bad-op"
    | _ => "bad-op"
  | "parsewith" :: ts =>
    match parseDfa ts with
    | some (A, ["|", w]) =>
      match parseWord w with
      | some w => fmtBool (A.accepts (w.map (·.1)) (w.map (·.2)))
      | none => "bad-op"
    | _ => "bad-op"
  | ["b64", alph, mode, h] =>
    match parseHexBytes h with
    | some input =>
      let url := alph == "url"
      if alph != "url" && alph != "std" then "bad-op" else
      let input' := if url then input.map B64.urlToStd else input
      let fmt (r : Option (List Nat)) : String :=
        match r with
        | some out => s!"ok {hexOfBytes out}"
        | none => "unsat"
      if mode == "pad" then
        if !B64.lengthOk true input then "panic" else fmt (B64.decode true input')
      else if mode == "nopad" then fmt (B64.decode false input')
      else if mode == "var" then
        if input.length % 4 != 0 || input.length > 64 then "panic" else fmt (B64.decodeVar 64 input')
      else "bad-op"
    | none => "bad-op"
  | "bisim" :: ts =>
    match parseDfa ts with
    | some (A, "|" :: ts) =>
      match parseDfa ts with
      | some (B, []) => fmtVerdict (dfaBisimVerdict fuel A B)
      | _ => "bad-op"
    | _ => "bad-op"
  | "match" :: ts =>
    match parseTree ts with
    | some (t, ["|", w]) =>
      match parseWord w with
      | some w => fmtBool (t.toRx.matches w)
      | none => "bad-op"
    | _ => "bad-op"
  | _ => "bad-op"

end MidnightZK.C19.Driver

/-- `mzk-c19 < ops.txt > model.txt` : one answer line per request line. -/
def main : IO UInt32 := do
  MidnightZK.lineLoop (← IO.getStdin) (← IO.getStdout) MidnightZK.C19.Driver.answer
  return 0
