import MidnightZK.Model.Common
import MidnightZK.Model.C19.Parse
import MidnightZK.Model.C19.Circuit
import MidnightZK.Model.C19.Coll
import MidnightZK.Model.C19.Base64
import MidnightZK.Model.C19.B64Circuit
import MidnightZK.Model.C19.DataTypes
import MidnightZK.Gen.C19Base64
/-! Line-protocol handler of property C19. -/
namespace MidnightZK.C19.Driver
open MidnightZK MidnightZK.C19

def fuel : Nat := 2000000

def answer (line : String) : String :=
  match words line with
  | "equiv" :: ts =>
    match parseTree ts with
    | some (t, "|" :: ts) =>
      match parseDfa ts with
      | some (A, []) => fmtVerdict (checkEquivVerdict fuel A t.toRx)
      | _ => "bad-op"
    | _ => "bad-op"
  | "equivstats" :: ts =>
    match parseTree ts with
    | some (t, "|" :: ts) =>
      match parseDfa ts with
      | some (A, []) =>
        let (e, c) := equivSearch 3000 A t.toRx
        let sizes := e.pairs.toList.map (fun p => p.2.size)
        s!"pairs {e.pairs.size} complete {e.complete} bad {e.bad.isSome} maxsize {sizes.foldl max 0} classes {c.reps.length} markers {c.markers.length}"
      | _ => "bad-op"
    | _ => "bad-op"
  | "tree" :: ts =>
    match parseSpec ts with
    | some (sp, []) =>
      if !sp.negOk then "panic:neg-markers" else " ".intercalate sp.toInternal.toText
    | _ => "bad-op"
  | "serial" :: ts =>
    match parseDfa ts with
    | some (A, []) => hexOfBytes (serialize A.toData)
    | _ => "bad-op"
  | ["deser", h] =>
    match parseHexBytes h with
    | some bytes =>
      match deserialize bytes with
      | some (D, rest) =>
        if D.nbStates > 100000 || D.finals.any (· ≥ D.nbStates) ||
            D.trans.any (fun e => e.1.1 ≥ D.nbStates || e.2.1 ≥ D.nbStates) then "ok invalid-states"
        else s!"ok {dfaText D.toDfa} rest={rest.length}"
      | none => "error"
    | none => "bad-op"
  | "detcheck" :: ts =>
    match parseTree ts with
    | some (t, []) =>
      match detCheck 20000 t.toRx with
      | some true => "det"
      | some false => "nondet"
      | none => "unknown"
    | _ => "bad-op"
  | "parse" :: ts =>
    match parseDfa ts with
    | some (A, ["|", h]) =>
      match parseHexBytes h with
      | some bytes =>
        match parseModel A bytes with
        | some ms => s!"ok {fmtNatList ms}"
        | none => "reject"
      | none => "bad-op"
    | _ => "bad-op"
  | ["plookup", _] => lookupText
  | "ptable" :: ts =>
    match parseDfa ts with
    | some (A, []) =>
      let rows := tableRows A 1
      s!"{rows.length} rows {" ".intercalate (rows.map rowText)} pad 0.0.0.0"
    | _ => "bad-op"
  | "ptrace" :: ts =>
    match parseDfa ts with
    | some (A, ["|", h]) =>
      match parseHexBytes h with
      | some bytes =>
        match parseRows A 1 bytes with
        | some rows => " ".intercalate (rows.map PRow.text)
        | none => "stuck"
      | none => "bad-op"
    | _ => "bad-op"
  | "pctable" :: n :: ts =>
    match n.toNat?.bind (fun n => parseMany parseDfa n ts) with
    | some (As, []) =>
      if !As.all Dfa.closedB then "not-closed" else
      let C := collOf As
      let rows := collTableRows C
      s!"offs {fmtNatList (C.map (·.2))} | {rows.length} rows {" ".intercalate (rows.map rowText)} pad 0.0.0.0"
    | _ => "bad-op"
  | "pctrace" :: n :: ts =>
    match n.toNat?.bind (fun n => parseMany parseDfa n ts) with
    | some (As, ["|", i, "|", h]) =>
      match i.toNat?.bind (collMember As), parseHexBytes h with
      | some (A, off), some bytes =>
        if !As.all Dfa.closedB then "not-closed" else
        match parseRows A off bytes with
        | some rows => " ".intercalate (rows.map PRow.text)
        | none => "stuck"
      | _, _ => "bad-op"
    | _ => "bad-op"
  | "pcparse" :: n :: ts =>
    match n.toNat?.bind (fun n => parseMany parseDfa n ts) with
    | some (As, ["|", i, "|", h]) =>
      match i.toNat?.bind (collMember As), parseHexBytes h with
      | some (A, _), some bytes =>
        if !As.all Dfa.closedB then "not-closed" else
        match parseModel A bytes with
        | some ms => s!"ok {fmtNatList ms}"
        | none => "reject"
      | _, _ => "bad-op"
    | _ => "bad-op"
  | "parsewith" :: ts =>
    match parseDfa ts with
    | some (A, ["|", w]) =>
      match parseWord w with
      | some w => fmtBool (A.accepts (w.map (·.1)) (w.map (·.2)))
      | none => "bad-op"
    | _ => "bad-op"
  | ["atoi", h] =>
    match parseHexBytes h with
    | some input =>
      if input.length ≥ PG.digitCapacity then "panic" else
      match PG.asciiToInt input with
      | some v => s!"ok {v}"
      | none => "unsat"
    | none => "bad-op"
  | ["date", fmt, sep, h] =>
    match parseHexBytes h, (if sep == "-" then some none else sep.toNat?.map some) with
    | some input, some sep =>
      if fmt != "ymd" && fmt != "dmy" then "bad-op" else
      if input.length != PG.dateLen sep then "panic" else
      match PG.dateToInt (if fmt == "ymd" then .yyyymmdd else .ddmmyyyy) sep input with
      | some v => s!"ok {v}"
      | none => "unsat"
    | _, _ => "bad-op"
  | ["fetch", idx, len, h] =>
    match parseHexBytes h, idx.toNat?, len.toNat? with
    | some seq, some idx, some len =>
      if len > seq.length then "panic" else
      match PG.fetchBytes seq idx len with
      | some out => s!"ok {hexOfBytes out}"
      | none => "unsat"
    | _, _, _ => "bad-op"
  | ["b64lookup", _] => B64.lookupText Gen.twoEntryCharShift Gen.twoEntryDefault
  | ["b64table", _] =>
    let rows := B64.twoEntryTable Gen.base64Table
    let txt := rows.map fun r => s!"{r.1}.{r.2}"
    s!"{rows.length} rows {" ".intercalate txt} pad {txt.headD "-"}"
  | ["b64rows", alph, mode, h] =>
    match parseHexBytes h with
    | some input =>
      let url := alph == "url"
      if alph != "url" && alph != "std" then "bad-op" else
      let input' := if url then input.map B64.urlToStd else input
      let fmt (r : Option (List String)) : String :=
        match r with
        | some rows => if rows.isEmpty then "-" else " ".intercalate rows
        | none => "undecodable"
      if mode == "pad" then
        if !B64.lengthOk true input then "panic" else fmt (B64.chunkRows true input')
      else if mode == "nopad" then fmt (B64.chunkRows false input')
      else if mode == "var" then
        if input.length % 4 != 0 || input.length > 64 then "panic"
        else fmt (B64.chunkRows true (List.replicate (64 - input.length) B64.altPad ++ input'))
      else "bad-op"
    | none => "bad-op"
  | ["b64", alph, mode, h] =>
    match parseHexBytes h with
    | some input =>
      let url := alph == "url"
      if alph != "url" && alph != "std" then "bad-op" else
      let input' := if url then input.map B64.urlToStd else input
      let fmt (r : Option (List Nat)) : String :=
        match r with
        | some out => s!"ok {hexOfBytes out}"
        | none => "unsat"
      if mode == "pad" then
        if !B64.lengthOk true input then "panic" else fmt (B64.decode true input')
      else if mode == "nopad" then fmt (B64.decode false input')
      else if mode == "var" then
        if input.length % 4 != 0 || input.length > 64 then "panic" else fmt (B64.decodeVar 64 input')
      else "bad-op"
    | none => "bad-op"
  | "bisim" :: ts =>
    match parseDfa ts with
    | some (A, "|" :: ts) =>
      match parseDfa ts with
      | some (B, []) => fmtVerdict (dfaBisimVerdict fuel A B)
      | _ => "bad-op"
    | _ => "bad-op"
  | "match" :: ts =>
    match parseTree ts with
    | some (t, ["|", w]) =>
      match parseWord w with
      | some w => fmtBool (t.toRx.matches w)
      | none => "bad-op"
    | _ => "bad-op"
  | _ => "bad-op"

end MidnightZK.C19.Driver

/-- `mzk-c19 < ops.txt > model.txt` : one answer line per request line. -/
def main : IO UInt32 := do
  MidnightZK.lineLoop (← IO.getStdin) (← IO.getStdout) MidnightZK.C19.Driver.answer
  return 0
