import MidnightZK.Model.Common
/-! Line-protocol handler of property C19 (stub: answers `unimplemented`). -/
namespace MidnightZK.C19.Driver

def answer (_line : String) : String := "unimplemented"

end MidnightZK.C19.Driver

/-- `mzk-c19 < ops.txt > model.txt` : one answer line per request line. -/
def main : IO UInt32 := do
  MidnightZK.lineLoop (← IO.getStdin) (← IO.getStdout) MidnightZK.C19.Driver.answer
  return 0
