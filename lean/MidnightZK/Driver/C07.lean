import MidnightZK.Model.Common
/-! Line-protocol handler of property C07 (stub: answers `unimplemented`). -/
namespace MidnightZK.C07.Driver

def answer (_line : String) : String := "unimplemented"

end MidnightZK.C07.Driver

/-- `mzk-c07 < ops.txt > model.txt` : one answer line per request line. -/
def main : IO UInt32 := do
  MidnightZK.lineLoop (← IO.getStdin) (← IO.getStdout) MidnightZK.C07.Driver.answer
  return 0
