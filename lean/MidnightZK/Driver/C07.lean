import MidnightZK.Model.Common
import MidnightZK.Model.C07.Poseidon
import MidnightZK.Gen.C07Poseidon
import MidnightZK.Model.C07.Sha2
import MidnightZK.Gen.C07Sha
import MidnightZK.Model.C07.ShaVarlen
/-! Line-protocol handler of property C07. -/
namespace MidnightZK.C07.Driver
open MidnightZK MidnightZK.C07

abbrev Fq := Fp Gen.p
def fq (n : Nat) : Fq := Fp.ofNat Gen.p n
def fqList (l : List Nat) : List Fq := l.map fq
def fmtFq (l : List Fq) : String := fmtHexList (l.map (·.val))

/-- The shipped parameters (generated from the Rust sources). -/
def params : PParams Fq :=
  { width := Gen.width, rate := Gen.rate, nbFull := Gen.nbFull, nbPartial := Gen.nbPartial,
    mds := Gen.mds.map fqList, rc := Gen.roundConstants.map fqList }

def smax : Nat := max Gen.nbSkipsCpu Gen.nbSkipsCircuit
/-- `PreComputedRoundCPU::init()`. -/
def preCpu : PreComputed Fq := PreComputed.init params smax Gen.nbSkipsCpu
/-- `PreComputedRoundCircuit::init()`. -/
def preCircuit : PreComputed Fq := PreComputed.init params smax Gen.nbSkipsCircuit

def permCpu (st : List Fq) : List Fq := permutationCpu params preCpu st
def permCircuit (st : List Fq) : List Fq := permutationCpu params preCircuit st

def permOf (side : String) : Option (List Fq → List Fq) :=
  match side with
  | "cpu" => some permCpu
  | "circuit" => some permCircuit
  | "textbook" => some (textbook params)
  | "raw" => some (permutationRaw params)
  | _ => none

/-- Sponge script: `L<n>` / `N` (init), then `a:<list>` (absorb) and `s` (squeeze) tokens. -/
def runSponge (perm : List Fq → List Fq) (toks : List String) : Option String := do
  let (init, rest) ← match toks with
    | t :: rest =>
      if t = "N" then some (Sponge.init params fq none, rest)
      else if t.startsWith "L" then (t.drop 1).toString.toNat?.map (fun n => (Sponge.init params fq (some n), rest))
      else none
    | [] => none
  let mut st := init
  let mut outs : List String := []
  for t in rest do
    if t = "s" then
      match Sponge.squeeze params fq perm st with
      | none => return (" ".intercalate (outs ++ ["panic"]))
      | some (st', o) => st := st'; outs := outs ++ [toHex o.val]
    else if t.startsWith "a:" then
      let l ← parseNatList? (t.drop 2).toString
      st := st.absorb (fqList l)
    else none
  return (if outs.isEmpty then "-" else " ".intercalate outs)

/-- Rows of the in-circuit permutation region after the `add_constants` row: one line item per
round row `F:<state>|<hints>|<consts>` / `P:<state>|<pows>|<consts>` and the final state `O:<state>`. -/
def traceRows (st : List Fq) : List String := Id.run do
  let P := params
  let W := P.width
  let mut s := vec W (fun i => st.getD i 0 + P.k 0 i)
  let mut rows : List String := []
  for r in List.range (P.nbFull / 2) do
    let hints := vec W (fun i => let x := s.getD i 0; x * (x * x))
    rows := rows ++ [s!"F:{fmtFq s}|{fmtFq hints}|{fmtFq (shiftedConsts P r)}"]
    s := fullRoundCpu P r s
  for b in List.range (P.nbPartial / (1 + preCircuit.id.nbSkips)) do
    let rcs := preCircuit.roundConstants.getD b []
    let (s', pows) := preCircuit.id.eval W rcs s
    rows := rows ++ [s!"P:{fmtFq s}|{fmtFq pows}|{fmtFq rcs}"]
    s := s'
  for r0 in List.range (P.nbFull / 2) do
    let r := P.nbFull / 2 + P.nbPartial + r0
    let hints := vec W (fun i => let x := s.getD i 0; x * (x * x))
    rows := rows ++ [s!"F:{fmtFq s}|{fmtFq hints}|{fmtFq (shiftedConsts P r)}"]
    s := fullRoundCpu P r s
  return rows ++ [s!"O:{fmtFq s}"]

/-- Bytes from a hex string without prefix (`-` = empty). -/
def parseBytes? (s : String) : Option (List Nat) :=
  if s = "-" then some [] else
  let cs := s.toList
  if cs.length % 2 ≠ 0 then none else
  let rec go : Nat → List Char → Option (List Nat)
    | 0, _ => some []
    | _ + 1, [] => some []
    | _ + 1, [_] => none
    | f + 1, a :: b :: t => do
      let v ← parseHex? (String.ofList [a, b])
      let r ← go f t
      pure (v :: r)
  go cs.length cs

def fmtBytes (l : List Nat) : String :=
  if l.isEmpty then "-" else String.ofList (l.flatMap (fun b => [hexDigit (b / 16), hexDigit (b % 16)]))

def sha256 : Sha2 := sha256P Gen.sha256K Gen.sha256IV
def sha512 : Sha2 := sha512P Gen.sha512K Gen.sha512IV
def rmd160 : Rmd :=
  { k := Gen.rmdK, k' := Gen.rmdKPrime, iv := Gen.rmdIV, r := Gen.rmdR, r' := Gen.rmdRPrime,
    s := Gen.rmdS, s' := Gen.rmdSPrime }

def answer (line : String) : String :=
  match words line with
  | ["sha256", m] => match parseBytes? m with
    | some b => fmtBytes (sha256.digest b)
    | none => "bad-op"
  | ["sha512", m] => match parseBytes? m with
    | some b => fmtBytes (sha512.digest b)
    | none => "bad-op"
  | ["rmd160", m] => match parseBytes? m with
    | some b => fmtBytes (rmd160.digest b)
    | none => "bad-op"
  | ["sha256varlen", maxLen, len, buf] =>
    match maxLen.toNat?, len.toNat?, parseBytes? buf with
    | some m, some n, some b =>
      if b.length ≠ m ∨ m % 64 ≠ 0 ∨ m = 0 ∨ n > m then "bad-op" else fmtBytes (sha256Varlen sha256 m b n)
    | _, _, _ => "bad-op"
  | ["pad256", m] => match parseBytes? m with
    | some b => fmtBytes (sha256.padRust b)
    | none => "bad-op"
  | ["pad512", m] => match parseBytes? m with
    | some b => fmtBytes (sha512.padRust b)
    | none => "bad-op"
  | ["perm", side, st] =>
    match permOf side, parseNatList? st with
    | some f, some st => fmtFq (f (fqList st))
    | _, _ => "bad-op"
  | ["hash", side, inputs] =>
    match permOf side, parseNatList? inputs with
    | some f, some l =>
      match hash params fq f (fqList l) with
      | some d => toHex d.val
      | none => "panic"
    | _, _ => "bad-op"
  | "sponge" :: side :: toks =>
    match permOf side with
    | some f => (runSponge f toks).getD "bad-op"
    | none => "bad-op"
  | ["varlen", maxLen, len, buffer] =>
    match maxLen.toNat?, len.toNat?, parseNatList? buffer with
    | some m, some n, some b =>
      if b.length ≠ m ∨ m % params.rate ≠ 0 ∨ n > m then "bad-op"
      else toHex (varlen params fq permCircuit m (fqList b) n).val
    | _, _, _ => "bad-op"
  | ["buffer", maxLen, align, filler, data] =>
    match maxLen.toNat?, align.toNat?, parseNat? filler, parseNatList? data with
    | some m, some a, some f, some d =>
      if a = 0 ∨ d.length > m then "bad-op" else fmtFq (vecBuffer m a (fqList d) (fq f))
    | _, _, _, _ => "bad-op"
  | ["trace", st] =>
    match parseNatList? st with
    | some st => " ".intercalate (traceRows (fqList st))
    | none => "bad-op"
  | ["rcopt", side] =>
    match side with
    | "cpu" => " ".intercalate (preCpu.roundConstants.map fmtFq)
    | "circuit" => " ".intercalate (preCircuit.roundConstants.map fmtFq)
    | _ => "bad-op"
  | _ => "bad-op"

end MidnightZK.C07.Driver

/-- `mzk-c07 < ops.txt > model.txt` : one answer line per request line. -/
def main : IO UInt32 := do
  MidnightZK.lineLoop (← IO.getStdin) (← IO.getStdout) MidnightZK.C07.Driver.answer
  return 0
