import MidnightZK.Model.Common
import MidnightZK.Model.C07.Poseidon
import MidnightZK.Model.C07.PoseidonVarlen
import MidnightZK.Gen.C07Poseidon
import MidnightZK.Model.C07.Sha2
import MidnightZK.Gen.C07Sha
import MidnightZK.Model.C07.ShaVarlen
import MidnightZK.Model.C07.ShaChip
import MidnightZK.Model.C07.Sha512Chip
import MidnightZK.Gen.C07ShaGates
import MidnightZK.Gen.C07Sha512Gates
import MidnightZK.Model.C07.RipemdChip
import MidnightZK.Gen.C07RmdGates
/-! Line-protocol handler of property C07. -/
namespace MidnightZK.C07.Driver
open MidnightZK MidnightZK.C07

abbrev Fq := Fp Gen.p
def fq (n : Nat) : Fq := Fp.ofNat Gen.p n
def fqList (l : List Nat) : List Fq := l.map fq
def fmtFq (l : List Fq) : String := fmtHexList (l.map (·.val))

/-- The shipped parameters (generated from the Rust sources). -/
def params : PParams Fq :=
  { width := Gen.width, rate := Gen.rate, nbFull := Gen.nbFull, nbPartial := Gen.nbPartial,
    mds := Gen.mds.map fqList, rc := Gen.roundConstants.map fqList }

def smax : Nat := max Gen.nbSkipsCpu Gen.nbSkipsCircuit
/-- `PreComputedRoundCPU::init()`. -/
def preCpu : PreComputed Fq := PreComputed.init params smax Gen.nbSkipsCpu
/-- `PreComputedRoundCircuit::init()`. -/
def preCircuit : PreComputed Fq := PreComputed.init params smax Gen.nbSkipsCircuit

def permCpu (st : List Fq) : List Fq := permutationCpu params preCpu st
def permCircuit (st : List Fq) : List Fq := permutationCpu params preCircuit st

def permOf (side : String) : Option (List Fq → List Fq) :=
  match side with
  | "cpu" => some permCpu
  | "circuit" => some permCircuit
  | "textbook" => some (textbook params)
  | "raw" => some (permutationRaw params)
  | _ => none

/-- Sponge script: `L<n>` / `N` (init), then `a:<list>` (absorb) and `s` (squeeze) tokens. -/
def runSponge (perm : List Fq → List Fq) (toks : List String) : Option String := do
  let (init, rest) ← match toks with
    | t :: rest =>
      if t = "N" then some (Sponge.init params fq none, rest)
      else if t.startsWith "L" then (t.drop 1).toString.toNat?.map (fun n => (Sponge.init params fq (some n), rest))
      else none
    | [] => none
  let mut st := init
  let mut outs : List String := []
  for t in rest do
    if t = "s" then
      match Sponge.squeeze params fq perm st with
      | none => return (" ".intercalate (outs ++ ["panic"]))
      | some (st', o) => st := st'; outs := outs ++ [toHex o.val]
    else if t.startsWith "a:" then
      let l ← parseNatList? (t.drop 2).toString
      st := st.absorb (fqList l)
    else none
  return (if outs.isEmpty then "-" else " ".intercalate outs)

/-- Rows of the in-circuit permutation region after the `add_constants` row: one line item per
round row `F:<state>|<hints>|<consts>` / `P:<state>|<pows>|<consts>` and the final state `O:<state>`. -/
def traceRows (st : List Fq) : List String := Id.run do
  let P := params
  let W := P.width
  let mut s := vec W (fun i => st.getD i 0 + P.k 0 i)
  let mut rows : List String := []
  for r in List.range (P.nbFull / 2) do
    let hints := vec W (fun i => let x := s.getD i 0; x * (x * x))
    rows := rows ++ [s!"F:{fmtFq s}|{fmtFq hints}|{fmtFq (shiftedConsts P r)}"]
    s := fullRoundCpu P r s
  for b in List.range (P.nbPartial / (1 + preCircuit.id.nbSkips)) do
    let rcs := preCircuit.roundConstants.getD b []
    let (s', pows) := preCircuit.id.eval W rcs s
    rows := rows ++ [s!"P:{fmtFq s}|{fmtFq pows}|{fmtFq rcs}"]
    s := s'
  for r0 in List.range (P.nbFull / 2) do
    let r := P.nbFull / 2 + P.nbPartial + r0
    let hints := vec W (fun i => let x := s.getD i 0; x * (x * x))
    rows := rows ++ [s!"F:{fmtFq s}|{fmtFq hints}|{fmtFq (shiftedConsts P r)}"]
    s := fullRoundCpu P r s
  return rows ++ [s!"O:{fmtFq s}"]

/-- Bytes from a hex string without prefix (`-` = empty). -/
def parseBytes? (s : String) : Option (List Nat) :=
  if s = "-" then some [] else
  let cs := s.toList
  if cs.length % 2 ≠ 0 then none else
  let rec go : Nat → List Char → Option (List Nat)
    | 0, _ => some []
    | _ + 1, [] => some []
    | _ + 1, [_] => none
    | f + 1, a :: b :: t => do
      let v ← parseHex? (String.ofList [a, b])
      let r ← go f t
      pure (v :: r)
  go cs.length cs

def fmtBytes (l : List Nat) : String :=
  if l.isEmpty then "-" else String.ofList (l.flatMap (fun b => [hexDigit (b / 16), hexDigit (b % 16)]))

def sha256 : Sha2 := sha256P Gen.sha256K Gen.sha256IV
def sha512 : Sha2 := sha512P Gen.sha512K Gen.sha512IV
def rmd160 : Rmd :=
  { k := Gen.rmdK, k' := Gen.rmdKPrime, iv := Gen.rmdIV, r := Gen.rmdR, r' := Gen.rmdRPrime,
    s := Gen.rmdS, s' := Gen.rmdSPrime }

/-- The chip regions of a message of `n` blocks (emitter of `Model/C07/ShaChip.lean`), rendered. -/
def shaTrace (n : Nat) : Array String × String :=
  let t := Chip.emit Gen.sha256K Gen.sha256IV n
  ((t.1.map (Chip.Region.render Gen.shaAdvCols Gen.shaFixedCols)).toArray,
   ",".intercalate (t.2.plain.map (Chip.Src.render Gen.shaAdvCols)))

/-- Closed terms: evaluated once at start-up. -/
def shaTrace1 : Array String × String := shaTrace 1
def shaTrace2 : Array String × String := shaTrace 2
def shaTrace3 : Array String × String := shaTrace 3

def shaTraceOf (n : Nat) : Option (Array String × String) :=
  match n with
  | 1 => some shaTrace1
  | 2 => some shaTrace2
  | 3 => some shaTrace3
  | _ => none

/-- Raw regions of the emitter (for the honest-witness check). -/
def shaRegions1 : Array Chip.Region := (Chip.emit Gen.sha256K Gen.sha256IV 1).1.toArray
def shaRegions2 : Array Chip.Region := (Chip.emit Gen.sha256K Gen.sha256IV 2).1.toArray
def shaRegions3 : Array Chip.Region := (Chip.emit Gen.sha256K Gen.sha256IV 3).1.toArray

/-- `name:value,…` pairs. -/
def parsePairs? (s : String) : Option (List (String × Nat)) :=
  if s = "-" then some [] else
  (s.splitOn ",").mapM (fun item =>
    match item.splitOn ":" with
    | [n, v] => (parseNat? v).map (fun v => (n, v))
    | _ => none)

/-- Does the given (real, honest) witness satisfy `Sat` of region `k` (`cells` = the advice cells of the
region, `srcs` = the sources of its copy constraints)? Shared by `sha256sat` and `sha512sat`. -/
def satCheck (modulus : Nat) (gates : Chip.Sel → List Chip.Expr) (advCols : List Nat) (reg : Option Chip.Region)
    (k : Nat) (cells srcs : String) : String :=
  match reg, parsePairs? cells, parsePairs? srcs with
  | some r, some cs, some ss =>
    let find (l : List (String × Nat)) (key : String) : Nat := ((l.find? (fun kv => kv.1 == key)).map (·.2)).getD 0
    let a : Chip.Asg := fun s =>
      match s with
      | .reg k' off col =>
        if k' = k then find cs s!"{off}.{advCols.getD col 99}" else find ss (Chip.Src.render advCols s)
      | .const v => v
      | .ext i => find ss s!"X{i}"
    -- every listed cell must be a canonical field element
    if (cs ++ ss).any (fun kv => kv.2 ≥ modulus) then "fail:non-canonical" else
    match Chip.satFailures modulus gates a k r with
    | [] => if Chip.satB modulus gates a k r then "ok" else "fail:satB"
    | fs => "fail:" ++ ",".intercalate fs
  | _, _, _ => "bad-op"

/-- `sha256sat n k cells sources`. -/
def shaSat (n k : Nat) (cells srcs : String) : String :=
  let regs := match n with
    | 1 => shaRegions1 | 2 => shaRegions2 | 3 => shaRegions3 | _ => #[]
  satCheck Gen.shaModulus Gen.shaGates Gen.shaAdvCols regs[k]? k cells srcs

/-- Raw regions of the SHA-512 emitter (for the honest-witness check). -/
def sha512Regions1 : Array Chip.Region := (Chip512.emit Gen.sha512K Gen.sha512IV 1).1.toArray
def sha512Regions2 : Array Chip.Region := (Chip512.emit Gen.sha512K Gen.sha512IV 2).1.toArray

/-- `sha512sat n k cells sources`. -/
def sha512Sat (n k : Nat) (cells srcs : String) : String :=
  let regs := match n with
    | 1 => sha512Regions1 | 2 => sha512Regions2 | _ => #[]
  satCheck Gen.sha512Modulus Gen.sha512Gates Gen.sha512AdvCols regs[k]? k cells srcs

/-- The SHA-512 chip regions of a message of `n` blocks, rendered. -/
def sha512Trace (n : Nat) : Array String × String :=
  let t := Chip512.emit Gen.sha512K Gen.sha512IV n
  ((t.1.map (Chip.Region.render Gen.sha512AdvCols Gen.shaFixedCols)).toArray,
   ",".intercalate (t.2.plain.map (Chip.Src.render Gen.sha512AdvCols)))

def sha512Trace1 : Array String × String := sha512Trace 1
def sha512Trace2 : Array String × String := sha512Trace 2

def sha512TraceOf (n : Nat) : Option (Array String × String) :=
  match n with
  | 1 => some sha512Trace1
  | 2 => some sha512Trace2
  | _ => none

def spreadTab512 : Array (Nat × List (Nat × Nat)) := (Chip512.spreadTable Gen.sha512LookupLengths).toArray

def spreadTab : Array (Nat × List (Nat × Nat)) := (Chip.spreadTable Gen.sha256LookupLengths).toArray

/-! ### RIPEMD-160 chip (emitter of `Model/C07/RipemdChip.lean`) -/

/-- Rendered regions, `externals`, `outputs` (the `~Y` inputs of the `linear_combination` calls, then the
final state words). -/
def rmdTrace (n : Nat) : Array String × Nat × String :=
  let t := ChipR.emit rmd160 n
  ((t.1.map (ChipR.Region.render Gen.rmdAdvCols Gen.rmdFixedCols)).toArray, t.2.2.x,
   ",".intercalate ((t.2.2.lcs.map (·.2) ++ t.2.1).map (Chip.Src.render Gen.rmdAdvCols)))

def rmdTrace1 : Array String × Nat × String := rmdTrace 1
def rmdTrace2 : Array String × Nat × String := rmdTrace 2
def rmdTrace3 : Array String × Nat × String := rmdTrace 3

def rmdTraceOf (n : Nat) : Option (Array String × Nat × String) :=
  match n with
  | 1 => some rmdTrace1
  | 2 => some rmdTrace2
  | 3 => some rmdTrace3
  | _ => none

def rmdRegions1 : Array ChipR.Region := (ChipR.emit rmd160 1).1.toArray
def rmdRegions2 : Array ChipR.Region := (ChipR.emit rmd160 2).1.toArray
def rmdRegions3 : Array ChipR.Region := (ChipR.emit rmd160 3).1.toArray

/-- `rmdsat n k cells sources`: the honest witness of region `k` against `ChipR.Sat`. -/
def rmdSat (n k : Nat) (cells srcs : String) : String :=
  let regs := match n with
    | 1 => rmdRegions1 | 2 => rmdRegions2 | 3 => rmdRegions3 | _ => #[]
  match regs[k]?, parsePairs? cells, parsePairs? srcs with
  | some r, some cs, some ss =>
    let find (l : List (String × Nat)) (key : String) : Nat := ((l.find? (fun kv => kv.1 == key)).map (·.2)).getD 0
    let a : Chip.Asg := fun s =>
      match s with
      | .reg k' off col =>
        if k' = k then find cs s!"{off}.{Gen.rmdAdvCols.getD col 99}" else find ss (Chip.Src.render Gen.rmdAdvCols s)
      | .const v => v
      | .ext i => find ss s!"X{i}"
    if (cs ++ ss).any (fun kv => kv.2 ≥ Gen.rmdModulus) then "fail:non-canonical" else
    match ChipR.satFailures Gen.rmdModulus Gen.rmdGates a k r with
    | [] => "ok"
    | fs => "fail:" ++ ",".intercalate fs
  | _, _, _ => "bad-op"

def rmdSpreadTab : Array (Nat × List (Nat × Nat)) := ChipR.spreadTable.toArray

def answer (line : String) : String :=
  match words line with
  | ["rmdshape", n] =>
    match n.toNat?.bind rmdTraceOf with
    | some t => s!"regions={t.1.size} externals={t.2.1} outputs={t.2.2}"
    | none => "bad-op"
  | ["rmdregion", n, k] =>
    match n.toNat?.bind rmdTraceOf, k.toNat? with
    | some t, some k => t.1.getD k "no-such-region"
    | _, _ => "bad-op"
  | ["rmdsat", n, k, cells, srcs] =>
    match n.toNat?, k.toNat? with
    | some n, some k => rmdSat n k cells srcs
    | _, _ => "bad-op"
  | ["rmdspreadtags"] => ",".intercalate (rmdSpreadTab.toList.map (fun g => s!"{toHex g.1}:{g.2.length}"))
  | ["rmdspreadtable", n, tag] =>
    match n.toNat?, parseNat? tag with
    | some n, some tag =>
      match rmdSpreadTab[n]? with
      | some g => if g.1 = tag then ",".intercalate (g.2.map (fun r => s!"{toHex r.1}:{toHex r.2}")) else "wrong-tag"
      | none => "no-such-group"
    | _, _ => "bad-op"
  | ["sha256shape", n] =>
    match n.toNat?.bind shaTraceOf with
    | some t => s!"regions={t.1.size} externals={16 * n.toNat?.getD 0} outputs={t.2}"
    | none => "bad-op"
  | ["sha256region", n, k] =>
    match n.toNat?.bind shaTraceOf, k.toNat? with
    | some t, some k => t.1.getD k "no-such-region"
    | _, _ => "bad-op"
  | ["sha256sat", n, k, cells, srcs] =>
    match n.toNat?, k.toNat? with
    | some n, some k => shaSat n k cells srcs
    | _, _ => "bad-op"
  | ["sha512sat", n, k, cells, srcs] =>
    match n.toNat?, k.toNat? with
    | some n, some k => sha512Sat n k cells srcs
    | _, _ => "bad-op"
  | ["sha512shape", n] =>
    match n.toNat?.bind sha512TraceOf with
    | some t => s!"regions={t.1.size} externals={16 * n.toNat?.getD 0} outputs={t.2}"
    | none => "bad-op"
  | ["sha512region", n, k] =>
    match n.toNat?.bind sha512TraceOf, k.toNat? with
    | some t, some k => t.1.getD k "no-such-region"
    | _, _ => "bad-op"
  | ["spread512tags"] => ",".intercalate (spreadTab512.toList.map (fun g => s!"{toHex g.1}:{g.2.length}"))
  | ["spread512table", n, tag] =>
    match n.toNat?, parseNat? tag with
    | some n, some tag =>
      match spreadTab512[n]? with
      | some g => if g.1 = tag then ",".intercalate (g.2.map (fun r => s!"{toHex r.1}:{toHex r.2}")) else "wrong-tag"
      | none => "no-such-group"
    | _, _ => "bad-op"
  | ["spreadtags"] => ",".intercalate (spreadTab.toList.map (fun g => s!"{toHex g.1}:{g.2.length}"))
  | ["spreadtable", n, tag] =>
    match n.toNat?, parseNat? tag with
    | some n, some tag =>
      match spreadTab[n]? with
      | some g => if g.1 = tag then ",".intercalate (g.2.map (fun r => s!"{toHex r.1}:{toHex r.2}")) else "wrong-tag"
      | none => "no-such-group"
    | _, _ => "bad-op"
  | ["sha256", m] => match parseBytes? m with
    | some b => fmtBytes (sha256.digest b)
    | none => "bad-op"
  | ["sha512", m] => match parseBytes? m with
    | some b => fmtBytes (sha512.digest b)
    | none => "bad-op"
  | ["rmd160", m] => match parseBytes? m with
    | some b => fmtBytes (rmd160.digest b)
    | none => "bad-op"
  | ["sha256varlen", maxLen, len, buf] =>
    match maxLen.toNat?, len.toNat?, parseBytes? buf with
    | some m, some n, some b =>
      if b.length ≠ m ∨ m % 64 ≠ 0 ∨ m = 0 ∨ n > m then "bad-op" else fmtBytes (sha256Varlen sha256 m b n)
    | _, _, _ => "bad-op"
  | ["sha256buffer", maxLen, filler, d] =>
    match maxLen.toNat?, parseBytes? filler, parseBytes? d with
    | some m, some [f], some b =>
      if m % 64 ≠ 0 ∨ m = 0 ∨ b.length > m then "bad-op" else fmtBytes (byteBuffer m b f)
    | _, _, _ => "bad-op"
  | ["pad256", m] => match parseBytes? m with
    | some b => fmtBytes (sha256.padRust b)
    | none => "bad-op"
  | ["pad512", m] => match parseBytes? m with
    | some b => fmtBytes (sha512.padRust b)
    | none => "bad-op"
  | ["perm", side, st] =>
    match permOf side, parseNatList? st with
    | some f, some st => fmtFq (f (fqList st))
    | _, _ => "bad-op"
  | ["hash", side, inputs] =>
    match permOf side, parseNatList? inputs with
    | some f, some l =>
      match hash params fq f (fqList l) with
      | some d => toHex d.val
      | none => "panic"
    | _, _ => "bad-op"
  | "sponge" :: side :: toks =>
    match permOf side with
    | some f => (runSponge f toks).getD "bad-op"
    | none => "bad-op"
  | ["varlen", maxLen, len, buffer] =>
    match maxLen.toNat?, len.toNat?, parseNatList? buffer with
    | some m, some n, some b =>
      if b.length ≠ m ∨ m % params.rate ≠ 0 ∨ n > m then "bad-op"
      else toHex (varlenLoop params fq permCircuit m (fqList b) n).val
    | _, _, _ => "bad-op"
  | ["buffer", maxLen, align, filler, data] =>
    match maxLen.toNat?, align.toNat?, parseNat? filler, parseNatList? data with
    | some m, some a, some f, some d =>
      if a = 0 ∨ d.length > m then "bad-op" else fmtFq (vecBuffer m a (fqList d) (fq f))
    | _, _, _, _ => "bad-op"
  | ["trace", st] =>
    match parseNatList? st with
    | some st => " ".intercalate (traceRows (fqList st))
    | none => "bad-op"
  | ["rcopt", side] =>
    match side with
    | "cpu" => " ".intercalate (preCpu.roundConstants.map fmtFq)
    | "circuit" => " ".intercalate (preCircuit.roundConstants.map fmtFq)
    | _ => "bad-op"
  | _ => "bad-op"

end MidnightZK.C07.Driver

/-- `mzk-c07 < ops.txt > model.txt` : one answer line per request line. -/
def main : IO UInt32 := do
  MidnightZK.lineLoop (← IO.getStdin) (← IO.getStdout) MidnightZK.C07.Driver.answer
  return 0
