import MidnightZK.Model.Common
/-! Line-protocol handler of property C07 (stub: answers `unimplemented`). -/
namespace MidnightZK.C07.Driver

def answer (_line : String) : String := "unimplemented"

end MidnightZK.C07.Driver
