import MidnightZK.Model.Common
/-! Line-protocol handler of property C08 (stub: answers `unimplemented`). -/
namespace MidnightZK.C08.Driver

def answer (_line : String) : String := "unimplemented"

end MidnightZK.C08.Driver
