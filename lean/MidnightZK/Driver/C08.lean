import MidnightZK.Model.Common
import MidnightZK.Model.C08.PublicInput
import MidnightZK.Model.C08.Expose
import MidnightZK.Model.C08.Verify
import MidnightZK.Model.C08.Handles
import MidnightZK.Model.C08.Names
/-! Line-protocol handler of property C08. -/
namespace MidnightZK.C08.Driver
open MidnightZK MidnightZK.C08

def fmtOpt (l : Option (List Nat)) : String :=
  match l with
  | some l => fmtHexList l
  | none => "panic"

/-- `id` or `0x..:0x..`. -/
def parsePoint (s : String) : Option (Option (Nat × Nat)) :=
  if s = "id" then some none else
  match s.splitOn ":" with
  | [x, y] => do let x ← parseNat? x; let y ← parseNat? y; pure (some (x, y))
  | _ => none

/-- `tag=value`. -/
def parseVal (tok : String) : Option Val :=
  match tok.splitOn "=" with
  | [tag, v] =>
    match tag.splitOn ":" with
    | ["bit"] => if v = "0" then some (.bit false) else if v = "1" then some (.bit true) else none
    | ["byte"] => do let b ← parseNat? v; if b < 256 then pure (.byte b) else none
    | ["native"] => (parseNat? v).map .native
    | ["ff", name] => do let x ← parseNat? v; let _ ← paramsOf name; pure (.ff name x)
    | ["fpoint", c] => do let p ← parsePoint v; let _ ← curveParams c; pure (.fpoint c p)
    | ["jpoint"] =>
      match v.splitOn ":" with
      | [x, y] => do let x ← parseNat? x; let y ← parseNat? y; pure (.jpoint x y)
      | _ => none
    | ["jscalar"] => (parseNat? v).map .jscalar
    | ["big", nb] => do let nb ← nb.toNat?; let x ← parseNat? v; pure (.big nb x)
    | ["bytes"] => do let bs ← parseNatList? v; if bs.all (· < 256) then pure (.bytes bs) else none
    | _ => none
  | _ => none

def parsePath (s : String) : Option Path :=
  if s = "c" then some .constrain
  else if s = "a" then some .assign
  else if s = "m" then some .committed
  else if s = "f" then some .fixed
  else if s.startsWith "d" then ((s.drop 1).toString.toNat?).map .derived
  else none

/-- `path:tag=value` (the tag may itself contain `:`). -/
def parseStep (tok : String) : Option (Path × Val) :=
  match tok.splitOn ":" with
  | p :: rest => do
    let p ← parsePath p
    let v ← parseVal (":".intercalate rest)
    pure (p, v)
  | _ => none

def parseSteps (ws : List String) : Option (List (Path × Val)) :=
  if ws = ["-"] then some [] else ws.mapM parseStep

def fmtBinds (b : List (Nat × Nat)) : String :=
  let contiguous := (b.map (·.1)) == List.range b.length
  s!"{b.length}{if contiguous then "" else "!gap"}:{fmtHexList (b.map (·.2))}"

def modulusOf (name : String) : Option Nat :=
  if name = "native" then some q
  else if name = "jubjub_scalar" then some Gen.jubjubScalarModulus
  else (fieldNames.find? (fun e => e.1 == name)).map (·.2.2)

def answerExpose (steps : List (Path × Val)) : String :=
  match exposeAll {} steps, formatInstance steps with
  | some c, some (plain, com) =>
    let sat := holdsB c.binds plain && holdsB c.comBinds com
    let rej := rejectedEdits q c.binds plain + rejectedEdits q c.comBinds com
    s!"plain={fmtBinds c.binds} com={fmtBinds c.comBinds} sat={fmtBool sat} rej={rej}/{plain.length + com.length}"
  | _, _ => "panic"

/-- Positions index the concatenation plain ++ committed. -/
def answerExposeAt (positions : List Nat) (steps : List (Path × Val)) : String :=
  match exposeAll {} steps, formatInstance steps with
  | some c, some (plain, com) =>
    let sat := holdsB c.binds plain && holdsB c.comBinds com
    let pp := positions.filter (· < plain.length)
    let pc := (positions.filter (fun i => plain.length ≤ i ∧ i < plain.length + com.length)).map (· - plain.length)
    let rej := rejectedEditsAt q c.binds plain pp + rejectedEditsAt q c.comBinds com pc
    s!"plain={fmtBinds c.binds} com={fmtBinds c.comBinds} sat={fmtBool sat} rej={rej}/{positions.length}"
  | _, _ => "panic"

/-- Real proofs: the honest vector (length `n` = recorded count) passes the length check, one
element more or less does not; edited vectors of the right length reach the PLONK verifier,
which rejects them (the instance is absorbed in the transcript and bound by the copy
constraints: properties C02/C03). -/
def answerProof (n : Nat) : String :=
  let honest := lengthCheck n (List.replicate n 0)
  let longer := if lengthCheck n (List.replicate (n + 1) 0) then "ok" else "invalid-instances"
  let shorter := if n = 0 then "n/a" else if lengthCheck n (List.replicate (n - 1) 0) then "ok" else "invalid-instances"
  let tried := if n = 0 then 0 else 3
  s!"honest={fmtBool honest} batch={fmtBool honest} longer={longer}/{longer} shorter={shorter} edits={tried}/{tried}"

def answerNbpi (steps : List (Path × Val)) : String :=
  match exposeAll {} steps, formatInstance steps with
  | some c, some (plain, com) =>
    s!"nb={c.nbPublicInputs} fmt={plain.length} com={c.comOffset} fmtcom={com.length}"
  | _, _ => "panic"

/-- `P1;P2;…` or `-`. -/
def parsePoints (s : String) : Option (List (Option (Nat × Nat))) :=
  if s = "-" then some [] else (s.splitOn ";").mapM parsePoint

/-- `points/scalars/fixed-scalars`. -/
def parseMsm (s : String) : Option Msm :=
  match s.splitOn "/" with
  | [ps, sc, fx] => do
    let ps ← parsePoints ps
    let sc ← parseNatList? sc
    let fx ← parseNatList? fx
    pure { bases := ps, scalars := sc, fixed := fx }
  | _ => none

/-- Exposure of given cells against a given encoding, edits at `positions` (indices into
plain ++ committed). -/
def answerCells (positions : List Nat) (plainCells comCells plain com : List Nat) : String :=
  let c := (({} : Chip).constrainAll plainCells).constrainAllCommitted comCells
  let sat := holdsB c.binds plain && holdsB c.comBinds com
  let pp := positions.filter (· < plain.length)
  let pc := (positions.filter (fun i => plain.length ≤ i ∧ i < plain.length + com.length)).map (· - plain.length)
  let rej := rejectedEditsAt q c.binds plain pp + rejectedEditsAt q c.comBinds com pc
  s!"plain={fmtBinds c.binds} com={fmtBinds c.comBinds} sat={fmtBool sat} rej={rej}/{positions.length}"


/-- `vfy <ch|h> <honest> <v> <steps…>`: the key is set up for `steps`; `v` is the raw vector handed to
the verifier. `coop` = the proof was generated by a prover running the protocol on `v` itself,
`honest` = the proof was generated on `honest` (= `format_instance` of the exposed values). Each
triple is `verify/batch_verify/PLONK verifier without the zk_stdlib length check`. -/
def answerVfy (coop : Bool) (honest v : List Nat) (steps : List (Path × Val)) : String :=
  match exposeAll {} steps, setupVk steps, formatInstance steps with
  | some c, some vk, some (plain, _) =>
    let tri (proved : List Nat) : String :=
      let pl := (absorbInstance proved == absorbInstance v) && plonkAccepts c.binds v
      s!"{(verifyVerdict vk c.binds proved v).str}/{(batchVerdict vk c.binds proved v).str}/{fmtBool pl}"
    s!"nb={vk.nbPublicInputs} fmt={fmtBool (plain == honest)} coop={if coop then tri v else "-"} honest={tri honest}"
  | _, _, _ => "panic"

/-- Answer for given copy constraints on the two columns against given encodings, edits at
`positions` (indices into plain ++ committed). -/
def answerBinds (positions : List Nat) (binds comBinds : List (Nat × Nat)) (plain com : List Nat) : String :=
  let sat := holdsB binds plain && holdsB comBinds com
  let pp := positions.filter (· < plain.length)
  let pc := (positions.filter (fun i => plain.length ≤ i ∧ i < plain.length + com.length)).map (· - plain.length)
  let rej := rejectedEditsAt q binds plain pp + rejectedEditsAt q comBinds com pc
  s!"plain={fmtBinds binds} com={fmtBinds comBinds} sat={fmtBool sat} rej={rej}/{positions.length}"

def parseHandle (s : String) : Option Handle :=
  if s = "chip" then some .chip else if s = "gadget" then some .gadget else if s = "g2" then some .g2
  else if s = "eccsc" then some .eccsc else if s = "ecc" then some .ecc else if s = "ff" then some .ff
  else if s = "ver" then some .ver else none

/-- `L|R`. -/
def parseMsmPair (s : String) : Option (Msm × Msm) :=
  match s.splitOn "|" with
  | [l, r] => do let l ← parseMsm l; let r ← parseMsm r; pure (l, r)
  | _ => none

/-- `<handle>.<path>:<tag>=<value>` or `<handle>.acc=<L>|<R>` / `<handle>.accc=<L>|<R>`. -/
def parseHStep (tok : String) : Option (Handle × HItem) :=
  match tok.splitOn "." with
  | [h, rest] => do
    let h ← parseHandle h
    if rest.startsWith "accc=" then
      let lr ← parseMsmPair (rest.drop 5).toString
      pure (h, .acc true lr.1 lr.2)
    else if rest.startsWith "acc=" then
      let lr ← parseMsmPair (rest.drop 4).toString
      pure (h, .acc false lr.1 lr.2)
    else
      let pv ← parseStep rest
      pure (h, .val pv.1 pv.2)
  | _ => none

/-- `hexpose <positions> <steps…>`: the circuit of `harness/c08/src/handles.rs`, every step
through its own handle on the native chip (`exposeVia codeEnv`: the handle environment derived from the
current source of `struct NativeChip`). -/
def answerHExpose (positions : List Nat) (steps : List (Handle × HItem)) : String :=
  match exposeVia codeEnv {} steps, hencAll (steps.map (·.2)) with
  | some s, some (plain, com) => answerBinds positions s.binds s.comBinds plain com
  | _, _ => "panic"

/-- `vfycom <plain> <committed> <steps…>`: real keygen/prove/verify with a committed instance.
The two vectors are what the harness computed with the real encoders
(`format_committed_instances`); they must be the model's. -/
def answerVfyCom (plainGiven comGiven : List Nat) (steps : List (Path × Val)) : String :=
  match exposeAll {} steps, setupVk steps, formatInstance steps with
  | some c, some vk, some (pl, cm) =>
    if pl != plainGiven || cm != comGiven then "encoding-mismatch" else
    let v (pi : List Nat) (cmt : Option (List Nat)) : String :=
      (verifyCommittedVerdict vk c.binds c.comBinds pl cm pi cmt).str
    let honest := some (commitKey cm)
    let edits := ((List.range cm.length).filter
      (fun i => v pl (some (commitKey (bump q cm i))) == "rejected")).length
    let pe := if pl.isEmpty then "n/a" else v (bump q pl (pl.length - 1)) honest
    let pt := if pl.isEmpty then "n/a" else v (pl.take (pl.length - 1)) honest
    s!"nb={vk.nbPublicInputs} ncom={c.comOffset} some={v pl honest} none={v pl none} batch={v pl none} edits={edits}/{cm.length} pad0={v pl (some (commitKey (cm ++ [0])))} plain-edit={pe} plain-trunc={pt} plain-longer={v (pl ++ [0]) honest}"
  | _, _, _ => "panic"

def answer (line : String) : String :=
  match words line with
  | ["mod", name] =>
    match modulusOf name with
    | some m => toHex m
    | none => "bad-op"
  | ["params", name] =>
    match paramsOf name with
    | some P => s!"{P.w} {P.n}"
    | none => "bad-op"
  | ["enc", tok] =>
    match parseVal tok with
    | some v => fmtOpt (encode v)
    | none => "bad-op"
  | "expose" :: ws =>
    match parseSteps ws with
    | some steps => answerExpose steps
    | none => "bad-op"
  | "exposeat" :: pos :: ws =>
    match parseNatList? pos, parseSteps ws with
    | some pos, some steps => answerExposeAt pos steps
    | _, _ => "bad-op"
  | ["proof", _, n] =>
    match n.toNat? with
    | some n => answerProof n
    | none => "bad-op"
  | "vfy" :: mode :: honest :: v :: ws =>
    match parseNatList? honest, parseNatList? v, parseSteps ws with
    | some honest, some v, some steps =>
      if mode = "ch" then answerVfy true honest v steps
      else if mode = "h" then answerVfy false honest v steps
      else "bad-op"
    | _, _, _ => "bad-op"
  | "hexpose" :: pos :: ws =>
    match parseNatList? pos, ws.mapM parseHStep with
    | some pos, some steps => answerHExpose pos steps
    | _, _ => "bad-op"
  | "vfycom" :: plain :: com :: ws =>
    match parseNatList? plain, parseNatList? com, parseSteps ws with
    | some plain, some com, some steps => answerVfyCom plain com steps
    | _, _, _ => "bad-op"
  | ["names", vk, nf, np] =>
    match nf.toNat?, np.toNat? with
    | some nf, some np =>
      let ns := fixedBaseNames vk nf np
      s!"{",".intercalate ns} | {",".intercalate (isort strLt ns)} | {",".intercalate ((sortPerm ns).map toString)}"
    | _, _ => "bad-op"
  | ["bigguard", a, d] =>
    match a.toNat?, d.toNat? with
    | some a, some d =>
      if bigExposeGuard Gen.bigLog2Base (assignBounds Gen.bigLog2Base a) d then "ok" else "error"
    | _, _ => "bad-op"
  | "nbpi" :: ws =>
    match parseSteps ws with
    | some steps => answerNbpi steps
    | none => "bad-op"
  | ["exposevk", pos, r] =>
    match parseNatList? pos, parseNat? r with
    | some pos, some r => answerCells pos (encVk q r) [] (encVk q r) []
    | _, _ => "bad-op"
  | ["exposeacc", pos, l, r] =>
    match parseNatList? pos, curveParams "bls", parseMsm l, parseMsm r with
    | some pos, some P, some l, some r => answerCells pos (cellsAcc q P l r) [] (encAcc q P l r) []
    | _, _, _, _ => "bad-op"
  | ["exposeaccc", pos, l, r] =>
    match parseNatList? pos, curveParams "bls", parseMsm l, parseMsm r with
    | some pos, some P, some l, some r =>
      let cs := cellsAccCommitted q P l r
      let e := encAccCommitted q P l r
      answerCells pos cs.1 cs.2 e.1 e.2
    | _, _, _, _ => "bad-op"
  | ["encvk", r] =>
    match parseNat? r with
    | some r => fmtHexList (encVk q r)
    | none => "bad-op"
  | ["encmsm", c, m] =>
    match curveParams c, parseMsm m with
    | some P, some m => fmtHexList (encMsm q P m)
    | _, _ => "bad-op"
  | ["encmsmc", c, m] =>
    match curveParams c, parseMsm m with
    | some P, some m => let r := encMsmCommitted q P m; s!"{fmtHexList r.1} | {fmtHexList r.2}"
    | _, _ => "bad-op"
  | ["encacc", c, l, r] =>
    match curveParams c, parseMsm l, parseMsm r with
    | some P, some l, some r => fmtHexList (encAcc q P l r)
    | _, _, _ => "bad-op"
  | ["encaccc", c, l, r] =>
    match curveParams c, parseMsm l, parseMsm r with
    | some P, some l, some r => let e := encAccCommitted q P l r; s!"{fmtHexList e.1} | {fmtHexList e.2}"
    | _, _, _ => "bad-op"
  | _ => "bad-op"

end MidnightZK.C08.Driver

/-- `mzk-c08 < ops.txt > model.txt` : one answer line per request line. -/
def main : IO UInt32 := do
  MidnightZK.lineLoop (← IO.getStdin) (← IO.getStdout) MidnightZK.C08.Driver.answer
  return 0
