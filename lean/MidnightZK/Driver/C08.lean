import MidnightZK.Model.Common
/-! Line-protocol handler of property C08 (stub: answers `unimplemented`). -/
namespace MidnightZK.C08.Driver

def answer (_line : String) : String := "unimplemented"

end MidnightZK.C08.Driver

/-- `mzk-c08 < ops.txt > model.txt` : one answer line per request line. -/
def main : IO UInt32 := do
  MidnightZK.lineLoop (← IO.getStdin) (← IO.getStdout) MidnightZK.C08.Driver.answer
  return 0
