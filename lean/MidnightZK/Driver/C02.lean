import MidnightZK.Model.Common
/-! Line-protocol handler of property C02 (stub: answers `unimplemented`). -/
namespace MidnightZK.C02.Driver

def answer (_line : String) : String := "unimplemented"

end MidnightZK.C02.Driver
