import MidnightZK.Model.Common
/-! Line-protocol handler of property C02 (stub: answers `unimplemented`). -/
namespace MidnightZK.C02.Driver

def answer (_line : String) : String := "unimplemented"

end MidnightZK.C02.Driver

/-- `mzk-c02 < ops.txt > model.txt` : one answer line per request line. -/
def main : IO UInt32 := do
  MidnightZK.lineLoop (← IO.getStdin) (← IO.getStdout) MidnightZK.C02.Driver.answer
  return 0
