import MidnightZK.Model.Common
import MidnightZK.Model.C02.RowSat
import MidnightZK.Model.C02.Parse
import MidnightZK.Model.C02.Identities
import MidnightZK.Model.C02.Label
import MidnightZK.Model.C01.Parse
import MidnightZK.Gen.C02Consts
import MidnightZK.Model.C02.Fld
import MidnightZK.Model.C02.CsParams
import MidnightZK.Model.C02.Fill
/-! Line-protocol handler of property C02:
* `sat <cs fields> <table fields>` → verdicts of the row-level semantics (the unusable rows of the advice
  columns are poisoned by the model itself, `Fill.applyPoison`, not taken from the dump);
* `satrows <cs fields> <table fields> gr=… lr=…` → `verify_at_rows` on the given gate / lookup-input rows
  and whether `assert_satisfied` returns;
* `ids <shape fields> <cs fields> nc=… inst=… tr=…` → every identity value the verifier folds,
  `y`, `x^n`, `expected_h_eval`, recomputed by `Model/C02/Identities.lean` from the recorded
  transcript scalars labelled with `Model/C01/Schedule.lean: verifierSchedule`;
* `csparams <shape fields> <cs fields>` → `degree()`, `blinding_factors()`, column sets, usable rows;
* `domain k=…` → `omega` of the evaluation domain and `F::DELTA` from the generated constants;
* `fixedcols n=… bl=… nf=… ops=…` → the fixed columns after replaying the requested writes through the
  mirrors of `keygen.rs: Assembly::{assign_fixed, fill_from_row}` and of `MockProver`'s;
* `mockinit n=… bl=… na=…` → the rows of every advice column `MockProver::run` poisons. -/
namespace MidnightZK.C02.Driver
open MidnightZK MidnightZK.C02 MidnightZK.C02.Parse

/-- The field of the proof system: constants regenerated from `curves/src/bls12_381/fq.rs`. -/
def fld : Ids.Fld := blsFld

def splitBy (sizes : List Nat) (l : List α) : List (List α) :=
  match sizes with
  | [] => []
  | k :: ks => l.take k :: splitBy ks (l.drop k)

def parseHexList (s : String) : Option (List Nat) :=
  if s = "-" then some [] else (s.splitOn ",").mapM parseHex?

/-- `inst=`: proofs separated by `|`, plain columns by `/`, values by `,`; `_` = no plain column. -/
def parseInst (s : String) : Option (List (List (List Nat))) :=
  (s.splitOn "|").mapM fun pr =>
    if pr = "_" then some [] else (pr.splitOn "/").mapM parseHexList

/-- `tr=`: `R<hex>` (scalar read from the proof) or `S<hex>` (squeezed challenge). -/
def parseStream (s : String) : Option (List (Bool × Nat)) :=
  if s = "-" then some [] else
  (s.splitOn ",").mapM fun t =>
    match t.toList with
    | 'R' :: h => (parseHex? (String.ofList h)).map fun v => (false, v)
    | 'S' :: h => (parseHex? (String.ofList h)).map fun v => (true, v)
    | _ => none

/-- The verifier's view of the constraint system (`ids_cs_string` of the harness). -/
def parseVCS (ws : List String) : Option (C01.Shape × Ids.VCS) := do
  let sh ← C01.Parse.parseShape? ws
  let gp ← parseNatList? (← kv ws "gp")
  let gatesFlat ← parseExprList (← kv ws "gates") ";"
  if gp.foldl (· + ·) 0 ≠ gatesFlat.length then none
  let lookups ← parsePairs (← kv ws "lookups")
  let trash ← (do
    let l ← parsePairs (← kv ws "trash")
    l.mapM fun (a, b) => match a with | [q] => some (q, b) | _ => none)
  let pcols ← parsePermCols (← kv ws "pcols")
  if sh.numLookups ≠ lookups.length ∨ sh.numTrash ≠ trash.length ∨ sh.permCols ≠ pcols.length then none
  pure (sh,
    { gates := splitBy gp gatesFlat, lookups := lookups, trash := trash, permCols := pcols,
      adviceQueries := sh.adviceQueries, fixedQueries := sh.fixedQueries,
      instanceQueries := sh.instanceQueries, degree := sh.degree, blinding := sh.blinding, k := sh.k })

def answerIds (ws : List String) : Option String := do
  let p ← parseHex? (← kv ws "p")
  if p ≠ fld.p then none
  let (sh, cs) ← parseVCS ws
  let nc ← parseNat? (← kv ws "nc")
  let plain ← parseInst (← kv ws "inst")
  let stream ← parseStream (← kv ws "tr")
  match Label.run fld cs sh.advicePhase sh.challengePhase nc plain stream with
  | none => pure "schedule-mismatch"
  | some (ch, r) =>
    pure s!"n={r.ids.length} vals={fmtHexList (r.ids.map (·.2))} y={toHex ch.y} xn={toHex r.xn} h={toHex r.h}"

/-- `csparams`: `degree()`, `blinding_factors()`, number of permutation column sets and number of
usable rows recomputed from the dumped expressions / query lists (`deg=`, `bl=` are not read). -/
def answerCsParams (ws : List String) : Option String := do
  let (sh, cs) ← parseVCS ws
  let bl := Ids.blindingFactors sh.advicePhase.length cs
  pure s!"deg={Ids.csDegree cs} bl={bl} sets={Ids.csNumSets cs} usable={2 ^ cs.k - (bl + 1)}"

/-- `fixedcols`: both replays (`error` when a write is refused). -/
def answerFixedCols (ws : List String) : Option String := do
  let n ← parseNat? (← kv ws "n")
  let bl ← parseNat? (← kv ws "bl")
  let nf ← parseNat? (← kv ws "nf")
  let ops ← Fill.parseOps (← kv ws "ops")
  let usable := n - (bl + 1)
  let key := match Fill.keyReplay n usable nf ops with
    | some cols => Fill.renderCols cols
    | none => "error"
  let mock := match Fill.mockReplay n usable nf ops with
    | some cols => Fill.renderCols (cols.map (List.map Fill.cellNat))
    | none => "error"
  pure s!"key={key} mock={mock}"

/-- `mockinit`: poisoned rows of the `na` advice columns. -/
def answerMockInit (ws : List String) : Option String := do
  let n ← parseNat? (← kv ws "n")
  let bl ← parseNat? (← kv ws "bl")
  let na ← parseNat? (← kv ws "na")
  let col := Fill.mockAdviceInit n (n - (bl + 1))
  let (rows, tagged) := Fill.poisonRows col
  let one := fmtNatList rows ++ (if tagged then "" else "!tag")
  pure s!"poison={if na = 0 then "-" else "/".intercalate (List.replicate na one)}"

def answer (line : String) : String :=
  match words line with
  | "fixedcols" :: rest => (answerFixedCols rest).getD "bad-op"
  | "mockinit" :: rest => (answerMockInit rest).getD "bad-op"
  | "sat" :: rest =>
    match (parseCase rest).map (fun (cs, t) =>
        (cs, { t with advice := t.advice.map (Fill.applyPoison (t.n - (cs.blinding + 1))) })) with
    | some (cs, t) =>
      s!"rowSat={fmtBool (rowSat cs t)} mock={fmtBool (mockOK cs t)} gt={fmtBool (gatesOK cs t && trashOK cs t)} lookups={fmtBool (lookupsOKMock cs t)} copies={fmtBool (copiesOK cs t)}"
    | none => "bad-op"
  | "satrows" :: rest =>
    match parseCase rest, (kv rest "gr").bind parseNatList?, (kv rest "lr").bind parseNatList? with
    | some (cs, t), some gr, some lr =>
      s!"mockAt={fmtBool (mockOKAt cs t gr lr)} assert={fmtBool (mockOK cs t)}"
    | _, _, _ => "bad-op"
  | "ids" :: rest => (answerIds rest).getD "bad-op"
  | "csparams" :: rest => (answerCsParams rest).getD "bad-op"
  | ["domain", kk] =>
    match (if kk.startsWith "k=" then parseNat? (kk.drop 2).toString else none) with
    | some k => s!"omega={toHex (Ids.omegaOf fld k)} delta={toHex (fld.delta % fld.p)}"
    | none => "bad-op"
  | _ => "bad-op"

end MidnightZK.C02.Driver

/-- `mzk-c02 < ops.txt > model.txt` : one answer line per request line. -/
def main : IO UInt32 := do
  MidnightZK.lineLoop (← IO.getStdin) (← IO.getStdout) MidnightZK.C02.Driver.answer
  return 0
