import MidnightZK.Model.Common
import MidnightZK.Model.C02.RowSat
import MidnightZK.Model.C02.Parse
/-! Line-protocol handler of property C02: `sat <cs fields> <table fields>` → verdicts. -/
namespace MidnightZK.C02.Driver
open MidnightZK MidnightZK.C02 MidnightZK.C02.Parse

def answer (line : String) : String :=
  match words line with
  | "sat" :: rest =>
    match parseCase rest with
    | some (cs, t) =>
      s!"rowSat={fmtBool (rowSat cs t)} mock={fmtBool (mockOK cs t)} gt={fmtBool (gatesOK cs t && trashOK cs t)} lookups={fmtBool (lookupsOKMock cs t)} copies={fmtBool (copiesOK cs t)}"
    | none => "bad-op"
  | _ => "bad-op"

end MidnightZK.C02.Driver

/-- `mzk-c02 < ops.txt > model.txt` : one answer line per request line. -/
def main : IO UInt32 := do
  MidnightZK.lineLoop (← IO.getStdin) (← IO.getStdout) MidnightZK.C02.Driver.answer
  return 0
