import MidnightZK.Model.Common
/-! Line-protocol handler of property C03 (stub: answers `unimplemented`). -/
namespace MidnightZK.C03.Driver

def answer (_line : String) : String := "unimplemented"

end MidnightZK.C03.Driver
