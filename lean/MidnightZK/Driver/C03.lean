import MidnightZK.Model.Common
import MidnightZK.Model.C03.Binding
import MidnightZK.Model.C03.Absorb
import MidnightZK.Model.C03.VK
import MidnightZK.Model.C03.Batch
import MidnightZK.Model.C03.VKView
import MidnightZK.Model.C01.Parse
/-! Line-protocol handler of property C03. -/
namespace MidnightZK.C03.Driver
open MidnightZK MidnightZK.C01 MidnightZK.C03

def hexBytes? (s : String) : Option (List Nat) :=
  let rec go : List Char → Option (List Nat)
    | [] => some []
    | a :: b :: t => do
      let v ← parseHex? (String.ofList [a, b])
      let r ← go t
      pure (v :: r)
    | _ => none
  if s = "-" then some [] else go s.toList

def bytesHex (bs : List Nat) : String :=
  if bs.isEmpty then "-" else String.ofList (bs.flatMap fun b => [hexDigit (b / 16), hexDigit (b % 16)])

/-- `none` = the empty list; otherwise `sep`-separated items. -/
def listOf? {α} (sep : String) (f : String → Option α) (s : String) : Option (List α) :=
  if s = "none" then some [] else (s.splitOn sep).mapM f

/-- Compressed point given as 96 hex digits. -/
def pointOfHex? (s : String) : Option Pt := do
  let bs ← hexBytes? s
  g1Dec bs

/-- Affine point given as `x:y` (hex numbers) or `inf`. -/
def pointOfCoords? (s : String) : Option Pt :=
  if s = "inf" then some .inf else
  match s.splitOn ":" with
  | [x, y] => do
    let x ← parseNat? x
    let y ← parseNat? y
    pure (.aff x y)
  | _ => none

def parseStmt? (ws : List String) : Option Stmt := do
  let vk ← parseNat? (← C01.Parse.kv ws "vk")
  let nc ← parseNat? (← C01.Parse.kv ws "nc")
  -- one `;`-separated entry per proof (at least one proof); `none` = no column in that proof
  let coms ← ((← C01.Parse.kv ws "coms").splitOn ";").mapM (listOf? "," pointOfHex?)
  let cols ← ((← C01.Parse.kv ws "cols").splitOn ";").mapM (listOf? "|" parseNatList?)
  pure { vkRepr := vk, nCommitted := nc, coms := coms, cols := cols }

def fmtPoint : Pt → String
  | .inf => "inf"
  | .aff x y => s!"some {toHex x} {toHex y}"

def answer (line : String) : String :=
  match words line with
  | "layout" :: rest =>
    match C01.Parse.parseShape? rest, C01.Parse.parseCfg? rest with
    | some sh, some cfg =>
      " ".intercalate ((layout sh cfg).map fun (off, e) =>
        s!"{off}:{match e.ty with | .G => "G" | .F => "F"}")
    | _, _ => "bad-op"
  | ["inststream", cols] =>
    let parsed : Option (List (List Nat)) :=
      if cols = "-" then some [] else (cols.splitOn "|").mapM parseNatList?
    match parsed with
    | some cs => if (instStream cs).isEmpty then "-" else ",".intercalate ((instStream cs).map toHex)
    | none => "bad-op"
  | ["scalar", hex] =>
    match hexBytes? hex with
    | some bs =>
      match decodeScalar bs with
      | some v => s!"some {toHex v}"
      | none => "none"
    | none => "bad-op"
  | ["point", hex] =>
    match hexBytes? hex with
    | some bs =>
      match g1Dec bs with
      | some p => fmtPoint p
      | none => "none"
    | none => "bad-op"
  | ["pointinput", pt] =>
    -- Poseidon `to_input` and BLAKE2b `to_input` of a point given by its affine coordinates
    match pointOfCoords? pt with
    | some p => s!"{fmtHexList (pointLimbs p)} {bytesHex (C16.encodeG1c p)}"
    | none => "bad-op"
  | "absorbed" :: hash :: rest =>
    match C01.Parse.parseShape? rest, parseStmt? rest, (C01.Parse.kv rest "proof").bind hexBytes? with
    | some sh, some st, some proof =>
      let evs := verifierSchedule sh st.cfg
      match parseProof evs proof with
      | none => "reject"
      | some pv =>
        match assemble st evs pv with
        | none => "bad-statement"
        | some vals =>
          if absorbVals st evs ≠ some (stmtVals st) ∨ st.coms.length ≠ st.cols.length then "bad-statement-order"
          else if hash = "blake" then
            s!"{bytesHex (blakeStream evs vals)} sq={fmtNatList (blakeSqueezeOffsets evs vals 0)}"
          else if hash = "poseidon" then
            "|".intercalate ((poseidonBlocks evs vals [] 0).map fmtHexList)
          else "bad-op"
    | _, _, _ => "bad-op"
  | "parse" :: rest =>
    match C01.Parse.parseShape? rest, C01.Parse.parseCfg? rest, (C01.Parse.kv rest "proof").bind hexBytes? with
    | some sh, some cfg, some proof =>
      let tys := elemTys (verifierSchedule sh cfg)
      match firstBadElem g1Dec tys proof 0 with
      | some i => s!"reject {i}"
      | none =>
        let used := (tys.map elemSize).foldl (· + ·) 0
        if proof.length = used then s!"ok {tys.length}" else s!"trailing {proof.length - used}"
    | _, _, _ => "bad-op"
  | "verifyparse" :: rest =>
    -- `zk_stdlib::verify` (BlstPLONK::verify) at the parsing level
    match C01.Parse.parseShape? rest, C01.Parse.parseCfg? rest, (C01.Parse.kv rest "proof").bind hexBytes? with
    | some sh, some cfg, some proof =>
      if (verifyParse g1Dec (verifierSchedule sh cfg) proof).isSome then "ok" else "reject"
    | _, _, _ => "bad-op"
  | "batchparse" :: rest =>
    -- `zk_stdlib::batch_verify` at the parsing level, all members under the same key
    match C01.Parse.parseShape? rest, C01.Parse.parseCfg? rest,
          (C01.Parse.kv rest "proofs").bind fun s => (s.splitOn ";").mapM hexBytes? with
    | some sh, some cfg, some proofs =>
      let evs := verifierSchedule sh cfg
      match batchFirstBad g1Dec (proofs.map fun p => (evs, p)) 0 with
      | some i => s!"reject {i}"
      | none => "ok"
    | _, _, _ => "bad-op"
  | "csdebug" :: rest =>
    -- the real `format!("{:?}", cs.pinned())`: top-level fields (name:length), names checked against the generated
    -- order list for this number of challenges and these advice phases
    match (C01.Parse.kv rest "nch").bind parseNat?, (C01.Parse.kv rest "ap").bind (listOf? "," parseNat?),
          (C01.Parse.kv rest "cs").bind hexBytes? with
    | some nch, some ap, some bs =>
      match splitDebugStruct bs with
      | none => "unparsed"
      | some (name, fields) =>
        let str := fun (l : List Nat) => String.ofList (l.map Char.ofNat)
        let names := fields.map fun f => str f.1
        let body := ",".intercalate (fields.map fun f => s!"{str f.1}:{f.2}")
        if str name = Gen.csDebugName ∧ names = csDebugFieldNames (showPhaseFields nch ap) then s!"{str name} {body}"
        else s!"FIELD-ORDER-MISMATCH model={Gen.csDebugName} {csDebugFieldNames (showPhaseFields nch ap)} string={str name} {names}"
    | _, _, _ => "bad-op"
  | "vkinput" :: rest =>
    match (C01.Parse.kv rest "k").bind parseNat?,
          (C01.Parse.kv rest "fixed").bind (listOf? "," pointOfCoords?),
          (C01.Parse.kv rest "perm").bind (listOf? "," pointOfCoords?),
          (C01.Parse.kv rest "domain").bind hexBytes?,
          (C01.Parse.kv rest "cs").bind hexBytes? with
    | some k, some fixed, some perm, some d, some c =>
      bytesHex (vkHashInput { k := k, fixed := fixed, perm := perm, domainDbg := d, csDbg := c })
    | _, _, _, _, _ => "bad-op"
  | _ => "bad-op"

end MidnightZK.C03.Driver

/-- `mzk-c03 < ops.txt > model.txt` : one answer line per request line. -/
def main : IO UInt32 := do
  MidnightZK.lineLoop (← IO.getStdin) (← IO.getStdout) MidnightZK.C03.Driver.answer
  return 0
