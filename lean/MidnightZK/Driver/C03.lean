import MidnightZK.Model.Common
/-! Line-protocol handler of property C03 (stub: answers `unimplemented`). -/
namespace MidnightZK.C03.Driver

def answer (_line : String) : String := "unimplemented"

end MidnightZK.C03.Driver

/-- `mzk-c03 < ops.txt > model.txt` : one answer line per request line. -/
def main : IO UInt32 := do
  MidnightZK.lineLoop (← IO.getStdin) (← IO.getStdout) MidnightZK.C03.Driver.answer
  return 0
