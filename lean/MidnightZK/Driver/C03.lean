import MidnightZK.Model.Common
import MidnightZK.Model.C03.Binding
import MidnightZK.Model.C01.Parse
/-! Line-protocol handler of property C03. -/
namespace MidnightZK.C03.Driver
open MidnightZK MidnightZK.C01 MidnightZK.C03

def hexBytes? (s : String) : Option (List Nat) :=
  let rec go : List Char → Option (List Nat)
    | [] => some []
    | a :: b :: t => do
      let v ← parseHex? (String.ofList [a, b])
      let r ← go t
      pure (v :: r)
    | _ => none
  go s.toList

def answer (line : String) : String :=
  match words line with
  | "layout" :: rest =>
    match C01.Parse.parseShape? rest, C01.Parse.parseCfg? rest with
    | some sh, some cfg =>
      " ".intercalate ((layout sh cfg).map fun (off, e) =>
        s!"{off}:{match e.ty with | .G => "G" | .F => "F"}")
    | _, _ => "bad-op"
  | ["inststream", cols] =>
    let parsed : Option (List (List Nat)) :=
      if cols = "-" then some [] else (cols.splitOn "|").mapM parseNatList?
    match parsed with
    | some cs => if (instStream cs).isEmpty then "-" else ",".intercalate ((instStream cs).map toHex)
    | none => "bad-op"
  | ["scalar", hex] =>
    match hexBytes? hex with
    | some bs =>
      match decodeScalar bs with
      | some v => s!"some {toHex v}"
      | none => "none"
    | none => "bad-op"
  | _ => "bad-op"

end MidnightZK.C03.Driver

/-- `mzk-c03 < ops.txt > model.txt` : one answer line per request line. -/
def main : IO UInt32 := do
  MidnightZK.lineLoop (← IO.getStdin) (← IO.getStdout) MidnightZK.C03.Driver.answer
  return 0
