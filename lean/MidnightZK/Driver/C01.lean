import MidnightZK.Model.Common
import MidnightZK.Model.C01.Schedule
import MidnightZK.Model.C01.Parse
import MidnightZK.Model.C01.GraphDump
/-! Line-protocol handler of property C01. -/
namespace MidnightZK.C01.Driver
open MidnightZK MidnightZK.C01 MidnightZK.C01.Parse

def tok (e : Ev) : String :=
  let t := match e.ty with | .G => "G" | .F => "F"
  match e.kind with
  | .squeeze => "S"
  | .absorb => "C" ++ t
  | .elem => "E" ++ t

def answer (line : String) : String :=
  match words line with
  | "schedule" :: side :: rest =>
    match parseShape? rest, parseCfg? rest with
    | some sh, some cfg =>
      if side = "P" then " ".intercalate ((proverSchedule sh cfg).map tok)
      else if side = "V" then " ".intercalate ((verifierSchedule sh cfg).map tok)
      else "bad-op"
    | _, _ => "bad-op"
  | ["graph", gates] =>
    match C02.Parse.parseExprList gates ";" with
    | some es => Graph.render (es.map Graph.ofC02)
    | none => "bad-op"
  | "prooflen" :: rest =>
    match parseShape? rest, parseCfg? rest with
    | some sh, some cfg => toString (proofLen sh cfg)
    | _, _ => "bad-op"
  | _ => "bad-op"

end MidnightZK.C01.Driver

/-- `mzk-c01 < ops.txt > model.txt` : one answer line per request line. -/
def main : IO UInt32 := do
  MidnightZK.lineLoop (← IO.getStdin) (← IO.getStdout) MidnightZK.C01.Driver.answer
  return 0
