import MidnightZK.Model.Common
/-! Line-protocol handler of property C01 (stub: answers `unimplemented`). -/
namespace MidnightZK.C01.Driver

def answer (_line : String) : String := "unimplemented"

end MidnightZK.C01.Driver
