import MidnightZK.Model.Common
import MidnightZK.Model.C01.Schedule
import MidnightZK.Model.C01.Parse
import MidnightZK.Model.C01.GraphDump
import MidnightZK.Model.C01.ArgsRun
import MidnightZK.Model.C01.Identities
import MidnightZK.Model.C01.VanRun
import MidnightZK.Model.C01.Rotation
import MidnightZK.Model.C01.GateRowsRun
/-! Line-protocol handler of property C01. -/
namespace MidnightZK.C01.Driver
open MidnightZK MidnightZK.C01 MidnightZK.C01.Parse

def tok (e : Ev) : String :=
  let t := match e.ty with | .G => "G" | .F => "F"
  match e.kind with
  | .squeeze => "S"
  | .absorb => "C" ++ t
  | .elem => "E" ++ t

def answer (line : String) : String :=
  match words line with
  | "schedule" :: side :: rest =>
    match parseShape? rest, parseCfg? rest with
    | some sh, some cfg =>
      if side = "P" then " ".intercalate ((proverSchedule sh cfg).map tok)
      else if side = "V" then " ".intercalate ((verifierSchedule sh cfg).map tok)
      else "bad-op"
    | _, _ => "bad-op"
  | ["graph", gates] =>
    match C02.Parse.parseExprList gates ";" with
    | some es => Graph.render (es.map Graph.ofC02)
    | none => "bad-op"
  | ["lgraph", ins, tabs] =>
    match C02.Parse.parseExprList ins ";", C02.Parse.parseExprList tabs ";" with
    | some a, some b => Graph.renderLookup (a.map Graph.ofC02) (b.map Graph.ofC02)
    | _, _ => "bad-op"
  | ["tgraph", es] =>
    match C02.Parse.parseExprList es ";" with
    | some a => Graph.renderTrash (a.map Graph.ofC02)
    | none => "bad-op"
  | ["rotidx", idx, rot, scale, isize] =>
    match idx.toNat?, rot.toInt?, scale.toInt?, isize.toInt? with
    | some i, some r, some s, some n => if 0 < n then toString (Rot.getRotationIdx i r s n) else "bad-op"
    | _, _, _, _ => "bad-op"
  | "prooflen" :: rest =>
    match parseShape? rest, parseCfg? rest with
    | some sh, some cfg => toString (proofLen sh cfg)
    | _, _ => "bad-op"
  | "idcount" :: rest =>
    let nat (k : String) : Option Nat := (C02.Parse.kv rest k).bind String.toNat?
    match nat "np", nat "g", nat "s", nat "l", nat "t" with
    | some np, some g, some s, some l, some t => toString (Ids.verifierIds ⟨np, g, s, l, t⟩).length
    | _, _, _, _, _ => "bad-op"
  | _ => "bad-op"

/-- Stateful handler: an `argtable` line loads the real table of one proof (answer `ok`), the
argument requests (`permz`, `lookupcomp`, `lookupperm`, `lookupz`, `trashvec`, `permrules`,
`lookuprules`, `trashrules`, `gaterows`) refer to the table loaded last and must carry its `id`; every other
request is stateless. -/
def step (st : Option Args.ArgCase) (line : String) : Option Args.ArgCase × String :=
  match words line with
  | "argtable" :: rest =>
    match Args.parseArgCase rest with
    | some c => (some c, "ok")
    | none => (none, "bad-op")
  | op :: rest =>
    if ["permz", "lookupcomp", "lookupperm", "lookupz", "trashvec", "permrules", "lookuprules", "trashrules"].contains op then
      match st with
      | some c => (st, Args.answerArg c op rest)
      | none => (st, "bad-op")
    else if op = "gaterows" then
      match st with
      | some c => if C02.Parse.kv rest "id" = some c.id then (st, Args.runGateRows c rest) else (st, "bad-op")
      | none => (st, "bad-op")
    else if ["hfold", "lirange", "levals", "insteval"].contains op then (st, Van.answerVan op rest)
    else (st, answer line)
  | [] => (st, "bad-op")

end MidnightZK.C01.Driver

/-- `mzk-c01 < ops.txt > model.txt` : one answer line per request line. -/
def main : IO UInt32 := do
  MidnightZK.lineLoopSt (← IO.getStdin) (← IO.getStdout) MidnightZK.C01.Driver.step none
  return 0
