import MidnightZK.Model.Common
import MidnightZK.Model.C01.Schedule
/-! Line-protocol handler of property C01. -/
namespace MidnightZK.C01.Driver
open MidnightZK MidnightZK.C01

def parseQueries? (s : String) : Option (List (Nat × Int)) :=
  if s = "-" ∨ s.isEmpty then some [] else
  (s.splitOn ",").mapM fun t =>
    match t.splitOn ":" with
    | [c, r] => do
      let c ← parseNat? c
      let r ← parseInt? r
      pure (c, r)
    | _ => none

def kv (ws : List String) (key : String) : Option String :=
  ws.findSome? fun w => if w.startsWith (key ++ "=") then some (w.drop (key.length + 1)).toString else none

def parseShape? (ws : List String) : Option Shape := do
  let ap ← parseNatList? (← kv ws "ap")
  let cp ← parseNatList? (← kv ws "cp")
  let aq ← parseQueries? (← kv ws "aq")
  let iq ← parseQueries? (← kv ws "iq")
  let fq ← parseQueries? (← kv ws "fq")
  let nl ← parseNat? (← kv ws "nl")
  let nt ← parseNat? (← kv ws "nt")
  let pc ← parseNat? (← kv ws "pc")
  let deg ← parseNat? (← kv ws "deg")
  let bl ← parseNat? (← kv ws "bl")
  let k ← parseNat? (← kv ws "k")
  pure { advicePhase := ap, challengePhase := cp, adviceQueries := aq, instanceQueries := iq,
         fixedQueries := fq, numLookups := nl, numTrash := nt, permCols := pc, degree := deg,
         blinding := bl, k := k }

def parseCfg? (ws : List String) : Option Cfg := do
  let np ← parseNat? (← kv ws "np")
  let nc ← parseNat? (← kv ws "nc")
  let lens ← ((← kv ws "lens").splitOn "|").mapM parseNatList?
  pure { nProofs := np, nCommitted := nc, lens := lens }

def tok (e : Ev) : String :=
  let t := match e.ty with | .G => "G" | .F => "F"
  match e.kind with
  | .squeeze => "S"
  | .absorb => "C" ++ t
  | .elem => "E" ++ t

def answer (line : String) : String :=
  match words line with
  | "schedule" :: side :: rest =>
    match parseShape? rest, parseCfg? rest with
    | some sh, some cfg =>
      if side = "P" then " ".intercalate ((proverSchedule sh cfg).map tok)
      else if side = "V" then " ".intercalate ((verifierSchedule sh cfg).map tok)
      else "bad-op"
    | _, _ => "bad-op"
  | "prooflen" :: rest =>
    match parseShape? rest, parseCfg? rest with
    | some sh, some cfg => toString (proofLen sh cfg)
    | _, _ => "bad-op"
  | _ => "bad-op"

end MidnightZK.C01.Driver

/-- `mzk-c01 < ops.txt > model.txt` : one answer line per request line. -/
def main : IO UInt32 := do
  MidnightZK.lineLoop (← IO.getStdin) (← IO.getStdout) MidnightZK.C01.Driver.answer
  return 0
