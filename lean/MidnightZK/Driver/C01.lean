import MidnightZK.Model.Common
/-! Line-protocol handler of property C01 (stub: answers `unimplemented`). -/
namespace MidnightZK.C01.Driver

def answer (_line : String) : String := "unimplemented"

end MidnightZK.C01.Driver

/-- `mzk-c01 < ops.txt > model.txt` : one answer line per request line. -/
def main : IO UInt32 := do
  MidnightZK.lineLoop (← IO.getStdin) (← IO.getStdout) MidnightZK.C01.Driver.answer
  return 0
