import MidnightZK.Model.Common
import MidnightZK.Model.C06.Edwards
import MidnightZK.Model.C06.Weierstrass
import MidnightZK.Model.C06.Fingerprint
import MidnightZK.Model.C06.Htc
import MidnightZK.Gen.C06Gates
import MidnightZK.Gen.C06Htc
/-! Line-protocol handler of property C06.

Requests: `<curve> <op> <args…>` with `curve ∈ {jub, secp, bls}`.
Points: Jubjub `w:X:Y` / `f:X:Y` (witness / constant), Weierstrass `w:I:X:Y` / `f:I:X:Y`.
Answers: `ok <point>` (Jubjub: followed by ` | ` and the rows of the nine ECC columns),
`unsat`, or `bad-op`. -/
namespace MidnightZK.C06.Driver
open MidnightZK MidnightZK.C06

def jub : EdCurve :=
  { p := Gen.nativeModulus, d := Gen.jubD, r := Gen.jubR, h := Gen.jubCofactor,
    scalarBits := Gen.jubScalarBits }
def secp : WCurve := { p := Gen.secpP, b := Gen.secpB, r := Gen.secpR, scalarBits := 256 }
def bls : WCurve := { p := Gen.blsP, b := Gen.blsB, r := Gen.blsR, scalarBits := 255 }

/-- Map-to-curve parameters of Jubjub as the sources have them (`Gen/C06Htc.lean`). -/
def jubH : HtcParams :=
  { p := Gen.nativeModulus, z := Gen.svdwZ, a := Gen.svdwA, b := Gen.svdwB, j := Gen.montJ,
    k := Gen.montK }

/-- Cofactor of BLS12-381 G1 hard-coded in `assert_in_bls12_381_subgroup`. -/
def blsCofactor : Nat := 0x396c8c005555e1568c00aaab0000aaab

/-! ### Jubjub -/

structure JPt where
  fixed : Bool
  pt : Pt

def parseJPt (s : String) : Option JPt :=
  match s.splitOn ":" with
  | [k, x, y] => do
    let x ← parseNat? x
    let y ← parseNat? y
    if k = "w" then some ⟨false, (x, y)⟩ else if k = "f" then some ⟨true, (x, y)⟩ else none
  | _ => none

def fmtCell : Option Nat → String
  | none => "_"
  | some v => toHex v

def fmtRow (r : EdCurve.Row) : String :=
  (if r.qDouble then "d" else "-") ++ (if r.qCondAdd then "c" else "-") ++
    (if r.qMem then "m" else "-") ++ ":" ++ ",".intercalate (r.cells.map fmtCell)

def fmtRows (rs : List EdCurve.Row) : String :=
  if rs.isEmpty then "-" else ";".intercalate (rs.map fmtRow)

def inputRows (ps : List JPt) : List EdCurve.Row :=
  ps.flatMap (fun p => if p.fixed then [] else jub.assignRows p.pt)

def jubAnswer (P : Pt) (ins : List JPt) (opRows : List EdCurve.Row) : String :=
  s!"ok {toHex P.1} {toHex P.2} | {fmtRows (inputRows ins ++ opRows)}"

/-- `n s1 P1 … sn Pn` -/
def parseJTerms : List String → Option (List (Nat × JPt))
  | [] => some []
  | s :: p :: rest => do
    let s ← parseNat? s
    let p ← parseJPt p
    let t ← parseJTerms rest
    some ((s, p) :: t)
  | _ => none

def answerJub (ws : List String) : String :=
  match ws with
  | ["add", p, q] =>
    match parseJPt p, parseJPt q with
    | some p, some q => jubAnswer (jub.add p.pt q.pt) [p, q] [jub.addRow p.pt q.pt]
    | _, _ => "bad-op"
  | ["double", p] =>
    match parseJPt p with
    | some p => jubAnswer (jub.add p.pt p.pt) [p] [jub.addRow p.pt p.pt]
    | _ => "bad-op"
  | ["neg", p] =>
    match parseJPt p with
    | some p => jubAnswer (jub.neg p.pt) [p] []
    | _ => "bad-op"
  | ["assign", p] =>
    match parseJPt p with
    | some p => jubAnswer (jub.assign p.pt) [] (jub.assignRows p.pt)
    | _ => "bad-op"
  | ["assign_fixed", p] =>
    match parseJPt p with
    | some p => jubAnswer p.pt [] []
    | _ => "bad-op"
  | ["coords", p] =>
    -- point_from_coordinates: a fresh `assign` of the same value, then two equality assertions
    match parseJPt p with
    | some p => jubAnswer (jub.assign p.pt) [p] (jub.assignRows p.pt)
    | _ => "bad-op"
  | ["select", b, p, q] =>
    match parseJPt p, parseJPt q with
    | some p, some q =>
      if b = "1" then jubAnswer p.pt [p, q] [] else if b = "0" then jubAnswer q.pt [p, q] []
      else "bad-op"
    | _, _ => "bad-op"
  | ["is_equal", p, q] =>
    match parseJPt p, parseJPt q with
    | some p, some q => s!"ok {fmtBool (p.pt == q.pt)}"
    | _, _ => "bad-op"
  | "msm" :: n :: rest =>
    match n.toNat?, parseJTerms rest with
    | some n, some ts =>
      if ts.length ≠ n then "bad-op" else
      -- `assign` takes a field element: the value is reduced modulo `r`
      let scalars := ts.map (fun t => EdCurve.bitsLE jub.scalarBits (t.1 % jub.r))
      let bases := ts.map (fun t => t.2.pt)
      match jub.msm scalars bases with
      | some r => jubAnswer r (ts.map (·.2)) (jub.msmRows scalars bases)
      | none => "panic"
    | _, _ => "bad-op"
  | ["mul_const", s, p] =>
    match parseNat? s, parseJPt p with
    | some s, some p =>
      let s := s % jub.r
      jubAnswer (jub.mulByConstant s p.pt) [p] (jub.mulByConstantRows s p.pt)
    | _, _ => "bad-op"
  | ["htc_consts"] =>
    -- `Z A B J K c1 c2 c3 c4`, the derived ones recomputed by the model from `Z`, `A`, `B`
    match jubH.c3 with
    | some c3 =>
      " ".intercalate ([jubH.z, jubH.a, jubH.b, jubH.j, jubH.k, jubH.c1, jubH.c2, c3, jubH.c4].map toHex)
    | none => "panic"
  | ["htc_exceptional"] =>
    let fmt := fun (l : List Nat) => if l.isEmpty then "-" else ",".intercalate (l.map toHex)
    match jubH.c3 with
    | some c3 =>
      let z := jubH.zeroGxInputs c3
      s!"{fmt jubH.exceptionalInputs} | {fmt z.1} | {fmt z.2}"
    | none => "panic"
  | ["map_to_curve", u] =>
    match parseNat? u with
    | some u =>
      let f := fun (P : Nat × Nat) => s!"{toHex P.1}:{toHex P.2}"
      match jubH.stages u, jubH.mapToCurve jub u with
      | some (w, m, e), some out => s!"ok w={f w} m={f m} e={f e} out={f out}"
      | _, _ => "panic"
    | none => "bad-op"
  | ["mtc_circuit", u] =>
    -- the membership row of the Edwards point (`point_from_coordinates_unsafe`), then
    -- `clear_cofactor` = `mul_by_constant(COFACTOR, ·)`
    match parseNat? u with
    | some u =>
      match jubH.stages u, jubH.mapToCurve jub u with
      | some (_, _, e), some out =>
        let rows := EdCurve.pointRow e :: jub.mulByConstantRows (jub.h % jub.r) e
        s!"ok {toHex out.1} {toHex out.2} | {fmtRows rows}"
      | _, _ => "unsat"
    | none => "bad-op"
  | ["repr_j", x, y] =>
    match parseNat? x, parseNat? y with
    | some x, some y => toHex (HtcParams.reprJInt jub.p x y)
    | _, _ => "bad-op"
  | ["htc_glue", x1, x2] =>
    match parseNat? x1, parseNat? x2 with
    | some x1, some x2 =>
      match jubH.hashGlue jub x1 x2 with
      | some P => s!"ok {toHex P.1} {toHex P.2}"
      | none => "panic"
    | _, _ => "bad-op"
  | ["mul_bits", nbits, s, p] =>
    -- `scalar_from_le_bytes` (256 bits) / `convert` (255 bits) followed by `msm` of one term
    match nbits.toNat?, parseNat? s, parseJPt p with
    | some nbits, some s, some p =>
      let bits := EdCurve.bitsLE nbits s
      jubAnswer (jub.mul bits p.pt) [p] (jub.mulRows bits p.pt)
    | _, _, _ => "bad-op"
  | _ => "bad-op"

/-! ### Weierstrass chips -/

def parseWPt (s : String) : Option WPt :=
  match s.splitOn ":" with
  | [_, i, x, y] => do
    let x ← parseNat? x
    let y ← parseNat? y
    if i = "1" then some ⟨true, x, y⟩ else if i = "0" then some ⟨false, x, y⟩ else none
  | _ => none

def fmtWPt (P : WPt) : String := s!"{fmtBool P.isId} {toHex P.x} {toHex P.y}"

def fmtRes : WCurve.Res → String
  | .ok P => "ok " ++ fmtWPt P
  | .unsat => "unsat"

def parseWTerms : List String → Option (List (Nat × WPt))
  | [] => some []
  | s :: p :: rest => do
    let s ← parseNat? s
    let p ← parseWPt p
    let t ← parseWTerms rest
    some ((s, p) :: t)
  | _ => none

def answerW (E : WCurve) (isBls : Bool) (ws : List String) : String :=
  match ws with
  | ["add", p, q] =>
    match parseWPt p, parseWPt q with
    | some p, some q => fmtRes (.ok (E.add p q))
    | _, _ => "bad-op"
  | ["double", p] =>
    match parseWPt p with
    | some p => fmtRes (.ok (E.double p))
    | _ => "bad-op"
  | ["neg", p] =>
    match parseWPt p with
    | some p => fmtRes (.ok (E.neg p))
    | _ => "bad-op"
  | ["assign", p] | ["assign_fixed", p] =>
    match parseWPt p with
    | some p => fmtRes (.ok (E.canon p))
    | _ => "bad-op"
  | ["coords", p] =>
    match parseWPt p with
    | some p => fmtRes (E.pointFromCoordinates p)
    | _ => "bad-op"
  | ["select", b, p, q] =>
    match parseWPt p, parseWPt q with
    | some p, some q =>
      if b = "1" then fmtRes (.ok p) else if b = "0" then fmtRes (.ok q) else "bad-op"
    | _, _ => "bad-op"
  | ["is_equal", p, q] =>
    match parseWPt p, parseWPt q with
    | some p, some q => s!"ok {fmtBool ((p.isId && q.isId) || (p.isId == q.isId && p.x == q.x && p.y == q.y))}"
    | _, _ => "bad-op"
  | "msm" :: n :: rest =>
    match n.toNat?, parseWTerms rest with
    | some n, some ts =>
      if ts.length ≠ n then "bad-op" else
      fmtRes (.ok (E.msm (ts.map (fun t => (t.1 % E.r, t.2)))))
    | _, _ => "bad-op"
  | "msm_bits" :: n :: rest =>
    match n.toNat?, parseWTerms rest with
    | some n, some ts => if ts.length ≠ n then "bad-op" else fmtRes (E.msmBits ts)
    | _, _ => "bad-op"
  | ["mul_const", s, p] =>
    match parseNat? s, parseWPt p with
    | some s, some p => fmtRes (E.mulByConstant (s % E.r) p)
    | _, _ => "bad-op"
  | ["mulc_raw", n, x, y] =>
    -- `point_from_coordinates(x, y)` + `mul_by_constant(n, ·)`, honest prover
    match parseNat? n, parseNat? x, parseNat? y with
    | some n, some x, some y => fmtRes (E.mulConstRaw E.incAddHonest n x y)
    | _, _, _ => "bad-op"
  | ["mulc_forge", n, x, y] =>
    -- the same circuit against the prover that exploits an `incomplete_add` with equal operands
    match parseNat? n, parseNat? x, parseNat? y with
    | some n, some x, some y => fmtRes (E.mulConstRaw E.incAddForge n x y)
    | _, _, _ => "bad-op"
  | ["subgroup_check", p] =>
    if !isBls then "bad-op" else
    match parseWPt p with
    | some p =>
      -- root = h⁻¹·P (honest prover); the circuit asserts `mul_by_constant(h, root) = P`
      let root := E.smul (invModE (blsCofactor % E.r) E.r) p
      match E.mulByConstant (blsCofactor % E.r) root with
      | .ok q => if E.canon q == E.canon p then fmtRes (.ok (E.canon p)) else "unsat"
      | .unsat => "unsat"
    | _ => "bad-op"
  | _ => "bad-op"

/-! ### Activations of the EC custom gates -/

def fmtCond : WCurve.Cond → String
  | .off => "0"
  | .on => "1"
  | .neg => "-1"

def fmtAct : WCurve.Cond × WCurve.Act → String
  | (c, .onCurve _ x y) => s!"oc:{fmtCond c}:{toHex x}:{toHex y}"
  | (c, .slope _ px py qx qy l) => s!"sl:{fmtCond c}:{toHex px}:{toHex py}:{toHex qx}:{toHex qy}:{toHex l}"
  | (c, .tangent _ px py l) => s!"tg:{fmtCond c}:{toHex px}:{toHex py}:{toHex l}"
  | (c, .lamSq _ px qx rx l) => s!"ls:{fmtCond c}:{toHex px}:{toHex qx}:{toHex rx}:{toHex l}"

def fmtActs (l : List (WCurve.Cond × WCurve.Act)) : String :=
  if l.isEmpty then "-" else ";".intercalate (l.map fmtAct)

def isWitness (s : String) : Bool := s.startsWith "w:"

/-- Activations caused by assigning the inputs (constants cause none). -/
def inputActs (E : WCurve) (ps : List String) : Option (List (WCurve.Cond × WCurve.Act)) := do
  let l ← ps.mapM (fun s => do
    let p ← parseWPt s
    pure (if isWitness s then E.assignActs p else []))
  pure l.flatten

def answerActs (E : WCurve) (ws : List String) : String :=
  match ws with
  | ["add", p, q] =>
    match inputActs E [p, q], parseWPt p, parseWPt q with
    | some ia, some P, some Q => fmtActs (ia ++ E.addActs P Q)
    | _, _, _ => "bad-op"
  | ["double", p] =>
    match inputActs E [p], parseWPt p with
    | some ia, some P => fmtActs (ia ++ E.doubleActs P)
    | _, _ => "bad-op"
  | ["neg", p] =>
    match inputActs E [p] with
    | some ia => fmtActs ia
    | _ => "bad-op"
  | ["select", _, p, q] =>
    match inputActs E [p, q] with
    | some ia => fmtActs ia
    | _ => "bad-op"
  | ["assign", p] =>
    match parseWPt p with
    | some P => fmtActs (E.assignActs P)
    | _ => "bad-op"
  | ["assign_fixed", _] => "-"
  | ["coords", p] =>
    match inputActs E [p], parseWPt p with
    | some ia, some P => fmtActs (ia ++ [(WCurve.Cond.on, WCurve.Act.onCurve 0 P.x P.y)])
    | _, _ => "bad-op"
  | _ => "bad-op"

def fmtShape (s : WCurve.Shape) : String := s!"oc={s.oc} sl={s.sl} tg={s.tg} ls={s.ls}"

def nbWitness (ps : List String) : Nat := (ps.filter isWitness).length

/-- every second word of `s1 P1 s2 P2 …` -/
def termPoints : List String → List String
  | _ :: p :: rest => p :: termPoints rest
  | _ => []

def kv (key : String) (w : String) : Option (List Nat) :=
  if w.startsWith (key ++ "=") then parseNatList? (w.drop (key.length + 1)).toString else none

def answerShape (E : WCurve) (ws : List String) : String :=
  match ws with
  | ["mul_const", s, p] =>
    match parseNat? s with
    | some s => fmtShape (WCurve.shAssign.scale (nbWitness [p]) + WCurve.shMulByConstant (s % E.r))
    | none => "bad-op"
  | "msm" :: n :: rest =>
    match n.toNat? with
    | some n =>
      fmtShape (WCurve.shAssign.scale (nbWitness (termPoints rest)) +
        E.shMsmBounded (List.replicate n E.scalarBits))
    | none => "bad-op"
  | b :: "msm" :: _ :: rest =>
    match kv "bounds" b with
    | some bs => fmtShape (WCurve.shAssign.scale (nbWitness (termPoints rest)) + E.shMsmBounded bs)
    | none => "bad-op"
  | l :: "msm_bits" :: _ :: rest =>
    match kv "lens" l with
    | some ls => fmtShape (WCurve.shAssign.scale (nbWitness (termPoints rest)) + WCurve.shMsmBits ls)
    | none => "bad-op"
  | ["subgroup_check", p] =>
    -- the input, the cofactor root (assigned), `mul_by_constant(h, root)`
    fmtShape (WCurve.shAssign.scale (nbWitness [p] + 1) + WCurve.shMulByConstant (blsCofactor % E.r))
  | _ => "bad-op"

def answer (line : String) : String :=
  match words line with
  | [chip, "fingerprint", op, pattern] =>
    match fingerprint chip op pattern with
    | some s => s
    | none => "bad-op"
  | "jub" :: ws => answerJub ws
  | "secp" :: "acts" :: ws => answerActs secp ws
  | "bls" :: "acts" :: ws => answerActs bls ws
  | "secp" :: "shape" :: ws => answerShape secp ws
  | "bls" :: "shape" :: ws => answerShape bls ws
  | "secp" :: ws => answerW secp false ws
  | "bls" :: ws => answerW bls true ws
  | _ => "bad-op"

end MidnightZK.C06.Driver

/-- `mzk-c06 < ops.txt > model.txt` : one answer line per request line. -/
def main : IO UInt32 := do
  MidnightZK.lineLoop (← IO.getStdin) (← IO.getStdout) MidnightZK.C06.Driver.answer
  return 0
