import MidnightZK.Model.Common
/-! Line-protocol handler of property C06 (stub: answers `unimplemented`). -/
namespace MidnightZK.C06.Driver

def answer (_line : String) : String := "unimplemented"

end MidnightZK.C06.Driver
