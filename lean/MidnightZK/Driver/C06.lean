import MidnightZK.Model.Common
/-! Line-protocol handler of property C06 (stub: answers `unimplemented`). -/
namespace MidnightZK.C06.Driver

def answer (_line : String) : String := "unimplemented"

end MidnightZK.C06.Driver

/-- `mzk-c06 < ops.txt > model.txt` : one answer line per request line. -/
def main : IO UInt32 := do
  MidnightZK.lineLoop (← IO.getStdin) (← IO.getStdout) MidnightZK.C06.Driver.answer
  return 0
