import Std.Data.HashMap
import MidnightZK.Model.Common
import MidnightZK.Model.C16.Points
import MidnightZK.Model.C16.Arch
import MidnightZK.Model.C16.VK
import MidnightZK.Model.C16.Proof
import MidnightZK.Model.C16.IR
import MidnightZK.Model.C16.Compile
/-!
Line-protocol handler of property C16.

State: a memo table of G1 point decodings. Every `g1` request is answered by `decodeG1` and
remembered; `mvk`/`vk` requests run the pure model `decodeMVKWith`/`decodeVKWith` with a point
decoder that looks a chunk up in the table first and otherwise calls `decodeG1` — extensionally
the same function, it only avoids recomputing the subgroup check of chunks seen before.
-/
namespace MidnightZK.C16.Driver
open MidnightZK MidnightZK.C16 MidnightZK.C16.Gen

abbrev Cache := Std.HashMap (Bool × Bytes) (Except Err G1Pt)

def fmtOf? : String → Option Fmt
  | "p" => some .processed
  | "r" => some .rawBytes
  | _ => none

def renderE {α} (f : α → String) : Except Err α → String
  | .ok a => "ok " ++ f a
  | .error e => "err " ++ toString e

def cachedDec (c : Cache) (f : Fmt) (a : Bytes) : Except Err G1Pt :=
  match c.get? (f == .processed, a) with
  | some r => r
  | none => decodeG1 f a

/-- Class of an input name as computed by the real constant parser (see `Model/C16/Compile.lean`). -/
def constClass? (s : String) : Option (Option CTy) :=
  if s = "-" then some none
  else if s = "b" then some (some .bool)
  else if s = "u" then some (some .big)
  else if s = "p" then some (some .point)
  else if s = "s" then some (some .scalar)
  else if s.startsWith "y" then (s.drop 1).toString.toNat?.map (fun n => some (.bytes n))
  else if s.startsWith "n" then (parseNat? (s.drop 1).toString).map (fun v => some (.native (some v)))
  else none

def name? (s : String) : Option Bytes := if s = "-" then some [] else parseHexBytes? s

def operand? (s : String) : Option Operand :=
  match s.splitOn ":" with
  | [n, c] =>
    match name? n, constClass? c with
    | some n, some c => some ⟨n, c⟩
    | _, _ => none
  | _ => none

def listOf? {α} (f : String → Option α) (s : String) : Option (List α) :=
  if s.isEmpty then some [] else (s.splitOn ",").mapM f

/-- `tag.tytag.typaram.num|in,in|out,out`. -/
def cinstr? (s : String) : Option CInstr :=
  match s.splitOn "|" with
  | [h, i, o] =>
    match (h.splitOn ".").mapM String.toNat?, listOf? operand? i, listOf? name? o with
    | some [tag, tt, tp, num], some ins, some outs =>
      let ty : Option IrTy :=
        if tt = 9 then none
        else some ⟨tt, match irTypes[tt]? with | some (_, k) => if k = 0 then none else some tp | none => none⟩
      some ⟨tag, ty, num, ins, outs⟩
    | _, _, _ => none
  | _ => none

def program? (s : String) : Option (List CInstr) :=
  if s = "-" then some [] else (s.splitOn ";").mapM cinstr?

def renderVK (vk : VKey G1Pt) : String :=
  s!"k={vk.k} nf={vk.fixed.length} np={vk.perm.length} dg={digestPts (vk.fixed ++ vk.perm)}"

def step (c : Cache) (line : String) : Cache × String :=
  match words line with
  | ["fq", kind, hex] =>
    (c, match parseHexBytes? hex with
    | none => "bad-op"
    | some bs =>
      if kind = "repr" then renderE toHex (decodeFqRepr bs)
      else if kind = "raw" then renderE toHex (decodeFqRaw bs)
      else "bad-op")
  | ["g1", f, hex] =>
    match fmtOf? f, parseHexBytes? hex with
    | some f, some bs =>
      let r := cachedDec c f bs
      (c.insert (f == .processed, bs) r, renderE G1Pt.render r)
    | _, _ => (c, "bad-op")
  | ["g2", f, hex] =>
    (c, match fmtOf? f, parseHexBytes? hex with
    | some f, some bs => renderE G2Pt.render (decodeG2 f bs)
    | _, _ => "bad-op")
  | ["vparams", f, hex] =>
    (c, match fmtOf? f, parseHexBytes? hex with
    | some f, some bs => renderE (fun (p, r) => s!"{G2Pt.render p} rest={r.length}") (decodeVerifierParams f bs)
    | _, _ => "bad-op")
  | ["arch", consts, hex] =>
    (c, match parseNatList? consts, parseHexBytes? hex with
    | some cl, some bs =>
      renderE (fun (a, r) => s!"{a.render} rest={r.length}") (decodeArch (ColConsts.ofList cl) bs)
    | _, _ => "bad-op")
  | ["archcols", consts, bits, nr] =>
    (c, match parseNatList? consts, nr.toNat? with
    | some cl, some nr =>
      if bits.length ≠ 11 ∨ bits.toList.any (fun ch => ch ≠ '0' ∧ ch ≠ '1') then "bad-op" else
      let a := Arch.ofBools (bits.toList.map (· == '1')) nr
      let cc := ColConsts.ofList cl
      s!"{nbAdviceCols cc a}"
    | _, _ => "bad-op")
  | ["vk", f, nf, np, deg, hex] =>
    (c, match fmtOf? f, nf.toNat?, np.toNat?, deg.toNat?, parseHexBytes? hex with
    | some f, some nf, some np, some deg, some bs =>
      renderE (fun (vk, r) => s!"{renderVK vk} rest={r.length}")
        (decodeVKWith (cachedDec c f) f.g1Size ⟨nf, np, deg⟩ bs)
    | _, _, _, _, _ => "bad-op")
  | ["mvk", f, nf, np, deg, consts, hex] =>
    (c, match fmtOf? f, nf.toNat?, np.toNat?, deg.toNat?, parseNatList? consts, parseHexBytes? hex with
    | some f, some nf, some np, some deg, some cl, some bs =>
      renderE (fun (m, r) =>
          let canon := encodeMVKWith (encodeG1 f) m ++ r == bs
          s!"{m.arch.render} mb={m.maxBitLen} pi={m.nbPublicInputs} {renderVK m.vk} rest={r.length} canon={fmtBool canon}")
        (decodeMVKWith (cachedDec c f) f.g1Size (ColConsts.ofList cl) (fun _ => ⟨nf, np, deg⟩) bs)
    | _, _, _, _, _, _ => "bad-op")
  | ["proofsched", shape] =>
    (c, match parseNatList? shape with
    | some [a, l, t, pm, d, iq, aq, fq, ns] =>
      let s : ProofShape := ⟨a, l, t, pm, d, iq, aq, fq, ns⟩
      s!"{String.ofList ((proofSchedule s).map Elem.render)} len={proofLen s} plonk={(plonkSchedule s).length}"
    | _ => "bad-op")
  | ["proof", shape, hex] =>
    match parseNatList? shape, parseHexBytes? hex with
    | some [a, l, t, pm, d, iq, aq, fq, ns], some bs =>
      let s : ProofShape := ⟨a, l, t, pm, d, iq, aq, fq, ns⟩
      -- remember the point chunks of this proof (they recur in every mutant of the same proof)
      let (n, v) := parseProof (cachedDec c .processed) s bs
      let c' := Id.run do
        let mut c' := c
        let mut rest := bs
        for e in proofSchedule s do
          if rest.length < e.size then break
          if e == .pt then
            let a := rest.take 48
            if !(c'.contains (true, a)) then
              c' := c'.insert (true, a) (decodeG1 .processed a)
          rest := rest.drop e.size
        return c'
      (c', s!"reads={n} {v.toString}")
    | _, _ => (c, "bad-op")
  | ["irb", szI, szS, lim, hex] =>
    (c, match szI.toNat?, szS.toNat?, lim.toNat?, parseHexBytes? hex with
    | some szI, some szS, some lim, some bs =>
      renderE (fun (prog, r) => s!"n={prog.length} dg={irDigest prog} rest={r.length}")
        (decodeRelation ⟨szI, szS, lim⟩ bs)
    | _, _, _, _ => "bad-op")
  | ["irarity", spec] =>
    (c, if spec = "-" then "ok" else
      match (spec.splitOn ",").mapM (fun t =>
        match (t.splitOn ":").mapM String.toNat? with
        | some [a, b, d] => some (a, b, d)
        | _ => none) with
      | some l =>
        match firstArityFailure l 0 with
        | none => "ok"
        | some k => s!"err {((irOps[(l[k]?.getD (0, 0, 0)).1]?).getD ("?", 0)).1}"
      | none => "bad-op")
  | ["irc", spec] =>
    (c, match program? spec with
    | some prog =>
      match compile prog with
      | .ok _ => "ok"
      | .error e => s!"err {e}"
    | none => "bad-op")
  | ["iroff", "ib", n, v] =>
    (c, match n.toNat?, parseNat? v with
    | some n, some v =>
      match intoBytesNativeOff n v with
      | .ok _ => "ok"
      | .error e => s!"err {e}"
    | _, _ => "bad-op")
  | ["iroff", "fb", tt, tp, len] =>
    (c, match tt.toNat?, tp.toNat?, len.toNat? with
    | some tt, some tp, some len =>
      match fromBytesStatic ⟨tt, some tp⟩ len with
      | .ok _ => "ok"
      | .error e => s!"err {e}"
    | _, _, _ => "bad-op")
  | ["vkdeg", deg, k] =>
    (c, match deg.toNat?, k.toNat? with
    | some deg, some k =>
      if k > fqS then "err k-range" else if extendedK k deg > fqS then "err k-ext" else "ok"
    | _, _ => "bad-op")
  | _ => (c, "bad-op")

/-- Stateless entry point (fresh memo table). -/
def answer (line : String) : String := (step {} line).2

end MidnightZK.C16.Driver

/-- `mzk-c16 < ops.txt > model.txt` : one answer line per request line. -/
def main : IO UInt32 := do
  MidnightZK.lineLoopSt (← IO.getStdin) (← IO.getStdout) MidnightZK.C16.Driver.step {}
  return 0
