import MidnightZK.Model.Common
/-! Line-protocol handler of property C16 (stub: answers `unimplemented`). -/
namespace MidnightZK.C16.Driver

def answer (_line : String) : String := "unimplemented"

end MidnightZK.C16.Driver

/-- `mzk-c16 < ops.txt > model.txt` : one answer line per request line. -/
def main : IO UInt32 := do
  MidnightZK.lineLoop (← IO.getStdin) (← IO.getStdout) MidnightZK.C16.Driver.answer
  return 0
