import MidnightZK.Model.Common
/-! Line-protocol handler of property C16 (stub: answers `unimplemented`). -/
namespace MidnightZK.C16.Driver

def answer (_line : String) : String := "unimplemented"

end MidnightZK.C16.Driver
