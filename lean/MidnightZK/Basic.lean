def hello := "world"
