import MidnightZK.Model.C13.Curves
/-!
# C13 — the optimal ate pairing of BLS12-381 *by definition*

An independent executable specification of what blst's `miller_loop` + `final_exp` compute (the
Rust wrappers `curves/src/bls12_381/bls_pairing.rs: pairing`, `mod.rs: multi_miller_loop`): affine
chord-and-tangent Miller function `f_{|x|,Q}(P)` over the full degree-12 field (no twist tricks, no
projective coordinates, no sparse products), conjugation for the negative loop parameter, then one
plain exponentiation. blst (like every implementation of the Hayashida–Hayasaka–Teruya hard part)
raises to `3·(p¹² − 1)/r`, i.e. returns the cube of the textbook reduced pairing; the cube is itself
a non-degenerate bilinear map since `3 ∤ r`.
-/
namespace MidnightZK.C13.Bls
open MidnightZK MidnightZK.C13

abbrev F12 := BlsFp12

/-- `|x|` for the BLS12-381 parameter `x = −0xd201000000010000`. -/
def absX : Nat := 0xd201000000010000

def ofFp (a : BlsFp) : F12 := ⟨⟨⟨a, 0⟩, 0, 0⟩, 0⟩
def ofFp2 (a : BlsFp2) : F12 := ⟨⟨a, 0, 0⟩, 0⟩
/-- The generator `w` of the top level (`w² = v`, `v³ = 1 + u`). -/
def w : F12 := ⟨0, 1⟩

/-- Untwist `E'(Fp2) → E(Fp12)`, `(x', y') ↦ (x'/w², y'/w³)` (M-type twist `y² = x³ + 4(1+u)`). -/
def untwist (q : BlsFp2 × BlsFp2) : F12 × F12 :=
  let w2 := w * w
  let w3 := w2 * w
  (ofFp2 q.1 * w2⁻¹, ofFp2 q.2 * w3⁻¹)

/-- The line through `T` with slope `lam`, evaluated at `P`. -/
def lineAt (px py : F12) (t : F12 × F12) (lam : F12) : F12 :=
  (py - t.2) - lam * (px - t.1)

/-- One Miller step per bit of `|x|` below the leading one (most significant first). -/
def millerBits (px py : F12) (q : F12 × F12) : List Bool → F12 → F12 × F12 → F12
  | [], f, _ => f
  | b :: bs, f, t =>
    let three : F12 := ofFp ⟨3⟩
    let lam := three * (t.1 * t.1) * (t.2 + t.2)⁻¹
    let f := f * f * lineAt px py t lam
    let x3 := lam * lam - (t.1 + t.1)
    let y3 := lam * (t.1 - x3) - t.2
    let t := (x3, y3)
    if b then
      let lam := (t.2 - q.2) * (t.1 - q.1)⁻¹
      let f := f * lineAt px py t lam
      let x3 := lam * lam - t.1 - q.1
      let y3 := lam * (t.1 - x3) - t.2
      millerBits px py q bs f (x3, y3)
    else millerBits px py q bs f t

/-- `f_{x,Q}(P)` for the negative `x`: the Miller function of `|x|`, conjugated. -/
def miller (p : BlsFp × BlsFp) (q : BlsFp2 × BlsFp2) : F12 :=
  let qq := untwist q
  Quad.conj (millerBits (ofFp p.1) (ofFp p.2) qq ((bitsMsb absX).drop 1) 1 qq)

/-- The exponent blst's `final_exp` realises: `3·(p¹² − 1)/r`. -/
def finalExponent : Nat := 3 * ((Gen.blsP ^ 12 - 1) / Gen.blsR)

def finalExpNaive (f : F12) : F12 := powBits (· * ·) 1 f finalExponent

/-- The pairing as blst defines it on affine inputs (`none` = point at infinity ↦ one). -/
def pairing (p : Option (BlsFp × BlsFp)) (q : Option (BlsFp2 × BlsFp2)) : F12 :=
  match p, q with
  | some p, some q => finalExpNaive (miller p q)
  | _, _ => 1

/-- `Gt::generator()` as written in `gt.rs`. -/
def gtGenerator : F12 := (fp12OfList? Gen.blsP Gen.blsGtGen).getD 1

end MidnightZK.C13.Bls

/-!
## The optimal ate pairing of BN254 by definition

`a(Q, P) = (f_{6x+2,Q}(P) · l_{[6x+2]Q, π(Q)}(P) · l_{[6x+2]Q+π(Q), −π²(Q)}(P))^((p¹²−1)/r)` with affine
arithmetic over the full degree-12 field, plain binary expansion of `6x + 2` (no NAF), D-type untwist
`(x', y') ↦ (x'w², y'w³)`, `π` = the `p`-power Frobenius on coordinates. Independent of the mirrored
code of `BnPairing.lean` (different coordinates, different addition chain, no sparse products, no
cyclotomic shortcuts); compared with the real `Bn256::pairing`.
-/
namespace MidnightZK.C13.BnAte
open MidnightZK MidnightZK.C13

abbrev F12 := BnFq12

def ofFp (a : BnFq) : F12 := ⟨⟨⟨a, 0⟩, 0, 0⟩, 0⟩
def ofFp2 (a : BnFq2) : F12 := ⟨⟨a, 0, 0⟩, 0⟩
def w : F12 := ⟨0, 1⟩

/-- Untwist `E'(Fq2) → E(Fq12)` for the D-type twist `y² = x³ + 3/ξ`: `(x', y') ↦ (x'w², y'w³)`. -/
def untwist (q : BnFq2 × BnFq2) : F12 × F12 :=
  let w2 := w * w
  (ofFp2 q.1 * w2, ofFp2 q.2 * (w2 * w))

def lineAt (px py : F12) (t : F12 × F12) (lam : F12) : F12 :=
  (py - t.2) - lam * (px - t.1)

/-- Chord step: `f · l_{T,Q}(P)` and `T + Q` (affine; `T ≠ ±Q` on the inputs used). -/
def addPt (px py : F12) (f : F12) (t q : F12 × F12) : F12 × (F12 × F12) :=
  let lam := (t.2 - q.2) * (t.1 - q.1)⁻¹
  let x3 := lam * lam - t.1 - q.1
  (f * lineAt px py t lam, (x3, lam * (t.1 - x3) - t.2))

def millerBits (px py : F12) (q : F12 × F12) : List Bool → F12 → F12 × F12 → F12 × (F12 × F12)
  | [], f, t => (f, t)
  | b :: bs, f, t =>
    let three : F12 := ofFp ⟨3⟩
    let lam := three * (t.1 * t.1) * (t.2 + t.2)⁻¹
    let f := f * f * lineAt px py t lam
    let x3 := lam * lam - (t.1 + t.1)
    let t := (x3, lam * (t.1 - x3) - t.2)
    if b then
      let (f, t) := addPt px py f t q
      millerBits px py q bs f t
    else millerBits px py q bs f t

def frobPt (k : Nat) (q : F12 × F12) : F12 × F12 := (Frob.frob k q.1, Frob.frob k q.2)

def miller (p : BnFq × BnFq) (q : BnFq2 × BnFq2) : F12 :=
  let qq := untwist q
  let (px, py) := (ofFp p.1, ofFp p.2)
  let s := 6 * Gen.bnX + 2
  let (f, t) := millerBits px py qq ((bitsMsb s).drop 1) 1 qq
  let q1 := frobPt 1 qq
  let q2 := frobPt 2 qq
  let (f, t) := addPt px py f t q1
  let (f, _) := addPt px py f t (q2.1, -q2.2)
  f

def pairing (p : Option (BnFq × BnFq)) (q : Option (BnFq2 × BnFq2)) : F12 :=
  match p, q with
  | some p, some q => powBits (· * ·) 1 (miller p q) ((Gen.bnP ^ 12 - 1) / Gen.bnR)
  | _, _ => 1

end MidnightZK.C13.BnAte
