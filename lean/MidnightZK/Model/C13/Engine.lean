/-!
# C13 — the list-level logic around the pairing, over abstract point / target types

* `gtMulBits` — `Mul<&Fq> for &Gt` (`bls12_381/gt.rs`) and `Mul<&Fr> for &Gt` (`derive/pairing.rs:
  impl_gt!`): double-and-add over the big-endian bits of the scalar, leading bit skipped;
* `multiMillerLoopBls` — `bls12_381/mod.rs: MultiMillerLoop for Bls12 :: multi_miller_loop`
  (identity pairs contribute `1`, first term assigned, later terms multiplied in);
* `filterIdentityTerms` — the `filter_map` at the head of `bn256/engine.rs: multi_miller_loop`;
* `msmEval`, `dualMsmCheck` — `proofs/src/poly/kzg/msm.rs: MSMKZG::eval`, `msm_specific`,
  `DualMSM::check`.

Import-free; everything is parametric in the carrier types so that the driver can run it on
discrete logarithms and the theorems can state it for an abstract bilinear map.
-/
namespace MidnightZK.C13

/-- The bits of a big-endian byte string, most significant first
(`bytes.iter().flat_map(|byte| (0..8).rev().map(move |i| (byte >> i) & 1 == 1))`). -/
def bitsOfBytesBE (bytes : List Nat) : List Bool :=
  bytes.flatMap (fun byte => (List.range 8).reverse.map (fun i => (byte >>> i) % 2 = 1))

/-- `gt.rs: Mul<&Fq> for &Gt` / `impl_gt!: Mul<&$scalar>`: `acc = identity; for bit in bits.skip(1)
{ acc = acc.double(); if bit { acc += self } }` (the BN variant selects instead of branching). -/
def gtMulBits {γ : Type} (add : γ → γ → γ) (dbl : γ → γ) (identity : γ) (x : γ) (bytesBE : List Nat) : γ :=
  ((bitsOfBytesBE bytesBE).drop 1).foldl (fun acc b => let acc := dbl acc; if b then add acc x else acc) identity

/-- `n` big-endian bytes of a natural number (truncating). -/
def natToBytesBE (n v : Nat) : List Nat :=
  (List.range n).reverse.map (fun i => (v >>> (8 * i)) % 256)

section
variable {P Q M : Type} [Mul M] [One M]

/-- The loop of `bls12_381/mod.rs: multi_miller_loop`; `res` starts as `blst_fp12::default()`, which
is **one** in the blst bindings (so the empty list gives one). -/
def multiMillerLoopBlsGo (isIdP : P → Bool) (isIdQ : Q → Bool) (miller : P → Q → M) :
    List (P × Q) → Nat → M → M
  | [], _, res => res
  | (p, q) :: ts, i, res =>
    let tmp := if isIdP p || isIdQ q then 1 else miller p q
    multiMillerLoopBlsGo isIdP isIdQ miller ts (i + 1) (if i = 0 then tmp else res * tmp)

/-- `bls12_381/mod.rs: MultiMillerLoop for Bls12 :: multi_miller_loop`. -/
def multiMillerLoopBls (isIdP : P → Bool) (isIdQ : Q → Bool) (miller : P → Q → M) (terms : List (P × Q)) : M :=
  multiMillerLoopBlsGo isIdP isIdQ miller terms 0 1

/-- `bn256/engine.rs: multi_miller_loop`, first statement: pairs containing an identity are dropped
before the joint Miller loop. -/
def filterIdentityTerms (isIdP : P → Bool) (isIdQ : Q → Bool) (terms : List (P × Q)) : List (P × Q) :=
  terms.filter (fun t => !(isIdP t.1 || isIdQ t.2))
end

section
variable {S G : Type} [Zero G] [Add G] [DecidableEq S] [Zero S] [One S]

/-- `msm.rs: msm_specific`: zero coefficients are filtered out, the empty sum is the identity, the
rest is `Σ sᵢ·Bᵢ` (blst Pippenger or `msm_best`; both specified in C12). -/
def msmSpecific (smul : S → G → G) (scalars : List S) (bases : List G) : G :=
  let terms := (scalars.zip bases).filter (fun t => t.1 ≠ 0)
  if terms.isEmpty then 0 else terms.foldl (fun acc t => acc + smul t.1 t.2) 0

/-- `msm.rs: MSMKZG::eval` (`scalars == [1]` short-cut). `none` = index panic (`bases[0]` missing). -/
def msmEval (smul : S → G → G) (scalars : List S) (bases : List G) : Option G :=
  if scalars = [1] then bases[0]? else some (msmSpecific smul scalars bases)

/-- `msm.rs: DualMSM::check`, first statement: `if self.left.scalars.len() == 1 &&
self.left.scalars[0] == ONE { self.left.bases[0] } else { self.left.eval() }`. -/
def dualLeft (smul : S → G → G) (scalars : List S) (bases : List G) : Option G :=
  match scalars with
  | [s] => if s = 1 then bases[0]? else msmEval smul scalars bases
  | _ => msmEval smul scalars bases

/-- `msm.rs: DualMSM::check`: `left` (with its own copy of the one-term short-cut) and `right` are
evaluated, paired with the prepared `[s]₂` and `−[1]₂`, and the product must be the identity of the
target group. -/
def dualMsmCheck {Q T M : Type} (smul : S → G → G)
    (mml : List (G × Q) → M) (finalExp : M → T) (isIdentity : T → Bool)
    (leftScalars : List S) (leftBases : List G) (rightScalars : List S) (rightBases : List G)
    (sG2 nG2 : Q) : Option Bool := do
  let left ← dualLeft smul leftScalars leftBases
  let right ← msmEval smul rightScalars rightBases
  pure (isIdentity (finalExp (mml [(left, sG2), (right, nG2)])))
end

/-! ## Prepared `G2` points and the unprepared entry point -/

/-- `bls12_381/g2.rs: struct G2Prepared { lines, infinity }`. -/
structure G2Prepared (L : Type) where
  lines : List L
  infinity : Bool
deriving Repr

/-- `bls12_381/g2.rs: From<G2Affine> for G2Prepared`: the identity gets no lines and the flag,
every other point the 68 lines of `blst_precompute_lines`. -/
def g2Prepare {Q L : Type} (isIdQ : Q → Bool) (precompute : Q → List L) (q : Q) : G2Prepared L :=
  if isIdQ q then ⟨[], true⟩ else ⟨precompute q, false⟩

/-- `bls12_381/g2.rs: G2Prepared::is_identity` — reads the flag (not the lines). -/
def G2Prepared.isIdentity {L : Type} (p : G2Prepared L) : Bool := p.infinity

/-- `bls12_381/mod.rs: multi_miller_loop` on prepared terms: `blst_miller_loop_lines(tmp, q.lines, p)`
for pairs without identity. -/
def multiMillerLoopPrepared {P L M : Type} [Mul M] [One M] (isIdP : P → Bool)
    (millerLines : P → List L → M) (terms : List (P × G2Prepared L)) : M :=
  multiMillerLoopBls isIdP G2Prepared.isIdentity (fun p q => millerLines p q.lines) terms

/-- `bls12_381/bls_pairing.rs: pairing(p, q)`: `blst_miller_loop` then `blst_final_exp`, **without**
an identity test on the Rust side (blst's loop handles the points at infinity itself). -/
def pairingEntry {P Q M T : Type} (millerRaw : P → Q → M) (finalExp : M → T) (p : P) (q : Q) : T :=
  finalExp (millerRaw p q)

/-- `derive/pairing.rs: Engine::pairing` (BN254): `multi_miller_loop(&[(p, q)]).final_exponentiation()`. -/
def pairingEntryBn {P Q M T : Type} (mml : List (P × Q) → M) (finalExp : M → T) (p : P) (q : Q) : T :=
  finalExp (mml [(p, q)])

/-- `bls_pairing.rs: Add for &MillerLoopResult` (multiplies), `AddAssign`, `Default` (one). -/
def millerResultAdd {M : Type} [Mul M] (a b : M) : M := a * b

/-- `gt.rs: Sum for Gt`: `iter.fold(identity, |acc, x| acc + x)` with `+` the `Fp12` product. -/
def gtSum {M : Type} [Mul M] [One M] (l : List M) : M := l.foldl (fun acc x => acc * x) 1

end MidnightZK.C13
