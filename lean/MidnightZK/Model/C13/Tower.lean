import MidnightZK.Model.ModArith
/-!
# C13 — extension-field towers `Fp2 / Fp6 / Fp12` as written in the Rust sources

Generic quadratic and cubic extensions over any coefficient type with `+ - * neg` and a
"multiply by the non-residue" operation, mirroring

* `curves/src/ff_ext/quadratic.rs` (`QuadExtField`, `QuadExtFieldArith`, `QuadSparseMul`),
* `curves/src/ff_ext/cubic.rs` (`CubicExtField`, `CubicExtFieldArith`, `CubicSparseMul`),
* `curves/src/derive/field/tower.rs` (`impl_cyclotomic_square!`),
* the hand-written `MulAssign` / `square` / `invert` of `curves/src/bls12_381/fp6.rs`.

Import-free (core only). The same definitions are used by the executable driver (coefficients
`Zn p`) and by the theorems (coefficients in an arbitrary commutative ring).
-/
namespace MidnightZK.C13

/-- Integers modulo `m`, values kept canonical by every operation. -/
structure Zn (m : Nat) where
  val : Nat
deriving DecidableEq, Repr

namespace Zn
variable {m : Nat}
def ofNat (m n : Nat) : Zn m := ⟨n % m⟩
instance : Zero (Zn m) := ⟨⟨0⟩⟩
instance : One (Zn m) := ⟨⟨1 % m⟩⟩
instance : Add (Zn m) := ⟨fun a b => ⟨(a.val + b.val) % m⟩⟩
instance : Neg (Zn m) := ⟨fun a => ⟨(m - a.val % m) % m⟩⟩
instance : Sub (Zn m) := ⟨fun a b => ⟨(a.val + (m - b.val % m)) % m⟩⟩
instance : Mul (Zn m) := ⟨fun a b => ⟨(a.val * b.val) % m⟩⟩
/-- Inverse by Fermat (`m` prime); `0⁻¹ = 0`. -/
instance : Inv (Zn m) := ⟨fun a => ⟨invMod a.val m⟩⟩
instance : Inhabited (Zn m) := ⟨⟨0⟩⟩
end Zn

/-- `ExtField::mul_by_nonresidue` (`curves/src/ff_ext/mod.rs`): multiplication by the element whose
root is adjoined at the next level of the tower. -/
class NonRes (α : Type) where
  mulNR : α → α

/-- `ExtField::frobenius_map(power)`. -/
class Frob (α : Type) where
  frob : Nat → α → α

/-- The Frobenius coefficient tables of a tower over `β = Fp2`:
`FROBENIUS_COEFF_*6_C1[i]`, `…6_C2[i]`, `…12_C1[i]`. -/
class FrobCoeffs (β : Type) where
  c6c1 : Nat → β
  c6c2 : Nat → β
  c12c1 : Nat → β

/-! ## Quadratic extension `α[X]/(X² − nr)` -/

structure Quad (α : Type) where
  c0 : α
  c1 : α
deriving DecidableEq, Repr

namespace Quad
variable {α : Type}

instance [Zero α] : Zero (Quad α) := ⟨⟨0, 0⟩⟩
instance [Zero α] [One α] : One (Quad α) := ⟨⟨1, 0⟩⟩
instance [Add α] : Add (Quad α) := ⟨fun a b => ⟨a.c0 + b.c0, a.c1 + b.c1⟩⟩
instance [Sub α] : Sub (Quad α) := ⟨fun a b => ⟨a.c0 - b.c0, a.c1 - b.c1⟩⟩
instance [Neg α] : Neg (Quad α) := ⟨fun a => ⟨-a.c0, -a.c1⟩⟩
instance [Inhabited α] : Inhabited (Quad α) := ⟨⟨default, default⟩⟩

variable [Add α] [Sub α] [Mul α] [Neg α] [NonRes α]

/-- `QuadExtField::double`. -/
def double (a : Quad α) : Quad α := ⟨a.c0 + a.c0, a.c1 + a.c1⟩

/-- `QuadExtField::conjugate`. -/
def conj (a : Quad α) : Quad α := ⟨a.c0, -a.c1⟩

/-- `quadratic.rs: QuadExtFieldArith::mul_assign` (Karatsuba). -/
def mulK (a b : Quad α) : Quad α :=
  let v0 := a.c0 * b.c0
  let v1 := a.c1 * b.c1
  ⟨v0 + NonRes.mulNR v1, (a.c0 + a.c1) * (b.c0 + b.c1) - (v0 + v1)⟩

instance : Mul (Quad α) := ⟨mulK⟩

/-- `quadratic.rs: QuadExtFieldArith::square_assign` (default method; used by `Fq12`). -/
def sqrK (a : Quad α) : Quad α :=
  let ab := a.c0 * a.c1
  let c0c1 := a.c0 + a.c1
  let c0 := (NonRes.mulNR a.c1 + a.c0) * c0c1 - ab
  ⟨c0 - NonRes.mulNR ab, ab + ab⟩

/-- `bn256/fq2.rs: QuadExtFieldArith for Fq2 :: square_assign` (override for `u² = −1`). -/
def sqrComplex (a : Quad α) : Quad α :=
  let x := a.c0 + a.c1
  let y := a.c0 - a.c1
  let c := a.c0 + a.c0
  ⟨x * y, c * a.c1⟩

/-- `QuadExtField::norm`: `c0² − nr·c1²`. -/
def norm (a : Quad α) : α := a.c0 * a.c0 - NonRes.mulNR (a.c1 * a.c1)

/-- `Field::invert for QuadExtField` (the `CtOption` is `none` exactly when the norm is zero). -/
def inv [Inv α] (a : Quad α) : Quad α :=
  let t := (norm a)⁻¹
  ⟨a.c0 * t, a.c1 * -t⟩

instance [Inv α] : Inv (Quad α) := ⟨inv⟩

/-- Multiply both coefficients by a scalar of the coefficient type. -/
def scale (a : Quad α) (k : α) : Quad α := ⟨a.c0 * k, a.c1 * k⟩

/-- `bn256/fq2.rs: ExtField for Fq2 :: mul_by_nonresidue`: `(9 + u)·(c0 + c1 u)` computed as
`t = 8·a; (t.c0 + c0 − c1, t.c1 + c0 + c1)` (three doublings, no multiplication). -/
def mulNR9 (a : Quad α) : Quad α :=
  let t := double (double (double a))
  ⟨t.c0 + a.c0 - a.c1, t.c1 + a.c0 + a.c1⟩

/-- `bls12_381/fp2.rs: mul_by_nonresidue`: `(1 + u)·(c0 + c1 u) = (c0 − c1) + (c1 + c0) u`. -/
def mulNR1 (a : Quad α) : Quad α := ⟨a.c0 - a.c1, a.c1 + a.c0⟩

end Quad

/-! ## Cubic extension `α[X]/(X³ − nr)` -/

structure Cubic (α : Type) where
  c0 : α
  c1 : α
  c2 : α
deriving DecidableEq, Repr

namespace Cubic
variable {α : Type}

instance [Zero α] : Zero (Cubic α) := ⟨⟨0, 0, 0⟩⟩
instance [Zero α] [One α] : One (Cubic α) := ⟨⟨1, 0, 0⟩⟩
instance [Add α] : Add (Cubic α) := ⟨fun a b => ⟨a.c0 + b.c0, a.c1 + b.c1, a.c2 + b.c2⟩⟩
instance [Sub α] : Sub (Cubic α) := ⟨fun a b => ⟨a.c0 - b.c0, a.c1 - b.c1, a.c2 - b.c2⟩⟩
instance [Neg α] : Neg (Cubic α) := ⟨fun a => ⟨-a.c0, -a.c1, -a.c2⟩⟩
instance [Inhabited α] : Inhabited (Cubic α) := ⟨⟨default, default, default⟩⟩

variable [Add α] [Sub α] [Mul α] [Neg α] [NonRes α]

/-- `fq6.rs / fp6.rs: mul_by_nonresidue` — multiplication by `v`: `(c0, c1, c2) ↦ (nr·c2, c0, c1)`. -/
instance : NonRes (Cubic α) := ⟨fun a => ⟨NonRes.mulNR a.c2, a.c0, a.c1⟩⟩

/-- `cubic.rs: CubicExtFieldArith::mul_assign`. -/
def mulK (a b : Cubic α) : Cubic α :=
  let aa := a.c0 * b.c0
  let bb := a.c1 * b.c1
  let cc := a.c2 * b.c2
  let t1 := (b.c1 + b.c2) * (a.c1 + a.c2) - (cc + bb)
  let t1 := aa + NonRes.mulNR t1
  let t3 := (b.c0 + b.c2) * (a.c0 + a.c2) - (aa - bb + cc)
  let t2 := (b.c0 + b.c1) * (a.c0 + a.c1) - (aa + bb)
  let t2 := t2 + NonRes.mulNR cc
  ⟨t1, t2, t3⟩

instance : Mul (Cubic α) := ⟨mulK⟩

/-- `bls12_381/fp6.rs: MulAssign<&Fp6> for Fp6` (hand-written; same product, other operation order). -/
def mulBls (a b : Cubic α) : Cubic α :=
  let aa := a.c0 * b.c0
  let bb := a.c1 * b.c1
  let cc := a.c2 * b.c2
  let t1 := NonRes.mulNR ((b.c1 + b.c2) * (a.c1 + a.c2) - bb - cc) + aa
  let t3 := (b.c0 + b.c2) * (a.c0 + a.c2) - aa + bb - cc
  let t2 := (b.c0 + b.c1) * (a.c0 + a.c1) - aa - bb + NonRes.mulNR cc
  ⟨t1, t2, t3⟩

/-- `cubic.rs: CubicExtFieldArith::square_assign` and `fp6.rs: Field::square` (same formula). -/
def sqrK (a : Cubic α) : Cubic α :=
  let s0 := a.c0 * a.c0
  let ab := a.c0 * a.c1
  let s1 := ab + ab
  let t := a.c0 - a.c1 + a.c2
  let s2 := t * t
  let bc := a.c1 * a.c2
  let s3 := bc + bc
  let s4 := a.c2 * a.c2
  ⟨NonRes.mulNR s3 + s0, NonRes.mulNR s4 + s1, s1 + s2 + s3 - s0 - s4⟩

/-- The three cofactors and the norm-like element of `Field::invert for CubicExtField` /
`fp6.rs: invert`: returns `(c0', c1', c2', t)` with `a · (c0' + c1' v + c2' v²) = t`. -/
def invParts (a : Cubic α) : α × α × α × α :=
  let c0 := NonRes.mulNR a.c2 * (-a.c1) + a.c0 * a.c0
  let c1 := NonRes.mulNR (a.c2 * a.c2) - a.c0 * a.c1
  let c2 := a.c1 * a.c1 - a.c0 * a.c2
  let t := NonRes.mulNR (a.c2 * c1 + a.c1 * c2) + a.c0 * c0
  (c0, c1, c2, t)

/-- `Field::invert for CubicExtField`. -/
def inv [Inv α] (a : Cubic α) : Cubic α :=
  let (c0, c1, c2, t) := invParts a
  let ti := t⁻¹
  ⟨ti * c0, ti * c1, ti * c2⟩

instance [Inv α] : Inv (Cubic α) := ⟨inv⟩

/-- `cubic.rs: CubicSparseMul::mul_by_1` — multiplication by `c1·v`. -/
def mulBy1 (a : Cubic α) (c1 : α) : Cubic α :=
  let bb := a.c1 * c1
  let t1 := NonRes.mulNR ((a.c1 + a.c2) * c1 - bb)
  let t2 := (a.c0 + a.c1) * c1 - bb
  ⟨t1, t2, bb⟩

/-- `cubic.rs: CubicSparseMul::mul_by_01` — multiplication by `c0 + c1·v`. -/
def mulBy01 (a : Cubic α) (c0 c1 : α) : Cubic α :=
  let aa := a.c0 * c0
  let bb := a.c1 * c1
  let t1 := c1 * (a.c1 + a.c2) - bb
  let t1 := aa + NonRes.mulNR t1
  let t3 := c0 * (a.c0 + a.c2) - aa + bb
  let t2 := (c0 + c1) * (a.c0 + a.c1) - aa - bb
  ⟨t1, t2, t3⟩

/-- Multiply the three coefficients by a scalar of the coefficient type. -/
def scale (a : Cubic α) (k : α) : Cubic α := ⟨a.c0 * k, a.c1 * k, a.c2 * k⟩

end Cubic

/-! ## Degree-12 level: sparse products, cyclotomic squaring, Frobenius -/

/-- The degree-12 extension over `β = Fp2`. -/
abbrev Tower12 (β : Type) := Quad (Cubic β)

section Tower12
variable {β : Type} [Add β] [Sub β] [Mul β] [Neg β] [NonRes β]

/-- `quadratic.rs: QuadSparseMul::mul_by_014`. -/
def mulBy014 (f : Tower12 β) (c0 c1 c4 : β) : Tower12 β :=
  let aa := Cubic.mulBy01 f.c0 c0 c1
  let bb := Cubic.mulBy1 f.c1 c4
  let t0 := f.c1 + f.c0
  let t1 := c1 + c4
  ⟨NonRes.mulNR bb + aa, Cubic.mulBy01 t0 c0 t1 - (aa + bb)⟩

/-- `quadratic.rs: QuadSparseMul::mul_by_034`. -/
def mulBy034 (f : Tower12 β) (c0 c3 c4 : β) : Tower12 β :=
  let t0 : Cubic β := ⟨f.c0.c0 * c0, f.c0.c1 * c0, f.c0.c2 * c0⟩
  let t1 := Cubic.mulBy01 f.c1 c3 c4
  let t2 := f.c0 + f.c1
  let t3 := c0 + c3
  ⟨t0 + NonRes.mulNR t1, Cubic.mulBy01 t2 t3 c4 - t0 - t1⟩

/-- `tower.rs: impl_cyclotomic_square! :: fp4_square`. -/
def fp4Square (a0 a1 : β) : β × β :=
  let t0 := a0 * a0
  let t1 := a1 * a1
  (NonRes.mulNR t1 + t0, (a0 + a1) * (a0 + a1) - t0 - t1)

/-- `tower.rs: impl_cyclotomic_square! :: cyclotomic_square` (Granger–Scott). -/
def cyclotomicSquare (f : Tower12 β) : Tower12 β :=
  let dbl (x : β) : β := x + x
  let (t3, t4) := fp4Square f.c0.c0 f.c1.c1
  let c00 := dbl (t3 - f.c0.c0) + t3
  let c11 := dbl (t4 + f.c1.c1) + t4
  let (t3, t4) := fp4Square f.c1.c0 f.c0.c2
  let (t5, t6) := fp4Square f.c0.c1 f.c1.c2
  let c01 := dbl (t3 - f.c0.c1) + t3
  let c12 := dbl (t4 + f.c1.c2) + t4
  let t3 := NonRes.mulNR t6
  let c10 := dbl (t3 + f.c1.c0) + t3
  let c02 := dbl (t5 - f.c0.c2) + t5
  ⟨⟨c00, c01, c02⟩, ⟨c10, c11, c12⟩⟩

/-- `fq6.rs / fp6.rs: frobenius_map`. -/
instance [Frob β] [FrobCoeffs β] : Frob (Cubic β) :=
  ⟨fun k a => ⟨Frob.frob k a.c0, Frob.frob k a.c1 * FrobCoeffs.c6c1 (k % 6),
               Frob.frob k a.c2 * FrobCoeffs.c6c2 (k % 6)⟩⟩

/-- `fq12.rs / fp12.rs: frobenius_map`. -/
instance [Frob β] [FrobCoeffs β] : Frob (Tower12 β) :=
  ⟨fun k a =>
    let c1 : Cubic β := Frob.frob k a.c1
    ⟨Frob.frob k a.c0, Cubic.scale c1 (FrobCoeffs.c12c1 (k % 12))⟩⟩

end Tower12

/-! ## Exponentiation (square-and-multiply, most significant bit first) -/

/-- Bits of `e`, most significant first (empty for `0`). -/
def bitsMsb (e : Nat) : List Bool :=
  (List.range (if e = 0 then 0 else e.log2 + 1)).reverse.map (fun i => e.testBit i)

/-- `x ^ e` by left-to-right square-and-multiply with the given `mul`. -/
def powBits {γ : Type} (mul : γ → γ → γ) (one : γ) (x : γ) (e : Nat) : γ :=
  (bitsMsb e).foldl (fun acc b => let s := mul acc acc; if b then mul s x else s) one

end MidnightZK.C13
