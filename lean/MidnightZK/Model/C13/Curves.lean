import MidnightZK.Model.C13.Tower
import MidnightZK.Gen.C13Consts
/-!
# C13 — the two compiled-in towers: BN254 (`curves/src/bn256`) and BLS12-381 (`curves/src/bls12_381`)

Constants come from the generated file (parsed from the Rust sources on every run).
-/
namespace MidnightZK.C13

/-! ## BN254 -/
abbrev BnFq := Zn Gen.bnP
abbrev BnFq2 := Quad BnFq
abbrev BnFq6 := Cubic BnFq2
abbrev BnFq12 := Quad BnFq6

/-- `bn256/fq.rs: ExtField for Fq :: mul_by_nonresidue` = negation (`u² = −1`). -/
instance : NonRes BnFq := ⟨fun a => -a⟩
instance : Frob BnFq := ⟨fun _ a => a⟩

/-- `bn256/fq2.rs: ExtField for Fq2 :: mul_by_nonresidue`: `(9 + u)·(c0 + c1 u)` computed as
`8·a + …`. -/
def bnFq2MulNR (a : BnFq2) : BnFq2 := Quad.mulNR9 a

instance : NonRes BnFq2 := ⟨bnFq2MulNR⟩

/-- `bn256/fq2.rs: frobenius_map`: conjugation for odd powers. -/
instance : Frob BnFq2 := ⟨fun k a => if k % 2 = 1 then Quad.conj a else a⟩

def pairToFq2 {m : Nat} (c : Nat × Nat) : Quad (Zn m) := ⟨Zn.ofNat m c.1, Zn.ofNat m c.2⟩

/-- The tables, indexed as the sources index them: the generic `Frob` instances of `Tower.lean` pass
`power % 6` / `power % 12`; the index is reduced again by the modulus parsed from the
`TABLE[power % N]` sites (`Gen.bnFrobIdx`), so that a changed modulus in the source changes the
model (and breaks `frobenius_table_relations`). -/
instance : FrobCoeffs BnFq2 where
  c6c1 i := pairToFq2 (Gen.bnFrob6C1.getD (i % Gen.bnFrobIdx.1) (0, 0))
  c6c2 i := pairToFq2 (Gen.bnFrob6C2.getD (i % Gen.bnFrobIdx.2.1) (0, 0))
  c12c1 i := pairToFq2 (Gen.bnFrob12C1.getD (i % Gen.bnFrobIdx.2.2) (0, 0))

/-! ## BLS12-381 -/
abbrev BlsFp := Zn Gen.blsP
abbrev BlsFp2 := Quad BlsFp
abbrev BlsFp6 := Cubic BlsFp2
abbrev BlsFp12 := Quad BlsFp6

/-- `Fp2 = Fp[u]/(u² + 1)` (blst). -/
instance : NonRes BlsFp := ⟨fun a => -a⟩
instance : Frob BlsFp := ⟨fun _ a => a⟩

/-- `bls12_381/fp2.rs: mul_by_nonresidue`: `(1 + u)·(c0 + c1 u) = (c0 − c1) + (c1 + c0) u`. -/
def blsFp2MulNR (a : BlsFp2) : BlsFp2 := Quad.mulNR1 a

instance : NonRes BlsFp2 := ⟨blsFp2MulNR⟩

/-- `bls12_381/fp2.rs: frobenius_map`: `c1 *= FROBENIUS_COEFF_FP2_C1[power % 2]`. -/
instance : Frob BlsFp2 :=
  ⟨fun k a => ⟨a.c0, a.c1 * Zn.ofNat Gen.blsP (Gen.blsFrob2C1.getD (k % Gen.blsFrobIdx.1) 0)⟩⟩

/-- Indexed through the moduli parsed from the `TABLE[power % N]` sites (`Gen.blsFrobIdx`), see the
BN254 instance. -/
instance : FrobCoeffs BlsFp2 where
  c6c1 i := pairToFq2 (Gen.blsFrob6C1.getD (i % Gen.blsFrobIdx.2.1) (0, 0))
  c6c2 i := pairToFq2 (Gen.blsFrob6C2.getD (i % Gen.blsFrobIdx.2.2.1) (0, 0))
  c12c1 i := pairToFq2 (Gen.blsFrob12C1.getD (i % Gen.blsFrobIdx.2.2.2) (0, 0))

/-! ## Flat coefficient lists (the order used by the line protocol:
`c0.c0.c0, c0.c0.c1, c0.c1.c0, …, c1.c2.c1`) -/

def fp2ToList {m : Nat} (a : Quad (Zn m)) : List Nat := [a.c0.val, a.c1.val]
def fp6ToList {m : Nat} (a : Cubic (Quad (Zn m))) : List Nat :=
  fp2ToList a.c0 ++ fp2ToList a.c1 ++ fp2ToList a.c2
def fp12ToList {m : Nat} (a : Tower12 (Quad (Zn m))) : List Nat := fp6ToList a.c0 ++ fp6ToList a.c1

def fp2OfList? (m : Nat) : List Nat → Option (Quad (Zn m))
  | [a, b] => some ⟨Zn.ofNat m a, Zn.ofNat m b⟩
  | _ => none
def fp6OfList? (m : Nat) : List Nat → Option (Cubic (Quad (Zn m)))
  | [a, b, c, d, e, f] => some ⟨⟨Zn.ofNat m a, Zn.ofNat m b⟩, ⟨Zn.ofNat m c, Zn.ofNat m d⟩, ⟨Zn.ofNat m e, Zn.ofNat m f⟩⟩
  | _ => none
def fp12OfList? (m : Nat) (l : List Nat) : Option (Tower12 (Quad (Zn m))) :=
  if l.length = 12 then do
    let a ← fp6OfList? m (l.take 6)
    let b ← fp6OfList? m (l.drop 6)
    pure ⟨a, b⟩
  else none

end MidnightZK.C13
