import MidnightZK.Model.C13.Curves
/-!
# C13 — the pure-Rust BN254 pairing: Miller loop and final exponentiation

Mirrors `curves/src/derive/pairing.rs` (`impl_miller_loop_components!`: `double`, `add`) and
`curves/src/bn256/engine.rs` (`ell`, `multi_miller_loop`, `final_exponentiation`, `exp_by_x`),
operation by operation, over the tower of `Model/C13/Tower.lean`.
-/
namespace MidnightZK.C13.Bn
open MidnightZK MidnightZK.C13

/-- Affine G1 point (`none` = identity). -/
abbrev G1A := Option (BnFq × BnFq)
/-- Affine G2 point on the twist (`none` = identity). -/
abbrev G2A := Option (BnFq2 × BnFq2)

/-- Jacobian G2 point: the accumulator `r` of the Miller loop. -/
structure G2J where
  x : BnFq2
  y : BnFq2
  z : BnFq2
deriving DecidableEq, Repr

@[inline] def sq (a : BnFq2) : BnFq2 := Quad.sqrComplex a

/-! The two step functions of `derive/pairing.rs`, generic in the coefficient type `β` of the twist
(`sq` is the squaring routine in use: `Fq2::square`), so that the theorems can state them over any
commutative ring. They return the new accumulator `(x, y, z)` and the three line coefficients handed
to `ell`. -/
section Steps
variable {β : Type} [Add β] [Sub β] [Mul β] [Neg β]

/-- `pairing.rs: double` without the final `ell`: `((x', y', z'), (t0, t3, t6))`. -/
def doubleCoeffs (sq : β → β) (rx ry rz : β) : (β × β × β) × (β × β × β) :=
  let t0 := sq rx
  let t1 := sq ry
  let t2 := sq t1
  let t3 := sq (t1 + rx) - t0 - t2
  let t3 := t3 + t3
  let t4 := t0 + t0 + t0
  let t6 := rx + t4
  let t5 := sq t4
  let zsquared := sq rz
  let x' := t5 - t3 - t3
  let z' := sq (rz + ry) - t1 - zsquared
  let y' := (t3 - x') * t4
  let t2 := t2 + t2
  let t2 := t2 + t2
  let t2 := t2 + t2
  let y' := y' - t2
  let t3 := t4 * zsquared
  let t3 := t3 + t3
  let t3 := -t3
  let t6 := sq t6 - t0 - t5
  let t1 := t1 + t1
  let t1 := t1 + t1
  let t6 := t6 - t1
  let t0 := z' * zsquared
  let t0 := t0 + t0
  ((x', y', z'), (t0, t3, t6))

/-- `pairing.rs: add` without the final `ell`: `((x', y', z'), (t10, t1, t9))`. -/
def addCoeffs (sq : β → β) (rx ry rz qx qy : β) : (β × β × β) × (β × β × β) :=
  let zsquared := sq rz
  let ysquared := sq qy
  let t0 := zsquared * qx
  let t1 := (sq (qy + rz) - ysquared - zsquared) * zsquared
  let t2 := t0 - rx
  let t3 := sq t2
  let t4 := t3 + t3
  let t4 := t4 + t4
  let t5 := t4 * t2
  let t6 := t1 - ry - ry
  let t9 := t6 * qx
  let t7 := t4 * rx
  let x' := sq t6 - t5 - t7 - t7
  let z' := sq (rz + t2) - zsquared - t3
  let t10 := qy + z'
  let t8 := (t7 - x') * t6
  let t0 := ry * t5
  let t0 := t0 + t0
  let y' := t8 - t0
  let t10 := sq t10 - ysquared
  let ztsquared := sq z'
  let t10 := t10 - ztsquared
  let t9 := t9 + t9 - t10
  let t10 := z' + z'
  let t6 := -t6
  let t1 := t6 + t6
  ((x', y', z'), (t10, t1, t9))

end Steps

/-- `engine.rs: ell` — the line `(c0·p.y) + (c1·p.x) w³… ` folded into `f` by `mul_by_034`. -/
def ell (f : BnFq12) (c0 c1 c2 : BnFq2) (p : BnFq × BnFq) : BnFq12 :=
  mulBy034 f (Quad.scale c0 p.2) (Quad.scale c1 p.1) c2

/-- `pairing.rs: double` — doubling step: new accumulator and `f` multiplied by the tangent line. -/
def doubleStep (f : BnFq12) (r : G2J) (p : BnFq × BnFq) : BnFq12 × G2J :=
  let ((x, y, z), (c0, c1, c2)) := doubleCoeffs sq r.x r.y r.z
  (ell f c0 c1 c2 p, ⟨x, y, z⟩)

/-- `pairing.rs: add` — mixed addition step with the affine point `q`. -/
def addStep (f : BnFq12) (r : G2J) (q : BnFq2 × BnFq2) (p : BnFq × BnFq) : BnFq12 × G2J :=
  let ((x, y, z), (c0, c1, c2)) := addCoeffs sq r.x r.y r.z q.1 q.2
  (ell f c0 c1 c2 p, ⟨x, y, z⟩)

/-- One pass over all terms with a step function (the `for … in terms.iter().zip(r.iter_mut())`
loops): threads `f` through, updates every accumulator. -/
def forTerms (step : BnFq12 → G2J → (BnFq × BnFq) × (BnFq2 × BnFq2) → BnFq12 × G2J)
    (f : BnFq12) : List ((BnFq × BnFq) × (BnFq2 × BnFq2)) → List G2J → BnFq12 × List G2J
  | t :: ts, r :: rs =>
    let (f', r') := step f r t
    let (f'', rs') := forTerms step f' ts rs
    (f'', r' :: rs')
  | _, _ => (f, [])

def negQ (q : BnFq2 × BnFq2) : BnFq2 × BnFq2 := (q.1, -q.2)

/-- The filter at the head of `engine.rs: multi_miller_loop`: pairs with an identity are dropped. -/
def filterTerms (terms : List (G1A × G2A)) : List ((BnFq × BnFq) × (BnFq2 × BnFq2)) :=
  terms.filterMap (fun t => match t.1, t.2 with
    | some p, some q => some (p, q)
    | _, _ => none)

/-- The NAF loop of `multi_miller_loop`: digits most significant first, the leading one skipped;
`first` is `i == 0` (no squaring before the first iteration). -/
def nafLoop (terms : List ((BnFq × BnFq) × (BnFq2 × BnFq2))) :
    List Int → Bool → BnFq12 → List G2J → BnFq12 × List G2J
  | [], _, f, rs => (f, rs)
  | x :: xs, first, f, rs =>
    let f := if first then f else Quad.sqrK f
    let (f, rs) := forTerms (fun f r t => doubleStep f r t.1) f terms rs
    let (f, rs) :=
      if x = 1 then forTerms (fun f r t => addStep f r t.2 t.1) f terms rs
      else if x = -1 then forTerms (fun f r t => addStep f r (negQ t.2) t.1) f terms rs
      else (f, rs)
    nafLoop terms xs false f rs

def xiToQm1Over2 : BnFq2 := pairToFq2 (Gen.bnXiToQm1Over2.getD 0 (0, 0))

/-- `engine.rs: multi_miller_loop`. -/
def multiMillerLoop (terms : List (G1A × G2A)) : BnFq12 :=
  let terms := filterTerms terms
  let rs : List G2J := terms.map (fun t => ⟨t.2.1, t.2.2, 1⟩)
  let digits := (Gen.bnNaf.reverse).drop 1
  let (f, rs) := nafLoop terms digits true 1 rs
  let (f, rs) := forTerms (fun f r t =>
      let q := t.2
      let q1 : BnFq2 × BnFq2 :=
        (Quad.conj q.1 * FrobCoeffs.c6c1 1, Quad.conj q.2 * xiToQm1Over2)
      addStep f r q1 t.1) f terms rs
  let (f, _) := forTerms (fun f r t =>
      let q := t.2
      let minusq2 : BnFq2 × BnFq2 := (q.1 * FrobCoeffs.c6c1 2, q.2)
      addStep f r minusq2 t.1) f terms rs
  f

/-- `engine.rs: final_exponentiation :: exp_by_x` — `f^BN_X` with cyclotomic squarings. -/
def expByX (f : BnFq12) : BnFq12 :=
  (List.range 64).reverse.foldl (fun res i =>
    let res := cyclotomicSquare res
    if Gen.bnX.testBit i then res * f else res) 1

def frobenius (k : Nat) (f : BnFq12) : BnFq12 := Frob.frob k f

/-- `engine.rs: MillerLoopResult for Fq12 :: final_exponentiation` (`none` where the Rust code
unwraps the inverse of zero, i.e. panics). -/
def finalExponentiation (f : BnFq12) : Option BnFq12 :=
  if f = 0 then none else
  let f1 := Quad.conj f
  let f2 := f⁻¹
  let r := f1 * f2
  let f2 := r
  let r := frobenius 2 r
  let r := r * f2
  let fp := frobenius 1 r
  let fp2 := frobenius 2 r
  let fp3 := frobenius 1 fp2
  let fu := expByX r
  let fu2 := expByX fu
  let fu3 := expByX fu2
  let y3 := frobenius 1 fu
  let fu2p := frobenius 1 fu2
  let fu3p := frobenius 1 fu3
  let y2 := frobenius 2 fu2
  let y0 := fp * fp2 * fp3
  let y1 := Quad.conj r
  let y5 := Quad.conj fu2
  let y3 := Quad.conj y3
  let y4 := Quad.conj (fu * fu2p)
  let y6 := Quad.conj (fu3 * fu3p)
  let y6 := cyclotomicSquare y6
  let y6 := y6 * y4
  let y6 := y6 * y5
  let t1 := y3 * y5 * y6
  let y6 := y6 * y2
  let t1 := cyclotomicSquare t1
  let t1 := t1 * y6
  let t1 := cyclotomicSquare t1
  let t0 := t1 * y1
  let t1 := t1 * y0
  let t0 := cyclotomicSquare t0
  some (t0 * t1)

/-- `pairing.rs: Engine::pairing` = `multi_miller_loop(&[(p, q)]).final_exponentiation()`. -/
def pairing (p : G1A) (q : G2A) : Option BnFq12 := finalExponentiation (multiMillerLoop [(p, q)])

/-- The definition of the reduced pairing's last step: `f ^ ((p¹² − 1) / r)` by plain
square-and-multiply (no Frobenius, no cyclotomic shortcuts). -/
def finalExpNaive (f : BnFq12) : BnFq12 :=
  powBits (· * ·) 1 f ((Gen.bnP ^ 12 - 1) / Gen.bnR)

end MidnightZK.C13.Bn
