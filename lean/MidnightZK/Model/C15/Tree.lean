import MidnightZK.Model.C15.Accumulator
/-!
Further parts of the batching / accumulation layer:

* trees of `DualMSM::scale` / `DualMSM::add_msm` calls of any shape (`kzg/msm.rs`);
* the in-circuit `AssignedMsm` operations `scale`, `add_msm`, `accumulate_with_r`, the helper
  `verifier/utils.rs: powers` and `AssignedAccumulator::accumulate` (`verifier/msm.rs`,
  `verifier/accumulator.rs`), on the VALUES the assigned cells carry (`InnerValue::value`);
* `AssignedMsm::as_public_input_with_committed_scalars`,
  `AssignedAccumulator::as_public_input_with_committed_scalars`;
* the global order of transcript operations of `zk_stdlib::batch_verify` (the batching transcript
  and the members' own transcripts interleaved).

Import-free.
-/
namespace MidnightZK.C15

/-! ## Trees of `scale` / `add_msm` -/

/-- A guard obtained from given guards by any sequence of `DualMSM::scale` and
`DualMSM::add_msm` calls: `scale t e` is `t.scale(e)`, `add t o` is `t.add_msm(o)` where `o` is
itself the result of such calls. -/
inductive GuardTree (F G : Type) where
  | leaf (d : DualMsm F G)
  | scale (t : GuardTree F G) (e : F)
  | add (t o : GuardTree F G)
deriving Repr

section
variable {F G : Type}

/-- The guard the calls produce (`kzg/msm.rs: DualMSM::scale`, `DualMSM::add_msm`). -/
def GuardTree.run [Mul F] : GuardTree F G → DualMsm F G
  | .leaf d => d
  | .scale t e => t.run.scale e
  | .add t o => t.run.addMsm o.run

/-- What the model predicts: the leaves in order, each with the product of the factors of the
`scale` nodes above it (innermost first). -/
def GuardTree.leaves [Mul F] [One F] : GuardTree F G → List (F × DualMsm F G)
  | .leaf d => [(1, d)]
  | .scale t e => t.leaves.map (fun cd => (cd.1 * e, cd.2))
  | .add t o => t.leaves ++ o.leaves

/-- The leaves in order, each with the number of `scale` nodes above it. -/
def GuardTree.expLeaves : GuardTree F G → List (Nat × DualMsm F G)
  | .leaf d => [(0, d)]
  | .scale t _ => t.expLeaves.map (fun kd => (kd.1 + 1, kd.2))
  | .add t o => t.expLeaves ++ o.expLeaves

/-- The same shape with every `scale` factor replaced by `r` (a tree of calls all of whose
factors are one challenge, as a function of that challenge). -/
def GuardTree.withScale (r : F) : GuardTree F G → GuardTree F G
  | .leaf d => .leaf d
  | .scale t _ => .scale (t.withScale r) r
  | .add t o => .add (t.withScale r) (o.withScale r)

/-- Every `scale` node of the tree uses the factor `r`. -/
def GuardTree.AllScales (r : F) : GuardTree F G → Prop
  | .leaf _ => True
  | .scale t e => e = r ∧ t.AllScales r
  | .add t o => t.AllScales r ∧ o.AllScales r

/-- The tree of the loop of `zk_stdlib::batch_verify`:
`acc = g₀; for g in rest { acc.scale(r); acc.add_msm(g) }`. -/
def hornerTree (r : F) (g : DualMsm F G) (gs : List (DualMsm F G)) : GuardTree F G :=
  gs.foldl (fun t g => .add (.scale t r) (.leaf g)) (.leaf g)

end

/-! ## In-circuit `AssignedMsm` on values -/

section
variable {F G : Type} [Zero F] [One F] [Add F] [Mul F]

/-- `verifier/msm.rs: AssignedMsm::scale(r)`: every scalar and every fixed-base scalar is
`mul_bounded_scalars(s, r)`, i.e. `s * r`. -/
def Msm.aScale (m : Msm F G) (r : F) : Msm F G :=
  { terms := m.terms.map (fun t => (t.1 * r, t.2))
    fixed := m.fixed.map (fun kv => (kv.1, kv.2 * r)) }

/-- `verifier/msm.rs: AssignedMsm::add_msm(other)`: scalars and bases are appended; a fixed-base
scalar of `other` is added to an occupied entry (`add_bounded_scalars(occ, value)`) or inserted
into a vacant one. -/
def Msm.aAddMsm (m other : Msm F G) : Msm F G :=
  { terms := m.terms ++ other.terms
    fixed := other.fixed.foldl (fun acc kv => bmUpsert kv.1 kv.2 (· + kv.2) acc) m.fixed }

/-- `verifier/msm.rs: AssignedMsm::accumulate_with_r(other, r)`: `other.scale(r)` then
`self.add_msm(other)`. -/
def Msm.aAccumulateWithR (self other : Msm F G) (r : F) : Msm F G :=
  self.aAddMsm (other.aScale r)

/-- `verifier/utils.rs: fn powers(x, n)`: `[1, x, x·x, …]`, `n` entries (`1` alone for `n ≤ 1`);
the running product is `acc * x`. -/
def aPowers (x : F) (n : Nat) : List F :=
  1 :: go x (n - 1)
where
  go (acc : F) : Nat → List F
    | 0 => []
    | k + 1 => acc :: go (acc * x) k

/-- The loop of `AssignedAccumulator::accumulate`: `for (other, ri) in accs.zip(rs).skip(1)`. -/
def aAccumulateLoop : Accumulator F G → List (Accumulator F G × F) → Accumulator F G
  | acc, [] => acc
  | acc, (other, ri) :: rest =>
    aAccumulateLoop
      ⟨acc.lhs.aAccumulateWithR other.lhs ri, acc.rhs.aAccumulateWithR other.rhs ri⟩ rest

/-- `verifier/accumulator.rs: AssignedAccumulator::accumulate` on values (sponge `hash` over the
in-circuit public-input form, which `PublicInputInstructions::as_public_input` keeps equal to the
off-circuit one). An empty slice returns `AssignedAccumulator::new(AssignedMsm::empty(),
AssignedMsm::empty())` before any cell is assigned (commit f706bff; the pinned code evaluated
`accs[0]`). -/
def Accumulator.aAccumulate (hash : List F → F) (enc : G → List F)
    (accs : List (Accumulator F G)) : Option (Accumulator F G) :=
  match accs with
  | [] => some Accumulator.neutral
  | a :: rest =>
    let r := hash (accumulateHashInput enc accs)
    some (aAccumulateLoop a (rest.zip ((aPowers r accs.length).drop 1)))

/-- `AssignedMsm::as_public_input_with_committed_scalars(msm)`: (encodings of the bases,
scalars followed by the fixed-base scalars in key order). -/
def Msm.asPublicInputCommitted (enc : G → List F) (m : Msm F G) : List F × List F :=
  (m.terms.flatMap (fun t => enc t.2), m.terms.map (·.1) ++ m.fixed.map (·.2))

/-- `AssignedAccumulator::as_public_input_with_committed_scalars(acc)`: the normal instance is
the full public-input form of `lhs` followed by the bases of `rhs`; the committed instance is the
scalars (variable then fixed) of `rhs`. -/
def Accumulator.asPublicInputCommitted (enc : G → List F) (a : Accumulator F G) :
    List F × List F :=
  let r := a.rhs.asPublicInputCommitted enc
  (a.lhs.asPublicInput enc ++ r.1, r.2)

end

/-! ## Global order of transcript operations of `batch_verify` -/

/-- One operation on one transcript hasher: `who = 0` is the batching transcript
`r_transcript`, `who = i + 1` the transcript of member `i`. `len` is the number of bytes absorbed
(`0` for `init` / `squeeze`). -/
structure GEvent where
  who : Nat
  kind : Nat   -- 0 init, 1 absorb, 2 squeeze
  len : Nat
deriving DecidableEq, Repr

/-- What one member does on its OWN transcript during `prepare` (`trace`: kinds and byte lengths,
as observed on a stand-alone `prepare` of that member), and how far it gets:
* `stage = 0`: stopped before its transcript is created (wrong instance length);
* `stage = 1`: `prepare` returned an error (after `trace`);
* `stage = 2`: went through `prepare`, summary squeezed and absorbed, then trailing bytes;
* `stage = 3`: went through. -/
structure MemberTrace where
  stage : Nat
  trace : List (Nat × Nat)
deriving DecidableEq, Repr

/-- Byte length of the encoding of a scalar absorbed by `common(&summary)`. -/
def summaryBytes : Nat := 32

/-- `zk_stdlib/src/lib.rs: batch_verify`, every hasher operation in program order: `init` of the
batching transcript; then per member, in member order: `init` of its transcript, the operations of
`prepare`, the squeeze of the summary, the absorption of the summary INTO THE BATCHING TRANSCRIPT;
the first member that fails ends the list; the squeeze of `r` comes last, after every member. -/
def globalSchedule (members : List MemberTrace) : List GEvent :=
  ⟨0, 0, 0⟩ :: go 1 members
where
  go (i : Nat) : List MemberTrace → List GEvent
    | [] => [⟨0, 2, 0⟩]
    | m :: rest =>
      let own := ⟨i, 0, 0⟩ :: m.trace.map (fun kl => (⟨i, kl.1, kl.2⟩ : GEvent))
      if m.stage = 0 then []
      else if m.stage = 1 then own
      else
        let full := own ++ [⟨i, 2, 0⟩, ⟨0, 1, summaryBytes⟩]
        if m.stage = 2 then full else full ++ go (i + 1) rest

/-- `batch_verify` with its length check in front: nothing happens on any hasher when the three
slices have different lengths (the check precedes `CircuitTranscript::init`). -/
def globalScheduleFull (nPis nProofs : Nat) (members : List MemberTrace) : List GEvent :=
  if nPis ≠ members.length ∨ nProofs ≠ members.length then [] else globalSchedule members

end MidnightZK.C15
