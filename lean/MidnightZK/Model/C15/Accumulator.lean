import MidnightZK.Model.C15.Batch
import MidnightZK.Gen.C15Consts
/-!
Model of the off-circuit accumulator of the recursive verifier:

* `circuits/src/verifier/msm.rs`: `Msm` (`new`, `collapse`, `eval`, `accumulate_with_r`,
  `as_public_input`);
* `circuits/src/verifier/accumulator.rs`: `Accumulator` (`from_dual_msm`, `check`, `collapse`,
  `accumulate`, `as_public_input`);
* `circuits/src/verifier/mod.rs`: `fixed_commitment_name`, `perm_commitment_name`.

`BTreeMap<String, _>` is a key-sorted association list (`String`'s order is the byte-wise
lexicographic order in both languages; all names are ASCII). A Rust panic (`assert_eq!`,
`unwrap_or_else(|| panic!(..))`) is the value `none`. Import-free.
-/
namespace MidnightZK.C15

/-! ## `BTreeMap<String, V>` -/

section
variable {V : Type}

/-- `BTreeMap::get`. -/
def bmGet : List (String × V) → String → Option V
  | [], _ => none
  | (k', v) :: t, k => if k = k' then some v else bmGet t k

/-- `BTreeMap::insert` (an existing value is overwritten). -/
def bmInsert (k : String) (v : V) : List (String × V) → List (String × V)
  | [] => [(k, v)]
  | (k', v') :: t =>
    if k < k' then (k, v) :: (k', v') :: t
    else if k = k' then (k, v) :: t
    else (k', v') :: bmInsert k v t

/-- `entry(k).and_modify(|e| *e = f e).or_insert(v)`. -/
def bmUpsert (k : String) (v : V) (f : V → V) : List (String × V) → List (String × V)
  | [] => [(k, v)]
  | (k', v') :: t =>
    if k < k' then (k, v) :: (k', v') :: t
    else if k = k' then (k, f v') :: t
    else (k', v') :: bmUpsert k v f t

end

/-- `verifier/mod.rs: fn fixed_commitment_name`: `format!("{prefix}_fixed_com_{i}")` (the infix is
read from the source by `translators/c15_consts.py`). -/
def fixedCommitmentName (pfx : String) (i : Nat) : String := pfx ++ Gen.fixedComInfix ++ toString i

/-- `verifier/mod.rs: fn perm_commitment_name`: `format!("{prefix}_perm_com_{i}")`. -/
def permCommitmentName (pfx : String) (i : Nat) : String := pfx ++ Gen.permComInfix ++ toString i

/-- The custom label `from_dual_msm` recognises as the negated generator introduced by the
multi-opening argument (read from the source). -/
def minusGName : String := Gen.negGLabelFromDual

/-- `verifier/msm.rs: struct Msm`: `<scalars, bases> + <fixed_bases, fixed_base_scalars>`.
`terms` pairs the vectors `scalars` and `bases` (`Msm::new` asserts equal lengths and every
method keeps them equal). -/
structure Msm (F G : Type) where
  terms : List (F × G)
  fixed : List (String × F)
deriving DecidableEq, Repr

/-- `Msm::new(bases, scalars, fixed_base_scalars)` / `Msm::from_terms(bases, scalars)`:
`none` = `assert_eq!(bases.len(), scalars.len())` fails. -/
def Msm.new? {F G : Type} (bases : List G) (scalars : List F) (fixed : List (String × F)) :
    Option (Msm F G) :=
  if bases.length = scalars.length then some ⟨scalars.zip bases, fixed⟩ else none

/-- `accumulator.rs: struct Accumulator`. -/
structure Accumulator (F G : Type) where
  lhs : Msm F G
  rhs : Msm F G
deriving DecidableEq, Repr

section
variable {F G : Type}

/-- State of the closure `process_msm` of `from_dual_msm`. -/
structure ProcSt (F G : Type) where
  terms : List (F × G)
  fixed : List (String × F)

variable [Zero F] [One F] [Add F] [Mul F] [DecidableEq F] [Zero G] [Add G] [SMul F G]

/-- One iteration of `process_msm`: dispatch on the label; `none` = `assert_eq!` fails. A
fixed-base scalar is ADDED to the entry of its name
(`*fixed_base_scalars.entry(name).or_insert(ZERO) += *scalar`, commit 348977f; the pinned code
used `insert`, which kept only the last scalar of a repeated name). -/
def processTerm [DecidableEq G] (pfx : String) (fb : List (String × G)) (st : ProcSt F G)
    (t : Term F G) : Option (ProcSt F G) :=
  let fixedCase (name : String) : Option (ProcSt F G) :=
    if bmGet fb name = some t.base then
      some { st with fixed := bmUpsert name (0 + t.scalar) (· + t.scalar) st.fixed }
    else none
  match t.label with
  | .fixed i => fixedCase (fixedCommitmentName pfx i)
  | .perm i => fixedCase (permCommitmentName pfx i)
  | .custom s =>
    if s = minusGName then fixedCase minusGName
    else some { st with terms := st.terms ++ [(t.scalar, t.base)] }
  | _ => some { st with terms := st.terms ++ [(t.scalar, t.base)] }

/-- The closure `process_msm` of `from_dual_msm`. -/
def processMsm [DecidableEq G] (pfx : String) (fb : List (String × G)) :
    MsmKzg F G → ProcSt F G → Option (ProcSt F G)
  | [], st => some st
  | t :: rest, st =>
    match processTerm pfx fb st t with
    | none => none
    | some st' => processMsm pfx fb rest st'

/-- `Accumulator::from_dual_msm(dual_msm, prefix, fixed_bases)`. -/
def fromDualMsm [DecidableEq G] (d : DualMsm F G) (pfx : String) (fb : List (String × G)) :
    Option (Accumulator F G) :=
  match processMsm pfx fb d.left ⟨[], []⟩ with
  | none => none
  | some l =>
    match processMsm pfx fb d.right ⟨[], []⟩ with
    | none => none
    | some r => some ⟨⟨l.terms, l.fixed⟩, ⟨r.terms, r.fixed⟩⟩

/-- The fixed-base terms of `Msm::eval`: `none` = `panic!("Base not provided: {key}")`. -/
def fixedTerms (fb : List (String × G)) : List (String × F) → Option (List (F × G))
  | [] => some []
  | (k, s) :: t =>
    match bmGet fb k, fixedTerms fb t with
    | some b, some rest => some ((s, b) :: rest)
    | _, _ => none

/-- `Msm::eval(fixed_bases)`: `msm_best` of the variable terms followed by the fixed-base terms
in key order. -/
def Msm.eval (m : Msm F G) (fb : List (String × G)) : Option G :=
  match fixedTerms fb m.fixed with
  | none => none
  | some ft => some (msmSum (m.terms ++ ft))

/-- `Msm::collapse`. -/
def Msm.collapse (m : Msm F G) : Msm F G :=
  { m with terms := [(1, msmSum m.terms)] }

/-- `Msm::accumulate_with_r(&self, other, r)`. -/
def Msm.accumulateWithR (self other : Msm F G) (r : F) : Msm F G :=
  { terms := self.terms ++ other.terms.map (fun t => (t.1 * r, t.2))
    fixed := other.fixed.foldl (fun acc kv => bmUpsert kv.1 (r * kv.2) (· + r * kv.2) acc)
      self.fixed }

/-- `AssignedMsm::as_public_input(msm)`: encodings of the bases, then the scalars, then the
fixed-base scalars in key order. `enc` is `S::AssignedPoint::as_public_input`. -/
def Msm.asPublicInput (enc : G → List F) (m : Msm F G) : List F :=
  m.terms.flatMap (fun t => enc t.2) ++ m.terms.map (·.1) ++ m.fixed.map (·.2)

/-- `AssignedAccumulator::as_public_input(acc)`. -/
def Accumulator.asPublicInput (enc : G → List F) (a : Accumulator F G) : List F :=
  a.lhs.asPublicInput enc ++ a.rhs.asPublicInput enc

/-- `Accumulator::check(tau_in_g2, fixed_bases)`: `e(lhs, [τ]₂) == e(rhs, [1]₂)`; `none` if an
evaluation panics on a missing base. -/
def Accumulator.check [DecidableEq G] (τ : F) (fb : List (String × G)) (a : Accumulator F G) :
    Option Bool :=
  match a.lhs.eval fb, a.rhs.eval fb with
  | some l, some r => some (decide (τ • l = r))
  | _, _ => none

/-- `Accumulator::collapse`. -/
def Accumulator.collapse (a : Accumulator F G) : Accumulator F G :=
  ⟨a.lhs.collapse, a.rhs.collapse⟩

/-- `r.pow([i])`. -/
def fpow (r : F) : Nat → F
  | 0 => 1
  | n + 1 => fpow r n * r

/-- The loop of `Accumulator::accumulate`: `for (other, ri) in accs.zip(rs).skip(1)`, the
power index is the position of `other` in `accs`. -/
def accumulateLoop (r : F) : Nat → Accumulator F G → List (Accumulator F G) → Accumulator F G
  | _, acc, [] => acc
  | i, acc, other :: rest =>
    accumulateLoop r (i + 1)
      ⟨acc.lhs.accumulateWithR other.lhs (fpow r i), acc.rhs.accumulateWithR other.rhs (fpow r i)⟩
      rest

/-- The input of the hash that yields the combination challenge of `accumulate`. -/
def accumulateHashInput (enc : G → List F) (accs : List (Accumulator F G)) : List F :=
  accs.flatMap (Accumulator.asPublicInput enc)

/-- The neutral accumulator: no terms and no fixed-base scalars on either side
(`Msm::from_terms(&[], &[])` twice / `AssignedMsm::empty()` twice). -/
def Accumulator.neutral : Accumulator F G := ⟨⟨[], []⟩, ⟨[], []⟩⟩

/-- `Accumulator::accumulate(accs)` with the sponge `hash`. An empty slice returns the neutral
accumulator before anything is hashed (commit f706bff; the pinned code evaluated `accs[0]` and
panicked). The result type stays `Option` (`none` = panic) although no input produces `none` any
more: `accumulate_total`. -/
def Accumulator.accumulate (hash : List F → F) (enc : G → List F)
    (accs : List (Accumulator F G)) : Option (Accumulator F G) :=
  match accs with
  | [] => some Accumulator.neutral
  | a :: rest => some (accumulateLoop (hash (accumulateHashInput enc accs)) 1 a rest)

end

end MidnightZK.C15
