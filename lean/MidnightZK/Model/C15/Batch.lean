import MidnightZK.Model.Common
/-!
Model of the batching layer of the KZG verifier:

* `proofs/src/poly/kzg/msm.rs`: `MSMKZG` (`append_term`, `add_msm`, `scale`, `eval`, `check`),
  `msm_specific` (zero filter), `DualMSM` (`scale`, `add_msm`, `check`, `Guard::verify`);
* `proofs/src/poly/commitment.rs`: `Guard::batch_verify`;
* `zk_stdlib/src/lib.rs`: `verify`, `batch_verify` (control flow, error values, Horner
  combination of the guards with the batching challenge `r`, schedule of the batching transcript).

`F` is the scalar field, `G` the group of commitments, only through the operations the code
uses (`*`, `+`, `•`, equality). The Miller loop / final exponentiation of blst is *specified*, not
modelled: `e(L, [τ]₂)·e(R, −[1]₂) = 1` is the statement `τ • L = R` (bilinearity and
non-degeneracy of the pairing), see `pairingCheck`. Import-free.
-/
namespace MidnightZK.C15

/-- `proofs/src/poly/query.rs: enum CommitmentLabel`. -/
inductive Label where
  | advice (i : Nat)
  | inst (i : Nat)
  | fixed (i : Nat)
  | perm (i : Nat)
  | custom (s : String)
  | noLabel
deriving DecidableEq, Repr, Inhabited

/-- One entry of the three parallel vectors `scalars` / `bases` / `labels` of `MSMKZG`
(the code only ever pushes / extends the three together). -/
structure Term (F G : Type) where
  scalar : F
  base : G
  label : Label
deriving DecidableEq, Repr

/-- `kzg/msm.rs: struct MSMKZG`. -/
abbrev MsmKzg (F G : Type) := List (Term F G)

section
variable {F G : Type}

/-- `MSMKZG::append_term`. -/
def MsmKzg.appendTerm (m : MsmKzg F G) (s : F) (b : G) (l : Label) : MsmKzg F G :=
  m ++ [⟨s, b, l⟩]

/-- `MSMKZG::init`. -/
def MsmKzg.init : MsmKzg F G := []

/-- `MSMKZG::from_many`: the vectors of the given MSMs are appended in order. -/
def MsmKzg.fromMany (msms : List (MsmKzg F G)) : MsmKzg F G := msms.flatten

/-- `MSMKZG::from_base`: the base with scalar one and no label. -/
def MsmKzg.fromBase [One F] (b : G) : MsmKzg F G := [⟨1, b, .noLabel⟩]

/-- `MSMKZG::add_msm`: the three vectors of `other` are appended. -/
def MsmKzg.addMsm (m other : MsmKzg F G) : MsmKzg F G := m ++ other

/-- `MSMKZG::scale`: `*s *= &factor` for every scalar. -/
def MsmKzg.scale [Mul F] (m : MsmKzg F G) (f : F) : MsmKzg F G :=
  m.map (fun t => { t with scalar := t.scalar * f })

variable [Zero F] [One F] [DecidableEq F] [Zero G] [Add G] [SMul F G]

/-- The plain multi-scalar multiplication `Σ sᵢ • bᵢ` (`G1Projective::multi_exp` / `msm_best`,
whose agreement with this sum is property C12). -/
def msmSum (m : List (F × G)) : G := (m.map (fun t => t.1 • t.2)).sum

/-- `kzg/msm.rs: fn msm_specific`: terms with a zero coefficient are dropped, an empty
product is the identity, otherwise the multi-exponentiation. -/
def msmSpecific (m : MsmKzg F G) : G :=
  let kept := m.filter (fun t => t.scalar ≠ 0)
  if kept.isEmpty then 0 else msmSum (kept.map (fun t => (t.scalar, t.base)))

/-- `MSMKZG::eval`: `if self.scalars == vec![ONE] { self.bases[0] } else { msm_specific(..) }`. -/
def MsmKzg.eval (m : MsmKzg F G) : G :=
  match m with
  | [t] => if t.scalar = 1 then t.base else msmSpecific m
  | _ => msmSpecific m

/-- `MSMKZG::check`: the evaluation is the identity. -/
def MsmKzg.check [DecidableEq G] (m : MsmKzg F G) : Bool := decide (m.eval = 0)

/-- `kzg/msm.rs: struct DualMSM` — the verification guard of one (or several) proofs. -/
structure DualMsm (F G : Type) where
  left : MsmKzg F G
  right : MsmKzg F G
deriving DecidableEq, Repr

/-- `DualMSM::init`. -/
def DualMsm.init : DualMsm F G := ⟨[], []⟩

/-- `DualMSM::scale`. -/
def DualMsm.scale [Mul F] (d : DualMsm F G) (e : F) : DualMsm F G :=
  ⟨d.left.scale e, d.right.scale e⟩

/-- `DualMSM::add_msm`. -/
def DualMsm.addMsm (d other : DualMsm F G) : DualMsm F G :=
  ⟨d.left.addMsm other.left, d.right.addMsm other.right⟩

/-- Specification of `E::multi_miller_loop(&[(L, [τ]₂), (R, −[1]₂)]).final_exponentiation()
.is_identity()`: by bilinearity the product is `e(τ•L − R, [1]₂)`, which is `1` iff `τ•L = R`
(non-degeneracy). `τ` is the trapdoor of the verifier parameters (`s_g2 = [τ]₂`). -/
def pairingCheck [DecidableEq G] (τ : F) (l r : G) : Bool := decide (τ • l = r)

/-- The left point of `DualMSM::check`: a second copy of the `[ONE]` shortcut of `eval`. -/
def DualMsm.leftPoint (d : DualMsm F G) : G :=
  match d.left with
  | [t] => if t.scalar = 1 then t.base else d.left.eval
  | _ => d.left.eval

/-- `DualMSM::check(self, params)`. -/
def DualMsm.check [DecidableEq G] (τ : F) (d : DualMsm F G) : Bool :=
  pairingCheck τ d.leftPoint d.right.eval

/-- `proofs/src/poly/mod.rs: enum Error` (of the commitment scheme). -/
inductive PolyErr where
  | openingError
  | samplingError
  | duplicatedQuery
deriving DecidableEq, Repr

/-- `impl Guard for DualMSM: fn verify`. -/
def DualMsm.verify [DecidableEq G] (τ : F) (d : DualMsm F G) : Except PolyErr Unit :=
  if d.check τ then .ok () else .error .openingError

/-- `zip(..).try_for_each(|(guard, params)| guard.verify(params))`: stops at the first error. -/
def verifyEach [DecidableEq G] : List (DualMsm F G × F) → Except PolyErr Unit
  | [] => .ok ()
  | (g, τ) :: rest =>
    match g.verify τ with
    | .ok () => verifyEach rest
    | .error e => .error e

/-- `commitment.rs: Guard::batch_verify(guards, params)`: a length mismatch is an error value. -/
def guardBatchVerify [DecidableEq G] (guards : List (DualMsm F G)) (params : List F) :
    Except PolyErr Unit :=
  if guards.length ≠ params.length then .error .openingError
  else verifyEach (guards.zip params)

/-! ## `zk_stdlib::verify` / `zk_stdlib::batch_verify` -/

/-- The values of `midnight_proofs::plonk::Error` that the verifier side can return. -/
inductive Err where
  | invalidInstances
  | opening
  | transcript
  | other (what : String)
deriving DecidableEq, Repr

/-- What the batching code sees of one member `(vk, pi, proof)`:
* `piLenOk` — `pi.len() == vk.nb_public_inputs`;
* `prepared` — the result of `plonk::prepare` on the member's own transcript (error value, or the
  guard);
* `trailing` — bytes are left in the proof after `prepare` (`assert_empty` fails). -/
structure Member (F G : Type) where
  piLenOk : Bool
  prepared : Except Err (DualMsm F G)
  trailing : Bool

/-- The closure of `batch_verify` mapped over the members (identical checks, in the same order,
in `verify`): instance-length check, `prepare`, `assert_empty`. -/
def Member.guard (m : Member F G) : Except Err (DualMsm F G) :=
  if !m.piLenOk then .error .invalidInstances else
  match m.prepared with
  | .error e => .error e
  | .ok d => if m.trailing then .error .opening else .ok d

/-- `zk_stdlib::verify` (through `BlstPLONK::verify`). -/
def verifyOne [DecidableEq G] (τ : F) (m : Member F G) : Except Err Unit :=
  match m.guard with
  | .error e => .error e
  | .ok d => if d.check τ then .ok () else .error .opening

/-- `.collect::<Result<Vec<_>, Error>>()`: the first error in member order wins. -/
def collectGuards : List (Member F G) → Except Err (List (DualMsm F G))
  | [] => .ok []
  | m :: rest =>
    match m.guard with
    | .error e => .error e
    | .ok d =>
      match collectGuards rest with
      | .error e => .error e
      | .ok ds => .ok (d :: ds)

/-- `for guard in guards.skip(1) { acc.scale(r); acc.add_msm(guard) }` started at the first guard;
`none` for an empty batch. -/
def hornerFold [Mul F] (r : F) : List (DualMsm F G) → Option (DualMsm F G)
  | [] => none
  | g :: gs => some (gs.foldl (fun acc g => (acc.scale r).addMsm g) g)

/-- `zk_stdlib/src/lib.rs: pub fn batch_verify(params, vks, pis, proofs)`. `nPis`/`nProofs` are the
lengths of the two other slices (`members` is what `zip` produces when they agree), `r` the
challenge squeezed from the batching transcript. -/
def batchVerify [Mul F] [DecidableEq G] (τ : F) (nPis nProofs : Nat) (members : List (Member F G))
    (r : F) : Except Err Unit :=
  if nPis ≠ members.length ∨ nProofs ≠ members.length then .error .invalidInstances else
  match collectGuards members with
  | .error e => .error e
  | .ok guards =>
    match hornerFold r guards with
    | none => .ok ()
    | some acc => if acc.check τ then .ok () else .error .opening

/-- The verdict the property demands: the first member-level error in order, otherwise
`Opening` if some guard fails its own pairing check, otherwise `Ok`. -/
def batchVerdict [DecidableEq G] (τ : F) (nPis nProofs : Nat) (members : List (Member F G)) :
    Except Err Unit :=
  if nPis ≠ members.length ∨ nProofs ≠ members.length then .error .invalidInstances else
  match collectGuards members with
  | .error e => .error e
  | .ok guards => if guards.all (·.check τ) then .ok () else .error .opening

end

/-! ## Schedule of the batching transcript -/

/-- Operations on the batching transcript `r_transcript`. -/
inductive TEvent (F : Type) where
  | init
  | absorb (x : F)
  | squeeze
deriving DecidableEq, Repr

/-- `batch_verify`: `r_transcript = init()`; for every member, after its `prepare`, the summary
challenge squeezed from the member's transcript is absorbed (`common`); then `r` is squeezed. -/
def rSchedule {F : Type} (summaries : List F) : List (TEvent F) :=
  .init :: (summaries.map .absorb ++ [.squeeze])

/-- The events actually performed on the batching transcript by `batch_verify`, early exits
included: nothing at all on a length mismatch (the check precedes `init`); a member with a wrong
instance length or a failing `prepare` stops the iteration before its summary exists; a member
with trailing bytes is absorbed first (`common(&summary)` precedes `assert_empty`) and then stops
it; `r` is squeezed only if every member went through. `summary m` is the challenge squeezed from
the member's own transcript after `prepare`. -/
def rScheduleFull {F G : Type} (nPis nProofs : Nat) (members : List (Member F G))
    (summary : Member F G → F) : List (TEvent F) :=
  if nPis ≠ members.length ∨ nProofs ≠ members.length then [] else .init :: go members
where
  go : List (Member F G) → List (TEvent F)
    | [] => [.squeeze]
    | m :: rest =>
      if !m.piLenOk then [] else
      match m.prepared with
      | .error _ => []
      | .ok _ => if m.trailing then [.absorb (summary m)] else .absorb (summary m) :: go rest

end MidnightZK.C15
