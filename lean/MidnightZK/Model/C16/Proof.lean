import MidnightZK.Model.C16.Points
/-!
The byte layout of a PLONK/KZG proof as the verifier reads it, as a function of the
constraint-system shape, and the element-by-element parse that `verify` performs on untrusted
proof bytes.

Mirrors the `transcript.read()` calls of `proofs/src/plonk/verifier.rs: parse_trace`,
`verify_algebraic_constraints` (advice commitments; lookup permuted commitments; permutation
product commitments — one per chunk of `degree − 2` columns; lookup product commitments; trash
commitments; the random polynomial; the `degree − 1` pieces of the quotient; then the
evaluations: committed-instance queries, advice queries, fixed queries, the random polynomial,
the permutation columns, 3 per permutation chunk except 2 for the last, 5 per lookup, 1 per
trash argument) and of `proofs/src/poly/kzg/mod.rs: multi_prepare` (`f_com`, one evaluation per
point set, `π`), and `transcript/implementors.rs`: points are 48-byte compressed G1
(`from_bytes`), scalars 32-byte canonical (`from_repr`); `assert_empty` rejects trailing bytes.
-/
namespace MidnightZK.C16

inductive Elem where
  | pt
  | sc
  deriving Repr, DecidableEq, Inhabited

def Elem.size : Elem → Nat
  | .pt => 48
  | .sc => 32

structure ProofShape where
  nAdvice : Nat
  nLookups : Nat
  nTrash : Nat
  nPerm : Nat
  degree : Nat
  /-- instance queries on committed instance columns (their evaluations are read from the proof) -/
  nInstQ : Nat
  nAdvQ : Nat
  nFixQ : Nat
  /-- number of distinct rotation sets of the multi-opening -/
  nSets : Nat
  deriving Repr, DecidableEq, Inhabited

/-- `columns.chunks(degree − 2).count()`. -/
def permChunks (s : ProofShape) : Nat :=
  if s.degree - 2 = 0 then 0 else (s.nPerm + (s.degree - 2) - 1) / (s.degree - 2)

/-- Elements read by `parse_trace` + `verify_algebraic_constraints` (the PLONK part). -/
def plonkSchedule (s : ProofShape) : List Elem :=
  List.replicate s.nAdvice .pt ++ List.replicate (2 * s.nLookups) .pt ++
  List.replicate (permChunks s) .pt ++ List.replicate s.nLookups .pt ++ List.replicate s.nTrash .pt ++
  [.pt] ++ List.replicate (s.degree - 1) .pt ++
  List.replicate s.nInstQ .sc ++ List.replicate s.nAdvQ .sc ++ List.replicate s.nFixQ .sc ++ [.sc] ++
  List.replicate s.nPerm .sc ++ List.replicate (3 * permChunks s - 1) .sc ++
  List.replicate (5 * s.nLookups) .sc ++ List.replicate s.nTrash .sc

/-- Elements read by `multi_prepare` (the opening part). -/
def openingSchedule (s : ProofShape) : List Elem :=
  [.pt] ++ List.replicate s.nSets .sc ++ [.pt]

def proofSchedule (s : ProofShape) : List Elem := plonkSchedule s ++ openingSchedule s

def scheduleLen (l : List Elem) : Nat := (l.map Elem.size).sum

/-- Byte length of an accepted proof. -/
def proofLen (s : ProofShape) : Nat := scheduleLen (proofSchedule s)

def Elem.render : Elem → Char
  | .pt => 'P'
  | .sc => 'S'

/-- Decode one element (`Hashable::read`). -/
def decodeElem (decPt : Bytes → Except Err G1Pt) (e : Elem) (a : Bytes) : Except Err Unit :=
  match e with
  | .pt => (decPt a).map (fun _ => ())
  | .sc => (decodeFqRepr a).map (fun _ => ())

/-- Walk the schedule over the bytes: number of elements read successfully, and the error that
stopped the walk (if any) with the rest of the input. -/
def parseElems (decPt : Bytes → Except Err G1Pt) : List Elem → Bytes → Nat → Nat × Option Err × Bytes
  | [], bs, n => (n, none, bs)
  | e :: t, bs, n =>
    match readN e.size bs with
    | .error er => (n, some er, bs)
    | .ok (a, r) =>
      match decodeElem decPt e a with
      | .error er => (n, some er, bs)
      | .ok _ => parseElems decPt t r (n + 1)

/-- Verdict class of `verify` on proof bytes, as far as decoding determines it. -/
inductive ProofVerdict where
  /-- an element of the PLONK part failed to decode: `Error::Transcript` -/
  | transcript
  /-- an element of the opening part failed to decode, or bytes are left: `Error::Opening` -/
  | opening
  /-- every element decoded and nothing is left: the algebraic/pairing checks decide -/
  | parsed
  deriving Repr, DecidableEq

def ProofVerdict.toString : ProofVerdict → String
  | .transcript => "transcript" | .opening => "opening" | .parsed => "parsed"

/-- Parse of untrusted proof bytes against a shape: elements read and verdict class. -/
def parseProof (decPt : Bytes → Except Err G1Pt) (s : ProofShape) (bs : Bytes) : Nat × ProofVerdict :=
  match parseElems decPt (proofSchedule s) bs 0 with
  | (n, some _, _) => (n, if n < (plonkSchedule s).length then .transcript else .opening)
  | (n, none, rest) => (n, if rest.isEmpty then .parsed else .opening)

end MidnightZK.C16
