import MidnightZK.Model.C16.Points
import MidnightZK.Model.C16.Arch
/-!
`VerifyingKey::read_from_cs`, `permutation::VerifyingKey::read`, `MidnightVK::read`,
`ParamsVerifierKZG::read`.

Mirrors `proofs/src/plonk/mod.rs: VerifyingKey::read_from_cs` (version byte, `k ≤ S`, extended
domain, little-endian `u32` count compared with the constraint system, that many commitments),
`proofs/src/plonk/permutation.rs: VerifyingKey::read` (one commitment per permutation column),
`zk_stdlib/src/lib.rs: MidnightVK::read` (architecture, `max_bit_len` byte, `nb_public_inputs`
little-endian `u32`, then the key for the constraint system `ZkStdLib::configure` builds for that
architecture) and `proofs/src/poly/kzg/params.rs: ParamsVerifierKZG::read` (one G2 point).

The decoders are parametric in the point decoder `dec` (instantiated with `decodeG1` in the
theorems; the driver passes a memoising wrapper of the same function).
-/
namespace MidnightZK.C16
open Gen

/-- What `read_from_cs` uses of the constraint system. -/
structure CsShape where
  /-- `cs.num_fixed_columns + cs.num_selectors` -/
  nFixed : Nat
  /-- `cs.permutation.columns.len()` -/
  nPerm : Nat
  /-- `cs.degree()` -/
  degree : Nat
  deriving Repr, DecidableEq, Inhabited

structure VKey (Pt : Type) where
  k : Nat
  fixed : List Pt
  perm : List Pt
  deriving Repr, DecidableEq

/-- The `while (1 << extended_k) < (1 << k) * quotient_poly_degree` loop (64 iterations suffice
for `k ≤ 255` only in as far as the Rust loop itself terminates; `fuel` is explicit). -/
def extKLoop : Nat → Nat → Nat → Nat → Nat
  | 0, ek, _, _ => ek
  | fuel + 1, ek, k, qpd => if 2 ^ ek < 2 ^ k * qpd then extKLoop fuel (ek + 1) k qpd else ek

/-- `extended_k` for circuit size `k` and constraint-system degree `degree`. -/
def extendedK (k degree : Nat) : Nat := extKLoop 64 k k (degree - 1)

/-- Read `n` commitments of `size` bytes each. -/
def readPoints {Pt : Type} (dec : Bytes → Except Err Pt) (size : Nat) : Nat → Bytes → Except Err (List Pt × Bytes)
  | 0, bs => .ok ([], bs)
  | n + 1, bs =>
    match readN size bs with
    | .error e => .error e
    | .ok (a, r) =>
      match dec a with
      | .error e => .error e
      | .ok p =>
        match readPoints dec size n r with
        | .error e => .error e
        | .ok (l, r') => .ok (p :: l, r')

/-- `VerifyingKey::read_from_cs`. -/
def decodeVKWith {Pt : Type} (dec : Bytes → Except Err Pt) (size : Nat) (cs : CsShape) (bs : Bytes) :
    Except Err (VKey Pt × Bytes) :=
  match readN 1 bs with
  | .error e => .error e
  | .ok (v, r0) =>
    if leBytesToNat v ≠ vkVersion then .error .vkVersion else
    match readN 1 r0 with
    | .error e => .error e
    | .ok (kb, r1) =>
      let k := leBytesToNat kb
      if k > fqS then .error .kRange else
      if extendedK k cs.degree > fqS then .error .kExtended else
      match readN 4 r1 with
      | .error e => .error e
      | .ok (nb, r2) =>
        if leBytesToNat nb ≠ cs.nFixed then .error .nFixed else
        match readPoints dec size cs.nFixed r2 with
        | .error e => .error e
        | .ok (fixed, r3) =>
          match readPoints dec size cs.nPerm r3 with
          | .error e => .error e
          | .ok (perm, r4) => .ok ({ k := k, fixed := fixed, perm := perm }, r4)

/-- `VerifyingKey::write`. -/
def encodeVKWith {Pt : Type} (enc : Pt → Bytes) (vk : VKey Pt) : Bytes :=
  [vkVersion, vk.k] ++ natToLeBytes 4 vk.fixed.length ++ vk.fixed.flatMap enc ++ vk.perm.flatMap enc

structure MVKey (Pt : Type) where
  arch : Arch
  maxBitLen : Nat
  nbPublicInputs : Nat
  vk : VKey Pt
  deriving Repr, DecidableEq

/-- `MidnightVK::read`; `shape a` is the constraint system `ZkStdLib::configure` builds for `a`. -/
def decodeMVKWith {Pt : Type} (dec : Bytes → Except Err Pt) (size : Nat) (c : ColConsts) (shape : Arch → CsShape)
    (bs : Bytes) : Except Err (MVKey Pt × Bytes) :=
  match decodeArch c bs with
  | .error e => .error e
  | .ok (arch, r0) =>
    match readN 1 r0 with
    | .error e => .error e
    | .ok (mb, r1) =>
      match readN 4 r1 with
      | .error e => .error e
      | .ok (np, r2) =>
        match decodeVKWith dec size (shape arch) r2 with
        | .error e => .error e
        | .ok (vk, r3) =>
          .ok ({ arch := arch, maxBitLen := leBytesToNat mb, nbPublicInputs := leBytesToNat np, vk := vk }, r3)

/-- `MidnightVK::write`. -/
def encodeMVKWith {Pt : Type} (enc : Pt → Bytes) (m : MVKey Pt) : Bytes :=
  encodeArch m.arch ++ [m.maxBitLen] ++ natToLeBytes 4 m.nbPublicInputs ++ encodeVKWith enc m.vk

/-- The concrete decoders of the two checked formats. -/
def decodeVK (f : Fmt) := decodeVKWith (decodeG1 f) f.g1Size
def decodeMVK (f : Fmt) := decodeMVKWith (decodeG1 f) f.g1Size

/-- `ParamsVerifierKZG::read`: one G2 point (`s_g2`). -/
def decodeVerifierParams (f : Fmt) (bs : Bytes) : Except Err (G2Pt × Bytes) :=
  match readN f.g2Size bs with
  | .error e => .error e
  | .ok (a, r) =>
    match decodeG2 f a with
    | .error e => .error e
    | .ok p => .ok (p, r)

/-- Number of commitment chunks `read_from_cs` consumed before it stopped (ok or error): what the
growing `Vec`s of the Rust decoder hold at their peak. -/
def pointsRead {Pt : Type} (dec : Bytes → Except Err Pt) (size : Nat) : Nat → Bytes → Nat
  | 0, _ => 0
  | n + 1, bs =>
    match readN size bs with
    | .error _ => 0
    | .ok (a, r) =>
      match dec a with
      | .error _ => 0
      | .ok _ => 1 + pointsRead dec size n r

/-- Position-sensitive checksum of a commitment list (compared with the same fold computed by
the harness over the decoded key). -/
def digestStep (acc v : Nat) : Nat := (acc * 1000003 + v % (2 ^ 61 - 1) + 1) % (2 ^ 61 - 1)

def digestG1 (acc : Nat) : G1Pt → Nat
  | .inf => digestStep (digestStep acc 0) 0
  | .aff x y => digestStep (digestStep acc (x + 1)) (y + 1)

def digestPts (l : List G1Pt) : Nat := l.foldl digestG1 7

end MidnightZK.C16
