import MidnightZK.Model.C16.Bytes
import MidnightZK.Gen.C16Consts
/-!
`ZkStdLibArch` decoding and the column bookkeeping of `ZkStdLib::configure`.

Mirrors `zk_stdlib/src/lib.rs`:
* `ZkStdLibArch::read`: a little-endian `u32` version word, then the bincode *standard*
  encoding of the struct (each `bool` one byte that must be 0 or 1, the `u8` one raw byte), then
  the bound on `nr_pow2range_cols`;
* `ZkStdLib::configure`: `nb_advice_cols` / `nb_fixed_cols` are the maxima of the generated
  lists `Gen.adviceEntries` / `Gen.fixedEntries`; the column vectors are sliced as listed in
  `Gen.adviceUses` / `Gen.fixedUses` (both regenerated from the source on every run).
-/
namespace MidnightZK.C16
open Gen

/-- bincode `bool`: one byte, `0` or `1`. -/
def decodeBool : Bytes → Except Err (Bool × Bytes)
  | [] => .error .eof
  | b :: t => if b = 0 then .ok (false, t) else if b = 1 then .ok (true, t) else .error .archBool

def decodeBools : Nat → Bytes → Except Err (List Bool × Bytes)
  | 0, bs => .ok ([], bs)
  | n + 1, bs =>
    match decodeBool bs with
    | .error e => .error e
    | .ok (b, r) =>
      match decodeBools n r with
      | .error e => .error e
      | .ok (l, r') => .ok (b :: l, r')

/-- `ZkStdLibArch::read`. -/
def decodeArch (c : ColConsts) (bs : Bytes) : Except Err (Arch × Bytes) :=
  match readN 4 bs with
  | .error e => .error e
  | .ok (v, r) =>
    if leBytesToNat v ≠ zkStdVersion then .error .archVersion else
    match decodeBools 11 r with
    | .error e => .error e
    | .ok (bools, r1) =>
      match r1 with
      | [] => .error .eof
      | nr :: r2 =>
        if nr ≥ pow2Bound c then .error .archPow2 else .ok (Arch.ofBools bools nr, r2)

/-- `ZkStdLibArch::write`. -/
def encodeArch (a : Arch) : Bytes :=
  natToLeBytes 4 zkStdVersion ++ a.bools.map (fun b => if b then 1 else 0) ++ [a.nrPow2rangeCols]

/-- `[..].into_iter().max().unwrap_or(0)` over the guarded entries. -/
def maxEntries (l : List (Bool × Nat)) : Nat :=
  l.foldl (fun m e => Nat.max m (if e.1 then e.2 else 0)) 0

/-- `nb_advice_cols` of `ZkStdLib::configure`. -/
def nbAdviceCols (c : ColConsts) (a : Arch) : Nat := maxEntries (adviceEntries c a)

/-- `nb_fixed_cols` of `ZkStdLib::configure`. -/
def nbFixedCols (c : ColConsts) (a : Arch) : Nat := maxEntries (fixedEntries c a)

def Gen.Arch.render (a : Arch) : String :=
  String.ofList (a.bools.map (fun b => if b then '1' else '0')) ++ " " ++ toString a.nrPow2rangeCols

end MidnightZK.C16
