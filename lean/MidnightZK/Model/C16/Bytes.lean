import MidnightZK.Model.Common
import MidnightZK.Model.ModArith
/-!
Byte-level plumbing of the C16 decoder models: byte strings are `List Nat` (every element `< 256`
— guaranteed by the driver's hex parser and carried as a hypothesis `WF` by the theorems),
a reader that mirrors `std::io::Read::read_exact` on a slice, and the error classes a caller of
the Rust decoders can observe. Import-free (core only).
-/
namespace MidnightZK.C16

abbrev Bytes := List Nat

/-- Every element is a byte. -/
def WF (bs : Bytes) : Prop := ∀ b ∈ bs, b < 256

/-- Error classes observable through `io::Error` / `CtOption` of the Rust decoders. -/
inductive Err where
  /-- `read_exact` hit the end of the input (`UnexpectedEof`, or bincode's `Io`/`UnexpectedEnd`). -/
  | eof
  /-- `ZkStdLibArch::read`: unsupported version word. -/
  | archVersion
  /-- bincode: a `bool` byte other than 0/1. -/
  | archBool
  /-- `ZkStdLibArch::read`: `nr_pow2range_cols` not configurable. -/
  | archPow2
  /-- `VerifyingKey::read_from_cs`: version byte. -/
  | vkVersion
  /-- `read_from_cs`: `k > S`. -/
  | kRange
  /-- `read_from_cs`: the extended domain for `k` does not exist. -/
  | kExtended
  /-- `read_from_cs`: number of fixed commitments differs from what the constraint system needs. -/
  | nFixed
  /-- a curve point failed to decode (flags, coordinate ≥ p, not on curve, not in the subgroup). -/
  | point
  /-- a scalar failed to decode (non-canonical). -/
  | scalar
  /-- trailing bytes after a proof (`assert_empty`). -/
  | trailing
  /-- bincode: varint / tag / UTF-8 / limit errors of the IR program decoder. -/
  | irVarint | irTag | irUtf8 | irLimit
  /-- `from_instructions`: arity check failed. -/
  | irArity
  deriving Repr, DecidableEq, Inhabited

def Err.toString : Err → String
  | .eof => "eof" | .archVersion => "arch-version" | .archBool => "arch-bool" | .archPow2 => "arch-pow2"
  | .vkVersion => "vk-version" | .kRange => "k-range" | .kExtended => "k-ext" | .nFixed => "nfixed"
  | .point => "point" | .scalar => "scalar" | .trailing => "trailing"
  | .irVarint => "ir-varint" | .irTag => "ir-tag" | .irUtf8 => "ir-utf8" | .irLimit => "ir-limit"
  | .irArity => "ir-arity"

instance : ToString Err := ⟨Err.toString⟩

deriving instance DecidableEq for Except

/-- `read_exact` of `n` bytes from a slice reader: the bytes read and the rest, or `eof`
(nothing is consumed on failure as far as a caller can tell, since decoding stops). -/
def readN (n : Nat) (bs : Bytes) : Except Err (Bytes × Bytes) :=
  if n ≤ bs.length then .ok (bs.take n, bs.drop n) else .error .eof

theorem readN_ok {n : Nat} {bs a r : Bytes} (h : readN n bs = .ok (a, r)) :
    bs = a ++ r ∧ a.length = n := by
  unfold readN at h
  split at h
  · next hle =>
    simp only [Except.ok.injEq, Prod.mk.injEq] at h
    obtain ⟨rfl, rfl⟩ := h
    exact ⟨(List.take_append_drop n bs).symm, by simp [List.length_take]; omega⟩
  · simp at h

theorem readN_append (a r : Bytes) : readN a.length (a ++ r) = .ok (a, r) := by
  unfold readN
  simp

/-- Big-endian value of a byte string. -/
def beToNat (bs : Bytes) : Nat := leBytesToNat bs.reverse

/-- `n` big-endian bytes of a number (truncating). -/
def natToBe (n v : Nat) : Bytes := (natToLeBytes n v).reverse

theorem natToLeBytes_length (n v : Nat) : (natToLeBytes n v).length = n := by
  induction n generalizing v with
  | zero => simp [natToLeBytes]
  | succ k ih => simp [natToLeBytes, ih]

theorem natToLeBytes_wf (n v : Nat) : WF (natToLeBytes n v) := by
  induction n generalizing v with
  | zero => intro b hb; simp [natToLeBytes] at hb
  | succ k ih =>
    intro b hb
    simp only [natToLeBytes, List.mem_cons] at hb
    rcases hb with rfl | hb
    · exact Nat.mod_lt _ (by decide)
    · exact ih _ b hb

/-- Little-endian bytes → number → the same bytes. -/
theorem natToLe_leToNat (bs : Bytes) (h : WF bs) : natToLeBytes bs.length (leBytesToNat bs) = bs := by
  induction bs with
  | nil => simp [natToLeBytes]
  | cons b t ih =>
    have hb : b < 256 := h b (by simp)
    have ht : WF t := fun x hx => h x (by simp [hx])
    simp only [List.length_cons, natToLeBytes, leBytesToNat]
    have h1 : (b + 256 * leBytesToNat t) % 256 = b := by omega
    have h2 : (b + 256 * leBytesToNat t) / 256 = leBytesToNat t := by omega
    rw [h1, h2, ih ht]

/-- Number → little-endian bytes → the same number, when it fits. -/
theorem leToNat_natToLe (n v : Nat) (h : v < 256 ^ n) : leBytesToNat (natToLeBytes n v) = v := by
  induction n generalizing v with
  | zero => simp at h; subst h; simp [natToLeBytes, leBytesToNat]
  | succ k ih =>
    simp only [natToLeBytes, leBytesToNat]
    have : v / 256 < 256 ^ k := by
      rw [Nat.pow_succ] at h
      exact Nat.div_lt_of_lt_mul (by omega)
    rw [ih _ this]
    omega

theorem leBytesToNat_lt (bs : Bytes) (h : WF bs) : leBytesToNat bs < 256 ^ bs.length := by
  induction bs with
  | nil => simp [leBytesToNat]
  | cons b t ih =>
    have hb : b < 256 := h b (by simp)
    have ht : WF t := fun x hx => h x (by simp [hx])
    have := ih ht
    simp only [leBytesToNat, List.length_cons, Nat.pow_succ]
    omega

theorem WF_reverse {bs : Bytes} (h : WF bs) : WF bs.reverse := fun b hb => h b (by simpa using hb)

theorem WF_append {a b : Bytes} : WF (a ++ b) ↔ WF a ∧ WF b := by
  unfold WF
  constructor
  · intro h; exact ⟨fun x hx => h x (by simp [hx]), fun x hx => h x (by simp [hx])⟩
  · rintro ⟨ha, hb⟩ x hx
    rcases List.mem_append.mp hx with h | h
    · exact ha x h
    · exact hb x h

theorem natToBe_beToNat (bs : Bytes) (h : WF bs) : natToBe bs.length (beToNat bs) = bs := by
  unfold natToBe beToNat
  have := natToLe_leToNat bs.reverse (WF_reverse h)
  rw [List.length_reverse] at this
  rw [this, List.reverse_reverse]

theorem beToNat_natToBe (n v : Nat) (h : v < 256 ^ n) : beToNat (natToBe n v) = v := by
  unfold natToBe beToNat
  rw [List.reverse_reverse]
  exact leToNat_natToLe n v h

theorem natToBe_length (n v : Nat) : (natToBe n v).length = n := by
  simp [natToBe, natToLeBytes_length]

theorem beToNat_lt (bs : Bytes) (h : WF bs) : beToNat bs < 256 ^ bs.length := by
  unfold beToNat
  have := leBytesToNat_lt bs.reverse (WF_reverse h)
  simpa using this

def allZero (bs : Bytes) : Bool := bs.all (· == 0)

/-- Hex rendering of a byte string (driver output). -/
def hexOfBytes (bs : Bytes) : String :=
  String.ofList (bs.flatMap (fun b => [hexDigit (b / 16), hexDigit (b % 16)]))

/-- Parse an even-length hex string into bytes; `-` is the empty string. -/
def parseHexBytes? (s : String) : Option Bytes :=
  if s = "-" then some [] else
  let rec go : List Char → List Nat → Option (List Nat)
    | [], acc => some acc.reverse
    | [_], _ => none
    | a :: b :: t, acc =>
      match parseHex? (String.ofList [a]), parseHex? (String.ofList [b]) with
      | some x, some y => go t ((x * 16 + y) :: acc)
      | _, _ => none
  go s.toList []

end MidnightZK.C16
