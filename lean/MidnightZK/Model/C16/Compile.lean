import MidnightZK.Model.C16.IR
/-!
Compilation of a ZKIR program with UNKNOWN witnesses — what key generation, `min_k`, the cost model
and the dummy pass of `ZkirRelation::public_inputs` run on a program that arrived as untrusted
bytes — as a type-level abstract interpreter: the static checks each operation performs in-circuit
and the outcome (`ok`, a typed error class, or — where the pinned code can — a panic).

Mirrors `zkir/src/parser/incircuit.rs: Parser::process_instruction` (inputs are looked up in the
memory first, otherwise parsed as constants; outputs are inserted with `insert_many`, a name that
exists already is `DuplicatedName`), and the `*_incircuit` functions of
`zkir/src/instructions/operations/*.rs` (`load`, `publish`, `assert_equal`, `assert_not_equal`,
`is_equal`, `add`, `sub`, `mul`, `neg`, `mod_exp`, `inner_product`, `affine_coordinates`,
`into_bytes`, `from_bytes`, `poseidon`, `sha256`, `sha512`): which operand types each accepts and
which immediate parameters it rejects. The off-circuit guards of `IrValue::into_bytes`,
`IrValue::from_bytes` and `check_loadable` are mirrored next to their in-circuit twins so that the
theorems of `Props/C16.lean` can compare the limits of the two sides.

What is NOT modelled: values (except native constants, which decide the value-known branch of
`IntoBytes`; the result of an arithmetic operation is an advice cell, whose value a layout pass
without witnesses does not compute — even when both operands are constants), BigUint bit widths
of results, the constant parser
(`zkir/src/utils/constants.rs`: the harness classifies every input name with the REAL parser and
passes the class along), memory and time.
-/
namespace MidnightZK.C16
open Gen

/-- Type of an in-circuit value as far as the static checks can tell. A native carries its value
when it is known at compile time (a constant, or arithmetic on constants). -/
inductive CTy where
  | bool
  | bytes (n : Nat)
  | native (v : Option Nat)
  | big
  | point
  | scalar
  deriving Repr, DecidableEq, Inhabited

/-- Outcome classes of a compilation other than success (`zkir/src/error.rs: Error`, observed
through `plonk::Error::Synthesis`); `panic` = the pinned code panics. -/
inductive CErr where
  /-- `Error::Unsupported(op, types)` -/
  | unsupported
  /-- `Error::NotFound(name)` -/
  | notFound
  /-- `Error::DuplicatedName(name)` -/
  | dup
  /-- `Error::Other("cannot convert ..")`: a failed conversion / range check on a known value -/
  | convert
  /-- `Error::Other("expecting Bytes(n), got ..")` -/
  | notBytes
  /-- not an error value: the code panics -/
  | panic
  deriving Repr, DecidableEq, Inhabited

def CErr.toString : CErr → String
  | .unsupported => "unsupported" | .notFound => "notfound" | .dup => "dup"
  | .convert => "convert" | .notBytes => "notbytes" | .panic => "PANIC"

instance : ToString CErr := ⟨CErr.toString⟩

/-- An input of an instruction: its name and what the constant parser makes of that name. -/
structure Operand where
  name : Bytes
  const : Option CTy
  deriving Repr, DecidableEq

structure CInstr where
  /-- index of the operation in `Gen.irOps` -/
  tag : Nat
  /-- type payload of `Load` / `FromBytes` -/
  ty : Option IrTy
  /-- numeric payload of `IntoBytes` / `ModExp` -/
  num : Nat
  inputs : List Operand
  outputs : List Bytes
  deriving Repr, DecidableEq

abbrev Mem := List (Bytes × CTy)

/-- `IrType` (index in `Gen.irTypes`, payload) as the type of a freshly loaded value. -/
def tyOf (t : IrTy) : Option CTy :=
  match t.tag with
  | 0 => some .bool
  | 1 => some (.bytes (t.payload.getD 0))
  | 2 => some (.native none)
  | 3 => some .big
  | 4 => some .point
  | 5 => some .scalar
  | _ => none

/-- `F::NUM_BITS.div_ceil(8)`: bytes of a native field element. -/
def nativeBytes : Nat := (Nat.log2 fqModulus + 1 + 7) / 8

/-- `n as u32` of a `usize` (used by the PINNED guard only, see `intoBytesInPinned`). -/
def asU32 (n : Nat) : Nat := n % 2 ^ 32

/-! ### The guards of the two sides -/

/-- `zkir/src/instructions/operations/load.rs: check_loadable` (shared by both sides). -/
def loadable (t : IrTy) : Bool := !(t.tag == 3 && t.payload.getD 0 == 0)

/-- `into_bytes.rs: IrValue::into_bytes`, `Native` arm, on the value `v`:
`n as u64 > NUM_BITS.div_ceil(8) as u64 || bytes[n..].iter().any(|b| b != 0)` — `bytes` is the
32-byte array of `to_bytes_le`: the slice would panic for an `n` above 32 that the guard let
through (it does not: `nativeBytes = 32`, see `compile_never_panics`). -/
def intoBytesNativeOff (n v : Nat) : Except CErr CTy :=
  if n > nativeBytes then .error .convert
  else if n > 32 then .error .panic
  else if v / 256 ^ n ≠ 0 then .error .convert
  else .ok (.bytes n)

/-- `into_bytes.rs: into_bytes_incircuit`. The first arm is the guard the in-circuit side owns;
the off-circuit conversion runs only on a KNOWN value (`Value::map_with_result`); on an unknown
value `assigned_to_le_bytes(x, Some(n))` panics for `n > 32`. -/
def intoBytesIn (n : Nat) : CTy → Except CErr CTy
  | .native v =>
    if n > nativeBytes then .error .unsupported
    else match v with
      | some v => intoBytesNativeOff n v
      | none => if n > 32 then .error .panic else .ok (.bytes n)
  | .big => .ok (.bytes n)
  | .point => if n = 32 then .ok (.bytes 32) else .error .unsupported
  | _ => .error .unsupported

/-- The guard as it was on the PINNED tree (before the repair `af7577a`): `n as u32 > ..`, on the
unknown-value path. Kept only for the theorem `pinned_into_bytes_guard_truncated`. -/
def intoBytesInPinned (n : Nat) : Except CErr CTy :=
  if asU32 n > nativeBytes then .error .unsupported
  else if n > 32 then .error .panic else .ok (.bytes n)

/-- The static part of `from_bytes.rs: IrValue::from_bytes` / `from_bytes_incircuit` (the two
`match` statements have the same guards): target type, length of the byte array. -/
def fromBytesStatic (t : IrTy) (len : Nat) : Except CErr CTy :=
  match t.tag with
  | 2 => .ok (.native none)
  | 3 => if t.payload.getD 0 ≥ 8 * len ∧ len ≠ 0 then .ok .big else .error .unsupported
  | 4 => if len = 32 then .ok .point else .error .unsupported
  | 5 => .ok .scalar
  | _ => .error .unsupported

/-- `from_bytes_incircuit`: the operand must be `Bytes`. -/
def fromBytesIn (t : IrTy) : CTy → Except CErr CTy
  | .bytes len => fromBytesStatic t len
  | _ => .error .notBytes

/-! ### Typing of the remaining operations -/

/-- Domain of `assert_equal` / `assert_not_equal` / `is_equal`. -/
def comparable : CTy → CTy → Bool
  | .bool, .bool => true
  | .bytes n, .bytes m => n == m
  | .native _, .native _ => true
  | .big, .big => true
  | .point, .point => true
  | _, _ => false

/-- `add_incircuit`. -/
def addIn : CTy → CTy → Except CErr CTy
  | .native _, .native _ => .ok (.native none)
  | .big, .big => .ok .big
  | .point, .point => .ok .point
  | _, _ => .error .unsupported

/-- `sub_incircuit`. -/
def subIn : CTy → CTy → Except CErr CTy
  | .native _, .native _ => .ok (.native none)
  | .big, .big => .ok .big
  | .point, .point => .ok .point
  | _, _ => .error .unsupported

/-- `mul_incircuit`. -/
def mulIn : CTy → CTy → Except CErr CTy
  | .native _, .native _ => .ok (.native none)
  | .big, .big => .ok .big
  | .scalar, .point => .ok .point
  | _, _ => .error .unsupported

/-- `neg_incircuit`. -/
def negIn : CTy → Except CErr CTy
  | .native _ => .ok (.native none)
  | .point => .ok .point
  | _ => .error .unsupported

def isNative : CTy → Bool
  | .native _ => true
  | _ => false

/-- The fold of `inner_product_incircuit` over the pairs after the first. -/
def ipFold : CTy → List (CTy × CTy) → Except CErr CTy
  | acc, [] => .ok acc
  | acc, (v, w) :: rest =>
    match mulIn v w with
    | .error e => .error e
    | .ok p =>
      match addIn acc p with
      | .error e => .error e
      | .ok acc' => ipFold acc' rest

/-- `inner_product_incircuit` (the halves have equal non-zero length by the arity check). -/
def innerProductIn (v w : List CTy) : Except CErr CTy :=
  match v, w with
  | v0 :: vs, w0 :: ws =>
    match v0, w0 with
    | .native _, .native _ | .big, .big =>
      match mulIn v0 w0 with
      | .error e => .error e
      | .ok acc => ipFold acc (vs.zip ws)
    | .scalar, .point =>
      if (v.all (· == .scalar)) && (w.all (· == .point)) then .ok .point else .error .convert
    | _, _ => .error .unsupported
  | _, _ => .error .unsupported

/-- One operation on resolved operand types: the types of its outputs. -/
def opTypes (i : CInstr) (inp : List CTy) : Except CErr (List CTy) :=
  match i.tag, inp with
  | 0, _ =>
    match i.ty with
    | none => .error .unsupported
    | some t =>
      if !loadable t then .error .unsupported else
      match tyOf t with
      | none => .error .unsupported
      | some ct => .ok (i.outputs.map (fun _ => ct))
  | 1, _ => .ok []
  | 2, [x, y] => if comparable x y then .ok [] else .error .unsupported
  | 3, [x, y] => if comparable x y then .ok [] else .error .unsupported
  | 4, [x, y] => if comparable x y then .ok [.bool] else .error .unsupported
  | 5, [x, y] => (addIn x y).map ([·])
  | 6, [x, y] => (subIn x y).map ([·])
  | 7, [x, y] => (mulIn x y).map ([·])
  | 8, [x] => (negIn x).map ([·])
  | 9, [x, y] => if x = .big ∧ y = .big then .ok [.big] else .error .unsupported
  | 10, l => (innerProductIn (l.take (l.length / 2)) (l.drop (l.length / 2))).map ([·])
  | 11, [x] => if x = .point then .ok [.native none, .native none] else .error .unsupported
  | 12, [x] => (intoBytesIn i.num x).map ([·])
  | 13, [x] =>
    match i.ty with
    | none => .error .unsupported
    | some t => (fromBytesIn t x).map ([·])
  | 14, l => if l.all isNative then .ok [.native none] else .error .convert
  | 15, [x] => match x with | .bytes _ => .ok [.bytes 32] | _ => .error .convert
  | 16, [x] => match x with | .bytes _ => .ok [.bytes 64] | _ => .error .convert
  | _, _ => .error .unsupported

/-- Input resolution: the memory first, then the constant parser. -/
def resolve (m : Mem) (o : Operand) : Except CErr CTy :=
  match m.lookup o.name with
  | some t => .ok t
  | none =>
    match o.const with
    | some t => .ok t
    | none => .error .notFound

def resolveAll (m : Mem) : List Operand → Except CErr (List CTy)
  | [] => .ok []
  | o :: rest =>
    match resolve m o with
    | .error e => .error e
    | .ok t =>
      match resolveAll m rest with
      | .error e => .error e
      | .ok ts => .ok (t :: ts)

/-- `utils/mod.rs: insert_many`. -/
def insertMany (m : Mem) : List Bytes → List CTy → Except CErr Mem
  | n :: ns, t :: ts =>
    if (m.lookup n).isSome then .error .dup else insertMany ((n, t) :: m) ns ts
  | _, _ => .ok m

/-- `Parser::process_instruction`. -/
def compileInstr (m : Mem) (i : CInstr) : Except CErr Mem :=
  match resolveAll m i.inputs with
  | .error e => .error e
  | .ok inp =>
    match opTypes i inp with
    | .error e => .error e
    | .ok outs => insertMany m i.outputs outs

/-- `Relation::circuit` of a `ZkirRelation`: the instructions in order, stopping at the first error. -/
def compileFrom (m : Mem) : List CInstr → Except CErr Mem
  | [] => .ok m
  | i :: rest =>
    match compileInstr m i with
    | .error e => .error e
    | .ok m' => compileFrom m' rest

def compile (prog : List CInstr) : Except CErr Mem := compileFrom [] prog

end MidnightZK.C16
