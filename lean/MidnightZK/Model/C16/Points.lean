import MidnightZK.Model.C16.Curve
/-!
Byte-level decoders and encoders of scalars and of G1/G2 points, as reached through
`SerdeFormat::{Processed, RawBytes}` and through the proof transcript.

Mirrors
* `curves/src/bls12_381/fq.rs: Fq::from_bytes_le` (= `from_repr`, the proof/transcript scalar
  format: 32 bytes little-endian, canonical) and `SerdeObject::read_raw` (Montgomery limbs, `< r`);
* `curves/src/bls12_381/g1.rs: G1Affine::from_compressed` = blst `blst_p1_uncompress`
  (`POINTonE1_Uncompress_Z`) + `is_on_curve & is_torsion_free`;
  `G1Affine::from_uncompressed` (= `SerdeObject::read_raw`, the RawBytes format) = a check that
  the compression bit is clear + blst `blst_p1_deserialize` (`POINTonE1_Deserialize_Z`: it
  dispatches on the flag bits and would ALSO accept a compressed encoding in the first 48 bytes)
  + `is_on_curve`;
* the same for `g2.rs` over `Fp2` (byte order `c1 ‖ c0`);
* `proofs/src/utils/helpers.rs: ProcessedSerdeObject::read` (format dispatch, `read_exact`).
-/
namespace MidnightZK.C16

inductive G1Pt where
  | inf
  | aff (x y : Nat)
  deriving Repr, DecidableEq, Inhabited

inductive G2Pt where
  | inf
  | aff (x y : Fp2)
  deriving Repr, DecidableEq, Inhabited

/-! ### scalars -/

/-- `Fq::from_bytes_le` / `PrimeField::from_repr`: 32 little-endian bytes, value `< r`. -/
def decodeFqRepr (a : Bytes) : Except Err Nat :=
  if a.length ≠ 32 then .error .eof else
  let v := leBytesToNat a
  if v < fqR then .ok v else .error .scalar

def encodeFqRepr (v : Nat) : Bytes := natToLeBytes 32 v

/-- `2^256 mod r`-inverse, so that `montToStd m = m · R⁻¹ mod r`. -/
def fqRInv : Nat := invMod (2 ^ 256 % fqR) fqR

/-- `<Fq as SerdeObject>::read_raw`: 32 bytes = four little-endian Montgomery limbs, accepted iff
the limb vector is `< r` (`is_valid`); the element it denotes is `m · 2⁻²⁵⁶ mod r`. -/
def decodeFqRaw (a : Bytes) : Except Err Nat :=
  if a.length ≠ 32 then .error .eof else
  let m := leBytesToNat a
  if m < fqR then .ok (m * fqRInv % fqR) else .error .scalar

/-! ### G1 -/

/-- blst `POINTonE1_Uncompress_Z` on 48 bytes: flags, `x < p`, `y = sqrt(x³+4)` with the sign of
the flag, `x ≠ 0`. No subgroup check. -/
def uncompressG1 (a : Bytes) : Except Err G1Pt :=
  match a with
  | [] => .error .point
  | b0 :: t =>
    if b0 / 128 % 2 = 0 then .error .point
    else if b0 / 64 % 2 = 1 then
      if b0 % 64 = 0 && allZero t then .ok .inf else .error .point
    else
      let x := beToNat ((b0 % 32) :: t)
      if x ≥ fpP then .error .point else
      match sqrtFp ((x * x % fpP * x + 4) % fpP) with
      | none => .error .point
      | some y =>
        let y' := if signFp y != (b0 / 32 % 2 == 1) then (fpP - y) % fpP else y
        if x = 0 then .error .point else .ok (.aff x y')

/-- `G1Affine::from_compressed` (48 bytes): uncompress, then `is_on_curve & is_torsion_free`. -/
def decodeG1c (a : Bytes) : Except Err G1Pt :=
  if a.length ≠ 48 then .error .eof else
  match uncompressG1 a with
  | .error e => .error e
  | .ok .inf => .ok .inf
  | .ok (.aff x y) => if onCurveG1 x y && inSubgroupG1 x y then .ok (.aff x y) else .error .point

/-- blst `POINTonE1_Deserialize_Z` on 96 bytes (`blst_p1_deserialize`): dispatch on the flag bits. -/
def deserializeG1 (a : Bytes) : Except Err G1Pt :=
  match a with
  | [] => .error .point
  | b0 :: t =>
    if b0 / 32 = 0 then
      let x := beToNat (a.take 48)
      let y := beToNat (a.drop 48)
      if x ≥ fpP || y ≥ fpP then .error .point
      else if !onCurveG1 x y then .error .point
      else if x = 0 then .error .point
      else .ok (.aff x y)
    else if b0 / 128 % 2 = 1 then
      -- compressed encoding found in an uncompressed slot: decoded from the first 48 bytes,
      -- the remaining 48 bytes are ignored, no subgroup check
      uncompressG1 (a.take 48)
    else if b0 / 64 % 2 = 1 then
      if b0 % 64 = 0 && allZero t then .ok .inf else .error .point
    else .error .point

/-- `G1Affine::from_uncompressed` (96 bytes, the RawBytes format): reject the compression bit
(`bytes[0] & 0x80 == 0`, so that blst's compressed branch is never taken), deserialize, then
`is_on_curve`. -/
def decodeG1u (a : Bytes) : Except Err G1Pt :=
  if a.length ≠ 96 then .error .eof else
  if a.headD 0 / 128 % 2 = 1 then .error .point else
  match deserializeG1 a with
  | .error e => .error e
  | .ok .inf => .ok .inf
  | .ok (.aff x y) => if onCurveG1 x y then .ok (.aff x y) else .error .point

/-- Canonical compressed encoding (blst `blst_p1_affine_compress`). -/
def encodeG1c : G1Pt → Bytes
  | .inf => 192 :: List.replicate 47 0
  | .aff x y =>
    match natToBe 48 x with
    | [] => []
    | b0 :: t => (b0 + 128 + (if signFp y then 32 else 0)) :: t

/-- Canonical uncompressed encoding (blst `blst_p1_affine_serialize`). -/
def encodeG1u : G1Pt → Bytes
  | .inf => 64 :: List.replicate 95 0
  | .aff x y => natToBe 48 x ++ natToBe 48 y

/-! ### G2 -/

/-- blst `POINTonE2_Uncompress_Z` on 96 bytes (`x.c1 ‖ x.c0`). -/
def uncompressG2 (a : Bytes) : Except Err G2Pt :=
  match a with
  | [] => .error .point
  | b0 :: t =>
    if b0 / 128 % 2 = 0 then .error .point
    else if b0 / 64 % 2 = 1 then
      if b0 % 64 = 0 && allZero t then .ok .inf else .error .point
    else
      let x1 := beToNat ((b0 % 32) :: t.take 47)
      let x0 := beToNat (t.drop 47)
      if x1 ≥ fpP || x0 ≥ fpP then .error .point else
      let F := fp2Ops fpP
      let x : Fp2 := (x0, x1)
      match sqrtFp2 (F.add (F.mul (F.mul x x) x) (4, 4)) with
      | none => .error .point
      | some y =>
        let y' : Fp2 := if signFp2 y != (b0 / 32 % 2 == 1) then ((fpP - y.1) % fpP, (fpP - y.2) % fpP) else y
        if x0 = 0 && x1 = 0 then .error .point else .ok (.aff x y')

/-- `G2Affine::from_compressed` (96 bytes). -/
def decodeG2c (a : Bytes) : Except Err G2Pt :=
  if a.length ≠ 96 then .error .eof else
  match uncompressG2 a with
  | .error e => .error e
  | .ok .inf => .ok .inf
  | .ok (.aff x y) => if onCurveG2 x y && inSubgroupG2 x y then .ok (.aff x y) else .error .point

/-- blst `POINTonE2_Deserialize_Z` on 192 bytes (`x.c1 ‖ x.c0 ‖ y.c1 ‖ y.c0`). -/
def deserializeG2 (a : Bytes) : Except Err G2Pt :=
  match a with
  | [] => .error .point
  | b0 :: t =>
    if b0 / 32 = 0 then
      let x1 := beToNat (a.take 48)
      let x0 := beToNat ((a.drop 48).take 48)
      let y1 := beToNat ((a.drop 96).take 48)
      let y0 := beToNat (a.drop 144)
      if x1 ≥ fpP || x0 ≥ fpP || y1 ≥ fpP || y0 ≥ fpP then .error .point
      else if !onCurveG2 (x0, x1) (y0, y1) then .error .point
      else if x0 = 0 && x1 = 0 then .error .point
      else .ok (.aff (x0, x1) (y0, y1))
    else if b0 / 128 % 2 = 1 then uncompressG2 (a.take 96)
    else if b0 / 64 % 2 = 1 then
      if b0 % 64 = 0 && allZero t then .ok .inf else .error .point
    else .error .point

/-- `G2Affine::from_uncompressed` (192 bytes): deserialize, then `is_on_curve & is_torsion_free`
(unlike G1, the uncompressed G2 decoder does check the subgroup). -/
def decodeG2u (a : Bytes) : Except Err G2Pt :=
  if a.length ≠ 192 then .error .eof else
  if a.headD 0 / 128 % 2 = 1 then .error .point else
  match deserializeG2 a with
  | .error e => .error e
  | .ok .inf => .ok .inf
  | .ok (.aff x y) => if onCurveG2 x y && inSubgroupG2 x y then .ok (.aff x y) else .error .point

def encodeG2c : G2Pt → Bytes
  | .inf => 192 :: List.replicate 95 0
  | .aff x y =>
    match natToBe 48 x.2 with
    | [] => []
    | b0 :: t => (b0 + 128 + (if signFp2 y then 32 else 0)) :: t ++ natToBe 48 x.1

def encodeG2u : G2Pt → Bytes
  | .inf => 64 :: List.replicate 191 0
  | .aff x y => natToBe 48 x.2 ++ natToBe 48 x.1 ++ natToBe 48 y.2 ++ natToBe 48 y.1

/-! ### format dispatch -/

/-- `SerdeFormat` restricted to the two checked formats of the property. -/
inductive Fmt where
  | processed
  | rawBytes
  deriving Repr, DecidableEq, Inhabited

def Fmt.g1Size : Fmt → Nat
  | .processed => 48
  | .rawBytes => 96

def Fmt.g2Size : Fmt → Nat
  | .processed => 96
  | .rawBytes => 192

/-- `<G1Projective as ProcessedSerdeObject>::read` on an exact-size chunk. -/
def decodeG1 : Fmt → Bytes → Except Err G1Pt
  | .processed, a => decodeG1c a
  | .rawBytes, a => decodeG1u a

/-- `<G1Projective as ProcessedSerdeObject>::write`. -/
def encodeG1 : Fmt → G1Pt → Bytes
  | .processed => encodeG1c
  | .rawBytes => encodeG1u

def encodeG2 : Fmt → G2Pt → Bytes
  | .processed => encodeG2c
  | .rawBytes => encodeG2u

def decodeG2 : Fmt → Bytes → Except Err G2Pt
  | .processed, a => decodeG2c a
  | .rawBytes, a => decodeG2u a

def G1Pt.render : G1Pt → String
  | .inf => "inf"
  | .aff x y => s!"{toHex x} {toHex y}"

def G2Pt.render : G2Pt → String
  | .inf => "inf"
  | .aff x y => s!"{toHex x.1} {toHex x.2} {toHex y.1} {toHex y.2}"

end MidnightZK.C16
