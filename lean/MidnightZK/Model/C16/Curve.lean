import MidnightZK.Model.C16.Bytes
import MidnightZK.Gen.C16Consts
/-!
Arithmetic used by the point decoders of C16: `Fp`, `Fp2 = Fp[u]/(u²+1)` on `Nat`, square roots,
the "lexicographically largest" sign, and a Jacobian double-and-add used *only* to decide
`[r]P = O` (the subgroup check of compressed points). Import-free.

The group law itself is not proved here (C11 owns it); what C16 needs from this file is
* `sqrt` results are checked by squaring (so an accepted `y` satisfies the curve equation by
  construction), and
* `inSubgroup` is the literal double-and-add computation of `[r]P` — compared with blst's
  `blst_p1_affine_in_g1` / `blst_p2_affine_in_g2` on in-subgroup and out-of-subgroup points by the
  correspondence.
-/
namespace MidnightZK.C16

/-- Base-field modulus `p` of BLS12-381 (generated from `fp.rs`). -/
def fpP : Nat := Gen.fpModulus
/-- Scalar-field modulus `r` (generated from `fq.rs`). -/
def fqR : Nat := Gen.fqModulus

/-- Minimal field interface for the Jacobian formulas. -/
structure Fld (α : Type) where
  add : α → α → α
  sub : α → α → α
  mul : α → α → α
  zero : α
  isZero : α → Bool

@[inline] def fpOps (p : Nat) : Fld Nat where
  add a b := (a + b) % p
  sub a b := (a + (p - b % p)) % p
  mul a b := a * b % p
  zero := 0
  isZero a := a % p == 0

abbrev Fp2 := Nat × Nat

@[inline] def fp2Ops (p : Nat) : Fld Fp2 where
  add a b := ((a.1 + b.1) % p, (a.2 + b.2) % p)
  sub a b := ((a.1 + (p - b.1 % p)) % p, (a.2 + (p - b.2 % p)) % p)
  mul a b := ((a.1 * b.1 + (p - a.2 * b.2 % p)) % p, (a.1 * b.2 + a.2 * b.1) % p)
  zero := (0, 0)
  isZero a := a.1 % p == 0 && a.2 % p == 0

/-- Jacobian point `(X : Y : Z)`, affine `(X/Z², Y/Z³)`, infinity iff `Z = 0`. -/
structure Jac (α : Type) where
  x : α
  y : α
  z : α

variable {α : Type}

/-- Doubling on `y² = x³ + b` (`a = 0`), formulas dbl-2009-l. `Z = 0` stays `Z = 0`. -/
@[specialize] def Jac.double (F : Fld α) (P : Jac α) : Jac α :=
  let a := F.mul P.x P.x
  let b := F.mul P.y P.y
  let c := F.mul b b
  let xb := F.add P.x b
  let d0 := F.sub (F.sub (F.mul xb xb) a) c
  let d := F.add d0 d0
  let e := F.add (F.add a a) a
  let f := F.mul e e
  let x3 := F.sub f (F.add d d)
  let c2 := F.add c c
  let c4 := F.add c2 c2
  let c8 := F.add c4 c4
  let y3 := F.sub (F.mul e (F.sub d x3)) c8
  let yz := F.mul P.y P.z
  ⟨x3, y3, F.add yz yz⟩

/-- Mixed addition `P + (x2, y2)` with all exceptional cases (`P = O`, `P = Q`, `P = −Q`). -/
@[specialize] def Jac.addAffine (F : Fld α) (P : Jac α) (x2 y2 one : α) : Jac α :=
  if F.isZero P.z then ⟨x2, y2, one⟩ else
  let z1z1 := F.mul P.z P.z
  let u2 := F.mul x2 z1z1
  let s2 := F.mul y2 (F.mul P.z z1z1)
  let h := F.sub u2 P.x
  let r := F.sub s2 P.y
  if F.isZero h then
    if F.isZero r then Jac.double F P else ⟨P.x, P.y, F.zero⟩
  else
    let hh := F.mul h h
    let hhh := F.mul h hh
    let v := F.mul P.x hh
    let x3 := F.sub (F.sub (F.mul r r) hhh) (F.add v v)
    let y3 := F.sub (F.mul r (F.sub v x3)) (F.mul P.y hhh)
    ⟨x3, y3, F.mul P.z h⟩

/-- Bits of `n`, most significant first (`fuel` ≥ bit length). -/
def bitsMsb : Nat → Nat → List Bool → List Bool
  | 0, _, acc => acc
  | fuel + 1, n, acc => if n = 0 then acc else bitsMsb fuel (n / 2) ((n % 2 == 1) :: acc)

/-- `[k](x, y)` by left-to-right double-and-add. -/
@[specialize] def scalarMulAffine (F : Fld α) (one : α) (k : Nat) (x y : α) : Jac α :=
  (bitsMsb (k.log2 + 1) k []).foldl
    (fun acc bit => let d := Jac.double F acc; if bit then Jac.addAffine F d x y one else d)
    ⟨x, y, F.zero⟩

/-- `[r](x, y) = O`. -/
def inSubgroupG1 (x y : Nat) : Bool :=
  let F := fpOps fpP
  F.isZero (scalarMulAffine F 1 fqR x y).z

def inSubgroupG2 (x y : Fp2) : Bool :=
  let F := fp2Ops fpP
  F.isZero (scalarMulAffine F (1, 0) fqR x y).z

/-- `y² = x³ + 4` over `Fp`. -/
def onCurveG1 (x y : Nat) : Bool := y * y % fpP == (x * x % fpP * x + 4) % fpP

/-- `y² = x³ + 4(1 + u)` over `Fp2`. -/
def onCurveG2 (x y : Fp2) : Bool :=
  let F := fp2Ops fpP
  let l := F.mul y y
  let r := F.add (F.mul (F.mul x x) x) (4, 4)
  l.1 == r.1 && l.2 == r.2

/-- Square root in `Fp` (`p ≡ 3 mod 4`): the candidate `a^((p+1)/4)`, kept only if it squares to `a`. -/
def sqrtFp (a : Nat) : Option Nat :=
  let y := powMod a ((fpP + 1) / 4) fpP
  if y * y % fpP == a % fpP then some y else none

/-- Square root in `Fp2` by the norm method; the result is kept only if it squares to `a`. -/
def sqrtFp2 (a : Fp2) : Option Fp2 :=
  let p := fpP
  let F := fp2Ops p
  let check (c : Fp2) : Option Fp2 :=
    let s := F.mul c c
    if s.1 == a.1 % p && s.2 == a.2 % p then some c else none
  if a.2 % p == 0 then
    match sqrtFp a.1 with
    | some s => check (s, 0)
    | none =>
      match sqrtFp ((p - a.1 % p) % p) with
      | some s => check (0, s)
      | none => none
  else
    match sqrtFp ((a.1 * a.1 + a.2 * a.2) % p) with
    | none => none
    | some s =>
      let inv2 := (p + 1) / 2
      let t1 := (a.1 + s) % p * inv2 % p
      let t2 := (a.1 + (p - s)) % p * inv2 % p
      let fromT (t : Nat) : Option Fp2 :=
        match sqrtFp t with
        | none => none
        | some x0 =>
          if x0 == 0 then none else
          let x1 := a.2 * invMod ((2 * x0) % p) p % p
          check (x0, x1)
      match fromT t1 with
      | some r => some r
      | none => fromT t2

/-- blst's sign of an `Fp` element: "lexicographically largest", i.e. `y > (p−1)/2`. -/
def signFp (y : Nat) : Bool := decide (y > (fpP - 1) / 2)

/-- Sign of an `Fp2` element: decided by `c1` unless it is zero, then by `c0`. -/
def signFp2 (y : Fp2) : Bool := if y.2 == 0 then signFp y.1 else signFp y.2

end MidnightZK.C16
