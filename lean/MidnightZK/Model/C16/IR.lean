import MidnightZK.Model.C16.Bytes
import MidnightZK.Gen.C16Consts
/-!
ZKIR programs from untrusted bytes: the bincode (standard configuration, with a size limit)
decoding of `Program { instructions: Vec<Instruction> }` and the arity check on load.

Mirrors `zkir/src/zkir.rs: ZkirRelation::read_relation` / `from_instructions`,
`zkir/src/instructions/arity.rs: Instruction::check_arity`, and — third-party, modelled —
bincode 2.0.1: variable-length integers (`varint/decode_unsigned.rs`: a byte `≤ 250` is the
value, `251/252/253` announce a little-endian `u16/u32/u64`, wider markers than the target type
and `254/255` are errors; non-minimal encodings are accepted), enum variants as `u32`,
`Vec<T>`/`String` as a `u64` length followed by the elements, and the limit accounting of
`DecoderImpl::claim_bytes_read` / `claim_container_read` / `unclaim_bytes_read` (a `u32` claims 4
bytes, a `u64`/`usize` 8, a container `len * size_of::<T>()` before its first element is read).
-/
namespace MidnightZK.C16
open Gen

/-- Decoder state: remaining input and the bytes claimed against the limit so far. -/
structure BState where
  input : Bytes
  claimed : Nat
  deriving Repr

/-- Parameters that depend on the compiled code: `size_of::<Instruction>()`, `size_of::<String>()`, the limit. -/
structure BParams where
  sizeInstr : Nat
  sizeString : Nat
  limit : Nat
  deriving Repr

abbrev BM := StateT BState (Except Err)

def claim (p : BParams) (n : Nat) : BM Unit := fun s =>
  if s.claimed + n > p.limit then .error .irLimit else .ok ((), { s with claimed := s.claimed + n })

def unclaim (n : Nat) : BM Unit := fun s => .ok ((), { s with claimed := s.claimed - n })

def take (n : Nat) : BM Bytes := fun s =>
  match readN n s.input with
  | .error e => .error e
  | .ok (a, r) => .ok (a, { s with input := r })

/-- bincode varint of a target type that admits markers up to `maxMarker` (251 u16, 252 u32, 253 u64). -/
def varint (maxMarker : Nat) : BM Nat := do
  let b ← take 1
  let b0 := b.headD 0
  if b0 ≤ 250 then pure b0
  else if b0 > maxMarker ∨ b0 ≥ 254 then throw .irVarint
  else
    let n := if b0 = 251 then 2 else if b0 = 252 then 4 else 8
    let v ← take n
    pure (leBytesToNat v)

def decodeU32 (p : BParams) : BM Nat := do claim p 4; varint 252
def decodeU64 (p : BParams) : BM Nat := do claim p 8; varint 253

/-! UTF-8 validation (`String::from_utf8`). -/

def isCont (b : Nat) : Bool := 128 ≤ b && b < 192

/-- Well-formed UTF-8 (Unicode table 3-7): no overlong forms, no surrogates, at most U+10FFFF. -/
def validUtf8 : Bytes → Bool
  | [] => true
  | b0 :: t =>
    if b0 < 128 then validUtf8 t
    else if 194 ≤ b0 ∧ b0 ≤ 223 then
      match t with
      | b1 :: t' => isCont b1 && validUtf8 t'
      | _ => false
    else if 224 ≤ b0 ∧ b0 ≤ 239 then
      match t with
      | b1 :: b2 :: t' =>
        let lo := if b0 = 224 then 160 else 128
        let hi := if b0 = 237 then 159 else 191
        (decide (lo ≤ b1) && decide (b1 ≤ hi)) && isCont b2 && validUtf8 t'
      | _ => false
    else if 240 ≤ b0 ∧ b0 ≤ 244 then
      match t with
      | b1 :: b2 :: b3 :: t' =>
        let lo := if b0 = 240 then 144 else 128
        let hi := if b0 = 244 then 143 else 191
        (decide (lo ≤ b1) && decide (b1 ≤ hi)) && isCont b2 && isCont b3 && validUtf8 t'
      | _ => false
    else false

/-- `String`: `Vec<u8>` (length, container claim of `len` bytes, the bytes) then UTF-8 validation. -/
def decodeString (p : BParams) : BM Bytes := do
  let len ← decodeU64 p
  claim p len
  let a ← take len
  if validUtf8 a then pure a else throw .irUtf8

/-- `Vec<String>`. -/
def decodeStrings (p : BParams) : BM (List Bytes) := do
  let len ← decodeU64 p
  claim p (len * p.sizeString)
  let rec loop : Nat → List Bytes → BM (List Bytes)
    | 0, acc => pure acc.reverse
    | n + 1, acc => do
      unclaim p.sizeString
      let s ← decodeString p
      loop n (s :: acc)
  loop len []

/-- Payload-carrying tag: `(variant index, payload)`; the payload is `none` for unit variants. -/
structure IrTy where
  tag : Nat
  payload : Option Nat
  deriving Repr, DecidableEq

def decodeIrType (p : BParams) : BM IrTy := do
  let tag ← decodeU32 p
  match irTypes[tag]? with
  | none => throw .irTag
  | some (_, kind) =>
    if kind = 3 then do let v ← decodeU64 p; pure ⟨tag, some v⟩
    else if kind = 4 then do let v ← decodeU32 p; pure ⟨tag, some v⟩
    else pure ⟨tag, none⟩

structure IrOp where
  tag : Nat
  ty : Option IrTy
  num : Option Nat
  deriving Repr, DecidableEq

def decodeOp (p : BParams) : BM IrOp := do
  let tag ← decodeU32 p
  match irOps[tag]? with
  | none => throw .irTag
  | some (_, kind) =>
    if kind = 1 then do let t ← decodeIrType p; pure ⟨tag, some t, none⟩
    else if kind = 2 ∨ kind = 3 then do let v ← decodeU64 p; pure ⟨tag, none, some v⟩
    else pure ⟨tag, none, none⟩

structure Instr where
  op : IrOp
  inputs : List Bytes
  outputs : List Bytes
  deriving Repr, DecidableEq

def decodeInstr (p : BParams) : BM Instr := do
  let op ← decodeOp p
  let i ← decodeStrings p
  let o ← decodeStrings p
  pure ⟨op, i, o⟩

/-- `Program`: `Vec<Instruction>`. -/
def decodeProgramM (p : BParams) : BM (List Instr) := do
  let len ← decodeU64 p
  claim p (len * p.sizeInstr)
  let rec loop : Nat → List Instr → BM (List Instr)
    | 0, acc => pure acc.reverse
    | n + 1, acc => do
      unclaim p.sizeInstr
      let i ← decodeInstr p
      loop n (i :: acc)
  loop len []

/-- `Arity::check`. -/
def arityOk : Arity → Nat → Bool
  | .fixed n, len => n == len
  | .some, len => len != 0
  | .someEven, len => len % 2 == 0 && len != 0

/-- `Instruction::check_arity`. -/
def checkArity (tag nIn nOut : Nat) : Bool :=
  match irInputArity[tag]?, irOutputArity[tag]? with
  | some ai, some ao => arityOk ai nIn && arityOk ao nOut
  | _, _ => false

/-- Index of the first instruction whose arity check fails. -/
def firstArityFailure : List (Nat × Nat × Nat) → Nat → Option Nat
  | [], _ => none
  | (t, i, o) :: rest, k => if checkArity t i o then firstArityFailure rest (k + 1) else some k

/-- `ZkirRelation::read_relation`: decode under the limit, then `from_instructions`. -/
def decodeRelation (p : BParams) (bs : Bytes) : Except Err (List Instr × Bytes) :=
  match decodeProgramM p ⟨bs, 0⟩ with
  | .error e => .error e
  | .ok (prog, st) =>
    match firstArityFailure (prog.map (fun i => (i.op.tag, i.inputs.length, i.outputs.length))) 0 with
    | some _ => .error .irArity
    | none => .ok (prog, st.input)

/-- Position-sensitive checksum of a decoded program (compared with the same fold computed by the
harness over the instruction list the real decoder returned). -/
def irStep (acc v : Nat) : Nat := (acc * 1000003 + v % (2 ^ 61 - 1) + 1) % (2 ^ 61 - 1)

def irDigestBytes (acc : Nat) (b : Bytes) : Nat := b.foldl irStep (irStep acc b.length)

def irDigestInstr (acc : Nat) (i : Instr) : Nat :=
  let a := irStep acc i.op.tag
  let a := match i.op.ty with
    | none => irStep a 0
    | some t => irStep (irStep (irStep a 1) t.tag) (t.payload.getD 0)
  let a := irStep a (i.op.num.getD 0)
  let a := i.inputs.foldl irDigestBytes (irStep a i.inputs.length)
  i.outputs.foldl irDigestBytes (irStep a i.outputs.length)

def irDigest (prog : List Instr) : Nat := prog.foldl irDigestInstr 11

end MidnightZK.C16
