import MidnightZK.Model.Common
import MidnightZK.Model.C01.Parse
import MidnightZK.Model.C02.Parse
import MidnightZK.Model.C20.VerifyRun
import MidnightZK.Model.C20.Group
import MidnightZK.Gen.C20Consts
/-!
Line-protocol side of the model of `VerifierGadget::prepare` (`gadget-verify` requests of the C20
driver): parsing of the constraint-system dump (`harness/common/src/shape.rs`, expression syntax
of `csdump.rs`, parsers of `Model/C01/Parse.lean` and `Model/C02/Parse.lean`), of the plain
instance columns, of the recorded scalar stream and of the point classes; canonical rendering of
the intermediate values and of the accumulator. Import-free (Model files only).
-/
namespace MidnightZK.C20.V
open MidnightZK MidnightZK.C01 MidnightZK.C02 MidnightZK.C02.Ids

/-- The field of the proof system, constants regenerated from `curves/src/bls12_381/fq.rs`. -/
def fld : Fld :=
  { p := Consts.modulus, delta := Consts.delta, root := Consts.rootOfUnity, s := Consts.twoAdicity }

/-- `fixed_commitment_name(prefix, i)` / `perm_commitment_name(prefix, i)` with the generated infixes. -/
def namesOf (pfx : String) : Names :=
  { fixed := fun i => pfx ++ Consts.fixedInfix ++ toString i,
    perm := fun i => pfx ++ Consts.permInfix ++ toString i }

def splitBy {α : Type} (sizes : List Nat) (l : List α) : List (List α) :=
  match sizes with
  | [] => []
  | k :: ks => l.take k :: splitBy ks (l.drop k)

def parseHexList (s : String) : Option (List Nat) :=
  if s = "-" then some [] else (s.splitOn ",").mapM parseHex?

/-- `inst=`: plain columns separated by `/`, values by `,`; `_` = no plain column. -/
def parsePlain (s : String) : Option (List (List Nat)) :=
  if s = "_" then some [] else (s.splitOn "/").mapM parseHexList

/-- `tr=`: `R<hex>` (scalar read from the proof) or `S<hex>` (squeezed challenge). -/
def parseStream (s : String) : Option (List (Bool × Nat)) :=
  if s = "-" then some [] else
  (s.splitOn ",").mapM fun t =>
    match t.toList with
    | 'R' :: h => (parseHex? (String.ofList h)).map fun v => (false, v)
    | 'S' :: h => (parseHex? (String.ofList h)).map fun v => (true, v)
    | _ => none

/-- The tag of the transcript event that delivers a variable base (`none`: a committed instance
commitment, which is an input of the gadget). -/
def tagOfBase : VBase → Option Tag
  | .com (.advice _ c) => some (.adviceCommit 0 c)
  | .com (.permProd _ s) => some (.permProd 0 s)
  | .com (.lookupProd _ l) => some (.lookupProd 0 l)
  | .com (.lookupIn _ l) => some (.lookupIn 0 l)
  | .com (.lookupTab _ l) => some (.lookupTab 0 l)
  | .com (.trash _ t) => some (.trashCom 0 t)
  | .com .random => some .randomCom
  | .hPiece j => some (.hPiece j)
  | .f => some .fCom
  | .pi => some .pi
  | _ => none

/-- Label of a base: `B<class>` where the class of a point is given by the harness (`cls`: first
position with an equal value among the committed instance commitments followed by the points read
from the proof, in transcript order). -/
def baseLabel (nCommitted : Nat) (pointTags : List Tag) (cls : List Nat) (b : VBase) : String :=
  let pos : Option Nat :=
    match b with
    | .com (.inst _ c) => if c < nCommitted then some c else none
    | b => (tagOfBase b).bind fun t =>
        let i := pointTags.idxOf t
        if i < pointTags.length then some (nCommitted + i) else none
  match pos.bind (fun i => cls[i]?) with
  | some c => s!"B{c}"
  | none => "B?"

def fmtMsmV {m : Nat} (label : VBase → String) (x : GMsm (Zn m)) : String :=
  let terms := (x.bases.zip x.scalars).map fun bs => s!"{label bs.1}:{toHex bs.2.val}"
  let fixed := x.fixed.map fun ks => s!"{ks.1}={toHex ks.2.val}"
  s!"{if terms.isEmpty then "-" else ",".intercalate terms}|{if fixed.isEmpty then "-" else ",".intercalate fixed}"

def sameMsm {m : Nat} (a b : GMsm (Zn m)) : Bool :=
  a.bases == b.bases && a.scalars.map (·.val) == b.scalars.map (·.val) &&
    a.fixed.map (fun ks => (ks.1, ks.2.val)) == b.fixed.map (fun ks => (ks.1, ks.2.val))

/-- `gadget-verify p=… <shape> gp=… gates=… lookups=… trash=… pcols=… nc=… inst=… tr=… cls=… pfx=…`:
the intermediate values of `verify_algebraic_constraints` and the accumulator, recomputed by the
model of the gadget; `off=1` iff the off-circuit pipeline (`offRun`) yields the same identity
values, `expected_h_eval` and accumulator. -/
def answerVerify (ws : List String) : Option String := do
  let kv := C01.Parse.kv
  let p ← parseHex? (← kv ws "p")
  if p ≠ fld.p then none
  let sh ← C01.Parse.parseShape? ws
  let nc ← parseNat? (← kv ws "nc")
  let gp ← parseNatList? (← kv ws "gp")
  let gatesFlat ← C02.Parse.parseExprList (← kv ws "gates") ";"
  if gp.foldl (· + ·) 0 ≠ gatesFlat.length then none
  let lookups ← C02.Parse.parsePairs (← kv ws "lookups")
  let trash ← (do
    let l ← C02.Parse.parsePairs (← kv ws "trash")
    l.mapM fun (a, b) => match a with | [q] => some (q, b) | _ => none)
  let pcols ← C02.Parse.parsePermCols (← kv ws "pcols")
  if sh.numLookups ≠ lookups.length ∨ sh.numTrash ≠ trash.length ∨ sh.permCols ≠ pcols.length then none
  let plain ← parsePlain (← kv ws "inst")
  let stream ← parseStream (← kv ws "tr")
  let cls ← parseNatList? (← kv ws "cls")
  let pfx ← kv ws "pfx"
  let cs : VCS :=
    { gates := splitBy gp gatesFlat, lookups := lookups, trash := trash, permCols := pcols,
      adviceQueries := sh.adviceQueries, fixedQueries := sh.fixedQueries,
      instanceQueries := sh.instanceQueries, degree := sh.degree, blinding := sh.blinding, k := sh.k }
  if !gadgetSupported sh then pure "panic" else
  let names := namesOf pfx
  let toF : Nat → Zn fld.p := Zn.ofNat fld.p
  match gRun toF Zn.inv fld names sh cs nc plain stream with
  | none => pure "none"
  | some (r, o) =>
    let acc := o.acc
    let lens := plain.map List.length
    let label := baseLabel nc (gPointTags sh nc lens) cls
    let off : Bool :=
      match offRun toF Zn.inv fld names sh cs nc plain stream with
      | none => false
      | some (ro, acco) =>
        ro.ids.map (·.2) == r.ids && ro.h == r.h && ro.xn == r.xn && ro.lag == r.lag &&
          sameMsm acco.lhs acc.lhs && sameMsm acco.rhs acc.rhs
    -- the off-circuit verifier with the grouping by VALUE, and the hypotheses of
    -- `C20.in_circuit_acc_eq_off_circuit` on this proof
    let (offv, inj, wf) : Bool × Bool × Bool :=
      match offRunV toF Zn.inv fld names sh cs nc plain stream with
      | none => (false, false, false)
      | some (acco, inj, wf) => (sameMsm acco.lhs acc.lhs && sameMsm acco.rhs acc.rhs, inj, wf)
    pure s!"ie={fmtHexList r.instEvals} lag={fmtHexList [r.lag.l0, r.lag.lLast, r.lag.lBlind]} n={r.ids.length} ids={fmtHexList r.ids} xn={toHex r.xn} h={toHex r.h} qes={";".intercalate (o.qEvalSets.map fun s => fmtHexList (s.map (·.val)))} fe={toHex o.fEval.val} v={toHex o.v.val} lhs={fmtMsmV label acc.lhs} rhs={fmtMsmV label acc.rhs} off={fmtBool off} offv={fmtBool offv} inj={fmtBool inj} wf={fmtBool wf}"

end MidnightZK.C20.V
