import MidnightZK.Model.C20.Ipa
/-!
# Partial multi-scalar multiplications and accumulators (executable model)

Mirrors the off-circuit types of `circuits/src/verifier/msm.rs` (`Msm`: variable bases with
scalars, plus named fixed-base scalars in a `BTreeMap<String, F>`) and
`circuits/src/verifier/accumulator.rs` (`Accumulator { lhs, rhs }`), and the operations the
in-circuit `AssignedMsm` / `AssignedAccumulator` perform on the same data
(`scale`, `add_msm`, `accumulate_with_r`, `collapse`, `accumulate`, `as_public_input`).

Scalars in `F`, group elements in `G` (a module over `F`); the fixed bases are a function from
names to `G`. Import-free (core only).
-/
namespace MidnightZK.C20

section
variable {F G : Type}

/-- `BTreeMap<String, F>` as an association list sorted by key. `entry(k).and_modify(|e| *e = f e v)
.or_insert(v)`. -/
def insertWith (f : F → F → F) (k : String) (v : F) : List (String × F) → List (String × F)
  | [] => [(k, v)]
  | (k', v') :: t =>
    if k < k' then (k, v) :: (k', v') :: t
    else if k = k' then (k', f v' v) :: t
    else (k', v') :: insertWith f k v t

/-- `msm.rs: struct Msm`. -/
structure Msm (F G : Type) where
  bases : List G
  scalars : List F
  fixed : List (String × F)

/-- `Msm::eval`: `Σ scalarsᵢ·basesᵢ + Σ_(name, s) s·fixed_bases[name]` (one `msm_best`). -/
def Msm.eval [Zero G] [Add G] [SMul F G] (fb : String → G) (m : Msm F G) : G :=
  innerProduct m.scalars m.bases + (m.fixed.map (fun ks => ks.2 • fb ks.1)).sum

/-- `AssignedMsm::scale`: every scalar (variable and fixed part) multiplied by `r`. -/
def Msm.scale [Mul F] (r : F) (m : Msm F G) : Msm F G :=
  { bases := m.bases, scalars := m.scalars.map (· * r), fixed := m.fixed.map (fun ks => (ks.1, ks.2 * r)) }

/-- `AssignedMsm::add_msm`: variable terms appended, fixed-base scalars added key-wise. -/
def Msm.addMsm [Add F] (a b : Msm F G) : Msm F G :=
  { bases := a.bases ++ b.bases, scalars := a.scalars ++ b.scalars,
    fixed := b.fixed.foldl (fun acc ks => insertWith (· + ·) ks.1 ks.2 acc) a.fixed }

/-- `AssignedMsm::accumulate_with_r` (in-circuit): `other.scale(r)`, then `add_msm`. -/
def Msm.accumulateWithR [Add F] [Mul F] (a b : Msm F G) (r : F) : Msm F G :=
  a.addMsm (b.scale r)

/-- `Msm::accumulate_with_r` (off-circuit): bases of `other` appended, its scalars times `r`
appended, and for every fixed-base scalar of `other`:
`entry(key).and_modify(|e| *e += r * value).or_insert(r * value)`. -/
def Msm.accumulateWithROff [Add F] [Mul F] (a b : Msm F G) (r : F) : Msm F G :=
  { bases := a.bases ++ b.bases, scalars := a.scalars ++ b.scalars.map (· * r),
    fixed := b.fixed.foldl (fun acc ks => insertWith (· + ·) ks.1 (r * ks.2) acc) a.fixed }

/-- `Msm::collapse`: the variable part replaced by its value with scalar one. -/
def Msm.collapse [Zero G] [Add G] [SMul F G] [One F] (m : Msm F G) : Msm F G :=
  { bases := [innerProduct m.scalars m.bases], scalars := [1], fixed := m.fixed }

/-- `accumulator.rs: struct Accumulator`. -/
structure Acc (F G : Type) where
  lhs : Msm F G
  rhs : Msm F G

/-- Powers `r⁰, r¹, …` as `Accumulator::accumulate` computes them (`r.pow([i])`). -/
def powers [One F] [Mul F] (r : F) : Nat → List F
  | 0 => []
  | n + 1 => 1 :: (powers r n).map (· * r)

/-- The loop of `Accumulator::accumulate` after `acc = accs[0]`:
`for (other, ri) in accs.zip(rs).skip(1)`. -/
def accumulateLoop [Add F] [Mul F] (acc : Acc F G) : List (Acc F G × F) → Acc F G
  | [] => acc
  | (o, ri) :: t =>
    accumulateLoop { lhs := acc.lhs.accumulateWithROff o.lhs ri, rhs := acc.rhs.accumulateWithROff o.rhs ri } t

/-- The loop of `AssignedAccumulator::accumulate` (in-circuit), on the same data. -/
def accumulateLoopIn [Add F] [Mul F] (acc : Acc F G) : List (Acc F G × F) → Acc F G
  | [] => acc
  | (o, ri) :: t =>
    accumulateLoopIn { lhs := acc.lhs.accumulateWithR o.lhs ri, rhs := acc.rhs.accumulateWithR o.rhs ri } t

/-- `AssignedAccumulator::accumulate` given the in-circuit hash output `r`. -/
def Acc.accumulateIn [Add F] [Mul F] [One F] (accs : List (Acc F G)) (r : F) : Option (Acc F G) :=
  match accs with
  | [] => none
  | a :: t => some (accumulateLoopIn a (t.zip ((powers r accs.length).drop 1)))

/-- `Accumulator::accumulate(accs)` given the hash output `r` (`none` for an empty slice, where
the code indexes `accs[0]`). -/
def Acc.accumulate [Add F] [Mul F] [One F] (accs : List (Acc F G)) (r : F) : Option (Acc F G) :=
  match accs with
  | [] => none
  | a :: t => some (accumulateLoop a (t.zip ((powers r accs.length).drop 1)))

/-- `AssignedMsm::as_public_input`: pieces of every base, then the scalars, then the fixed-base
scalars in key order. `enc` is the encoding of a point as field elements. -/
def Msm.asPublicInput (enc : G → List F) (m : Msm F G) : List F :=
  m.bases.flatMap enc ++ m.scalars ++ m.fixed.map (·.2)

/-- `AssignedAccumulator::as_public_input`. -/
def Acc.asPublicInput (enc : G → List F) (a : Acc F G) : List F :=
  a.lhs.asPublicInput enc ++ a.rhs.asPublicInput enc

/-- `AssignedAccumulator::as_public_input_with_committed_scalars`: (plain instance, committed
instance). -/
def Acc.asPublicInputCommitted (enc : G → List F) (a : Acc F G) : List F × List F :=
  (a.lhs.asPublicInput enc ++ a.rhs.bases.flatMap enc, a.rhs.scalars ++ a.rhs.fixed.map (·.2))

end
end MidnightZK.C20
