import MidnightZK.Model.C01.Schedule
/-!
# Fiat–Shamir schedule of the in-circuit verifier (executable model)

Mirrors the control flow of `circuits/src/verifier/verifier_gadget.rs`
(`parse_trace`, `verify_algebraic_constraints`), of the argument readers in
`circuits/src/verifier/{lookup,permutation,trash,vanishing}.rs`, of
`circuits/src/verifier/kzg.rs: multi_prepare` and of the transcript gadget
(`transcript_gadget.rs`: `common_scalar`, `common_point`, `squeeze_challenge`, `read_point` =
assign + `common_point`, `read_scalar` = assign + `common_scalar`).

Events, tags and the constraint-system shape are those of the off-circuit model
(`MidnightZK.C01`), which is imported read-only. The in-circuit verifier handles one proof
(`p = 0`), asserts a single phase, supports only the rotations `-1, 0, 1` (`get_point` panics
otherwise) and never squeezes user challenges. Import-free otherwise.
-/
namespace MidnightZK.C20
open MidnightZK.C01

/-- `TranscriptGadget::read_point` / `read_scalar` / `common_*` / `squeeze_challenge` as events. -/
def readPoint (t : Tag) : Ev := elemG t
def readScalar (t : Tag) : Ev := elemF t
def commonPoint (t : Tag) : Ev := absorbG t
def commonScalar (t : Tag) : Ev := absorbF t

/-- What `parse_trace` / `verify_algebraic_constraints` assert or panic on:
`cs.phases().count() == 1` and query rotations within `{-1, 0, 1}` (`get_point`). -/
def gadgetSupported (sh : Shape) : Bool :=
  (phases sh).length == 1 &&
  (sh.adviceQueries ++ sh.fixedQueries ++ sh.instanceQueries).all (fun q => q.2 == -1 || q.2 == 0 || q.2 == 1)

/-- `parse_trace`: vk, committed instance commitments, then per plain instance column its
(fixed) length and its values. -/
def gadgetInstances (nCommitted : Nat) (lens : List Nat) : List Ev :=
  (List.range nCommitted).map (fun c => commonPoint (.instCommit 0 c)) ++
  lens.zipIdx.flatMap (fun (len, i) =>
    commonScalar (.instLen 0 (nCommitted + i)) ::
      (List.range len).map (fun j => commonScalar (.instVal 0 (nCommitted + i) j)))

/-- `(0..cs.num_advice_columns()).map(|_| transcript.read_point(..))`. -/
def gadgetAdvice (sh : Shape) : List Ev :=
  (List.range sh.advicePhase.length).map (fun c => readPoint (.adviceCommit 0 c))

/-- `lookup::read_permuted_commitments` per lookup. -/
def gadgetLookupsPermuted (sh : Shape) : List Ev :=
  (List.range sh.numLookups).flatMap (fun l => [readPoint (.lookupIn 0 l), readPoint (.lookupTab 0 l)])

/-- `permutation::read_product_commitments`: `columns.chunks(cs.degree() - 2)`. -/
def gadgetPermCommit (sh : Shape) : List Ev :=
  (List.range (numChunks sh.permCols (sh.degree - 2))).map (fun s => readPoint (.permProd 0 s))

def gadgetLookupsProduct (sh : Shape) : List Ev :=
  (List.range sh.numLookups).map (fun l => readPoint (.lookupProd 0 l))

def gadgetTrash (sh : Shape) : List Ev :=
  (List.range sh.numTrash).map (fun t => readPoint (.trashCom 0 t))

/-- `vanishing::Committed::read_commitment_after_y`: `domain.get_quotient_poly_degree()` pieces. -/
def gadgetHPieces (sh : Shape) : List Ev :=
  (List.range (sh.degree - 1)).map (fun j => readPoint (.hPiece j))

/-- `instance_evals` (a `read_scalar` only for queries of committed columns), `advice_evals`,
`fixed_evals`. -/
def gadgetEvals (sh : Shape) (nCommitted : Nat) : List Ev :=
  sh.instanceQueries.zipIdx.flatMap (fun (q, qi) => if q.1 < nCommitted then [readScalar (.instEval 0 qi)] else []) ++
  (List.range sh.adviceQueries.length).map (fun qi => readScalar (.adviceEval 0 qi)) ++
  (List.range sh.fixedQueries.length).map (fun qi => readScalar (.fixedEval qi))

/-- `permutation::Committed::evaluate`: `while iter.next().is_some()`: eval, next eval, and the
last eval `if iter.len() > 0`. -/
def gadgetPermEvals (sh : Shape) : List Ev :=
  let sets := numChunks sh.permCols (sh.degree - 2)
  (List.range sets).flatMap fun s =>
    [readScalar (.permEval 0 s 0), readScalar (.permEval 0 s 1)] ++
    (if sets - (s + 1) > 0 then [readScalar (.permEval 0 s 2)] else [])

/-- `lookup::Committed::evaluate`: five scalars per lookup. -/
def gadgetLookupEvals (sh : Shape) : List Ev :=
  (List.range sh.numLookups).flatMap fun l =>
    [readScalar (.lookupEval 0 l 0), readScalar (.lookupEval 0 l 1), readScalar (.lookupEval 0 l 2),
     readScalar (.lookupEval 0 l 3), readScalar (.lookupEval 0 l 4)]

def gadgetTrashEvals (sh : Shape) : List Ev :=
  (List.range sh.numTrash).map fun t => readScalar (.trashEval 0 t)

/-- The queries chained at the end of `verify_algebraic_constraints`, as (commitment, rotation of
the evaluation point): `x_prev = -1`, `x = 0`, `x_next = 1`, `x_last = -(blinding+1)`. -/
def gadgetQueries (sh : Shape) (nCommitted : Nat) : List (Com × Int) :=
  let sets := numChunks sh.permCols (sh.degree - 2)
  -- committed instance queries (`filter_map`)
  sh.instanceQueries.filterMap (fun q => if q.1 < nCommitted then some (Com.inst 0 q.1, q.2) else none) ++
  sh.adviceQueries.map (fun q => (Com.advice 0 q.1, q.2)) ++
  -- permutation::Evaluated::queries
  ((List.range sets).flatMap fun s => [(Com.permProd 0 s, (0 : Int)), (Com.permProd 0 s, 1)]) ++
  (((List.range sets).reverse.drop 1).map fun s => (Com.permProd 0 s, lastRot sh)) ++
  -- lookup::Evaluated::queries
  ((List.range sh.numLookups).flatMap fun l =>
    [(Com.lookupProd 0 l, (0 : Int)), (Com.lookupIn 0 l, 0), (Com.lookupTab 0 l, 0),
     (Com.lookupIn 0 l, -1), (Com.lookupProd 0 l, 1)]) ++
  (List.range sh.numTrash).map (fun t => (Com.trash 0 t, (0 : Int))) ++
  sh.fixedQueries.map (fun q => (Com.fixed q.1, q.2)) ++
  (List.range sh.permCols).map (fun k => (Com.permCommon k, (0 : Int))) ++
  [(Com.h, 0), (Com.random, 0)]

/-- `kzg::multi_prepare`: `x1`, `x2`, `f_com`, `x3`, one `read_scalar` per point set, `x4`, `π`. -/
def gadgetMultiPrepare (qs : List (Com × Int)) : List Ev :=
  [squeeze .x1, squeeze .x2, readPoint .fCom, squeeze .x3] ++
  ((pointSets qs).getD []).map (fun s => readScalar (.qEval s)) ++
  [squeeze .x4, readPoint .pi]

/-- `VerifierGadget::prepare` = `parse_trace` followed by `verify_algebraic_constraints`. -/
def gadgetSchedule (sh : Shape) (nCommitted : Nat) (lens : List Nat) : List Ev :=
  -- parse_trace
  [commonScalar .vk] ++ gadgetInstances nCommitted lens ++ gadgetAdvice sh ++ [squeeze .theta] ++
  gadgetLookupsPermuted sh ++ [squeeze .beta, squeeze .gamma] ++
  gadgetPermCommit sh ++ gadgetLookupsProduct sh ++ [squeeze .trashCh] ++
  gadgetTrash sh ++ [readPoint .randomCom, squeeze .y] ++
  -- verify_algebraic_constraints
  gadgetHPieces sh ++ [squeeze .x] ++ gadgetEvals sh nCommitted ++ [readScalar .randomEval] ++
  (List.range sh.permCols).map (fun k => readScalar (.permCommonEval k)) ++
  gadgetPermEvals sh ++ gadgetLookupEvals sh ++ gadgetTrashEvals sh ++
  gadgetMultiPrepare (gadgetQueries sh nCommitted)

/-- Number of bytes of the proof the in-circuit verifier consumes. -/
def gadgetProofLen (sh : Shape) (nCommitted : Nat) (lens : List Nat) : Nat :=
  ((gadgetSchedule sh nCommitted lens).filter (fun e => e.kind = .elem)).foldl
    (fun acc e => acc + elemBytes e.ty) 0

end MidnightZK.C20
