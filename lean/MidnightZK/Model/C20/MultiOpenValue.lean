import MidnightZK.Model.C20.MultiOpen
/-!
# The off-circuit multi-opening with the grouping BY VALUE (executable model)

`proofs/src/poly/kzg/utils.rs: construct_intermediate_sets` keys its `point_index_map` by the VALUE
of the evaluation point (a field element), whereas the in-circuit copy
(`circuits/src/verifier/kzg.rs: construct_intermediate_sets`) keys it by the assigned cell (an
identity: `x`, `x_next`, `x_prev`, `x_last` are four cells). `offMultiPrepare`
(`Model/C20/MultiOpen.lean`) groups by identity like the gadget; this is the off-circuit verifier
as it is: queries carry point VALUES.
-/
namespace MidnightZK.C20.V
open MidnightZK MidnightZK.C01

section
variable {F : Type} [Zero F] [One F] [Add F] [Sub F] [Neg F] [Mul F] [DecidableEq F]

/-- `Accumulator::from_dual_msm(plonk::prepare(..))` with `kzg::multi_prepare` grouping the queries
by the value of their point. -/
def offMultiPrepareV (inv : F → F) (names : Names) (sf : F) (nPieces : Nat)
    (queries : List (C14.Query Com F F)) (qEvalsOnX3 : List F) (x1 x2 x3 x4 : F) :
    Option (Acc F VBase) :=
  match C14.constructIntermediateSets (0 : F) queries with
  | none => none
  | some (cm, pointSets) =>
    let tbl := tableOf names (cm.map (·.com)) nPieces
    let groups := pointSets.zipIdx.map fun ps =>
      (ps.1, (cm.filter fun d => d.setIndex = ps.2).map fun d =>
        (offTerms names tbl sf nPieces d.com, d.evals))
    match C14.prepareGroups inv groups { hasF := true, qEvals := qEvalsOnX3, hasPi := true } x1 x2 x3 x4 with
    | .ok d => fromDualMsm (decodeOf tbl) d
    | .error _ => none

/-- A query at a rotation, with the rotation replaced by the value of the point. -/
def queryAt (pt : Int → F) (q : C14.Query Com Int F) : C14.Query Com F F := ⟨q.com, pt q.point, q.eval⟩

/-- Well-formedness of a grouping (what `construct_intermediate_sets` returns on a non-empty query
list): there is a point set, no point set is empty, and some commitment belongs to a set. -/
def groupingWF {P : Type} (cm : List (C14.CommitmentData Com F)) (pointSets : List (List P)) : Bool :=
  !pointSets.isEmpty && pointSets.all (fun s => !s.isEmpty) &&
    cm.any (fun d => decide (d.setIndex < pointSets.length))

end
end MidnightZK.C20.V
