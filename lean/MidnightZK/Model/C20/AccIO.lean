import MidnightZK.Model.Common
import MidnightZK.Model.C20.Acc
import MidnightZK.Model.C20.Group
/-!
Text form of MSMs / accumulators for the C20 driver (group elements by discrete logarithm):
`msm = <bases>;<scalars>;<name=value,…>` (each part `-` when empty), `acc = <msm>/<msm>`.
Import-free.
-/
namespace MidnightZK.C20
open MidnightZK

def parseFixed? (s : String) : Option (List (String × Fr)) :=
  if s = "-" then some [] else
  (s.splitOn ",").mapM fun t =>
    match t.splitOn "=" with
    | [k, v] => (parseNat? v).map (fun v => (k, fr v))
    | _ => none

def parseMsm? (s : String) : Option (Msm Fr Fr) :=
  match s.splitOn ";" with
  | [b, sc, f] => do
    let b ← parseNatList? b
    let sc ← parseNatList? sc
    let f ← parseFixed? f
    pure { bases := b.map fr, scalars := sc.map fr, fixed := f }
  | _ => none

def parseAcc? (s : String) : Option (Acc Fr Fr) :=
  match s.splitOn "/" with
  | [l, r] => do
    let l ← parseMsm? l
    let r ← parseMsm? r
    pure { lhs := l, rhs := r }
  | _ => none

def fmtFixed (l : List (String × Fr)) : String :=
  if l.isEmpty then "-" else ",".intercalate (l.map fun ks => s!"{ks.1}={toHex ks.2.val}")

def fmtMsm (m : Msm Fr Fr) : String :=
  s!"{fmtHexList (m.bases.map (·.val))};{fmtHexList (m.scalars.map (·.val))};{fmtFixed m.fixed}"

def fmtAcc (a : Acc Fr Fr) : String := s!"{fmtMsm a.lhs}/{fmtMsm a.rhs}"

/-- Fixed bases by discrete logarithm; a missing name makes `Msm::eval` panic. -/
def evalMsm? (fb : List (String × Fr)) (m : Msm Fr Fr) : Option Fr :=
  if m.fixed.all (fun ks => fb.any (fun kb => kb.1 = ks.1)) then
    some (m.eval (fun k => ((fb.find? (fun kb => kb.1 = k)).map (·.2)).getD 0))
  else none

end MidnightZK.C20
