import MidnightZK.Model.C20.Acc
import MidnightZK.Gen.C20Consts
/-!
# Carrying an accumulator into a circuit as a witness (executable model)

Mirrors `circuits/src/verifier/mod.rs: fixed_commitment_name / perm_commitment_name /
fixed_base_names`, `circuits/src/verifier/msm.rs: AssignedMsm::assign` and
`circuits/src/verifier/accumulator.rs: AssignedAccumulator::assign` — the path by which an
accumulator computed OFF-circuit (`Accumulator<S>`, a `BTreeMap<String, F>` of fixed-base scalars)
enters a recursive circuit (`zk_stdlib/examples/ivc.rs`), and the IVC step that follows
(`AssignedAccumulator::accumulate(&[proof_acc, prev_acc])`).

Two orders on the fixed-base names meet here:
* `fixed_base_names` lists them in NUMERIC order of the commitment index (`…_com_2` before `…_com_10`),
* a `BTreeMap<String, _>` iterates in the order of `String` (byte-wise lexicographic: `…_com_10`
  before `…_com_2`); Lean's `String` order is the same relation (lexicographic on the characters;
  for UTF-8 the byte order and the code-point order coincide).
`AssignedMsm::assign` receives the names in the first order and the scalars in the second one.

Import-free (core only).
-/
namespace MidnightZK.C20

/-- `verifier/mod.rs: fixed_commitment_name` = `format!("{prefix}_fixed_com_{i}")` (the infix is
regenerated from the source). -/
def fixedCommitmentName (vk : String) (i : Nat) : String := vk ++ Consts.fixedInfix ++ toString i

/-- `verifier/mod.rs: perm_commitment_name` = `format!("{prefix}_perm_com_{i}")`. -/
def permCommitmentName (vk : String) (i : Nat) : String := vk ++ Consts.permInfix ++ toString i

/-- `verifier/mod.rs: fixed_base_names(vk_name, nb_fixed_commitments, nb_perm_commitments)`:
`"-G"`, then the fixed commitments `0, 1, 2, …`, then the permutation commitments `0, 1, 2, …`. -/
def fixedBaseNames (vk : String) (nbFixed nbPerm : Nat) : List String :=
  "-G" :: ((List.range nbFixed).map (fixedCommitmentName vk) ++ (List.range nbPerm).map (permCommitmentName vk))

/-- Insertion of a name into an increasing list, before the first entry that is not smaller. -/
def insertName (k : String) : List String → List String
  | [] => [k]
  | h :: t => if k ≤ h then k :: h :: t else h :: insertName k t

/-- `Vec<String>::sort()` (stable, by `Ord for String`), as an insertion sort (structural, so
that theorems can evaluate it). -/
def sortNames (names : List String) : List String := names.foldr insertName []

section
variable {F G : Type}

/-- `iter.collect::<BTreeMap<String, _>>()`: entries inserted one after the other, a later entry
with the same key replaces the earlier one. -/
def collectMap (l : List (String × F)) : List (String × F) :=
  l.foldl (fun acc kv => insertWith (fun _ new => new) kv.1 kv.2 acc) []

/-- `msm.rs: AssignedMsm::assign(.., len, fixed_base_names, Value::known(msm))`, as a function of the
witnessed `Msm`: the value (`InnerValue::value`) of the assigned MSM. The bases and scalars are
witnessed as they are; the fixed-base scalars are taken out of the `BTreeMap` in key order
(`msm.fixed_base_scalars.iter().map(|s| *s.1)`), the given names are SORTED
(`fixed_base_names.sort()`), zipped with the scalars and collected into the `BTreeMap` of the
assigned MSM. `none` = one of the three `transpose_vec(len)` assertions fails (panic). -/
def Msm.assign (len : Nat) (names : List String) (m : Msm F G) : Option (Msm F G) :=
  if m.bases.length ≠ len ∨ m.scalars.length ≠ len ∨ m.fixed.length ≠ names.length then none
  else some { bases := m.bases, scalars := m.scalars,
              fixed := collectMap ((sortNames names).zip (m.fixed.map (·.2))) }

/-- The same function WITHOUT the sort of the names (the variant of seeded change C20-2; not the
code): used only to state why the sort is needed (`assign_without_sort_misplaces`). -/
def Msm.assignNoSort (len : Nat) (names : List String) (m : Msm F G) : Option (Msm F G) :=
  if m.bases.length ≠ len ∨ m.scalars.length ≠ len ∨ m.fixed.length ≠ names.length then none
  else some { bases := m.bases, scalars := m.scalars,
              fixed := collectMap (names.zip (m.fixed.map (·.2))) }

/-- `accumulator.rs: AssignedAccumulator::assign(.., lhs_len, rhs_len, lhs_fixed_base_names,
rhs_fixed_base_names, Value::known(acc))`: both sides through `AssignedMsm::assign`. -/
def Acc.assign (lhsLen rhsLen : Nat) (lhsNames rhsNames : List String) (a : Acc F G) : Option (Acc F G) :=
  match a.lhs.assign lhsLen lhsNames, a.rhs.assign rhsLen rhsNames with
  | some l, some r => some { lhs := l, rhs := r }
  | _, _ => none

/-- The accumulator `ivc.rs: main` starts from (`trivial_acc`): one base with scalar one on each
side, no fixed-base scalar on the left, the scalar ZERO under every given name on the right. -/
def trivialAcc [Zero F] [One F] (base : G) (names : List String) : Acc F G :=
  { lhs := { bases := [base], scalars := [1], fixed := [] },
    rhs := { bases := [base], scalars := [1], fixed := collectMap (names.map (fun n => (n, (0 : F)))) } }

/-- One IVC step as the circuit of `ivc.rs` performs it on the accumulators, given the in-circuit
hash output `r`: the carried accumulator is witnessed (`AssignedAccumulator::assign`), then
`AssignedAccumulator::accumulate(&[proof_acc, prev_acc])`. -/
def ivcStepIn [Add F] [Mul F] [One F] (lhsLen rhsLen : Nat) (lhsNames rhsNames : List String)
    (proofAcc carried : Acc F G) (r : F) : Option (Acc F G) :=
  match carried.assign lhsLen rhsLen lhsNames rhsNames with
  | some c => Acc.accumulateIn [proofAcc, c] r
  | none => none

end
end MidnightZK.C20
