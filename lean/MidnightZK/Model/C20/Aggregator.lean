import MidnightZK.Model.C20.Acc
import MidnightZK.Model.C20.Assign
/-!
# Public-input layout and IPA pairing of the light aggregator (executable model)

Mirrors `aggregator/src/light_aggregator.rs`: the instance vector the prover builds in
`aggregate_proofs` (from the off-circuit accumulator), the one the verifier rebuilds in `verify`
(from the sections it reads off the aggregated proof), the sections of the aggregated proof that
precede the PLONK proof, and the two vectors handed to the inner-product argument.

Import-free (core only).
-/
namespace MidnightZK.C20

section
variable {F G : Type}

/-- `aggregate_proofs`: `aggregator_instances` = `AssignedVk::as_public_input(inner_vk)`, then the
public inputs of every inner proof in order, then the plain part of
`as_public_input_with_committed_scalars(acc)` (left MSM in full, right-hand bases). -/
def aggProverInstances (enc : G → List F) (vkPI : List F) (inner : List (List F)) (acc : Acc F G) : List F :=
  vkPI ++ inner.flatten ++ (acc.asPublicInputCommitted enc).1

/-- `aggregate_proofs`: the committed instance column (`acc_committed_instances`): the scalars of
the right-hand side, then its fixed-base scalars in key order. -/
def aggCommitted (enc : G → List F) (acc : Acc F G) : List F := (acc.asPublicInputCommitted enc).2

/-- What `verify` reads before the PLONK proof: `n`, `n` bases, `n` scalars (left MSM, no
fixed-base part), `m`, `m` bases (right-hand side; its scalars stay committed in `σ`). -/
structure AggSections (F G : Type) where
  lhsBases : List G
  lhsScalars : List F
  rhsBases : List G

/-- The sections `aggregate_proofs` writes for an accumulator (it asserts
`acc.lhs().fixed_base_scalars().is_empty()`: `none` otherwise). -/
def aggSectionsOf (acc : Acc F G) : Option (AggSections F G) :=
  if acc.lhs.fixed.isEmpty then
    some { lhsBases := acc.lhs.bases, lhsScalars := acc.lhs.scalars, rhsBases := acc.rhs.bases }
  else none

/-- `verify`: `aggregator_instances` rebuilt from the sections: vk, inner public inputs,
`AssignedMsm::as_public_input(Msm::new(lhs_bases, lhs_scalars, {}))`, the encodings of the
right-hand bases. -/
def aggVerifierInstances (enc : G → List F) (vkPI : List F) (inner : List (List F)) (s : AggSections F G) : List F :=
  vkPI ++ inner.flatten ++
    (({ bases := s.lhsBases, scalars := s.lhsScalars, fixed := [] } : Msm F G).asPublicInput enc) ++
    s.rhsBases.flatMap enc

/-- `resize(k, default)` with `k = len.next_power_of_two()` is not modelled (padding with
identities / zeros contributes nothing); the two vectors of the IPA before padding:
`scalars = acc_committed_instances`, `bases1 = acc.rhs().bases() ++ fixed_bases.values()` — the
fixed bases of the WHOLE verifying key in key order. -/
def aggIpaBases1 (acc : Acc F G) (fixedBases : List (String × G)) : List G :=
  acc.rhs.bases ++ fixedBases.map (·.2)

/-- Whether the pairing of `scalars` with `bases1` is name-correct: the right-hand side of the
accumulator carries a scalar for EVERY fixed base of the key (same keys, same order). -/
def aggAligned (acc : Acc F G) (fixedBases : List (String × G)) : Bool :=
  acc.rhs.fixed.map (·.1) == fixedBases.map (·.1)

/-- `light_aggregator.rs: LightAggregator::ipa_fixed_bases` (added by the repair of finding
`agg:unopened-fixed-commitment`): the fixed bases of the inner key that the accumulator of an inner
proof has a scalar for, in key order. `names = fixed_base_names("inner_vk", nb_fixed, 0)`;
the entry `name` is dropped iff `∃ i < nb_fixed, names[i + 1] = name ∧ i` is the column of no
fixed query (`queried` = the column indices of `cs.fixed_queries()`). -/
def aggUnopened (nbFixed : Nat) (queried : List Nat) (name : String) : Bool :=
  let names := fixedBaseNames "inner_vk" nbFixed 0
  (List.range nbFixed).any (fun i => names[i + 1]? == some name && !(queried.contains i))

/-- See `aggUnopened`: `fixed_bases.iter().filter(|(name, _)| !unopened(name))`. -/
def ipaFixedBases (nbFixed : Nat) (queried : List Nat) (fixedBases : List (String × G)) : List (String × G) :=
  fixedBases.filter (fun kb => !aggUnopened nbFixed queried kb.1)

/-- The repaired `bases1 = acc.rhs().bases() ++ self.ipa_fixed_bases(&fixed_bases)` of
`aggregate_proofs` / `verify`. -/
def aggIpaBases1Opened (acc : Acc F G) (nbFixed : Nat) (queried : List Nat) (fixedBases : List (String × G)) : List G :=
  aggIpaBases1 acc (ipaFixedBases nbFixed queried fixedBases)

/-- `accumulator.rs: AssignedAccumulator::scale_by_bit(cond, acc)`: `acc.lhs.scale(cond)` then
`acc.rhs.scale(cond)` with the bit as a bounded scalar (`1` / `0`): EVERY scalar of both sides —
variable and fixed-base — multiplied by the bit (the genesis switch of `zk_stdlib/examples/ivc.rs`). -/
def Acc.scaleByBit [Mul F] [Zero F] [One F] (b : Bool) (a : Acc F G) : Acc F G :=
  let c : F := if b then 1 else 0
  { lhs := a.lhs.scale c, rhs := a.rhs.scale c }

end
end MidnightZK.C20
