/-!
# The two-base inner-product argument of the light aggregator (executable model)

Mirrors `aggregator/src/inner_product_argument.rs`:
`fold`, `inner_product`, the rounds of `ipa_prove`, the scalar/base vectors of the final
multi-scalar multiplication of `ipa_verify`, and the Fiat–Shamir schedules of both sides.

The scalars live in any type `F` with ring operations, the group elements in any type `G` with
an addition and a scalar action `F → G → G` (a module over `F`). The Fiat–Shamir challenges are
parameters of the model (`r`, then one `u` per round, each with the inverse the code computes by
`uj.invert().unwrap()`): the hash is not modelled. `inner_product` is `msm_best` in the code
(the subject of C12); here it is the plain sum `Σ sᵢ • bᵢ`.

Import-free (core only).
-/
namespace MidnightZK.C20

section
variable {F G : Type}

/-- `inner_product_argument.rs: fn fold` — `c0 * v0 + c1 * v1`, element-wise. (The code asserts
equal lengths; `zipWith` truncates, the callers below only pass equal lengths.) -/
def fold {S T : Type} [Add T] [SMul S T] (c0 : S) (v0 : List T) (c1 : S) (v1 : List T) : List T :=
  List.zipWith (fun a b => c0 • a + c1 • b) v0 v1

/-- `inner_product_argument.rs: fn inner_product` — `Σ scalarsᵢ • basesᵢ` (the code evaluates
it with `msm_best` after `batch_normalize`). -/
def innerProduct [Zero G] [Add G] [SMul F G] (scalars : List F) (bases : List G) : G :=
  (List.zipWith (fun s b => s • b) scalars bases).sum

/-- State of the prover after some rounds: the `(L, R)` pairs written so far, the folded scalar
vector and the folded base vector. -/
structure ProverState (F G : Type) where
  lrs : List (G × G)
  s : List F
  b : List G

/-- One iteration of the `for _ in 0..k` loop of `ipa_prove`, with challenge `u` and its
inverse `ui`:
`l = <s_left, b_right>`, `r = <s_right, b_left>`,
`s ← u·s_left + ui·s_right`, `b ← u·b_right + ui·b_left`. -/
def proverRound [Zero G] [Add G] [SMul F G] [Add F] [SMul F F] (st : ProverState F G) (u ui : F) :
    ProverState F G :=
  let half := st.s.length / 2
  let l := innerProduct (st.s.take half) (st.b.drop half)
  let r := innerProduct (st.s.drop half) (st.b.take half)
  { lrs := st.lrs ++ [(l, r)]
    s := fold u (st.s.take half) ui (st.s.drop half)
    b := fold u (st.b.drop half) ui (st.b.take half) }

/-- The loop of `ipa_prove` over the list of round challenges `(u, u⁻¹)`. -/
def proverRounds [Zero G] [Add G] [SMul F G] [Add F] [SMul F F] :
    ProverState F G → List (F × F) → ProverState F G
  | st, [] => st
  | st, (u, ui) :: us => proverRounds (proverRound st u ui) us

/-- An IPA proof: the `(L_j, R_j)` pairs and the final scalar `s[0]` (`0` if the folded vector is
empty, which the code excludes by `is_power_of_two`). -/
structure IpaProof (F G : Type) where
  lrs : List (G × G)
  s : F

/-- `ipa_prove`: bases batched as `bases1 + r·bases2` (`fold((1, bases1), (r, bases2))`), then
the rounds, then the last remaining scalar. -/
def ipaProve [Zero G] [Add G] [SMul F G] [Zero F] [One F] [Add F] [SMul F F]
    (scalars : List F) (bases1 bases2 : List G) (r : F) (us : List (F × F)) : IpaProof F G :=
  let bases := fold (1 : F) bases1 r bases2
  let st := proverRounds { lrs := [], s := scalars, b := bases } us
  { lrs := st.lrs, s := st.s.headD 0 }

/-- The `ipa_scalars` loop of `ipa_verify`:
`ipa_scalars = [-s]; for (uj, uj_inv) in ujs.iter().rev() { ipa_scalars = ipa_scalars·uj_inv ++ ipa_scalars·uj }`. -/
def ipaScalars [Neg F] [Mul F] (s : F) (us : List (F × F)) : List F :=
  us.reverse.foldl (fun acc u => acc.map (· * u.2) ++ acc.map (· * u.1)) [-s]

/-- The scalar vector of the final MSM of `ipa_verify`, in the order the code pushes it:
`u_j², u_j⁻²` per round; `ipa_scalars`; `ipa_scalars·r`; `1`; `r`. -/
def verifierMsmScalars [Neg F] [Mul F] [One F] (r s : F) (us : List (F × F)) : List F :=
  us.flatMap (fun u => [u.1 * u.1, u.2 * u.2]) ++
  ipaScalars s us ++ (ipaScalars s us).map (· * r) ++ [1, r]

/-- The base vector of the final MSM of `ipa_verify`: `L_j, R_j` per round; `bases1`; `bases2`;
`res1`; `res2`. -/
def verifierMsmBases (lrs : List (G × G)) (bases1 bases2 : List G) (res1 res2 : G) : List G :=
  lrs.flatMap (fun lr => [lr.1, lr.2]) ++ bases1 ++ bases2 ++ [res1, res2]

/-- The value `ipa_verify` compares with the identity. -/
def verifierSum [Zero G] [Add G] [SMul F G] [Neg F] [Mul F] [One F]
    (bases1 bases2 : List G) (res1 res2 : G) (r : F) (us : List (F × F)) (pf : IpaProof F G) : G :=
  innerProduct (verifierMsmScalars r pf.s us) (verifierMsmBases pf.lrs bases1 bases2 res1 res2)

/-- `ipa_verify` returns `Ok(())` iff the MSM is the identity. -/
def ipaVerify [Zero G] [Add G] [SMul F G] [Neg F] [Mul F] [One F] [DecidableEq G]
    (bases1 bases2 : List G) (res1 res2 : G) (r : F) (us : List (F × F)) (pf : IpaProof F G) : Bool :=
  decide (verifierSum bases1 bases2 res1 res2 r us pf = 0)

end

/-! ## Fiat–Shamir schedules -/

/-- Transcript events of the argument: `cG` = `common` of a group element, `eG`/`eF` = proof
element (prover `write`, verifier `read`), `sq` = `squeeze_challenge`. -/
inductive IpaEv | cG | eG | eF | sq
deriving DecidableEq, Repr, Inhabited

def IpaEv.tok : IpaEv → String
  | .cG => "CG" | .eG => "EG" | .eF => "EF" | .sq => "S"

/-- `trailing_zeros` of a positive number (fuel-recursive), `0` for `0` (the code asserts a power
of two before). -/
def trailingZeros : Nat → Nat → Nat
  | 0, _ => 0
  | fuel + 1, n => if n = 0 then 0 else if n % 2 = 1 then 0 else 1 + trailingZeros fuel (n / 2)

/-- Number of rounds: `k = len.trailing_zeros()`. -/
def rounds (len : Nat) : Nat := trailingZeros len len

/-- Events of `ipa_prove` on vectors of length `len`. -/
def proverSchedule (len : Nat) : List IpaEv :=
  List.replicate len .cG ++ List.replicate len .cG ++ [.cG, .cG, .sq] ++
  (List.range (rounds len)).flatMap (fun _ => [.eG, .eG, .sq]) ++ [.eF]

/-- Events of `ipa_verify` on base vectors of length `len`. -/
def verifierScheduleIpa (len : Nat) : List IpaEv :=
  List.replicate len .cG ++ List.replicate len .cG ++ [.cG, .cG, .sq] ++
  (List.replicate (rounds len) [IpaEv.eG, .eG, .sq]).flatten ++ [.eF]

/-- WHAT each transcript operation of the argument carries (the refinement of `IpaEv` by the
identity of the element): the `i`-th entry of `bases1` / `bases2`, the two claimed values
(`res1` = the evaluated right-hand side, `res2` = the commitment `σ` to the scalars in the
aggregator), the batching challenge `r`, per round `j` the pair `L_j`, `R_j` and the challenge
`u_j`, the final scalar. -/
inductive IpaLab
  | base1 (i : Nat) | base2 (i : Nat) | res1 | res2 | chalR | L (j : Nat) | R (j : Nat) | chalU (j : Nat) | finalS
deriving DecidableEq, Repr, Inhabited

/-- The kind of transcript operation a labelled event is. -/
def IpaLab.kind : IpaLab → IpaEv
  | .base1 _ | .base2 _ | .res1 | .res2 => .cG
  | .chalR | .chalU _ => .sq
  | .L _ | .R _ => .eG
  | .finalS => .eF

def IpaLab.tok : IpaLab → String
  | .base1 i => s!"B1.{i}" | .base2 i => s!"B2.{i}" | .res1 => "RES1" | .res2 => "RES2" | .chalR => "r"
  | .L j => s!"L.{j}" | .R j => s!"R.{j}" | .chalU j => s!"u.{j}" | .finalS => "s"

/-- The transcript operations of `ipa_prove` / `ipa_verify` with their contents, in the order of
the code: `bases1.iter().try_for_each(common)`, `bases2…`, `common(res1)`, `common(res2)`,
`r = squeeze_challenge()`, then per round `write/read(L_j)`, `write/read(R_j)`,
`u_j = squeeze_challenge()`, then the final scalar. -/
def labelledSchedule (len : Nat) : List IpaLab :=
  (List.range len).map .base1 ++ (List.range len).map .base2 ++ [.res1, .res2, .chalR] ++
  (List.range (rounds len)).flatMap (fun j => [.L j, .R j, .chalU j]) ++ [.finalS]

end MidnightZK.C20
