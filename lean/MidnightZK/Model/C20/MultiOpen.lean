import MidnightZK.Model.C01.Schedule
import MidnightZK.Model.C14.Open
import MidnightZK.Model.C20.Acc
/-!
# The in-circuit multi-opening and the accumulator it produces (executable model)

Mirrors `circuits/src/verifier/kzg.rs: multi_prepare` with the helpers it calls
(`msm_inner_product`, `evals_inner_product`, `utils.rs: powers / truncated_powers` without the
`truncated-challenges` feature, `evaluate_interpolated_polynomial`, `inner_product`, `mul_add`),
the in-circuit MSM operations of `msm.rs` (`from_term`, `from_fixed_term`, `scale`, `add_msm` —
the definitions of `Model/C20/Acc.lean`), `vanishing.rs: PartiallyEvaluated::verify`
(`h_commitment`), and, for the off-circuit side, `accumulator.rs: Accumulator::from_dual_msm`
applied to the dual MSM of `proofs/src/poly/kzg/mod.rs: multi_prepare`
(`MidnightZK.C14.prepareGroups`, imported read-only).

Scalars live in any type `F` with ring operations (`inv` is a parameter), group elements never
appear: an accumulator is a pair of formal linear combinations over base identifiers (`VBase`)
plus named fixed-base scalars. Queries carry a symbolic evaluation point (a rotation: the
in-circuit grouping compares assigned cells, i.e. identities, not values).
-/
namespace MidnightZK.C20.V
open MidnightZK MidnightZK.C01

/-- Variable bases of the accumulator: a commitment read from the proof (or a committed instance),
a piece of the quotient commitment, `f_com`, `π`. -/
inductive VBase
  | com (c : Com)
  | hPiece (j : Nat)
  | f
  | pi
deriving DecidableEq, Repr, Inhabited

/-- In-circuit MSM (`msm.rs: AssignedMsm`), values only. -/
abbrev GMsm (F : Type) := Msm F VBase

section
variable {F : Type} [Zero F] [One F] [Add F] [Sub F] [Neg F] [Mul F]

/-- `AssignedMsm::empty`. -/
def emptyMsm : GMsm F := { bases := [], scalars := [], fixed := [] }
/-- `AssignedMsm::from_term(scalar, base)`. -/
def fromTerm (s : F) (b : VBase) : GMsm F := { bases := [b], scalars := [s], fixed := [] }
/-- `AssignedMsm::from_fixed_term(scalar, name)`. -/
def fromFixedTerm (s : F) (name : String) : GMsm F := { bases := [], scalars := [], fixed := [(name, s)] }
/-- `AssignedMsm::add_term`. -/
def addTerm (m : GMsm F) (s : F) (b : VBase) : GMsm F :=
  { m with bases := m.bases ++ [b], scalars := m.scalars ++ [s] }

/-- `kzg.rs: msm_inner_product`: `res = empty; for (msm, s) { msm.scale(s); res.add_msm(msm) }`. -/
def gMsmInnerProduct (msms : List (GMsm F)) (scalars : List F) : GMsm F :=
  (msms.zip scalars).foldl (fun res ms => res.addMsm (ms.1.scale ms.2)) emptyMsm

/-- `kzg.rs: evals_inner_product`: `res[i] = mul_add(s, poly_evals[i], res[i])` from zeros;
`none` = `evals_set[0]` / `poly_evals[i]` out of bounds. -/
def gEvalsInnerProduct (evalsSet : List (List F)) (scalars : List F) : Option (List F) :=
  match evalsSet with
  | [] => none
  | e0 :: _ =>
    (evalsSet.zip scalars).foldlM (fun (res : List F) es =>
      if es.1.length < res.length then none
      else some (List.zipWith (fun r e => es.2 * e + r) res es.1)) (List.replicate e0.length 0)

/-- The loop of `utils.rs: powers`: `acc` starts at `x`, `acc = acc * x`. -/
def gPowersFrom (x : F) : Nat → F → List F
  | 0, _ => []
  | m + 1, acc => acc :: gPowersFrom x m (acc * x)

/-- `utils.rs: powers(x, n)` (`truncated_powers` without truncation): `1, x, x·x, …`
(`n` values; the vector always starts with `one`). -/
def gPowers (x : F) (n : Nat) : List F := 1 :: gPowersFrom x (n - 1) x

/-- `utils.rs: prod`: `terms[0] · terms[1] · …` (the callers pass at least one term). -/
def gProd : List F → F
  | [] => 1
  | t :: ts => ts.foldl (· * ·) t

/-- `utils.rs: inner_product`: `x0·y0`, then `mul_add(xi, yi, acc) = xi·yi + acc`. -/
def gInnerProductF : List F → List F → Option F
  | x0 :: xs, y0 :: ys => some ((xs.zip ys).foldl (fun acc xy => xy.1 * xy.2 + acc) (x0 * y0))
  | _, _ => none

variable [DecidableEq F]

/-- `utils.rs: evaluate_interpolated_polynomial(points, evals, x)`: pairwise `assert_not_equal`
of the points (unsatisfiable otherwise: `none`), one point ↦ `evals[0]`, else
`Σ_j (∏_{i≠j}(x − x_i) / ∏_{i≠j}(x_j − x_i)) · evals_j` by `inner_product`. -/
def gInterpolate (inv : F → F) (points evals : List F) (x : F) : Option F :=
  if points.length ≠ evals.length then none else
  if ¬ points.Nodup then none else
  if points.length = 1 then evals.head? else
  let xMinusXs := points.map fun xi => x - xi
  let ljs := points.zipIdx.map fun (xj, j) =>
    let numTerms := (xMinusXs.zipIdx.filter fun t => t.2 ≠ j).map (·.1)
    let denTerms := (points.zipIdx.filter fun t => t.2 ≠ j).map fun t => xj - t.1
    gProd numTerms * inv (gProd denTerms)
  gInnerProductF ljs evals

/-- One step of the `f_eval` fold of `kzg.rs: multi_prepare` (`.rev().try_fold(zero, ..)`):
`r_eval`, `den = (x3 − p0)·(x3 − p1)…`, `eval = div(proof_eval − r_eval, den)`,
`mul_add(acc_eval, x2, eval)`; `none` = `points[0]` missing, two equal points, or `den = 0`
(`div` is unsatisfiable). -/
def gFEvalStep (inv : F → F) (x2 x3 : F) (pe : (List F × List F) × F) (acc : Option F) : Option F :=
  match acc with
  | none => none
  | some accEval =>
    match gInterpolate inv pe.1.1 pe.1.2 x3 with
    | none => none
    | some rEval =>
      match pe.1.1 with
      | [] => none
      | p0 :: ps =>
        let den := ps.foldl (fun d pt => d * (x3 - pt)) (x3 - p0)
        if den = 0 then none else
        some (accEval * x2 + (pe.2 - rEval) * inv den)

/-- What `kzg.rs: multi_prepare` computes: the `x1`-combined evaluation sets, `f_eval`, `v` and the
accumulator. -/
structure GOpen (F : Type) where
  qEvalSets : List (List F)
  fEval : F
  v : F
  acc : Acc F VBase

/-- The body of `kzg.rs: multi_prepare` after `construct_intermediate_sets`: `groups[i]` = the
point values of set `i` and, for every commitment opened at exactly these points (commitment-map
order), its MSM and its evaluations in the order of the points. `qEvalsOnX3` = the scalars read
from the proof after `x3` (one per set). Result: the accumulator `(π, C − v·G + x3·π)`. -/
def gPrepareGroups (inv : F → F) (groups : List (List F × List (GMsm F × List F)))
    (qEvalsOnX3 : List F) (x1 x2 x3 x4 : F) : Option (GOpen F) :=
  let nb := (groups.map fun g => g.2.length).foldl max 0
  let powersX1 := gPowers x1 nb
  let qComs := groups.map fun g => gMsmInnerProduct (g.2.map (·.1)) powersX1
  match groups.mapM (fun g => gEvalsInnerProduct (g.2.map (·.2)) powersX1) with
  | none => none
  | some qEvalSets =>
    if qEvalsOnX3.length ≠ groups.length then none else
    match (((groups.map (·.1)).zip qEvalSets).zip qEvalsOnX3).foldr (gFEvalStep inv x2 x3) (some 0) with
    | none => none
    | some fEval =>
      let powersX4 := gPowers x4 (qComs.length + 1)
      let finalCom := gMsmInnerProduct (qComs ++ [fromTerm 1 VBase.f]) powersX4
      match gInnerProductF (qEvalsOnX3 ++ [fEval]) powersX4 with
      | none => none
      | some v =>
        let piMsm : GMsm F := fromTerm 1 VBase.pi
        let scaledPi := piMsm.scale x3
        some { qEvalSets := qEvalSets, fEval := fEval, v := v,
               acc := { lhs := piMsm, rhs := (finalCom.addMsm (fromFixedTerm v "-G")).addMsm scaledPi } }

/-- `vanishing.rs: PartiallyEvaluated::verify`: `h_commitment = from_term(1, h[0])`, then
`acc = acc · splitting_factor; add_term(acc, h[j])`. -/
def hCommitment (sf : F) (nPieces : Nat) : GMsm F :=
  ((List.range nPieces).drop 1).foldl (fun (st : GMsm F × F) j =>
    let acc := st.2 * sf
    (addTerm st.1 acc (VBase.hPiece j), acc)) (fromTerm 1 (VBase.hPiece 0), 1) |>.1

/-- Names of the fixed bases (`verifier/mod.rs: fixed_commitment_name`, `perm_commitment_name`). -/
structure Names where
  fixed : Nat → String
  perm : Nat → String

/-- The `AssignedMsm` a `VerifierQuery` carries for a commitment (`VerifierQuery::new`,
`new_fixed`, `new_from_msm`). -/
def comMsmOf (names : Names) (hMsm : GMsm F) : Com → GMsm F
  | .fixed c => fromFixedTerm 1 (names.fixed c)
  | .permCommon k => fromFixedTerm 1 (names.perm k)
  | .h => hMsm
  | c => fromTerm 1 (VBase.com c)

/-- `kzg.rs: multi_prepare` on symbolic queries `(commitment, rotation, eval)`: the grouping is
`MidnightZK.C14.constructIntermediateSets` (the in-circuit copy of the same algorithm, with
commitments compared as MSMs over cells and points compared as cells), `pt` gives the value of
the evaluation point of a rotation; `none` = `Err(Synthesis("repeated query"))`, a panic, or an
unsatisfiable assertion. -/
def gMultiPrepare (inv : F → F) (names : Names) (hMsm : GMsm F) (pt : Int → F)
    (queries : List (C14.Query Com Int F)) (qEvalsOnX3 : List F) (x1 x2 x3 x4 : F) :
    Option (GOpen F) :=
  match C14.constructIntermediateSets (0 : F) queries with
  | none => none
  | some (cm, pointSets) =>
    let groups := pointSets.zipIdx.map fun ps =>
      (ps.1.map pt, (cm.filter fun d => d.setIndex = ps.2).map fun d => (comMsmOf names hMsm d.com, d.evals))
    gPrepareGroups inv groups (qEvalsOnX3.take pointSets.length) x1 x2 x3 x4

/-! ## Off-circuit side: `Accumulator::from_dual_msm` of the dual MSM of `plonk::prepare` -/

/-- What a base of the off-circuit dual MSM is, by its `CommitmentLabel`: a fixed base with a
name (`Fixed(i)`, `Permutation(i)`, `Custom("-G")`), or anything else. -/
inductive TEntry
  | var (b : VBase)
  | fixed (name : String)
deriving DecidableEq, Repr, Inhabited

/-- `*fixed_base_scalars.entry(name).or_insert(F::ZERO) += scalar` on a key-sorted list. -/
def entryAdd (k : String) (s : F) : List (String × F) → List (String × F)
  | [] => [(k, 0 + s)]
  | (k', v') :: t =>
    if k < k' then (k, 0 + s) :: (k', v') :: t
    else if k = k' then (k', v' + s) :: t
    else (k', v') :: entryAdd k s t

/-- The closure `process_msm` of `Accumulator::from_dual_msm`; `decode` = what the label/base of
a term is (`none`: the `assert_eq!` on the fixed bases fails). -/
def processMsm (decode : C14.Base → Option TEntry) (terms : List (F × C14.Base)) : Option (GMsm F) :=
  terms.foldlM (fun (m : GMsm F) t =>
    match decode t.2 with
    | none => none
    | some (.var b) => some { m with bases := m.bases ++ [b], scalars := m.scalars ++ [t.1] }
    | some (.fixed name) => some { m with fixed := entryAdd name t.1 m.fixed }) emptyMsm

/-- `Accumulator::from_dual_msm`. -/
def fromDualMsm (decode : C14.Base → Option TEntry) (d : C14.DualMSM F) : Option (Acc F VBase) := do
  let lhs ← processMsm decode d.left
  let rhs ← processMsm decode d.right
  pure { lhs := lhs, rhs := rhs }

/-- A table of commitment objects (`Base.com i` = entry `i`); `f_com`, `π`, `-G` are fixed. -/
def decodeOf (tbl : List TEntry) : C14.Base → Option TEntry
  | .com i => tbl[i]?
  | .f => some (.var .f)
  | .pi => some (.var .pi)
  | .negG => some (.fixed "-G")

/-- `CommitmentReference::as_terms` of the commitment of a query, as terms over the table:
a plain commitment is `[(1, C)]`, the quotient commitment (`Chopped`) is
`[(1, h_0), (sf, h_1), (sf², h_2), …]` with `sf = x^(n−1)` (`MidnightZK.C14.asTerms`). -/
def offTerms (names : Names) (tbl : List TEntry) (sf : F) (nPieces : Nat) : Com → List (F × C14.Base)
  | .fixed c => [(1, .com (tbl.idxOf (TEntry.fixed (names.fixed c))))]
  | .permCommon k => [(1, .com (tbl.idxOf (TEntry.fixed (names.perm k))))]
  | .h => ((List.range nPieces).foldl (fun (st : List (F × C14.Base) × F) j =>
      (st.1 ++ [(st.2, C14.Base.com (tbl.idxOf (TEntry.var (.hPiece j))))], st.2 * sf)) ([], 1)).1
  | c => [(1, .com (tbl.idxOf (TEntry.var (.com c))))]

/-- The table used by the model: every commitment of the queries, then the quotient pieces. -/
def tableOf (names : Names) (coms : List Com) (nPieces : Nat) : List TEntry :=
  (coms.filterMap fun c =>
    match c with
    | .fixed i => some (TEntry.fixed (names.fixed i))
    | .permCommon k => some (TEntry.fixed (names.perm k))
    | .h => none
    | c => some (TEntry.var (.com c))) ++
  (List.range nPieces).map fun j => TEntry.var (.hPiece j)

/-- The off-circuit accumulator: `Accumulator::from_dual_msm(plonk::prepare(..))`, i.e.
`MidnightZK.C14.prepareGroups` on the same grouped queries, then `from_dual_msm`. -/
def offMultiPrepare (inv : F → F) (names : Names) (sf : F) (nPieces : Nat) (pt : Int → F)
    (queries : List (C14.Query Com Int F)) (qEvalsOnX3 : List F) (x1 x2 x3 x4 : F) :
    Option (Acc F VBase) :=
  match C14.constructIntermediateSets (0 : F) queries with
  | none => none
  | some (cm, pointSets) =>
    let tbl := tableOf names (cm.map (·.com)) nPieces
    let groups := pointSets.zipIdx.map fun ps =>
      (ps.1.map pt, (cm.filter fun d => d.setIndex = ps.2).map fun d =>
        (offTerms names tbl sf nPieces d.com, d.evals))
    match C14.prepareGroups inv groups { hasF := true, qEvals := qEvalsOnX3, hasPi := true } x1 x2 x3 x4 with
    | .ok d => fromDualMsm (decodeOf tbl) d
    | .error _ => none

end

end MidnightZK.C20.V
