import MidnightZK.Model.C20.Verify
import MidnightZK.Model.C20.MultiOpen
import MidnightZK.Model.C20.MultiOpenValue
/-!
# `VerifierGadget::prepare` from the transcript scalars to the accumulator (executable model)

Composition of `Model/C20/Verify.lean` (identities, `expected_h_eval`) and
`Model/C20/MultiOpen.lean` (multi-opening, accumulator) along
`verifier_gadget.rs: verify_algebraic_constraints`: the recorded scalar stream (every scalar read
from the proof, every squeezed challenge) is labelled with the gadget's own schedule
(`gadgetSchedule`), the evaluation structures are rebuilt as the `evaluate` functions of
`permutation.rs` / `lookup.rs` / `trash.rs` build them, the queries are chained in the order of
the code, and `kzg::multi_prepare` produces the accumulator.

`offRun` is the same pipeline for the off-circuit verifier out of the existing models:
`MidnightZK.C02.Label` / `MidnightZK.C02.Ids.verifyIds` (labelled with
`MidnightZK.C01.verifierSchedule`), `MidnightZK.C14.prepareGroups`, then
`Accumulator::from_dual_msm`.

The identity part computes on canonical naturals modulo `f.p`; the multi-opening part on any
scalar type `F` reached through `toF` (the driver uses `Zn f.p`).
-/
namespace MidnightZK.C20.V
open MidnightZK MidnightZK.C01 MidnightZK.C02 MidnightZK.C02.Ids

/-- Challenges of `parse_trace` and `x` (the gadget squeezes no user challenge). -/
def gChallengesOfTags (get : Tag → Nat) : Challenges :=
  { theta := get .theta, beta := get .beta, gamma := get .gamma, trash := get .trashCh,
    y := get .y, x := get .x, user := [] }

/-- `advice_evals`, `permutation::Committed::evaluate` (eval, next eval, last eval `if iter.len() > 0`),
`lookup::Committed::evaluate`, `trash::Committed::evaluate`. -/
def gProofEvalsOfTags (cs : VCS) (get : Tag → Nat) : ProofEvals :=
  let sets := numChunks cs.permCols.length (cs.degree - 2)
  { advice := (List.range cs.adviceQueries.length).map fun q => get (.adviceEval 0 q),
    inst := [],
    permSets := (List.range sets).map fun s =>
      { eval := get (.permEval 0 s 0), next := get (.permEval 0 s 1),
        last := if sets - (s + 1) > 0 then some (get (.permEval 0 s 2)) else none },
    lookups := (List.range cs.lookups.length).map fun l =>
      { product := get (.lookupEval 0 l 0), productNext := get (.lookupEval 0 l 1),
        permutedInput := get (.lookupEval 0 l 2), permutedInputInv := get (.lookupEval 0 l 3),
        permutedTable := get (.lookupEval 0 l 4) },
    trash := (List.range cs.trash.length).map fun t => get (.trashEval 0 t) }

/-- `fixed_evals` and `evaluate_permutation_common`. -/
def gCommonEvalsOfTags (cs : VCS) (get : Tag → Nat) : CommonEvals :=
  { fixed := (List.range cs.fixedQueries.length).map fun q => get (.fixedEval q),
    permCommon := (List.range cs.permCols.length).map fun k => get (.permCommonEval k) }

/-- The evaluation each query of the chain at the end of `verify_algebraic_constraints` carries,
in the order of `gadgetQueries` (= `MidnightZK.C01.verifierQueries`): committed instance
evaluations, advice evaluations, `permutation::Evaluated::queries`, `lookup::Evaluated::queries`
(product, input, table, input at `ω⁻¹x`, product at `ωx`), trash, fixed, σ polynomials,
`expected_h_eval`, `random_eval`. -/
def queryEvals (sh : Shape) (nCommitted : Nat) (get : Tag → Nat) (instEvals adviceEvals fixedEvals : List Nat)
    (h : Nat) : List Nat :=
  let sets := numChunks sh.permCols (sh.degree - 2)
  (sh.instanceQueries.zipIdx.filterMap fun (q, qi) =>
    if q.1 < nCommitted then some (instEvals.getD qi 0) else none) ++
  (List.range sh.adviceQueries.length).map (fun qi => adviceEvals.getD qi 0) ++
  ((List.range sets).flatMap fun s => [get (.permEval 0 s 0), get (.permEval 0 s 1)]) ++
  (((List.range sets).reverse.drop 1).map fun s => get (.permEval 0 s 2)) ++
  ((List.range sh.numLookups).flatMap fun l =>
    [get (.lookupEval 0 l 0), get (.lookupEval 0 l 2), get (.lookupEval 0 l 4),
     get (.lookupEval 0 l 3), get (.lookupEval 0 l 1)]) ++
  (List.range sh.numTrash).map (fun t => get (.trashEval 0 t)) ++
  (List.range sh.fixedQueries.length).map (fun qi => fixedEvals.getD qi 0) ++
  (List.range sh.permCols).map (fun k => get (.permCommonEval k)) ++
  [h, get .randomEval]

/-- The scalars read by `multi_prepare` after `x3`, in order. -/
def qEvalsOfStream (m : List (Tag × Nat)) : List Nat :=
  m.filterMap fun tv => match tv.1 with | .qEval _ => some tv.2 | _ => none

section
variable {F : Type} [Zero F] [One F] [Add F] [Sub F] [Neg F] [Mul F] [DecidableEq F]

/-- Queries with symbolic points and evaluations in `F`. -/
def mkQueries (toF : Nat → F) (qs : List (Com × Int)) (evals : List Nat) : List (C14.Query Com Int F) :=
  (qs.zip evals).map fun ce => { com := ce.1.1, point := ce.1.2, eval := toF ce.2 }

/-- The multi-opening inputs shared by the in-circuit and the off-circuit pipeline. -/
structure MOInput (F : Type) where
  queries : List (C14.Query Com Int F)
  qEvals : List F
  x1 : F
  x2 : F
  x3 : F
  x4 : F

def moInput (toF : Nat → F) (sh : Shape) (nCommitted : Nat) (m : List (Tag × Nat))
    (instEvals adviceEvals fixedEvals : List Nat) (h : Nat) : MOInput F :=
  let get := Label.getTag m
  { queries := mkQueries toF (gadgetQueries sh nCommitted)
      (queryEvals sh nCommitted get instEvals adviceEvals fixedEvals h),
    qEvals := (qEvalsOfStream m).map toF,
    x1 := toF (get .x1), x2 := toF (get .x2), x3 := toF (get .x3), x4 := toF (get .x4) }

/-- `VerifierGadget::prepare` on one proof: the values the gadget computes and its accumulator.
`none`: schedule mismatch, panic, synthesis error or unsatisfiable assertion. -/
def gRun (toF : Nat → F) (inv : F → F) (f : Fld) (names : Names) (sh : Shape) (cs : VCS) (nCommitted : Nat)
    (plain : List (List Nat)) (stream : List (Bool × Nat)) : Option (GFolded × GOpen F) :=
  match Label.label (gScalarEvents sh nCommitted (plain.map List.length)) stream with
  | none => none
  | some m =>
    let get := Label.getTag m
    let ch := gChallengesOfTags get
    let com := gCommonEvalsOfTags cs get
    let ev := gProofEvalsOfTags cs get
    match gVerifyIds f cs nCommitted plain (fun qi => get (.instEval 0 qi)) com ch ev with
    | none => none
    | some r =>
      let inp : MOInput F := moInput toF sh nCommitted m r.instEvals ev.advice com.fixed r.h
      -- `x_next = x·ω`, `x_prev = x·ω⁻¹`, `x_last = x·(ω⁻¹)^(bf+1)` (`mul_by_constant`)
      let pt := fun (rot : Int) => toF (rotateOmega f cs.k ch.x rot)
      let hMsm := hCommitment (toF r.splittingFactor) (sh.degree - 1)
      (gMultiPrepare inv names hMsm pt inp.queries inp.qEvals inp.x1 inp.x2 inp.x3 inp.x4).map fun a => (r, a)

/-- The off-circuit verifier on the same proof, out of the C01/C02/C14 models, followed by
`Accumulator::from_dual_msm`. -/
def offRun (toF : Nat → F) (inv : F → F) (f : Fld) (names : Names) (sh : Shape) (cs : VCS) (nCommitted : Nat)
    (plain : List (List Nat)) (stream : List (Bool × Nat)) : Option (Folded × Acc F VBase) :=
  let cfg : Cfg := { nProofs := 1, nCommitted := nCommitted, lens := [plain.map List.length] }
  match Label.label (Label.scalarEvents sh cfg) stream with
  | none => none
  | some m =>
    let get := Label.getTag m
    let ch := Label.challengesOfTags sh.challengePhase.length get
    let xn := xnOf f.p cs.k ch.x
    let maxLen := (plain.map List.length).foldl max 0
    let ev := Label.proofEvalsOfTags f cs nCommitted get ch.x xn maxLen plain 0
    let com := Label.commonEvalsOfTags cs get
    let r := verifyIds f cs com ch [ev]
    let inp : MOInput F := moInput toF sh nCommitted m ev.inst ev.advice com.fixed r.h
    let pt := fun (rot : Int) => toF (rotateOmega f cs.k ch.x rot)
    -- `as_terms(Some(x))` of the chopped quotient commitment: `x^(n−1)`
    let sf := toF (powMod ch.x (2 ^ cs.k - 1) f.p)
    (offMultiPrepare inv names sf (sh.degree - 1) pt inp.queries inp.qEvals inp.x1 inp.x2 inp.x3 inp.x4).map
      fun a => (r, a)

/-- The off-circuit verifier as `offRun`, but with `kzg::multi_prepare` grouping the queries by the
VALUE of their point (as `proofs/src/poly/kzg/utils.rs` does), together with the two hypotheses of
`C20.in_circuit_acc_eq_off_circuit` evaluated on this proof: `inj` — different rotations among the
queries give different points; `wf` — the grouping is well formed (`groupingWF`). -/
def offRunV (toF : Nat → F) (inv : F → F) (f : Fld) (names : Names) (sh : Shape) (cs : VCS) (nCommitted : Nat)
    (plain : List (List Nat)) (stream : List (Bool × Nat)) : Option (Acc F VBase × Bool × Bool) :=
  let cfg : Cfg := { nProofs := 1, nCommitted := nCommitted, lens := [plain.map List.length] }
  match Label.label (Label.scalarEvents sh cfg) stream with
  | none => none
  | some m =>
    let get := Label.getTag m
    let ch := Label.challengesOfTags sh.challengePhase.length get
    let xn := xnOf f.p cs.k ch.x
    let maxLen := (plain.map List.length).foldl max 0
    let ev := Label.proofEvalsOfTags f cs nCommitted get ch.x xn maxLen plain 0
    let com := Label.commonEvalsOfTags cs get
    let r := verifyIds f cs com ch [ev]
    let inp : MOInput F := moInput toF sh nCommitted m ev.inst ev.advice com.fixed r.h
    let pt := fun (rot : Int) => toF (rotateOmega f cs.k ch.x rot)
    let sf := toF (powMod ch.x (2 ^ cs.k - 1) f.p)
    let inj := inp.queries.all fun q => inp.queries.all fun q' =>
      decide (pt q.point ≠ pt q'.point) || decide (q.point = q'.point)
    let wf := match C14.constructIntermediateSets (0 : F) inp.queries with
      | some (cm, ps) => groupingWF cm ps
      | none => true
    (offMultiPrepareV inv names sf (sh.degree - 1) (inp.queries.map (queryAt pt)) inp.qEvals
      inp.x1 inp.x2 inp.x3 inp.x4).map fun a => (a, inj, wf)

end

end MidnightZK.C20.V
