import MidnightZK.Model.C02.Identities
import MidnightZK.Model.C02.Label
import MidnightZK.Model.C20.Gadget
/-!
# The arithmetic the in-circuit verifier performs on the evaluations (executable model)

Mirrors, at the level of the VALUES the assigned cells carry, what
`circuits/src/verifier/verifier_gadget.rs: verify_algebraic_constraints` computes between reading
the evaluations and calling `kzg::multi_prepare`:

* `utils.rs: evaluate_lagrange_polynomials`, `inner_product`, `sum`, `mul_add` — `lagrangePolys`,
  `gInnerProduct`, `linComb`, `mulAdd`;
* the `instance_evals` block (plain instance columns as `inner_product(instances, l_i_s[..])`) —
  `gInstanceEvals`;
* `expressions/mod.rs: eval_expression`, `compress_expressions` — `gEvalExpr`, `gCompress`;
* `expressions/permutation.rs: permutation_expressions` — `gPermIds`;
* `expressions/lookup.rs: lookup_expressions` — `gLookupIdsOne`;
* `expressions/trash.rs: trash_expressions` — `gTrashId`;
* `vanishing.rs: PartiallyEvaluated::verify` (`expected_h_eval` by `try_reduce` + `div`) and the
  `splitting_factor` / `xn` lines — `gExpectedH`, `gVerifyIds`.

The chip operations are modelled by their documented value semantics
(`instructions/arithmetic.rs`: `add_and_mul` = `a·x + b·y + c·z + k + m·x·y`,
`linear_combination`, `mul(x, y, Some(k))` = `k·x·y`, `div(x, y)` = `x·y⁻¹`, `pow`); the order of
the operations is the order of the Rust code (so `l_0·(1 − z)` is computed as `l_0 − l_0·z`, the
`y`-fold starts from the first identity instead of zero, …). Field elements are canonical
naturals below the modulus, with the operations of `MidnightZK.C02.Ids` (imported read-only,
together with its data types: this is the off-circuit reference the theorems compare with).
`none` = the Rust code panics or returns `Err` at synthesis (`unwrap` of a missing last evaluation,
`Expression::Challenge`, `try_reduce` of no expression).
-/
namespace MidnightZK.C20.V
open MidnightZK MidnightZK.C01 MidnightZK.C02 MidnightZK.C02.Ids

/-- `-F::ONE`. -/
def mone (p : Nat) : Nat := fneg p 1

/-- `ArithInstructions::linear_combination(&[(c_i, x_i)], k)` = `k + Σ c_i·x_i`. -/
def linComb (p : Nat) (terms : List (Nat × Nat)) (k : Nat) : Nat :=
  terms.foldl (fun acc t => fadd p acc (fmul p t.1 t.2)) (k % p)

/-- `ArithInstructions::add_and_mul((a, x), (b, y), (c, z), k, m)` = `a·x + b·y + c·z + k + m·x·y`
(`instructions/arithmetic.rs`: `p = mul(x, y)`, then `linear_combination`). -/
def addAndMul (p : Nat) (ax bY cz : Nat × Nat) (k m : Nat) : Nat :=
  linComb p [ax, bY, cz, (m, fmul p ax.2 bY.2)] k

/-- `utils.rs: mul_add(x, y, z)` = `x·y + z`. -/
def mulAdd (p x y z : Nat) : Nat := addAndMul p (0, x) (0, y) (1, z) 0 1

/-- `ArithInstructions::div(x, y)` (value; the circuit is unsatisfiable for `y = 0`). -/
def cdiv (p x y : Nat) : Nat := fmul p x (invMod y p)

/-- `ArithInstructions::mul(x, y, Some(k))`. -/
def cmulK (p x y k : Nat) : Nat := fmul p (k % p) (fmul p x y)

/-- One value of `utils.rs: evaluate_lagrange_polynomials(n = 2^k, w = omega, i, x)`:
`i < 0 ↦ n + i`, `wi = w^i`, `((x^n − 1) / (x − wi)) · (wi · n⁻¹)`. -/
def lagrangeAt (f : Fld) (k : Nat) (x : Nat) (i : Int) : Nat :=
  let p := f.p
  let n := 2 ^ k
  let nInv := invMod (n % p) p
  let xn := powMod x n p
  let xnMinusOne := fadd p xn (mone p)
  let i' := if i < 0 then (n : Int) + i else i
  let wi := powMod (omegaOf f k) i'.toNat p
  let xMinusWi := fadd p x (fneg p wi)
  fmul p (cdiv p xnMinusOne xMinusWi) (fmul p wi nInv)

/-- `utils.rs: evaluate_lagrange_polynomials` over a range of indices. -/
def lagrangePolys (f : Fld) (k : Nat) (x : Nat) (is : List Int) : List Nat :=
  is.map (lagrangeAt f k x)

/-- `utils.rs: inner_product(terms1, terms2)`: `x0·y0`, then `mul_add(xi, yi, acc)`;
`none` = "inner_product received an empty input". -/
def gInnerProduct (p : Nat) : List Nat → List Nat → Option Nat
  | x0 :: xs, y0 :: ys => some ((xs.zip ys).foldl (fun acc xy => mulAdd p xy.1 xy.2 acc) (fmul p x0 y0))
  | _, _ => none

/-- `utils.rs: sum(terms)` = `linear_combination(&[(1, t)], 0)`. -/
def gSum (p : Nat) (terms : List Nat) : Nat := linComb p (terms.map fun t => (1, t)) 0

/-- The `l_evals` block of `verify_algebraic_constraints`: range `-(bf+1)..1`,
`l_last = l_evals[0]`, `l_blind = sum(l_evals[1..=bf])`, `l_0 = l_evals[1+bf]`. -/
def gLagrange (f : Fld) (cs : VCS) (x : Nat) : Lagrange :=
  let bf := cs.blinding
  let lEvals := lagrangePolys f cs.k x (intRange (-((bf + 1 : Nat) : Int)) (bf + 2))
  { lLast := lEvals.getD 0 0,
    lBlind := gSum f.p ((lEvals.drop 1).take bf),
    l0 := lEvals.getD (1 + bf) 0 }

/-- `instance_queries.iter().map(|(_, rot)| rot.0).min().unwrap_or(0)` and `.max().unwrap_or(0)`. -/
def rotMinMax : List Int → Int × Int
  | [] => (0, 0)
  | r0 :: rs => (rs.foldl min r0, rs.foldl max r0)

/-- The `instance_evals` block: `min_rotation` / `max_rotation` over the instance queries
(`unwrap_or(0)` for a constraint system without instance queries),
`l_i_s = evaluate_lagrange_polynomials((-max_rotation)..(max_len + |min_rotation|))`, then per
query either a scalar read from the proof (`committedEval queryIndex`), the constant zero for an
instance column without values (`assign_fixed(ZERO)`), or
`inner_product(instances, l_i_s[offset..offset + len])`, `offset = max_rotation − rotation`
(`none`: the slice is out of range — excluded by `gadget_instance_evals_total`). -/
def gInstanceEvals (f : Fld) (cs : VCS) (nCommitted : Nat) (x : Nat) (plain : List (List Nat))
    (committedEval : Nat → Nat) : Option (List Nat) :=
  let mm := rotMinMax (cs.instanceQueries.map (·.2))
  let minRot := mm.1
  let maxRot := mm.2
  let maxLen := (plain.map List.length).foldl max 0
  let hi : Int := (maxLen : Int) + (minRot.natAbs : Int)
  let lis := lagrangePolys f cs.k x (intRange (-maxRot) (hi - (-maxRot)).toNat)
  cs.instanceQueries.zipIdx.mapM fun (q, qi) =>
    if q.1 < nCommitted then some (committedEval qi)
    else
      let inst := plain.getD (q.1 - nCommitted) []
      if inst.isEmpty then some 0
      else
        let offset := (maxRot - q.2).toNat
        gInnerProduct f.p inst ((lis.drop offset).take inst.length)

/-- The instance block as it stood before the repair `fix: the in-circuit verifier handles an inner
circuit without instance queries` (`.min().unwrap()` / `.max().unwrap()`): `none` = panic. Kept
for the historical witness `pinned_gadget_needs_instance_query`. -/
def pinnedRotMinMax : List Int → Option (Int × Int)
  | [] => none
  | r0 :: rs => some (rs.foldl min r0, rs.foldl max r0)

/-- `expressions/mod.rs: eval_expression` (`Expression::Challenge` panics: "We do not suport
multi-phase yet"; selectors have been replaced by fixed columns). -/
def gEvalExpr (e : Env) : Expr → Option Nat
  | .const c => some (c % e.p)
  | .fixed col rot => some (e.fixed.getD (queryIndex e.cs.fixedQueries col rot) 0)
  | .advice col rot => some (e.advice.getD (queryIndex e.cs.adviceQueries col rot) 0)
  | .inst col rot => some (e.inst.getD (queryIndex e.cs.instanceQueries col rot) 0)
  | .challenge _ => none
  | .neg a => (gEvalExpr e a).map (fneg e.p)
  | .sum a b => do
    let va ← gEvalExpr e a
    let vb ← gEvalExpr e b
    pure (fadd e.p va vb)
  | .prod a b => do
    let va ← gEvalExpr e a
    let vb ← gEvalExpr e b
    pure (fmul e.p va vb)
  | .scaled a c => (gEvalExpr e a).map fun va => fmul e.p va (c % e.p)

/-- `utils.rs: try_reduce(values, |acc, v| mul_add(acc, r, v))`; `none` for no value. -/
def tryReduce (p r : Nat) : List Nat → Option Nat
  | [] => none
  | v :: vs => some (vs.foldl (fun acc w => mulAdd p acc r w) v)

/-- `expressions/mod.rs: compress_expressions`. -/
def gCompress (e : Env) (r : Nat) (es : List Expr) : Option Nat :=
  (es.mapM (gEvalExpr e)).bind (tryReduce e.p r)

/-- Gate identities: `for gate in cs.gates() { for poly in gate.polynomials() { .. } }`. -/
def gGateIds (e : Env) : Option (List Nat) :=
  (e.cs.gates.flatMap id).mapM (gEvalExpr e)

/-- `left` of the product rule: per column `aux = mul(beta, permutation_eval)`,
`linear_combination([(1, aux), (1, gamma), (1, eval)], 0)`, `left = mul(left, aux)`. -/
def gPermLeft (e : Env) (beta gamma next : Nat) (cols : List (ColKind × Nat)) (pevals : List Nat) : Nat :=
  (cols.zip pevals).foldl (fun left cp =>
    fmul e.p left (linComb e.p [(1, fmul e.p beta cp.2), (1, gamma), (1, colEval e cp.1)] 0)) next

/-- `right` of the product rule: `current_delta = mul(beta, x, Some(DELTA^(chunk_index·chunk_len)))`,
per column `linear_combination([(1, eval), (1, current_delta), (1, gamma)], 0)`,
`right = mul(right, aux)`, `current_delta = mul_by_constant(current_delta, DELTA)`. -/
def gPermRight (f : Fld) (e : Env) (beta gamma x : Nat) (chunkIndex chunkLen : Nat) (cur : Nat)
    (cols : List (ColKind × Nat)) : Nat :=
  (cols.foldl (fun (st : Nat × Nat) c =>
    (fmul e.p st.1 (linComb e.p [(1, colEval e c), (1, st.2), (1, gamma)] 0), fmul e.p st.2 (f.delta % e.p)))
    (cur, cmulK e.p beta x (powMod f.delta (chunkIndex * chunkLen) e.p))).1

/-- `expressions/permutation.rs: permutation_expressions`; `none` = the `unwrap()` of a missing
`permutation_product_last_eval`. -/
def gPermIds (f : Fld) (e : Env) (permCommon : List Nat) (sets : List PermSet) (L : Lagrange)
    (beta gamma x : Nat) : Option (List Nat) :=
  let p := e.p
  let chunkLen := e.cs.degree - 2
  -- l_0 * (1 - z_0) computed as l_0 - l_0 * z_0
  let id1 := sets.head?.map fun s => addAndMul p (1, L.l0) (0, s.eval) (0, L.l0) 0 (mone p)
  -- l_last * (z_l^2 - z_l)
  let id2 := sets.getLast?.map fun s =>
    fmul p L.lLast (addAndMul p (mone p, s.eval) (0, s.eval) (0, s.eval) 0 1)
  -- l_0 * (z_i - z_{i-1}(ω^last x))
  let ids3 := ((sets.drop 1).zip sets).mapM fun sp =>
    sp.2.last.map fun zPrev => fmul p L.l0 (fsub p sp.1.eval zPrev)
  let ids4 := ((sets.zip (chunks chunkLen e.cs.permCols)).zip (chunks chunkLen permCommon)).zipIdx.map
    fun (scp, ci) =>
      let left := gPermLeft e beta gamma scp.1.1.next scp.1.2 scp.2
      let right := gPermRight f e beta gamma x ci chunkLen scp.1.1.eval scp.1.2
      fmul p (fsub p left right) (linComb p [(mone p, L.lLast), (mone p, L.lBlind)] 1)
  ids3.map fun ids3 => id1.toList ++ id2.toList ++ ids3 ++ ids4

/-- `expressions/lookup.rs: lookup_expressions` (five identities). -/
def gLookupIdsOne (e : Env) (L : Lagrange) (theta beta gamma : Nat) (ev : LookupEvals)
    (arg : List Expr × List Expr) : Option (List Nat) := do
  let p := e.p
  let activeRows := linComb p [(mone p, L.lLast), (mone p, L.lBlind)] 1
  let id1 := addAndMul p (1, L.l0) (0, ev.product) (0, L.l0) 0 (mone p)
  let id2 := fmul p L.lLast (addAndMul p (mone p, ev.product) (0, ev.product) (0, ev.product) 0 1)
  let left := fmul p ev.productNext (fmul p (fadd p ev.permutedInput beta) (fadd p ev.permutedTable gamma))
  let c1 ← gCompress e theta arg.1
  let c2 ← gCompress e theta arg.2
  let right := fmul p ev.product (fmul p (fadd p c1 beta) (fadd p c2 gamma))
  let id3 := fmul p (fsub p left right) activeRows
  let inputMinusTable := fsub p ev.permutedInput ev.permutedTable
  let id4 := fmul p L.l0 inputMinusTable
  let id5 := fmul p (fmul p inputMinusTable (fsub p ev.permutedInput ev.permutedInputInv)) activeRows
  pure [id1, id2, id3, id4, id5]

/-- The `cs.lookups().iter().enumerate().map(..)` block. -/
def gLookupIds (e : Env) (L : Lagrange) (theta beta gamma : Nat) (evs : List LookupEvals) : Option (List Nat) :=
  ((evs.zip e.cs.lookups).mapM fun ea => gLookupIdsOne e L theta beta gamma ea.1 ea.2).map List.flatten

/-- `expressions/trash.rs: trash_expressions`: `compressed − trash + q·trash` by one
`add_and_mul((0, q), (−1, trash), (1, compressed), 0, 1)`. -/
def gTrashId (e : Env) (trashCh : Nat) (trashEval : Nat) (arg : Expr × List Expr) : Option Nat := do
  let compressed ← gCompress e trashCh arg.2
  let q ← gEvalExpr e arg.1
  pure (addAndMul e.p (0, q) (mone e.p, trashEval) (1, compressed) 0 1)

def gTrashIds (e : Env) (trashCh : Nat) (evs : List Nat) : Option (List Nat) :=
  (evs.zip e.cs.trash).mapM fun ea => gTrashId e trashCh ea.1 ea.2

/-- `vanishing.rs: PartiallyEvaluated::verify`: `num = try_reduce(expressions, h·y + v)`,
`den = add_constant(xn, −1)`, `div(num, den)`. -/
def gExpectedH (p y xn : Nat) (ids : List Nat) : Option Nat :=
  (tryReduce p y ids).map fun num => cdiv p num (fadd p xn (mone p))

/-- What the in-circuit verifier has computed when it reaches `kzg::multi_prepare`. -/
structure GFolded where
  instEvals : List Nat
  lag : Lagrange
  ids : List Nat
  /-- `splitting_factor = x^(n−1)` -/
  splittingFactor : Nat
  xn : Nat
  h : Nat
deriving Repr, Inhabited

/-- The part of `verify_algebraic_constraints` between the reads and `multi_prepare`, for the
single proof of the gadget. `ev.inst` is ignored (the instance evaluations are computed here). -/
def gVerifyIds (f : Fld) (cs : VCS) (nCommitted : Nat) (plain : List (List Nat)) (committedEval : Nat → Nat)
    (com : CommonEvals) (ch : Challenges) (ev : ProofEvals) : Option GFolded := do
  let p := f.p
  let instEvals ← gInstanceEvals f cs nCommitted ch.x plain committedEval
  let L := gLagrange f cs ch.x
  let e : Env := { p := p, cs := cs, fixed := com.fixed, advice := ev.advice, inst := instEvals, user := ch.user }
  let g ← gGateIds e
  let pm ← gPermIds f e com.permCommon ev.permSets L ch.beta ch.gamma ch.x
  let lk ← gLookupIds e L ch.theta ch.beta ch.gamma ev.lookups
  let tr ← gTrashIds e ch.trash ev.trash
  let ids := g ++ pm ++ lk ++ tr
  -- `pow(x, (1 << k) - 1)`, `xn = mul(x, splitting_factor)`
  let sf := powMod ch.x (2 ^ cs.k - 1) p
  let xn := fmul p ch.x sf
  let h ← gExpectedH p ch.y xn ids
  pure { instEvals := instEvals, lag := L, ids := ids, splittingFactor := sf, xn := xn, h := h }

/-! ## Labelling the scalar stream with the gadget's own schedule -/

/-- Scalar events of `gadgetSchedule` (`read_scalar` / `squeeze_challenge`), as in
`MidnightZK.C02.Label.scalarEvents` for the off-circuit verifier. -/
def gScalarEvents (sh : Shape) (nCommitted : Nat) (lens : List Nat) : List (Bool × Tag) :=
  (gadgetSchedule sh nCommitted lens).filterMap fun e =>
    match e.kind, e.ty with
    | .squeeze, _ => some (true, e.tag)
    | .elem, .F => some (false, e.tag)
    | _, _ => none

/-- Point events of `gadgetSchedule` (`read_point`), in order. -/
def gPointTags (sh : Shape) (nCommitted : Nat) (lens : List Nat) : List Tag :=
  (gadgetSchedule sh nCommitted lens).filterMap fun e =>
    match e.kind, e.ty with
    | .elem, .G => some e.tag
    | _, _ => none

end MidnightZK.C20.V
