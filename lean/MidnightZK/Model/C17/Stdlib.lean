import MidnightZK.Model.C17.Keys
/-!
Byte-level model of the key wrappers of `zk_stdlib/src/lib.rs`: `ZkStdLibArch::{write,read}`
(version word + bincode `standard()` image: one byte per `bool`, one per `u8`),
`MidnightVK::{write,read}` and `MidnightPK::{write,read}`. The constraint system the readers
configure is a function of the architecture (`ZkStdLib::configure`), represented by `shapeOf`.
Import-free.
-/
namespace MidnightZK.C17

/-- `ZkStdLibArch`: the boolean fields in declaration order, then `nr_pow2range_cols`. -/
structure Arch where
  flags : List Bool
  pow2 : Nat
  deriving DecidableEq, Repr

def boolByte (b : Bool) : UInt8 := if b then 1 else 0

/-- `ZkStdLibArch::write` -/
def writeArch (ver : Nat) (a : Arch) : Bytes := le32 ver ++ a.flags.map boolByte ++ [byteOf a.pow2]

/-- bincode's `bool` decoder: `0`, `1`, anything else is an error. -/
def readFlags : Nat → Bytes → Except Err (List Bool × Bytes)
  | 0, bs => .ok ([], bs)
  | _ + 1, [] => .error .invalid     -- bincode reports its own error kind for a short read
  | n + 1, b :: t =>
    if b = 0 ∨ b = 1 then
      match readFlags n t with
      | .error e => .error e
      | .ok (fs, r) => .ok ((b = 1) :: fs, r)
    else .error .invalid

/-- `ZkStdLibArch::read`: version word, the flags, the column count and its range check. -/
def readArch (ver nflags nbArith : Nat) (bs : Bytes) : Except Err (Arch × Bytes) :=
  match readExact 4 bs with
  | .error e => .error e
  | .ok (vb, r) =>
    if ofLe32 vb ≠ ver then .error .version else
    match readFlags nflags r with
    | .error e => .error e
    | .ok (fs, r1) =>
      match r1 with
      | [] => .error .invalid
      | p :: r2 => if p.toNat ≥ nbArith then .error .pow2 else .ok (⟨fs, p.toNat⟩, r2)

variable {P F : Type}

/-- The serialised part of `MidnightVK`. -/
structure MVK (P : Type) where
  arch : Arch
  maxBitLen : Nat
  nbPublicInputs : Nat
  vk : VK P
  deriving DecidableEq

/-- `MidnightVK::write` -/
def writeMVK (c : Codec P) (ver : Nat) (version : UInt8) (fmt : Format) (m : MVK P) : Bytes :=
  writeArch ver m.arch ++ ([byteOf m.maxBitLen] ++ (le32 m.nbPublicInputs ++ writeVK c version fmt m.vk))

/-- `MidnightVK::read` -/
def readMVK (c : Codec P) (ver nflags nbArith : Nat) (version : UInt8) (fmt : Format)
    (shapeOf : Arch → Shape) (bs : Bytes) : Except Err (MVK P × Bytes) :=
  match readArch ver nflags nbArith bs with
  | .error e => .error e
  | .ok (a, r1) =>
    match readExact 1 r1 with
    | .error e => .error e
    | .ok (mb, r2) =>
      match readExact 4 r2 with
      | .error e => .error e
      | .ok (nb, r3) =>
        match readVK c version fmt (shapeOf a) r3 with
        | .error e => .error e
        | .ok (vk, r4) => .ok (⟨a, (mb.getD 0 0).toNat, ofLe32 nb, vk⟩, r4)

/-- The serialised part of `MidnightPK<R>`; `R` is the relation's own data. -/
structure MPK (P F R : Type) where
  maxBitLen : Nat
  k : Nat
  relation : R
  pk : PKStored P F

/-- `MidnightPK::write` (`writeRel = Relation::write_relation`). -/
def writeMPK {R : Type} (c : Codec P) (fc : FCodec F) (writeRel : R → Bytes) (version : UInt8) (fmt : Format)
    (m : MPK P F R) : Bytes :=
  [byteOf m.maxBitLen, byteOf m.k] ++ (writeRel m.relation ++ writePK c fc version fmt m.pk)

/-- `MidnightPK::read` (`readRel = Relation::read_relation`; the constraint system is configured
from the relation that was just read: `shapeOfRel r = shape of configure(r.used_chips())`). -/
def readMPK {R : Type} (c : Codec P) (fc : FCodec F) (readRel : Bytes → Except Err (R × Bytes))
    (version : UInt8) (fmt : Format) (shapeOfRel : R → Shape) (bs : Bytes) : Except Err (MPK P F R × Bytes) :=
  match readExact 1 bs with
  | .error e => .error e
  | .ok (mb, r1) =>
    match readExact 1 r1 with
    | .error e => .error e
    | .ok (kb, r2) =>
      match readRel r2 with
      | .error e => .error e
      | .ok (rel, r3) =>
        match readPK c fc version fmt (shapeOfRel rel) r3 with
        | .error e => .error e
        | .ok (pk, r4) => .ok (⟨(mb.getD 0 0).toNat, (kb.getD 0 0).toNat, rel, pk⟩, r4)

end MidnightZK.C17
