import MidnightZK.Model.Common
import MidnightZK.Model.C12.Par
/-!
Model of `proofs/src/plonk/permutation/keygen.rs`: the copy-constraint `Assembly`
(`new`, `copy`: cycle merging with `mapping`/`aux`/`sizes`) and the construction of the
permutation polynomials (`build_pk` / `build_vk`: `omega_powers`, `deltaomega`, the
`permutations` table), each computed through `utils/arithmetic.rs: parallelize` under `t`
threads. The chunk layout of `parallelize` is `MidnightZK.C12.chunks`. Import-free.
-/
namespace MidnightZK.C17
open MidnightZK.C12 (chunks)

/-! ## `Assembly` -/

abbrev Cell := Nat × Nat

structure Assembly where
  mapping : Array (Array Cell)
  aux : Array (Array Cell)
  sizes : Array (Array Nat)
  deriving Repr

def get2 {α : Type} [Inhabited α] (a : Array (Array α)) (c : Cell) : α := (a[c.1]!)[c.2]!
def set2 {α : Type} (a : Array (Array α)) (c : Cell) (v : α) : Array (Array α) :=
  a.modify c.1 (fun col => col.set! c.2 v)

/-- `Assembly::new(n, p)` with `ncols = p.columns.len()`. -/
def Assembly.new (n ncols : Nat) : Assembly :=
  let cols : Array (Array Cell) := ((List.range ncols).map (fun i => ((List.range n).map (fun j => (i, j))).toArray)).toArray
  { mapping := cols, aux := cols, sizes := ((List.range ncols).map (fun _ => (List.replicate n 1).toArray)).toArray }

/-- The relabelling loop of `copy` (`loop { aux[i] = left; i = mapping[i]; if i == right break }`);
`fuel` = number of cells. -/
def relabel (mapping : Array (Array Cell)) (left right : Cell) : Nat → Cell → Array (Array Cell) → Array (Array Cell)
  | 0, _, aux => aux
  | fuel + 1, i, aux =>
    let aux := set2 aux i left
    let i' := get2 mapping i
    if i' = right then aux else relabel mapping left right fuel i' aux

/-- `Assembly::copy` on column positions (`none` = `BoundsFailure`). -/
def Assembly.copy (a : Assembly) (lc lr rc rr : Nat) : Option Assembly :=
  if lc ≥ a.mapping.size ∨ rc ≥ a.mapping.size then none else
  if lr ≥ (a.mapping[lc]!).size ∨ rr ≥ (a.mapping[rc]!).size then none else
  let left := get2 a.aux (lc, lr)
  let right := get2 a.aux (rc, rr)
  if left = right then some a else
  let (left, right) := if get2 a.sizes left < get2 a.sizes right then (right, left) else (left, right)
  let sizes := set2 a.sizes left (get2 a.sizes left + get2 a.sizes right)
  let cells := a.mapping.foldl (fun s c => s + c.size) 0
  let aux := relabel a.mapping left right cells right a.aux
  let tmp := get2 a.mapping (lc, lr)
  let mapping := set2 a.mapping (lc, lr) (get2 a.mapping (rc, rr))
  let mapping := set2 mapping (rc, rr) tmp
  some { mapping, aux, sizes }

def Assembly.copies (a : Assembly) : List (Nat × Nat × Nat × Nat) → Option Assembly
  | [] => some a
  | (lc, lr, rc, rr) :: t => match a.copy lc lr rc rr with
    | none => none
    | some a' => a'.copies t

/-! ## `parallelize` as a function on lists -/

/-- `parallelize(v, f)` under `t` threads: every chunk `(offset, length)` of the layout is
handed to `f` with its offset; the chunks are disjoint slices of `v`, so the result is their
concatenation in layout order whatever the execution order. -/
def parallelizeM {α : Type} (t : Nat) (v : List α) (f : List α → Nat → List α) : List α :=
  (chunks v.length t).flatMap (fun c => f ((v.drop c.1).take c.2) c.1)

section
variable {F : Type} [Mul F] [One F] [Zero F]

/-- `pow_vartime` (library routine, specified as the plain power). -/
def powN (x : F) : Nat → F
  | 0 => 1
  | n + 1 => powN x n * x

/-- The worker of `omega_powers`: `cur = ω^start; for v in chunk { *v = cur; cur *= ω }`. -/
def fillPowers (ω cur : F) : List F → List F
  | [] => []
  | _ :: t => cur :: fillPowers ω (cur * ω) t

/-- `omega_powers` of `build_pk`/`build_vk` under `t` threads. -/
def omegaPowers (t : Nat) (ω : F) (n : Nat) : List F :=
  parallelizeM t (List.replicate n (0 : F)) (fun ch start => fillPowers ω (powN ω start) ch)

/-- The worker of `deltaomega`: `cur = δ^start; for row in chunk { row *= cur; cur *= δ }`. -/
def scaleRows (δ cur : F) : List (List F) → List (List F)
  | [] => []
  | row :: t => row.map (· * cur) :: scaleRows δ (cur * δ) t

/-- `deltaomega` under `t` threads: row `i` is `omega_powers · δ^i`. -/
def deltaOmega (t : Nat) (δ : F) (omegaPowers : List F) (ncols : Nat) : List (List F) :=
  parallelizeM t (List.replicate ncols omegaPowers) (fun ch start => scaleRows δ (powN δ start) ch)

/-- `deltaomega[i][j]` (out-of-range reads as 0; the real code would panic, and never does
because `mapping` stays inside the table). -/
def lookup2 (tbl : List (List F)) (c : Cell) : F := (tbl.getD c.1 []).getD c.2 0

/-- The worker of `permutations`:
`for (x, poly) in chunk.enumerate() { i = start + x; for j { poly[j] = deltaomega[mapping(i, j)] } }`. -/
def fillPerm (mapping : Nat → Nat → Cell) (tbl : List (List F)) (ch : List (List F)) (start : Nat) : List (List F) :=
  ch.mapIdx (fun x poly => poly.mapIdx (fun j _ => lookup2 tbl (mapping (start + x) j)))

/-- `build_pk` / `build_vk` up to the `permutations` table, under `t` threads. -/
def buildPermutations (t : Nat) (ω δ : F) (n ncols : Nat) (mapping : Nat → Nat → Cell) : List (List F) :=
  let op := omegaPowers t ω n
  let tbl := deltaOmega t δ op ncols
  parallelizeM t (List.replicate ncols (List.replicate n (0 : F))) (fillPerm mapping tbl)

/-- The index-wise definition: `σ_i[j] = δ^{i'} · ω^{j'}` with `(i', j') = mapping(i, j)`. -/
def permSpec (ω δ : F) (n ncols : Nat) (mapping : Nat → Nat → Cell) : List (List F) :=
  (List.range ncols).map (fun i => (List.range n).map (fun j =>
    let c := mapping i j
    if c.1 < ncols ∧ c.2 < n then powN ω c.2 * powN δ c.1 else 0))

end

end MidnightZK.C17
