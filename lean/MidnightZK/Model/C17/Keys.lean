import MidnightZK.Model.C17.Bytes
/-!
Byte-level model of the key (de)serialisers.

* `proofs/src/utils/helpers.rs`: `SerdeFormat`, `ProcessedSerdeObject::{read,write}`,
  `byte_length`, `read_f`, `read_polynomial_vec`, `write_polynomial_slice`;
* `proofs/src/poly/mod.rs`: `Polynomial::{read,write}`;
* `proofs/src/plonk/mod.rs`: `VerifyingKey::{write,read_from_cs}`, `ProvingKey::{write,read}`;
* `proofs/src/plonk/permutation.rs`: `VerifyingKey::{write,read}`, `ProvingKey::{write,read}`.

Curve points and field elements are abstract: a `Codec` gives their compressed / raw encodings
and decoders (the element codecs themselves belong to C10/C11/C16). Import-free.
-/
namespace MidnightZK.C17

/-- `helpers.rs: enum SerdeFormat` -/
inductive Format | processed | rawBytes | rawBytesUnchecked
  deriving DecidableEq, Repr

/-- A key written in format `a` may be read in format `b` (doc of `MidnightVK::read`). -/
def Format.compat : Format → Format → Bool
  | .processed, .processed => true
  | .processed, _ => false
  | _, .processed => false
  | _, _ => true

/-- Element codec of a curve type (`helpers.rs: impl ProcessedSerdeObject for C`):
`encC = to_bytes` (compressed, `plen` bytes), `encR = to_affine().write_raw` (`2·plen` bytes),
`decC = from_bytes`, `decR = read_raw` (checked), `decU = read_raw_unchecked` (total). -/
structure Codec (P : Type) where
  plen : Nat
  encC : P → Bytes
  encR : P → Bytes
  decC : Bytes → Option P
  decR : Bytes → Option P
  decU : Bytes → P

/-- What the element codec must satisfy for keys to round-trip (established for the real
codecs by C10/C11/C16; exercised on every real commitment by the harness). -/
structure Codec.Lawful {P : Type} (c : Codec P) : Prop where
  lenC : ∀ p, (c.encC p).length = c.plen
  lenR : ∀ p, (c.encR p).length = 2 * c.plen
  rtC : ∀ p, c.decC (c.encC p) = some p
  rtR : ∀ p, c.decR (c.encR p) = some p
  rtU : ∀ p, c.decU (c.encR p) = p

variable {P : Type}

/-- `helpers.rs: byte_length` -/
def Codec.byteLen (c : Codec P) : Format → Nat
  | .processed => c.plen
  | _ => 2 * c.plen

/-- `ProcessedSerdeObject::write` -/
def Codec.enc (c : Codec P) : Format → P → Bytes
  | .processed => c.encC
  | _ => c.encR

/-- `ProcessedSerdeObject::read`: a short read is `UnexpectedEof` for the compressed and the
checked raw reader and a panic (`expect`) for the unchecked raw reader. -/
def Codec.read (c : Codec P) (fmt : Format) (bs : Bytes) : Except Err (P × Bytes) :=
  match fmt with
  | .processed =>
    match readExact c.plen bs with
    | .error e => .error e
    | .ok (ch, r) => match c.decC ch with | some p => .ok (p, r) | none => .error .point
  | .rawBytes =>
    match readExact (2 * c.plen) bs with
    | .error e => .error e
    | .ok (ch, r) => match c.decR ch with | some p => .ok (p, r) | none => .error .point
  | .rawBytesUnchecked =>
    match readExact (2 * c.plen) bs with
    | .error _ => .error .panic
    | .ok (ch, r) => .ok (c.decU ch, r)

/-- `(0..n).map(|_| Commitment::read(reader, format)).collect::<Result<_,_>>()` -/
def Codec.readMany (c : Codec P) (fmt : Format) : Nat → Bytes → Except Err (List P × Bytes)
  | 0, bs => .ok ([], bs)
  | n + 1, bs =>
    match c.read fmt bs with
    | .error e => .error e
    | .ok (p, r) =>
      match c.readMany fmt n r with
      | .error e => .error e
      | .ok (ps, r') => .ok (p :: ps, r')

def Codec.writeMany (c : Codec P) (fmt : Format) (ps : List P) : Bytes :=
  ps.flatMap (c.enc fmt)

/-! ## Verifying key -/

/-- The serialised part of `plonk::VerifyingKey` (the rest is recomputed from the circuit). -/
structure VK (P : Type) where
  k : Nat
  fixed : List P
  perm : List P
  deriving DecidableEq

/-- What `read_from_cs` takes from the freshly configured constraint system. -/
structure Shape where
  /-- `cs.num_fixed_columns + cs.num_selectors` -/
  nFixed : Nat
  /-- `cs.permutation.columns.len()` -/
  nPerm : Nat
  /-- `cs.degree()` -/
  degree : Nat
  /-- `F::S` (two-adicity of the scalar field) -/
  S : Nat

/-- `plonk/mod.rs: const VERSION` is a parameter of the model (`Gen.C17Consts.vkVersion`). -/
def writeVK (c : Codec P) (version : UInt8) (fmt : Format) (vk : VK P) : Bytes :=
  [version, byteOf vk.k] ++ le32 vk.fixed.length ++ c.writeMany fmt vk.fixed ++ c.writeMany fmt vk.perm

/-- The loop of `read_from_cs`: the smallest `e ≥ k` with `2^e ≥ 2^k · q`. -/
def extendedK (k q : Nat) : Nat := go 64 k
where
  go : Nat → Nat → Nat
    | 0, e => e
    | f + 1, e => if 2 ^ e < 2 ^ k * q then go f (e + 1) else e

/-- `plonk/mod.rs: VerifyingKey::read_from_cs`, in the order of its checks. Returns the key
and the unread rest of the buffer. -/
def readVK (c : Codec P) (version : UInt8) (fmt : Format) (sh : Shape) (bs : Bytes) :
    Except Err (VK P × Bytes) :=
  match readExact 1 bs with
  | .error e => .error e
  | .ok (v, r1) =>
    if v ≠ [version] then .error .version else
    match readExact 1 r1 with
    | .error e => .error e
    | .ok (kb, r2) =>
      let k := (kb.getD 0 0).toNat
      if k > sh.S then .error .kTooLarge else
      if extendedK k (sh.degree - 1) > sh.S then .error .kExt else
      match readExact 4 r2 with
      | .error e => .error e
      | .ok (nb, r3) =>
        if ofLe32 nb ≠ sh.nFixed then .error .count else
        match c.readMany fmt (ofLe32 nb) r3 with
        | .error e => .error e
        | .ok (fixed, r4) =>
          match c.readMany fmt sh.nPerm r4 with
          | .error e => .error e
          | .ok (perm, r5) => .ok (⟨k, fixed, perm⟩, r5)

/-- Exact length of the image (what `bytes_length` should return). -/
def vkLen (c : Codec P) (fmt : Format) (nFixed nPerm : Nat) : Nat :=
  6 + (nFixed + nPerm) * c.byteLen fmt

/-! ## Polynomials and the proving key -/

/-- Field-element codec (`curves: SerdeObject`): `enc = write_raw` (Montgomery limbs, `flen`
bytes), `dec = read_raw` (checks `< modulus`), `decU = read_raw_unchecked`. -/
structure FCodec (F : Type) where
  flen : Nat
  enc : F → Bytes
  dec : Bytes → Option F
  decU : Bytes → F

structure FCodec.Lawful {F : Type} (c : FCodec F) : Prop where
  len : ∀ x, (c.enc x).length = c.flen
  rt : ∀ x, c.dec (c.enc x) = some x
  rtU : ∀ x, c.decU (c.enc x) = x

variable {F : Type}

/-- `helpers.rs: read_f`: `Processed` and `RawBytes` both use the checked raw reader. -/
def FCodec.read (c : FCodec F) (fmt : Format) (bs : Bytes) : Except Err (F × Bytes) :=
  match fmt with
  | .rawBytesUnchecked =>
    match readExact c.flen bs with
    | .error _ => .error .panic
    | .ok (ch, r) => .ok (c.decU ch, r)
  | _ =>
    match readExact c.flen bs with
    | .error e => .error e
    | .ok (ch, r) => match c.dec ch with | some x => .ok (x, r) | none => .error .point

def FCodec.readMany (c : FCodec F) (fmt : Format) : Nat → Bytes → Except Err (List F × Bytes)
  | 0, bs => .ok ([], bs)
  | n + 1, bs =>
    match c.read fmt bs with
    | .error e => .error e
    | .ok (x, r) =>
      match c.readMany fmt n r with
      | .error e => .error e
      | .ok (xs, r') => .ok (x :: xs, r')

/-- `poly/mod.rs: Polynomial::write` (big-endian length, raw elements; no format argument). -/
def writePoly (c : FCodec F) (p : List F) : Bytes := be32 p.length ++ p.flatMap c.enc

/-- `poly/mod.rs: Polynomial::read` -/
def readPoly (c : FCodec F) (fmt : Format) (bs : Bytes) : Except Err (List F × Bytes) :=
  match readExact 4 bs with
  | .error e => .error e
  | .ok (lb, r) => c.readMany fmt (ofBe32 lb) r

/-- `helpers.rs: write_polynomial_slice` -/
def writePolyVec (c : FCodec F) (ps : List (List F)) : Bytes :=
  be32 ps.length ++ ps.flatMap (writePoly c)

def readPolys (c : FCodec F) (fmt : Format) : Nat → Bytes → Except Err (List (List F) × Bytes)
  | 0, bs => .ok ([], bs)
  | n + 1, bs =>
    match readPoly c fmt bs with
    | .error e => .error e
    | .ok (p, r) =>
      match readPolys c fmt n r with
      | .error e => .error e
      | .ok (ps, r') => .ok (p :: ps, r')

/-- `helpers.rs: read_polynomial_vec` -/
def readPolyVec (c : FCodec F) (fmt : Format) (bs : Bytes) : Except Err (List (List F) × Bytes) :=
  match readExact 4 bs with
  | .error e => .error e
  | .ok (nb, r) => readPolys c fmt (ofBe32 nb) r

/-- The serialised part of `plonk::ProvingKey`: the verifying key, the fixed columns in
Lagrange form and the permutation polynomials in Lagrange form. -/
structure PKStored (P F : Type) where
  vk : VK P
  fixedValues : List (List F)
  permutations : List (List F)

/-- `plonk/mod.rs: ProvingKey::write` -/
def writePK (c : Codec P) (fc : FCodec F) (version : UInt8) (fmt : Format) (pk : PKStored P F) : Bytes :=
  writeVK c version fmt pk.vk ++ writePolyVec fc pk.fixedValues ++ writePolyVec fc pk.permutations

/-- The check `ProvingKey::read` / `permutation::ProvingKey::read` make on a polynomial list
read from the file: `list.len() != count || list.iter().any(|poly| poly.len() != n)` is an
`InvalidData` error. -/
def polysFit (n count : Nat) (ps : List (List F)) : Bool :=
  ps.length == count && ps.all (fun p => p.length == n)

/-- `plonk/mod.rs: ProvingKey::read`, stored part: the verifying key, the fixed columns (as many
as the key has fixed commitments, each of `2^k` values), the permutation polynomials
(`permutation.rs: ProvingKey::read`: as many as the circuit has permutation columns, each of
`2^k` values); a list that does not fit is refused before anything is computed from it. -/
def readPK (c : Codec P) (fc : FCodec F) (version : UInt8) (fmt : Format) (sh : Shape) (bs : Bytes) :
    Except Err (PKStored P F × Bytes) :=
  match readVK c version fmt sh bs with
  | .error e => .error e
  | .ok (vk, r1) =>
    match readPolyVec fc fmt r1 with
    | .error e => .error e
    | .ok (fv, r2) =>
      if !polysFit (2 ^ vk.k) vk.fixed.length fv then .error .shape else
      match readPolyVec fc fmt r2 with
      | .error e => .error e
      | .ok (pm, r3) =>
        if !polysFit (2 ^ vk.k) sh.nPerm pm then .error .shape else .ok (⟨vk, fv, pm⟩, r3)

/-- The whole proving key: stored part plus everything `ProvingKey::read` recomputes.
`toCoeff = domain.lagrange_to_coeff`, `toExt = domain.coeff_to_extended`,
`lag = compute_lagrange_polys` (a function of `k`, the blinding factors and the domain). -/
structure PKFull (P F X : Type) where
  stored : PKStored P F
  lagr : X
  fixedPolys : List (List F)
  fixedCosets : List (List F)
  permPolys : List (List F)
  permCosets : List (List F)

/-- The derived parts as functions of the stored ones (`ProvingKey::read`, and equally the
tail of `keygen.rs: keygen_pk` and `permutation/keygen.rs: compute_polys_and_cosets`). -/
def derivePK {X : Type} (toCoeff toExt : Nat → List F → List F) (lag : Nat → X)
    (s : PKStored P F) : PKFull P F X :=
  { stored := s
    lagr := lag s.vk.k
    fixedPolys := s.fixedValues.map (toCoeff s.vk.k)
    fixedCosets := (s.fixedValues.map (toCoeff s.vk.k)).map (toExt s.vk.k)
    permPolys := s.permutations.map (toCoeff s.vk.k)
    permCosets := (s.permutations.map (toCoeff s.vk.k)).map (toExt s.vk.k) }

end MidnightZK.C17
