import MidnightZK.Model.ModArith
import MidnightZK.Gen.C17Consts
/-!
The BLS12-381 scalar field constants the key code reads (`curves/src/bls12_381/fq.rs`),
converted from the Montgomery limbs written in the source, and the constants of the size-`2^k`
evaluation domain as `EvaluationDomain::new`, `g_to_lagrange` and `unsafe_setup` derive them.
Import-free (core + generated constants).
-/
namespace MidnightZK.C17

def frR : Nat := Gen.frModulus
/-- `R⁻¹ mod r` for the Montgomery radix `R = 2^256`. -/
def frRInv : Nat := invMod (2 ^ 256 % frR) frR
/-- Canonical value of a Montgomery representation. -/
def fromMont (v : Nat) : Nat := v * frRInv % frR

def rootOfUnityN : Nat := fromMont Gen.rootOfUnityMont
def rootOfUnityInvN : Nat := fromMont Gen.rootOfUnityInvMont
def twoInvN : Nat := fromMont Gen.twoInvMont
def deltaN : Nat := fromMont Gen.deltaMont
/-- `ZETA` (a primitive cube root of unity; `g_coset` of `EvaluationDomain::new`). -/
def zetaN : Nat := fromMont Gen.zetaMont

/-- `omega` of the `2^k` domain: `ROOT_OF_UNITY^(2^(S−k))`. -/
def omegaN (k : Nat) : Nat := powMod rootOfUnityN (2 ^ (Gen.frS - k)) frR
/-- `omega_inv`: `ROOT_OF_UNITY_INV^(2^(S−k))` (`g_to_lagrange`). -/
def omegaInvN (k : Nat) : Nat := powMod rootOfUnityInvN (2 ^ (Gen.frS - k)) frR
/-- `n_inv = TWO_INV^k` (`g_to_lagrange`). -/
def nInvN (k : Nat) : Nat := powMod twoInvN k frR

end MidnightZK.C17
