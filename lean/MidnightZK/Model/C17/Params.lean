import MidnightZK.Model.C17.Keys
import MidnightZK.Model.C17.Perm
/-!
Model of `proofs/src/poly/kzg/params.rs`: `ParamsKZG::{write_custom, read_custom}` at byte
level (abstract element codecs) and `unsafe_setup` / `downsize` at the level of the discrete
logarithms of the bases (the group `G1 ≅ F·G` is represented by the scalar field, the point
`[x]G` by `x`). `g_to_lagrange` (`utils/arithmetic.rs`) is the inverse DFT specified by its
defining sum (that `best_fft` computes this sum is C12's `best_fft_recursive_eq_dft`).
Import-free.
-/
namespace MidnightZK.C17

/-! ## Bytes -/

structure ParamsB (G1 G2 : Type) where
  k : Nat
  g : List G1
  gLagrange : List G1
  g2 : G2
  sG2 : G2

variable {G1 G2 : Type}

/-- `ParamsKZG::write_custom`: `k` as little-endian u32, `g`, `g_lagrange`, `g2`, `s_g2`. -/
def writeParams (c1 : Codec G1) (c2 : Codec G2) (fmt : Format) (p : ParamsB G1 G2) : Bytes :=
  le32 p.k ++ c1.writeMany fmt p.g ++ c1.writeMany fmt p.gLagrange ++ c2.enc fmt p.g2 ++ c2.enc fmt p.sG2

/-- Read `n` chunks of `len` bytes (`Processed` branch: all compressed images are read before
any of them is decoded). -/
def readChunks (len : Nat) : Nat → Bytes → Except Err (List Bytes × Bytes)
  | 0, bs => .ok ([], bs)
  | n + 1, bs =>
    match readExact len bs with
    | .error e => .error e
    | .ok (ch, r) =>
      match readChunks len n r with
      | .error e => .error e
      | .ok (chs, r') => .ok (ch :: chs, r')

def decodeAll (c : Codec G1) : List Bytes → Except Err (List G1)
  | [] => .ok []
  | ch :: t =>
    match c.decC ch with
    | none => .error .point
    | some p => match decodeAll c t with
      | .error e => .error e
      | .ok ps => .ok (p :: ps)

/-- One vector of `n` G1 points in `read_custom`. -/
def readG1Vec (c : Codec G1) (fmt : Format) (n : Nat) (bs : Bytes) : Except Err (List G1 × Bytes) :=
  match fmt with
  | .processed =>
    match readChunks c.plen n bs with
    | .error e => .error e
    | .ok (chs, r) => match decodeAll c chs with
      | .error e => .error e
      | .ok ps => .ok (ps, r)
  | _ => c.readMany fmt n bs   -- `RawBytesUnchecked` unwraps: any failure is a panic (`Codec.read`)

/-- `ParamsKZG::read_custom` (for `k < 64`; the real code shifts `1 << k` on a `usize`). -/
def readParams (c1 : Codec G1) (c2 : Codec G2) (fmt : Format) (bs : Bytes) :
    Except Err (ParamsB G1 G2 × Bytes) :=
  match readExact 4 bs with
  | .error e => .error e
  | .ok (kb, r0) =>
    let k := ofLe32 kb
    match readG1Vec c1 fmt (2 ^ k) r0 with
    | .error e => .error e
    | .ok (g, r1) =>
      match readG1Vec c1 fmt (2 ^ k) r1 with
      | .error e => .error e
      | .ok (gl, r2) =>
        -- `E::G2::read(reader, format)?`: the generic reader, whose unchecked branch panics on a short read
        match c2.read fmt r2 with
        | .error e => .error e
        | .ok (g2, r3) =>
          match c2.read fmt r3 with
          | .error e => .error e
          | .ok (sg2, r4) => .ok (⟨k, g, gl, g2, sg2⟩, r4)

/-! ## Discrete logarithms of the bases -/

section
variable {F : Type} [Zero F] [One F] [Add F] [Sub F] [Mul F]

/-- `Σ_{j<n} f j` -/
def sumTo (f : Nat → F) : Nat → F
  | 0 => 0
  | n + 1 => sumTo f n + f n

/-- Scalar image of `ParamsKZG` (`g2 = 1`, `s_g2 = s` are constant under `downsize`). -/
structure ParamsS (F : Type) where
  g : List F
  gLagrange : List F

/-- Constants of the size-`2^k` domain as the code derives them:
`omega = ROOT_OF_UNITY^(2^(S-k))`, `omegaInv = ROOT_OF_UNITY_INV^(2^(S-k))`, `nInv = TWO_INV^k`
(`unsafe_setup` computes `n_inv = F::from(n).invert()`: the same element). -/
structure Dom (F : Type) where
  omega : F
  omegaInv : F
  nInv : F

/-- `unsafe_setup(k, rng)` with `s = Fr::random(rng)`:
`g[i] = [s^i]G`, `g_lagrange[i] = [(s^n − 1)/n · ω^i / (s − ω^i)]G`. -/
def setupS (inv : F → F) (d : Dom F) (s : F) (n : Nat) : ParamsS F :=
  { g := (List.range n).map (powN s)
    gLagrange := (List.range n).map (fun i =>
      (powN s n - 1) * d.nInv * powN d.omega i * inv (s - powN d.omega i)) }

/-- `unsafe_setup` as the code computes it under `t` rayon threads: the monomial basis by
`parallelize` with a worker that starts from `s^start` and multiplies on; the Lagrange basis by
`parallelize` with a worker that computes entry `start + idx` from scratch. -/
def setupChunked (t : Nat) (inv : F → F) (d : Dom F) (s : F) (n : Nat) : ParamsS F :=
  { g := parallelizeM t (List.replicate n (0 : F)) (fun ch start => fillPowers s (powN s start) ch)
    gLagrange := parallelizeM t (List.replicate n (0 : F)) (fun ch start =>
      ch.mapIdx (fun idx _ =>
        (powN s n - 1) * d.nInv * powN d.omega (start + idx) * inv (s - powN d.omega (start + idx)))) }

/-- `g_to_lagrange(g, k)`: inverse DFT `out[i] = n⁻¹ · Σ_j g[j] · ω^{-ij}`. -/
def gToLagrange (d : Dom F) (g : List F) : List F :=
  (List.range g.length).map (fun i =>
    sumTo (fun j => g.getD j 0 * powN (powN d.omegaInv i) j) g.length * d.nInv)

/-- `ParamsKZG::downsize(new_k)`; `none` = the assertion `n < g_lagrange.len()` fails. -/
def downsizeS (dom : Nat → Dom F) (p : ParamsS F) (newK : Nat) : Option (ParamsS F) :=
  if p.g.length.log2 = newK then some p          -- `max_k() == new_k`, `max_k = g.len().ilog2()`
  else if ¬ (2 ^ newK < p.gLagrange.length) then none
  else
    let g := p.g.take (2 ^ newK)
    some { g := g, gLagrange := gToLagrange (dom newK) g }

end

end MidnightZK.C17
