import MidnightZK.Model.Common
/-!
Byte-level reader/writer primitives shared by the key and parameter models of C17.
`readExact` mirrors `std::io::Read::read_exact` on a byte slice; `le32`/`be32` mirror
`u32::to_le_bytes` / `u32::to_be_bytes`. Import-free.
-/
namespace MidnightZK.C17

abbrev Bytes := List UInt8

/-- Outcomes of the real readers other than success. `panic` is the behaviour of the
*unchecked* element readers on a short read (`read_raw_unchecked(..).expect(..)`). -/
inductive Err | eof | version | kTooLarge | kExt | count | point | panic | invalid | pow2 | shape
  deriving DecidableEq, Repr

def Err.code : Err → String
  | .eof => "err eof" | .version => "err version" | .kTooLarge => "err k" | .kExt => "err kext"
  | .count => "err count" | .point => "err point" | .panic => "panic" | .invalid => "err invalid"
  | .pow2 => "err pow2" | .shape => "err shape"

/-- `read_exact` of `n` bytes: the bytes and the rest, or `UnexpectedEof`. -/
def readExact (n : Nat) (bs : Bytes) : Except Err (Bytes × Bytes) :=
  if n ≤ bs.length then .ok (bs.take n, bs.drop n) else .error .eof

/-- Linear-time implementation of `readExact` (walks `n` cells instead of measuring the whole
buffer); proved equal below and substituted by the compiler. -/
def readExactFast (n : Nat) (bs : Bytes) : Except Err (Bytes × Bytes) :=
  go n bs []
where
  go : Nat → Bytes → Bytes → Except Err (Bytes × Bytes)
    | 0, r, acc => .ok (acc.reverse, r)
    | _ + 1, [], _ => .error .eof
    | k + 1, b :: r, acc => go k r (b :: acc)

theorem readExactFast.go_eq : ∀ (n : Nat) (bs acc : Bytes),
    readExactFast.go n bs acc =
      if n ≤ bs.length then .ok (acc.reverse ++ bs.take n, bs.drop n) else .error .eof
  | 0, bs, acc => by simp [readExactFast.go]
  | k + 1, [], acc => by simp [readExactFast.go]
  | k + 1, b :: r, acc => by
    rw [readExactFast.go, readExactFast.go_eq k r (b :: acc)]
    by_cases h : k ≤ r.length <;> simp [h]

@[csimp] theorem readExact_eq_fast : @readExact = @readExactFast := by
  funext n bs
  simp [readExact, readExactFast, readExactFast.go_eq]

def byteOf (n : Nat) : UInt8 := UInt8.ofNat (n % 256)

/-- `(n as u32).to_le_bytes()` -/
def le32 (n : Nat) : Bytes := [byteOf n, byteOf (n / 256), byteOf (n / 65536), byteOf (n / 16777216)]

/-- `u32::from_le_bytes` (on exactly four bytes; shorter inputs read as if zero-padded). -/
def ofLe32 (b : Bytes) : Nat :=
  (b.getD 0 0).toNat + 256 * (b.getD 1 0).toNat + 65536 * (b.getD 2 0).toNat + 16777216 * (b.getD 3 0).toNat

/-- `(n as u32).to_be_bytes()` -/
def be32 (n : Nat) : Bytes := (le32 n).reverse

def ofBe32 (b : Bytes) : Nat := ofLe32 b.reverse

/-- Little-endian bytes to a natural number. -/
def leNat : Bytes → Nat
  | [] => 0
  | b :: t => b.toNat + 256 * leNat t

/-- `n` little-endian bytes of a number (truncating). -/
def natLe : Nat → Nat → Bytes
  | 0, _ => []
  | n + 1, v => byteOf v :: natLe n (v / 256)

end MidnightZK.C17
