import MidnightZK.Model.ModArith
/-!
Integers modulo `m` as a plain structure (instantiates the abstract field of the C17 models in
the driver). Values are kept canonical by every operation. Import-free.
-/
namespace MidnightZK.C17

structure Zr (m : Nat) where
  val : Nat
deriving DecidableEq, Repr

namespace Zr
variable {m : Nat}
def ofNat (m n : Nat) : Zr m := ⟨n % m⟩
instance : Zero (Zr m) := ⟨⟨0⟩⟩
instance : One (Zr m) := ⟨⟨1 % m⟩⟩
instance : Add (Zr m) := ⟨fun a b => ⟨(a.val + b.val) % m⟩⟩
instance : Sub (Zr m) := ⟨fun a b => ⟨(a.val + (m - b.val % m)) % m⟩⟩
instance : Mul (Zr m) := ⟨fun a b => ⟨(a.val * b.val) % m⟩⟩
instance : Inhabited (Zr m) := ⟨⟨0⟩⟩
/-- Inverse modulo a prime by Fermat (`0 ↦ 0`). -/
def inv (a : Zr m) : Zr m := ⟨invMod a.val m⟩
def pow (a : Zr m) (e : Nat) : Zr m := ⟨powMod a.val e m⟩
end Zr

end MidnightZK.C17
