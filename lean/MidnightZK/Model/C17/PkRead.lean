import MidnightZK.Model.C17.Keys
import MidnightZK.Model.C17.Perm
import MidnightZK.Model.C17.Params
/-!
The part of a proving key that is NOT serialised, as `keygen.rs: keygen_pk` computes it and as
`plonk/mod.rs: ProvingKey::read` recomputes it:

* `poly/domain.rs`: `EvaluationDomain::{lagrange_to_coeff, coeff_to_extended,
  distribute_powers_zeta}` (the FFT is specified by its defining sums — evaluation of the
  polynomial at the powers of the root; that `best_fft` computes them is C12's subject);
* `plonk/keygen.rs`: `compute_lagrange_polys` (locals `l0`, `l_blind`, `l_last`, `l_active_row`,
  the latter through `parallelize`), the array it returns, the pattern each of its two callers
  destructures it with and the struct initialiser each caller builds — the three orders are
  parameters of the model and are instantiated with the constants `translators/c17_sites.py`
  reads from the sources (`Gen.lagrReturn`, `Gen.lagrDestructKeygen`, `Gen.lagrDestructRead`,
  `Gen.pkInitKeygen`, `Gen.pkInitRead`);
* `plonk/permutation/keygen.rs`: `compute_polys_and_cosets` (two `parallelize` loops);
* `poly/kzg/params.rs`: `downsize` on the whole parameter set (with `g2`, `s_g2`).
Import-free.
-/
namespace MidnightZK.C17

section
variable {F : Type} [Zero F] [One F] [Add F] [Sub F] [Mul F]

/-- The constants of `EvaluationDomain::new(j, k)` that key generation uses:
`omega_inv`, `ifft_divisor` (in `dom`), `extended_k`, `extended_omega`, `g_coset = ZETA`,
`g_coset_inv = ZETA²`. -/
structure EDom (F : Type) where
  k : Nat
  extK : Nat
  dom : Dom F
  extOmega : F
  zeta : F
  zetaSq : F

/-- Value of the polynomial with coefficient list `a` at `x` (Horner). -/
def evalAt (a : List F) (x : F) : F := a.foldr (fun c acc => c + x * acc) 0

/-- `[ω^0, …, ω^(n−1)]` by repeated multiplication. -/
def powersOf (ω : F) (n : Nat) : List F := fillPowers ω 1 (List.replicate n 0)

/-- `domain.rs: lagrange_to_coeff` = `ifft`: `out[i] = n⁻¹ · Σ_j v[j]·ω^{−ij}` (the final
`parallelize` multiplies every entry by the same divisor). -/
def lagrangeToCoeff (d : EDom F) (v : List F) : List F :=
  (powersOf d.dom.omegaInv v.length).map (fun x => evalAt v x * d.dom.nInv)

/-- The factor `distribute_powers_zeta(into_coset = true)` applies at global index `index`:
`coset_powers = [ζ, ζ²]`, `i = index % 3`, `if i != 0 { a *= coset_powers[i − 1] }`. -/
def zetaMul (ζ ζ2 : F) (index : Nat) (a : F) : F :=
  if index % 3 = 0 then a else if index % 3 = 1 then a * ζ else a * ζ2

/-- Its worker: `for a in chunk { …; index += 1 }`. -/
def zetaWorker (ζ ζ2 : F) : List F → Nat → List F
  | [], _ => []
  | a :: t, index => zetaMul ζ ζ2 index a :: zetaWorker ζ ζ2 t (index + 1)

/-- `domain.rs: distribute_powers_zeta(a, true)` under `t` threads. -/
def distributePowersZeta (t : Nat) (d : EDom F) (a : List F) : List F :=
  parallelizeM t a (zetaWorker d.zeta d.zetaSq)

/-- `domain.rs: coeff_to_extended` under `t` threads: distribute the powers of ζ, pad with
zeros to the extended length, FFT with `extended_omega`: `out[i] = a'(ω_e^i)`. -/
def coeffToExtended (t : Nat) (d : EDom F) (a : List F) : List F :=
  let a' := distributePowersZeta t d a
  (powersOf d.extOmega (2 ^ d.extK)).map (evalAt a')

/-- The Lagrange vector that is one on row `r` and zero elsewhere. -/
def unitRow (n r : Nat) : List F := (List.range n).map (fun i => if i = r then 1 else 0)

/-- The four locals of `compute_lagrange_polys`. -/
structure LagrLocals (F : Type) where
  l0 : List F
  lBlind : List F
  lLast : List F
  lActiveRow : List F

/-- The worker of `l_active_row`: `idx = i + start; *value = one − (l_last[idx] + l_blind[idx])`. -/
def activeWorker (lLast lBlind : List F) (ch : List F) (start : Nat) : List F :=
  ch.mapIdx (fun i _ => 1 - (lLast.getD (start + i) 0 + lBlind.getD (start + i) 0))

/-- `keygen.rs: compute_lagrange_polys(vk, cs)` under `t` threads, `bf = cs.blinding_factors()`
(for `bf + 1 ≤ n`; otherwise the real code panics on `n − bf − 1` and keygen has failed before). -/
def lagrLocals (t : Nat) (d : EDom F) (bf : Nat) : LagrLocals F :=
  let n := 2 ^ d.k
  let ext := fun v => coeffToExtended t d (lagrangeToCoeff d v)
  let l0 := ext (unitRow n 0)
  let lBlind := ext ((List.range n).map (fun i => if n - bf ≤ i then (1 : F) else 0))
  let lLast := ext (unitRow n (n - bf - 1))
  let lActive := parallelizeM t (List.replicate (2 ^ d.extK) (0 : F)) (activeWorker lLast lBlind)
  ⟨l0, lBlind, lLast, lActive⟩

/-- The locals by the names they have in the source. -/
def LagrLocals.byName (l : LagrLocals F) (name : String) : List F :=
  if name = "l0" then l.l0 else if name = "l_blind" then l.lBlind
  else if name = "l_last" then l.lLast else if name = "l_active_row" then l.lActiveRow else []

/-- What a struct field ends up holding at a call site
`let [pat..] = compute_lagrange_polys(..); …; Struct { field: expr, .. }` when the function ends
with the array `[ret..]`: the expression initialising `field` is a local bound by the pattern;
the pattern binds positionally. -/
def siteField (ret pat : List String) (init : List (String × String)) (locals : String → List F)
    (field : String) : List F :=
  match init.lookup field with
  | none => []
  | some e => ((pat.zip (ret.map locals)).lookup e).getD []

/-- Everything a proving key holds besides the stored part (the evaluator is a function of
the constraint system alone and is compared by its rendering in the harness). -/
structure PKDerived (F : Type) where
  l0 : List F
  lLast : List F
  lActiveRow : List F
  fixedPolys : List (List F)
  fixedCosets : List (List F)
  permPolys : List (List F)
  permCosets : List (List F)

/-- `permutation/keygen.rs: compute_polys_and_cosets(domain, p, permutations)` under `t`
threads, `ncols = p.columns.len()`; `none` = `permutations[i]` out of bounds (fewer permutation
polynomials than permutation columns: cannot happen after `ProvingKey::read` any more, which
refuses such a file — `readPK`, `pk_read_counts_checked`; the function itself still indexes). -/
def computePolysAndCosets (t : Nat) (d : EDom F) (ncols : Nat) (perms : List (List F)) :
    Option (List (List F) × List (List F)) :=
  if perms.length < ncols then none else
  let polys := parallelizeM t (List.replicate ncols ([] : List F))
    (fun ch start => ch.mapIdx (fun x _ => lagrangeToCoeff d (perms.getD (start + x) [])))
  let cosets := parallelizeM t (List.replicate ncols ([] : List F))
    (fun ch start => ch.mapIdx (fun x _ => coeffToExtended t d (polys.getD (start + x) [])))
  some (polys, cosets)

variable {P : Type}

/-- The non-serialised part of a proving key as a function of the stored part, at a call site
with destructuring pattern `pat` and initialiser `init`: this is the tail of `keygen_pk`
(`pat = Gen.lagrDestructKeygen`, `init = Gen.pkInitKeygen`; `fixed_polys` by
`par_iter().map().collect()`, which keeps the order) and equally `ProvingKey::read`
(`pat = Gen.lagrDestructRead`, `init = Gen.pkInitRead`; sequential `map`). -/
def derivePKFull (t : Nat) (ret pat : List String) (init : List (String × String)) (d : EDom F)
    (bf ncols : Nat) (s : PKStored P F) : Option (PKDerived F) :=
  let loc := (lagrLocals t d bf).byName
  match computePolysAndCosets t d ncols s.permutations with
  | none => none
  | some (pp, pc) =>
    let fp := s.fixedValues.map (lagrangeToCoeff d)
    some { l0 := siteField ret pat init loc "l0"
           lLast := siteField ret pat init loc "l_last"
           lActiveRow := siteField ret pat init loc "l_active_row"
           fixedPolys := fp
           fixedCosets := fp.map (coeffToExtended t d)
           permPolys := pp
           permCosets := pc }

end

/-! ## The whole parameter set under `downsize` -/

variable {G1 G2 : Type}

/-- `ParamsKZG::downsize(new_k)` on the whole object (`toLag = g_to_lagrange`); `none` = the
assertion `n < g_lagrange.len()` fails. `g2` and `s_g2` are not touched. -/
def downsizeB (toLag : Nat → List G1 → List G1) (p : ParamsB G1 G2) (newK : Nat) : Option (ParamsB G1 G2) :=
  if p.g.length.log2 = newK then some p
  else if ¬ (2 ^ newK < p.gLagrange.length) then none
  else
    let g := p.g.take (2 ^ newK)
    some { k := newK, g := g, gLagrange := toLag newK g, g2 := p.g2, sG2 := p.sG2 }

/-- `ParamsKZG::from_parts(k, g, g_lagrange, g2, s_g2)`: the Lagrange basis is taken as given
or recomputed from the monomial basis. -/
def fromParts (toLag : Nat → List G1 → List G1) (k : Nat) (g : List G1) (gl : Option (List G1)) (g2 sG2 : G2) :
    ParamsB G1 G2 :=
  { k := k, g := g, gLagrange := match gl with | some l => l | none => toLag k g, g2 := g2, sG2 := sG2 }

/-! ## What the verifier reads from a verifying key -/

/-- Every field of `plonk::VerifyingKey` the verifier reads: the domain (a function of `k`:
`n`, `ω`, …), the commitments, the transcript identity, and the constraint system with its
cached degree (functions of the circuit, not of the bytes: `csView`). -/
structure VerifierView (P X : Type) where
  k : Nat
  n : Nat
  fixed : List P
  perm : List P
  trepr : Nat
  cs : X

def verifierView {P X : Type} (trepr : VK P → Nat) (cs : X) (vk : VK P) : VerifierView P X :=
  ⟨vk.k, 2 ^ vk.k, vk.fixed, vk.perm, trepr vk, cs⟩

end MidnightZK.C17
