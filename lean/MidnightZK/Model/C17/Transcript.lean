import MidnightZK.Model.C17.Keys
import MidnightZK.Model.C17.Blake2b
/-!
Transcript identity of a verifying key (`plonk/mod.rs: VerifyingKey::from_parts`):
BLAKE2b-512 (personalised) over version, k, the commitments in the raw unchecked encoding
(each list prefixed by its little-endian u32 length) and the `Debug` rendering of the pinned
domain and pinned constraint system, reduced to a field element by `from_uniform_bytes`.
Import-free.
-/
namespace MidnightZK.C17

variable {P : Type}

/-- The buffer hashed by `from_parts`. `desc` is
`format!("{:?}", domain.pinned()) ++ format!("{:?}", cs.pinned())`. Note that, unlike
`VerifyingKey::write`, the permutation commitments are prefixed by their count and the
encoding is always the raw one, whatever format the key was read from. -/
def transcriptPreimage (c : Codec P) (version : UInt8) (vk : VK P) (desc : Bytes) : Bytes :=
  [version, byteOf vk.k] ++ le32 vk.fixed.length ++ c.writeMany .rawBytesUnchecked vk.fixed ++
    (le32 vk.perm.length ++ c.writeMany .rawBytesUnchecked vk.perm ++ desc)

/-- `transcript_repr` for an arbitrary hash-to-field `h`. -/
def transcriptRepr (c : Codec P) (version : UInt8) (h : Bytes → Nat) (vk : VK P) (desc : Bytes) : Nat :=
  h (transcriptPreimage c version vk desc)

/-- The concrete hash-to-field: personalised BLAKE2b, then `F::from_uniform_bytes` (the
little-endian 512-bit integer reduced modulo `r`). -/
def hashToField (nn : Nat) (personal : Bytes) (r : Nat) (msg : Bytes) : Nat :=
  leNat (Blake2b.hash nn personal msg) % r

end MidnightZK.C17
