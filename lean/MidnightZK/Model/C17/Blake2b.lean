import MidnightZK.Model.C17.Bytes
/-!
BLAKE2b (RFC 7693) with digest length and personalisation parameters, unkeyed, as used by
`plonk/mod.rs: VerifyingKey::from_parts` through `blake2b_simd::Params`. Library routine
(specified by the RFC, checked against the real hash on every `trepr` line). Import-free.
-/
namespace MidnightZK.C17.Blake2b

def iv : Array UInt64 := #[
  0x6a09e667f3bcc908, 0xbb67ae8584caa73b, 0x3c6ef372fe94f82b, 0xa54ff53a5f1d36f1,
  0x510e527fade682d1, 0x9b05688c2b3e6c1f, 0x1f83d9abfb41bd6b, 0x5be0cd19137e2179]

def sigma : Array (Array Nat) := #[
  #[0, 1, 2, 3, 4, 5, 6, 7, 8, 9, 10, 11, 12, 13, 14, 15],
  #[14, 10, 4, 8, 9, 15, 13, 6, 1, 12, 0, 2, 11, 7, 5, 3],
  #[11, 8, 12, 0, 5, 2, 15, 13, 10, 14, 3, 6, 7, 1, 9, 4],
  #[7, 9, 3, 1, 13, 12, 11, 14, 2, 6, 5, 10, 4, 0, 15, 8],
  #[9, 0, 5, 7, 2, 4, 10, 15, 14, 1, 11, 12, 6, 8, 3, 13],
  #[2, 12, 6, 10, 0, 11, 8, 3, 4, 13, 7, 5, 15, 14, 1, 9],
  #[12, 5, 1, 15, 14, 13, 4, 10, 0, 7, 6, 3, 9, 2, 8, 11],
  #[13, 11, 7, 14, 12, 1, 3, 9, 5, 0, 15, 4, 8, 6, 2, 10],
  #[6, 15, 14, 9, 11, 3, 0, 8, 12, 2, 13, 7, 1, 4, 10, 5],
  #[10, 2, 8, 4, 7, 6, 1, 5, 15, 11, 9, 14, 3, 12, 13, 0]]

def rotr (x : UInt64) (n : UInt64) : UInt64 := (x >>> n) ||| (x <<< (64 - n))

def g (v : Array UInt64) (a b c d : Nat) (x y : UInt64) : Array UInt64 :=
  let va := v[a]! + v[b]! + x
  let vd := rotr (v[d]! ^^^ va) 32
  let vc := v[c]! + vd
  let vb := rotr (v[b]! ^^^ vc) 24
  let va := va + vb + y
  let vd := rotr (vd ^^^ va) 16
  let vc := vc + vd
  let vb := rotr (vb ^^^ vc) 63
  (((v.set! a va).set! b vb).set! c vc).set! d vd

def round (m : Array UInt64) (v : Array UInt64) (r : Nat) : Array UInt64 :=
  let s := sigma[r % 10]!
  let v := g v 0 4 8 12 m[s[0]!]! m[s[1]!]!
  let v := g v 1 5 9 13 m[s[2]!]! m[s[3]!]!
  let v := g v 2 6 10 14 m[s[4]!]! m[s[5]!]!
  let v := g v 3 7 11 15 m[s[6]!]! m[s[7]!]!
  let v := g v 0 5 10 15 m[s[8]!]! m[s[9]!]!
  let v := g v 1 6 11 12 m[s[10]!]! m[s[11]!]!
  let v := g v 2 7 8 13 m[s[12]!]! m[s[13]!]!
  g v 3 4 9 14 m[s[14]!]! m[s[15]!]!

/-- Eight little-endian bytes to a word (missing bytes read as zero). -/
def word (b : Bytes) : UInt64 :=
  (b.take 8).foldr (fun x acc => (acc <<< 8) ||| x.toUInt64) 0

/-- A (zero-padded) 128-byte block as sixteen words. -/
def blockWords (b : Bytes) : Array UInt64 :=
  ((List.range 16).map (fun i => word (b.drop (8 * i)))).toArray

/-- Compression function `F`; `t` is the byte counter (below 2^64 here). -/
def compress (h : Array UInt64) (block : Bytes) (t : Nat) (last : Bool) : Array UInt64 :=
  let m := blockWords block
  let v := h ++ iv
  let v := v.set! 12 (v[12]! ^^^ UInt64.ofNat (t % 2 ^ 64))
  let v := v.set! 13 (v[13]! ^^^ UInt64.ofNat (t / 2 ^ 64))
  let v := if last then v.set! 14 (~~~ v[14]!) else v
  let v := (List.range 12).foldl (round m) v
  ((List.range 8).map (fun i => h[i]! ^^^ v[i]! ^^^ v[i + 8]!)).toArray

/-- Initial state for digest length `nn` (bytes) and a personalisation of at most 16 bytes. -/
def init (nn : Nat) (personal : Bytes) : Array UInt64 :=
  let p := personal ++ List.replicate (16 - personal.length) 0
  let h := iv.set! 0 (iv[0]! ^^^ 0x01010000 ^^^ UInt64.ofNat nn)
  let h := h.set! 6 (h[6]! ^^^ word p)
  h.set! 7 (h[7]! ^^^ word (p.drop 8))

/-- Absorb all blocks but the last (`fuel` ≥ number of blocks). -/
def absorb : Nat → Array UInt64 → Bytes → Nat → Array UInt64
  | 0, h, _, _ => h
  | fuel + 1, h, msg, t =>
    if msg.length ≤ 128 then compress h msg (t + msg.length) true
    else absorb fuel (compress h (msg.take 128) (t + 128) false) (msg.drop 128) (t + 128)

def wordBytes (w : UInt64) : Bytes :=
  (List.range 8).map (fun i => (w >>> (UInt64.ofNat (8 * i))).toUInt8)

/-- `Params::new().hash_length(nn).personal(p).to_state().update(msg).finalize()` -/
def hash (nn : Nat) (personal msg : Bytes) : Bytes :=
  let h := absorb (msg.length / 128 + 2) (init nn personal) msg 0
  (h.toList.flatMap wordBytes).take nn

end MidnightZK.C17.Blake2b
