/-!
# C09 — executable model of the single-pass floor planner and of the keygen / prover views

Mirrors, in `/repo/proofs/src`:

* `circuit/layouter.rs: RegionShape` (`shapeOf`): which calls of a region closure add a column
  to the shape and how the row count grows;
* `circuit/floor_planner/single_pass.rs: SingleChipLayouter::assign_region / assign_table /
  constrain_instance` and `SingleChipLayouterRegion` (`layoutItem`): region start = maximum over
  the region's columns of the first free row; column usage update; region-relative calls
  forwarded with `start + offset`; constants assigned after the region, in order, in the first
  constants column (whose next free row lives in the same column map);
* `plonk/keygen.rs: Assembly` (`keygenView`): keeps selectors, fixed cells, fills and copies,
  ignores advice; `plonk/prover.rs: WitnessCollection` (`advicePositions`);
* `dev/cost_model.rs: cost_model_options` (`costOf`, `minK`).

A region closure is represented by the list of calls it makes (`Ev`); advice calls carry the
witness value (`none` = `Value::unknown()`, the keygen run). Import-free.
-/
namespace MidnightZK.C09

/-- `RegionColumn`: kind 0 advice, 1 fixed, 2 instance, 3 selector (virtual column). -/
structure Col where
  kind : Nat
  idx : Nat
deriving DecidableEq, Repr, Inhabited

/-- `circuit::Cell`. -/
structure Cell where
  region : Nat
  off : Nat
  col : Col
deriving DecidableEq, Repr, Inhabited

/-- One call of a region closure on its `Region` (region-relative). -/
inductive Ev where
  | sel (s off : Nat)
  | fix (c off : Nat) (v : Nat)
  | adv (c off : Nat) (v : Option Nat)
  | advConst (c off : Nat) (v : Nat)
  | advInst (ic ir c off : Nat)
  | const (cell : Cell) (v : Nat)
  | equal (l r : Cell)
  | instVal (ic ir : Nat)
deriving DecidableEq, Repr, Inhabited

/-- One call of `Circuit::synthesize` on its `Layouter`. -/
inductive Item where
  | region (evs : List Ev)
  /-- table cells `(column, row, value)` in assignment order -/
  | table (cells : List (Nat × Nat × Nat))
  | inst (cell : Cell) (ic ir : Nat)
deriving DecidableEq, Repr, Inhabited

/-- One call on the `Assignment` backend (absolute rows). -/
inductive Abs where
  | enter
  | exit
  | sel (s row : Nat)
  | fix (c row : Nat) (v : Nat)
  | adv (c row : Nat) (v : Option Nat)
  | copy (c1 : Col) (r1 : Nat) (c2 : Col) (r2 : Nat)
  | fill (c row : Nat) (v : Nat)
  | query (ic ir : Nat)
deriving DecidableEq, Repr, Inhabited

/-! ## Region shapes (`layouter.rs: RegionShape`) -/

structure Shape where
  cols : List Col
  rows : Nat
deriving DecidableEq, Repr, Inhabited

/-- The column and offset a call contributes to the shape, if any. `constrain_constant`,
`constrain_equal` and `instance_value` contribute nothing; `assign_advice_from_instance` adds
the advice column only. -/
def Ev.touch : Ev → Option (Col × Nat)
  | .sel s off => some (⟨3, s⟩, off)
  | .fix c off _ => some (⟨1, c⟩, off)
  | .adv c off _ => some (⟨0, c⟩, off)
  | .advConst c off _ => some (⟨0, c⟩, off)
  | .advInst _ _ c off => some (⟨0, c⟩, off)
  | .const _ _ => none
  | .equal _ _ => none
  | .instVal _ _ => none

def Shape.add (s : Shape) (t : Col × Nat) : Shape :=
  { cols := if s.cols.contains t.1 then s.cols else s.cols ++ [t.1],
    rows := max s.rows (t.2 + 1) }

def shapeOf (evs : List Ev) : Shape :=
  (evs.filterMap Ev.touch).foldl Shape.add ⟨[], 0⟩

/-- Constants a region asks the layouter to pin: `(value, cell)` in call order
(`SingleChipLayouterRegion::constrain_constant`, also reached through
`assign_advice_from_constant`). `k` is the index of the region itself. -/
def Ev.constOf (k : Nat) : Ev → Option (Nat × Cell)
  | .advConst c off v => some (v, ⟨k, off, ⟨0, c⟩⟩)
  | .const cell v => some (v, cell)
  | _ => none

/-! ## Column usage map (`SingleChipLayouter.columns`) -/

abbrev Alloc := List (Col × Nat)

def Alloc.get (a : Alloc) (c : Col) : Nat :=
  match a with
  | [] => 0
  | (c', n) :: rest => if c' = c then n else Alloc.get rest c

def Alloc.set (a : Alloc) (c : Col) (n : Nat) : Alloc :=
  match a with
  | [] => [(c, n)]
  | (c', m) :: rest => if c' = c then (c, n) :: rest else (c', m) :: Alloc.set rest c n

/-- Region start: the earliest row at which none of the region's columns is in use. -/
def startOf (a : Alloc) (cols : List Col) : Nat :=
  cols.foldl (fun m c => max m (a.get c)) 0

def occupy (a : Alloc) (cols : List Col) (upto : Nat) : Alloc :=
  cols.foldl (fun a c => a.set c upto) a

/-- `assign_region`, placement part. -/
def place (a : Alloc) (s : Shape) : Nat × Alloc :=
  let st := startOf a s.cols
  (st, occupy a s.cols (st + s.rows))

/-! ## The layouter -/

structure Cfg where
  /-- `cs.constants`: indices of the fixed columns enabled for constants -/
  constants : List Nat
deriving Repr, Inhabited

structure St where
  alloc : Alloc
  starts : Array Nat
  /-- `NotEnoughColumnsForConstants` was raised -/
  err : Bool
deriving Repr, Inhabited

def St.init : St := ⟨[], #[], false⟩

def rowOf (starts : Array Nat) (c : Cell) : Nat := starts.getD c.region 0 + c.off

/-- Calls made on the backend for one region-relative call. -/
def emitEv (starts : Array Nat) (st : Nat) : Ev → List Abs
  | .sel s off => [.sel s (st + off)]
  | .fix c off v => [.fix c (st + off) v]
  | .adv c off v => [.adv c (st + off) v]
  | .advConst c off v => [.adv c (st + off) (some v)]
  | .advInst ic ir c off => [.query ic ir, .adv c (st + off) none, .copy ⟨0, c⟩ (st + off) ⟨2, ic⟩ ir]
  | .const _ _ => []
  | .equal l r => [.copy l.col (rowOf starts l) r.col (rowOf starts r)]
  | .instVal ic ir => [.query ic ir]

/-- Constants assigned after the region, in order, from row `next` of the constants column. -/
def emitConsts (starts : Array Nat) (kcol : Nat) : Nat → List (Nat × Cell) → List Abs
  | _, [] => []
  | next, (v, cell) :: rest =>
    .fix kcol next v :: .copy ⟨1, kcol⟩ next cell.col (rowOf starts cell) :: emitConsts starts kcol (next + 1) rest

/-- Columns of a table, in increasing order, with their length and default (row-0) value. -/
def tableCols (cells : List (Nat × Nat × Nat)) : List Nat :=
  let cs := cells.map (·.1)
  (cs.foldl (fun acc c => if acc.contains c then acc else acc ++ [c]) []).mergeSort

def tableLen (cells : List (Nat × Nat × Nat)) (c : Nat) : Nat :=
  (cells.filter (·.1 = c)).foldl (fun m x => max m (x.2.1 + 1)) 0

def tableDefault (cells : List (Nat × Nat × Nat)) (c : Nat) : Nat :=
  match cells.find? (fun x => x.1 = c ∧ x.2.1 = 0) with
  | some x => x.2.2
  | none => 0

/-- One `Layouter` call: new state and the backend calls it makes, in order. -/
def layoutItem (cfg : Cfg) (s : St) : Item → St × List Abs
  | .region evs =>
    let k := s.starts.size
    let (st, alloc1) := place s.alloc (shapeOf evs)
    let starts := s.starts.push st
    let body := evs.flatMap (emitEv starts st)
    let consts := evs.filterMap (Ev.constOf k)
    match cfg.constants with
    | [] => (⟨alloc1, starts, s.err || !consts.isEmpty⟩, .enter :: body ++ [.exit])
    | kcol :: _ =>
      let next := alloc1.get ⟨1, kcol⟩
      let alloc2 := alloc1.set ⟨1, kcol⟩ (next + consts.length)
      (⟨alloc2, starts, s.err⟩, .enter :: body ++ [.exit] ++ emitConsts starts kcol next consts)
  | .table cells =>
    let cols := tableCols cells
    (s, .enter :: cells.map (fun x => .fix x.1 x.2.1 x.2.2) ++ [.exit]
          ++ cols.map (fun c => .fill c (tableLen cells c) (tableDefault cells c)))
  | .inst cell ic ir => (s, [.copy cell.col (rowOf s.starts cell) ⟨2, ic⟩ ir])

/-- All items: final state and per-item call lists. -/
def layoutAux (cfg : Cfg) : St → List Item → St × List (List Abs)
  | s, [] => (s, [])
  | s, it :: rest =>
    let r := layoutItem cfg s it
    let t := layoutAux cfg r.1 rest
    (t.1, r.2 :: t.2)

def layout (cfg : Cfg) (items : List Item) : St × List (List Abs) := layoutAux cfg St.init items

def starts (cfg : Cfg) (items : List Item) : Array Nat := (layout cfg items).1.starts

def calls (cfg : Cfg) (items : List Item) : List Abs := (layout cfg items).2.flatten

/-! ## Placement from shapes alone -/

/-- What placement needs to know of an item. -/
inductive ItemShape where
  | region (s : Shape) (nconst : Nat)
  | other
deriving DecidableEq, Repr, Inhabited

def Item.shape : Item → ItemShape
  | .region evs => .region (shapeOf evs) (evs.filterMap (Ev.constOf 0)).length
  | _ => .other

def placeStep (cfg : Cfg) (a : Alloc) : ItemShape → Alloc × Option Nat
  | .region sh n =>
    let (st, a1) := place a sh
    match cfg.constants with
    | [] => (a1, some st)
    | kcol :: _ => (a1.set ⟨1, kcol⟩ (a1.get ⟨1, kcol⟩ + n), some st)
  | .other => (a, none)

def placeAllAux (cfg : Cfg) : Alloc → List ItemShape → List Nat
  | _, [] => []
  | a, sh :: rest =>
    let r := placeStep cfg a sh
    match r.2 with
    | some st => st :: placeAllAux cfg r.1 rest
    | none => placeAllAux cfg r.1 rest

/-- Start rows of all regions, computed from the shapes only. -/
def placeAll (cfg : Cfg) (shapes : List ItemShape) : List Nat := placeAllAux cfg [] shapes

/-- Regions with their shape and start row (same recursion as `placeAllAux`). -/
def placedAux (cfg : Cfg) : Alloc → List ItemShape → List (Shape × Nat)
  | _, [] => []
  | a, .region sh n :: rest =>
    (sh, (place a sh).1) :: placedAux cfg (placeStep cfg a (.region sh n)).1 rest
  | a, .other :: rest => placedAux cfg a rest

def placed (cfg : Cfg) (shapes : List ItemShape) : List (Shape × Nat) := placedAux cfg [] shapes

/-! ## Erasure of witness values -/

def Ev.erase : Ev → Ev
  | .adv c off _ => .adv c off none
  | e => e

def Item.erase : Item → Item
  | .region evs => .region (evs.map Ev.erase)
  | it => it

def Abs.erase : Abs → Abs
  | .adv c row _ => .adv c row none
  | a => a

/-- Give every advice call of every region the value chosen by `w` (item index, call index):
an arbitrary concrete witness for a fixed circuit structure. -/
def Ev.withValue (v : Option Nat) : Ev → Ev
  | .adv c off _ => .adv c off v
  | e => e

def withValuesEvs (w : Nat → Option Nat) : Nat → List Ev → List Ev
  | _, [] => []
  | j, e :: rest => e.withValue (w j) :: withValuesEvs w (j + 1) rest

def Item.withValues (w : Nat → Nat → Option Nat) (i : Nat) : Item → Item
  | .region evs => .region (withValuesEvs (w i) 0 evs)
  | it => it

def withValuesItems (w : Nat → Nat → Option Nat) : Nat → List Item → List Item
  | _, [] => []
  | i, it :: rest => it.withValues w i :: withValuesItems w (i + 1) rest

/-! ## Keygen and prover views -/

/-- `keygen.rs: Assembly` acts on these calls only (`assign_advice`, `enter_region`,
`exit_region` are no-ops, `query_instance` returns unknown). -/
def Abs.keygenRelevant : Abs → Bool
  | .sel .. | .fix .. | .copy .. | .fill .. => true
  | _ => false

/-- The sequence of state-changing calls keygen sees: determines fixed columns, selectors and
the permutation, hence the verifying key. -/
def keygenView (cs : List Abs) : List Abs := cs.filter Abs.keygenRelevant

/-- `prover.rs: WitnessCollection`: the advice cells written, in order. -/
def advicePositions (cs : List Abs) : List (Nat × Nat) :=
  cs.filterMap (fun a => match a with | .adv c r _ => some (c, r) | _ => none)

/-- Largest row touched by any call plus one (0 if none): keygen fails with
`not_enough_rows_available` iff this exceeds the usable rows. -/
def Abs.rowBound : Abs → Nat
  | .sel _ r | .fix _ r _ | .adv _ r _ | .fill _ r _ | .query _ r => r + 1
  | .copy _ r1 _ r2 => max r1 r2 + 1
  | _ => 0

def rowsNeeded (cs : List Abs) : Nat := cs.foldl (fun m a => max m a.rowBound) 0

/-! ## Cost model (`dev/cost_model.rs`) -/

structure Extent where
  cols : List Col
  last : Option Nat
deriving Repr, Inhabited

structure CostSt where
  cur : Option Extent
  rows : Nat
  trows : Nat
  irows : Nat
deriving Repr, Inhabited

def Extent.touch (e : Extent) (c : Col) (row : Nat) : Extent :=
  { cols := if e.cols.contains c then e.cols else c :: e.cols,
    last := some (match e.last with | none => row | some l => max l row) }

/-- `DevAssembly`: extents grow on `assign_advice` / `assign_fixed` inside a region only; a
region all of whose columns are fixed counts towards the table rows. -/
def costStep (s : CostSt) : Abs → CostSt
  | .enter => { s with cur := some ⟨[], none⟩ }
  | .exit =>
    match s.cur with
    | some e =>
      match e.last with
      | some l =>
        if e.cols.all (fun c => c.kind == 1) then { s with cur := none, trows := max s.trows (l + 1) }
        else { s with cur := none, rows := max s.rows (l + 1) }
      | none => { s with cur := none }
    | none => s
  | .adv c row _ => { s with cur := s.cur.map (·.touch ⟨0, c⟩ row) }
  | .fix c row _ => { s with cur := s.cur.map (·.touch ⟨1, c⟩ row) }
  | .copy c1 r1 c2 r2 =>
    let i1 := if c1.kind == 2 then max s.irows (r1 + 1) else s.irows
    let i2 := if c2.kind == 2 then max i1 (r2 + 1) else i1
    { s with irows := i2 }
  | _ => s

def costOf (cs : List Abs) : Nat × Nat × Nat :=
  let s := cs.foldl costStep ⟨none, 0, 0, 0⟩
  (s.rows, s.trows, s.irows)

def minKAux (n : Nat) : Nat → Nat → Nat
  | 0, k => k
  | fuel + 1, k => if n ≤ 2 ^ k then k else minKAux n fuel (k + 1)

/-- `n.next_power_of_two().ilog2()`: the least `k` with `n ≤ 2^k`. -/
def minK (n : Nat) : Nat := minKAux n n 0

/-- `min_k` of `cost_model_options` (`u` = blinding factors + 1, `m` = `cs.minimum_rows()`). -/
def circuitK (u m : Nat) (c : Nat × Nat × Nat) : Nat :=
  minK (max (max (c.1 + u) (c.2.1 + u)) (max (c.2.2 + u) (m + 1)))

/-! ## Constant cache (`native_chip.rs: cached_fixed`) -/

/-- `assign_fixed` over a sequence of constants: a new region is opened exactly when the value
is not in the cache; returns, per request, the index (in creation order) of the cached cell, and
the final cache (values in creation order). -/
def cacheStep (cache : List Nat) (c : Nat) : List Nat × Nat :=
  match cache.idxOf? c with
  | some i => (cache, i)
  | none => (cache ++ [c], cache.length)

def cacheRun : List Nat → List Nat → List Nat × List Nat
  | cache, [] => (cache, [])
  | cache, c :: rest =>
    let r := cacheStep cache c
    let t := cacheRun r.1 rest
    (t.1, r.2 :: t.2)

end MidnightZK.C09
