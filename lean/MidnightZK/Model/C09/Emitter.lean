import MidnightZK.Model.C09.Planner
/-!
# C09 — synthesisers as "structure + values", and copy constraints as a set

* `Synth W := W → List Item`: what `Circuit::synthesize` is from the point of view of C09: for
  every witness (and for the unknown witness) the list of calls it makes on the `Layouter`.
* `Emitter`: a synthesiser given as a witness-free `skeleton` (the calls with all advice values
  unknown: what the emitters of the models of C04–C08 produce — their Lean types have no witness
  argument) and a separate function `values` supplying the advice VALUES. This is the shape of
  gadget code in which a `Value` only ever flows into the value closure of `assign_advice`
  (`proofs/src/circuit/value.rs` makes every other use impossible except through the channels
  listed by `translators/c09_value_channels.py`).
* `ValueOnly g`: the synthesiser `g` can be written as such an emitter.
* `copyPairs`: the copy constraints of a call sequence as canonical (smaller cell first) pairs —
  what the harness compares as a SET across witnesses (`run.rs: copy_set`), and `CopiesHold`: what
  the permutation argument enforces (`keygen.rs: Assembly::copy` / `permutation::keygen`).

Import-free (core Lean only).
-/
namespace MidnightZK.C09

/-- `Circuit::synthesize` as a function of the witness (`none`-valued advice = unknown). -/
abbrev Synth (W : Type) := W → List Item

/-- A synthesiser whose only witness-dependent part are the VALUES of its `assign_advice` calls:
`skeleton` has no witness argument; `values w i j` is the value of the `j`-th call of the `i`-th
item under witness `w`. -/
structure Emitter (W : Type) where
  skeleton : List Item
  values : W → Nat → Nat → Option Nat

/-- The calls the emitter makes under witness `w`. -/
def Emitter.run {W : Type} (e : Emitter W) : Synth W :=
  fun w => withValuesItems (e.values w) 0 e.skeleton

/-- The keygen run: every advice value unknown. -/
def Emitter.keygenRun {W : Type} (e : Emitter W) : List Item :=
  withValuesItems (fun _ _ => none) 0 e.skeleton

/-- `g` is "structure + values". -/
def ValueOnly {W : Type} (g : Synth W) : Prop := ∃ e : Emitter W, ∀ w, g w = e.run w

/-- The advice value of the `j`-th call of a region (unknown for other calls). -/
def valuesOfEvs (evs : List Ev) (j : Nat) : Option Nat :=
  match evs[j]? with
  | some (.adv _ _ v) => v
  | _ => none

/-- The advice values of a synthesis, by (item index, call index). -/
def valuesOfItems (items : List Item) (i j : Nat) : Option Nat :=
  match items[i]? with
  | some (.region evs) => valuesOfEvs evs j
  | _ => none

/-! ## Copy constraints as a set -/

/-- An absolute cell: (column, row). -/
abbrev ACell := Col × Nat

def ACell.le (a b : ACell) : Bool :=
  a.1.kind < b.1.kind || (a.1.kind == b.1.kind &&
    (a.1.idx < b.1.idx || (a.1.idx == b.1.idx && a.2 ≤ b.2)))

/-- The pair of a `copy` call, smaller cell first (`run.rs: copy_set`). -/
def Abs.copyPair : Abs → Option (ACell × ACell)
  | .copy c1 r1 c2 r2 => if ACell.le (c1, r1) (c2, r2) then some ((c1, r1), (c2, r2)) else some ((c2, r2), (c1, r1))
  | _ => none

def copyPairs (cs : List Abs) : List (ACell × ACell) := cs.filterMap Abs.copyPair

/-- What the permutation argument enforces for a call sequence: the two cells of every `copy`
call hold the same value. -/
def CopiesHold (asg : ACell → Nat) (cs : List Abs) : Prop :=
  ∀ a ∈ cs, match a with
    | .copy c1 r1 c2 r2 => asg (c1, r1) = asg (c2, r2)
    | _ => True

end MidnightZK.C09
