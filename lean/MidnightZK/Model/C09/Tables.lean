/-!
# C09 — which lookup tables a standard-library circuit loads, and what the range table holds

Mirrors `zk_stdlib/src/lib.rs: MidnightCircuit::synthesize` (tables are loaded after the
relation ran, for the chips that are configured AND were used; the Base64 table whenever the chip
is configured, because its deactivated lookup is a non-zero table entry) and
`circuits/src/field/decomposition/pow2range.rs: load_table` (the table lists, for tag 0 and for
every tag queried during synthesis, all values below `2^tag`). Import-free.
-/
namespace MidnightZK.C09

/-- One flag per table-carrying chip of `ZkStdLibArch` / `ZkStdLib.used_*`. -/
structure Chips where
  sha256 : Bool
  sha512 : Bool
  base64 : Bool
  automaton : Bool
  keccakSha3 : Bool
  blake2b : Bool
deriving DecidableEq, Repr, Inhabited

/-- Tables loaded at the end of `synthesize`, in order; the range table always. -/
def stdlibTables (arch used : Chips) : List String :=
  ["p2r"]
  ++ (if arch.sha256 && used.sha256 then ["sha256"] else [])
  ++ (if arch.sha512 && used.sha512 then ["sha512"] else [])
  ++ (if arch.base64 then ["base64"] else [])
  ++ (if arch.automaton && used.automaton then ["automaton"] else [])
  ++ (if arch.keccakSha3 && used.keccakSha3 then ["keccak_sha3"] else [])
  ++ (if arch.blake2b && used.blake2b then ["blake2b"] else [])

/-- Rows `(tag, value)` of the range table, in assignment order. -/
def pow2rangeRows (maxBitLen : Nat) (queried : List Nat) : List (Nat × Nat) :=
  (List.range (maxBitLen + 1)).flatMap (fun t =>
    if t = 0 ∨ t ∈ queried then (List.range (2 ^ t)).map (fun v => (t, v)) else [])

end MidnightZK.C09
