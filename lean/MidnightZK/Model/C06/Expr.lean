/-!
# C06 — gate expressions (`midnight_proofs::plonk::Expression`) as dumped from the real
`configure` functions of the ECC chips. Import-free; polymorphic in the coefficient ring.
`Gen/C06Gates.lean` is rendered into this type by `translators/c06_gates.py`.
-/
namespace MidnightZK.C06
open Lean.Grind

/-- `midnight_proofs::plonk::Expression` restricted to what the ECC chips use. -/
inductive Expr (F : Type) where
  | const (c : F)
  | sel (i : Nat)
  | fixed (col : Nat) (rot : Int)
  | adv (col : Nat) (rot : Int)
  | neg (a : Expr F)
  | sum (a b : Expr F)
  | prod (a b : Expr F)
  | scaled (a : Expr F) (c : F)

/-- Values a gate sees on one row (`adv c r` = advice column `c` at rotation `r`). -/
structure Env (F : Type) where
  sel : Nat → F
  fixed : Nat → Int → F
  adv : Nat → Int → F

/-- `Expression::evaluate`. -/
def Expr.eval {F : Type} [CommRing F] (env : Env F) : Expr F → F
  | .const c => c
  | .sel i => env.sel i
  | .fixed c r => env.fixed c r
  | .adv c r => env.adv c r
  | .neg a => - a.eval env
  | .sum a b => a.eval env + b.eval env
  | .prod a b => a.eval env * b.eval env
  | .scaled a c => a.eval env * c

end MidnightZK.C06
