import MidnightZK.Model.ModArith
/-!
# C06 — executable model of the native twisted-Edwards chip (`a = -1`)
`circuits/src/ecc/native/edwards_chip.rs`. Field elements are `Nat`s below `p`.

* `add`, `condAdd`, `neg`: the affine formulas the witness generation (`p_plus_b_q`) computes and
  the `conditional add` gate enforces;
* `mul`: `EccChip::mul` (big-endian conditional double-and-add, no doubling after the last bit);
* `msm`, `mulByConstant`, `assign` (cofactor-root + `clear_cofactor`), `pointFromCoordinates`;
* `Row` / `*Rows`: the cells each instruction writes in the nine ECC advice columns and the
  selectors it enables, in region order — compared with the real `MockProver` table.
-/
namespace MidnightZK.C06

/-- Extended Euclid on `(r₀, r₁, t₀, t₁)`; returns the Bézout coefficient of the second argument
of the initial call when the gcd is reached. -/
def invLoop : Nat → Nat → Nat → Int → Int → Int
  | 0, _, _, t0, _ => t0
  | f + 1, r0, r1, t0, t1 =>
    if r1 = 0 then t0 else invLoop f r1 (r0 % r1) t1 (t0 - (r0 / r1 : Nat) * t1)

/-- Modular inverse by extended Euclid (`0 ↦ 0`); same value as `invMod` for a prime modulus,
about five times faster in the compiled driver. -/
def invModE (a p : Nat) : Nat :=
  if a % p = 0 then 0 else (invLoop (2 * p.log2 + 4) p (a % p) 0 1 % (p : Int)).toNat

/-- Curve `-x² + y² = 1 + d x² y²` over `𝔽_p`, scalar field of order `r` (prime subgroup order),
cofactor `h`. -/
structure EdCurve where
  p : Nat
  d : Nat
  r : Nat
  h : Nat
  /-- `C::ScalarField::NUM_BITS` -/
  scalarBits : Nat

abbrev Pt := Nat × Nat

namespace EdCurve
variable (E : EdCurve)

def fadd (a b : Nat) : Nat := addMod a b E.p
def fsub (a b : Nat) : Nat := subMod a b E.p
def fmul (a b : Nat) : Nat := mulMod a b E.p
def finv (a : Nat) : Nat := invModE a E.p

/-- The neutral element `(0, 1)`. -/
def id : Pt := (0, 1 % E.p)

/-- Curve equation (the `witness point` gate). -/
def onCurve (P : Pt) : Bool :=
  let x2 := E.fmul P.1 P.1
  let y2 := E.fmul P.2 P.2
  E.fsub y2 x2 == E.fadd 1 (E.fmul E.d (E.fmul x2 y2))

/-- Complete addition for `a = -1`:
`x₃ = (x₁y₂ + y₁x₂)/(1 + d x₁x₂y₁y₂)`, `y₃ = (y₁y₂ + x₁x₂)/(1 − d x₁x₂y₁y₂)`. -/
def add (P Q : Pt) : Pt :=
  let e := E.fmul E.d (E.fmul (E.fmul P.1 Q.1) (E.fmul P.2 Q.2))
  let d1 := E.fadd 1 e
  let d2 := E.fsub 1 e
  -- one inversion for both denominators
  let i := E.finv (E.fmul d1 d2)
  (E.fmul (E.fadd (E.fmul P.1 Q.2) (E.fmul P.2 Q.1)) (E.fmul i d2),
   E.fmul (E.fadd (E.fmul P.2 Q.2) (E.fmul P.1 Q.1)) (E.fmul i d1))

/-- `p_plus_b_q`. -/
def condAdd (Q S : Pt) (b : Bool) : Pt := if b then E.add Q S else Q

/-- `negate`: `(-x, y)`. -/
def neg (P : Pt) : Pt := (negMod P.1 E.p, P.2)

/-- `EccChip::mul` on big-endian bits: `add_then_double` on every bit but the last, `cond_add` on
the last one. (The Rust code computes `len - 1` on `usize`; it is never called with no bits.) -/
def mulBE (base : Pt) : List Bool → Pt → Pt
  | [], acc => acc
  | [b], acc => E.condAdd acc base b
  | b :: rest, acc =>
    let s := E.condAdd acc base b
    mulBE base rest (E.add s s)

/-- `EccChip::mul` (scalar = little-endian bits). -/
def mul (bitsLE : List Bool) (base : Pt) : Pt := E.mulBE base bitsLE.reverse E.id

/-- `n` little-endian bits of a natural number (truncating). -/
def bitsLE : Nat → Nat → List Bool
  | 0, _ => []
  | n + 1, v => (v % 2 == 1) :: bitsLE n (v / 2)

/-- `CircuitField::to_bits_le(None)`: minimal length, at least one bit. -/
def minBitsLE (v : Nat) : List Bool := bitsLE (if v = 0 then 1 else v.log2 + 1) v

/-- `msm`: each term by `mul`, then a left fold of `add` starting from the first product
(`scaled_points[1..].try_fold(scaled_points[0], add)`; panics on an empty input). -/
def msm (scalars : List (List Bool)) (bases : List Pt) : Option Pt :=
  match (scalars.zip bases).map (fun sb => E.mul sb.1 sb.2) with
  | [] => none
  | q :: qs => some (qs.foldl E.add q)

/-- `mul_by_constant` (`scalar` already reduced modulo `r`). -/
def mulByConstant (s : Nat) (P : Pt) : Pt :=
  if s = 0 then E.id else if s = 1 then P else E.mul (minBitsLE s) P

/-- Multiplication by an integer in the model (used for the cofactor root of `assign`). -/
def smulNat (n : Nat) (P : Pt) : Pt := if n = 0 then E.id else E.mul (minBitsLE n) P

/-- `assign`: the witness is `P · h⁻¹ (mod r)`; the returned point is `h ·` that witness. -/
def cofactorRoot (P : Pt) : Pt := E.smulNat (invModE (E.h % E.r) E.r) P

/-! ## Cells written in the nine ECC columns -/

/-- One row of the ECC columns: selectors `q_double`, `q_cond_add`, `q_mem` and the nine cells
(`none` = not assigned by the chip). -/
structure Row where
  qDouble : Bool := false
  qCondAdd : Bool := false
  qMem : Bool := false
  cells : List (Option Nat)
deriving Repr, BEq

/-- Region `assign point` / `assign new point`: `| x | y |` with `q_mem`. -/
def pointRow (P : Pt) : Row :=
  { qMem := true, cells := [some P.1, some P.2, none, none, none, none, none, none, none] }

/-- Region `assign add`: `| xq yq xs ys b xr yr _ xq·yq·xs·ys |` with `q_cond_add`, `b = 1`. -/
def addRow (Q S : Pt) : Row :=
  let R := E.add Q S
  { qCondAdd := true,
    cells := [some Q.1, some Q.2, some S.1, some S.2, some (1 % E.p), some R.1, some R.2, none,
              some (E.fmul (E.fmul (E.fmul Q.1 Q.2) S.1) S.2)] }

/-- Region `assign mul`, big-endian bits: row `i` holds the accumulator, the base, the bit, the
conditional sum `S`, `S.x²` (when a doubling follows) and the product; the doubled point lands in
columns 0, 1 of row `i + 1`. -/
def mulRowsBE (base : Pt) : List Bool → Pt → List Row
  | [], _ => []
  | [b], acc =>
    let s := E.condAdd acc base b
    [{ qCondAdd := true,
       cells := [some acc.1, some acc.2, some base.1, some base.2, some (if b then 1 % E.p else 0),
                 some s.1, some s.2, none,
                 some (E.fmul (E.fmul (E.fmul acc.1 acc.2) base.1) base.2)] }]
  | b :: rest, acc =>
    let s := E.condAdd acc base b
    { qCondAdd := true, qDouble := true,
      cells := [some acc.1, some acc.2, some base.1, some base.2, some (if b then 1 % E.p else 0),
                some s.1, some s.2, some (E.fmul s.1 s.1),
                some (E.fmul (E.fmul (E.fmul acc.1 acc.2) base.1) base.2)] }
      :: mulRowsBE base rest (E.add s s)

def mulRows (bitsLE : List Bool) (base : Pt) : List Row := E.mulRowsBE base bitsLE.reverse E.id

/-- Rows of `msm`: all `mul` regions, then the `add` regions of the fold. -/
def msmRows (scalars : List (List Bool)) (bases : List Pt) : List Row :=
  let sb := scalars.zip bases
  let prods := sb.map (fun x => E.mul x.1 x.2)
  let mulR := sb.flatMap (fun x => E.mulRows x.1 x.2)
  match prods with
  | [] => mulR
  | q :: qs =>
    let rec go (acc : Pt) : List Pt → List Row
      | [] => []
      | t :: ts => E.addRow acc t :: go (E.add acc t) ts
    mulR ++ go q qs

/-- Rows of `mul_by_constant`. -/
def mulByConstantRows (s : Nat) (P : Pt) : List Row :=
  if s = 0 ∨ s = 1 then [] else E.mulRows (minBitsLE s) P

/-- Rows of `assign`: the cofactor root with `q_mem`, then `mul_by_constant(h, root)`. -/
def assignRows (P : Pt) : List Row :=
  let root := E.cofactorRoot P
  pointRow root :: E.mulByConstantRows (E.h % E.r) root

/-- `assign` returns `h · root`. -/
def assign (P : Pt) : Pt := E.mulByConstant (E.h % E.r) (E.cofactorRoot P)

end EdCurve
end MidnightZK.C06
