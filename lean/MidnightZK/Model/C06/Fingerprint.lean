/-!
# C06 — structural fingerprints of the ECC instructions

For each chip (`jub` native, `secp` / `bls` foreign), instruction (with its fixed parameters:
the constant of `mul_const`, the bounds / bit lengths of the msm variants) and pattern of
witness (`w`) / constant (`f`) / constant-identity (`i`) inputs: the number of rows on which every selector of the `FromScratch`
constraint system is enabled (native arithmetic gate, pow2range lookups, foreign-field
multiplication / normalisation, the EC gates, …) and the number of assigned advice cells in the
whole one-instruction circuit (inputs, instruction, nothing else).

Circuit structure does not depend on witness values, so each entry is a single vector. The table
is a recorded snapshot of the reviewed implementation (hand-maintained, NOT regenerated): the
instruction-level theorems of `Props/C06.lean` (`foreign_add_complete_sound`, …) list the
assertions an instruction must emit; a code change that adds or drops an assertion, a range
check or a normalisation changes the vector and is flagged by the correspondence check even
when honest witnesses still verify.
-/
namespace MidnightZK.C06

def fingerprint (chip op pattern : String) : Option String :=
  match chip, op, pattern with
  | "bls", "add", "wf" => some "sel=396,0,0,272,0,0,0,0,1,3,1,3,1,2,0 adv=2106"
  | "bls", "add", "wi" => some "sel=306,0,0,203,0,0,0,0,1,0,1,3,1,2,0 adv=1647"
  | "bls", "add", "ww" => some "sel=466,0,0,340,0,0,0,0,2,3,2,3,1,2,0 adv=2499"
  | "bls", "assign", "w" => some "sel=70,0,0,68,0,0,0,0,1,0,1,0,0,0,0 adv=393"
  | "bls", "assign_fixed", "w" => some "sel=0,0,0,0,0,0,0,0,0,0,0,0,0,0,0 adv=0"
  | "bls", "coords", "w" => some "sel=110,0,0,108,0,0,0,0,2,0,2,0,0,0,0 adv=642"
  | "bls", "double", "w" => some "sel=155,0,0,150,0,0,0,0,1,0,1,1,1,1,0 adv=905"
  | "bls", "is_equal", "ww" => some "sel=245,0,0,182,0,0,0,0,2,2,2,0,0,0,0 adv=1258"
  | "bls", "msm", "w" => some "sel=20393,0,0,19140,22,0,0,16,3,7,2,329,133,231,64 adv=124479"
  | "bls", "msm", "ww" => some "sel=28946,0,0,26977,44,0,0,32,5,9,3,518,134,326,128 adv=177931"
  | "bls", "msm", "wwf" => some "sel=37427,0,0,34745,66,0,0,48,6,11,3,708,134,421,192 adv=230997"
  | "bls", "msm_bits:255", "w" => some "sel=29866,0,0,28266,0,0,0,0,2,5,2,426,260,343,64 adv=181036"
  | "bls", "msm_bits:258", "w" => some "sel=30297,0,0,28675,0,0,0,0,2,5,2,432,264,348,65 adv=183646"
  | "bls", "msm_bits:3", "w" => some "sel=2713,0,0,2499,0,0,0,0,2,5,2,48,8,28,1 adv=16543"
  | "bls", "msm_bounded:64", "w" => some "sel=9177,0,0,8634,5,0,0,4,2,5,2,138,68,103,16 adv=55714"
  | "bls", "mul_const:0x0", "w" => some "sel=100,0,0,68,0,0,0,0,1,0,1,0,0,0,0 adv=513"
  | "bls", "mul_const:0x1", "w" => some "sel=100,0,0,68,0,0,0,0,1,0,1,0,0,0,0 adv=513"
  | "bls", "mul_const:0x10000000000000000", "w" => some "sel=5540,0,0,5316,0,0,0,0,1,0,1,64,64,64,0 adv=33281"
  | "bls", "mul_const:0x100000000000000000000000000000000", "w" => some "sel=16505,0,0,15587,0,0,0,0,2,5,2,240,136,188,33 adv=100093"
  | "bls", "mul_const:0x100000000000000000000000000000000000000000000003039", "w" => some "sel=24263,0,0,22949,0,0,0,0,2,5,2,348,208,278,51 adv=147091"
  | "bls", "mul_const:0x100000000000000000000000000000001", "w" => some "sel=16505,0,0,15587,0,0,0,0,2,5,2,240,136,188,33 adv=100093"
  | "bls", "mul_const:0x10000000000000001", "w" => some "sel=5623,0,0,5397,0,0,0,0,1,0,1,66,64,65,0 adv=33800"
  | "bls", "mul_const:0x10000000000000005", "w" => some "sel=5706,0,0,5478,0,0,0,0,1,0,1,68,64,66,0 adv=34319"
  | "bls", "mul_const:0x2", "w" => some "sel=185,0,0,150,0,0,0,0,1,0,1,1,1,1,0 adv=1025"
  | "bls", "mul_const:0x73eda753299d7d483339d80809a1d80553bda402fffe5bfeffffffff00000000", "w" => some "sel=29866,0,0,28266,0,0,0,0,2,5,2,426,260,343,64 adv=181036"
  | "bls", "mul_const:0x8", "w" => some "sel=355,0,0,314,0,0,0,0,1,0,1,3,3,3,0 adv=2049"
  | "bls", "mul_const:0x80000000000000000000000000000000", "w" => some "sel=10895,0,0,10482,0,0,0,0,1,0,1,127,127,127,0 adv=65537"
  | "bls", "mul_const:0x80000000000000000000000000000001", "w" => some "sel=10978,0,0,10563,0,0,0,0,1,0,1,129,127,128,0 adv=66056"
  | "bls", "mul_const:0xc1258acd66282b7ccc627f7f65e27faac425bfd0001a40100000000fffffffe", "w" => some "sel=29435,0,0,27857,0,0,0,0,2,5,2,420,256,338,63 adv=178426"
  | "bls", "mul_const:0xffffffffffffffff", "w" => some "sel=10684,0,0,10337,0,0,0,0,1,0,1,189,63,126,0 adv=65466"
  | "bls", "mul_const:0xffffffffffffffffffffffffffffffff", "w" => some "sel=21436,0,0,20769,0,0,0,0,1,0,1,381,127,254,0 adv=131450"
  | "bls", "neg", "w" => some "sel=100,0,0,91,0,0,0,0,1,1,1,0,0,0,0 adv=539"
  | "bls", "select", "ww" => some "sel=155,0,0,136,0,0,0,0,2,0,2,0,0,0,0 adv=846"
  | "bls", "subgroup_check", "w" => some "sel=14696,0,0,14193,0,0,0,0,2,0,2,219,125,172,0 adv=89299"
  | "jub", "add", "wf" => some "sel=0,0,0,0,3,5,1 adv=45"
  | "jub", "add", "wi" => some "sel=0,0,0,0,3,5,1 adv=45"
  | "jub", "add", "ww" => some "sel=0,0,0,0,6,9,2 adv=82"
  | "jub", "assign", "w" => some "sel=0,0,0,0,3,4,1 adv=37"
  | "jub", "assign_fixed", "w" => some "sel=0,0,0,0,0,0,0 adv=0"
  | "jub", "coords", "w" => some "sel=0,0,0,0,6,8,2 adv=74"
  | "jub", "double", "w" => some "sel=0,0,0,0,3,5,1 adv=45"
  | "jub", "is_equal", "ww" => some "sel=5,0,0,0,6,8,2 adv=94"
  | "jub", "map_to_curve", "w" => some "sel=102,0,0,18,3,4,1 adv=392 copies=198"
  | "jub", "msm", "w" => some "sel=0,0,0,63,254,256,1 adv=2556"
  | "jub", "msm", "ww" => some "sel=0,0,0,126,508,513,2 adv=5120"
  | "jub", "msm", "wwf" => some "sel=0,0,0,189,759,766,2 adv=7647"
  | "jub", "msm", "wwi" => some "sel=0,0,0,189,759,766,2 adv=7647"
  | "jub", "mul_const:0x0", "w" => some "sel=0,0,0,0,3,4,1 adv=37"
  | "jub", "mul_const:0x1", "w" => some "sel=0,0,0,0,3,4,1 adv=37"
  | "jub", "mul_const:0x10000000000000000", "w" => some "sel=0,0,0,0,67,69,1 adv=621"
  | "jub", "mul_const:0x100000000000000000000000000000000", "w" => some "sel=0,0,0,0,131,133,1 adv=1197"
  | "jub", "mul_const:0x100000000000000000000000000000000000000000000003039", "w" => some "sel=0,0,0,0,203,205,1 adv=1845"
  | "jub", "mul_const:0x100000000000000000000000000000001", "w" => some "sel=0,0,0,0,131,133,1 adv=1197"
  | "jub", "mul_const:0x10000000000000001", "w" => some "sel=0,0,0,0,67,69,1 adv=621"
  | "jub", "mul_const:0x10000000000000005", "w" => some "sel=0,0,0,0,67,69,1 adv=621"
  | "jub", "mul_const:0x1824b159acc5056f998c4fefecbc4ff5997df6c3337ef7d2f68f1a12908d348", "w" => some "sel=0,0,0,0,251,253,1 adv=2277"
  | "jub", "mul_const:0x2", "w" => some "sel=0,0,0,0,4,6,1 adv=54"
  | "jub", "mul_const:0x8", "w" => some "sel=0,0,0,0,6,8,1 adv=72"
  | "jub", "mul_const:0x80000000000000000000000000000000", "w" => some "sel=0,0,0,0,130,132,1 adv=1188"
  | "jub", "mul_const:0x80000000000000000000000000000001", "w" => some "sel=0,0,0,0,130,132,1 adv=1188"
  | "jub", "mul_const:0xe7db4ea6533afa906673b0101343b00a6682093ccc81082d0970e5ed6f72cb6", "w" => some "sel=0,0,0,0,254,256,1 adv=2304"
  | "jub", "mul_const:0xffffffffffffffff", "w" => some "sel=0,0,0,0,66,68,1 adv=612"
  | "jub", "mul_const:0xffffffffffffffffffffffffffffffff", "w" => some "sel=0,0,0,0,130,132,1 adv=1188"
  | "jub", "mul_convert", "w" => some "sel=82,0,0,73,257,259,1 adv=2724"
  | "jub", "mul_le_bytes", "w" => some "sel=72,0,0,72,258,260,1 adv=2702"
  | "jub", "neg", "w" => some "sel=1,0,0,0,3,4,1 adv=39"
  | "jub", "select", "ww" => some "sel=3,0,0,0,6,8,2 adv=84"
  | "secp", "add", "wf" => some "sel=230,0,0,154,0,0,0,0,0,0,1,3,1,3,1,2,0 adv=1217"
  | "secp", "add", "wi" => some "sel=176,0,0,112,0,0,0,0,0,0,1,0,1,3,1,2,0 adv=941"
  | "secp", "add", "ww" => some "sel=270,0,0,192,0,0,0,0,0,0,2,3,2,3,1,2,0 adv=1440"
  | "secp", "assign", "w" => some "sel=40,0,0,38,0,0,0,0,0,0,1,0,1,0,0,0,0 adv=223"
  | "secp", "assign_fixed", "w" => some "sel=0,0,0,0,0,0,0,0,0,0,0,0,0,0,0,0,0 adv=0"
  | "secp", "coords", "w" => some "sel=62,0,0,60,0,0,0,0,0,0,2,0,2,0,0,0,0 adv=362"
  | "secp", "double", "w" => some "sel=88,0,0,83,0,0,0,0,0,0,1,0,1,1,1,1,0 adv=511"
  | "secp", "is_equal", "ww" => some "sel=143,0,0,104,0,0,0,0,0,0,2,2,2,0,0,0,0 adv=730"
  | "secp", "msm", "w" => some "sel=11611,0,0,10568,149,0,0,119,1,4,3,7,2,329,133,231,64 adv=71181"
  | "secp", "msm", "ww" => some "sel=16527,0,0,14924,298,0,0,238,2,8,5,9,3,518,134,326,128 adv=102359"
  | "secp", "msm", "wwf" => some "sel=21402,0,0,19242,447,0,0,357,3,12,6,11,3,708,134,421,192 adv=133320"
  | "secp", "msm_bits:256", "w" => some "sel=16981,0,0,15565,0,0,0,0,0,0,2,5,2,426,260,343,64 adv=102396"
  | "secp", "msm_bits:259", "w" => some "sel=17226,0,0,15790,0,0,0,0,0,0,2,5,2,432,264,348,65 adv=103871"
  | "secp", "msm_bits:3", "w" => some "sel=1546,0,0,1390,0,0,0,0,0,0,2,5,2,48,8,28,1 adv=9407"
  | "secp", "msm_bounded:64", "w" => some "sel=5214,0,0,4765,34,0,0,26,0,1,2,5,2,138,68,103,16 adv=31665"
  | "secp", "mul_const:0x0", "w" => some "sel=58,0,0,38,0,0,0,0,0,0,1,0,1,0,0,0,0 adv=295"
  | "secp", "mul_const:0x1", "w" => some "sel=58,0,0,38,0,0,0,0,0,0,1,0,1,0,0,0,0 adv=295"
  | "secp", "mul_const:0x10000000000000000", "w" => some "sel=3130,0,0,2918,0,0,0,0,0,0,1,0,1,64,64,64,0 adv=18727"
  | "secp", "mul_const:0x100000000000000000000000000000000", "w" => some "sel=9386,0,0,8590,0,0,0,0,0,0,2,5,2,240,136,188,33 adv=56637"
  | "secp", "mul_const:0x100000000000000000000000000000000000000000000003039", "w" => some "sel=13796,0,0,12640,0,0,0,0,0,0,2,5,2,348,208,278,51 adv=83205"
  | "secp", "mul_const:0x100000000000000000000000000000001", "w" => some "sel=9386,0,0,8590,0,0,0,0,0,0,2,5,2,240,136,188,33 adv=56637"
  | "secp", "mul_const:0x10000000000000001", "w" => some "sel=3177,0,0,2963,0,0,0,0,0,0,1,0,1,66,64,65,0 adv=19021"
  | "secp", "mul_const:0x10000000000000005", "w" => some "sel=3224,0,0,3008,0,0,0,0,0,0,1,0,1,68,64,66,0 adv=19315"
  | "secp", "mul_const:0x14551231950b75fc4402da1732fc9bebe", "w" => some "sel=9386,0,0,8590,0,0,0,0,0,0,2,5,2,240,136,188,33 adv=56637"
  | "secp", "mul_const:0x2", "w" => some "sel=106,0,0,83,0,0,0,0,0,0,1,0,1,1,1,1,0 adv=583"
  | "secp", "mul_const:0x8", "w" => some "sel=202,0,0,173,0,0,0,0,0,0,1,0,1,3,3,3,0 adv=1159"
  | "secp", "mul_const:0x80000000000000000000000000000000", "w" => some "sel=6154,0,0,5753,0,0,0,0,0,0,1,0,1,127,127,127,0 adv=36871"
  | "secp", "mul_const:0x80000000000000000000000000000001", "w" => some "sel=6201,0,0,5798,0,0,0,0,0,0,1,0,1,129,127,128,0 adv=37165"
  | "secp", "mul_const:0xffffffffffffffff", "w" => some "sel=6043,0,0,5708,0,0,0,0,0,0,1,0,1,189,63,126,0 adv=36961"
  | "secp", "mul_const:0xfffffffffffffffffffffffffffffffebaaedce6af48a03bbfd25e8cd0364140", "w" => some "sel=16981,0,0,15565,0,0,0,0,0,0,2,5,2,426,260,343,64 adv=102396"
  | "secp", "mul_const:0xffffffffffffffffffffffffffffffff", "w" => some "sel=12123,0,0,11468,0,0,0,0,0,0,1,0,1,381,127,254,0 adv=74209"
  | "secp", "neg", "w" => some "sel=58,0,0,52,0,0,0,0,0,0,1,1,1,0,0,0,0 adv=311"
  | "secp", "select", "ww" => some "sel=89,0,0,76,0,0,0,0,0,0,2,0,2,0,0,0,0 adv=482"
  | _, _, _ => none

end MidnightZK.C06
